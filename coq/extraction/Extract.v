(* Extraction of the executable model to OCaml.  Only ExtrOcamlBasic is used (bool, option, unit,
   list, prod, sumbool, sumor -> the OCaml types); numbers stay the extracted inductives.
   No Extract Constant / Extract Inductive of our own. *)
From Coq Require Import Extraction ExtrOcamlBasic.
From KP Require Import Bytes Utf8 Nav Tree History Merge Version ReadScript WriteScript Base32 Otp OtpInst Kdbx4 Key Kdbx3 Kdb XmlTypes XmlDump XmlParse XmlSpec XmlText.
Extraction Language OCaml.
Set Extraction KeepSingleton.
Separate Extraction
  BinInt.Z.add BinNat.N.add Nat.add
  Nav.iter Nav.get Nav.get_mut Nav.entries Nav.groups Nav.uuid_of
  History.update_history History.apply_hop History.run_hops
  Merge.merge
  ReadScript.read_to_end ReadScript.rte_fuel ReadScript.get_version_model Version.version_parse
  Base32.b32_decode Base32.b32_encode Otp.otp_parse Otp.value_at OtpInst.hmac_alg BinNat.N.mul BinNat.N.div BinNat.N.modulo
  Kdbx4.decrypt4 Kdbx4.dump4 Kdbx4.draw_sizes Kdbx4.vd_of_kdf Kdbx4.draws_ok
  Key.key_elements Key.composite_kdb Key.composite_kdbx
  Kdbx3.decrypt3 Kdbx3.frame3 Kdb.kdb_open Kdb.parse_db Kdb.payload_enc
  XmlDump.dump_content XmlDump.dump_fails XmlParse.parse_events XmlSpec.wf_content XmlSpec.protected_values_in_order XmlText.lex_xml XmlText.render_xml
  WriteScript.save_to_sink WriteScript.fresh_sink WriteScript.save_raw.

(* C11 - Save writes the complete file to any sink or reports failure.
   Statements only.  Model: io/WriteScript.v (sinks as scripts; std's write_all on top of
   Write::write; the four destination writes of dump_kdbx4).  [pieces] are the byte strings
   written (header, header hash, header HMAC, block stream): the theorems hold for all of them. *)
From KP Require Import Bytes Outcome LE ReadScript WriteScript WriteProofs.

(* Ok => the sink holds the whole file; Err => it is the sink's own error, raised inside the file *)
Theorem c11_save_complete : forall pieces k,
  sink_ok k ->
  (exists k', save_to_sink pieces k = Ok k' /\ k_recv k' = k_recv k ++ concat pieces)
  \/
  (exists off kind, k_fail k = Some (off, kind) /\ save_to_sink pieces k = Err kind
                    /\ (length (k_recv k) <= off < length (k_recv k) + length (concat pieces))%nat).
Proof. exact save_complete. Qed.

(* a failure at any offset strictly inside the file is reported, whatever the short-write schedule *)
Theorem c11_save_reports_failure : forall pieces script off kind,
  kind <> KInterrupted -> (off < length (concat pieces))%nat ->
  save_to_sink pieces (fresh_sink script (Some (off, kind))) = Err kind.
Proof. exact save_reports_failure. Qed.

(* no failure inside the file: success, and everything delivered, whatever the schedule *)
Theorem c11_save_succeeds : forall pieces script fail,
  (match fail with Some (off, kind) => (length (concat pieces) <= off)%nat /\ kind <> KInterrupted | None => True end) ->
  exists k', save_to_sink pieces (fresh_sink script fail) = Ok k' /\ k_recv k' = concat pieces.
Proof. exact save_succeeds. Qed.

(* the std loop itself *)
Theorem c11_write_all_spec : forall fuel buf k,
  sink_ok k ->
  (S (length buf + length (k_script k)) <= fuel)%nat ->
  (exists k', write_all fuel buf k = Ok k' /\ k_recv k' = k_recv k ++ buf /\ k_fail k' = k_fail k
              /\ (length (k_script k') <= length (k_script k))%nat /\ sink_ok k')
  \/
  (exists off kind, k_fail k = Some (off, kind) /\ write_all fuel buf k = Err kind
                    /\ (length (k_recv k) <= off < length (k_recv k) + length buf)%nat).
Proof. exact write_all_spec. Qed.

(* the unrepaired code (raw write, count discarded) violates the property: kept as a record *)
Theorem c11_raw_write_refuted :
  exists pieces k, sink_ok k /\
    match save_raw pieces k with
    | Ok k' => k_recv k' <> concat pieces
    | _ => False
    end.
Proof. exact save_raw_refuted. Qed.

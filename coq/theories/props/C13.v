(* C13 - Merging is idempotent and merging a database with itself changes nothing.
   Statements only.  Model: db/Merge.v (tied to src/db/mod.rs, group.rs, entry.rs by the merge
   correspondence run).  Component-level idempotence is proved here; the tree-level statement
   is carried by the correspondence sweep and listed as partial in the evidence. *)
From KP Require Import Bytes Outcome Tree TreeFacts History Merge MergeProofs MergeLookup MergeTermination MergeUuids MergeSelf MergePlaceWalk MergeTwice MergeTwiceDel.

(* a second merge of the same source group changes nothing and reports nothing *)
Theorem c13_group_merge_idem : forall now d s d' lg,
  gi_uuid d = gi_uuid s ->
  t_lm (gi_times d) <> None -> t_lm (gi_times s) <> None ->
  group_merge_with now d s = Ok (d', lg) ->
  group_merge_with now d' s = Ok (d', []).
Proof. exact group_merge_idem. Qed.

(* merging a group with itself: no change, no event *)
Theorem c13_group_merge_self : forall now d,
  t_lm (gi_times d) <> None -> group_merge_with now d d = Ok (d, []).
Proof. exact group_merge_self. Qed.

(* the tombstone list after a merge extends the list before: a second merge cannot drop any *)
Theorem c13_tombstones_only_grow : forall now d s d' lg,
  merge now d s = Ok (d', lg) ->
  exists added, db_deleted d' = db_deleted d ++ added /\ incl added (db_deleted s).
Proof. exact merge_tombstones_monotone. Qed.

(* the deletion phase keeps UUIDs unique and a group root a group, so a second merge starts from a
   well-formed tree again *)
Theorem c13_deletions_keep_wellformed : forall now root deleted src_deleted,
  uuids_unique (children_of root) ->
  exists root' deleted' lg,
    merge_deletions now root deleted src_deleted = Ok (root', deleted', lg)
    /\ uuids_unique (children_of root') /\ is_group root' = is_group root.
Proof. exact merge_deletions_ok. Qed.

(* ---------------- self-merge at the level of the whole database (db/MergeSelf.v) ----------------
   Merging a database with itself returns it unchanged with an empty log: for every database (any
   size, depth, entries, histories, tombstones) whose UUIDs, root included, are pairwise distinct
   and whose groups, root included since the repair F19 (the root's own fields are merged now),
   carry a LastModificationTime.  Both conditions are needed
   (MergeSelf.cx_lm_needed, cx_root_lm_needed, cx_dup_needed, cx_root2_needed).  Idempotence of a
   SECOND merge of another source is proved per component above and carried end to end by the
   correspondence sweep; it is false in the corner recorded as finding F15b. *)
From KP Require Import MergeSelf.
Theorem c13_merge_self : forall now d, wf_self d -> merge now d d = Ok (d, []).
Proof. exact merge_self. Qed.

(* the deletion phase of a self-merge is a no-op for ANY tombstone list *)
Theorem c13_merge_deletions_self : forall now root del, merge_deletions now root del del = Ok (root, del, []).
Proof. exact merge_deletions_self. Qed.

(* ---- the second merge of the same source, tree level (db/MergeTwice.v) ------------------------ *)
(* If the first merge of s into d succeeded, merging s again returns the SAME database and reports no
   event (warnings - an uncommitted source entry, a missing stamp - are repeated on every merge).
   Domain: the destination holds no tombstones yet, the source's tombstones name nodes outside the
   source tree, every group present in both replicas has the same parent in both (entries may have been
   moved by either side), the source's entries are stamped. *)
Theorem c13_second_merge_is_noop : forall (now : Z) (d s d1 : db) (lg1 : log),
  uuids_ok d -> uuids_ok s -> gi_uuid (db_root_info d) = gi_uuid (db_root_info s) ->
  db_deleted d = [] -> tombs_outside s -> (0 <= now)%Z -> entries_lm s -> same_group_parents d s ->
  merge now d s = Ok (d1, lg1) ->
  exists lg2 : log, merge now d1 s = Ok (d1, lg2) /\ is_warns lg2 /\
                    (forall (t : evtype) (u : N), ~ In (Ev t u) lg2).
Proof. exact merge_twice. Qed.

(* the deletion phase applied twice, for any tombstone lists *)
Theorem c13_deletion_phase_twice : forall (now : Z) (root : node) (del src : list dobj) (root' : node)
                                          (del' : list dobj) (lg : log),
  uuids_unique (children_of root) ->
  merge_deletions now root del src = Ok (root', del', lg) ->
  exists lg' : log, merge_deletions now root' del' src = Ok (root', del', lg') /\ is_warns lg'.
Proof. exact merge_deletions_twice. Qed.

(* History::merge_with applied twice *)
Theorem c13_history_merge_twice : forall (a b h : list entry) (lg : log),
  history_merge_with a b = Ok (h, lg) ->
  exists lg' : log, history_merge_with h b = Ok (h, lg') /\ is_warns lg'.
Proof. exact history_merge_twice. Qed.

(* not vacuous: replicas with edits on both sides, an entry moved by each side, a source deletion and a
   source tombstone for a foreign node meet the hypotheses, and the second merge is computed *)
Theorem c13_second_merge_example :
  (uuids_okb tx_d = true /\ uuids_okb tx_s = true /\
   N.eqb (gi_uuid (db_root_info tx_d)) (gi_uuid (db_root_info tx_s)) = true /\
   db_deleted tx_d = [] /\ tombs_outsideb tx_s = true /\ Z.leb 0 20 = true /\
   entries_lmb tx_s = true /\ same_group_parentsb tx_d tx_s = true)
  /\ merge 20 tx_d1 tx_s = Ok (tx_d1, []).
Proof. exact tx_example. Qed.

(* the same with ANY tombstones already present in the destination (db/MergeTwiceDel.v): source nodes
   the first merge skipped because the destination had deleted them, or that lie below such a group,
   are skipped again *)
Theorem c13_second_merge_is_noop_any_tombstones : forall (now : Z) (d s d1 : db) (lg1 : log),
  uuids_ok d -> uuids_ok s -> gi_uuid (db_root_info d) = gi_uuid (db_root_info s) ->
  tombs_outside s -> (0 <= now)%Z -> entries_lm s -> same_group_parents d s ->
  merge now d s = Ok (d1, lg1) ->
  exists lg2 : log, merge now d1 s = Ok (d1, lg2) /\ is_warns lg2 /\
                    (forall (t : evtype) (u : N), ~ In (Ev t u) lg2).
Proof. exact merge_twice_any_tombs. Qed.

(* C13 - Merging is idempotent and merging a database with itself changes nothing.
   Statements only.  Model: db/Merge.v (tied to src/db/mod.rs, group.rs, entry.rs by the merge
   correspondence run).  Component-level idempotence is proved here; the tree-level statement
   is carried by the correspondence sweep and listed as partial in the evidence. *)
From KP Require Import Bytes Outcome Tree TreeFacts History Merge MergeProofs MergeLookup MergeTermination MergeUuids.

(* a second merge of the same source group changes nothing and reports nothing *)
Theorem c13_group_merge_idem : forall now d s d' lg,
  gi_uuid d = gi_uuid s ->
  t_lm (gi_times d) <> None -> t_lm (gi_times s) <> None ->
  group_merge_with now d s = Ok (d', lg) ->
  group_merge_with now d' s = Ok (d', []).
Proof. exact group_merge_idem. Qed.

(* merging a group with itself: no change, no event *)
Theorem c13_group_merge_self : forall now d,
  t_lm (gi_times d) <> None -> group_merge_with now d d = Ok (d, []).
Proof. exact group_merge_self. Qed.

(* the tombstone list after a merge extends the list before: a second merge cannot drop any *)
Theorem c13_tombstones_only_grow : forall now d s d' lg,
  merge now d s = Ok (d', lg) ->
  exists added, db_deleted d' = db_deleted d ++ added /\ incl added (db_deleted s).
Proof. exact merge_tombstones_monotone. Qed.

(* the deletion phase keeps UUIDs unique and a group root a group, so a second merge starts from a
   well-formed tree again *)
Theorem c13_deletions_keep_wellformed : forall now root deleted src_deleted,
  uuids_unique (children_of root) ->
  exists root' deleted' lg,
    merge_deletions now root deleted src_deleted = Ok (root', deleted', lg)
    /\ uuids_unique (children_of root') /\ is_group root' = is_group root.
Proof. exact merge_deletions_ok. Qed.

(* ---------------- self-merge at the level of the whole database (db/MergeSelf.v) ----------------
   Merging a database with itself returns it unchanged with an empty log: for every database (any
   size, depth, entries, histories, tombstones) whose UUIDs, root included, are pairwise distinct
   and whose groups, root included since the repair F19 (the root's own fields are merged now),
   carry a LastModificationTime.  Both conditions are needed
   (MergeSelf.cx_lm_needed, cx_root_lm_needed, cx_dup_needed, cx_root2_needed).  Idempotence of a
   SECOND merge of another source is proved per component above and carried end to end by the
   correspondence sweep; it is false in the corner recorded as finding F15b. *)
From KP Require Import MergeSelf.
Theorem c13_merge_self : forall now d, wf_self d -> merge now d d = Ok (d, []).
Proof. exact merge_self. Qed.

(* the deletion phase of a self-merge is a no-op for ANY tombstone list *)
Theorem c13_merge_deletions_self : forall now root del, merge_deletions now root del del = Ok (root, del, []).
Proof. exact merge_deletions_self. Qed.

(* C17 - Entry history records every committed change once, newest first, without nesting.
   Statements only.  Model: db/History.v over db/Tree.v (tied to src/db/entry.rs by the C17
   correspondence run).  "Differs ignoring time stamps and history" is [differs]: the code compares
   the entry and the newest item with the whole Times record reset and the history removed, i.e.
   uuid and every data field - exactly what [sanitize] keeps. *)
From KP Require Import Bytes Tree TreeFacts History HistoryProofs.

Theorem c17_commit_adds_iff : forall now e,
  snd (update_history now e) = true <->
  (e_hist e = None \/ e_hist e = Some [] \/
   exists last tl, e_hist e = Some (last :: tl) /\ differs e last).
Proof. exact commit_adds_iff. Qed.

Theorem c17_commit_added : forall now e,
  snd (update_history now e) = true ->
  let e' := fst (update_history now e) in
  let item := mkEntry (e_uuid e) (e_data e) (set_lm (e_times e) now) None in
  e_hist e' = Some (item :: hist_list e)
  /\ strip e' = item
  /\ e_uuid e' = e_uuid e /\ e_data e' = e_data e
  /\ e_times e' = set_lm (e_times e) now.
Proof. exact commit_added. Qed.

Theorem c17_commit_noop : forall now e,
  snd (update_history now e) = false -> fst (update_history now e) = e.
Proof. exact commit_noop. Qed.

Theorem c17_commit_twice : forall now now' e,
  snd (update_history now' (fst (update_history now e))) = false.
Proof. exact commit_twice. Qed.

Theorem c17_no_nesting : forall e ops, no_nesting e -> no_nesting (run_hops e ops).
Proof. exact no_nesting_inv. Qed.

Theorem c17_external_item_stripped : forall e x,
  exists tl, hist_list (apply_hop e (OpAddExternal x)) = mkEntry (e_uuid x) (e_data x) (e_times x) None :: tl
             /\ tl = hist_list e.
Proof. exact add_external_strips. Qed.

Theorem c17_history_grows_in_front : forall e ops,
  exists pre, hist_list (run_hops e ops) = pre ++ hist_list e /\ length pre <= length ops.
Proof. exact history_grows_in_front. Qed.

Theorem c17_lm_changes_only_on_commit : forall e o,
  t_lm (e_times (apply_hop e o)) = t_lm (e_times e) \/
  exists now, o = OpCommit now /\ snd (update_history now e) = true
              /\ t_lm (e_times (apply_hop e o)) = Some now.
Proof. exact lm_changes_only_on_commit. Qed.

(* Non-vacuity: set, commit, revert to the earlier value, commit, edit, commit, commit. *)
Local Open Scope N_scope.
Definition ex_entry : entry := mkEntry 1 10 (mkTimes (Some 5%Z) None 0) None.
Example c17_ex_script :
  let e := run_hops ex_entry
             [OpSetData 11; OpCommit 100%Z; OpSetData 10; OpCommit 101%Z; OpCommit 102%Z;
              OpAddExternal (mkEntry 1 12 times_default (Some [ex_entry])); OpCommit 103%Z] in
  map e_data (hist_list e) = [10; 12; 10; 11]
  /\ map (fun h => t_lm (e_times h)) (hist_list e) = [Some 103%Z; None; Some 101%Z; Some 100%Z]
  /\ no_nesting e.
Proof. vm_compute. repeat split; repeat constructor. Qed.

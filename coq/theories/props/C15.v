(* C15 - Merge honours deletions exactly when they are newer, and never resurrects.
   Statements only.  Model: db/Merge.v. *)
From KP Require Import Bytes Outcome Tree TreeFacts History Merge MergeProofs MergeLookup MergeTermination MergeUuids.
Local Open Scope Z_scope.

(* the destination's tombstone list only grows, by tombstones of the source *)
Theorem c15_tombstones_monotone : forall now d s d' lg,
  merge now d s = Ok (d', lg) ->
  exists added, db_deleted d' = db_deleted d ++ added /\ incl added (db_deleted s).
Proof. exact merge_tombstones_monotone. Qed.

(* entry rule: removed and tombstoned iff strictly older than the deletion, else untouched *)
Theorem c15_entry_deletion_rule : forall now st o loc pi pc e lm,
  deleted_contains (ds_deleted st) (d_uuid o) = false ->
  fnl_db (d_uuid o) (children_of (ds_root st)) = Some loc ->
  find_group loc (ds_root st) = Some (pi, pc) ->
  find (fun c => N.eqb (uuid_of c) (d_uuid o)) pc = Some (NE e) ->
  t_lm (e_times e) = Some lm ->
  (lm < d_time o ->
     forall kept root1 nd, remove_node (d_uuid o) pc = Some (nd, kept) ->
       put_group loc pi kept (ds_root st) = Some root1 ->
       del_entry_step now st o =
       Ok (mkDstate root1 (ds_deleted st ++ [o]) (ds_log st ++ [Ev EntryDeleted (d_uuid o)])))
  /\ (d_time o <= lm -> del_entry_step now st o = Ok (mkDstate (ds_root st) (ds_deleted st) (ds_log st ++ []))).
Proof. exact entry_deletion_rule. Qed.

(* a node the destination has tombstoned (and does not hold) is never re-created from the source *)
Theorem c15_no_resurrection : forall now d s d' lg u,
  merge now d s = Ok (d', lg) ->
  deleted_contains (db_deleted d) u = true ->
  ~ In u (tree_uuids (db_root d)) -> ~ In u (tree_uuids (db_root d')).
Proof. exact no_resurrection. Qed.

(* for every order (and multiplicity) of the source's tombstone list the deletion phase succeeds *)
Theorem c15_deletions_total : forall now root deleted src_deleted,
  uuids_unique (children_of root) ->
  exists root' deleted' lg,
    merge_deletions now root deleted src_deleted = Ok (root', deleted', lg)
    /\ uuids_unique (children_of root') /\ is_group root' = is_group root.
Proof. exact merge_deletions_ok. Qed.

(* nothing disappears from the destination without a deletion event for it (db/MergeUnique.v) *)
From KP Require Import MergeUnique.
Theorem c15_disappearance_is_logged_deletion : forall now d s d' lg,
  uuids_unique (db_children d) -> merge now d s = Ok (d', lg) ->
  forall u, In u (tree_uuids (db_root d)) ->
    In u (tree_uuids (db_root d')) \/ In (Ev EntryDeleted u) lg \/ In (Ev GroupDeleted u) lg.
Proof. exact merge_conserves. Qed.

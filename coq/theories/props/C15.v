(* C15 - Merge honours deletions exactly when they are newer, and never resurrects.
   Statements only.  Model: db/Merge.v. *)
From KP Require Import Bytes Outcome Tree TreeFacts History Merge MergeProofs MergeLookup MergeTermination MergeUuids.
Local Open Scope Z_scope.

(* the destination's tombstone list only grows, by tombstones of the source *)
Theorem c15_tombstones_monotone : forall now d s d' lg,
  merge now d s = Ok (d', lg) ->
  exists added, db_deleted d' = db_deleted d ++ added /\ incl added (db_deleted s).
Proof. exact merge_tombstones_monotone. Qed.

(* entry rule: removed and tombstoned iff strictly older than the deletion, else untouched *)
Theorem c15_entry_deletion_rule : forall now st o loc pi pc e lm,
  deleted_contains (ds_deleted st) (d_uuid o) = false ->
  fnl_db (d_uuid o) (children_of (ds_root st)) = Some loc ->
  find_group loc (ds_root st) = Some (pi, pc) ->
  find (fun c => N.eqb (uuid_of c) (d_uuid o)) pc = Some (NE e) ->
  t_lm (e_times e) = Some lm ->
  (lm < d_time o ->
     forall kept root1 nd, remove_node (d_uuid o) pc = Some (nd, kept) ->
       put_group loc pi kept (ds_root st) = Some root1 ->
       del_entry_step now st o =
       Ok (mkDstate root1 (ds_deleted st ++ [o]) (ds_log st ++ [Ev EntryDeleted (d_uuid o)])))
  /\ (d_time o <= lm -> del_entry_step now st o = Ok (mkDstate (ds_root st) (ds_deleted st) (ds_log st ++ []))).
Proof. exact entry_deletion_rule. Qed.

(* a node the destination has tombstoned (and does not hold) is never re-created from the source *)
Theorem c15_no_resurrection : forall now d s d' lg u,
  merge now d s = Ok (d', lg) ->
  deleted_contains (db_deleted d) u = true ->
  ~ In u (tree_uuids (db_root d)) -> ~ In u (tree_uuids (db_root d')).
Proof. exact no_resurrection. Qed.

(* for every order (and multiplicity) of the source's tombstone list the deletion phase succeeds *)
Theorem c15_deletions_total : forall now root deleted src_deleted,
  uuids_unique (children_of root) ->
  exists root' deleted' lg,
    merge_deletions now root deleted src_deleted = Ok (root', deleted', lg)
    /\ uuids_unique (children_of root') /\ is_group root' = is_group root.
Proof. exact merge_deletions_ok. Qed.

(* nothing disappears from the destination without a deletion event for it (db/MergeUnique.v) *)
From KP Require Import MergeUnique.
Theorem c15_disappearance_is_logged_deletion : forall now d s d' lg,
  uuids_unique (db_children d) -> merge now d s = Ok (d', lg) ->
  forall u, In u (tree_uuids (db_root d)) ->
    In u (tree_uuids (db_root d')) \/ In (Ev EntryDeleted u) lg \/ In (Ev GroupDeleted u) lg.
Proof. exact merge_conserves. Qed.

(* ---------------- the deletion phase as a whole (db/MergeDelTree.v, MergeDel.v) ----------------
   [doomed] is defined by recursion over the TREE only: an entry is doomed iff the destination has no
   tombstone for it and the source has one strictly newer than its last modification; a group iff the
   same holds for it AND all its children are doomed.  For every tree with pairwise distinct UUIDs,
   every tombstone list of any length, order and multiplicity, the deletion phase returns exactly
   the tree with the doomed nodes pruned; hence the result does not depend on the order of the
   source's tombstones, and a tombstone is recorded exactly for the removed nodes. *)
From KP Require Import MergeDelTree MergeDel.
Theorem c15_deletion_phase_is_prune : forall now root deleted src root' deleted' lg,
  uuids_unique (children_of root) ->
  merge_deletions now root deleted src = Ok (root', deleted', lg) ->
  root' = prune now deleted src root.
Proof. exact merge_deletions_prune. Qed.

Theorem c15_entry_deleted_iff : forall now root deleted src root' deleted' lg,
  uuids_unique (children_of root) ->
  merge_deletions now root deleted src = Ok (root', deleted', lg) ->
  forall e, In (NE e) (all_nodes root) ->
  ~ In (e_uuid e) (all_uuids root') <->
  deleted_contains deleted (e_uuid e) = false /\
  (exists o, In o src /\ d_uuid o = e_uuid e /\ (lm_val now (e_times e) < d_time o)%Z).
Proof. exact entry_deleted_iff. Qed.

Theorem c15_group_deleted_iff : forall now root deleted src root' deleted' lg,
  uuids_unique (children_of root) ->
  merge_deletions now root deleted src = Ok (root', deleted', lg) ->
  forall i c, In (NG i c) (all_nodes root) ->
  ~ In (gi_uuid i) (all_uuids root') <->
  deleted_contains deleted (gi_uuid i) = false /\
  (exists o, In o src /\ d_uuid o = gi_uuid i /\ (lm_val now (gi_times i) < d_time o)%Z) /\
  (forall ch, In ch c -> ~ In (uuid_of ch) (all_uuids root')).
Proof. exact group_deleted_iff. Qed.

Theorem c15_order_of_tombstones_irrelevant : forall now root deleted s1 s2,
  uuids_unique (children_of root) -> Permutation.Permutation s1 s2 ->
  exists r d1 l1 d2 l2,
    merge_deletions now root deleted s1 = Ok (r, d1, l1) /\
    merge_deletions now root deleted s2 = Ok (r, d2, l2).
Proof. exact merge_deletions_order_independent_total. Qed.

Theorem c15_tombstone_recorded_iff : forall now root deleted src root' deleted' lg,
  uuids_unique (children_of root) ->
  merge_deletions now root deleted src = Ok (root', deleted', lg) ->
  forall u, deleted_contains deleted' u = true <->
    deleted_contains deleted u = true \/ (In u (all_uuids root) /\ doomed_uuid now deleted src root u = true).
Proof. exact tombstone_recorded_iff. Qed.

(* and within a whole merge: the final tree is the pruned output of the group phase *)
Theorem c15_merge_deletion_phase : forall now d s d' lg,
  uuids_unique (db_children d) -> merge now d s = Ok (d', lg) ->
  exists root1 lg1,
    merge_group now (db_deleted d) [] (db_root s) false (db_root d) = Ok (root1, lg1)
    /\ uuids_unique (children_of root1)
    /\ db_root d' = prune now (db_deleted d) (db_deleted s) root1.
Proof. exact merge_deletion_phase. Qed.

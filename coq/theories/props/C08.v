(* C08 - Saved files leak no database content in clear.
   Statements only.  Model: format/Kdbx4.v (container framing, parametric in the primitives),
   xml/Scalars.v (scalar codecs). *)
From KP Require Import Bytes Outcome LE Version Kdbx4 Kdbx4Facts Scalars ScalarsProofs.
Local Open Scope N_scope.

(* the content (attachments and XML) reaches the file only through the outer cipher: header, header
   hash, header MAC and block framing are functions of configuration, credentials and randomness *)
Theorem c08_only_through_cipher :
  forall sha256 sha512 hmac256 kdf outer_enc compress cfg d vd els atts1 xml1 atts2 xml2 c1 c2,
  compress (c_compression cfg) (inner_header_dump (c_inner cfg) (d_inner_key d) atts1 ++ xml1) = Ok c1 ->
  compress (c_compression cfg) (inner_header_dump (c_inner cfg) (d_inner_key d) atts2 ++ xml2) = Ok c2 ->
  (forall key iv, outer_enc (c_outer cfg) key iv c1 = outer_enc (c_outer cfg) key iv c2) ->
  dump4 sha256 sha512 hmac256 kdf outer_enc compress cfg d vd els atts1 xml1 =
  dump4 sha256 sha512 hmac256 kdf outer_enc compress cfg d vd els atts2 xml2.
Proof. exact dump4_only_through_cipher. Qed.

(* everything after the header is the block framing of the ciphertext under the derived master key *)
Theorem c08_payload_is_ciphertext : forall sha256 sha512 hmac256 kdf outer_enc compress cfg d vd els atts xml file,
  dump4 sha256 sha512 hmac256 kdf outer_enc compress cfg d vd els atts xml = Ok file ->
  exists header transformed encrypted,
    file = header ++ sha256 header
           ++ header_mac sha512 hmac256 (hmac_key_of sha512 (d_master_seed d) transformed) header
           ++ write_blocks sha512 hmac256 encrypted (hmac_key_of sha512 (d_master_seed d) transformed).
Proof. exact dump4_payload_is_ciphertext. Qed.

(* ---------------- protected values inside the payload (model xml/XmlDump.v) ----------------
   The texts of the Protected elements of the written document are, in document order, the base64
   images of the protected values XORed with consecutive, disjoint slices of the inner key stream:
   value i uses the slice that starts at the sum of the lengths of the values before it, and the
   writer leaves the stream at the sum of all lengths. *)
From KP Require Import XmlTypes XmlDump XmlSpec XmlStream XmlRoundTrip XmlAlign.
Theorem c08_protected_texts :
  forall (gzip : bytes -> bytes) (gunzip : bytes -> option bytes) (c : content) (ks : bytes),
  wf_content gzip gunzip c = true -> bytes_ok ks = true ->
  prot_texts (dump_events gzip c ks) = map Base64.b64_encode (enc_stream (protected_values_in_order c) ks).
Proof. exact dump_protected_texts. Qed.

Theorem c08_nth_value_nth_slice :
  forall (l : list bytes) (ks : bytes) (i : nat) (p : bytes),
  nth_error l i = Some p ->
  nth_error (enc_stream l ks) i = Some (xor_ks p (LE.drop (total_length (firstn i l)) ks)).
Proof. exact enc_stream_nth. Qed.

Theorem c08_slice_is_exactly_the_value_length :
  forall p ks : bytes, xor_ks p ks = xor_ks p (LE.take (length p) ks).
Proof. exact xor_ks_prefix. Qed.

Theorem c08_stream_consumed :
  forall (gzip : bytes -> bytes) (c : content) (ks : bytes),
  dump_stream_after gzip c ks = LE.drop (total_length (protected_values_in_order c)) ks.
Proof. exact dump_consumes. Qed.

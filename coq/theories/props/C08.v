(* C08 - Saved files leak no database content in clear.
   Statements only.  Model: format/Kdbx4.v (container framing, parametric in the primitives),
   xml/Scalars.v (scalar codecs). *)
From KP Require Import Bytes Outcome LE Version Kdbx4 Kdbx4Facts Scalars ScalarsProofs.
Local Open Scope N_scope.

(* the content (attachments and XML) reaches the file only through the outer cipher: header, header
   hash, header MAC and block framing are functions of configuration, credentials and randomness *)
Theorem c08_only_through_cipher :
  forall sha256 sha512 hmac256 kdf outer_enc compress cfg d vd els atts1 xml1 atts2 xml2 c1 c2,
  compress (c_compression cfg) (inner_header_dump (c_inner cfg) (d_inner_key d) atts1 ++ xml1) = Ok c1 ->
  compress (c_compression cfg) (inner_header_dump (c_inner cfg) (d_inner_key d) atts2 ++ xml2) = Ok c2 ->
  (forall key iv, outer_enc (c_outer cfg) key iv c1 = outer_enc (c_outer cfg) key iv c2) ->
  dump4 sha256 sha512 hmac256 kdf outer_enc compress cfg d vd els atts1 xml1 =
  dump4 sha256 sha512 hmac256 kdf outer_enc compress cfg d vd els atts2 xml2.
Proof. exact dump4_only_through_cipher. Qed.

(* everything after the header is the block framing of the ciphertext under the derived master key *)
Theorem c08_payload_is_ciphertext : forall sha256 sha512 hmac256 kdf outer_enc compress cfg d vd els atts xml file,
  dump4 sha256 sha512 hmac256 kdf outer_enc compress cfg d vd els atts xml = Ok file ->
  exists header transformed encrypted,
    file = header ++ sha256 header
           ++ header_mac sha512 hmac256 (hmac_key_of sha512 (d_master_seed d) transformed) header
           ++ write_blocks sha512 hmac256 encrypted (hmac_key_of sha512 (d_master_seed d) transformed).
Proof. exact dump4_payload_is_ciphertext. Qed.

(* C20 - Credentials derive the KeePass composite key in every documented encoding.
   Statements only.  Model: format/Key.v (src/key.rs on the events xml-rs delivers), base/Base64.v. *)
From KP Require Import Bytes Outcome LE Base64 Base64Proofs Key KeyProofs.
Local Open Scope N_scope.

(* composite = SHA-256( SHA-256(password) || key-file key ), password first, for each credential shape *)
Theorem c20_composite_password_only : forall sha256 pw,
  key_elements sha256 (Some pw) None = Ok [sha256 pw]
  /\ composite_kdbx sha256 [sha256 pw] = sha256 (sha256 pw ++ []).
Proof. exact composite_password_only. Qed.

Theorem c20_composite_password_and_keyfile : forall sha256 pw buf evs,
  key_elements sha256 (Some pw) (Some (buf, evs)) = Ok [sha256 pw; parse_keyfile sha256 buf evs]
  /\ composite_kdbx sha256 [sha256 pw; parse_keyfile sha256 buf evs]
     = sha256 (sha256 pw ++ parse_keyfile sha256 buf evs).
Proof. exact composite_password_and_keyfile. Qed.

Theorem c20_composite_keyfile_only : forall sha256 buf evs,
  key_elements sha256 None (Some (buf, evs)) = Ok [parse_keyfile sha256 buf evs].
Proof. exact composite_keyfile_only. Qed.

Theorem c20_no_credentials : forall sha256, key_elements sha256 None None = Err KIncorrectKey.
Proof. exact no_credentials. Qed.

(* the key-file cascade: XML payload, else 32 raw bytes, else SHA-256 of the file *)
Theorem c20_keyfile_xml : forall sha256 buf evs k, parse_xml_keyfile evs = Some k -> parse_keyfile sha256 buf evs = k.
Proof. exact keyfile_xml. Qed.
Theorem c20_keyfile_raw32 : forall sha256 buf evs,
  parse_xml_keyfile evs = None -> length buf = 32%nat -> parse_keyfile sha256 buf evs = buf.
Proof. exact keyfile_not_xml_32. Qed.
Theorem c20_keyfile_hashed : forall sha256 buf evs,
  parse_xml_keyfile evs = None -> length buf <> 32%nat -> parse_keyfile sha256 buf evs = sha256 buf.
Proof. exact keyfile_not_xml_other. Qed.

(* version 1 XML: the base64 payload, for every key *)
Theorem c20_keyfile_v1_base64 : forall version k,
  bytes_ok k = true -> bytes_eqb version s_2_0 = false ->
  parse_xml_keyfile (keyfile_doc version (b64_encode k)) = Some k.
Proof. exact keyfile_v1_base64. Qed.

(* version 2 XML: hex, and every white-space character anywhere in the text is ignored *)
Theorem c20_hex_roundtrip : forall k, bytes_ok k = true -> hex_decode (hex_text k) = Some k.
Proof. exact hex_decode_text. Qed.
Theorem c20_hex_ignores_whitespace : forall cps k,
  hex_decode (filter (fun c => negb (is_whitespace c)) cps) = Some k ->
  forall ws pre post, cps = pre ++ post -> is_whitespace ws = true ->
  hex_decode (filter (fun c => negb (is_whitespace c)) (pre ++ ws :: post)) = Some k.
Proof. exact hex_ignores_whitespace. Qed.

(* layout between the XML elements (white space, comments, processing instructions) never matters *)
Theorem c20_keyfile_layout_independent : forall evs1 evs2,
  parse_xml_keyfile (evs1 ++ XOther :: evs2) = parse_xml_keyfile (evs1 ++ evs2).
Proof. exact keyfile_layout_independent. Qed.

(* KDB composes a lone 32-byte element without re-hashing; other lone elements are rejected *)
Theorem c20_composite_kdb_lone : forall sha256 e, length e = 32%nat -> composite_kdb sha256 [e] = Ok e.
Proof. exact composite_kdb_lone. Qed.
Theorem c20_composite_kdb_lone_bad : forall sha256 e, length e <> 32%nat -> composite_kdb sha256 [e] = Err KInvalidKeyFile.
Proof. exact composite_kdb_lone_bad. Qed.
Theorem c20_composite_kdb_two : forall sha256 a b, composite_kdb sha256 [a; b] = Ok (sha256 (a ++ b)).
Proof. exact composite_kdb_two. Qed.

(* C19 - One-time passwords follow RFC 6238 for every secret, time and parameter set.
   Statements only.  Model: db/Otp.v (otpauth parsing on the components the `url` crate returns,
   totp-lite's totp_custom, TOTP::value_at), base/Base32.v (the `base32` crate's codec),
   crypto/{Sha1,Sha256,Sha512,Hmac}.v (executable, pinned to FIPS/RFC vectors in crypto/Vectors.v). *)
From KP Require Import Bytes Outcome LE Base32 Base32Proofs Otp OtpProofs OtpInst.
Local Open Scope N_scope.

(* the base32 secret: decode inverts encode, so re-encoding a decoded secret gives the canonical text *)
Theorem c19_base32_roundtrip : forall b, bytes_ok b = true -> b32_decode (b32_encode b) = Some b.
Proof. exact b32_decode_encode. Qed.

Theorem c19_base32_rejects : forall t c, In c t -> b32_char_ok c = false -> b32_decode t = None.
Proof. exact b32_decode_rejects. Qed.

(* the code is the RFC 6238 value (independent bit-string definition of DT), for every secret,
   every time below 2^64, every period >= 1 and 0..19 digits, with HMAC-SHA-1/256/512 *)
Theorem c19_totp_is_rfc6238 : forall alg step digits secret time,
  1 <= step -> digits <= 19 -> time < 2 ^ 64 ->
  totp_custom hmac_alg alg step digits secret time =
  Ok (render_code digits (rfc_totp hmac_alg alg secret time step digits)).
Proof. exact totp_is_rfc6238. Qed.

(* zero padded to exactly `digits` decimal characters denoting the value *)
Theorem c19_code_shape : forall digits v,
  1 <= digits -> v < 10 ^ digits ->
  length (render_code digits v) = N.to_nat digits
  /\ Forall (fun c => 48 <= c <= 57) (render_code digits v)
  /\ dec_value (render_code digits v) = v.
Proof. exact code_shape. Qed.

(* remaining validity between one second and the period *)
Theorem c19_validity_window : forall period time,
  1 <= period ->
  1 <= period - time mod period <= period
  /\ (period - time mod period = period <-> time mod period = 0).
Proof. exact validity_window. Qed.

(* parsing: defaults, all fields, last occurrence wins *)
Theorem c19_parse_defaults : forall dec path s sec,
  dec s = Some sec ->
  otp_parse dec s_otpauth path [(s_secret, s)] = Ok (mkTotp (trim_slashes path) None 30 8 ASha1 sec).
Proof. exact otp_parse_defaults. Qed.

Theorem c19_parse_fields : forall dec path s sec iss p pv d dv a av junk_k junk_v,
  dec s = Some sec ->
  parse_nonzero_u64 p = Some pv -> parse_u32 d = Some dv -> parse_alg a = Some av ->
  bytes_eqb junk_k s_secret = false -> bytes_eqb junk_k s_issuer = false ->
  bytes_eqb junk_k s_period = false -> bytes_eqb junk_k s_digits = false ->
  bytes_eqb junk_k s_algorithm = false ->
  otp_parse dec s_otpauth path
    [(s_algorithm, a); (junk_k, junk_v); (s_digits, d); (s_secret, s); (s_period, p); (s_issuer, iss)] =
  Ok (mkTotp (trim_slashes path) (Some iss) pv dv av sec).
Proof. exact otp_parse_fields. Qed.

(* malformed URIs yield an error ... *)
Theorem c19_malformed_errors : forall dec scheme path pairs,
  (bytes_eqb scheme s_otpauth = false
   \/ Exists bad_pair pairs
   \/ (forall v, ~ In (s_secret, v) pairs)
   \/ (forall v, In (s_secret, v) pairs -> dec v = None))
  -> exists e, otp_parse dec scheme path pairs = Err e.
Proof. exact otp_malformed_errors. Qed.

Theorem c19_zero_period_is_malformed : forall v, parse_u64 v = Some 0 -> bad_pair (s_period, v).
Proof. exact zero_period_bad. Qed.

(* ... and never a panic: parsing is total, an accepted URI has period >= 1, and value_at is total
   for it whenever it has at most 19 digits *)
Theorem c19_parse_total : forall dec scheme path pairs,
  (exists t, otp_parse dec scheme path pairs = Ok t) \/ (exists e, otp_parse dec scheme path pairs = Err e).
Proof. exact otp_parse_total. Qed.

Theorem c19_parsed_period_positive : forall scheme path pairs t,
  otp_parse b32_decode scheme path pairs = Ok t -> 1 <= o_period t.
Proof. exact parsed_period_positive. Qed.

Theorem c19_value_at_never_panics : forall t time,
  1 <= o_period t -> o_digits t <= 19 -> time < 2 ^ 64 ->
  exists code, value_at hmac_alg t time = Ok (code, o_period t - time mod o_period t, o_period t).
Proof. exact value_at_never_panics. Qed.

(* C07 - Saved files are valid KDBX4 that an independent reader decodes identically.
   Statements only.  Model: format/Kdbx4.v (container framing, parametric in the primitives),
   xml/Scalars.v (scalar codecs). *)
From KP Require Import Bytes Outcome LE Version Kdbx4 Kdbx4Facts Scalars ScalarsProofs.
Local Open Scope N_scope.

(* a saved file starts with the outer header in the published layout: signature and version, cipher
   id, compression flag, IV, master seed, KDF parameters, end-of-header *)
Theorem c07_header_layout : forall sha256 sha512 hmac256 kdf outer_enc compress cfg d vd els atts xml file,
  dump4 sha256 sha512 hmac256 kdf outer_enc compress cfg d vd els atts xml = Ok file ->
  exists minor tail,
    c_version cfg = KDB4 minor /\
    file = outer_header_dump minor (c_outer cfg) (c_compression cfg) (d_iv d) (d_master_seed d) vd ++ tail.
Proof. exact dump4_places_draws. Qed.

Theorem c07_outer_header_fields : forall minor c z iv seed vd,
  outer_header_dump minor c z iv seed vd =
  version_dump minor ++ field 2 (ocipher_id c) ++ field 3 (le_enc 4 (compression_id z))
  ++ field 7 iv ++ field 4 seed ++ field 11 (vd_dump vd) ++ field 0 [].
Proof. exact outer_header_layout. Qed.

(* header, SHA-256 of the header, header HMAC keyed by block key 2^64-1, then the block stream of
   the ciphertext *)
Theorem c07_file_structure : forall sha256 sha512 hmac256 kdf outer_enc compress cfg d vd els atts xml file,
  dump4 sha256 sha512 hmac256 kdf outer_enc compress cfg d vd els atts xml = Ok file ->
  exists header transformed encrypted,
    file = header ++ sha256 header
           ++ header_mac sha512 hmac256 (hmac_key_of sha512 (d_master_seed d) transformed) header
           ++ write_blocks sha512 hmac256 encrypted (hmac_key_of sha512 (d_master_seed d) transformed).
Proof. exact dump4_payload_is_ciphertext. Qed.

(* C07 - Saved files are valid KDBX4 that an independent reader decodes identically.
   Statements only.  Model: format/Kdbx4.v (container framing, parametric in the primitives),
   xml/Scalars.v (scalar codecs). *)
From Coq Require Import Permutation.
From KP Require Import Bytes Outcome LE Version Kdbx4 Kdbx4Facts Kdbx4Proofs Kdbx4Conform Scalars ScalarsProofs.
Local Open Scope N_scope.

(* a saved file starts with the outer header in the published layout: signature and version, cipher
   id, compression flag, IV, master seed, KDF parameters, end-of-header *)
Theorem c07_header_layout : forall sha256 sha512 hmac256 kdf outer_enc compress cfg d vd els atts xml file,
  dump4 sha256 sha512 hmac256 kdf outer_enc compress cfg d vd els atts xml = Ok file ->
  exists minor tail,
    c_version cfg = KDB4 minor /\
    file = outer_header_dump minor (c_outer cfg) (c_compression cfg) (d_iv d) (d_master_seed d) vd ++ tail.
Proof. exact dump4_places_draws. Qed.

Theorem c07_outer_header_fields : forall minor c z iv seed vd,
  outer_header_dump minor c z iv seed vd =
  version_dump minor ++ field 2 (ocipher_id c) ++ field 3 (le_enc 4 (compression_id z))
  ++ field 7 iv ++ field 4 seed ++ field 11 (vd_dump vd) ++ field 0 [].
Proof. exact outer_header_layout. Qed.

(* header, SHA-256 of the header, header HMAC keyed by block key 2^64-1, then the block stream of
   the ciphertext *)
Theorem c07_file_structure : forall sha256 sha512 hmac256 kdf outer_enc compress cfg d vd els atts xml file,
  dump4 sha256 sha512 hmac256 kdf outer_enc compress cfg d vd els atts xml = Ok file ->
  exists header transformed encrypted,
    file = header ++ sha256 header
           ++ header_mac sha512 hmac256 (hmac_key_of sha512 (d_master_seed d) transformed) header
           ++ write_blocks sha512 hmac256 encrypted (hmac_key_of sha512 (d_master_seed d) transformed).
Proof. exact dump4_payload_is_ciphertext. Qed.

(* the framing round trip: for ALL primitives satisfying the two inverse laws and the two length
   laws, all configurations, all orders of the KDF dictionary, all attachments and payloads,
   reading what the writer wrote returns the configuration, the attachments, the inner stream key
   and the XML payload that were written *)
Theorem c07_frame_roundtrip :
  forall (sha256 sha512 : bytes -> bytes) (hmac256 : bytes -> bytes -> bytes)
         (kdf : kdfcfg -> bytes -> bytes -> Kdbx4.res bytes)
         (outer_enc outer_dec : ocipher -> bytes -> bytes -> bytes -> Kdbx4.res bytes)
         (compress decompress : compression -> bytes -> Kdbx4.res bytes),
  (forall c key iv p ct, outer_enc c key iv p = Ok ct -> outer_dec c key iv ct = Ok p) ->
  (forall z p c, compress z p = Ok c -> decompress z c = Ok p) ->
  (forall m, length (sha256 m) = 32%nat) ->
  (forall k m, length (hmac256 k m) = 32%nat) ->
  forall cfg d vd els atts xml file minor,
  c_version cfg = KDB4 minor -> minor < 2 ^ 16 ->
  draws_ok cfg d = true ->
  Permutation vd (vd_of_kdf (c_kdf cfg) (d_kdf_seed d)) ->
  kdf_params_ok (c_kdf cfg) = true ->
  atts_ok atts = true ->
  dump4 sha256 sha512 hmac256 kdf outer_enc compress cfg d vd els atts xml = Ok file ->
  N.of_nat (length file) < 2 ^ 32 ->
  decrypt4 sha256 sha512 hmac256 kdf outer_dec decompress file els = Ok (cfg, atts, d_inner_key d, xml).
Proof. exact frame_roundtrip_small_file. Qed.

(* layer by layer: any dictionary, any block payload, any attachment list *)
Theorem c07_vd_parse_dump : forall d, vd_ok d = true -> vd_parse (vd_dump d) = Ok d.
Proof. exact vd_parse_dump. Qed.

Theorem c07_read_write_blocks : forall (sha512 : bytes -> bytes) (hmac256 : bytes -> bytes -> bytes),
  (forall k m, length (hmac256 k m) = 32%nat) ->
  forall fuel data key, (2 <= fuel)%nat -> N.of_nat (length data) < 2 ^ 32 ->
  read_blocks sha512 hmac256 fuel 0 (write_blocks sha512 hmac256 data key) key [] = Ok data.
Proof. exact read_write_blocks. Qed.

Theorem c07_parse_inner_header_dump : forall c key atts xml,
  N.of_nat (length key) < 2 ^ 32 -> atts_ok atts = true ->
  parse_inner_header (inner_header_dump c key atts ++ xml) = Ok (atts, c, key, xml).
Proof. exact parse_inner_header_dump. Qed.

(* the crate's writer IS a conforming writer in the sense of format/Kdbx4Conform.v: dump4 computes the
   file of the layout crate_layout4, and that layout is conforming *)
Theorem c07_writer_is_conforming :
  forall (sha256 sha512 : bytes -> bytes) (hmac256 : bytes -> bytes -> bytes)
         (kdf : kdfcfg -> bytes -> bytes -> Kdbx4.res bytes)
         (outer_enc : ocipher -> bytes -> bytes -> bytes -> Kdbx4.res bytes)
         (compress : compression -> bytes -> Kdbx4.res bytes)
         (cfg : config) (d : draws) (vd : vdict) (els : Kdbx4.res (list bytes)) (atts : list attachment)
         (xml : bytes) (minor : N),
  c_version cfg = KDB4 minor ->
  dump4 sha256 sha512 hmac256 kdf outer_enc compress cfg d vd els atts xml
  = Kdbx4Conform.write_conforming4 sha256 sha512 hmac256 kdf outer_enc compress minor
      (Kdbx4Conform.header_of_draws cfg d) (Kdbx4Conform.crate_layout4 cfg d vd atts) els xml.
Proof. exact dump4_is_conforming. Qed.

Theorem c07_writer_layout_is_conforming :
  forall (cfg : config) (d : draws) (vd : list (bytes * vdval)) (atts : list attachment),
  draws_ok cfg d = true -> kdf_params_ok (c_kdf cfg) = true ->
  Permutation vd (vd_of_kdf (c_kdf cfg) (d_kdf_seed d)) -> atts_ok atts = true ->
  Kdbx4Conform.conforming_layout4 (Kdbx4Conform.header_of_draws cfg d) vd (c_inner cfg) (d_inner_key d) atts
    (Kdbx4Conform.crate_layout4 cfg d vd atts).
Proof. exact crate_layout4_conforming. Qed.

(* C18 - Tree traversal visits every node once and path lookup agrees with it.
   Statements only; every proof is [exact lemma].  Model: db/Nav.v (tied to src/db/node.rs,
   src/db/group.rs, src/db/entry.rs by the C18 correspondence run). *)
From Coq Require Import Permutation.
From KP Require Import Bytes Utf8 Nav NavProofs.

(* iteration = the root, then level by level in child order (parents before children) *)
Theorem c18_iter_is_bfs : forall g, iter g = bfs g.
Proof. exact iter_is_bfs. Qed.

Theorem c18_iter_levels : forall g,
  iter g = concat (map (fun k => nth_level k [g]) (seq 0 (height g))).
Proof. exact iter_levels. Qed.

Theorem c18_iter_root_first : forall g, hd_error (iter g) = Some g.
Proof. exact iter_head. Qed.

(* every node of the tree exactly once: a permutation of the independent pre-order enumeration *)
Theorem c18_iter_each_once : forall g, Permutation (iter g) (all_nodes g).
Proof. exact iter_each_once. Qed.

Theorem c18_iter_length : forall g, length (iter g) = size g.
Proof. exact iter_length. Qed.

Theorem c18_iter_nodup : forall g,
  NoDup (map uuid_of (all_nodes g)) -> NoDup (map uuid_of (iter g)).
Proof. exact iter_nodup. Qed.

(* lookup = first match at every step, intermediate steps through groups only *)
Theorem c18_get_spec : forall path c p, get_idx path c = Some p <-> designates path c p.
Proof. exact get_spec. Qed.

Theorem c18_get_none : forall path c, get_idx path c = None <-> (forall p, ~ designates path c p).
Proof. exact get_none. Qed.

Theorem c18_get_empty_path : forall g, get [] g = Some g.
Proof. exact get_empty_path. Qed.

(* the mutable lookup designates the same node *)
Theorem c18_get_mut_agrees : forall path c, get_mut_idx path c = get_idx path c.
Proof. exact get_mut_agrees. Qed.

Theorem c18_get_mut_same_node : forall path g, get_mut path g = get path g.
Proof. exact get_mut_same_node. Qed.

(* entries() and groups() partition the children, order preserved *)
Theorem c18_entries_groups_partition : forall g,
  unfilter (map is_group (children_of g)) (groups g) (entries g) = children_of g
  /\ Forall (fun n => is_group n = true) (groups g)
  /\ Forall (fun n => is_group n = false) (entries g)
  /\ length (groups g) + length (entries g) = length (children_of g).
Proof. exact entries_groups_partition. Qed.

(* Non-vacuity: a tree with repeated titles, an entry shadowing a group of the same title in the
   middle of a path, an invalid-UTF-8 protected title and a byte title. *)
Local Open Scope N_scope.
Definition ex_tree : node :=
  NGroup 1 [82] [ NEntry 2 (TUnprot [65]);
                  NGroup 3 [65] [ NEntry 4 (TProt [255]); NEntry 5 (TUnprot [66]) ];
                  NGroup 6 [65] [ NEntry 7 (TUnprot [66]); NGroup 8 [] [ NEntry 9 (TBytes [66]) ] ] ].

Example c18_ex_iter : map uuid_of (iter ex_tree) = [1;2;3;6;4;5;7;8;9].
Proof. vm_compute. reflexivity. Qed.
Example c18_ex_get : option_map uuid_of (get [[65];[66]] ex_tree) = Some 5
                  /\ option_map uuid_of (get [[65]] ex_tree) = Some 2
                  /\ get [[65];[255]] ex_tree = None.
Proof. vm_compute. repeat split. Qed.

(* C03 - Save followed by open is the identity on databases.
   Statements only.  Model: format/Kdbx4.v (container framing, parametric in the primitives),
   xml/Scalars.v (scalar codecs). *)
From KP Require Import Bytes Outcome LE Version Kdbx4 Kdbx4Facts Scalars ScalarsProofs.
Local Open Scope N_scope.

(* colour codec: every colour survives write/read (after the repair of F1) *)
Theorem c03_color_roundtrip : forall r g b,
  r < 256 -> g < 256 -> b < 256 -> parse_color (fmt_color r g b) = Some (r, g, b).
Proof. exact color_roundtrip. Qed.

(* the formatter before the repair was not inverted by the parser (kept as a record of F1) *)
Theorem c03_color_old_refuted :
  exists r g b, r < 256 /\ g < 256 /\ b < 256 /\ parse_color (fmt_color_old r g b) <> Some (r, g, b).
Proof. exact color_old_refuted. Qed.

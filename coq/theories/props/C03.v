(* C03 - Save followed by open is the identity on databases.
   Statements only.  Model: format/Kdbx4.v (container framing, parametric in the primitives),
   xml/Scalars.v (scalar codecs). *)
From Coq Require Import Permutation.
From KP Require Import Bytes Outcome LE Version Kdbx4 Kdbx4Facts Kdbx4Proofs Scalars ScalarsProofs.
Local Open Scope N_scope.

(* colour codec: every colour survives write/read (after the repair of F1) *)
Theorem c03_color_roundtrip : forall r g b,
  r < 256 -> g < 256 -> b < 256 -> parse_color (fmt_color r g b) = Some (r, g, b).
Proof. exact color_roundtrip. Qed.

(* the formatter before the repair was not inverted by the parser (kept as a record of F1) *)
Theorem c03_color_old_refuted :
  exists r g b, r < 256 /\ g < 256 /\ b < 256 /\ parse_color (fmt_color_old r g b) <> Some (r, g, b).
Proof. exact color_old_refuted. Qed.

(* the framing round trip: for ALL primitives satisfying the two inverse laws and the two length
   laws, all configurations, all orders of the KDF dictionary, all attachments and payloads,
   reading what the writer wrote returns the configuration, the attachments, the inner stream key
   and the XML payload that were written *)
Theorem c03_frame_roundtrip :
  forall (sha256 sha512 : bytes -> bytes) (hmac256 : bytes -> bytes -> bytes)
         (kdf : kdfcfg -> bytes -> bytes -> Kdbx4.res bytes)
         (outer_enc outer_dec : ocipher -> bytes -> bytes -> bytes -> Kdbx4.res bytes)
         (compress decompress : compression -> bytes -> Kdbx4.res bytes),
  (forall c key iv p ct, outer_enc c key iv p = Ok ct -> outer_dec c key iv ct = Ok p) ->
  (forall z p c, compress z p = Ok c -> decompress z c = Ok p) ->
  (forall m, length (sha256 m) = 32%nat) ->
  (forall k m, length (hmac256 k m) = 32%nat) ->
  forall cfg d vd els atts xml file minor,
  c_version cfg = KDB4 minor -> minor < 2 ^ 16 ->
  draws_ok cfg d = true ->
  Permutation vd (vd_of_kdf (c_kdf cfg) (d_kdf_seed d)) ->
  kdf_params_ok (c_kdf cfg) = true ->
  atts_ok atts = true ->
  dump4 sha256 sha512 hmac256 kdf outer_enc compress cfg d vd els atts xml = Ok file ->
  N.of_nat (length file) < 2 ^ 32 ->
  decrypt4 sha256 sha512 hmac256 kdf outer_dec decompress file els = Ok (cfg, atts, d_inner_key d, xml).
Proof. exact frame_roundtrip_small_file. Qed.

(* ---------------- the XML object mapping (models xml/XmlDump.v, xml/XmlParse.v) ----------------
   For every database content in the explicit boolean domain [wf_content] (any tree depth, any
   number of entries, history items, fields, custom data, icons, binaries, deleted objects) and
   every inner key stream: parsing the events the writer emits returns the content.  [wf_content]
   lists exactly the places where the real save/open is not the identity (blank texts, blank map
   keys, empty field values, Value::Bytes, non-UTF-8 protected values, tags with separators, stamp
   names Expires/UsageCount, empty icon/binary bodies); it is checked against the real crate by the
   xml-domain stream (wf_content c = true => open (save c) = c on every generated case). *)
From KP Require Import XmlTypes XmlDump XmlParse XmlSpec XmlRoundTrip.
Theorem c03_xml_roundtrip :
  forall (gzip : bytes -> bytes) (gunzip : bytes -> option bytes) (c : content) (ks : bytes),
  wf_content gzip gunzip c = true -> bytes_ok ks = true ->
  parse_events gunzip (dump_events gzip c ks) ks = Ok c.
Proof. exact parse_dump_roundtrip. Qed.

(* ---------------- END TO END: save followed by open is the identity (format/SaveOpen.v) ----------------
   [save_model] mirrors Database::save + dump_kdbx4 (object mapping, XML text, inner header, compression,
   outer cipher, HMAC block stream, header), [open_model] mirrors Database::open + parse_kdbx4.  The XML
   text layer of xml-rs ([render]/[lex]) and the primitives are parameters; the only law assumed of the
   text layer is that it reads back the events of the one document that was written. *)
From KP Require Import SaveOpen.
Theorem c03_save_open_identity :
  forall (sha256 sha512 : bytes -> bytes) (hmac256 : bytes -> bytes -> bytes)
         (kdf : kdfcfg -> bytes -> bytes -> Kdbx4.res bytes)
         (outer_enc outer_dec : ocipher -> bytes -> bytes -> bytes -> Kdbx4.res bytes)
         (compress decompress : compression -> bytes -> Kdbx4.res bytes)
         (gzip : bytes -> bytes) (gunzip : bytes -> option bytes)
         (render : list ev -> bytes) (lex : bytes -> list ev)
         (keystream : icipher -> bytes -> bytes)
         (other_formats : dbversion -> bytes -> Kdbx4.res (list bytes) -> outcome ferr database),
  (forall m, length (sha256 m) = 32%nat) ->
  (forall k m, length (hmac256 k m) = 32%nat) ->
  (forall c key iv p ct, outer_enc c key iv p = Ok ct -> outer_dec c key iv ct = Ok p) ->
  (forall z p c, compress z p = Ok c -> decompress z c = Ok p) ->
  (forall c k, bytes_ok (keystream c k) = true) ->
  forall (cfg : config) (atts : list attachment) (c : content) (d : draws) (vd : vdict)
         (elements : Kdbx4.res (list bytes)) (file : bytes) (minor : N),
  let db := mkDb cfg atts c in
  c_version cfg = KDB4 minor -> minor < 2 ^ 16 ->
  draws_ok cfg d = true ->
  Permutation vd (vd_of_kdf (c_kdf cfg) (d_kdf_seed d)) ->
  kdf_params_ok (c_kdf cfg) = true ->
  atts_ok atts = true ->
  wf_content gzip gunzip c = true ->
  lex (render (document gzip keystream db d)) = document gzip keystream db d ->
  save_model sha256 sha512 hmac256 kdf outer_enc compress gzip render keystream db d vd elements = Ok file ->
  N.of_nat (length file) < 2 ^ 32 ->
  open_model sha256 sha512 hmac256 kdf outer_dec decompress gunzip lex keystream other_formats file elements = Ok db.
Proof. exact save_open_identity. Qed.

From KP Require Import XmlText XmlTextProofs.
(* ---- the XML TEXT layer (xml/XmlText.v): what the xml-rs writer prints for an event list and what the
   xml-rs reader lexes back, as executable definitions tied to the library by the xml-text stream.  On
   well-formed event lists (well nested, ASCII names, no empty or blank text, XML characters only, no
   repeated attribute) reading back what was printed returns the events *)
Theorem c03_xml_text_roundtrip : forall evs : list ev,
  wf_events evs = true -> lex_xml (render_xml evs) = evs.
Proof. exact lex_render. Qed.

From KP Require Import SaveOpenText.
(* what the writer's DumpXml impls emit is always a well-formed event list, for every content in the
   event-level domain whose strings are XML text (the complement of finding F6a) and whose time-stamp
   names are XML names *)
Theorem c03_dump_events_well_formed :
  forall (gzip : bytes -> bytes) (gunzip : bytes -> option bytes) (c : content) (ks : bytes),
  wf_content gzip gunzip c = true -> text_content_ok gzip c = true -> bytes_ok ks = true ->
  wf_events (dump_events gzip c ks) = true.
Proof. exact dump_events_wf. Qed.

(* save followed by open is the identity, DOWN TO THE BYTES OF THE XML DOCUMENT: the statement of
   c03_save_open_identity with the text layer instantiated by the model of xml-rs (render_xml, lex_xml)
   and the hypothesis about the text layer replaced by the checkable domain text_content_ok *)
Theorem c03_save_open_identity_xml_text :
  forall (sha256 sha512 : bytes -> bytes) (hmac256 : bytes -> bytes -> bytes)
         (kdf : kdfcfg -> bytes -> bytes -> Kdbx4.res bytes)
         (outer_enc outer_dec : ocipher -> bytes -> bytes -> bytes -> Kdbx4.res bytes)
         (compress decompress : compression -> bytes -> Kdbx4.res bytes)
         (gzip : bytes -> bytes) (gunzip : bytes -> option bytes)
         (keystream : icipher -> bytes -> bytes)
         (other_formats : dbversion -> bytes -> Kdbx4.res (list bytes) -> outcome ferr database),
  (forall m, length (sha256 m) = 32%nat) ->
  (forall k m, length (hmac256 k m) = 32%nat) ->
  (forall c key iv p ct, outer_enc c key iv p = Ok ct -> outer_dec c key iv ct = Ok p) ->
  (forall z p c, compress z p = Ok c -> decompress z c = Ok p) ->
  (forall c k, bytes_ok (keystream c k) = true) ->
  forall (cfg : config) (atts : list attachment) (c : content) (d : draws) (vd : vdict)
         (elements : Kdbx4.res (list bytes)) (file : bytes) (minor : N),
  let db := mkDb cfg atts c in
  c_version cfg = KDB4 minor -> minor < 2 ^ 16 ->
  draws_ok cfg d = true ->
  Permutation vd (vd_of_kdf (c_kdf cfg) (d_kdf_seed d)) ->
  kdf_params_ok (c_kdf cfg) = true ->
  atts_ok atts = true ->
  wf_content gzip gunzip c = true ->
  text_content_ok gzip c = true ->
  save_model sha256 sha512 hmac256 kdf outer_enc compress gzip render_xml keystream db d vd elements = Ok file ->
  N.of_nat (length file) < 2 ^ 32 ->
  open_model sha256 sha512 hmac256 kdf outer_dec decompress gunzip lex_xml keystream other_formats file elements = Ok db.
Proof. exact save_open_identity_text. Qed.

(* C12 - Save never succeeds with a file the library cannot read back, and never panics.
   Statements only.  Model: format/Kdbx4.v (container framing, parametric in the primitives),
   xml/Scalars.v (scalar codecs). *)
From KP Require Import Bytes Outcome LE Version Kdbx4 Kdbx4Facts Scalars ScalarsProofs.
Local Open Scope N_scope.

(* colours: every colour the public struct can hold is written in a form the reader accepts
   (after the repair of F1); the formatter before the repair is refuted by a computed witness *)
Theorem c12_color_readable : forall r g b,
  r < 256 -> g < 256 -> b < 256 -> parse_color (fmt_color r g b) = Some (r, g, b).
Proof. exact color_roundtrip. Qed.

Theorem c12_color_old_refuted :
  exists r g b, r < 256 /\ g < 256 /\ b < 256 /\ parse_color (fmt_color_old r g b) <> Some (r, g, b).
Proof. exact color_old_refuted. Qed.

(* C12 - Save never succeeds with a file the library cannot read back, and never panics.
   Statements only.  Model: format/Kdbx4.v (container framing, parametric in the primitives),
   xml/Scalars.v (scalar codecs). *)
From KP Require Import Bytes Outcome LE Version Kdbx4 Kdbx4Facts Scalars ScalarsProofs.
Local Open Scope N_scope.

(* colours: every colour the public struct can hold is written in a form the reader accepts
   (after the repair of F1); the formatter before the repair is refuted by a computed witness *)
Theorem c12_color_readable : forall r g b,
  r < 256 -> g < 256 -> b < 256 -> parse_color (fmt_color r g b) = Some (r, g, b).
Proof. exact color_roundtrip. Qed.

Theorem c12_color_old_refuted :
  exists r g b, r < 256 /\ g < 256 /\ b < 256 /\ parse_color (fmt_color_old r g b) <> Some (r, g, b).
Proof. exact color_old_refuted. Qed.

(* the container writer never panics and never hangs, whatever the database content and
   configuration (model of dump_kdbx4; primitives total) *)
From Coq Require Import Permutation.
From KP Require Import Kdbx4Proofs Kdbx4Total.
Theorem c12_dump4_total :
  forall (sha256 sha512 : bytes -> bytes) (hmac256 : bytes -> bytes -> bytes)
         (kdf : kdfcfg -> bytes -> bytes -> outcome kerr bytes)
         (outer_enc : ocipher -> bytes -> bytes -> bytes -> outcome kerr bytes)
         (compress : compression -> bytes -> outcome kerr bytes) cfg d vd els atts xml,
  good els ->
  (forall k s c, good (kdf k s c)) ->
  (forall z p, good (compress z p)) ->
  (forall c k iv p, good (outer_enc c k iv p)) ->
  good (dump4 sha256 sha512 hmac256 kdf outer_enc compress cfg d vd els atts xml).
Proof. exact dump4_total. Qed.

(* whenever the container writer returns a file, the container reader accepts it and returns what
   was written: at the framing level, save never succeeds with a file that cannot be read back *)
Theorem c12_written_file_is_readable :
  forall (sha256 sha512 : bytes -> bytes) (hmac256 : bytes -> bytes -> bytes)
         (kdf : kdfcfg -> bytes -> bytes -> Kdbx4.res bytes)
         (outer_enc outer_dec : ocipher -> bytes -> bytes -> bytes -> Kdbx4.res bytes)
         (compress decompress : compression -> bytes -> Kdbx4.res bytes),
  (forall c key iv p ct, outer_enc c key iv p = Ok ct -> outer_dec c key iv ct = Ok p) ->
  (forall z p c, compress z p = Ok c -> decompress z c = Ok p) ->
  (forall m, length (sha256 m) = 32%nat) ->
  (forall k m, length (hmac256 k m) = 32%nat) ->
  forall cfg d vd els atts xml file minor,
  c_version cfg = KDB4 minor -> minor < 2 ^ 16 ->
  draws_ok cfg d = true ->
  Permutation vd (vd_of_kdf (c_kdf cfg) (d_kdf_seed d)) ->
  kdf_params_ok (c_kdf cfg) = true ->
  atts_ok atts = true ->
  dump4 sha256 sha512 hmac256 kdf outer_enc compress cfg d vd els atts xml = Ok file ->
  N.of_nat (length file) < 2 ^ 32 ->
  decrypt4 sha256 sha512 hmac256 kdf outer_dec decompress file els = Ok (cfg, atts, d_inner_key d, xml).
Proof. exact frame_roundtrip_small_file. Qed.

(* the object mapping: on the domain wf_content, what the writer emits is read back (model
   xml/XmlDump.v, xml/XmlParse.v); outside it lie exactly the open findings F6a,b,d,e *)
From KP Require Import XmlTypes XmlDump XmlParse XmlSpec XmlRoundTrip.
Theorem c12_xml_written_is_readable :
  forall (gzip : bytes -> bytes) (gunzip : bytes -> option bytes) (c : content) (ks : bytes),
  wf_content gzip gunzip c = true -> bytes_ok ks = true ->
  parse_events gunzip (dump_events gzip c ks) ks = Ok c.
Proof. exact parse_dump_roundtrip. Qed.

(* ---------------- END TO END (format/SaveOpen.v): save never panics or hangs; and whenever it returns
   a file for a content in the domain, open returns that database (c03_save_open_identity) ---------------- *)
From KP Require Import SaveOpen.
Theorem c12_save_never_panics_never_hangs :
  forall (sha256 sha512 : bytes -> bytes) (hmac256 : bytes -> bytes -> bytes)
         (kdf : kdfcfg -> bytes -> bytes -> Kdbx4.res bytes)
         (outer_enc : ocipher -> bytes -> bytes -> bytes -> Kdbx4.res bytes)
         (compress : compression -> bytes -> Kdbx4.res bytes)
         (gzip : bytes -> bytes) (render : list ev -> bytes) (keystream : icipher -> bytes -> bytes)
         (db : database) (d : draws) (vd : vdict) (elements : outcome kerr (list bytes)),
  good elements ->
  (forall k s c, good (kdf k s c)) ->
  (forall z p, good (compress z p)) ->
  (forall c k iv p, good (outer_enc c k iv p)) ->
  (forall n, save_model sha256 sha512 hmac256 kdf outer_enc compress gzip render keystream db d vd elements <> Panic n) /\
  save_model sha256 sha512 hmac256 kdf outer_enc compress gzip render keystream db d vd elements <> OutOfFuel.
Proof. exact save_model_never_panics_never_hangs. Qed.

From KP Require Import XmlText XmlTextProofs SaveOpenText.
(* finding F6a at the level of the model: a title holding U+0001 lies inside the event-level domain
   wf_content, outside the text domain, and the document the writer prints for it is not read back to the
   events that were written (the reader rejects the character) *)
Theorem c12_non_xml_character_refuted :
  wf_content TextDomainExamples.gz TextDomainExamples.gunz TextDomainExamples.bad_char = true /\
  text_content_ok TextDomainExamples.gz TextDomainExamples.bad_char = false /\
  lex_xml (render_xml (dump_events TextDomainExamples.gz TextDomainExamples.bad_char TextDomainExamples.ks))
  <> dump_events TextDomainExamples.gz TextDomainExamples.bad_char TextDomainExamples.ks.
Proof. exact bad_char_refuted. Qed.

(* C09 - Every save uses fresh random seeds, IV and stream key.
   Statements only.  Model: format/Kdbx4.v (container framing, parametric in the primitives),
   xml/Scalars.v (scalar codecs). *)
From KP Require Import Bytes Outcome LE Version Kdbx4 Kdbx4Facts Scalars ScalarsProofs.
Local Open Scope N_scope.

(* four draws, in this order, of the sizes the algorithms require *)
Theorem c09_draw_sizes : forall cfg,
  draw_sizes cfg = [32; iv_size (c_outer cfg); ikey_size (c_inner cfg); 32]%nat
  /\ (iv_size (c_outer cfg) = 12 \/ iv_size (c_outer cfg) = 16)%nat
  /\ (ikey_size (c_inner cfg) = 1 \/ ikey_size (c_inner cfg) = 32)%nat.
Proof. exact draw_sizes_spec. Qed.

(* master seed and IV are placed verbatim in their header fields *)
Theorem c09_placement_outer : forall sha256 sha512 hmac256 kdf outer_enc compress cfg d vd els atts xml file,
  dump4 sha256 sha512 hmac256 kdf outer_enc compress cfg d vd els atts xml = Ok file ->
  exists minor tail,
    c_version cfg = KDB4 minor /\
    file = outer_header_dump minor (c_outer cfg) (c_compression cfg) (d_iv d) (d_master_seed d) vd ++ tail.
Proof. exact dump4_places_draws. Qed.

(* the inner key draw is the stream key of the inner header, the KDF seed draw is the salt of the key
   derivation, the master seed and IV draws key the outer encryption *)
Theorem c09_placement_inner : forall sha256 sha512 hmac256 kdf outer_enc compress cfg d vd els atts xml file,
  dump4 sha256 sha512 hmac256 kdf outer_enc compress cfg d vd els atts xml = Ok file ->
  exists minor transformed compressed encrypted,
    c_version cfg = KDB4 minor /\
    compress (c_compression cfg) (inner_header_dump (c_inner cfg) (d_inner_key d) atts ++ xml) = Ok compressed /\
    outer_enc (c_outer cfg) (master_key_of sha256 (d_master_seed d) transformed) (d_iv d) compressed = Ok encrypted /\
    exists els', els = Ok els' /\ kdf (c_kdf cfg) (d_kdf_seed d) (composite_key sha256 els') = Ok transformed.
Proof. exact dump4_inner_key. Qed.

(* C01 - Opening a well-formed KDBX4 file yields exactly the stored content.
   Statements only.  Model: format/Kdbx4.v (container framing, parametric in the primitives). *)
From Coq Require Import Permutation.
From KP Require Import Bytes Outcome LE Version Kdbx4 Kdbx4Facts Kdbx4Proofs Kdbx4Conform.
Local Open Scope N_scope.

(* the framing round trip: for ALL primitives satisfying the two inverse laws and the two length
   laws, all configurations, all orders of the KDF dictionary, all attachments and payloads,
   reading what the writer wrote returns the configuration, the attachments, the inner stream key
   and the XML payload that were written *)
Theorem c01_frame_roundtrip :
  forall (sha256 sha512 : bytes -> bytes) (hmac256 : bytes -> bytes -> bytes)
         (kdf : kdfcfg -> bytes -> bytes -> Kdbx4.res bytes)
         (outer_enc outer_dec : ocipher -> bytes -> bytes -> bytes -> Kdbx4.res bytes)
         (compress decompress : compression -> bytes -> Kdbx4.res bytes),
  (forall c key iv p ct, outer_enc c key iv p = Ok ct -> outer_dec c key iv ct = Ok p) ->
  (forall z p c, compress z p = Ok c -> decompress z c = Ok p) ->
  (forall m, length (sha256 m) = 32%nat) ->
  (forall k m, length (hmac256 k m) = 32%nat) ->
  forall cfg d vd els atts xml file minor,
  c_version cfg = KDB4 minor -> minor < 2 ^ 16 ->
  draws_ok cfg d = true ->
  Permutation vd (vd_of_kdf (c_kdf cfg) (d_kdf_seed d)) ->
  kdf_params_ok (c_kdf cfg) = true ->
  atts_ok atts = true ->
  dump4 sha256 sha512 hmac256 kdf outer_enc compress cfg d vd els atts xml = Ok file ->
  N.of_nat (length file) < 2 ^ 32 ->
  decrypt4 sha256 sha512 hmac256 kdf outer_dec decompress file els = Ok (cfg, atts, d_inner_key d, xml).
Proof. exact frame_roundtrip_small_file. Qed.

(* header: any permutation of the KDF dictionary entries and any trailing data parse to the same
   header record, whose length is reported exactly *)
Theorem c01_parse_outer_header_dump : forall minor c z iv seed vd k kseed rest,
  minor < 2 ^ 16 ->
  N.of_nat (length iv) < 2 ^ 32 -> N.of_nat (length seed) < 2 ^ 32 ->
  N.of_nat (length (vd_dump vd)) < 2 ^ 32 ->
  vd_ok vd = true -> Permutation vd (vd_of_kdf k kseed) ->
  parse_outer_header (outer_header_dump minor c z iv seed vd ++ rest) =
  Ok (KDB4 minor, mkOuter c z seed iv k kseed, length (outer_header_dump minor c z iv seed vd)).
Proof. exact parse_outer_header_dump. Qed.

(* every dictionary in any order and with any number of entries is read back *)
Theorem c01_vd_parse_dump : forall d, vd_ok d = true -> vd_parse (vd_dump d) = Ok d.
Proof. exact vd_parse_dump. Qed.

Theorem c01_kdf_of_vd_perm : forall k seed d, Permutation d (vd_of_kdf k seed) -> kdf_of_vd d = Ok (k, seed).
Proof. exact kdf_of_vd_perm. Qed.

(* ---------------- protected values and the inner stream (models xml/XmlDump.v, xml/XmlParse.v) ----
   The reader of the object mapping consumes the key stream exactly as the writer does: after the
   document it stands at the sum of the lengths of the protected values, wherever they occur (meta
   custom data, entries, history entries, entry and group custom data), so the n-th protected value
   in document order receives the n-th consecutive slice. *)
From KP Require Import XmlTypes XmlDump XmlParse XmlSpec XmlStream XmlRoundTrip XmlAlign XmlTotal.
Theorem c01_reader_follows_the_stream :
  forall (gzip : bytes -> bytes) (gunzip : bytes -> option bytes) (c : content) (ks : bytes) (rest : list ev),
  wf_content gzip gunzip c = true -> bytes_ok ks = true ->
  p_keepass gunzip (length (dump_events gzip c ks ++ rest)) (dump_events gzip c ks ++ rest) ks
  = Ok (c, rest, LE.drop (total_length (protected_values_in_order c)) ks).
Proof. exact parse_dump_stream. Qed.

Theorem c01_nth_value_nth_slice :
  forall (l : list bytes) (ks : bytes) (i : nat) (p : bytes),
  nth_error l i = Some p ->
  nth_error (enc_stream l ks) i = Some (xor_ks p (LE.drop (total_length (firstn i l)) ks)).
Proof. exact enc_stream_nth. Qed.

(* ---------------- XML surface forms (xml/XmlSurface*.v) ----------------
   [surface_variant d d'] : d' is obtained from the document d by any number of: an unknown element
   inserted among the children of any element whose reader skips unknown children (Meta, Group,
   Entry, History, String, AutoType, ... - for the seven kinds that do not, the refutations are in
   XmlSurfaceExamples.v), a time stamp written in another encoding that denotes the same time
   (ISO-8601 for base64), the Protected / Compressed attribute values written in another letter
   case, other attributes on leaf elements.  [layout_variant] adds admissible exchanges of adjacent
   children (different names, one of them not touching the key stream, not Entry/Group siblings,
   not two stamps).  Every such variant of a written document reads back as the same content and
   leaves the key stream at the same place. *)
From KP Require Import XmlSurface.
Theorem c01_surface_variants_read_alike :
  forall (gzip : bytes -> bytes) (gunzip : bytes -> option bytes) (c : content) (ks : bytes) (d' : list ev),
  wf_content gzip gunzip c = true -> bytes_ok ks = true ->
  surface_variant (dump_events gzip c ks) d' ->
  parse_events gunzip d' ks = Ok c /\
  (forall X, p_keepass gunzip (length (d' ++ X)) (d' ++ X) ks
             = Ok (c, X, LE.drop (total_length (protected_values_in_order c)) ks)).
Proof. exact surface_variant_roundtrip. Qed.

Theorem c01_layout_variants_read_alike :
  forall (gzip : bytes -> bytes) (gunzip : bytes -> option bytes) (c : content) (ks : bytes) (d' : list ev),
  wf_content gzip gunzip c = true -> bytes_ok ks = true ->
  layout_variant gunzip (dump_events gzip c ks) d' ->
  parse_events gunzip d' ks = Ok c /\
  (forall X, p_keepass gunzip (length (d' ++ X)) (d' ++ X) ks
             = Ok (c, X, LE.drop (total_length (protected_values_in_order c)) ks)).
Proof. exact layout_variant_roundtrip. Qed.

(* ---- ANY conforming writer (format/Kdbx4Conform.v) ------------------------------------------- *)
(* every partition of the ciphertext into non-empty blocks, closed by the empty block, with ignored
   bytes after it, is read back *)
Theorem c01_any_block_partition :
  forall (sha512 : bytes -> bytes) (hmac256 : bytes -> bytes -> bytes),
  (forall k m : bytes, length (hmac256 k m) = 32%nat) ->
  forall (ct : bytes) (blocks : list bytes) (key rest : bytes),
  concat blocks = ct -> Forall Kdbx4Conform.block_ok4 blocks ->
  read_blocks sha512 hmac256
    (S (length (Kdbx4Conform.write_blocks_multi sha512 hmac256 0 key blocks ++ rest))) 0
    (Kdbx4Conform.write_blocks_multi sha512 hmac256 0 key blocks ++ rest) key [] = Ok ct.
Proof. exact read_blocks_any_partition. Qed.

(* the outer header in any order of its five mandatory fields, with comment fields anywhere, any
   content of the end field, the KDF dictionary in any order *)
Theorem c01_outer_header_any_order :
  forall (minor : N) (h : outer_header) (vd : vdict) (fields : list (N * bytes)) (end_buf body : bytes),
  minor < 2 ^ 16 -> Kdbx4Conform.header4_ok h vd -> Kdbx4Conform.short32 end_buf ->
  Forall (fun f : N * bytes => fst f = 1 -> Kdbx4Conform.short32 (snd f)) fields ->
  Permutation (filter Kdbx4Conform.non_comment4 fields) (Kdbx4Conform.canonical_ofields h vd) ->
  parse_outer_header (Kdbx4Conform.header_dump4 minor fields end_buf ++ body)
  = Ok (KDB4 minor, h, length (Kdbx4Conform.header_dump4 minor fields end_buf)).
Proof. exact parse_outer_header_permuted. Qed.

(* the inner header with stream id, stream key and attachments interleaved in any way that keeps the
   attachments' relative order *)
Theorem c01_inner_header_any_order :
  forall (c : icipher) (key : bytes) (atts : list attachment) (fields : list (N * bytes)) (end_buf xml : bytes),
  Kdbx4Conform.short32 key -> atts_ok atts = true -> Kdbx4Conform.short32 end_buf ->
  Kdbx4Conform.interleaved_ifields c key atts fields ->
  parse_inner_header (Kdbx4Conform.inner_dump4 fields end_buf ++ xml) = Ok (atts, c, key, xml).
Proof. exact parse_inner_header_permuted. Qed.

(* the whole reader on the file of any conforming writer: any layout of both headers, any cut of the
   ciphertext into blocks, trailing bytes *)
Theorem c01_conforming_file_roundtrip :
  forall (sha256 sha512 : bytes -> bytes) (hmac256 : bytes -> bytes -> bytes)
         (kdf : kdfcfg -> bytes -> bytes -> Kdbx4.res bytes)
         (outer_enc outer_dec : ocipher -> bytes -> bytes -> bytes -> Kdbx4.res bytes)
         (compress decompress : compression -> bytes -> Kdbx4.res bytes),
  (forall c key iv p ct, outer_enc c key iv p = Ok ct -> outer_dec c key iv ct = Ok p) ->
  (forall z p c, compress z p = Ok c -> decompress z c = Ok p) ->
  (forall m, length (sha256 m) = 32%nat) ->
  (forall k m, length (hmac256 k m) = 32%nat) ->
  forall (minor : N) (h : outer_header) (vd : vdict) (ic : icipher) (key : bytes) (atts : list attachment)
         (L : Kdbx4Conform.layout4) (els : Kdbx4.res (list bytes)) (xml file : bytes),
  minor < 2 ^ 16 ->
  Kdbx4Conform.conforming_layout4 h vd ic key atts L ->
  (forall k p ct,
     compress (h_compression h) (Kdbx4Conform.inner_dump4 (Kdbx4Conform.l_ifields L) (Kdbx4Conform.l_iend L) ++ xml) = Ok p ->
     outer_enc (h_cipher h) k (h_iv h) p = Ok ct ->
     concat (Kdbx4Conform.l_cut L ct) = ct /\ Forall Kdbx4Conform.block_ok4 (Kdbx4Conform.l_cut L ct)) ->
  Kdbx4Conform.write_conforming4 sha256 sha512 hmac256 kdf outer_enc compress minor h L els xml = Ok file ->
  decrypt4 sha256 sha512 hmac256 kdf outer_dec decompress file els
  = Ok ({| c_version := KDB4 minor; c_outer := h_cipher h; c_compression := h_compression h;
           c_inner := ic; c_kdf := h_kdf h |}, atts, key, xml).
Proof. exact frame_roundtrip_conforming. Qed.

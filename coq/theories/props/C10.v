(* C10 - Reading is independent of how the source delivers bytes and surfaces I/O errors.
   Statements only.  Model: io/ReadScript.v (sources as scripts; std's read_to_end and keepass'
   header fill loop on top of Read::read), format/Version.v (DatabaseVersion::parse).
   [parse] is whatever the entry point does with the complete buffer (Database::parse,
   decrypt + XML extraction, storing the key file): the theorems hold for every such function. *)
From KP Require Import Bytes Outcome LE Version ReadScript ReadProofs.

(* open / get_xml / with_keyfile: any schedule of short reads and interruptions, any buffer sizes
   std chooses - the result is that of the whole file *)
Theorem c10_open_chunking_independent :
  forall (R : Type) (parse : bytes -> R) (io_error : ekind -> R) file script caps,
  open_model parse io_error caps (whole file script None) = Ok (parse file).
Proof. exact (@open_chunking_independent). Qed.

(* a source that fails at any offset k in [0, len] makes the call return that I/O error *)
Theorem c10_open_surfaces_error :
  forall (R : Type) (parse : bytes -> R) (io_error : ekind -> R) file script caps k kind,
  (k <= length file)%nat -> kind <> KInterrupted ->
  open_model parse io_error caps (whole file script (Some (k, kind))) = Ok (io_error kind).
Proof. exact (@open_surfaces_error). Qed.

(* the underlying std loop *)
Theorem c10_read_to_end_delivers : forall fuel caps s acc,
  s_fail s = None ->
  (S (length (s_script s) + length (s_rest s)) <= fuel)%nat ->
  read_to_end fuel caps s acc = Ok (acc ++ s_rest s).
Proof. exact read_to_end_delivers. Qed.

(* version sniffing: independent of the schedule ... *)
Theorem c10_get_version_chunking_independent : forall file script,
  get_version_model (whole file script None) = gv_of (version_parse (pad12 file)).
Proof. exact get_version_chunking_independent. Qed.

(* ... equal to what parsing the file's own header reports, which is what open dispatches on ... *)
Theorem c10_get_version_agrees : forall file script,
  (version_header_size <= length file)%nat ->
  get_version_model (whole file script None) = gv_of (version_parse file).
Proof. exact get_version_agrees. Qed.

(* ... and a failing source is reported *)
Theorem c10_get_version_surfaces_error : forall file script k kind,
  (k <= length file)%nat -> (k < version_header_size)%nat -> kind <> KInterrupted ->
  get_version_model (whole file script (Some (k, kind))) = Ok (GvIo kind).
Proof. exact get_version_surfaces_error. Qed.

(* Non-vacuity: a KDBX4 header delivered one byte at a time with interruptions *)
Local Open Scope N_scope.
Example c10_ex_one_byte_chunks :
  get_version_model (whole [3;217;162;154; 103;251;75;181; 1;0; 4;0; 9;9]
                           [Chunk 1; Intr; Chunk 1; Chunk 1; Intr; Intr; Chunk 2; Chunk 1] None)
  = Ok (GvVersion (KDB4 1)).
Proof. vm_compute. reflexivity. Qed.

(* C14 - Merge keeps the newest version of every node and every historical version.
   Statements only.  Model: db/Merge.v. *)
From Coq Require Import Sorted.
From KP Require Import Bytes Outcome Tree TreeFacts History Merge MergeProofs MergeLookup MergeTermination MergeUuids.
Local Open Scope Z_scope.

(* group: the later modification wins name/notes/icon/settings (the data block) and the other
   time stamps; the destination's location time and uuid are preserved *)
Theorem c14_group_merge_lww : forall now d s ld ls,
  t_lm (gi_times d) = Some ld -> t_lm (gi_times s) = Some ls -> ld <> ls ->
  exists d' lg, group_merge_with now d s = Ok (d', lg)
    /\ gi_uuid d' = gi_uuid d
    /\ gi_data d' = (if ld <? ls then gi_data s else gi_data d)
    /\ t_lm (gi_times d') = Some (Z.max ld ls)
    /\ (t_lc (gi_times d) <> None -> t_lc (gi_times d') = t_lc (gi_times d))
    /\ t_rest (gi_times d') = (if ld <? ls then t_rest (gi_times s) else t_rest (gi_times d))
    /\ lg = (if ld <? ls then [Ev GroupUpdated (gi_uuid d)] else []).
Proof. exact group_merge_lww. Qed.

(* history: union of both histories keyed by modification time, strictly newest first, every item
   an original item, nothing of the destination's history lost *)
Theorem c14_history_union : forall self other h lg,
  history_merge_with self other = Ok (h, lg) ->
  all_lm self /\ all_lm other
  /\ NoDup (hist_keys self)
  /\ StronglySorted (fun a b => match t_lm (e_times a), t_lm (e_times b) with
                                | Some x, Some y => x > y | _, _ => False end) h
  /\ (forall t, In (Some t) (hist_keys h) <-> In (Some t) (hist_keys self) \/ In (Some t) (hist_keys other))
  /\ (forall x, In x h -> In x self \/ In x other)
  /\ (forall x, In x self -> In x h)
  /\ Forall (fun x => x = Warn) lg.
Proof. exact history_merge_union. Qed.

(* nodes are created only from the source, and only when the destination has not tombstoned them *)
Theorem c14_created_from_source : forall now d s d' lg u,
  merge now d s = Ok (d', lg) ->
  In (Ev EntryCreated u) lg \/ In (Ev GroupCreated u) lg ->
  In u (tree_uuids (db_root s)) /\ deleted_contains (db_deleted d) u = false.
Proof. exact merge_creation_events_sound. Qed.

(* ---------------- tree level (db/MergeLwwEntry.v, MergeLwwFrame.v, MergeLww.v) ----------------
   For replicas with pairwise distinct UUIDs and any entry present on both sides, at any depth,
   moved or not: after a successful merge the destination holds (unless the source tombstoned it and
   the deletion is logged) an entry with the data of the side that modified it last, every history
   item of that side, every modification time of the other side's history (the item itself when no
   other item claims its time), the newer modification time, the history newest first, and - when
   the older side had uncommitted changes - its current version as a history item. *)
From KP Require Import MergeUnique MergeLwwEntry MergeLwwFrame MergeLww.
Theorem c14_merge_keeps_newest : forall now d s d' lg e_d e_s ld ls,
  uuids_unique (db_children d) -> uuids_unique (db_children s) ->
  In e_d (ents (db_root d)) -> In e_s (ents (db_root s)) -> e_uuid e_d = e_uuid e_s ->
  t_lm (e_times e_d) = Some ld -> t_lm (e_times e_s) = Some ls -> ld <> ls ->
  merge now d s = Ok (d', lg) ->
  exists e', newest_kept e_d e_s e' ld ls
    /\ (In e' (ents (db_root d')) \/ tombstoned_and_logged s lg (e_uuid e_s)).
Proof. exact merge_keeps_newest. Qed.

(* entries the source does not have are untouched, unless a source tombstone deletes them *)
Theorem c14_destination_only_entries_untouched : forall now d s d' lg e,
  uuids_unique (db_children d) -> In e (ents (db_root d)) ->
  ~ In (e_uuid e) (all_uuids (db_root s)) ->
  merge now d s = Ok (d', lg) ->
  In e (ents (db_root d')) \/ tombstoned_and_logged s lg (e_uuid e).
Proof. exact merge_dest_only. Qed.

(* ---------------- placement, group LWW, creation at tree level (db/MergePlace*.v) ----------------
   [rows root] lists (parent UUID, own fields) for every node below the root; [srows deleted root]
   adds the flag "lies under a group the destination deleted".  For replicas of one database with
   pairwise distinct UUIDs: an entry/group present on both sides ends up under the parent chosen by
   the side with the strictly newer LocationChanged time (never moved below a destination-deleted
   group; a group is relocated exactly when the event is logged - the relocation guard against
   moving a group into its own subtree is the recorded finding F15b); groups carry the fields of
   the side that modified them last - the root group included (since the repair F19); nodes that
   exist only in the source are created under the parent with the same UUID. *)
From KP Require Import MergeSelf MergePlaceRows MergePlaceWalk MergePlaceGuard MergePlace.
Theorem c14_entry_placement : forall now d s d' lg f pd ed ps es,
  uuids_unique (db_children d) -> uuids_ok s -> gi_uuid (db_root_info d) = gi_uuid (db_root_info s) ->
  In (pd, IE ed) (rows (db_root d)) -> In (f, (ps, IE es)) (srows (db_deleted d) (db_root s)) ->
  e_uuid ed = e_uuid es -> deleted_contains (db_deleted s) (e_uuid es) = false ->
  merge now d s = Ok (d', lg) ->
  (ps = pd -> parent_of (e_uuid es) (db_root d') = Some pd) /\
  (ps <> pd -> f = false -> lc_src (e_times es) > lc_dst now (e_times ed) ->
     parent_of (e_uuid es) (db_root d') = Some ps /\
     exists e', entry_at (e_uuid es) (db_root d') = Some e' /\ t_lc (e_times e') = Some (lc_src (e_times es))) /\
  (f = true \/ lc_src (e_times es) <= lc_dst now (e_times ed) -> parent_of (e_uuid es) (db_root d') = Some pd) /\
  (In (Ev EntryLocationUpdated (e_uuid es)) lg -> parent_of (e_uuid es) (db_root d') = Some ps) /\
  (~ In (Ev EntryLocationUpdated (e_uuid es)) lg -> parent_of (e_uuid es) (db_root d') = Some pd).
Proof. exact entry_parent_cases. Qed.

Theorem c14_group_placement : forall now d s d' lg f pd gd ps gs,
  uuids_unique (db_children d) -> uuids_ok s -> gi_uuid (db_root_info d) = gi_uuid (db_root_info s) ->
  In (pd, IG gd) (rows (db_root d)) -> In (f, (ps, IG gs)) (srows (db_deleted d) (db_root s)) ->
  gi_uuid gd = gi_uuid gs -> deleted_contains (db_deleted s) (gi_uuid gs) = false ->
  merge now d s = Ok (d', lg) ->
  (ps = pd -> parent_of (gi_uuid gs) (db_root d') = Some pd) /\
  (f = true \/ lc_src (gi_times gs) <= lc_dst now (gi_times gd) -> parent_of (gi_uuid gs) (db_root d') = Some pd) /\
  (In (Ev GroupLocationUpdated (gi_uuid gs)) lg ->
     parent_of (gi_uuid gs) (db_root d') = Some ps /\ f = false /\
     lc_dst now (gi_times gd) < lc_src (gi_times gs) /\
     exists g', group_of (gi_uuid gs) (db_root d') = Some g' /\ t_lc (gi_times g') = Some (lc_src (gi_times gs))) /\
  (~ In (Ev GroupLocationUpdated (gi_uuid gs)) lg -> parent_of (gi_uuid gs) (db_root d') = Some pd).
Proof. exact group_parent_cases. Qed.

Theorem c14_created_under_same_parent : forall now d s d' lg f ps it,
  uuids_unique (db_children d) -> uuids_ok s -> gi_uuid (db_root_info d) = gi_uuid (db_root_info s) ->
  In (f, (ps, it)) (srows (db_deleted d) (db_root s)) -> ~ In (iu it) (all_uuids (db_root d)) ->
  merge now d s = Ok (d', lg) ->
  if created_ok (db_deleted d) f it
  then (In (ps, it) (rows (db_root d')) \/ removed_logged lg (iu it)) /\
       (deleted_contains (db_deleted s) (iu it) = false ->
        In (ps, it) (rows (db_root d')) /\ parent_of (iu it) (db_root d') = Some ps)
  else ~ In (iu it) (all_uuids (db_root d')).
Proof. exact merge_creates. Qed.

Theorem c14_group_lww_tree : forall now d s d' lg pd gd ps gs ld ls,
  uuids_unique (db_children d) -> uuids_ok s ->
  ~ In (gi_uuid (db_root_info d)) (uus (db_children s)) ->
  In (pd, IG gd) (rows (db_root d)) -> In (ps, IG gs) (rows (db_root s)) -> gi_uuid gd = gi_uuid gs ->
  t_lm (gi_times gd) = Some ld -> t_lm (gi_times gs) = Some ls -> ld <> ls ->
  merge now d s = Ok (d', lg) ->
  exists g' p',
    (In (p', IG g') (rows (db_root d')) \/ removed_logged lg (gi_uuid gs)) /\
    (deleted_contains (db_deleted s) (gi_uuid gs) = false -> group_of (gi_uuid gs) (db_root d') = Some g') /\
    gi_uuid g' = gi_uuid gs /\
    gi_data g' = (if ld <? ls then gi_data gs else gi_data gd) /\
    t_lm (gi_times g') = Some (Z.max ld ls) /\
    t_rest (gi_times g') = (if ld <? ls then t_rest (gi_times gs) else t_rest (gi_times gd)).
Proof. exact merge_group_lww_digest. Qed.

Theorem c14_root_group_lww : forall now d s d' lg ld ls,
  uuids_unique (db_children d) -> uuids_ok s -> gi_uuid (db_root_info d) = gi_uuid (db_root_info s) ->
  t_lm (gi_times (db_root_info d)) = Some ld -> t_lm (gi_times (db_root_info s)) = Some ls -> ld <> ls ->
  merge now d s = Ok (d', lg) ->
  gi_uuid (db_root_info d') = gi_uuid (db_root_info d) /\
  gi_data (db_root_info d') = (if ld <? ls then gi_data (db_root_info s) else gi_data (db_root_info d)) /\
  t_lm (gi_times (db_root_info d')) = Some (Z.max ld ls) /\
  (t_lc (gi_times (db_root_info d)) <> None -> t_lc (gi_times (db_root_info d')) = t_lc (gi_times (db_root_info d))) /\
  t_rest (gi_times (db_root_info d')) = (if ld <? ls then t_rest (gi_times (db_root_info s)) else t_rest (gi_times (db_root_info d))) /\
  (In (Ev GroupUpdated (gi_uuid (db_root_info d))) lg <-> ld < ls).
Proof. exact root_group_lww. Qed.

(* C14 - Merge keeps the newest version of every node and every historical version.
   Statements only.  Model: db/Merge.v. *)
From Coq Require Import Sorted.
From KP Require Import Bytes Outcome Tree TreeFacts History Merge MergeProofs MergeLookup MergeTermination MergeUuids.
Local Open Scope Z_scope.

(* group: the later modification wins name/notes/icon/settings (the data block) and the other
   time stamps; the destination's location time and uuid are preserved *)
Theorem c14_group_merge_lww : forall now d s ld ls,
  t_lm (gi_times d) = Some ld -> t_lm (gi_times s) = Some ls -> ld <> ls ->
  exists d' lg, group_merge_with now d s = Ok (d', lg)
    /\ gi_uuid d' = gi_uuid d
    /\ gi_data d' = (if ld <? ls then gi_data s else gi_data d)
    /\ t_lm (gi_times d') = Some (Z.max ld ls)
    /\ (t_lc (gi_times d) <> None -> t_lc (gi_times d') = t_lc (gi_times d))
    /\ t_rest (gi_times d') = (if ld <? ls then t_rest (gi_times s) else t_rest (gi_times d))
    /\ lg = (if ld <? ls then [Ev GroupUpdated (gi_uuid d)] else []).
Proof. exact group_merge_lww. Qed.

(* history: union of both histories keyed by modification time, strictly newest first, every item
   an original item, nothing of the destination's history lost *)
Theorem c14_history_union : forall self other h lg,
  history_merge_with self other = Ok (h, lg) ->
  all_lm self /\ all_lm other
  /\ NoDup (hist_keys self)
  /\ StronglySorted (fun a b => match t_lm (e_times a), t_lm (e_times b) with
                                | Some x, Some y => x > y | _, _ => False end) h
  /\ (forall t, In (Some t) (hist_keys h) <-> In (Some t) (hist_keys self) \/ In (Some t) (hist_keys other))
  /\ (forall x, In x h -> In x self \/ In x other)
  /\ (forall x, In x self -> In x h)
  /\ Forall (fun x => x = Warn) lg.
Proof. exact history_merge_union. Qed.

(* nodes are created only from the source, and only when the destination has not tombstoned them *)
Theorem c14_created_from_source : forall now d s d' lg u,
  merge now d s = Ok (d', lg) ->
  In (Ev EntryCreated u) lg \/ In (Ev GroupCreated u) lg ->
  In u (tree_uuids (db_root s)) /\ deleted_contains (db_deleted d) u = false.
Proof. exact merge_creation_events_sound. Qed.

(* ---------------- tree level (db/MergeLwwEntry.v, MergeLwwFrame.v, MergeLww.v) ----------------
   For replicas with pairwise distinct UUIDs and any entry present on both sides, at any depth,
   moved or not: after a successful merge the destination holds (unless the source tombstoned it and
   the deletion is logged) an entry with the data of the side that modified it last, every history
   item of that side, every modification time of the other side's history (the item itself when no
   other item claims its time), the newer modification time, the history newest first, and - when
   the older side had uncommitted changes - its current version as a history item. *)
From KP Require Import MergeUnique MergeLwwEntry MergeLwwFrame MergeLww.
Theorem c14_merge_keeps_newest : forall now d s d' lg e_d e_s ld ls,
  uuids_unique (db_children d) -> uuids_unique (db_children s) ->
  In e_d (ents (db_root d)) -> In e_s (ents (db_root s)) -> e_uuid e_d = e_uuid e_s ->
  t_lm (e_times e_d) = Some ld -> t_lm (e_times e_s) = Some ls -> ld <> ls ->
  merge now d s = Ok (d', lg) ->
  exists e', newest_kept e_d e_s e' ld ls
    /\ (In e' (ents (db_root d')) \/ tombstoned_and_logged s lg (e_uuid e_s)).
Proof. exact merge_keeps_newest. Qed.

(* entries the source does not have are untouched, unless a source tombstone deletes them *)
Theorem c14_destination_only_entries_untouched : forall now d s d' lg e,
  uuids_unique (db_children d) -> In e (ents (db_root d)) ->
  ~ In (e_uuid e) (all_uuids (db_root s)) ->
  merge now d s = Ok (d', lg) ->
  In e (ents (db_root d')) \/ tombstoned_and_logged s lg (e_uuid e).
Proof. exact merge_dest_only. Qed.

(* C04 - Only the exact credentials open a database.
   Statements only.  Model: format/Kdbx4.v.  The statement is a reduction: it holds for arbitrary
   hash / MAC / KDF functions and isolates the one thing cryptography has to provide - that the
   header MACs under the two derived keys differ. *)
From Coq Require Import Permutation.
From KP Require Import Bytes Outcome LE Version Kdbx4 Kdbx4Facts Kdbx4Proofs.
Local Open Scope N_scope.

(* a file written under key elements e, opened with other elements e': unless the header MAC computed
   from e' coincides with the one computed from e (a MAC collision under different keys, or equal
   derived keys), the reader returns the KEY error - after the unkeyed header hash has passed, and
   before any block is used *)
Theorem c04_wrong_key_is_key_error :
  forall (sha256 sha512 : bytes -> bytes) (hmac256 : bytes -> bytes -> bytes)
         (kdf : kdfcfg -> bytes -> bytes -> Kdbx4.res bytes)
         (outer_enc outer_dec : ocipher -> bytes -> bytes -> bytes -> Kdbx4.res bytes)
         (compress decompress : compression -> bytes -> Kdbx4.res bytes),
  (forall m, length (sha256 m) = 32%nat) ->
  (forall k m, length (hmac256 k m) = 32%nat) ->
  forall cfg d vd els atts xml file minor e e' t t',
  c_version cfg = KDB4 minor -> minor < 2 ^ 16 ->
  draws_ok cfg d = true ->
  Permutation vd (vd_of_kdf (c_kdf cfg) (d_kdf_seed d)) ->
  kdf_params_ok (c_kdf cfg) = true ->
  dump4 sha256 sha512 hmac256 kdf outer_enc compress cfg d vd els atts xml = Ok file ->
  els = Ok e ->
  kdf (c_kdf cfg) (d_kdf_seed d) (composite_key sha256 e) = Ok t ->
  kdf (c_kdf cfg) (d_kdf_seed d) (composite_key sha256 e') = Ok t' ->
  let header := outer_header_dump minor (c_outer cfg) (c_compression cfg) (d_iv d) (d_master_seed d) vd in
  header_mac sha512 hmac256 (hmac_key_of sha512 (d_master_seed d) t) header <>
  header_mac sha512 hmac256 (hmac_key_of sha512 (d_master_seed d) t') header ->
  decrypt4 sha256 sha512 hmac256 kdf outer_dec decompress file (Ok e') = Err EIncorrectKey.
Proof. exact frame_wrong_key. Qed.

(* empty credentials never open anything *)
Theorem c04_no_credentials : forall sha256 sha512 hmac256 kdf outer_dec decompress file e r,
  decrypt4 sha256 sha512 hmac256 kdf outer_dec decompress file (Err e) <> Ok r.
Proof. exact decrypt4_no_credentials. Qed.

(* KDBX 3.1 (model format/Kdbx3.v): credentials whose derived key does not decrypt the payload to
   something beginning with the stream start bytes are answered with the key error *)
From KP Require Import Kdbx3 Kdbx3Proofs.
Theorem c04_kdbx3_wrong_key_is_key_error :
  forall (sha256 : bytes -> bytes) (kdf : kdfcfg -> bytes -> bytes -> Kdbx4.res bytes)
         (outer_enc outer_dec : ocipher -> bytes -> bytes -> bytes -> Kdbx4.res bytes)
         (decompress : compression -> bytes -> Kdbx4.res bytes)
         minor (fields : list (N * bytes)) end_buf (h : header3) (els blocks : list bytes) (file : bytes)
         (e' : list bytes) (t' p : bytes),
  (minor < 2 ^ 16)%N ->
  Forall field_ok fields ->
  (N.of_nat (length end_buf) < 2 ^ 16)%N ->
  fold_left apply_field fields acc3_empty = acc_of_header3 h ->
  length (h3_start h) = 32%nat ->
  frame3 sha256 kdf outer_enc minor fields end_buf h els blocks = Ok file ->
  kdf (KAes (h3_rounds h)) (h3_transform_seed h) (sha256 (concat e')) = Ok t' ->
  outer_dec (h3_cipher h) (sha256 (h3_master_seed h ++ t')) (h3_iv h)
            (drop (length (header_dump3 minor fields end_buf)) file) = Ok p ->
  take 32 p <> h3_start h ->
  decrypt3 sha256 kdf outer_dec decompress file (Ok e') = Err EIncorrectKey.
Proof. exact frame3_wrong_start. Qed.

(* KDB (format/KdbOpen.v): credentials whose derived key does not decrypt the payload to something
   with the recorded content hash are answered with the key error *)
From KP Require Import Kdb Key KdbOpen.
Theorem c04_kdb_wrong_key_is_key_error :
  forall (sha256 : bytes -> bytes) (kdf : kdfcfg -> bytes -> bytes -> Kdbx4.res bytes)
         (outer_enc outer_dec : ocipher -> bytes -> bytes -> bytes -> Kdbx4.res bytes),
  (forall m, length (sha256 m) = 32%nat) ->
  forall (flags : N) (c : ocipher) (sv : N) (ms iv ts : list N) (rounds : N) (gs : list gdesc) (es : list edesc)
         (els : list bytes) (file : bytes) (els' : list bytes) (composite' t' padded : bytes),
  kdb_cipher_of_flags flags = Some c ->
  length ms = 16%nat -> length iv = 16%nat -> length ts = 32%nat -> (rounds < 2 ^ 32)%N ->
  kdb_file_enc_flags sha256 kdf outer_enc flags c sv ms iv ts rounds gs es els = Ok file ->
  composite_kdb sha256 els' = Ok composite' ->
  kdf (KAes rounds) ts composite' = Ok t' ->
  outer_dec c (sha256 (ms ++ t')) iv (drop kdb_header_size file) = Ok padded ->
  (forall payload, kdb_unpad padded = Some payload -> sha256 payload <> sha256 (payload_enc gs es)) ->
  kdb_open sha256 kdf outer_dec file (Ok els') = Err KEIncorrectKey.
Proof. exact kdb_file_wrong_key. Qed.

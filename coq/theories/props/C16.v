(* C16 - Merge always terminates, succeeds on related replicas, and keeps the tree sound.
   Statements only.  Model: db/Merge.v. *)
From KP Require Import Bytes Outcome Tree TreeFacts History Merge MergeProofs MergeLookup MergeTermination MergeUuids MergeSuccess.

(* History::merge_with neither panics nor fails when every item carries a modification time and
   the destination's own times are distinct *)
Theorem c16_history_merge_total : forall self other,
  all_lm self -> all_lm other -> NoDup (hist_keys self) ->
  exists h lg, history_merge_with self other = Ok (h, lg).
Proof. exact history_merge_total. Qed.

(* conservation of tombstones: nothing the destination had tombstoned is forgotten *)
Theorem c16_tombstones_kept : forall now d s d' lg,
  merge now d s = Ok (d', lg) ->
  exists added, db_deleted d' = db_deleted d ++ added /\ incl added (db_deleted s).
Proof. exact merge_tombstones_monotone. Qed.

(* the group-deletion work queue never exhausts its fuel q(q+1)+1: it terminates, for every queue
   (duplicates included) on every tree with unique UUIDs *)
Theorem c16_deletions_terminate : forall now root deleted src_deleted,
  uuids_unique (children_of root) -> merge_deletions now root deleted src_deleted <> OutOfFuel.
Proof. exact merge_deletions_terminates. Qed.

Theorem c16_del_groups_terminates : forall now st q fuel,
  uuids_unique (children_of (ds_root st)) ->
  (S (length q * S (length q)) <= fuel)%nat ->
  del_groups fuel now st q <> OutOfFuel.
Proof. exact del_groups_terminates. Qed.

(* ... and it succeeds, keeps UUIDs unique and the root a group: no error, no panic *)
Theorem c16_deletions_succeed : forall now root deleted src_deleted,
  uuids_unique (children_of root) ->
  exists root' deleted' lg,
    merge_deletions now root deleted src_deleted = Ok (root', deleted', lg)
    /\ uuids_unique (children_of root') /\ is_group root' = is_group root.
Proof. exact merge_deletions_ok. Qed.

(* find_node_location and the path lookup agree on trees with unique UUIDs: the location found
   designates the group that holds the node (so the unwraps after it cannot fail) *)
Theorem c16_location_designates : forall u root loc,
  uuids_unique (children_of root) ->
  fnl_db u (children_of root) = Some loc ->
  exists pi pc, find_group loc root = Some (pi, pc)
    /\ exists n, In n pc /\ uuid_of n = u /\ find (fun c => N.eqb (uuid_of c) u) pc = Some n.
Proof. exact fnl_db_find_group. Qed.

(* conservation: the merge invents no node - every UUID of the result was in the destination or in the source *)
Theorem c16_no_new_uuids : forall now d s d' lg,
  merge now d s = Ok (d', lg) ->
  incl (tree_uuids (db_root d')) (tree_uuids (db_root d) ++ tree_uuids (db_root s)).
Proof. exact merge_no_new_uuids. Qed.

(* ---------------- soundness of the whole tree (db/MergeUnique.v) ----------------
   For replicas of one database (same root UUID) whose UUIDs are pairwise distinct, a successful
   merge leaves the UUIDs pairwise distinct; the root stays the root; every UUID of the destination
   is still present or its deletion is in the log; every UUID of the result was there before or its
   creation is in the log; and merge never runs out of fuel.  Each hypothesis is shown necessary by
   a computed counter-example in MergeUnique.v (cx1 .. cx6). *)
From KP Require Import MergeSelf MergeUnique.
Theorem c16_merge_keeps_unique : forall now d s d' lg,
  uuids_ok d -> uuids_ok s -> gi_uuid (db_root_info d) = gi_uuid (db_root_info s) ->
  merge now d s = Ok (d', lg) -> uuids_ok d'.
Proof. exact merge_keeps_unique. Qed.

Theorem c16_merge_keeps_root : forall now d s d' lg,
  merge now d s = Ok (d', lg) -> gi_uuid (db_root_info d') = gi_uuid (db_root_info d).
Proof. exact merge_keeps_root. Qed.

Theorem c16_merge_conserves : forall now d s d' lg,
  uuids_unique (db_children d) -> merge now d s = Ok (d', lg) ->
  forall u, In u (tree_uuids (db_root d)) ->
    In u (tree_uuids (db_root d')) \/ In (Ev EntryDeleted u) lg \/ In (Ev GroupDeleted u) lg.
Proof. exact merge_conserves. Qed.

Theorem c16_merge_result_origin : forall now d s d' lg,
  uuids_unique (db_children d) -> merge now d s = Ok (d', lg) ->
  forall u, In u (tree_uuids (db_root d')) ->
    In u (tree_uuids (db_root d)) \/ In (Ev EntryCreated u) lg \/ In (Ev GroupCreated u) lg.
Proof. exact merge_result_origin. Qed.

Theorem c16_merge_never_out_of_fuel : forall now d s, uuids_ok d -> merge now d s <> OutOfFuel.
Proof. exact merge_never_out_of_fuel. Qed.

(* ---- does merge return at all, and with what (db/MergeSuccess.v) ------------------------------ *)
(* with every entry and history item time-stamped, unique UUIDs and no UUID shared between an entry and
   a group, merge never takes one of the code's unwrap sites *)
Theorem c16_merge_never_panics : forall (now : Z) (d s : db),
  wf_lm d -> wf_lm s -> uuids_ok d -> kinds_agree d s ->
  forall site : N, merge now d s <> Panic site.
Proof. exact merge_never_panics. Qed.

(* every error merge reports is a modification-time conflict of a group, a pair of history items with
   one time stamp, or a failed group lookup - never the generic error, a failed entry lookup, or the
   entry modification-time error (which is unreachable from merge altogether) *)
Theorem c16_merge_errors_classified : forall (now : Z) (d s : db),
  wf_lm d -> wf_lm s -> uuids_ok d -> kinds_agree d s ->
  forall e : merr, merge now d s = Err e ->
  e = EGroupTime \/ e = EDupHistory \/ (exists p : list N, e = EFindGroup p).
Proof. exact merge_errors_classified. Qed.

Theorem c16_entry_time_error_unreachable : forall (now : Z) (d s : db), merge now d s <> Err EEntryTime.
Proof. exact merge_never_entry_time. Qed.

(* success: when, in addition, histories carry pairwise distinct stamps and every group present in both
   replicas has equal content under equal modification times and no later location stamp in the source
   (the source moved no shared group after the destination did), merge returns a database *)
Theorem c16_merge_succeeds : forall (now : Z) (d s : db),
  wf_lm d -> wf_lm s -> hist_distinct d -> hist_distinct s -> uuids_ok d -> uuids_ok s ->
  kinds_agree d s -> (0 <= now)%Z -> groups_agree now d s ->
  exists (d' : db) (lg : log), merge now d s = Ok (d', lg).
Proof. exact merge_succeeds. Qed.

(* the failed group lookup IS reachable when the source moved shared groups: finding F21.  Everything
   else of the success theorem's hypotheses holds for this pair of replicas *)
Theorem c16_group_moves_can_fail_refuted :
  wf_lmb fg_d = true /\ wf_lmb fg_s = true /\ hist_distinctb fg_d = true /\ hist_distinctb fg_s = true /\
  uuids_okb fg_d = true /\ uuids_okb fg_s = true /\ kinds_agreeb fg_d fg_s = true /\
  groups_agreeb 30 fg_d fg_s = false /\
  merge 30 fg_d fg_s = Err (EFindGroup [1%N; 2%N]).
Proof. exact cx_findgroup. Qed.

(* the success theorem is not vacuous: a pair of replicas with edits on both sides meets its hypotheses *)
Theorem c16_merge_succeeds_example :
  exists (d' : db) (lg : log), merge 20 ex_d ex_s = Ok (d', lg).
Proof. exact ex_succeeds. Qed.

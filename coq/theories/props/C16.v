(* C16 - Merge always terminates, succeeds on related replicas, and keeps the tree sound.
   Statements only.  Model: db/Merge.v. *)
From KP Require Import Bytes Outcome Tree TreeFacts History Merge MergeProofs.

(* History::merge_with neither panics nor fails when every item carries a modification time and
   the destination's own times are distinct *)
Theorem c16_history_merge_total : forall self other,
  all_lm self -> all_lm other -> NoDup (hist_keys self) ->
  exists h lg, history_merge_with self other = Ok (h, lg).
Proof. exact history_merge_total. Qed.

(* conservation of tombstones: nothing the destination had tombstoned is forgotten *)
Theorem c16_tombstones_kept : forall now d s d' lg,
  merge now d s = Ok (d', lg) ->
  exists added, db_deleted d' = db_deleted d ++ added /\ incl added (db_deleted s).
Proof. exact merge_tombstones_monotone. Qed.

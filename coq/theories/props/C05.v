(* C05 - A KDBX4 file cannot be altered without the key and still open differently.
   Statements only.  Model: format/Kdbx4.v.  All statements are REDUCTIONS: they hold for arbitrary
   functions sha256 / sha512 / hmac256 / kdf and exhibit the forgery - a MAC tag that verifies for a
   (block index, length, data) triple, or a header, that the writer never authenticated - instead of
   assuming there is none. *)
From Coq Require Import Permutation.
From KP Require Import Bytes Outcome LE Version Kdbx4 Kdbx4Proofs Kdbx4Integrity.
Local Open Scope N_scope.

(* an accepted block stream IS a sequence of correctly MACed, consecutively indexed, non-empty blocks,
   followed by a correctly MACed empty block (always present) after which everything is ignored *)
Theorem c05_read_blocks_sound : forall (sha512 : bytes -> bytes) (hmac256 : bytes -> bytes -> bytes)
    fuel idx stream key out res0,
  read_blocks sha512 hmac256 fuel idx stream key out = Ok res0 ->
  exists blocks rest,
    res0 = out ++ concat (map snd blocks) /\
    Forall (fun p : bytes * bytes => sized p /\ snd p <> []) blocks /\
    stream = frames sha512 hmac256 idx key blocks
             ++ frame sha512 hmac256 (idx + N.of_nat (length blocks)) key (le_enc 4 0) [] ++ rest.
Proof. exact read_blocks_sound. Qed.

(* conversely: correctly MACed, consecutively indexed, non-empty blocks NOT followed by the closing empty
   block are never accepted - a stream cut at a block boundary (the empty stream included: blocks = [])
   is rejected *)
Theorem c05_cut_stream_is_rejected : forall (sha512 : bytes -> bytes) (hmac256 : bytes -> bytes -> bytes),
  (forall k m, length (hmac256 k m) = 32%nat) ->
  forall blocks fuel idx key out res0,
  Forall (fun p : bytes * bytes => sized p /\ snd p <> []) blocks ->
  read_blocks sha512 hmac256 fuel idx (frames sha512 hmac256 idx key blocks) key out <> Ok res0.
Proof. exact read_blocks_needs_closing_block. Qed.

(* every way an accepted stream can relate to the honest one for ciphertext ct: a forgery, or the
   honest stream plus ignored trailing bytes *)
Theorem c05_accepted_stream_classification : forall (sha512 : bytes -> bytes) (hmac256 : bytes -> bytes -> bytes)
    fuel stream' key ct enc,
  read_blocks sha512 hmac256 fuel 0 stream' key [] = Ok enc ->
  Forgery sha512 hmac256 key (honest_triples ct) stream' \/
  (enc = ct /\ exists rest, stream' = write_blocks sha512 hmac256 ct key ++ rest).
Proof. exact accepted_stream_classification. Qed.

(* a different payload out of the block stream means the stream contains a forgery *)
Theorem c05_altered_stream_is_forgery : forall (sha512 : bytes -> bytes) (hmac256 : bytes -> bytes -> bytes)
    fuel stream' key ct enc,
  read_blocks sha512 hmac256 fuel 0 stream' key [] = Ok enc ->
  enc <> ct ->
  Forgery sha512 hmac256 key (honest_triples ct) stream'.
Proof. exact altered_stream_is_forgery. Qed.

(* the whole file: f honestly written, f' with the same header bytes accepted under the same
   credentials with a DIFFERENT result => the block stream of f' contains a forgery *)
Theorem c05_altered_file_is_forgery :
  forall (sha256 sha512 : bytes -> bytes) (hmac256 : bytes -> bytes -> bytes)
         (kdf : kdfcfg -> bytes -> bytes -> res bytes)
         (outer_enc outer_dec : ocipher -> bytes -> bytes -> bytes -> res bytes)
         (compress decompress : compression -> bytes -> res bytes),
  (forall c key iv p ct, outer_enc c key iv p = Ok ct -> outer_dec c key iv ct = Ok p) ->
  (forall z p c, compress z p = Ok c -> decompress z c = Ok p) ->
  forall cfg d vd els atts xml f minor f' r',
  c_version cfg = KDB4 minor -> minor < 2 ^ 16 ->
  draws_ok cfg d = true ->
  Permutation vd (vd_of_kdf (c_kdf cfg) (d_kdf_seed d)) ->
  kdf_params_ok (c_kdf cfg) = true -> atts_ok atts = true ->
  dump4 sha256 sha512 hmac256 kdf outer_enc compress cfg d vd els atts xml = Ok f ->
  let header := outer_header_dump minor (c_outer cfg) (c_compression cfg) (d_iv d) (d_master_seed d) vd in
  take (length header) f' = header ->
  decrypt4 sha256 sha512 hmac256 kdf outer_dec decompress f' els = Ok r' ->
  r' <> (cfg, atts, d_inner_key d, xml) ->
  exists e t p ct,
    els = Ok e /\
    kdf (c_kdf cfg) (d_kdf_seed d) (composite_key sha256 e) = Ok t /\
    compress (c_compression cfg) (inner_header_dump (c_inner cfg) (d_inner_key d) atts ++ xml) = Ok p /\
    outer_enc (c_outer cfg) (master_key_of sha256 (d_master_seed d) t) (d_iv d) p = Ok ct /\
    (let hk := hmac_key_of sha512 (d_master_seed d) t in
     f = header ++ sha256 header ++ header_mac sha512 hmac256 hk header ++ write_blocks sha512 hmac256 ct hk /\
     Forgery sha512 hmac256 hk (honest_triples ct) (drop (length header + 64) f')).
Proof. exact altered_file_is_forgery. Qed.

(* any change to any header byte (the attacker recomputing the unkeyed SHA-256) that is still accepted
   means the header MAC verifies for a header the writer never authenticated *)
Theorem c05_altered_header_is_forgery :
  forall (sha256 sha512 : bytes -> bytes) (hmac256 : bytes -> bytes -> bytes)
         (kdf : kdfcfg -> bytes -> bytes -> res bytes)
         (outer_dec : ocipher -> bytes -> bytes -> bytes -> res bytes)
         (decompress : compression -> bytes -> res bytes) file els r header hk,
  decrypt4 sha256 sha512 hmac256 kdf outer_dec decompress file els = Ok r ->
  exists v h hlen e t,
    parse_outer_header file = Ok (v, h, hlen) /\ els = Ok e /\
    kdf (h_kdf h) (h_kdf_seed h) (composite_key sha256 e) = Ok t /\
    (hmac_key_of sha512 (h_master_seed h) t = hk -> take hlen file <> header ->
     exists m, m <> header /\ take 32 (drop (hlen + 32) file) = header_mac sha512 hmac256 hk m).
Proof. exact altered_header_is_forgery. Qed.

(* ---------------- END TO END (format/SaveOpen.v) ----------------
   A file f' that begins with the honest header of a saved database and that open_model accepts under
   the same credentials as a DIFFERENT database contains a forgery against the block tags the writer
   produced. *)
From KP Require Import SaveOpen XmlTypes XmlSpec Kdbx4Proofs.
Theorem c05_altered_saved_file_is_forgery :
  forall (sha256 sha512 : bytes -> bytes) (hmac256 : bytes -> bytes -> bytes)
         (kdf : kdfcfg -> bytes -> bytes -> Kdbx4.res bytes)
         (outer_enc outer_dec : ocipher -> bytes -> bytes -> bytes -> Kdbx4.res bytes)
         (compress decompress : compression -> bytes -> Kdbx4.res bytes)
         (gzip : bytes -> bytes) (gunzip : bytes -> option bytes)
         (render : list ev -> bytes) (lex : bytes -> list ev)
         (keystream : icipher -> bytes -> bytes)
         (other_formats : dbversion -> bytes -> Kdbx4.res (list bytes) -> outcome ferr database),
  (forall c key iv p ct, outer_enc c key iv p = Ok ct -> outer_dec c key iv ct = Ok p) ->
  (forall z p c, compress z p = Ok c -> decompress z c = Ok p) ->
  (forall c k, bytes_ok (keystream c k) = true) ->
  forall (cfg : config) (atts : list attachment) (c : content) (d : draws) (vd : list (bytes * vdval))
         (elements : Kdbx4.res (list bytes)) (f : bytes) (minor : N) (f' : bytes) (db' : database),
  let db := mkDb cfg atts c in
  c_version cfg = KDB4 minor -> (minor < 2 ^ 16)%N ->
  draws_ok cfg d = true ->
  Permutation.Permutation vd (vd_of_kdf (c_kdf cfg) (d_kdf_seed d)) ->
  kdf_params_ok (c_kdf cfg) = true -> atts_ok atts = true ->
  wf_content gzip gunzip c = true ->
  lex (render (document gzip keystream db d)) = document gzip keystream db d ->
  save_model sha256 sha512 hmac256 kdf outer_enc compress gzip render keystream db d vd elements = Ok f ->
  let header := outer_header_dump minor (c_outer cfg) (c_compression cfg) (d_iv d) (d_master_seed d) vd in
  take (length header) f' = header ->
  open_model sha256 sha512 hmac256 kdf outer_dec decompress gunzip lex keystream other_formats f' elements = Ok db' ->
  db' <> db ->
  exists (e : list bytes) (t p ct : bytes),
    elements = Ok e /\
    kdf (c_kdf cfg) (d_kdf_seed d) (composite_key sha256 e) = Ok t /\
    compress (c_compression cfg) (inner_header_dump (c_inner cfg) (d_inner_key d) atts ++ render (document gzip keystream db d)) = Ok p /\
    outer_enc (c_outer cfg) (master_key_of sha256 (d_master_seed d) t) (d_iv d) p = Ok ct /\
    (let hk := hmac_key_of sha512 (d_master_seed d) t in
     f = header ++ sha256 header ++ header_mac sha512 hmac256 hk header ++ write_blocks sha512 hmac256 ct hk /\
     Forgery sha512 hmac256 hk (honest_triples ct) (drop (length header + 64) f')).
Proof. exact save_open_altered_file. Qed.

(* C02 - Legacy containers (KDBX 3.1 and KDB) decode to exactly the stored content.
   Statements only.  Models: format/Kdbx3.v (reader decrypt3, conforming writer frame3),
   format/Kdb.v (reader kdb_open / parse_db, conforming payload writer payload_enc).
   KDBX 3.1: for every header-field order with comment fields, every partition into hashed blocks,
   every cipher whose decryption returns the plaintext possibly followed by padding (the library's
   Twofish path), the reader returns the configuration, the inner stream key and the XML document.
   The XML-to-object mapping is shared with KDBX4 and decided by evaluation (C01/C02 streams). *)
From Coq Require Import Permutation.
From KP Require Import Bytes Outcome LE Version Kdbx4 Kdbx3 Kdbx3Proofs Kdbx4Total.
Local Open Scope N_scope.

Theorem c02_kdbx3_roundtrip :
  forall (sha256 : bytes -> bytes) (kdf : kdfcfg -> bytes -> bytes -> res bytes)
         (outer_enc outer_dec : ocipher -> bytes -> bytes -> bytes -> res bytes)
         (decompress : compression -> bytes -> res bytes),
  (forall x, length (sha256 x) = 32%nat) ->
  (forall c k iv x e, outer_enc c k iv x = Ok e -> exists tail, outer_dec c k iv e = Ok (x ++ tail)) ->
  forall minor (fields : list (N * bytes)) end_buf (h : header3) (els blocks : list bytes) (file xml : bytes),
  minor < 2 ^ 16 ->
  header3_ok h ->
  N.of_nat (length end_buf) < 2 ^ 16 ->
  Forall (fun f => fst f = 1 -> short16 (snd f)) fields ->
  Permutation (filter non_comment fields) (canonical_fields h) ->
  length (h3_start h) = 32%nat ->
  Forall block_ok blocks ->
  decompress (h3_compression h) (concat blocks) = Ok xml ->
  frame3 sha256 kdf outer_enc minor fields end_buf h els blocks = Ok file ->
  decrypt3 sha256 kdf outer_dec decompress file (Ok els)
  = Ok (mkConfig (KDB3 minor) (h3_cipher h) (h3_compression h) (h3_inner h) (KAes (h3_rounds h)), h3_psk h, xml).
Proof. exact frame3_roundtrip_permuted. Qed.

(* the header alone: any order of the nine fields, comment fields anywhere *)
Theorem c02_kdbx3_header :
  forall minor (h : header3) (fields : list (N * bytes)) end_buf body,
  header3_ok h ->
  N.of_nat (length end_buf) < 2 ^ 16 ->
  Forall (fun f => fst f = 1 -> short16 (snd f)) fields ->
  Permutation (filter non_comment fields) (canonical_fields h) ->
  parse_outer_header3 (header_dump3 minor fields end_buf ++ body)
  = Ok (h, length (header_dump3 minor fields end_buf)).
Proof. exact parse_outer_header3_permuted. Qed.

(* the hashed block stream alone: any number of non-empty blocks, any block ids, anything after the
   final block *)
Theorem c02_kdbx3_blocks :
  forall (sha256 : bytes -> bytes), (forall x, length (sha256 x) = 32%nat) ->
  forall (blocks : list bytes) id tail out,
  Forall block_ok blocks ->
  read_blocks3 sha256 (S (length (write_blocks3 sha256 id blocks ++ tail))) (write_blocks3 sha256 id blocks ++ tail) out
  = Ok (out ++ concat blocks).
Proof. exact read_write_blocks3_reader. Qed.

(* and the KDBX 3.1 reader never panics and never hangs, whatever the bytes *)
Theorem c02_kdbx3_total :
  forall (sha256 : bytes -> bytes) (kdf : kdfcfg -> bytes -> bytes -> outcome kerr bytes)
         (outer_dec : ocipher -> bytes -> bytes -> bytes -> outcome kerr bytes)
         (decompress : compression -> bytes -> outcome kerr bytes) data els,
  good els ->
  (forall k s c, good (kdf k s c)) ->
  (forall c k iv d, good (outer_dec c k iv d)) ->
  (forall z d, good (decompress z d)) ->
  (forall n, decrypt3 sha256 kdf outer_dec decompress data els <> Panic n) /\
  decrypt3 sha256 kdf outer_dec decompress data els <> OutOfFuel.
Proof. exact decrypt3_never_panics_never_hangs. Qed.

(* ---------------- KDB ---------------- *)
From KP Require Import Kdb KdbSpec KdbGroups KdbEntries KdbProofs.

(* The payload a conforming writer lays out for groups [gs] (any forest given by level numbers: first
   level 0, each next level at most the previous + 1; arbitrary, also repeated, names) with distinct
   ids and entries [es] (arbitrary assignment to groups, arbitrary subsets and order of the content
   fields) is read back as: a forest whose groups, listed in preorder with their depths, are exactly
   the (level, name) sequence - which determines the forest (c02_kdb_preorder_determines_forest) -
   and in which the i-th group has, after its sub-groups, exactly the entries naming its id, in file
   order, each with exactly its fields. *)
Theorem c02_kdb_content :
  forall gs es,
  valid_levels gs = true -> forallb gdesc_ok gs = true -> forallb edesc_ok es = true ->
  NoDup (map gd_gid gs) -> (forall e, In e es -> In (ed_gid e) (map gd_gid gs)) ->
  exists root',
    parse_db (N.of_nat (length gs)) (N.of_nat (length es)) (payload_enc gs es) = Ok root' /\
    preorder 0 root' = map lvname gs /\ groups_only (strip_entries root') = true /\
    map tag root' = map (fun _ => None) (strip_entries root') /\
    forall i g, nth_error gs i = Some g ->
      exists p c c',
        nth_error (forest_paths (strip_entries root')) i = Some p /\
        name_at p (strip_entries root') = Some (gd_name g) /\ length p = S (gd_level g) /\
        children_at p (strip_entries root') = Some c /\ children_at p root' = Some c' /\
        map tag c' = map (fun _ => None) c ++
          map (fun e => Some (entry_fields e)) (filter (fun e => N.eqb (ed_gid e) (gd_gid g)) es).
Proof. exact parse_db_ok_distinct. Qed.

Theorem c02_kdb_preorder_determines_forest :
  forall t1 d t2, groups_only t1 = true -> groups_only t2 = true -> preorder d t1 = preorder d t2 -> t1 = t2.
Proof. exact preorder_inj. Qed.

(* the group stage alone, ids possibly repeated: the id map is the file-order insertion of
   (id, place of the i-th group), so the last group carrying an id is the one recorded *)
Theorem c02_kdb_groups :
  forall gs rest,
  valid_levels gs = true -> forallb gdesc_ok gs = true ->
  exists root m,
    parse_groups (N.of_nat (length gs)) (concat (map group_enc gs) ++ rest) = Ok (root, m, rest) /\
    preorder 0 root = map lvname gs /\ groups_only root = true /\
    m = gm_spec (map gd_gid gs) (forest_paths root).
Proof. exact parse_groups_ok. Qed.

Theorem c02_kdb_last_id_wins :
  forall gs root i g,
  preorder 0 root = map lvname gs -> nth_error gs i = Some g ->
  (forall j g', (i < j)%nat -> nth_error gs j = Some g' -> gd_gid g' <> gd_gid g) ->
  exists p, nth_error (forest_paths root) i = Some p /\
            map_get (gd_gid g) (gm_spec (map gd_gid gs) (forest_paths root)) = Some p.
Proof. exact group_map_get. Qed.

(* every byte string: a value or an error, never the "Follow group_path" panic, never out of fuel *)
Theorem c02_kdb_never_panics :
  forall ng ne payload,
  match parse_db ng ne payload with Panic _ => False | OutOfFuel => False | _ => True end.
Proof. exact parse_db_never_panics. Qed.

(* a level sequence that does not start at 0 or jumps by more than one is rejected *)
Theorem c02_kdb_bad_level :
  forall gs1 g gs2 total rest,
  valid_levels gs1 = true -> valid_levels (gs1 ++ [g]) = false ->
  forallb gdesc_ok (gs1 ++ [g]) = true -> N.of_nat (length gs1) < total ->
  parse_groups total (concat (map group_enc (gs1 ++ g :: gs2)) ++ rest) = Err KEInvalidLevel.
Proof. exact parse_groups_bad_level. Qed.

(* ---------------- END TO END (format/KdbOpen.v, Kdbx3Open.v, Kdbx3Time.v) ----------------
   KDB: the whole reader (fixed header, key, cipher flag, the library's decryption with or without
   the padding left in place, the reader's own padding step, content hash, records) applied to what a
   conforming writer lays out returns the version, cipher, rounds and the tree characterised as in
   c02_kdb_content.  KDBX 3.1: the whole reader (container, XML text layer as a parameter, object
   mapping, inner stream keyed by the header's protected stream key) applied to a conforming file
   whose document carries ISO-8601 time stamps returns configuration and content. *)
From KP Require Import SaveOpen KdbOpen Kdbx3Time Kdbx3Open XmlTypes XmlSpec.
Theorem c02_kdb_open_roundtrip :
  forall (sha256 : bytes -> bytes) (kdf : kdfcfg -> bytes -> bytes -> Kdbx4.res bytes)
         (outer_enc outer_dec : ocipher -> bytes -> bytes -> bytes -> Kdbx4.res bytes),
  (forall m, length (sha256 m) = 32%nat) ->
  forall (c : ocipher) (sv : N) (ms iv ts : list N) (rounds : N) (gs : list gdesc) (es : list edesc)
         (els : list bytes) (file : bytes),
  (forall k i x ct, outer_enc c k i x = Ok ct -> exists pad, outer_dec c k i ct = Ok (x ++ pad) /\ lib_tail pad) ->
  c = OAes256 \/ c = OTwofish ->
  length ms = 16%nat -> length iv = 16%nat -> length ts = 32%nat -> rounds < 2 ^ 32 ->
  gs <> [] -> N.of_nat (length gs) < 2 ^ 32 -> N.of_nat (length es) < 2 ^ 32 ->
  valid_levels gs = true -> forallb gdesc_ok gs = true -> forallb edesc_ok es = true ->
  NoDup (map gd_gid gs) -> (forall e, In e es -> In (ed_gid e) (map gd_gid gs)) ->
  kdb_file_enc sha256 kdf outer_enc c sv ms iv ts rounds gs es els = Ok file ->
  exists root',
    kdb_open sha256 kdf outer_dec file (Ok els) = Ok (KDB (sv mod 65536), c, rounds, root') /\
    preorder 0 root' = map lvname gs /\ groups_only (strip_entries root') = true /\
    map tag root' = map (fun _ => None) (strip_entries root') /\
    forall i g, nth_error gs i = Some g ->
      exists p ch ch',
        nth_error (forest_paths (strip_entries root')) i = Some p /\
        name_at p (strip_entries root') = Some (gd_name g) /\ length p = S (gd_level g) /\
        children_at p (strip_entries root') = Some ch /\ children_at p root' = Some ch' /\
        map tag ch' = map (fun _ => None) ch ++
          map (fun e => Some (entry_fields e)) (filter (fun e => N.eqb (ed_gid e) (gd_gid g)) es).
Proof. exact kdb_open_roundtrip. Qed.

Theorem c02_kdbx3_open_roundtrip :
  forall (sha256 : bytes -> bytes) (kdf : kdfcfg -> bytes -> bytes -> Kdbx4.res bytes)
         (outer_enc outer_dec : ocipher -> bytes -> bytes -> bytes -> Kdbx4.res bytes)
         (compress decompress : compression -> bytes -> Kdbx4.res bytes)
         (gzip : bytes -> bytes) (gunzip : bytes -> option bytes)
         (render : list ev -> bytes) (lex : bytes -> list ev) (keystream : icipher -> bytes -> bytes),
  (forall x, length (sha256 x) = 32%nat) ->
  (forall c k iv x e, outer_enc c k iv x = Ok e -> exists tail, outer_dec c k iv e = Ok (x ++ tail)) ->
  (forall z p c, compress z p = Ok c -> decompress z c = Ok p) ->
  (forall c k, bytes_ok (keystream c k) = true) ->
  forall (c : content) (h : header3) (minor : N) (fields : list (N * bytes)) (end_buf : bytes)
         (els : list bytes) (z : bytes) (blocks : list bytes) (file : bytes),
  minor < 2 ^ 16 -> header3_ok h -> N.of_nat (length end_buf) < 2 ^ 16 ->
  Forall (fun f => fst f = 1 -> short16 (snd f)) fields ->
  Permutation (filter non_comment fields) (canonical_fields h) ->
  length (h3_start h) = 32%nat ->
  wf_content gzip gunzip c = true ->
  lex (render (document3 gzip keystream c h)) = document3 gzip keystream c h ->
  compress (h3_compression h) (render (document3 gzip keystream c h)) = Ok z ->
  concat blocks = z -> Forall block_ok blocks ->
  frame3 sha256 kdf outer_enc minor fields end_buf h els blocks = Ok file ->
  open3_model sha256 kdf outer_dec decompress gunzip lex keystream file (Ok els)
  = Ok (mkDb (config3 minor h) [] c).
Proof. exact open3_roundtrip. Qed.

(* C06 - Reading never panics, aborts or hangs on arbitrary input.
   Statements only.  Model: format/Kdbx4.v (the model returns Panic exactly where the Rust code would
   panic and OutOfFuel where a loop ran out of its fuel; that it does so is what the malformed-input
   correspondence stream checks).  For EVERY byte string and every credential outcome the KDBX4
   reader returns a value or an error, provided the primitives themselves do. *)
From KP Require Import Bytes Outcome LE Version Kdbx4 Kdbx4Total.
Local Open Scope N_scope.

Theorem c06_decrypt4_total :
  forall (sha256 sha512 : bytes -> bytes) (hmac256 : bytes -> bytes -> bytes)
         (kdf : kdfcfg -> bytes -> bytes -> outcome kerr bytes)
         (outer_dec : ocipher -> bytes -> bytes -> bytes -> outcome kerr bytes)
         (decompress : compression -> bytes -> outcome kerr bytes) file els,
  good els ->
  (forall k s c, good (kdf k s c)) ->
  (forall c k iv d, good (outer_dec c k iv d)) ->
  (forall z d, good (decompress z d)) ->
  (forall n, decrypt4 sha256 sha512 hmac256 kdf outer_dec decompress file els <> Panic n) /\
  decrypt4 sha256 sha512 hmac256 kdf outer_dec decompress file els <> OutOfFuel.
Proof. exact decrypt4_never_panics_never_hangs. Qed.

(* the loops one by one: input length as fuel always suffices, for arbitrary bytes *)
Theorem c06_vd_parse_good : forall buffer, good (vd_parse buffer).
Proof. exact vd_parse_good. Qed.
Theorem c06_parse_outer_header_good : forall data, good (parse_outer_header data).
Proof. exact parse_outer_header_good. Qed.
Theorem c06_parse_inner_header_good : forall payload, good (parse_inner_header payload).
Proof. exact parse_inner_header_good. Qed.
Theorem c06_read_blocks_good : forall (sha512 : bytes -> bytes) (hmac256 : bytes -> bytes -> bytes) fuel idx stream key out,
  (length stream < fuel)%nat -> good (read_blocks sha512 hmac256 fuel idx stream key out).
Proof. exact (fun sha512 hmac256 => read_blocks_good sha512 sha512 hmac256 (fun _ _ _ => Err ECrypto) (fun _ _ _ _ => Err ECrypto) (fun _ _ _ _ => Err ECrypto) (fun _ _ => Err ECrypto) (fun _ _ => Err ECrypto)). Qed.
Theorem c06_version_parse_good : forall data, good (version_parse data).
Proof. exact version_parse_good. Qed.

(* the legacy readers (models format/Kdbx3.v, format/Kdb.v): the same for every byte string *)
From KP Require Import Kdbx3 Kdbx3Proofs Kdb KdbProofs.
Theorem c06_decrypt3_total :
  forall (sha256 : bytes -> bytes) (kdf : kdfcfg -> bytes -> bytes -> outcome kerr bytes)
         (outer_dec : ocipher -> bytes -> bytes -> bytes -> outcome kerr bytes)
         (decompress : compression -> bytes -> outcome kerr bytes) data els,
  good els ->
  (forall k s c, good (kdf k s c)) ->
  (forall c k iv d, good (outer_dec c k iv d)) ->
  (forall z d, good (decompress z d)) ->
  (forall n, decrypt3 sha256 kdf outer_dec decompress data els <> Panic n) /\
  decrypt3 sha256 kdf outer_dec decompress data els <> OutOfFuel.
Proof. exact decrypt3_never_panics_never_hangs. Qed.
Theorem c06_kdb_parse_db_total :
  forall ng ne payload,
  match parse_db ng ne payload with Panic _ => False | OutOfFuel => False | _ => True end.
Proof. exact parse_db_never_panics. Qed.

(* the XML object mapping (model xml/XmlParse.v): for EVERY event list and key stream the parser
   returns a content or an error - never a panic, never out of fuel *)
From KP Require Import XmlTypes XmlParse XmlTotal.
Theorem c06_xml_parse_total :
  forall (gunzip : bytes -> option bytes) (evs : list ev) (ks : bytes),
  (exists c, parse_events gunzip evs ks = Ok c) \/ (exists e, parse_events gunzip evs ks = Err e).
Proof. exact parse_events_total. Qed.

(* ---------------- END TO END (format/SaveOpen.v): Database::open as a whole - version dispatch, KDBX4
   container, XML text layer (a parameter), object mapping - never panics and never hangs ---------------- *)
From KP Require Import SaveOpen.
Theorem c06_open_never_panics_never_hangs :
  forall (sha256 sha512 : bytes -> bytes) (hmac256 : bytes -> bytes -> bytes)
         (kdf : kdfcfg -> bytes -> bytes -> Kdbx4.res bytes)
         (outer_dec : ocipher -> bytes -> bytes -> bytes -> Kdbx4.res bytes)
         (decompress : compression -> bytes -> Kdbx4.res bytes)
         (gunzip : bytes -> option bytes) (lex : bytes -> list ev) (keystream : icipher -> bytes -> bytes)
         (other_formats : dbversion -> bytes -> Kdbx4.res (list bytes) -> outcome ferr database)
         (file : bytes) (elements : outcome kerr (list bytes)),
  good elements ->
  (forall k s c, good (kdf k s c)) ->
  (forall c k iv p, good (outer_dec c k iv p)) ->
  (forall z p, good (decompress z p)) ->
  (forall v f e, good (other_formats v f e)) ->
  (forall n, open_model sha256 sha512 hmac256 kdf outer_dec decompress gunzip lex keystream other_formats file elements <> Panic n) /\
  open_model sha256 sha512 hmac256 kdf outer_dec decompress gunzip lex keystream other_formats file elements <> OutOfFuel.
Proof. exact open_model_never_panics_never_hangs. Qed.

(* ---------------- the legacy readers end to end (format/KdbOpen.v, Kdbx3Open.v) ---------------- *)
From KP Require Import KdbOpen Kdbx3Open.
Theorem c06_kdb_open_total :
  forall (sha256 : bytes -> bytes) (kdf : kdfcfg -> bytes -> bytes -> Kdbx4.res bytes)
         (outer_dec : ocipher -> bytes -> bytes -> bytes -> Kdbx4.res bytes)
         (data : bytes) (elements : outcome Key.keyerr (list bytes)),
  good elements -> (forall k s c, good (kdf k s c)) -> (forall c k iv d, good (outer_dec c k iv d)) ->
  good (kdb_open sha256 kdf outer_dec data elements).
Proof. exact kdb_open_total. Qed.

Theorem c06_kdbx3_open_never_panics_never_hangs :
  forall (sha256 : bytes -> bytes) (kdf : kdfcfg -> bytes -> bytes -> Kdbx4.res bytes)
         (outer_dec : ocipher -> bytes -> bytes -> bytes -> Kdbx4.res bytes)
         (decompress : compression -> bytes -> Kdbx4.res bytes)
         (gunzip : bytes -> option bytes) (lex : bytes -> list ev) (keystream : icipher -> bytes -> bytes)
         (file : bytes) (elements : outcome kerr (list bytes)),
  good elements -> (forall k s c, good (kdf k s c)) -> (forall c k iv p, good (outer_dec c k iv p)) ->
  (forall z p, good (decompress z p)) ->
  (forall n, open3_model sha256 kdf outer_dec decompress gunzip lex keystream file elements <> Panic n) /\
  open3_model sha256 kdf outer_dec decompress gunzip lex keystream file elements <> OutOfFuel.
Proof. exact open3_never_panics_never_hangs. Qed.

(* UTF-8 well-formedness exactly as Rust's [std::str::from_utf8] accepts it
   (Unicode 15, Table 3-7: no overlong forms, no surrogates, nothing above U+10FFFF). *)
From KP Require Import Bytes.
Local Open Scope N_scope.

Definition in_rng (lo hi b : N) : bool := N.leb lo b && N.leb b hi.
Definition cont (b : N) : bool := in_rng 128 191 b.

Fixpoint utf8_valid (l : bytes) : bool :=
  match l with
  | [] => true
  | b0 :: r0 =>
    if N.ltb b0 128 then utf8_valid r0
    else if N.ltb b0 194 then false
    else if N.ltb b0 224 then
      match r0 with
      | b1 :: r1 => cont b1 && utf8_valid r1
      | _ => false
      end
    else if N.ltb b0 240 then
      match r0 with
      | b1 :: b2 :: r2 =>
        (if N.eqb b0 224 then in_rng 160 191 b1
         else if N.eqb b0 237 then in_rng 128 159 b1
         else cont b1) && cont b2 && utf8_valid r2
      | _ => false
      end
    else if N.ltb b0 245 then
      match r0 with
      | b1 :: b2 :: b3 :: r3 =>
        (if N.eqb b0 240 then in_rng 144 191 b1
         else if N.eqb b0 244 then in_rng 128 143 b1
         else cont b1) && cont b2 && cont b3 && utf8_valid r3
      | _ => false
      end
    else false
  end.

From KP Require Import Bytes LE.
From Coq Require Import Lia.
Local Open Scope N_scope.

Lemma le_enc_length n v : length (le_enc n v) = n.
Proof. revert v. induction n as [|k IH]; intro v; cbn [le_enc length]; [reflexivity|]. rewrite IH. reflexivity. Qed.

Lemma le_dec_enc n v : le_dec (le_enc n v) = v mod 256 ^ N.of_nat n.
Proof.
  revert v. induction n as [|k IH]; intro v; cbn [le_enc le_dec].
  - cbn. rewrite N.mod_1_r. reflexivity.
  - rewrite IH. rewrite Nat2N.inj_succ, N.pow_succ_r'.
    rewrite N.mod_mul_r by (try apply N.pow_nonzero; lia). reflexivity.
Qed.

Lemma le_dec_enc_small n v : v < 256 ^ N.of_nat n -> le_dec (le_enc n v) = v.
Proof. intro H. rewrite le_dec_enc. apply N.mod_small. exact H. Qed.

Lemma le_enc_bytes_ok n v : forallb (fun b => N.ltb b 256) (le_enc n v) = true.
Proof.
  revert v. induction n as [|k IH]; intro v; cbn [le_enc forallb]; [reflexivity|].
  rewrite IH, andb_true_r. apply N.ltb_lt. apply N.mod_lt. lia.
Qed.

Lemma take_length n l : (n <= length l)%nat -> length (take n l) = n.
Proof.
  revert l. induction n as [|k IH]; intros l H; [reflexivity|].
  destruct l as [|x r]; cbn [length] in H; [lia|]. cbn [take length]. rewrite IH; [reflexivity|lia].
Qed.

Lemma take_drop n l : take n l ++ drop n l = l.
Proof.
  revert l. induction n as [|k IH]; intro l; [reflexivity|].
  destruct l as [|x r]; [reflexivity|]. cbn [take drop app]. rewrite IH. reflexivity.
Qed.

Lemma take_app_exact a b : take (length a) (a ++ b) = a.
Proof. induction a as [|x r IH]; cbn [length take app]; [destruct b; reflexivity|]. rewrite IH. reflexivity. Qed.

Lemma drop_app_exact a b : drop (length a) (a ++ b) = b.
Proof. induction a as [|x r IH]; cbn [length drop app]; [destruct b; reflexivity|]. exact IH. Qed.

Lemma drop_length n l : length (drop n l) = (length l - n)%nat.
Proof.
  revert l. induction n as [|k IH]; intro l; [cbn; lia|].
  destruct l as [|x r]; [reflexivity|]. cbn [drop length]. rewrite IH. reflexivity.
Qed.

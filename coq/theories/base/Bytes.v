(* Byte strings: [list N], each element intended < 256.  Model conventions, DESIGN.md section 4. *)
From Coq Require Export List NArith ZArith Bool Lia.
Export ListNotations.

Definition byte := N.
Definition bytes := list N.

Fixpoint bytes_eqb (a b : bytes) : bool :=
  match a, b with
  | [], [] => true
  | x :: a', y :: b' => N.eqb x y && bytes_eqb a' b'
  | _, _ => false
  end.

Definition bytes_ok (l : bytes) : bool := forallb (fun b => N.ltb b 256) l.

(* Lexicographic comparison (Rust's Ord on [u8] / str). *)
Fixpoint bytes_ltb (a b : bytes) : bool :=
  match a, b with
  | [], [] => false
  | [], _ :: _ => true
  | _ :: _, [] => false
  | x :: a', y :: b' => if N.ltb x y then true else if N.eqb x y then bytes_ltb a' b' else false
  end.

Fixpoint list_eqb {A} (eqb : A -> A -> bool) (a b : list A) : bool :=
  match a, b with
  | [], [] => true
  | x :: a', y :: b' => eqb x y && list_eqb eqb a' b'
  | _, _ => false
  end.

Definition option_eqb {A} (eqb : A -> A -> bool) (a b : option A) : bool :=
  match a, b with
  | None, None => true
  | Some x, Some y => eqb x y
  | _, _ => false
  end.

(* Little-endian integer codecs (byteorder's LittleEndian read_uNN / write_uNN). *)
From KP Require Import Bytes.
Local Open Scope N_scope.

Fixpoint le_dec (l : bytes) : N :=
  match l with
  | [] => 0
  | b :: r => b + 256 * le_dec r
  end.

Fixpoint le_enc (n : nat) (v : N) : bytes :=
  match n with
  | O => []
  | S k => (v mod 256) :: le_enc k (v / 256)
  end.

Definition be_enc (n : nat) (v : N) : bytes := rev (le_enc n v).
Definition be_dec (l : bytes) : N := le_dec (rev l).

Fixpoint take (n : nat) (l : bytes) : bytes :=
  match n, l with
  | S k, x :: r => x :: take k r
  | _, _ => []
  end.
Fixpoint drop (n : nat) (l : bytes) : bytes :=
  match n, l with
  | S k, _ :: r => drop k r
  | _, _ => l
  end.
Fixpoint zeros (n : nat) : bytes := match n with O => [] | S k => 0 :: zeros k end.

(* Theorems about the base32 model of Base32.v: test vectors, length law, alphabet, rejection of
   foreign characters, and the round trip decode (encode b) = Some b. *)
From Coq Require Import Ascii String.
From KP Require Import Bytes Base32.
From Coq Require Import List Lia ZifyN ZifyNat ZifyBool.
Local Open Scope N_scope.

Ltac Zify.zify_post_hook ::= Z.div_mod_to_equations.

Arguments N.add : simpl never.
Arguments N.mul : simpl never.
Arguments N.div : simpl never.
Arguments N.modulo : simpl never.

(* ------------------------------------------------------------------------------------------ *)
(* RFC 4648 section 10 test vectors, both directions.                                           *)

Definition s2b (s : string) : bytes := map N_of_ascii (list_ascii_of_string s).

Example b32_tv0_enc : b32_encode (s2b "") = s2b "". Proof. vm_compute; reflexivity. Qed.
Example b32_tv1_enc : b32_encode (s2b "f") = s2b "MY======". Proof. vm_compute; reflexivity. Qed.
Example b32_tv2_enc : b32_encode (s2b "fo") = s2b "MZXQ====". Proof. vm_compute; reflexivity. Qed.
Example b32_tv3_enc : b32_encode (s2b "foo") = s2b "MZXW6===". Proof. vm_compute; reflexivity. Qed.
Example b32_tv4_enc : b32_encode (s2b "foob") = s2b "MZXW6YQ=". Proof. vm_compute; reflexivity. Qed.
Example b32_tv5_enc : b32_encode (s2b "fooba") = s2b "MZXW6YTB". Proof. vm_compute; reflexivity. Qed.
Example b32_tv6_enc : b32_encode (s2b "foobar") = s2b "MZXW6YTBOI======". Proof. vm_compute; reflexivity. Qed.

Example b32_tv0_dec : b32_decode (s2b "") = Some (s2b ""). Proof. vm_compute; reflexivity. Qed.
Example b32_tv1_dec : b32_decode (s2b "MY======") = Some (s2b "f"). Proof. vm_compute; reflexivity. Qed.
Example b32_tv2_dec : b32_decode (s2b "MZXQ====") = Some (s2b "fo"). Proof. vm_compute; reflexivity. Qed.
Example b32_tv3_dec : b32_decode (s2b "MZXW6===") = Some (s2b "foo"). Proof. vm_compute; reflexivity. Qed.
Example b32_tv4_dec : b32_decode (s2b "MZXW6YQ=") = Some (s2b "foob"). Proof. vm_compute; reflexivity. Qed.
Example b32_tv5_dec : b32_decode (s2b "MZXW6YTB") = Some (s2b "fooba"). Proof. vm_compute; reflexivity. Qed.
Example b32_tv6_dec : b32_decode (s2b "MZXW6YTBOI======") = Some (s2b "foobar"). Proof. vm_compute; reflexivity. Qed.

(* The crate's own tests masks_rfc4648_pad. *)
Example b32_mask1_enc : b32_encode [0xF8; 0x3E; 0x7F; 0x83; 0xE7] = s2b "7A7H7A7H". Proof. vm_compute; reflexivity. Qed.
Example b32_mask2_enc : b32_encode [0x77; 0xC1; 0xF7; 0x7C; 0x1F] = s2b "O7A7O7A7". Proof. vm_compute; reflexivity. Qed.
Example b32_mask3_enc : b32_encode [0xF8; 0x3E; 0x7F; 0x83] = s2b "7A7H7AY=". Proof. vm_compute; reflexivity. Qed.
Example b32_mask1_dec : b32_decode (s2b "7A7H7A7H") = Some [0xF8; 0x3E; 0x7F; 0x83; 0xE7]. Proof. vm_compute; reflexivity. Qed.
Example b32_mask2_dec : b32_decode (s2b "O7A7O7A7") = Some [0x77; 0xC1; 0xF7; 0x7C; 0x1F]. Proof. vm_compute; reflexivity. Qed.

(* Behaviours of the real decoder that an idealised one would not have. *)
Example b32_dec_lower : b32_decode (s2b "my======") = None. Proof. vm_compute; reflexivity. Qed.
Example b32_dec_unpadded : b32_decode (s2b "MY") = Some (s2b "f"). Proof. vm_compute; reflexivity. Qed.
Example b32_dec_inner_pad : b32_decode (s2b "M=======") = Some [0x60]. Proof. vm_compute; reflexivity. Qed.
Example b32_dec_pad_middle : b32_decode (s2b "MY==MY==") = Some [102; 0; 6]. Proof. vm_compute; reflexivity. Qed.
Example b32_dec_low_char : b32_decode (s2b "MY+=====") = None. Proof. vm_compute; reflexivity. Qed.
Example b32_dec_non_ascii : b32_decode [77; 89; 200] = None. Proof. vm_compute; reflexivity. Qed.

(* ------------------------------------------------------------------------------------------ *)
(* Generic helpers                                                                              *)

(* Exhaustive check of a boolean property of all N below a small bound. *)
Lemma N_below_forallb (n : nat) (f : N -> bool) :
  forallb f (map N.of_nat (seq 0 n)) = true -> forall c, c < N.of_nat n -> f c = true.
Proof.
  intros H c Hc. rewrite forallb_forall in H. apply H.
  apply in_map_iff. exists (N.to_nat c). split; [apply N2Nat.id|].
  apply in_seq. lia.
Qed.

Lemma bytes_ok_cons x r : bytes_ok (x :: r) = true <-> x < 256 /\ bytes_ok r = true.
Proof.
  unfold bytes_ok. cbn [forallb]. rewrite andb_true_iff, N.ltb_lt. reflexivity.
Qed.

(* Induction over a byte string in steps of five. *)
Lemma bytes_ind5 (P : bytes -> Prop) :
  P [] ->
  (forall a, P [a]) ->
  (forall a b, P [a; b]) ->
  (forall a b c, P [a; b; c]) ->
  (forall a b c d, P [a; b; c; d]) ->
  (forall a b c d e r, P r -> P (a :: b :: c :: d :: e :: r)) ->
  forall l, P l.
Proof.
  intros H0 H1 H2 H3 H4 H5.
  fix IH 1. intro l.
  destruct l as [|a [|b [|c [|d [|e r]]]]].
  - exact H0.
  - apply H1.
  - apply H2.
  - apply H3.
  - apply H4.
  - apply H5. apply IH.
Qed.

Lemma cons5_eq (a b c d e a' b' c' d' e' : N) (t : bytes) :
  a = a' -> b = b' -> c = c' -> d = d' -> e = e' ->
  a :: b :: c :: d :: e :: t = a' :: b' :: c' :: d' :: e' :: t.
Proof. intros -> -> -> -> ->. reflexivity. Qed.

(* ------------------------------------------------------------------------------------------ *)
(* Facts about the two tables                                                                   *)

Lemma b32_lookup_sym v : v < 32 -> b32_lookup (b32_sym v) = Some v.
Proof.
  intro Hv.
  pose (f := fun v => match b32_lookup (b32_sym v) with Some w => w =? v | None => false end).
  assert (Hf : f v = true).
  { apply (N_below_forallb 32 f); [vm_compute; reflexivity | exact Hv]. }
  unfold f in Hf. destruct (b32_lookup (b32_sym v)) as [w|]; [|discriminate].
  apply N.eqb_eq in Hf. subst w. reflexivity.
Qed.

Lemma b32_lookup_pad : b32_lookup b32_pad_code = Some 0.
Proof. reflexivity. Qed.

Lemma b32_sym_in_alphabet v : v < 32 -> In (b32_sym v) b32_alphabet_codes.
Proof.
  intro Hv. unfold b32_sym. apply nth_In.
  change (length b32_alphabet_codes) with 32%nat. lia.
Qed.

Lemma b32_alphabet_lt128 c : In c b32_alphabet_codes -> c < 128.
Proof.
  intro Hc.
  assert (H : forallb (fun c => c <? 128) b32_alphabet_codes = true) by (vm_compute; reflexivity).
  rewrite forallb_forall in H. apply N.ltb_lt. apply H. exact Hc.
Qed.

Lemma b32_alphabet_not_pad c : In c b32_alphabet_codes -> c <> b32_pad_code.
Proof.
  intro Hc.
  assert (H : forallb (fun c => negb (c =? b32_pad_code)) b32_alphabet_codes = true)
    by (vm_compute; reflexivity).
  rewrite forallb_forall in H. specialize (H c Hc).
  apply negb_true_iff in H. apply N.eqb_neq in H. exact H.
Qed.

Lemma b32_alphabet_char_ok c : In c b32_alphabet_codes -> b32_char_ok c = true.
Proof.
  intro Hc.
  assert (H : forallb b32_char_ok b32_alphabet_codes = true) by (vm_compute; reflexivity).
  rewrite forallb_forall in H. apply H. exact Hc.
Qed.

(* The set accepted by the decoder's table is exactly [b32_char_ok] (on ASCII). *)
Lemma b32_lookup_char_ok c :
  c < 128 -> (if b32_char_ok c then b32_lookup c <> None else b32_lookup c = None).
Proof.
  intro Hc.
  pose (f := fun c => match b32_lookup c with
                      | Some v => b32_char_ok c && (v <? 32)
                      | None => negb (b32_char_ok c) end).
  assert (Hf : f c = true).
  { apply (N_below_forallb 128 f); [vm_compute; reflexivity | exact Hc]. }
  unfold f in Hf. destruct (b32_lookup c) as [v|].
  - apply andb_true_iff in Hf. destruct Hf as [Hok _]. rewrite Hok. discriminate.
  - apply negb_true_iff in Hf. rewrite Hf. reflexivity.
Qed.

Lemma b32_lookup_lt32 c v : c < 128 -> b32_lookup c = Some v -> v < 32.
Proof.
  intros Hc Hl.
  pose (f := fun c => match b32_lookup c with Some v => v <? 32 | None => true end).
  assert (Hf : f c = true).
  { apply (N_below_forallb 128 f); [vm_compute; reflexivity | exact Hc]. }
  unfold f in Hf. rewrite Hl in Hf. apply N.ltb_lt. exact Hf.
Qed.

Lemma b32_char_ok_lt128 c : b32_char_ok c = true -> c < 128.
Proof. unfold b32_char_ok. lia. Qed.

(* ------------------------------------------------------------------------------------------ *)
(* One block: 5 bytes -> 8 five-bit values -> the same 5 bytes                                  *)

Lemma b32_enc_vals_lt32 b0 b1 b2 b3 b4 :
  b0 < 256 -> b1 < 256 -> b2 < 256 -> b3 < 256 -> b4 < 256 ->
  Forall (fun v => v < 32) (b32_enc_vals b0 b1 b2 b3 b4).
Proof.
  intros H0 H1 H2 H3 H4. unfold b32_enc_vals.
  repeat (apply Forall_cons; [lia|]). apply Forall_nil.
Qed.

Lemma b32_block_byte0 b0 b1 : b0 < 256 -> b1 < 256 ->
  (b0 / 8 * 8) mod 256 + ((b0 mod 8) * 4 + b1 / 64) / 4 = b0.
Proof. intros H0 H1. lia. Qed.

Lemma b32_block_byte1 b0 b1 b2 : b0 < 256 -> b1 < 256 -> b2 < 256 ->
  (((b0 mod 8) * 4 + b1 / 64) * 64) mod 256 + ((b1 / 2) mod 32 * 2) mod 256
  + ((b1 mod 2) * 16 + b2 / 16) / 16 = b1.
Proof. intros H0 H1 H2. lia. Qed.

Lemma b32_block_byte2 b1 b2 b3 : b1 < 256 -> b2 < 256 -> b3 < 256 ->
  (((b1 mod 2) * 16 + b2 / 16) * 16) mod 256 + ((b2 mod 16) * 2 + b3 / 128) / 2 = b2.
Proof. intros H1 H2 H3. lia. Qed.

Lemma b32_block_byte3 b2 b3 b4 : b2 < 256 -> b3 < 256 -> b4 < 256 ->
  (((b2 mod 16) * 2 + b3 / 128) * 128) mod 256 + ((b3 / 4) mod 32 * 4) mod 256
  + ((b3 mod 4) * 8 + b4 / 32) / 8 = b3.
Proof. intros H2 H3 H4. lia. Qed.

Lemma b32_block_byte4 b3 b4 : b3 < 256 -> b4 < 256 ->
  (((b3 mod 4) * 8 + b4 / 32) * 32) mod 256 + b4 mod 32 = b4.
Proof. intros H3 H4. lia. Qed.

Lemma b32_dec_enc_block b0 b1 b2 b3 b4 rest :
  b0 < 256 -> b1 < 256 -> b2 < 256 -> b3 < 256 -> b4 < 256 ->
  b32_dec_vals (b32_enc_vals b0 b1 b2 b3 b4 ++ rest)
  = b0 :: b1 :: b2 :: b3 :: b4 :: b32_dec_vals rest.
Proof.
  intros H0 H1 H2 H3 H4.
  unfold b32_enc_vals. cbn [app b32_dec_vals]. unfold b32_dec_block. cbn [app].
  apply cons5_eq.
  - apply b32_block_byte0; assumption.
  - apply b32_block_byte1; assumption.
  - apply b32_block_byte2; assumption.
  - apply b32_block_byte3; assumption.
  - apply b32_block_byte4; assumption.
Qed.

(* ------------------------------------------------------------------------------------------ *)
(* Unfolding equations for the encoder                                                          *)

Lemma b32_enc_vals_length b0 b1 b2 b3 b4 : length (b32_enc_vals b0 b1 b2 b3 b4) = 8%nat.
Proof. reflexivity. Qed.

Lemma b32_enc_chunk_vals_length b :
  length (b32_enc_chunk_vals b) = (8 * ((length b + 4) / 5))%nat.
Proof.
  induction b as [| a | a b | a b c | a b c d | a b c d e r IH] using bytes_ind5;
    try reflexivity.
  cbn [b32_enc_chunk_vals]. rewrite app_length, b32_enc_vals_length, IH.
  cbn [length]. lia.
Qed.

Lemma b32_enc_chunks_length b : length (b32_enc_chunks b) = (8 * ((length b + 4) / 5))%nat.
Proof. unfold b32_enc_chunks. rewrite map_length. apply b32_enc_chunk_vals_length. Qed.

Lemma b32_encode_nil : b32_encode [] = [].
Proof. reflexivity. Qed.

Lemma b32_encode_1 a :
  b32_encode [a] = firstn 2 (map b32_sym (b32_enc_vals a 0 0 0 0)) ++ repeat b32_pad_code 6.
Proof. reflexivity. Qed.

Lemma b32_encode_2 a b :
  b32_encode [a; b] = firstn 4 (map b32_sym (b32_enc_vals a b 0 0 0)) ++ repeat b32_pad_code 4.
Proof. reflexivity. Qed.

Lemma b32_encode_3 a b c :
  b32_encode [a; b; c] = firstn 5 (map b32_sym (b32_enc_vals a b c 0 0)) ++ repeat b32_pad_code 3.
Proof. reflexivity. Qed.

Lemma b32_encode_4 a b c d :
  b32_encode [a; b; c; d] = firstn 7 (map b32_sym (b32_enc_vals a b c d 0)) ++ repeat b32_pad_code 1.
Proof. reflexivity. Qed.

Lemma b32_encode_cons5 a b c d e r :
  b32_encode (a :: b :: c :: d :: e :: r)
  = map b32_sym (b32_enc_vals a b c d e) ++ b32_encode r.
Proof.
  unfold b32_encode.
  assert (Hraw : b32_enc_chunks (a :: b :: c :: d :: e :: r)
                 = map b32_sym (b32_enc_vals a b c d e) ++ b32_enc_chunks r).
  { unfold b32_enc_chunks. cbn [b32_enc_chunk_vals]. apply map_app. }
  rewrite Hraw. clear Hraw.
  assert (Hlen : length (b32_enc_chunks r) = (8 * ((length r + 4) / 5))%nat)
    by apply b32_enc_chunks_length.
  set (raw := b32_enc_chunks r) in *.
  set (blk := map b32_sym (b32_enc_vals a b c d e)).
  assert (Hblk : length blk = 8%nat) by reflexivity.
  cbn [length]. set (n := length r) in *.
  assert (Hmod : (S (S (S (S (S n)))) mod 5 = n mod 5)%nat) by lia.
  unfold b32_num_extra. rewrite Hmod.
  destruct (n mod 5 =? 0)%nat eqn:Hz; [reflexivity|].
  apply Nat.eqb_neq in Hz.
  set (k := (8 - (n mod 5 * 8 + 4) / 5)%nat).
  assert (Hk : (k <= length raw)%nat) by lia.
  rewrite app_length.
  replace (length blk + length raw - k)%nat with (length blk + (length raw - k))%nat by lia.
  rewrite firstn_app_2. rewrite <- app_assoc. reflexivity.
Qed.

(* ------------------------------------------------------------------------------------------ *)
(* Length law                                                                                   *)

Theorem b32_encode_length b : length (b32_encode b) = (8 * ((length b + 4) / 5))%nat.
Proof.
  induction b as [| a | a b | a b c | a b c d | a b c d e r IH] using bytes_ind5;
    try reflexivity.
  rewrite b32_encode_cons5, app_length, map_length, b32_enc_vals_length, IH.
  cbn [length]. lia.
Qed.

(* ------------------------------------------------------------------------------------------ *)
(* The encoder only emits alphabet characters and '='                                           *)

Definition b32_out_char (c : N) : Prop := In c b32_alphabet_codes \/ c = 61.

Lemma b32_syms_out_char vs :
  Forall (fun v => v < 32) vs -> Forall b32_out_char (map b32_sym vs).
Proof.
  intro H. induction H as [|v vs Hv Hvs IH]; cbn [map].
  - apply Forall_nil.
  - apply Forall_cons; [left; apply b32_sym_in_alphabet; exact Hv | exact IH].
Qed.

Ltac b32_out_chars :=
  repeat (apply Forall_cons;
          [first [left; apply b32_sym_in_alphabet; lia | right; reflexivity]|]);
  apply Forall_nil.

Theorem b32_encode_alphabet b :
  bytes_ok b = true ->
  Forall (fun c => In c b32_alphabet_codes \/ c = 61) (b32_encode b).
Proof.
  change (bytes_ok b = true -> Forall b32_out_char (b32_encode b)).
  induction b as [| a | a b | a b c | a b c d | a b c d e r IH] using bytes_ind5; intro Hok;
    repeat (apply bytes_ok_cons in Hok; let H := fresh "Hb" in destruct Hok as [H Hok]).
  - apply Forall_nil.
  - rewrite b32_encode_1. unfold b32_enc_vals. cbn [map firstn app repeat]. b32_out_chars.
  - rewrite b32_encode_2. unfold b32_enc_vals. cbn [map firstn app repeat]. b32_out_chars.
  - rewrite b32_encode_3. unfold b32_enc_vals. cbn [map firstn app repeat]. b32_out_chars.
  - rewrite b32_encode_4. unfold b32_enc_vals. cbn [map firstn app repeat]. b32_out_chars.
  - rewrite b32_encode_cons5. apply Forall_app. split.
    + apply b32_syms_out_char. apply b32_enc_vals_lt32; assumption.
    + apply IH. exact Hok.
Qed.

Lemma b32_out_char_ok c : b32_out_char c -> b32_char_ok c = true.
Proof.
  intros [Hc | ->]; [apply b32_alphabet_char_ok; exact Hc | reflexivity].
Qed.

Corollary b32_encode_chars_ok b :
  bytes_ok b = true -> forallb b32_char_ok (b32_encode b) = true.
Proof.
  intro Hok. apply forallb_forall. intros c Hc.
  apply b32_out_char_ok.
  pose proof (b32_encode_alphabet b Hok) as HF. rewrite Forall_forall in HF.
  apply HF. exact Hc.
Qed.

(* ------------------------------------------------------------------------------------------ *)
(* The decoder rejects every string containing a character outside A-Z, 2-7, '='                *)

Lemma b32_lookup_all_none t c :
  In c t -> b32_lookup c = None -> b32_lookup_all t = None.
Proof.
  intros Hin Hc. induction t as [|x r IH]; [contradiction|].
  cbn [b32_lookup_all]. destruct Hin as [-> | Hin].
  - rewrite Hc. reflexivity.
  - rewrite (IH Hin). destruct (b32_lookup x); reflexivity.
Qed.

Theorem b32_decode_rejects t c :
  In c t -> b32_char_ok c = false -> b32_decode t = None.
Proof.
  intros Hin Hbad. unfold b32_decode.
  destruct (b32_is_ascii t) eqn:Hascii; [|reflexivity].
  unfold b32_is_ascii in Hascii. rewrite forallb_forall in Hascii.
  assert (Hc : c < 128) by (apply N.ltb_lt; apply Hascii; exact Hin).
  pose proof (b32_lookup_char_ok c Hc) as Hl. rewrite Hbad in Hl.
  rewrite (b32_lookup_all_none t c Hin Hl). reflexivity.
Qed.

(* Conversely the decoder is total on strings of accepted characters (whatever their length or
   the position of the '=' signs). *)
Theorem b32_decode_accepts t :
  forallb b32_char_ok t = true -> exists b, b32_decode t = Some b.
Proof.
  intro Hok. rewrite forallb_forall in Hok. unfold b32_decode.
  assert (Hascii : b32_is_ascii t = true).
  { unfold b32_is_ascii. apply forallb_forall. intros c Hc.
    apply N.ltb_lt. apply b32_char_ok_lt128. apply Hok. exact Hc. }
  rewrite Hascii.
  assert (Hall : exists vs, b32_lookup_all t = Some vs).
  { induction t as [|x r IH]; [exists []; reflexivity|].
    cbn [b32_lookup_all].
    assert (Hx : b32_char_ok x = true) by (apply Hok; left; reflexivity).
    pose proof (b32_lookup_char_ok x (b32_char_ok_lt128 x Hx)) as Hl. rewrite Hx in Hl.
    destruct (b32_lookup x) as [v|]; [|contradiction Hl; reflexivity].
    destruct IH as [vs Hvs].
    - intros y Hy. apply Hok. right. exact Hy.
    - unfold b32_is_ascii in Hascii |- *. cbn [forallb] in Hascii.
      apply andb_true_iff in Hascii. apply Hascii.
    - rewrite Hvs. exists (v :: vs). reflexivity. }
  destruct Hall as [vs Hvs]. rewrite Hvs. eexists. reflexivity.
Qed.

(* ------------------------------------------------------------------------------------------ *)
(* Round trip                                                                                   *)

(* (A) the encoder's output is ASCII *)
Lemma b32_encode_is_ascii b : bytes_ok b = true -> b32_is_ascii (b32_encode b) = true.
Proof.
  intro Hok. unfold b32_is_ascii. apply forallb_forall. intros c Hc.
  apply N.ltb_lt. apply b32_char_ok_lt128.
  pose proof (b32_encode_chars_ok b Hok) as H. rewrite forallb_forall in H. apply H. exact Hc.
Qed.

(* (B) looking the encoder's output up in the decoder's table gives back the 5-bit values *)
Lemma b32_lookup_all_app t1 t2 v1 v2 :
  b32_lookup_all t1 = Some v1 -> b32_lookup_all t2 = Some v2 ->
  b32_lookup_all (t1 ++ t2) = Some (v1 ++ v2).
Proof.
  revert v1. induction t1 as [|c r IH]; intros v1 H1 H2.
  - cbn [b32_lookup_all] in H1. injection H1 as <-. exact H2.
  - cbn [app b32_lookup_all] in H1 |- *.
    destruct (b32_lookup c) as [v|]; [|discriminate].
    destruct (b32_lookup_all r) as [vs|] eqn:Hr; [|discriminate].
    injection H1 as <-. rewrite (IH vs eq_refl H2). reflexivity.
Qed.

Lemma b32_lookup_all_syms vs :
  Forall (fun v => v < 32) vs -> b32_lookup_all (map b32_sym vs) = Some vs.
Proof.
  intro H. induction H as [|v vs Hv Hvs IH]; cbn [map b32_lookup_all]; [reflexivity|].
  rewrite (b32_lookup_sym v Hv), IH. reflexivity.
Qed.

Ltac b32_base_lookup :=
  unfold b32_enc_vals; cbn [map firstn app repeat b32_lookup_all];
  rewrite ?b32_lookup_pad; rewrite !b32_lookup_sym by lia; reflexivity.

Lemma b32_lookup_all_encode b :
  bytes_ok b = true -> b32_lookup_all (b32_encode b) = Some (b32_enc_chunk_vals b).
Proof.
  induction b as [| a | a b | a b c | a b c d | a b c d e r IH] using bytes_ind5; intro Hok;
    repeat (apply bytes_ok_cons in Hok; let H := fresh "Hb" in destruct Hok as [H Hok]).
  - reflexivity.
  - rewrite b32_encode_1. b32_base_lookup.
  - rewrite b32_encode_2. b32_base_lookup.
  - rewrite b32_encode_3. b32_base_lookup.
  - rewrite b32_encode_4. b32_base_lookup.
  - rewrite b32_encode_cons5. cbn [b32_enc_chunk_vals].
    apply b32_lookup_all_app; [|apply IH; exact Hok].
    apply b32_lookup_all_syms. apply b32_enc_vals_lt32; assumption.
Qed.

(* (C) the decoder's block arithmetic recovers the bytes, followed by the zero padding of the
   last chunk *)
Lemma b32_dec_vals_chunk_vals b :
  bytes_ok b = true -> exists z, b32_dec_vals (b32_enc_chunk_vals b) = b ++ z.
Proof.
  assert (H0 : 0 < 256) by lia.
  induction b as [| a | a b | a b c | a b c d | a b c d e r IH] using bytes_ind5; intro Hok;
    repeat (apply bytes_ok_cons in Hok; let H := fresh "Hb" in destruct Hok as [H Hok]);
    cbn [b32_enc_chunk_vals].
  - exists []. reflexivity.
  - exists [0; 0; 0; 0]. rewrite <- (app_nil_r (b32_enc_vals a 0 0 0 0)).
    rewrite b32_dec_enc_block by assumption. reflexivity.
  - exists [0; 0; 0]. rewrite <- (app_nil_r (b32_enc_vals a b 0 0 0)).
    rewrite b32_dec_enc_block by assumption. reflexivity.
  - exists [0; 0]. rewrite <- (app_nil_r (b32_enc_vals a b c 0 0)).
    rewrite b32_dec_enc_block by assumption. reflexivity.
  - exists [0]. rewrite <- (app_nil_r (b32_enc_vals a b c d 0)).
    rewrite b32_dec_enc_block by assumption. reflexivity.
  - destruct (IH Hok) as [z Hz]. exists z.
    rewrite b32_dec_enc_block by assumption. rewrite Hz. reflexivity.
Qed.

(* (D) the decoder's output_length computed from the padded text is the original length *)
Lemma b32_sym_not_pad v : (b32_sym v =? b32_pad_code) = false.
Proof.
  apply N.eqb_neq. destruct (N.ltb_spec v 32) as [Hv | Hv].
  - apply b32_alphabet_not_pad. apply b32_sym_in_alphabet. exact Hv.
  - unfold b32_sym. rewrite nth_overflow; [discriminate|].
    change (length b32_alphabet_codes) with 32%nat. lia.
Qed.

Lemma b32_count_pad_app k a b :
  (k <= length a)%nat -> b32_count_pad k (a ++ b) = b32_count_pad k a.
Proof.
  revert a. induction k as [|k IH]; intros a Hk; [reflexivity|].
  destruct a as [|c r]; cbn [length] in Hk; [lia|].
  cbn [app b32_count_pad]. destruct (c =? b32_pad_code); [|reflexivity].
  rewrite IH by lia. reflexivity.
Qed.

Definition b32_pad_count (len : nat) : nat :=
  if (len mod 5 =? 0)%nat then 0%nat else b32_num_extra len.

Ltac b32_base_count :=
  unfold b32_enc_vals; cbn [map firstn app repeat rev b32_count_pad];
  rewrite ?b32_sym_not_pad; reflexivity.

Lemma b32_count_pad_encode b :
  b32_count_pad 6 (rev (b32_encode b)) = b32_pad_count (length b).
Proof.
  induction b as [| a | a b | a b c | a b c d | a b c d e r IH] using bytes_ind5.
  - reflexivity.
  - rewrite b32_encode_1. b32_base_count.
  - rewrite b32_encode_2. b32_base_count.
  - rewrite b32_encode_3. b32_base_count.
  - rewrite b32_encode_4. b32_base_count.
  - rewrite b32_encode_cons5, rev_app_distr.
    destruct r as [|x r'].
    + rewrite b32_encode_nil. b32_base_count.
    + rewrite b32_count_pad_app.
      * rewrite IH. unfold b32_pad_count, b32_num_extra. cbn [length].
        set (n := length r').
        assert (Hmod : (S (S (S (S (S (S n))))) mod 5 = S n mod 5)%nat) by lia.
        rewrite Hmod. reflexivity.
      * rewrite rev_length, b32_encode_length. cbn [length]. lia.
Qed.

Lemma b32_output_length_arith n :
  ((8 * ((n + 4) / 5) - b32_pad_count n) * 5 / 8 = n)%nat.
Proof.
  unfold b32_pad_count, b32_num_extra.
  destruct (n mod 5 =? 0)%nat eqn:Hz.
  - apply Nat.eqb_eq in Hz. lia.
  - apply Nat.eqb_neq in Hz. lia.
Qed.

Lemma b32_output_length_encode b : b32_output_length (b32_encode b) = length b.
Proof.
  unfold b32_output_length, b32_unpadded_length.
  rewrite <- rev_alt, b32_count_pad_encode, b32_encode_length.
  apply b32_output_length_arith.
Qed.

Theorem b32_decode_encode : forall b, bytes_ok b = true -> b32_decode (b32_encode b) = Some b.
Proof.
  intros b Hok. unfold b32_decode.
  rewrite (b32_encode_is_ascii b Hok), (b32_lookup_all_encode b Hok).
  rewrite b32_output_length_encode.
  destruct (b32_dec_vals_chunk_vals b Hok) as [z Hz]. rewrite Hz.
  rewrite firstn_app, firstn_all, Nat.sub_diag. cbn [firstn]. rewrite app_nil_r. reflexivity.
Qed.

(* ------------------------------------------------------------------------------------------ *)
(* Justification of the arithmetic rendering of the Rust bit operations: on the relevant ranges
   (u8 inputs for the encoder, table values < 32 for the decoder) the arithmetic definitions of
   Base32.v coincide with the literal shift/mask/or expressions of lib.rs.  Checked
   exhaustively.                                                                                *)

Lemma N_below_forallb2 (n : nat) (f : N -> N -> bool) :
  forallb (fun a => forallb (f a) (map N.of_nat (seq 0 n))) (map N.of_nat (seq 0 n)) = true ->
  forall a b, a < N.of_nat n -> b < N.of_nat n -> f a b = true.
Proof.
  intros H a b Ha Hb.
  apply (N_below_forallb n (f a)); [|exact Hb].
  apply (N_below_forallb n (fun a => forallb (f a) (map N.of_nat (seq 0 n)))); assumption.
Qed.

Lemma N_below_forallb3 (n : nat) (f : N -> N -> N -> bool) :
  forallb (fun a => forallb (fun b => forallb (f a b) (map N.of_nat (seq 0 n)))
                            (map N.of_nat (seq 0 n))) (map N.of_nat (seq 0 n)) = true ->
  forall a b c, a < N.of_nat n -> b < N.of_nat n -> c < N.of_nat n -> f a b c = true.
Proof.
  intros H a b c Ha Hb Hc.
  apply (N_below_forallb2 n (f a)); [|exact Hb|exact Hc].
  apply (N_below_forallb n (fun a => forallb (fun b => forallb (f a b) (map N.of_nat (seq 0 n)))
                                             (map N.of_nat (seq 0 n)))); assumption.
Qed.

(* u8 [<<]: shift, then keep the low 8 bits. *)
Definition shl8 (x k : N) : N := N.land (N.shiftl x k) 255.

Definition b32_enc_vals_bits (b0 b1 b2 b3 b4 : N) : list N :=
  [ N.shiftr (N.land b0 0xF8) 3;
    N.lor (shl8 (N.land b0 0x07) 2) (N.shiftr (N.land b1 0xC0) 6);
    N.shiftr (N.land b1 0x3E) 1;
    N.lor (shl8 (N.land b1 0x01) 4) (N.shiftr (N.land b2 0xF0) 4);
    N.lor (shl8 (N.land b2 0x0F) 1) (N.shiftr b3 7);
    N.shiftr (N.land b3 0x7C) 2;
    N.lor (shl8 (N.land b3 0x03) 3) (N.shiftr (N.land b4 0xE0) 5);
    N.land b4 0x1F ].

Definition b32_dec_block_bits (v0 v1 v2 v3 v4 v5 v6 v7 : N) : bytes :=
  [ N.lor (shl8 v0 3) (N.shiftr v1 2);
    N.lor (N.lor (shl8 v1 6) (shl8 v2 1)) (N.shiftr v3 4);
    N.lor (shl8 v3 4) (N.shiftr v4 1);
    N.lor (N.lor (shl8 v4 7) (shl8 v5 2)) (N.shiftr v6 3);
    N.lor (shl8 v6 5) v7 ].

Lemma b32_enc_vals_bitwise b0 b1 b2 b3 b4 :
  b0 < 256 -> b1 < 256 -> b2 < 256 -> b3 < 256 -> b4 < 256 ->
  b32_enc_vals b0 b1 b2 b3 b4 = b32_enc_vals_bits b0 b1 b2 b3 b4.
Proof.
  intros H0 H1 H2 H3 H4. unfold b32_enc_vals, b32_enc_vals_bits.
  repeat match goal with
         | |- ?x :: _ = ?y :: _ => apply (f_equal2 (@cons N))
         end; try reflexivity; apply N.eqb_eq.
  - apply (N_below_forallb 256 (fun b0 => b0 / 8 =? N.shiftr (N.land b0 0xF8) 3));
      [vm_compute; reflexivity | exact H0].
  - apply (N_below_forallb2 256 (fun b0 b1 => (b0 mod 8) * 4 + b1 / 64
             =? N.lor (shl8 (N.land b0 0x07) 2) (N.shiftr (N.land b1 0xC0) 6)));
      [vm_compute; reflexivity | exact H0 | exact H1].
  - apply (N_below_forallb 256 (fun b1 => (b1 / 2) mod 32 =? N.shiftr (N.land b1 0x3E) 1));
      [vm_compute; reflexivity | exact H1].
  - apply (N_below_forallb2 256 (fun b1 b2 => (b1 mod 2) * 16 + b2 / 16
             =? N.lor (shl8 (N.land b1 0x01) 4) (N.shiftr (N.land b2 0xF0) 4)));
      [vm_compute; reflexivity | exact H1 | exact H2].
  - apply (N_below_forallb2 256 (fun b2 b3 => (b2 mod 16) * 2 + b3 / 128
             =? N.lor (shl8 (N.land b2 0x0F) 1) (N.shiftr b3 7)));
      [vm_compute; reflexivity | exact H2 | exact H3].
  - apply (N_below_forallb 256 (fun b3 => (b3 / 4) mod 32 =? N.shiftr (N.land b3 0x7C) 2));
      [vm_compute; reflexivity | exact H3].
  - apply (N_below_forallb2 256 (fun b3 b4 => (b3 mod 4) * 8 + b4 / 32
             =? N.lor (shl8 (N.land b3 0x03) 3) (N.shiftr (N.land b4 0xE0) 5)));
      [vm_compute; reflexivity | exact H3 | exact H4].
  - apply (N_below_forallb 256 (fun b4 => b4 mod 32 =? N.land b4 0x1F));
      [vm_compute; reflexivity | exact H4].
Qed.

Lemma b32_dec_block_bitwise v0 v1 v2 v3 v4 v5 v6 v7 :
  v0 < 32 -> v1 < 32 -> v2 < 32 -> v3 < 32 -> v4 < 32 -> v5 < 32 -> v6 < 32 -> v7 < 32 ->
  b32_dec_block v0 v1 v2 v3 v4 v5 v6 v7 = b32_dec_block_bits v0 v1 v2 v3 v4 v5 v6 v7.
Proof.
  intros H0 H1 H2 H3 H4 H5 H6 H7. unfold b32_dec_block, b32_dec_block_bits.
  repeat match goal with
         | |- ?x :: _ = ?y :: _ => apply (f_equal2 (@cons N))
         end; try reflexivity; apply N.eqb_eq.
  - apply (N_below_forallb2 32 (fun v0 v1 => (v0 * 8) mod 256 + v1 / 4
             =? N.lor (shl8 v0 3) (N.shiftr v1 2)));
      [vm_compute; reflexivity | exact H0 | exact H1].
  - apply (N_below_forallb3 32 (fun v1 v2 v3 => (v1 * 64) mod 256 + (v2 * 2) mod 256 + v3 / 16
             =? N.lor (N.lor (shl8 v1 6) (shl8 v2 1)) (N.shiftr v3 4)));
      [vm_compute; reflexivity | exact H1 | exact H2 | exact H3].
  - apply (N_below_forallb2 32 (fun v3 v4 => (v3 * 16) mod 256 + v4 / 2
             =? N.lor (shl8 v3 4) (N.shiftr v4 1)));
      [vm_compute; reflexivity | exact H3 | exact H4].
  - apply (N_below_forallb3 32 (fun v4 v5 v6 => (v4 * 128) mod 256 + (v5 * 4) mod 256 + v6 / 8
             =? N.lor (N.lor (shl8 v4 7) (shl8 v5 2)) (N.shiftr v6 3)));
      [vm_compute; reflexivity | exact H4 | exact H5 | exact H6].
  - apply (N_below_forallb2 32 (fun v6 v7 => (v6 * 32) mod 256 + v7
             =? N.lor (shl8 v6 5) v7));
      [vm_compute; reflexivity | exact H6 | exact H7].
Qed.

(* Every value the decoder feeds to [b32_dec_block] is such a table value. *)
Lemma b32_lookup_all_lt32 t vs :
  b32_is_ascii t = true -> b32_lookup_all t = Some vs -> Forall (fun v => v < 32) vs.
Proof.
  revert vs. induction t as [|c r IH]; intros vs Hascii Hall.
  - cbn [b32_lookup_all] in Hall. injection Hall as <-. apply Forall_nil.
  - unfold b32_is_ascii in Hascii. cbn [forallb] in Hascii.
    apply andb_true_iff in Hascii. destruct Hascii as [Hc Hr]. apply N.ltb_lt in Hc.
    cbn [b32_lookup_all] in Hall.
    destruct (b32_lookup c) as [v|] eqn:Hl; [|discriminate].
    destruct (b32_lookup_all r) as [vs'|]; [|discriminate].
    injection Hall as <-. apply Forall_cons.
    + exact (b32_lookup_lt32 c v Hc Hl).
    + apply IH; [exact Hr | reflexivity].
Qed.

Print Assumptions b32_encode_length.
Print Assumptions b32_encode_alphabet.
Print Assumptions b32_decode_rejects.
Print Assumptions b32_decode_accepts.
Print Assumptions b32_decode_encode.

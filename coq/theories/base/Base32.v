(* RFC 4648 base32 with padding, as implemented by the Rust crate [base32] 0.5.1 for
   [Alphabet::Rfc4648 { padding: true }] (functions [encode] / [decode] of its lib.rs).

   Definitions only; the theorems are in Base32Proofs.v.

   Conventions: byte strings are [list N] (each element intended < 256); a [&str] argument is
   modelled by its UTF-8 bytes.  Shifts and masks on u8 are written arithmetically:
     x >> k  =  x / 2^k          x << k  =  (x * 2^k) mod 256   (u8 truncation)
     x & (2^k - 1) = x mod 2^k
   and [a | b] is written [a + b] where the operands have disjoint bits.  (In the encoder this is
   immediate from the masks; in the decoder it holds because every table value is < 32, see the
   comment at [b32_dec_block], and is proved as [b32_dec_block_bitwise] in Base32Proofs.v.) *)
From KP Require Import Bytes.
Local Open Scope N_scope.

(* ------------------------------------------------------------------------------------------ *)
(* Encoder                                                                                      *)

(* const RFC4648: &[u8] = b"ABCDEFGHIJKLMNOPQRSTUVWXYZ234567" *)
Definition b32_alphabet_codes : list N :=
  [ 65; 66; 67; 68; 69; 70; 71; 72; 73; 74; 75; 76; 77; 78; 79; 80;
    81; 82; 83; 84; 85; 86; 87; 88; 89; 90; 50; 51; 52; 53; 54; 55 ].

Definition b32_pad_code : N := 61.   (* b'=' *)

(* alphabet[v as usize]; every index the encoder produces from u8 input is < 32 (proved as
   [b32_enc_vals_lt32]), so the default is never used on well-formed input. *)
Definition b32_sym (v : N) : N := nth (N.to_nat v) b32_alphabet_codes 0.

(* The eight 5-bit indices computed from one (zero-padded) 5-byte chunk [buf]:
     (buf[0] & 0xF8) >> 3
     ((buf[0] & 0x07) << 2) | ((buf[1] & 0xC0) >> 6)
     (buf[1] & 0x3E) >> 1
     ((buf[1] & 0x01) << 4) | ((buf[2] & 0xF0) >> 4)
     ((buf[2] & 0x0F) << 1) | (buf[3] >> 7)
     (buf[3] & 0x7C) >> 2
     ((buf[3] & 0x03) << 3) | ((buf[4] & 0xE0) >> 5)
     buf[4] & 0x1F                                                                             *)
Definition b32_enc_vals (b0 b1 b2 b3 b4 : N) : list N :=
  [ b0 / 8;
    (b0 mod 8) * 4 + b1 / 64;
    (b1 / 2) mod 32;
    (b1 mod 2) * 16 + b2 / 16;
    (b2 mod 16) * 2 + b3 / 128;
    (b3 / 4) mod 32;
    (b3 mod 4) * 8 + b4 / 32;
    b4 mod 32 ].

(* for chunk in data.chunks(5) { buf = chunk zero-padded to 5; push the 8 indices } *)
Fixpoint b32_enc_chunk_vals (b : bytes) : list N :=
  match b with
  | [] => []
  | [b0] => b32_enc_vals b0 0 0 0 0
  | [b0; b1] => b32_enc_vals b0 b1 0 0 0
  | [b0; b1; b2] => b32_enc_vals b0 b1 b2 0 0
  | [b0; b1; b2; b3] => b32_enc_vals b0 b1 b2 b3 0
  | b0 :: b1 :: b2 :: b3 :: b4 :: r => b32_enc_vals b0 b1 b2 b3 b4 ++ b32_enc_chunk_vals r
  end.

(* [ret] after the chunk loop, before padding. *)
Definition b32_enc_chunks (b : bytes) : bytes := map b32_sym (b32_enc_chunk_vals b).

(* let num_extra = 8 - (data.len() % 5 * 8 + 4) / 5; *)
Definition b32_num_extra (len : nat) : nat := (8 - (len mod 5 * 8 + 4) / 5)%nat.

(* if data.len() % 5 != 0 { for i in 1..num_extra + 1 { ret[len - i] = b'='; } } *)
Definition b32_encode (b : bytes) : bytes :=
  let ret := b32_enc_chunks b in
  if (length b mod 5 =? 0)%nat then ret
  else
    let k := b32_num_extra (length b) in
    firstn (length ret - k) ret ++ repeat b32_pad_code k.

(* ------------------------------------------------------------------------------------------ *)
(* Decoder                                                                                      *)

(* const RFC4648_INV_PAD: [i8; 75], indexed by (c - b'0'); row layout as in lib.rs. *)
Definition b32_inv_pad : list Z :=
  [ -1; -1; 26; 27; 28; 29; 30; 31; -1; -1; -1; -1; -1;  0; -1; -1; -1;  0;  1;  2;
     3;  4;  5;  6;  7;  8;  9; 10; 11; 12; 13; 14; 15; 16; 17; 18; 19; 20; 21; 22;
    23; 24; 25; -1; -1; -1; -1; -1; -1; -1; -1; -1; -1; -1; -1; -1; -1; -1; -1; -1;
    -1; -1; -1; -1; -1; -1; -1; -1; -1; -1; -1; -1; -1; -1; -1 ]%Z.

(* match alphabet.get(c.wrapping_sub(b'0') as usize) {
     Some(&-1) | None => return None, Some(&value) => buf[i] = value as u8 }
   [c.wrapping_sub(48)] on u8 is [(c + 208) mod 256]. *)
Definition b32_lookup (c : N) : option N :=
  match nth_error b32_inv_pad (N.to_nat ((c + 208) mod 256)) with
  | Some z => if (z =? -1)%Z then None else Some (Z.to_N z)
  | None => None
  end.

(* The characters the decoder accepts: 'A'..'Z', '2'..'7', '='.  (Lower case is rejected.) *)
Definition b32_char_ok (c : N) : bool :=
  ((65 <=? c) && (c <=? 90)) || ((50 <=? c) && (c <=? 55)) || (c =? 61).

(* data.is_ascii() *)
Definition b32_is_ascii (t : bytes) : bool := forallb (fun c => c <? 128) t.

(* The table look-up of every character.  The Rust code does this chunk by chunk and returns
   None at the first failing character; since a failure anywhere makes the whole result None and
   nothing else is observable, looking everything up first is equivalent. *)
Fixpoint b32_lookup_all (t : bytes) : option (list N) :=
  match t with
  | [] => Some []
  | c :: r =>
      match b32_lookup c with
      | None => None
      | Some v => match b32_lookup_all r with
                  | None => None
                  | Some vs => Some (v :: vs)
                  end
      end
  end.

(* ret.push((buf[0] << 3) | (buf[1] >> 2));
   ret.push((buf[1] << 6) | (buf[2] << 1) | (buf[3] >> 4));
   ret.push((buf[3] << 4) | (buf[4] >> 1));
   ret.push((buf[4] << 7) | (buf[5] << 2) | (buf[6] >> 3));
   ret.push((buf[6] << 5) | buf[7]);
   u8 arithmetic, so each [<<] is followed by [mod 256].  All buf values come from the table and
   are < 32, hence the or-ed operands never overlap and [|] is [+]. *)
Definition b32_dec_block (v0 v1 v2 v3 v4 v5 v6 v7 : N) : bytes :=
  [ (v0 * 8) mod 256 + v1 / 4;
    (v1 * 64) mod 256 + (v2 * 2) mod 256 + v3 / 16;
    (v3 * 16) mod 256 + v4 / 2;
    (v4 * 128) mod 256 + (v5 * 4) mod 256 + v6 / 8;
    (v6 * 32) mod 256 + v7 ].

(* for chunk in data.chunks(8) { buf = [0u8; 8] overwritten by the chunk's values; push 5 bytes } *)
Fixpoint b32_dec_vals (v : list N) : bytes :=
  match v with
  | [] => []
  | v0 :: v1 :: v2 :: v3 :: v4 :: v5 :: v6 :: v7 :: r =>
      b32_dec_block v0 v1 v2 v3 v4 v5 v6 v7 ++ b32_dec_vals r
  | _ =>
      b32_dec_block (nth 0 v 0) (nth 1 v 0) (nth 2 v 0) (nth 3 v 0)
                    (nth 4 v 0) (nth 5 v 0) (nth 6 v 0) (nth 7 v 0)
  end.

(* Number of trailing '=' among the last min(6, len) characters, given the reversed input:
     for i in 1..min(6, data.len()) + 1 {
       if data[data.len() - i] != b'=' { break; }  unpadded_data_length -= 1; }                *)
Fixpoint b32_count_pad (k : nat) (rev_t : bytes) : nat :=
  match k, rev_t with
  | S k', c :: r => if c =? b32_pad_code then S (b32_count_pad k' r) else O
  | _, _ => O
  end.

Definition b32_unpadded_length (t : bytes) : nat :=
  (length t - b32_count_pad 6 (rev_append t []))%nat.

(* let output_length = unpadded_data_length * 5 / 8; *)
Definition b32_output_length (t : bytes) : nat := (b32_unpadded_length t * 5 / 8)%nat.

Definition b32_decode (t : bytes) : option bytes :=
  if b32_is_ascii t then
    match b32_lookup_all t with
    | None => None
    | Some vs => Some (firstn (b32_output_length t) (b32_dec_vals vs))   (* ret.truncate(..) *)
    end
  else None.

(* Three-way results: the model returns [Panic] exactly where the Rust code would panic and
   [OutOfFuel] where a fuelled loop ran out; every theorem excludes them by statement. *)
From KP Require Import Bytes.

Inductive outcome (E A : Type) :=
| Ok (a : A)
| Err (e : E)
| Panic (site : N)
| OutOfFuel.
Arguments Ok {E A} a.
Arguments Err {E A} e.
Arguments Panic {E A} site.
Arguments OutOfFuel {E A}.

Definition bind {E A B} (x : outcome E A) (f : A -> outcome E B) : outcome E B :=
  match x with
  | Ok a => f a
  | Err e => Err e
  | Panic s => Panic s
  | OutOfFuel => OutOfFuel
  end.

Declare Scope outcome_scope.
Delimit Scope outcome_scope with outcome.
Notation "'do' x <- a ; b" := (bind a (fun x => b))
  (at level 200, x pattern, a at level 100, b at level 200, right associativity) : outcome_scope.

Definition is_ok {E A} (x : outcome E A) : bool := match x with Ok _ => true | _ => false end.

Definition of_option {E A} (e : E) (o : option A) : outcome E A :=
  match o with Some a => Ok a | None => Err e end.
Definition unwrap {E A} (site : N) (o : option A) : outcome E A :=
  match o with Some a => Ok a | None => Panic site end.

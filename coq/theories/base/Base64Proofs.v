(* Theorems about the base64 model of Base64.v: test vectors, length law, alphabet, rejection of
   foreign characters, length of decodable texts, and the round trip decode (encode b) = Some b. *)
From Coq Require Import Ascii String.
From KP Require Import Bytes Base64.
From Coq Require Import List Lia ZifyN ZifyNat ZifyBool.
Local Open Scope N_scope.

Ltac Zify.zify_post_hook ::= Z.div_mod_to_equations.

Arguments N.add : simpl never.
Arguments N.mul : simpl never.
Arguments N.div : simpl never.
Arguments N.modulo : simpl never.

(* ------------------------------------------------------------------------------------------ *)
(* RFC 4648 section 10 test vectors, both directions.                                           *)

Definition b64_s2b (s : string) : bytes := map N_of_ascii (list_ascii_of_string s).
Local Notation s2b := b64_s2b.

Example b64_tv0_enc : b64_encode (s2b "") = s2b "". Proof. vm_compute; reflexivity. Qed.
Example b64_tv1_enc : b64_encode (s2b "f") = s2b "Zg==". Proof. vm_compute; reflexivity. Qed.
Example b64_tv2_enc : b64_encode (s2b "fo") = s2b "Zm8=". Proof. vm_compute; reflexivity. Qed.
Example b64_tv3_enc : b64_encode (s2b "foo") = s2b "Zm9v". Proof. vm_compute; reflexivity. Qed.
Example b64_tv4_enc : b64_encode (s2b "foob") = s2b "Zm9vYg==". Proof. vm_compute; reflexivity. Qed.
Example b64_tv5_enc : b64_encode (s2b "fooba") = s2b "Zm9vYmE=". Proof. vm_compute; reflexivity. Qed.
Example b64_tv6_enc : b64_encode (s2b "foobar") = s2b "Zm9vYmFy". Proof. vm_compute; reflexivity. Qed.

Example b64_tv0_dec : b64_decode (s2b "") = Some (s2b ""). Proof. vm_compute; reflexivity. Qed.
Example b64_tv1_dec : b64_decode (s2b "Zg==") = Some (s2b "f"). Proof. vm_compute; reflexivity. Qed.
Example b64_tv2_dec : b64_decode (s2b "Zm8=") = Some (s2b "fo"). Proof. vm_compute; reflexivity. Qed.
Example b64_tv3_dec : b64_decode (s2b "Zm9v") = Some (s2b "foo"). Proof. vm_compute; reflexivity. Qed.
Example b64_tv4_dec : b64_decode (s2b "Zm9vYg==") = Some (s2b "foob"). Proof. vm_compute; reflexivity. Qed.
Example b64_tv5_dec : b64_decode (s2b "Zm9vYmE=") = Some (s2b "fooba"). Proof. vm_compute; reflexivity. Qed.
Example b64_tv6_dec : b64_decode (s2b "Zm9vYmFy") = Some (s2b "foobar"). Proof. vm_compute; reflexivity. Qed.

(* All 64 symbols, and the three tail shapes on extreme bytes. *)
Example b64_all_syms_enc :
  b64_encode [0x00; 0x10; 0x83; 0x10; 0x51; 0x87; 0x20; 0x92; 0x8B; 0x30; 0xD3; 0x8F;
              0x41; 0x14; 0x93; 0x51; 0x55; 0x97; 0x61; 0x96; 0x9B; 0x71; 0xD7; 0x9F;
              0x82; 0x18; 0xA3; 0x92; 0x59; 0xA7; 0xA2; 0x9A; 0xAB; 0xB2; 0xDB; 0xAF;
              0xC3; 0x1C; 0xB3; 0xD3; 0x5D; 0xB7; 0xE3; 0x9E; 0xBB; 0xF3; 0xDF; 0xBF]
  = s2b "ABCDEFGHIJKLMNOPQRSTUVWXYZabcdefghijklmnopqrstuvwxyz0123456789+/".
Proof. vm_compute; reflexivity. Qed.
Example b64_ff1_enc : b64_encode [0xFF] = s2b "/w==". Proof. vm_compute; reflexivity. Qed.
Example b64_ff2_enc : b64_encode [0xFF; 0xFF] = s2b "//8=". Proof. vm_compute; reflexivity. Qed.
Example b64_ff3_enc : b64_encode [0xFF; 0xFF; 0xFF] = s2b "////". Proof. vm_compute; reflexivity. Qed.
Example b64_ff1_dec : b64_decode (s2b "/w==") = Some [0xFF]. Proof. vm_compute; reflexivity. Qed.
Example b64_ff2_dec : b64_decode (s2b "//8=") = Some [0xFF; 0xFF]. Proof. vm_compute; reflexivity. Qed.
Example b64_zero1_dec : b64_decode (s2b "AA==") = Some [0]. Proof. vm_compute; reflexivity. Qed.
Example b64_zero2_dec : b64_decode (s2b "AAA=") = Some [0; 0]. Proof. vm_compute; reflexivity. Qed.

(* Rejections.  Wrong length / wrong amount of padding (RequireCanonical): *)
Example b64_rej_pad_only : b64_decode (s2b "=") = None. Proof. vm_compute; reflexivity. Qed.
Example b64_rej_pad2_only : b64_decode (s2b "==") = None. Proof. vm_compute; reflexivity. Qed.
Example b64_rej_pad4_only : b64_decode (s2b "====") = None. Proof. vm_compute; reflexivity. Qed.
Example b64_rej_A : b64_decode (s2b "A") = None. Proof. vm_compute; reflexivity. Qed.
Example b64_rej_A_pad : b64_decode (s2b "A=") = None. Proof. vm_compute; reflexivity. Qed.
Example b64_rej_A_pad2 : b64_decode (s2b "A==") = None. Proof. vm_compute; reflexivity. Qed.
Example b64_rej_A_pad3 : b64_decode (s2b "A===") = None. Proof. vm_compute; reflexivity. Qed.
Example b64_rej_AA : b64_decode (s2b "AA") = None. Proof. vm_compute; reflexivity. Qed.
Example b64_rej_AA_pad : b64_decode (s2b "AA=") = None. Proof. vm_compute; reflexivity. Qed.
Example b64_rej_AA_pad3 : b64_decode (s2b "AA===") = None. Proof. vm_compute; reflexivity. Qed.
Example b64_rej_AAA : b64_decode (s2b "AAA") = None. Proof. vm_compute; reflexivity. Qed.
Example b64_rej_AAA_pad2 : b64_decode (s2b "AAA==") = None. Proof. vm_compute; reflexivity. Qed.
Example b64_rej_AAAA_pad : b64_decode (s2b "AAAA=") = None. Proof. vm_compute; reflexivity. Qed.
Example b64_rej_AAAA_pad4 : b64_decode (s2b "AAAA====") = None. Proof. vm_compute; reflexivity. Qed.
Example b64_rej_unpadded1 : b64_decode (s2b "Zg") = None. Proof. vm_compute; reflexivity. Qed.
Example b64_rej_halfpadded1 : b64_decode (s2b "Zg=") = None. Proof. vm_compute; reflexivity. Qed.
Example b64_rej_unpadded2 : b64_decode (s2b "Zm8") = None. Proof. vm_compute; reflexivity. Qed.
Example b64_rej_unpadded5 : b64_decode (s2b "Zm9vYmE") = None. Proof. vm_compute; reflexivity. Qed.
(* '=' in a non-final position: *)
Example b64_rej_pad_first : b64_decode (s2b "=m9v") = None. Proof. vm_compute; reflexivity. Qed.
Example b64_rej_pad_second : b64_decode (s2b "Z=9v") = None. Proof. vm_compute; reflexivity. Qed.
Example b64_rej_pad_third : b64_decode (s2b "Zm=v") = None. Proof. vm_compute; reflexivity. Qed.
Example b64_rej_pad_inner_quad : b64_decode (s2b "Zg==Zg==") = None. Proof. vm_compute; reflexivity. Qed.
Example b64_rej_pad_inner_quad1 : b64_decode (s2b "Zm8=Zm9v") = None. Proof. vm_compute; reflexivity. Qed.
(* Characters outside the alphabet, including whitespace and the URL-safe symbols: *)
Example b64_rej_space : b64_decode (s2b "Zm9v Zm9v") = None. Proof. vm_compute; reflexivity. Qed.
Example b64_rej_space4 : b64_decode (s2b "Zm 9") = None. Proof. vm_compute; reflexivity. Qed.
Example b64_rej_newline : b64_decode (s2b "Zm9v" ++ [10]) = None. Proof. vm_compute; reflexivity. Qed.
Example b64_rej_crlf : b64_decode (s2b "Zm9v" ++ [13; 10] ++ s2b "Zm9v") = None. Proof. vm_compute; reflexivity. Qed.
Example b64_rej_dash : b64_decode (s2b "Zm9-") = None. Proof. vm_compute; reflexivity. Qed.
Example b64_rej_underscore : b64_decode (s2b "Zm9_") = None. Proof. vm_compute; reflexivity. Qed.
Example b64_rej_colon : b64_decode (s2b "Zm:v") = None. Proof. vm_compute; reflexivity. Qed.
Example b64_rej_nul : b64_decode [90; 109; 57; 0] = None. Proof. vm_compute; reflexivity. Qed.
Example b64_rej_high : b64_decode [90; 109; 57; 200] = None. Proof. vm_compute; reflexivity. Qed.
Example b64_rej_not_u8 : b64_decode [90; 109; 57; 321] = None. Proof. vm_compute; reflexivity. Qed.
(* Non-zero trailing bits in the last symbol (decode_allow_trailing_bits = false): *)
Example b64_rej_trailing1 : b64_decode (s2b "Zh==") = None. Proof. vm_compute; reflexivity. Qed.
Example b64_rej_trailing1' : b64_decode (s2b "Zo==") = None. Proof. vm_compute; reflexivity. Qed.
Example b64_rej_trailing2 : b64_decode (s2b "Zm9=") = None. Proof. vm_compute; reflexivity. Qed.
Example b64_rej_trailing2' : b64_decode (s2b "Zm+=") = None. Proof. vm_compute; reflexivity. Qed.
Example b64_rej_trailing_after_quad : b64_decode (s2b "Zm9vZh==") = None. Proof. vm_compute; reflexivity. Qed.

(* ------------------------------------------------------------------------------------------ *)
(* Generic helpers                                                                              *)

(* Exhaustive check of a boolean property of all N below a small bound. *)
Lemma b64_N_below_forallb (n : nat) (f : N -> bool) :
  forallb f (map N.of_nat (seq 0 n)) = true -> forall c, c < N.of_nat n -> f c = true.
Proof.
  intros H c Hc. rewrite forallb_forall in H. apply H.
  apply in_map_iff. exists (N.to_nat c). split; [apply N2Nat.id|].
  apply in_seq. lia.
Qed.

Lemma b64_bytes_ok_cons x r : bytes_ok (x :: r) = true <-> x < 256 /\ bytes_ok r = true.
Proof.
  unfold bytes_ok. cbn [forallb]. rewrite andb_true_iff, N.ltb_lt. reflexivity.
Qed.

(* Induction over a byte string in steps of three (encoder chunks). *)
Lemma b64_bytes_ind3 (P : bytes -> Prop) :
  P [] ->
  (forall a, P [a]) ->
  (forall a b, P [a; b]) ->
  (forall a b c r, P r -> P (a :: b :: c :: r)) ->
  forall l, P l.
Proof.
  intros H0 H1 H2 H3.
  fix IH 1. intro l.
  destruct l as [|a [|b [|c r]]].
  - exact H0.
  - apply H1.
  - apply H2.
  - apply H3. apply IH.
Qed.

(* Induction over a text following the decoder: at most four characters (the suffix), or a
   non-terminal quad followed by a non-empty rest. *)
Lemma b64_bytes_ind4 (P : bytes -> Prop) :
  P [] ->
  (forall a, P [a]) ->
  (forall a b, P [a; b]) ->
  (forall a b c, P [a; b; c]) ->
  (forall a b c d, P [a; b; c; d]) ->
  (forall a b c d x r, P (x :: r) -> P (a :: b :: c :: d :: x :: r)) ->
  forall l, P l.
Proof.
  intros H0 H1 H2 H3 H4 H5.
  fix IH 1. intro l.
  destruct l as [|a [|b [|c [|d t]]]].
  - exact H0.
  - apply H1.
  - apply H2.
  - apply H3.
  - pose proof (IH t) as Ht. destruct t as [|x r].
    + apply H4.
    + apply H5. exact Ht.
Qed.

(* ------------------------------------------------------------------------------------------ *)
(* Facts about the two tables                                                                   *)

Lemma b64_lookup_sym v : v < 64 -> b64_lookup (b64_sym v) = Some v.
Proof.
  intro Hv.
  pose (f := fun v => match b64_lookup (b64_sym v) with Some w => w =? v | None => false end).
  assert (Hf : f v = true).
  { apply (b64_N_below_forallb 64 f); [vm_compute; reflexivity | exact Hv]. }
  unfold f in Hf. destruct (b64_lookup (b64_sym v)) as [w|]; [|discriminate].
  apply N.eqb_eq in Hf. subst w. reflexivity.
Qed.

Lemma b64_lookup_pad : b64_lookup b64_pad_code = None.
Proof. reflexivity. Qed.

Lemma b64_sym_char_ok v : v < 64 -> b64_char_ok (b64_sym v) = true.
Proof.
  intro Hv.
  apply (b64_N_below_forallb 64 (fun v => b64_char_ok (b64_sym v)));
    [vm_compute; reflexivity | exact Hv].
Qed.

Lemma b64_sym_not_pad v : v < 64 -> (b64_sym v =? b64_pad_code) = false.
Proof.
  intro Hv.
  apply negb_true_iff.
  apply (b64_N_below_forallb 64 (fun v => negb (b64_sym v =? b64_pad_code)));
    [vm_compute; reflexivity | exact Hv].
Qed.

Lemma b64_sym_in_alphabet v : v < 64 -> In (b64_sym v) b64_alphabet_codes.
Proof.
  intro Hv. unfold b64_sym. apply nth_In.
  change (length b64_alphabet_codes) with 64%nat. lia.
Qed.

(* The decoder's table accepts exactly the alphabet: [b64_char_ok] minus '='. *)
Lemma b64_lookup_char_ok c :
  b64_lookup c = None <-> (b64_char_ok c = false \/ c = b64_pad_code).
Proof.
  unfold b64_lookup, b64_char_ok, b64_pad_code.
  destruct ((65 <=? c) && (c <=? 90)) eqn:E1;
  destruct ((97 <=? c) && (c <=? 122)) eqn:E2;
  destruct ((48 <=? c) && (c <=? 57)) eqn:E3;
  destruct (c =? 43) eqn:E4; destruct (c =? 47) eqn:E5; destruct (c =? 61) eqn:E6;
    cbn [orb]; split; try discriminate; try (intros [H|H]; try discriminate; lia);
    try (intros _; left; reflexivity); try (intros _; right; lia); try reflexivity.
Qed.

Lemma b64_char_ok_false c :
  b64_char_ok c = false -> b64_lookup c = None /\ (c =? b64_pad_code) = false.
Proof.
  intro H. split.
  - apply b64_lookup_char_ok. left. exact H.
  - unfold b64_char_ok in H. unfold b64_pad_code.
    destruct (c =? 61); [|reflexivity]. rewrite !orb_true_r in H. discriminate.
Qed.

Lemma b64_lookup_some_not_pad c m : b64_lookup c = Some m -> (c =? b64_pad_code) = false.
Proof.
  intro H. destruct (c =? b64_pad_code) eqn:E; [|reflexivity].
  apply N.eqb_eq in E. subst c. rewrite b64_lookup_pad in H. discriminate.
Qed.

(* Every table value is a 6-bit number, for any input whatsoever. *)
Lemma b64_lookup_lt64 c m : b64_lookup c = Some m -> m < 64.
Proof.
  unfold b64_lookup.
  destruct ((65 <=? c) && (c <=? 90)) eqn:E1; [intro H; injection H as <-; lia|].
  destruct ((97 <=? c) && (c <=? 122)) eqn:E2; [intro H; injection H as <-; lia|].
  destruct ((48 <=? c) && (c <=? 57)) eqn:E3; [intro H; injection H as <-; lia|].
  destruct (c =? 43); [intro H; injection H as <-; lia|].
  destruct (c =? 47); [intro H; injection H as <-; lia|].
  discriminate.
Qed.

(* The table is the inverse of the alphabet: the only character that looks up to [m] is
   [b64_sym m]. *)
Lemma b64_sym_lookup c m : b64_lookup c = Some m -> b64_sym m = c.
Proof.
  intro H.
  assert (Hc : c < 256).
  { unfold b64_lookup in H.
    destruct ((65 <=? c) && (c <=? 90)) eqn:E1; [lia|].
    destruct ((97 <=? c) && (c <=? 122)) eqn:E2; [lia|].
    destruct ((48 <=? c) && (c <=? 57)) eqn:E3; [lia|].
    destruct (c =? 43) eqn:E4; [lia|].
    destruct (c =? 47) eqn:E5; [lia|]. discriminate. }
  pose (f := fun c => match b64_lookup c with Some m => b64_sym m =? c | None => true end).
  assert (Hf : f c = true).
  { apply (b64_N_below_forallb 256 f); [vm_compute; reflexivity | exact Hc]. }
  unfold f in Hf. rewrite H in Hf. apply N.eqb_eq. exact Hf.
Qed.

(* ------------------------------------------------------------------------------------------ *)
(* One block: 3 bytes -> 4 six-bit values -> the same 3 bytes                                   *)

Lemma b64_enc_v0_lt64 b0 : b0 < 256 -> b64_enc_v0 b0 < 64.
Proof. unfold b64_enc_v0. lia. Qed.
Lemma b64_enc_v1_lt64 b0 b1 : b1 < 256 -> b64_enc_v1 b0 b1 < 64.
Proof. unfold b64_enc_v1. lia. Qed.
Lemma b64_enc_v2_lt64 b1 b2 : b2 < 256 -> b64_enc_v2 b1 b2 < 64.
Proof. unfold b64_enc_v2. lia. Qed.
Lemma b64_enc_v3_lt64 b2 : b64_enc_v3 b2 < 64.
Proof. unfold b64_enc_v3. lia. Qed.

Lemma b64_block3 b0 b1 b2 : b0 < 256 -> b1 < 256 -> b2 < 256 ->
  b64_be3 (b64_accum (b64_enc_v0 b0) (b64_enc_v1 b0 b1) (b64_enc_v2 b1 b2) (b64_enc_v3 b2))
  = [b0; b1; b2].
Proof.
  intros H0 H1 H2.
  unfold b64_be3, b64_accum, b64_enc_v0, b64_enc_v1, b64_enc_v2, b64_enc_v3.
  f_equal; [lia|]. f_equal; [lia|]. f_equal. lia.
Qed.

(* A block never has bits below the three output bytes. *)
Lemma b64_accum_low8 m0 m1 m2 m3 : b64_accum m0 m1 m2 m3 mod 256 = 0.
Proof. unfold b64_accum. lia. Qed.

(* ------------------------------------------------------------------------------------------ *)
(* Unfolding equations for the encoder                                                          *)

Lemma b64_encode_nil : b64_encode [] = [].
Proof. reflexivity. Qed.

Lemma b64_encode_1 a :
  b64_encode [a]
  = [ b64_sym (b64_enc_v0 a); b64_sym (b64_enc_v1 a 0); b64_pad_code; b64_pad_code ].
Proof. reflexivity. Qed.

Lemma b64_encode_2 a b :
  b64_encode [a; b]
  = [ b64_sym (b64_enc_v0 a); b64_sym (b64_enc_v1 a b); b64_sym (b64_enc_v2 b 0); b64_pad_code ].
Proof. reflexivity. Qed.

Lemma b64_encode_cons3 a b c r :
  b64_encode (a :: b :: c :: r)
  = b64_sym (b64_enc_v0 a) :: b64_sym (b64_enc_v1 a b) ::
    b64_sym (b64_enc_v2 b c) :: b64_sym (b64_enc_v3 c) :: b64_encode r.
Proof.
  unfold b64_encode. cbn [b64_enc_unpadded length app].
  set (n := length (b64_enc_unpadded r)).
  assert (Hp : b64_pad_bytes (S (S (S (S n)))) = b64_pad_bytes n).
  { unfold b64_pad_bytes.
    assert (Hmod : (S (S (S (S n))) mod 4 = n mod 4)%nat) by lia.
    rewrite Hmod. reflexivity. }
  rewrite Hp. reflexivity.
Qed.

(* ------------------------------------------------------------------------------------------ *)
(* Length law: the text has 4 * ceil(len / 3) characters ([encoded_len(len, true)])             *)

Theorem b64_encode_length :
  forall b, length (b64_encode b) = (4 * ((length b + 2) / 3))%nat.
Proof.
  intro b.
  induction b as [| a | a b | a b c r IH] using b64_bytes_ind3; try reflexivity.
  rewrite b64_encode_cons3. cbn [length]. rewrite IH. lia.
Qed.

(* The number of symbols before padding ([internal_encode]'s return value). *)
Lemma b64_enc_unpadded_length b :
  length (b64_enc_unpadded b) = ((length b * 4 + 2) / 3)%nat.
Proof.
  induction b as [| a | a b | a b c r IH] using b64_bytes_ind3; try reflexivity.
  cbn [b64_enc_unpadded length]. rewrite IH. lia.
Qed.

Corollary b64_encode_length_8 :
  forall b, bytes_ok b = true -> length b = 8%nat -> length (b64_encode b) = 12%nat.
Proof. intros b _ H. rewrite b64_encode_length, H. reflexivity. Qed.

Corollary b64_encode_length_16 :
  forall b, bytes_ok b = true -> length b = 16%nat -> length (b64_encode b) = 24%nat.
Proof. intros b _ H. rewrite b64_encode_length, H. reflexivity. Qed.

Corollary b64_encode_length_32 :
  forall b, bytes_ok b = true -> length b = 32%nat -> length (b64_encode b) = 44%nat.
Proof. intros b _ H. rewrite b64_encode_length, H. reflexivity. Qed.

Lemma b64_encode_nonempty x r : exists y t, b64_encode (x :: r) = y :: t.
Proof.
  destruct (b64_encode (x :: r)) as [|y t] eqn:E.
  - apply (f_equal (@length N)) in E. rewrite b64_encode_length in E. cbn [length] in E. lia.
  - exists y, t. reflexivity.
Qed.

(* ------------------------------------------------------------------------------------------ *)
(* The encoder only emits alphabet characters and '='                                           *)

Theorem b64_encode_chars_ok :
  forall b, bytes_ok b = true -> forallb b64_char_ok (b64_encode b) = true.
Proof.
  intro b.
  assert (H0 : 0 < 256) by lia.
  induction b as [| a | a b | a b c r IH] using b64_bytes_ind3; intro Hok;
    repeat (apply b64_bytes_ok_cons in Hok; let H := fresh "Hb" in destruct Hok as [H Hok]).
  - reflexivity.
  - rewrite b64_encode_1. cbn [forallb].
    rewrite (b64_sym_char_ok _ (b64_enc_v0_lt64 a Hb)).
    rewrite (b64_sym_char_ok _ (b64_enc_v1_lt64 a 0 H0)). reflexivity.
  - rewrite b64_encode_2. cbn [forallb].
    rewrite (b64_sym_char_ok _ (b64_enc_v0_lt64 a Hb)).
    rewrite (b64_sym_char_ok _ (b64_enc_v1_lt64 a b Hb0)).
    rewrite (b64_sym_char_ok _ (b64_enc_v2_lt64 b 0 H0)). reflexivity.
  - rewrite b64_encode_cons3. cbn [forallb].
    rewrite (b64_sym_char_ok _ (b64_enc_v0_lt64 a Hb)).
    rewrite (b64_sym_char_ok _ (b64_enc_v1_lt64 a b Hb0)).
    rewrite (b64_sym_char_ok _ (b64_enc_v2_lt64 b c Hb1)).
    rewrite (b64_sym_char_ok _ (b64_enc_v3_lt64 c)).
    rewrite (IH Hok). reflexivity.
Qed.

Theorem b64_encode_alphabet :
  forall b, bytes_ok b = true ->
  Forall (fun c => In c b64_alphabet_codes \/ c = 61) (b64_encode b).
Proof.
  intros b Hok. apply Forall_forall. intros c Hc.
  pose proof (b64_encode_chars_ok b Hok) as H. rewrite forallb_forall in H.
  specialize (H c Hc).
  destruct (b64_lookup c) as [m|] eqn:El.
  - left. rewrite <- (b64_sym_lookup c m El). apply b64_sym_in_alphabet.
    exact (b64_lookup_lt64 c m El).
  - apply b64_lookup_char_ok in El. destruct El as [El | El]; [congruence | right; exact El].
Qed.

(* The text never contains '-' (45) or ':' (58). *)
Theorem b64_encode_no_dash_colon :
  forall b, bytes_ok b = true -> ~ In 45%N (b64_encode b) /\ ~ In 58%N (b64_encode b).
Proof.
  intros b Hok.
  pose proof (b64_encode_chars_ok b Hok) as H. rewrite forallb_forall in H.
  split; intro Hin; apply H in Hin; vm_compute in Hin; discriminate.
Qed.

(* ------------------------------------------------------------------------------------------ *)
(* Unfolding equations for the decoder                                                          *)

Lemma b64_decode_quad_step c0 c1 c2 c3 x r :
  b64_decode (c0 :: c1 :: c2 :: c3 :: x :: r)
  = match b64_dec_quad c0 c1 c2 c3 with
    | None => None
    | Some q => match b64_decode (x :: r) with
                | None => None
                | Some o => Some (q ++ o)
                end
    end.
Proof. reflexivity. Qed.

Lemma b64_decode_0 : b64_decode [] = b64_decode_suffix [].
Proof. reflexivity. Qed.
Lemma b64_decode_1 a : b64_decode [a] = b64_decode_suffix [a].
Proof. reflexivity. Qed.
Lemma b64_decode_2 a b : b64_decode [a; b] = b64_decode_suffix [a; b].
Proof. reflexivity. Qed.
Lemma b64_decode_3 a b c : b64_decode [a; b; c] = b64_decode_suffix [a; b; c].
Proof. reflexivity. Qed.
Lemma b64_decode_4 a b c d : b64_decode [a; b; c; d] = b64_decode_suffix [a; b; c; d].
Proof. reflexivity. Qed.

Lemma b64_dec_quad_length c0 c1 c2 c3 q : b64_dec_quad c0 c1 c2 c3 = Some q -> length q = 3%nat.
Proof.
  unfold b64_dec_quad.
  destruct (b64_lookup c0); [|discriminate]. destruct (b64_lookup c1); [|discriminate].
  destruct (b64_lookup c2); [|discriminate]. destruct (b64_lookup c3); [|discriminate].
  intro H. injection H as <-. reflexivity.
Qed.

(* ------------------------------------------------------------------------------------------ *)
(* The decoder rejects every text containing a character outside the alphabet and '='           *)

Lemma b64_suffix_loop_rejects s c :
  In c s -> b64_char_ok c = false ->
  forall idx pad ms, b64_suffix_loop idx s pad ms = None.
Proof.
  intros Hin Hbad. destruct (b64_char_ok_false c Hbad) as [Hl Hp].
  induction s as [|b r IH]; [contradiction|]. intros idx pad ms.
  cbn [b64_suffix_loop]. destruct Hin as [-> | Hin].
  - rewrite Hp, Hl. destruct (0 <? pad)%nat; reflexivity.
  - destruct (b =? b64_pad_code).
    + destruct (idx <? 2)%nat; [reflexivity | apply IH; exact Hin].
    + destruct (0 <? pad)%nat; [reflexivity|].
      destruct (b64_lookup b); [apply IH; exact Hin | reflexivity].
Qed.

Lemma b64_decode_suffix_rejects s c :
  In c s -> b64_char_ok c = false -> b64_decode_suffix s = None.
Proof.
  intros Hin Hbad. unfold b64_decode_suffix.
  rewrite (b64_suffix_loop_rejects s c Hin Hbad). reflexivity.
Qed.

Lemma b64_dec_quad_rejects c0 c1 c2 c3 c :
  In c [c0; c1; c2; c3] -> b64_char_ok c = false -> b64_dec_quad c0 c1 c2 c3 = None.
Proof.
  intros Hin Hbad. destruct (b64_char_ok_false c Hbad) as [Hl _].
  unfold b64_dec_quad.
  destruct Hin as [-> | [-> | [-> | [-> | []]]]]; rewrite Hl;
    repeat match goal with |- context [match b64_lookup ?x with _ => _ end] =>
             destruct (b64_lookup x) end; reflexivity.
Qed.

Theorem b64_decode_rejects :
  forall (t : bytes) c, In c t -> b64_char_ok c = false -> b64_decode t = None.
Proof.
  intros t c Hin Hbad. revert Hin.
  induction t as [| x0 | x0 x1 | x0 x1 x2 | x0 x1 x2 x3 | x0 x1 x2 x3 x r IH]
    using b64_bytes_ind4; intro Hin.
  - contradiction.
  - rewrite b64_decode_1. apply (b64_decode_suffix_rejects _ c Hin Hbad).
  - rewrite b64_decode_2. apply (b64_decode_suffix_rejects _ c Hin Hbad).
  - rewrite b64_decode_3. apply (b64_decode_suffix_rejects _ c Hin Hbad).
  - rewrite b64_decode_4. apply (b64_decode_suffix_rejects _ c Hin Hbad).
  - rewrite b64_decode_quad_step.
    assert (Hsplit : In c [x0; x1; x2; x3] \/ In c (x :: r)).
    { change (x0 :: x1 :: x2 :: x3 :: x :: r) with ([x0; x1; x2; x3] ++ x :: r) in Hin.
      apply in_app_or. exact Hin. }
    destruct Hsplit as [Hq | Hr].
    + rewrite (b64_dec_quad_rejects _ _ _ _ c Hq Hbad). reflexivity.
    + rewrite (IH Hr). destruct (b64_dec_quad x0 x1 x2 x3); reflexivity.
Qed.

(* ------------------------------------------------------------------------------------------ *)
(* A decodable text has a multiple of 4 characters and yields at most 3 bytes per quad          *)

(* Every character of the suffix is counted either as padding or as a morsel. *)
Lemma b64_suffix_loop_count s :
  forall idx pad ms pad' ms',
  b64_suffix_loop idx s pad ms = Some (pad', ms') ->
  (pad' + length ms' = pad + length ms + length s)%nat.
Proof.
  induction s as [|b r IH]; intros idx pad ms pad' ms' H; cbn [b64_suffix_loop] in H.
  - injection H as <- <-. cbn [length]. lia.
  - destruct (b =? b64_pad_code).
    + destruct (idx <? 2)%nat; [discriminate|].
      apply IH in H. cbn [length]. lia.
    + destruct (0 <? pad)%nat; [discriminate|].
      destruct (b64_lookup b) as [m|]; [|discriminate].
      apply IH in H. rewrite app_length in H. cbn [length] in H |- *. lia.
Qed.

Lemma b64_be3_length a : length (b64_be3 a) = 3%nat.
Proof. reflexivity. Qed.

Lemma b64_decode_suffix_length s b :
  b64_decode_suffix s = Some b ->
  (length s mod 4 = 0)%nat /\ (length b <= 3)%nat /\ (s = [] -> b = []).
Proof.
  intro H. destruct s as [|x s'].
  - vm_compute in H. injection H as <-. cbn [length]. repeat split. lia.
  - unfold b64_decode_suffix in H.
    destruct (b64_suffix_loop 0 (x :: s') 0 []) as [[pad ms]|] eqn:HL; [|discriminate].
    apply b64_suffix_loop_count in HL. cbn [length] in HL.
    destruct (true && (length ms <? 2)%nat); [discriminate|].
    destruct ((pad + length ms) mod 4 =? 0)%nat eqn:Hc; [|discriminate].
    cbn [negb] in H. apply Nat.eqb_eq in Hc.
    match type of H with (if ?c then _ else _) = _ => destruct c end; [discriminate|].
    injection H as <-. rewrite firstn_length, b64_be3_length. cbn [length].
    repeat split; [lia | lia | discriminate].
Qed.

Theorem b64_decode_length :
  forall t b, b64_decode t = Some b ->
  (length t mod 4 = 0)%nat /\ (length b <= 3 * (length t / 4))%nat.
Proof.
  intro t.
  induction t as [| x0 | x0 x1 | x0 x1 x2 | x0 x1 x2 x3 | x0 x1 x2 x3 x r IH]
    using b64_bytes_ind4; intros b H.
  - rewrite b64_decode_0 in H. apply b64_decode_suffix_length in H.
    destruct H as (_ & _ & Hnil). rewrite (Hnil eq_refl). split; reflexivity.
  - rewrite b64_decode_1 in H. apply b64_decode_suffix_length in H.
    destruct H as (Hm & _ & _). cbn [length] in Hm. discriminate.
  - rewrite b64_decode_2 in H. apply b64_decode_suffix_length in H.
    destruct H as (Hm & _ & _). cbn [length] in Hm. discriminate.
  - rewrite b64_decode_3 in H. apply b64_decode_suffix_length in H.
    destruct H as (Hm & _ & _). cbn [length] in Hm. discriminate.
  - rewrite b64_decode_4 in H. apply b64_decode_suffix_length in H.
    destruct H as (_ & Hb & _). split; [reflexivity | exact Hb].
  - rewrite b64_decode_quad_step in H.
    destruct (b64_dec_quad x0 x1 x2 x3) as [q|] eqn:Hq; [|discriminate].
    destruct (b64_decode (x :: r)) as [o|] eqn:Ho; [|discriminate].
    injection H as <-. apply b64_dec_quad_length in Hq.
    destruct (IH o eq_refl) as [Hm Hl].
    rewrite app_length, Hq.
    change (length (x0 :: x1 :: x2 :: x3 :: x :: r)) with (4 + length (x :: r))%nat.
    set (n := length (x :: r)) in *. lia.
Qed.

(* ------------------------------------------------------------------------------------------ *)
(* Round trip                                                                                   *)

(* decode_suffix on the three shapes of a last quad, in terms of the table values. *)
Lemma b64_decode_suffix_4 c0 c1 c2 c3 m0 m1 m2 m3 :
  b64_lookup c0 = Some m0 -> b64_lookup c1 = Some m1 ->
  b64_lookup c2 = Some m2 -> b64_lookup c3 = Some m3 ->
  b64_decode_suffix [c0; c1; c2; c3] = Some (b64_be3 (b64_accum m0 m1 m2 m3)).
Proof.
  intros H0 H1 H2 H3. unfold b64_decode_suffix. cbn [b64_suffix_loop].
  rewrite (b64_lookup_some_not_pad _ _ H0), (b64_lookup_some_not_pad _ _ H1),
          (b64_lookup_some_not_pad _ _ H2), (b64_lookup_some_not_pad _ _ H3).
  rewrite H0, H1, H2, H3.
  cbn [Nat.ltb Nat.leb app length nth andb].
  change ((0 + 4) mod 4 =? 0)%nat with true.
  change (4 * 6 / 8)%nat with 3%nat.
  change (2 ^ (32 - 8 * N.of_nat 3)) with 256.
  rewrite b64_accum_low8. reflexivity.
Qed.

Lemma b64_decode_suffix_3 c0 c1 c2 m0 m1 m2 :
  b64_lookup c0 = Some m0 -> b64_lookup c1 = Some m1 -> b64_lookup c2 = Some m2 ->
  m2 mod 4 = 0 ->
  b64_decode_suffix [c0; c1; c2; b64_pad_code]
  = Some (firstn 2 (b64_be3 (b64_accum m0 m1 m2 0))).
Proof.
  intros H0 H1 H2 Hz. unfold b64_decode_suffix. cbn [b64_suffix_loop].
  rewrite (b64_lookup_some_not_pad _ _ H0), (b64_lookup_some_not_pad _ _ H1),
          (b64_lookup_some_not_pad _ _ H2).
  rewrite H0, H1, H2. rewrite N.eqb_refl.
  cbn [Nat.ltb Nat.leb app length nth andb].
  change ((1 + 3) mod 4 =? 0)%nat with true.
  change (3 * 6 / 8)%nat with 2%nat.
  change (2 ^ (32 - 8 * N.of_nat 2)) with 65536.
  assert (Hm : b64_accum m0 m1 m2 0 mod 65536 = 0) by (unfold b64_accum; lia).
  rewrite Hm. reflexivity.
Qed.

Lemma b64_decode_suffix_2 c0 c1 m0 m1 :
  b64_lookup c0 = Some m0 -> b64_lookup c1 = Some m1 ->
  m1 mod 16 = 0 ->
  b64_decode_suffix [c0; c1; b64_pad_code; b64_pad_code]
  = Some (firstn 1 (b64_be3 (b64_accum m0 m1 0 0))).
Proof.
  intros H0 H1 Hz. unfold b64_decode_suffix. cbn [b64_suffix_loop].
  rewrite (b64_lookup_some_not_pad _ _ H0), (b64_lookup_some_not_pad _ _ H1).
  rewrite H0, H1. rewrite N.eqb_refl.
  cbn [Nat.ltb Nat.leb app length nth andb].
  change ((2 + 2) mod 4 =? 0)%nat with true.
  change (2 * 6 / 8)%nat with 1%nat.
  change (2 ^ (32 - 8 * N.of_nat 1)) with 16777216.
  assert (Hm : b64_accum m0 m1 0 0 mod 16777216 = 0) by (unfold b64_accum; lia).
  rewrite Hm. reflexivity.
Qed.

Lemma b64_dec_quad_syms a b c :
  a < 256 -> b < 256 -> c < 256 ->
  b64_dec_quad (b64_sym (b64_enc_v0 a)) (b64_sym (b64_enc_v1 a b))
               (b64_sym (b64_enc_v2 b c)) (b64_sym (b64_enc_v3 c)) = Some [a; b; c].
Proof.
  intros Ha Hb Hc. unfold b64_dec_quad.
  rewrite (b64_lookup_sym _ (b64_enc_v0_lt64 a Ha)), (b64_lookup_sym _ (b64_enc_v1_lt64 a b Hb)),
          (b64_lookup_sym _ (b64_enc_v2_lt64 b c Hc)), (b64_lookup_sym _ (b64_enc_v3_lt64 c)).
  rewrite b64_block3 by assumption. reflexivity.
Qed.

Theorem b64_decode_encode : forall b, bytes_ok b = true -> b64_decode (b64_encode b) = Some b.
Proof.
  intro b.
  assert (H0 : 0 < 256) by lia.
  induction b as [| a | a b | a b c r IH] using b64_bytes_ind3; intro Hok;
    repeat (apply b64_bytes_ok_cons in Hok; let H := fresh "Hb" in destruct Hok as [H Hok]).
  - reflexivity.
  - rewrite b64_encode_1, b64_decode_4.
    rewrite (b64_decode_suffix_2 _ _ _ _
               (b64_lookup_sym _ (b64_enc_v0_lt64 a Hb))
               (b64_lookup_sym _ (b64_enc_v1_lt64 a 0 H0))) by (unfold b64_enc_v1; lia).
    pose proof (b64_block3 a 0 0 Hb H0 H0) as Hblk.
    change (b64_enc_v2 0 0) with 0 in Hblk. change (b64_enc_v3 0) with 0 in Hblk.
    rewrite Hblk. reflexivity.
  - rewrite b64_encode_2, b64_decode_4.
    rewrite (b64_decode_suffix_3 _ _ _ _ _ _
               (b64_lookup_sym _ (b64_enc_v0_lt64 a Hb))
               (b64_lookup_sym _ (b64_enc_v1_lt64 a b Hb0))
               (b64_lookup_sym _ (b64_enc_v2_lt64 b 0 H0))) by (unfold b64_enc_v2; lia).
    pose proof (b64_block3 a b 0 Hb Hb0 H0) as Hblk.
    change (b64_enc_v3 0) with 0 in Hblk.
    rewrite Hblk. reflexivity.
  - rewrite b64_encode_cons3. destruct r as [|x r'].
    + rewrite b64_encode_nil, b64_decode_4.
      rewrite (b64_decode_suffix_4 _ _ _ _ _ _ _ _
                 (b64_lookup_sym _ (b64_enc_v0_lt64 a Hb))
                 (b64_lookup_sym _ (b64_enc_v1_lt64 a b Hb0))
                 (b64_lookup_sym _ (b64_enc_v2_lt64 b c Hb1))
                 (b64_lookup_sym _ (b64_enc_v3_lt64 c))).
      rewrite b64_block3 by assumption. reflexivity.
    + specialize (IH Hok).
      destruct (b64_encode_nonempty x r') as (y & t & E). rewrite E in IH |- *.
      rewrite b64_decode_quad_step, b64_dec_quad_syms by assumption.
      rewrite IH. reflexivity.
Qed.

(* ------------------------------------------------------------------------------------------ *)
(* Justification of the modelling choices of Base64.v against the Rust text.                    *)

(* (1) [b64_lookup] is the table built by the const fn [decode_table(alphabet)]:
         let mut decode_table = [INVALID_VALUE; 256];
         while index < 64 { decode_table[alphabet.symbols[index] as usize] = index as u8; }    *)
Fixpoint b64_upd (l : list N) (i : nat) (v : N) : list N :=
  match l, i with
  | [], _ => []
  | _ :: r, O => v :: r
  | x :: r, S i' => x :: b64_upd r i' v
  end.

Definition b64_invalid_value : N := 255.

Definition b64_decode_table : list N :=
  fold_left (fun tbl index =>
               b64_upd tbl (N.to_nat (nth index b64_alphabet_codes 0)) (N.of_nat index))
            (seq 0 64) (repeat b64_invalid_value 256).

Lemma b64_lookup_is_decode_table c :
  c < 256 ->
  b64_lookup c = let m := nth (N.to_nat c) b64_decode_table 0 in
                 if m =? b64_invalid_value then None else Some m.
Proof.
  intro Hc.
  pose (f := fun c =>
    option_eqb N.eqb (b64_lookup c)
      (let m := nth (N.to_nat c) b64_decode_table 0 in
       if m =? b64_invalid_value then None else Some m)).
  assert (Hf : f c = true).
  { apply (b64_N_below_forallb 256 f); [vm_compute; reflexivity | exact Hc]. }
  unfold f in Hf. cbv zeta in *.
  destruct (b64_lookup c) as [m|];
    destruct (nth (N.to_nat c) b64_decode_table 0 =? b64_invalid_value);
    cbn [option_eqb] in Hf; try discriminate; [|reflexivity].
  apply N.eqb_eq in Hf. subst m. reflexivity.
Qed.

(* (2) The arithmetic renderings coincide with the literal shift/mask/or expressions. *)

Lemma b64_N_below_forallb2 (n : nat) (f : N -> N -> bool) :
  forallb (fun a => forallb (f a) (map N.of_nat (seq 0 n))) (map N.of_nat (seq 0 n)) = true ->
  forall a b, a < N.of_nat n -> b < N.of_nat n -> f a b = true.
Proof.
  intros H a b Ha Hb.
  apply (b64_N_below_forallb n (f a)); [|exact Hb].
  apply (b64_N_below_forallb n (fun a => forallb (f a) (map N.of_nat (seq 0 n)))); assumption.
Qed.

(* u8 [<<]: shift, then keep the low 8 bits. *)
Definition b64_shl8 (x k : N) : N := N.land (N.shiftl x k) 255.

(* Encoder indices (u8 operations), including the two forms used for the 1- and 2-byte tails. *)
Lemma b64_enc_v0_bitwise b0 : b64_enc_v0 b0 = N.shiftr b0 2.
Proof. unfold b64_enc_v0. rewrite N.shiftr_div_pow2. reflexivity. Qed.

Lemma b64_enc_v1_bitwise b0 b1 : b0 < 256 -> b1 < 256 ->
  b64_enc_v1 b0 b1 = N.land (N.lor (b64_shl8 b0 4) (N.shiftr b1 4)) 0x3F.
Proof.
  intros H0 H1. apply N.eqb_eq.
  apply (b64_N_below_forallb2 256 (fun b0 b1 =>
           b64_enc_v1 b0 b1 =? N.land (N.lor (b64_shl8 b0 4) (N.shiftr b1 4)) 0x3F));
    [vm_compute; reflexivity | exact H0 | exact H1].
Qed.

Lemma b64_enc_v2_bitwise b1 b2 : b1 < 256 -> b2 < 256 ->
  b64_enc_v2 b1 b2 = N.land (N.lor (b64_shl8 b1 2) (N.shiftr b2 6)) 0x3F.
Proof.
  intros H1 H2. apply N.eqb_eq.
  apply (b64_N_below_forallb2 256 (fun b1 b2 =>
           b64_enc_v2 b1 b2 =? N.land (N.lor (b64_shl8 b1 2) (N.shiftr b2 6)) 0x3F));
    [vm_compute; reflexivity | exact H1 | exact H2].
Qed.

Lemma b64_enc_v3_bitwise b2 : b64_enc_v3 b2 = N.land b2 0x3F.
Proof. unfold b64_enc_v3. change 0x3F with (N.ones 6). rewrite N.land_ones. reflexivity. Qed.

Lemma b64_enc_v1_tail_bitwise b0 : b0 < 256 -> b64_enc_v1 b0 0 = N.land (b64_shl8 b0 4) 0x3F.
Proof.
  intro H0. apply N.eqb_eq.
  apply (b64_N_below_forallb 256 (fun b0 => b64_enc_v1 b0 0 =? N.land (b64_shl8 b0 4) 0x3F));
    [vm_compute; reflexivity | exact H0].
Qed.

Lemma b64_enc_v2_tail_bitwise b1 : b1 < 256 -> b64_enc_v2 b1 0 = N.land (b64_shl8 b1 2) 0x3F.
Proof.
  intro H1. apply N.eqb_eq.
  apply (b64_N_below_forallb 256 (fun b1 => b64_enc_v2 b1 0 =? N.land (b64_shl8 b1 2) 0x3F));
    [vm_compute; reflexivity | exact H1].
Qed.

(* [|] of a value shifted left by k with a value below 2^k is their sum. *)
Lemma b64_lor_disjoint x y k : y < 2 ^ k -> N.lor (x * 2 ^ k) y = x * 2 ^ k + y.
Proof.
  intro Hy.
  assert (Hland : N.land (x * 2 ^ k) y = 0).
  { apply N.bits_inj_0. intro n. rewrite N.land_spec.
    destruct (N.ltb_spec n k) as [Hn | Hn].
    - rewrite N.mul_pow2_bits_low by exact Hn. reflexivity.
    - rewrite <- (N.mod_small y (2 ^ k) Hy).
      rewrite N.mod_pow2_bits_high by exact Hn. apply andb_false_r. }
  rewrite N.add_nocarry_lxor by exact Hland. symmetry. apply N.lxor_lor. exact Hland.
Qed.

(* The u32 accumulator of decode_chunk_4 / decode_suffix.  (No bit is shifted out of the u32:
   the value is below 2^32.) *)
Lemma b64_accum_bitwise m0 m1 m2 m3 :
  m0 < 64 -> m1 < 64 -> m2 < 64 -> m3 < 64 ->
  b64_accum m0 m1 m2 m3
  = N.lor (N.lor (N.lor (N.shiftl m0 26) (N.shiftl m1 20)) (N.shiftl m2 14)) (N.shiftl m3 8)
  /\ b64_accum m0 m1 m2 m3 < 2 ^ 32.
Proof.
  intros H0 H1 H2 H3. split.
  - rewrite <- !N.lor_assoc. rewrite !N.shiftl_mul_pow2.
    rewrite (b64_lor_disjoint m2 (m3 * 2 ^ 8) 14)
      by (change (2 ^ 8) with 256; change (2 ^ 14) with 16384; lia).
    rewrite (b64_lor_disjoint m1 _ 20)
      by (change (2 ^ 8) with 256; change (2 ^ 14) with 16384; change (2 ^ 20) with 1048576; lia).
    rewrite (b64_lor_disjoint m0 _ 26)
      by (change (2 ^ 8) with 256; change (2 ^ 14) with 16384; change (2 ^ 20) with 1048576;
          change (2 ^ 26) with 67108864; lia).
    unfold b64_accum.
    change (2 ^ 8) with 256; change (2 ^ 14) with 16384; change (2 ^ 20) with 1048576;
      change (2 ^ 26) with 67108864. lia.
  - unfold b64_accum. change (2 ^ 32) with 4294967296. lia.
Qed.

(* accum.to_be_bytes()[..3]: byte i of a u32 is (a >> (24 - 8 i)) & 0xFF. *)
Lemma b64_be3_bitwise a :
  a < 2 ^ 32 ->
  b64_be3 a = [ N.land (N.shiftr a 24) 0xFF; N.land (N.shiftr a 16) 0xFF;
                N.land (N.shiftr a 8) 0xFF ].
Proof.
  intro Ha. unfold b64_be3. change 0xFF with (N.ones 8).
  rewrite !N.land_ones, !N.shiftr_div_pow2.
  change (2 ^ 32) with 4294967296 in Ha.
  change (2 ^ 24) with 16777216. change (2 ^ 16) with 65536. change (2 ^ 8) with 256.
  f_equal. lia.
Qed.

(* The same bytes as decode_suffix produces them:
     hi_byte = (leftover_num >> 24) as u8; leftover_num <<= 8;   (u32, so << truncates) *)
Definition b64_shl32 (x k : N) : N := (x * 2 ^ k) mod 2 ^ 32.

Lemma b64_be3_shift_loop a :
  a < 2 ^ 32 ->
  b64_be3 a = [ a / 2 ^ 24; b64_shl32 a 8 / 2 ^ 24; b64_shl32 (b64_shl32 a 8) 8 / 2 ^ 24 ].
Proof.
  intro Ha. unfold b64_be3, b64_shl32.
  change (2 ^ 32) with 4294967296 in *. change (2 ^ 24) with 16777216. change (2 ^ 8) with 256.
  f_equal. f_equal; [lia|]. f_equal. lia.
Qed.

(* The trailing-bits test: leftover_num & (!0_u32 >> (k * 8)), k = leftover_bytes_to_append. *)
Lemma b64_mask_bitwise num k :
  (k <= 3)%nat ->
  N.land num (N.shiftr 0xFFFFFFFF (N.of_nat k * 8)) = num mod 2 ^ (32 - 8 * N.of_nat k).
Proof.
  intro Hk.
  destruct k as [|[|[|[|k]]]]; [| | | |lia];
    match goal with |- N.land _ ?m = _ mod 2 ^ ?e =>
      let e' := eval vm_compute in e in
      change m with (N.ones e'); change e with e' end;
    apply N.land_ones.
Qed.

(* (3) The encoder's fast loop: eight indices from one big-endian u64 read are the indices of two
   consecutive 3-byte chunks (the last two bytes read are ignored). *)
Definition b64_read_u64 (b0 b1 b2 b3 b4 b5 b6 b7 : N) : N :=
  b0 * 2 ^ 56 + b1 * 2 ^ 48 + b2 * 2 ^ 40 + b3 * 2 ^ 32 + b4 * 2 ^ 24 + b5 * 2 ^ 16 + b6 * 2 ^ 8 + b7.

Lemma b64_fast_loop_vals b0 b1 b2 b3 b4 b5 b6 b7 :
  b0 < 256 -> b1 < 256 -> b2 < 256 -> b3 < 256 -> b4 < 256 -> b5 < 256 -> b6 < 256 -> b7 < 256 ->
  let u := b64_read_u64 b0 b1 b2 b3 b4 b5 b6 b7 in
  [ (u / 2 ^ 58) mod 64; (u / 2 ^ 52) mod 64; (u / 2 ^ 46) mod 64; (u / 2 ^ 40) mod 64;
    (u / 2 ^ 34) mod 64; (u / 2 ^ 28) mod 64; (u / 2 ^ 22) mod 64; (u / 2 ^ 16) mod 64 ]
  = [ b64_enc_v0 b0; b64_enc_v1 b0 b1; b64_enc_v2 b1 b2; b64_enc_v3 b2;
      b64_enc_v0 b3; b64_enc_v1 b3 b4; b64_enc_v2 b4 b5; b64_enc_v3 b5 ].
Proof.
  intros H0 H1 H2 H3 H4 H5 H6 H7. cbv zeta.
  unfold b64_read_u64, b64_enc_v0, b64_enc_v1, b64_enc_v2, b64_enc_v3.
  repeat match goal with |- context [2 ^ ?e] =>
    let v := eval vm_compute in (2 ^ e) in change (2 ^ e) with v end.
  repeat (apply (f_equal2 (@cons N)); [lia|]). reflexivity.
Qed.

(* (4) decode_chunk_8: two quads in a u64, first six big-endian bytes = the two 3-byte groups. *)
Lemma b64_chunk8_bytes m0 m1 m2 m3 m4 m5 m6 m7 :
  m0 < 64 -> m1 < 64 -> m2 < 64 -> m3 < 64 -> m4 < 64 -> m5 < 64 -> m6 < 64 -> m7 < 64 ->
  let a := m0 * 2 ^ 58 + m1 * 2 ^ 52 + m2 * 2 ^ 46 + m3 * 2 ^ 40
           + m4 * 2 ^ 34 + m5 * 2 ^ 28 + m6 * 2 ^ 22 + m7 * 2 ^ 16 in
  [ a / 2 ^ 56; (a / 2 ^ 48) mod 256; (a / 2 ^ 40) mod 256;
    (a / 2 ^ 32) mod 256; (a / 2 ^ 24) mod 256; (a / 2 ^ 16) mod 256 ]
  = b64_be3 (b64_accum m0 m1 m2 m3) ++ b64_be3 (b64_accum m4 m5 m6 m7).
Proof.
  intros H0 H1 H2 H3 H4 H5 H6 H7. cbv zeta.
  unfold b64_be3, b64_accum. cbn [app].
  repeat match goal with |- context [2 ^ ?e] =>
    let v := eval vm_compute in (2 ^ e) in change (2 ^ e) with v end.
  repeat (apply (f_equal2 (@cons N)); [lia|]). reflexivity.
Qed.

(* (5) complete_quads_len's early error (len % 4 == 1 and an invalid last byte) is subsumed:
   any text whose length is not a multiple of 4 is rejected. *)
Corollary b64_decode_bad_length t : (length t mod 4 <> 0)%nat -> b64_decode t = None.
Proof.
  intro H. destruct (b64_decode t) as [b|] eqn:E; [|reflexivity].
  apply b64_decode_length in E. destruct E as [E _]. contradiction.
Qed.

(* (6) The two parts of the output add up to [encoded_len(len, true)], the buffer size. *)
Lemma b64_encode_length_parts b :
  length (b64_encode b)
  = (length (b64_enc_unpadded b) + b64_pad_bytes (length (b64_enc_unpadded b)))%nat.
Proof. unfold b64_encode. rewrite app_length, repeat_length. reflexivity. Qed.

(* ------------------------------------------------------------------------------------------ *)
(* Canonicity: the decoder accepts exactly the encoder's output.  (This is what RequireCanonical
   together with decode_allow_trailing_bits = false buys: every decodable text is the encoding
   of the bytes it decodes to, so decoding is injective.)                                        *)

Lemma b64_unblock3 m0 m1 m2 m3 :
  m0 < 64 -> m1 < 64 -> m2 < 64 -> m3 < 64 ->
  exists q0 q1 q2,
    b64_be3 (b64_accum m0 m1 m2 m3) = [q0; q1; q2] /\
    q0 < 256 /\ q1 < 256 /\ q2 < 256 /\
    b64_enc_v0 q0 = m0 /\ b64_enc_v1 q0 q1 = m1 /\ b64_enc_v2 q1 q2 = m2 /\ b64_enc_v3 q2 = m3.
Proof.
  intros H0 H1 H2 H3. unfold b64_be3, b64_accum.
  eexists _, _, _. split; [reflexivity|].
  unfold b64_enc_v0, b64_enc_v1, b64_enc_v2, b64_enc_v3.
  repeat split; lia.
Qed.

Lemma b64_dec_quad_inv c0 c1 c2 c3 q :
  b64_dec_quad c0 c1 c2 c3 = Some q ->
  exists q0 q1 q2, q = [q0; q1; q2] /\ q0 < 256 /\ q1 < 256 /\ q2 < 256 /\
    b64_sym (b64_enc_v0 q0) = c0 /\ b64_sym (b64_enc_v1 q0 q1) = c1 /\
    b64_sym (b64_enc_v2 q1 q2) = c2 /\ b64_sym (b64_enc_v3 q2) = c3.
Proof.
  unfold b64_dec_quad.
  destruct (b64_lookup c0) as [m0|] eqn:E0; [|discriminate].
  destruct (b64_lookup c1) as [m1|] eqn:E1; [|discriminate].
  destruct (b64_lookup c2) as [m2|] eqn:E2; [|discriminate].
  destruct (b64_lookup c3) as [m3|] eqn:E3; [|discriminate].
  intro H. injection H as <-.
  destruct (b64_unblock3 m0 m1 m2 m3 (b64_lookup_lt64 _ _ E0) (b64_lookup_lt64 _ _ E1)
              (b64_lookup_lt64 _ _ E2) (b64_lookup_lt64 _ _ E3))
    as (q0 & q1 & q2 & Hq & L0 & L1 & L2 & V0 & V1 & V2 & V3).
  exists q0, q1, q2. rewrite V0, V1, V2, V3.
  repeat split; try assumption; apply b64_sym_lookup; assumption.
Qed.

(* The three accepted shapes of a last quad. *)
Lemma b64_decode_suffix_4_inv c0 c1 c2 c3 b :
  b64_decode_suffix [c0; c1; c2; c3] = Some b ->
  bytes_ok b = true /\ b64_encode b = [c0; c1; c2; c3].
Proof.
  unfold b64_decode_suffix. cbn [b64_suffix_loop Nat.ltb Nat.leb].
  destruct (c0 =? b64_pad_code) eqn:P0; [discriminate|].
  destruct (b64_lookup c0) as [m0|] eqn:E0; [|discriminate].
  destruct (c1 =? b64_pad_code) eqn:P1; [discriminate|].
  destruct (b64_lookup c1) as [m1|] eqn:E1; [|discriminate].
  pose proof (b64_lookup_lt64 _ _ E0) as L0. pose proof (b64_lookup_lt64 _ _ E1) as L1.
  apply b64_sym_lookup in E0. apply b64_sym_lookup in E1.
  destruct (c2 =? b64_pad_code) eqn:P2.
  - (* "xx=?" *)
    destruct (c3 =? b64_pad_code) eqn:P3; [|discriminate].
    apply N.eqb_eq in P2, P3. subst c2 c3.
    cbn [Nat.ltb Nat.leb app length nth andb].
    change ((2 + 2) mod 4 =? 0)%nat with true.
    change (2 * 6 / 8)%nat with 1%nat.
    change (2 ^ (32 - 8 * N.of_nat 1)) with 16777216. cbn [negb].
    destruct (b64_accum m0 m1 0 0 mod 16777216 =? 0) eqn:Hz; [|discriminate].
    cbn [negb]. intro H. injection H as <-. apply N.eqb_eq in Hz.
    unfold b64_be3, b64_accum in *. cbn [firstn]. rewrite b64_encode_1.
    unfold b64_enc_v0, b64_enc_v1. split.
    + apply b64_bytes_ok_cons. split; [lia | reflexivity].
    + rewrite <- E0, <- E1. repeat (apply (f_equal2 (@cons N)); [f_equal; lia|]). reflexivity.
  - destruct (b64_lookup c2) as [m2|] eqn:E2; [|discriminate].
    pose proof (b64_lookup_lt64 _ _ E2) as L2. apply b64_sym_lookup in E2.
    destruct (c3 =? b64_pad_code) eqn:P3.
    + (* "xxx=" *)
      apply N.eqb_eq in P3. subst c3.
      cbn [Nat.ltb Nat.leb app length nth andb].
      change ((1 + 3) mod 4 =? 0)%nat with true.
      change (3 * 6 / 8)%nat with 2%nat.
      change (2 ^ (32 - 8 * N.of_nat 2)) with 65536. cbn [negb].
      destruct (b64_accum m0 m1 m2 0 mod 65536 =? 0) eqn:Hz; [|discriminate].
      cbn [negb]. intro H. injection H as <-. apply N.eqb_eq in Hz.
      unfold b64_be3, b64_accum in *. cbn [firstn]. rewrite b64_encode_2.
      unfold b64_enc_v0, b64_enc_v1, b64_enc_v2. split.
      * apply b64_bytes_ok_cons. split; [lia|].
        apply b64_bytes_ok_cons. split; [lia | reflexivity].
      * rewrite <- E0, <- E1, <- E2.
        repeat (apply (f_equal2 (@cons N)); [f_equal; lia|]). reflexivity.
    + (* "xxxx" *)
      destruct (b64_lookup c3) as [m3|] eqn:E3; [|discriminate].
      pose proof (b64_lookup_lt64 _ _ E3) as L3. apply b64_sym_lookup in E3.
      cbn [Nat.ltb Nat.leb app length nth andb].
      change ((0 + 4) mod 4 =? 0)%nat with true.
      change (4 * 6 / 8)%nat with 3%nat.
      change (2 ^ (32 - 8 * N.of_nat 3)) with 256. cbn [negb].
      rewrite b64_accum_low8. cbn [N.eqb negb].
      intro H. injection H as <-.
      destruct (b64_unblock3 m0 m1 m2 m3 L0 L1 L2 L3)
        as (q0 & q1 & q2 & Hq & Q0 & Q1 & Q2 & V0 & V1 & V2 & V3).
      unfold b64_be3 in Hq. cbn [firstn]. rewrite Hq. split.
      * repeat (apply b64_bytes_ok_cons; split; [assumption|]). reflexivity.
      * rewrite b64_encode_cons3, b64_encode_nil, V0, V1, V2, V3, E0, E1, E2, E3. reflexivity.
Qed.

Theorem b64_decode_canonical :
  forall t b, b64_decode t = Some b -> bytes_ok b = true /\ b64_encode b = t.
Proof.
  intro t.
  induction t as [| x0 | x0 x1 | x0 x1 x2 | x0 x1 x2 x3 | x0 x1 x2 x3 x r IH]
    using b64_bytes_ind4; intros b H.
  - vm_compute in H. injection H as <-. split; reflexivity.
  - apply b64_decode_length in H. cbn [length] in H. destruct H as [H _]. discriminate.
  - apply b64_decode_length in H. cbn [length] in H. destruct H as [H _]. discriminate.
  - apply b64_decode_length in H. cbn [length] in H. destruct H as [H _]. discriminate.
  - rewrite b64_decode_4 in H. apply b64_decode_suffix_4_inv. exact H.
  - rewrite b64_decode_quad_step in H.
    destruct (b64_dec_quad x0 x1 x2 x3) as [q|] eqn:Hq; [|discriminate].
    destruct (b64_decode (x :: r)) as [o|] eqn:Ho; [|discriminate].
    injection H as <-.
    destruct (b64_dec_quad_inv _ _ _ _ _ Hq)
      as (q0 & q1 & q2 & -> & Q0 & Q1 & Q2 & S0 & S1 & S2 & S3).
    destruct (IH o eq_refl) as [Hok Henc].
    cbn [app]. split.
    + repeat (apply b64_bytes_ok_cons; split; [assumption|]). exact Hok.
    + rewrite b64_encode_cons3, S0, S1, S2, S3, Henc. reflexivity.
Qed.

Corollary b64_decode_injective t1 t2 b :
  b64_decode t1 = Some b -> b64_decode t2 = Some b -> t1 = t2.
Proof.
  intros H1 H2. apply b64_decode_canonical in H1, H2.
  destruct H1 as [_ <-]. destruct H2 as [_ <-]. reflexivity.
Qed.

(* Exact output length of a successful decode, in terms of the text. *)
Corollary b64_decode_text_length t b :
  b64_decode t = Some b -> length t = (4 * ((length b + 2) / 3))%nat.
Proof.
  intro H. apply b64_decode_canonical in H. destruct H as [_ <-]. apply b64_encode_length.
Qed.

Print Assumptions b64_encode_length.
Print Assumptions b64_encode_chars_ok.
Print Assumptions b64_encode_no_dash_colon.
Print Assumptions b64_decode_rejects.
Print Assumptions b64_decode_length.
Print Assumptions b64_decode_canonical.
Print Assumptions b64_decode_encode.

(* RFC 4648 base64, standard alphabet, with padding, as implemented by the Rust crate [base64]
   0.22.1 for [base64::engine::general_purpose::STANDARD]:

     STANDARD = GeneralPurpose::new(&alphabet::STANDARD, PAD)
     PAD      = GeneralPurposeConfig { encode_padding: true,
                                       decode_allow_trailing_bits: false,
                                       decode_padding_mode: DecodePaddingMode::RequireCanonical }

   [b64_encode] models [Engine::encode(bytes) -> String]          (engine/mod.rs, encode.rs,
                                                                   engine/general_purpose/mod.rs)
   [b64_decode] models [Engine::decode(text) -> Result<Vec<u8>,_>] (engine/mod.rs,
                        engine/general_purpose/decode.rs, decode_suffix.rs)
   where [Ok v] is [Some v] and every [Err _] is [None].

   Definitions only; the theorems are in Base64Proofs.v.

   Conventions: byte strings are [list N] (each element intended < 256); a [String] / [&str] is
   modelled by its UTF-8 bytes (the encoder's output is pure ASCII).  Shifts and masks are written
   arithmetically:
     x >> k  =  x / 2^k        x << k  =  (x * 2^k) mod 2^w  (w the width of the Rust type)
     x & (2^k - 1) = x mod 2^k
   and [a | b] is written [a + b] where the operands have disjoint bits.  The agreement of the
   arithmetic forms with the literal shift/mask/or expressions is proved in Base64Proofs.v
   ([b64_enc_quad_bitwise], [b64_accum_bitwise], [b64_be3_bitwise], [b64_mask_bitwise]). *)
From KP Require Import Bytes.
Local Open Scope N_scope.

(* ------------------------------------------------------------------------------------------ *)
(* Alphabet                                                                                     *)

(* alphabet::STANDARD =
     "ABCDEFGHIJKLMNOPQRSTUVWXYZabcdefghijklmnopqrstuvwxyz0123456789+/" *)
Definition b64_alphabet_codes : list N :=
  [ 65; 66; 67; 68; 69; 70; 71; 72; 73; 74; 75; 76; 77; 78; 79; 80;
    81; 82; 83; 84; 85; 86; 87; 88; 89; 90;
    97; 98; 99; 100; 101; 102; 103; 104; 105; 106; 107; 108; 109; 110; 111; 112;
    113; 114; 115; 116; 117; 118; 119; 120; 121; 122;
    48; 49; 50; 51; 52; 53; 54; 55; 56; 57;
    43; 47 ].

Definition b64_pad_code : N := 61.   (* PAD_BYTE = b'=' *)

(* self.encode_table[v as usize]; encode_table is a copy of the alphabet's 64 symbols.  Every
   index the encoder produces from u8 input is < 64 ([b64_enc_quad_lt64]), so the default is
   never used on well-formed input. *)
Definition b64_sym (v : N) : N := nth (N.to_nat v) b64_alphabet_codes 0.

(* ------------------------------------------------------------------------------------------ *)
(* Encoder                                                                                      *)

(* The four 6-bit indices computed from one 3-byte chunk (u8 arithmetic, LOW_SIX_BITS_U8 = 0x3F):
     input_chunk[0] >> 2
     (input_chunk[0] << 4 | input_chunk[1] >> 4) & LOW_SIX_BITS_U8
     (input_chunk[1] << 2 | input_chunk[2] >> 6) & LOW_SIX_BITS_U8
     input_chunk[2] & LOW_SIX_BITS_U8
   [internal_encode] first runs a "fast loop" that reads 8 bytes as a big-endian u64 and takes
     (input_u64 >> 58) & 0x3F, >> 52, >> 46, >> 40, >> 34, >> 28, >> 22, >> 16
   i.e. the eight 6-bit groups of the first 6 bytes, advancing by 6 bytes; these are the same
   indices as two consecutive 3-byte chunks ([b64_fast_loop_vals] in Base64Proofs.v), so the
   model has only the 3-byte loop. *)
Definition b64_enc_v0 (b0 : N) : N := b0 / 4.
Definition b64_enc_v1 (b0 b1 : N) : N := (b0 mod 4) * 16 + b1 / 16.
Definition b64_enc_v2 (b1 b2 : N) : N := (b1 mod 16) * 4 + b2 / 64.
Definition b64_enc_v3 (b2 : N) : N := b2 mod 64.

(* [internal_encode]: the output before padding.
     while input_index < start_of_rem { 3 bytes -> 4 symbols }
     if rem == 2 {
       encode_table[input[s] >> 2]
       encode_table[(input[s] << 4 | input[s + 1] >> 4) & 0x3F]
       encode_table[(input[s + 1] << 2) & 0x3F]                 = b64_enc_v2 b1 0
     } else if rem == 1 {
       encode_table[input[s] >> 2]
       encode_table[(input[s] << 4) & 0x3F]                     = b64_enc_v1 b0 0
     } *)
Fixpoint b64_enc_unpadded (b : bytes) : bytes :=
  match b with
  | [] => []
  | [b0] => [ b64_sym (b64_enc_v0 b0); b64_sym (b64_enc_v1 b0 0) ]
  | [b0; b1] =>
      [ b64_sym (b64_enc_v0 b0); b64_sym (b64_enc_v1 b0 b1); b64_sym (b64_enc_v2 b1 0) ]
  | b0 :: b1 :: b2 :: r =>
      b64_sym (b64_enc_v0 b0) :: b64_sym (b64_enc_v1 b0 b1) ::
      b64_sym (b64_enc_v2 b1 b2) :: b64_sym (b64_enc_v3 b2) :: b64_enc_unpadded r
  end.

(* add_padding: let pad_bytes = (4 - (unpadded_output_len % 4)) % 4; *)
Definition b64_pad_bytes (unpadded_len : nat) : nat := ((4 - unpadded_len mod 4) mod 4)%nat.

(* encode_with_padding (encode_padding = true): internal_encode, then add_padding writes
   pad_bytes times b'=' after it.  (The buffer has exactly encoded_len(..) bytes, which is the sum
   of the two; see [b64_encode_length].) *)
Definition b64_encode (b : bytes) : bytes :=
  let u := b64_enc_unpadded b in
  u ++ repeat b64_pad_code (b64_pad_bytes (length u)).

(* ------------------------------------------------------------------------------------------ *)
(* Decoder                                                                                      *)

(* decode_table[c as usize] with INVALID_VALUE (255) rendered as None.  The Rust table is built
   by  decode_table = [INVALID_VALUE; 256]; for index in 0..64 { decode_table[symbols[index]] =
   index }  -- i.e. it is the inverse of [b64_sym]; written here by ranges so that it runs in
   constant time.  [b64_lookup_is_decode_table] in Base64Proofs.v proves it equal to the table
   built that way.  Values >= 256 are not u8s; they are treated as invalid. *)
Definition b64_lookup (c : N) : option N :=
  if (65 <=? c) && (c <=? 90) then Some (c - 65)            (* 'A'..'Z' ->  0..25 *)
  else if (97 <=? c) && (c <=? 122) then Some (c - 71)      (* 'a'..'z' -> 26..51 *)
  else if (48 <=? c) && (c <=? 57) then Some (c + 4)        (* '0'..'9' -> 52..61 *)
  else if c =? 43 then Some 62                              (* '+' *)
  else if c =? 47 then Some 63                              (* '/' *)
  else None.

(* The characters that can occur in a decodable text: the alphabet and '='. *)
Definition b64_char_ok (c : N) : bool :=
  ((65 <=? c) && (c <=? 90)) || ((97 <=? c) && (c <=? 122)) || ((48 <=? c) && (c <=? 57))
  || (c =? 43) || (c =? 47) || (c =? 61).

(* decode_chunk_4 / decode_suffix:
     (u32::from(m0) << 26) | (u32::from(m1) << 20) | (u32::from(m2) << 14) | (u32::from(m3) << 8)
   All morsels are table values < 64, so the fields are disjoint and nothing is shifted out. *)
Definition b64_accum (m0 m1 m2 m3 : N) : N :=
  m0 * 67108864 + m1 * 1048576 + m2 * 16384 + m3 * 256.

(* accum.to_be_bytes()[..3] of a u32; in decode_suffix the same bytes are produced one at a time
   by  hi_byte = (leftover_num >> 24) as u8; leftover_num <<= 8. *)
Definition b64_be3 (a : N) : bytes := [ a / 16777216; (a / 65536) mod 256; (a / 256) mod 256 ].

(* decode_chunk_4: four table look-ups (Err(InvalidByte) on INVALID_VALUE; '=' is invalid here),
   three output bytes.  decode_chunk_8 does the same for two quads at once in a u64
   (shifts 58, 52, .., 16; first 6 big-endian bytes) and is not modelled separately. *)
Definition b64_dec_quad (c0 c1 c2 c3 : N) : option bytes :=
  match b64_lookup c0, b64_lookup c1, b64_lookup c2, b64_lookup c3 with
  | Some m0, Some m1, Some m2, Some m3 => Some (b64_be3 (b64_accum m0 m1 m2 m3))
  | _, _, _, _ => None
  end.

(* The loop of decode_suffix over the last 0..4 input bytes.
     for (leftover_index, &b) in input[input_index..].iter().enumerate() {
       if b == PAD_BYTE {
         if leftover_index < 2 { return Err(InvalidByte) }
         padding_bytes_count += 1; continue;
       }
       if padding_bytes_count > 0 { return Err(InvalidByte) }
       let morsel = decode_table[b as usize];
       if morsel == INVALID_VALUE { return Err(InvalidByte) }
       morsels[morsels_in_leftover] = morsel; morsels_in_leftover += 1;
     }
   State: [idx] = leftover_index, [pad] = padding_bytes_count, [ms] = the morsels written so far
   (morsels_in_leftover = length ms; the array morsels = ms followed by zeros). *)
Fixpoint b64_suffix_loop (idx : nat) (s : bytes) (pad : nat) (ms : list N)
  : option (nat * list N) :=
  match s with
  | [] => Some (pad, ms)
  | b :: r =>
      if b =? b64_pad_code then
        if (idx <? 2)%nat then None
        else b64_suffix_loop (S idx) r (S pad) ms
      else if (0 <? pad)%nat then None
      else match b64_lookup b with
           | None => None
           | Some m => b64_suffix_loop (S idx) r pad (ms ++ [m])
           end
  end.

(* decode_suffix after the loop ([s] = input[input_index..]; it is empty exactly when the whole
   input is empty, because the caller always leaves 1..4 bytes of a non-empty input):
     if !input.is_empty() && morsels_in_leftover < 2 { return Err(InvalidLength) }
     RequireCanonical:
       if (padding_bytes_count + morsels_in_leftover) % 4 != 0 { return Err(InvalidPadding) }
     let leftover_bytes_to_append = morsels_in_leftover * 6 / 8;
     let mut leftover_num = (morsels[0] << 26) | (morsels[1] << 20) | (morsels[2] << 14)
                          | (morsels[3] << 8);
     let mask = !0_u32 >> (leftover_bytes_to_append * 8);
     if !decode_allow_trailing_bits && (leftover_num & mask) != 0 {
       return Err(InvalidLastSymbol) }
     for _ in 0..leftover_bytes_to_append { push (leftover_num >> 24) as u8; leftover_num <<= 8 }
   [leftover_num & (0xFFFFFFFF >> k)] is [leftover_num mod 2^(32 - k)]. *)
Definition b64_decode_suffix (s : bytes) : option bytes :=
  match b64_suffix_loop 0 s 0 [] with
  | None => None
  | Some (pad, ms) =>
      let n := length ms in
      if (match s with [] => false | _ => true end) && (n <? 2)%nat then None
      else if negb ((pad + n) mod 4 =? 0)%nat then None
      else
        let k := (n * 6 / 8)%nat in
        let num := b64_accum (nth 0 ms 0) (nth 1 ms 0) (nth 2 ms 0) (nth 3 ms 0) in
        if negb (num mod 2 ^ (32 - 8 * N.of_nat k) =? 0) then None
        else Some (firstn k (b64_be3 num))
  end.

(* decode_helper.  complete_quads_len leaves the last 1..4 bytes (a whole quad when the length is
   a multiple of 4, because it may contain padding) to decode_suffix; everything before is
   decoded quad by quad (by decode_chunk_8 while at least 32 such bytes remain, then by
   decode_chunk_4), any invalid byte giving Err.  A quad is non-terminal exactly when at least
   one more byte follows it.

   complete_quads_len also returns Err early when len % 4 == 1 and the last byte is neither '='
   nor in the table; in that case decode_suffix, which then receives exactly that one byte,
   returns Err as well (as does an invalid byte in an earlier quad), so with all errors
   identified the check is not modelled separately.  The output buffer of [Engine::decode] has
   (len / 4 + (len % 4 > 0)) * 3 bytes, so OutputSliceTooSmall cannot occur, and it is truncated
   to the number of bytes written. *)
Fixpoint b64_decode (t : bytes) : option bytes :=
  match t with
  | c0 :: c1 :: c2 :: c3 :: ((_ :: _) as r) =>
      match b64_dec_quad c0 c1 c2 c3 with
      | None => None
      | Some q => match b64_decode r with
                  | None => None
                  | Some o => Some (q ++ o)
                  end
      end
  | _ => b64_decode_suffix t
  end.

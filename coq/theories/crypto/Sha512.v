(* SHA-512, FIPS 180-4.  Executable model over [bytes]. *)
From KP Require Import Bytes LE LEFacts Words.
Local Open Scope N_scope.

(* FIPS 180-4 section 4.1.3: logical functions ([Ch], [Maj] are in Words.v). *)
Definition BSig0_512 (x : N) : N := N.lxor (N.lxor (rotr64 28 x) (rotr64 34 x)) (rotr64 39 x).
Definition BSig1_512 (x : N) : N := N.lxor (N.lxor (rotr64 14 x) (rotr64 18 x)) (rotr64 41 x).
Definition SSig0_512 (x : N) : N := N.lxor (N.lxor (rotr64 1 x) (rotr64 8 x)) (N.shiftr x 7).
Definition SSig1_512 (x : N) : N := N.lxor (N.lxor (rotr64 19 x) (rotr64 61 x)) (N.shiftr x 6).

(* Section 4.2.3: round constants. *)
Definition K512 : list N :=
  [ 0x428a2f98d728ae22; 0x7137449123ef65cd; 0xb5c0fbcfec4d3b2f; 0xe9b5dba58189dbbc;
    0x3956c25bf348b538; 0x59f111f1b605d019; 0x923f82a4af194f9b; 0xab1c5ed5da6d8118;
    0xd807aa98a3030242; 0x12835b0145706fbe; 0x243185be4ee4b28c; 0x550c7dc3d5ffb4e2;
    0x72be5d74f27b896f; 0x80deb1fe3b1696b1; 0x9bdc06a725c71235; 0xc19bf174cf692694;
    0xe49b69c19ef14ad2; 0xefbe4786384f25e3; 0x0fc19dc68b8cd5b5; 0x240ca1cc77ac9c65;
    0x2de92c6f592b0275; 0x4a7484aa6ea6e483; 0x5cb0a9dcbd41fbd4; 0x76f988da831153b5;
    0x983e5152ee66dfab; 0xa831c66d2db43210; 0xb00327c898fb213f; 0xbf597fc7beef0ee4;
    0xc6e00bf33da88fc2; 0xd5a79147930aa725; 0x06ca6351e003826f; 0x142929670a0e6e70;
    0x27b70a8546d22ffc; 0x2e1b21385c26c926; 0x4d2c6dfc5ac42aed; 0x53380d139d95b3df;
    0x650a73548baf63de; 0x766a0abb3c77b2a8; 0x81c2c92e47edaee6; 0x92722c851482353b;
    0xa2bfe8a14cf10364; 0xa81a664bbc423001; 0xc24b8b70d0f89791; 0xc76c51a30654be30;
    0xd192e819d6ef5218; 0xd69906245565a910; 0xf40e35855771202a; 0x106aa07032bbd1b8;
    0x19a4c116b8d2d0c8; 0x1e376c085141ab53; 0x2748774cdf8eeb99; 0x34b0bcb5e19b48a8;
    0x391c0cb3c5c95a63; 0x4ed8aa4ae3418acb; 0x5b9cca4f7763e373; 0x682e6ff3d6b2b8a3;
    0x748f82ee5defb2fc; 0x78a5636f43172f60; 0x84c87814a1f0ab72; 0x8cc702081a6439ec;
    0x90befffa23631e28; 0xa4506cebde82bde9; 0xbef9a3f7b2c67915; 0xc67178f2e372532b;
    0xca273eceea26619c; 0xd186b8c721c0c207; 0xeada7dd6cde0eb1e; 0xf57d4f7fee6ed178;
    0x06f067aa72176fba; 0x0a637dc5a2c898a6; 0x113f9804bef90dae; 0x1b710b35131c471b;
    0x28db77f523047d84; 0x32caab7b40c72493; 0x3c9ebe0a15c9bebc; 0x431d67c49c100d4c;
    0x4cc5d4becb3e42b6; 0x597f299cfc657e2a; 0x5fcb6fab3ad6faec; 0x6c44198c4a475817 ].

(* Working variables a..h / hash value H0..H7. *)
Definition state512 : Type := N * N * N * N * N * N * N * N.

(* Section 5.3.5: initial hash value. *)
Definition H512_init : state512 :=
  (0x6a09e667f3bcc908, 0xbb67ae8584caa73b, 0x3c6ef372fe94f82b, 0xa54ff53a5f1d36f1,
   0x510e527fade682d1, 0x9b05688c2b3e6c1f, 0x1f83d9abfb41bd6b, 0x5be0cd19137e2179).

(* Section 6.4.2 step 3, one iteration. *)
Definition round512 (k w : N) (s : state512) : state512 :=
  let '(a, b, c, d, e, f, g, h) := s in
  let T1 := add64 (add64 (add64 (add64 h (BSig1_512 e)) (Ch e f g)) k) w in
  let T2 := add64 (BSig0_512 a) (Maj a b c) in
  (add64 T1 T2, a, b, c, add64 d T1, e, f, g).

(* Section 6.4.2 step 1, as a sliding window: at round t the window [ws] holds W[t..t+15];
   the next window drops W[t] and appends
   W[t+16] = SSig1(W[t+14]) + W[t+9] + SSig0(W[t+1]) + W[t]. *)
Definition next_w512 (ws : list N) : N :=
  add64 (add64 (add64 (SSig1_512 (nth 14 ws 0)) (nth 9 ws 0)) (SSig0_512 (nth 1 ws 0))) (nth 0 ws 0).

Fixpoint rounds512 (ks : list N) (ws : list N) (s : state512) : state512 :=
  match ks with
  | [] => s
  | k :: ks' => rounds512 ks' (tl ws ++ [next_w512 ws]) (round512 k (nth 0 ws 0) s)
  end.

(* Section 6.4.2: process one 128-byte block. *)
Definition compress512 (s : state512) (block : bytes) : state512 :=
  let '(a, b, c, d, e, f, g, h) := s in
  let '(a', b', c', d', e', f', g', h') := rounds512 K512 (words_be 8 16 block) s in
  (add64 a a', add64 b b', add64 c c', add64 d d', add64 e e', add64 f f', add64 g g', add64 h h').

Definition sha512 (msg : bytes) : bytes :=
  let '(h0, h1, h2, h3, h4, h5, h6, h7) := md_run compress512 128 16 H512_init msg in
  ser_be 8 [h0; h1; h2; h3; h4; h5; h6; h7].

Lemma sha512_length m : length (sha512 m) = 64%nat.
Proof.
  unfold sha512. destruct (md_run compress512 128 16 H512_init m) as [[[[[[[h0 h1] h2] h3] h4] h5] h6] h7].
  apply ser_be_length.
Qed.

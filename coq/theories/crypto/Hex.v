(* Readable byte-string literals for test vectors: [hexs "00ff 10"] and [str "abc"]. *)
From Coq Require Import String Ascii.
From KP Require Import Bytes.
Local Open Scope N_scope.

(* Value of a hex digit character, or None for anything else. *)
Definition hex_digit (c : ascii) : option N :=
  let n := N_of_ascii c in
  if (48 <=? n) && (n <=? 57) then Some (n - 48)          (* '0'..'9' *)
  else if (65 <=? n) && (n <=? 70) then Some (n - 55)     (* 'A'..'F' *)
  else if (97 <=? n) && (n <=? 102) then Some (n - 87)    (* 'a'..'f' *)
  else None.

(* Parse pairs of hex digits into bytes; every non-hex character (spaces, newlines, ':')
   is skipped.  [hi] holds a pending high nibble. *)
Fixpoint hexs_aux (hi : option N) (s : string) : bytes :=
  match s with
  | EmptyString => []
  | String c r =>
      match hex_digit c, hi with
      | None, _ => hexs_aux hi r
      | Some d, None => hexs_aux (Some d) r
      | Some d, Some h => (16 * h + d) :: hexs_aux None r
      end
  end.

Definition hexs (s : string) : bytes := hexs_aux None s.

(* The bytes of an ASCII string. *)
Fixpoint str (s : string) : bytes :=
  match s with
  | EmptyString => []
  | String c r => N_of_ascii c :: str r
  end.

(* [n] copies of byte [b]. *)
Definition rep (n : nat) (b : N) : bytes := repeat b n.

Example hexs_ex : hexs "00 ff1A:7f" = [0; 255; 26; 127].
Proof. vm_compute. reflexivity. Qed.
Example str_ex : str "abc" = [97; 98; 99].
Proof. vm_compute. reflexivity. Qed.

(* HMAC, RFC 2104, generic in the hash function and its block size. *)
From KP Require Import Bytes LE LEFacts Words Sha1 Sha256 Sha512.
Local Open Scope N_scope.

(* RFC 2104 section 2, steps (1)-(7):
     K0   = key, or H(key) if the key is longer than the block size B, zero-padded to B bytes
     HMAC = H((K0 xor opad) || H((K0 xor ipad) || text)),  ipad = 0x36.., opad = 0x5c.. *)
Definition hmac_key_block (hash : bytes -> bytes) (block_size : nat) (key : bytes) : bytes :=
  let k := if Nat.ltb block_size (length key) then hash key else key in
  k ++ zeros (block_size - length k).

Definition hmac (hash : bytes -> bytes) (block_size : nat) (key msg : bytes) : bytes :=
  let k0 := hmac_key_block hash block_size key in
  let ipad := map (fun b => N.lxor b 0x36) k0 in
  let opad := map (fun b => N.lxor b 0x5c) k0 in
  hash (opad ++ hash (ipad ++ msg)).

Definition hmac_sha1 (key msg : bytes) : bytes := hmac sha1 64 key msg.
Definition hmac_sha256 (key msg : bytes) : bytes := hmac sha256 64 key msg.
Definition hmac_sha512 (key msg : bytes) : bytes := hmac sha512 128 key msg.

Lemma hmac_sha1_length k m : length (hmac_sha1 k m) = 20%nat.
Proof. apply sha1_length. Qed.
Lemma hmac_sha256_length k m : length (hmac_sha256 k m) = 32%nat.
Proof. apply sha256_length. Qed.
Lemma hmac_sha512_length k m : length (hmac_sha512 k m) = 64%nat.
Proof. apply sha512_length. Qed.

(* Salsa20/20 (Bernstein, "The Salsa20 family of stream ciphers" / Salsa20 specification),
   32-byte key, 8-byte nonce, 64-bit block counter. *)
From KP Require Import Bytes LE LEFacts Words.
Local Open Scope N_scope.

(* Salsa20 spec section 3: the quarterround function, (y0,y1,y2,y3) -> (z0,z1,z2,z3). *)
Definition salsa_qr (y0 y1 y2 y3 : N) : N * N * N * N :=
  let z1 := N.lxor y1 (rotl32 7 (add32 y0 y3)) in
  let z2 := N.lxor y2 (rotl32 9 (add32 z1 y0)) in
  let z3 := N.lxor y3 (rotl32 13 (add32 z2 z1)) in
  let z0 := N.lxor y0 (rotl32 18 (add32 z3 z2)) in
  (z0, z1, z2, z3).

(* Spec sections 4-6: doubleround = rowround after columnround. *)
Definition salsa_double_round (s : list N) : list N :=
  match s with
  | [x0; x1; x2; x3; x4; x5; x6; x7; x8; x9; x10; x11; x12; x13; x14; x15] =>
      (* columnround *)
      let '(x0,  x4,  x8,  x12) := salsa_qr x0  x4  x8  x12 in
      let '(x5,  x9,  x13, x1)  := salsa_qr x5  x9  x13 x1  in
      let '(x10, x14, x2,  x6)  := salsa_qr x10 x14 x2  x6  in
      let '(x15, x3,  x7,  x11) := salsa_qr x15 x3  x7  x11 in
      (* rowround *)
      let '(x0,  x1,  x2,  x3)  := salsa_qr x0  x1  x2  x3  in
      let '(x5,  x6,  x7,  x4)  := salsa_qr x5  x6  x7  x4  in
      let '(x10, x11, x8,  x9)  := salsa_qr x10 x11 x8  x9  in
      let '(x15, x12, x13, x14) := salsa_qr x15 x12 x13 x14 in
      [x0; x1; x2; x3; x4; x5; x6; x7; x8; x9; x10; x11; x12; x13; x14; x15]
  | _ => s
  end.

(* Spec section 9 (32-byte key): sigma0 | k[0..15] | sigma1 | nonce | counter | sigma2 | k[16..31] | sigma3,
   sigma = "expand 32-byte k"; all words little-endian; the counter is a 64-bit LE integer. *)
Definition salsa20_init (key nonce : bytes) (counter : N) : list N :=
  let k := words_le 4 8 key in
  let c := w64 counter in
  [0x61707865] ++ firstn 4 k ++ [0x3320646e] ++ words_le 4 2 nonce
    ++ [w32 c; N.shiftr c 32] ++ [0x79622d32] ++ skipn 4 k ++ [0x6b206574].

(* Spec section 8: Salsa20(x) = x + doubleround^10(x), serialised little-endian. *)
Definition salsa20_block (key nonce : bytes) (counter : N) : bytes :=
  let s0 := salsa20_init key nonce counter in
  ser_le 4 (map2 add32 s0 (iter 10 salsa_double_round s0)).

(* Spec section 10: encryption = XOR with the key stream of blocks 0, 1, 2, ... *)
Definition salsa20_xor (key nonce : bytes) (data : bytes) : bytes :=
  xor_stream (fun ctr => salsa20_block key nonce ctr) 0 [] data [].

(* ---- length facts ---- *)
Lemma salsa_double_round_length s :
  length s = 16%nat -> length (salsa_double_round s) = 16%nat.
Proof.
  intro H. do 16 (destruct s as [|? s]; [discriminate H|]). destruct s as [|? s]; [|discriminate H].
  unfold salsa_double_round.
  repeat match goal with
         | |- context [salsa_qr ?a ?b ?c ?d] => destruct (salsa_qr a b c d) as [[[? ?] ?] ?]
         end.
  reflexivity.
Qed.

Lemma salsa20_init_length key nonce counter : length (salsa20_init key nonce counter) = 16%nat.
Proof.
  unfold salsa20_init.
  rewrite !app_length, firstn_length, skipn_length, !words_le_length. reflexivity.
Qed.

Lemma salsa20_block_length key nonce counter : length (salsa20_block key nonce counter) = 64%nat.
Proof.
  unfold salsa20_block. rewrite ser_le_length, map2_length, salsa20_init_length.
  rewrite (iter_invariant (fun s => length s = 16%nat) _ salsa_double_round_length);
    [reflexivity | apply salsa20_init_length].
Qed.

Lemma salsa20_xor_length key nonce data : length (salsa20_xor key nonce data) = length data.
Proof. unfold salsa20_xor. rewrite xor_stream_length. reflexivity. Qed.

(* SHA-256, FIPS 180-4.  Executable model over [bytes]. *)
From KP Require Import Bytes LE LEFacts Words.
Local Open Scope N_scope.

(* FIPS 180-4 section 4.1.2: logical functions ([Ch], [Maj] are in Words.v). *)
Definition BSig0_256 (x : N) : N := N.lxor (N.lxor (rotr32 2 x) (rotr32 13 x)) (rotr32 22 x).
Definition BSig1_256 (x : N) : N := N.lxor (N.lxor (rotr32 6 x) (rotr32 11 x)) (rotr32 25 x).
Definition SSig0_256 (x : N) : N := N.lxor (N.lxor (rotr32 7 x) (rotr32 18 x)) (N.shiftr x 3).
Definition SSig1_256 (x : N) : N := N.lxor (N.lxor (rotr32 17 x) (rotr32 19 x)) (N.shiftr x 10).

(* Section 4.2.2: round constants. *)
Definition K256 : list N :=
  [ 0x428a2f98; 0x71374491; 0xb5c0fbcf; 0xe9b5dba5; 0x3956c25b; 0x59f111f1; 0x923f82a4; 0xab1c5ed5;
    0xd807aa98; 0x12835b01; 0x243185be; 0x550c7dc3; 0x72be5d74; 0x80deb1fe; 0x9bdc06a7; 0xc19bf174;
    0xe49b69c1; 0xefbe4786; 0x0fc19dc6; 0x240ca1cc; 0x2de92c6f; 0x4a7484aa; 0x5cb0a9dc; 0x76f988da;
    0x983e5152; 0xa831c66d; 0xb00327c8; 0xbf597fc7; 0xc6e00bf3; 0xd5a79147; 0x06ca6351; 0x14292967;
    0x27b70a85; 0x2e1b2138; 0x4d2c6dfc; 0x53380d13; 0x650a7354; 0x766a0abb; 0x81c2c92e; 0x92722c85;
    0xa2bfe8a1; 0xa81a664b; 0xc24b8b70; 0xc76c51a3; 0xd192e819; 0xd6990624; 0xf40e3585; 0x106aa070;
    0x19a4c116; 0x1e376c08; 0x2748774c; 0x34b0bcb5; 0x391c0cb3; 0x4ed8aa4a; 0x5b9cca4f; 0x682e6ff3;
    0x748f82ee; 0x78a5636f; 0x84c87814; 0x8cc70208; 0x90befffa; 0xa4506ceb; 0xbef9a3f7; 0xc67178f2 ].

(* Working variables a..h / hash value H0..H7. *)
Definition state256 : Type := N * N * N * N * N * N * N * N.

(* Section 5.3.3: initial hash value. *)
Definition H256_init : state256 :=
  (0x6a09e667, 0xbb67ae85, 0x3c6ef372, 0xa54ff53a, 0x510e527f, 0x9b05688c, 0x1f83d9ab, 0x5be0cd19).

(* Section 6.2.2 step 3, one iteration. *)
Definition round256 (k w : N) (s : state256) : state256 :=
  let '(a, b, c, d, e, f, g, h) := s in
  let T1 := add32 (add32 (add32 (add32 h (BSig1_256 e)) (Ch e f g)) k) w in
  let T2 := add32 (BSig0_256 a) (Maj a b c) in
  (add32 T1 T2, a, b, c, add32 d T1, e, f, g).

(* Section 6.2.2 step 1, as a sliding window: at round t the window [ws] holds W[t..t+15];
   the next window drops W[t] and appends
   W[t+16] = SSig1_256(W[t+14]) + W[t+9] + SSig0_256(W[t+1]) + W[t]. *)
Definition next_w256 (ws : list N) : N :=
  add32 (add32 (add32 (SSig1_256 (nth 14 ws 0)) (nth 9 ws 0)) (SSig0_256 (nth 1 ws 0))) (nth 0 ws 0).

Fixpoint rounds256 (ks : list N) (ws : list N) (s : state256) : state256 :=
  match ks with
  | [] => s
  | k :: ks' => rounds256 ks' (tl ws ++ [next_w256 ws]) (round256 k (nth 0 ws 0) s)
  end.

(* Section 6.2.2: process one 64-byte block. *)
Definition compress256 (s : state256) (block : bytes) : state256 :=
  let '(a, b, c, d, e, f, g, h) := s in
  let '(a', b', c', d', e', f', g', h') := rounds256 K256 (words_be 4 16 block) s in
  (add32 a a', add32 b b', add32 c c', add32 d d', add32 e e', add32 f f', add32 g g', add32 h h').

Definition sha256 (msg : bytes) : bytes :=
  let '(h0, h1, h2, h3, h4, h5, h6, h7) := md_run compress256 64 8 H256_init msg in
  ser_be 4 [h0; h1; h2; h3; h4; h5; h6; h7].

Lemma sha256_length m : length (sha256 m) = 32%nat.
Proof.
  unfold sha256. destruct (md_run compress256 64 8 H256_init m) as [[[[[[[h0 h1] h2] h3] h4] h5] h6] h7].
  apply ser_be_length.
Qed.

(* ChaCha20, RFC 8439 (32-byte key, 32-bit block counter, 12-byte nonce). *)
From KP Require Import Bytes LE LEFacts Words.
Local Open Scope N_scope.

(* RFC 8439 section 2.1: the quarter round. *)
Definition chacha_qr (a b c d : N) : N * N * N * N :=
  let a := add32 a b in let d := rotl32 16 (N.lxor d a) in
  let c := add32 c d in let b := rotl32 12 (N.lxor b c) in
  let a := add32 a b in let d := rotl32 8 (N.lxor d a) in
  let c := add32 c d in let b := rotl32 7 (N.lxor b c) in
  (a, b, c, d).

(* Section 2.3: one double round (four column rounds, then four diagonal rounds) on the
   16-word state.  A state of the wrong shape is returned unchanged (never happens: the state is
   always built by [chacha20_init]). *)
Definition chacha_double_round (s : list N) : list N :=
  match s with
  | [x0; x1; x2; x3; x4; x5; x6; x7; x8; x9; x10; x11; x12; x13; x14; x15] =>
      let '(x0, x4, x8,  x12) := chacha_qr x0 x4 x8  x12 in
      let '(x1, x5, x9,  x13) := chacha_qr x1 x5 x9  x13 in
      let '(x2, x6, x10, x14) := chacha_qr x2 x6 x10 x14 in
      let '(x3, x7, x11, x15) := chacha_qr x3 x7 x11 x15 in
      let '(x0, x5, x10, x15) := chacha_qr x0 x5 x10 x15 in
      let '(x1, x6, x11, x12) := chacha_qr x1 x6 x11 x12 in
      let '(x2, x7, x8,  x13) := chacha_qr x2 x7 x8  x13 in
      let '(x3, x4, x9,  x14) := chacha_qr x3 x4 x9  x14 in
      [x0; x1; x2; x3; x4; x5; x6; x7; x8; x9; x10; x11; x12; x13; x14; x15]
  | _ => s
  end.

(* Section 2.3: initial state = constants "expand 32-byte k" | key (8 LE words) |
   counter | nonce (3 LE words). *)
Definition chacha20_init (key : bytes) (counter : N) (nonce : bytes) : list N :=
  [0x61707865; 0x3320646e; 0x79622d32; 0x6b206574]
    ++ words_le 4 8 key ++ [w32 counter] ++ words_le 4 3 nonce.

(* Section 2.3: the block function: 20 rounds, add the input state, serialise little-endian. *)
Definition chacha20_block (key : bytes) (counter : N) (nonce : bytes) : bytes :=
  let s0 := chacha20_init key counter nonce in
  ser_le 4 (map2 add32 s0 (iter 10 chacha_double_round s0)).

(* Section 2.4: encryption = XOR with the key stream of blocks counter0, counter0+1, ...
   (the counter is reduced mod 2^32 inside [chacha20_block]). *)
Definition chacha20_xor (key nonce : bytes) (counter0 : N) (data : bytes) : bytes :=
  xor_stream (fun ctr => chacha20_block key ctr nonce) counter0 [] data [].

(* ---- length facts ---- *)
Lemma chacha_double_round_length s :
  length s = 16%nat -> length (chacha_double_round s) = 16%nat.
Proof.
  intro H. do 16 (destruct s as [|? s]; [discriminate H|]). destruct s as [|? s]; [|discriminate H].
  unfold chacha_double_round.
  repeat match goal with
         | |- context [chacha_qr ?a ?b ?c ?d] => destruct (chacha_qr a b c d) as [[[? ?] ?] ?]
         end.
  reflexivity.
Qed.

Lemma chacha20_init_length key counter nonce : length (chacha20_init key counter nonce) = 16%nat.
Proof. unfold chacha20_init. rewrite !app_length, !words_le_length. reflexivity. Qed.

Lemma chacha20_block_length key counter nonce : length (chacha20_block key counter nonce) = 64%nat.
Proof.
  unfold chacha20_block. rewrite ser_le_length, map2_length, chacha20_init_length.
  rewrite (iter_invariant (fun s => length s = 16%nat) _ chacha_double_round_length);
    [reflexivity | apply chacha20_init_length].
Qed.

Lemma chacha20_xor_length key nonce counter0 data :
  length (chacha20_xor key nonce counter0 data) = length data.
Proof. unfold chacha20_xor. rewrite xor_stream_length. reflexivity. Qed.

(* Published test vectors for the crypto primitives; every Example closes by computation.
   Expected values are the ones printed in FIPS 180-4 / NIST CSRC examples, RFC 2202, RFC 4231,
   RFC 8439, the Salsa20 specification and the ECRYPT eSTREAM verified test vectors; they were
   additionally cross-checked against python3 hashlib/hmac and independent Python
   implementations of ChaCha20 and Salsa20. *)
From Coq Require Import String.
From KP Require Import Bytes LE Words Hex Sha1 Sha256 Sha512 Hmac ChaCha20 Salsa20.
Local Open Scope string_scope.
Local Open Scope N_scope.

(* ---- SHA-1 / SHA-256 / SHA-512: FIPS 180-4 example messages ---- *)

Example sha1_empty :
  sha1 (str "")
  = hexs "da39a3ee5e6b4b0d3255bfef95601890afd80709".
Proof. vm_compute. reflexivity. Qed.

Example sha1_abc :
  sha1 (str "abc")
  = hexs "a9993e364706816aba3e25717850c26c9cd0d89d".
Proof. vm_compute. reflexivity. Qed.

Example sha1_two_block :
  sha1 (str "abcdbcdecdefdefgefghfghighijhijkijkljklmklmnlmnomnopnopq")
  = hexs "84983e441c3bd26ebaae4aa1f95129e5e54670f1".
Proof. vm_compute. reflexivity. Qed.

Example sha256_empty :
  sha256 (str "")
  = hexs "e3b0c44298fc1c149afbf4c8996fb92427ae41e4649b934ca495991b7852b855".
Proof. vm_compute. reflexivity. Qed.

Example sha256_abc :
  sha256 (str "abc")
  = hexs "ba7816bf8f01cfea414140de5dae2223b00361a396177a9cb410ff61f20015ad".
Proof. vm_compute. reflexivity. Qed.

Example sha256_two_block :
  sha256 (str "abcdbcdecdefdefgefghfghighijhijkijkljklmklmnlmnomnopnopq")
  = hexs "248d6a61d20638b8e5c026930c3e6039a33ce45964ff2167f6ecedd419db06c1".
Proof. vm_compute. reflexivity. Qed.

Example sha512_empty :
  sha512 (str "")
  = hexs "cf83e1357eefb8bdf1542850d66d8007d620e4050b5715dc83f4a921d36ce9ce
          47d0d13c5d85f2b0ff8318d2877eec2f63b931bd47417a81a538327af927da3e".
Proof. vm_compute. reflexivity. Qed.

Example sha512_abc :
  sha512 (str "abc")
  = hexs "ddaf35a193617abacc417349ae20413112e6fa4e89a97ea20a9eeee64b55d39a
          2192992a274fc1a836ba3c23a3feebbd454d4423643ce80e2a9ac94fa54ca49f".
Proof. vm_compute. reflexivity. Qed.

Example sha512_two_block :
  sha512 (str "abcdefghbcdefghicdefghijdefghijkefghijklfghijklmghijklmnhijklmnoijklmnopjklmnopqklmnopqrlmnopqrsmnopqrstnopqrstu")
  = hexs "8e959b75dae313da8cf4f72814fc143f8f7779c6eb9f7fa17299aeadb6889018
          501d289e4900f7e4331b99dec4b5433ac7d329eeb6dd26545e96e55b874be909".
Proof. vm_compute. reflexivity. Qed.

(* Padding boundary cases (message lengths around the block size); expected values from
   python3 hashlib, not from a published document. *)

Example sha1_a55 :
  sha1 (rep 55 0x61)
  = hexs "c1c8bbdc22796e28c0e15163d20899b65621d65a".
Proof. vm_compute. reflexivity. Qed.

Example sha1_a64 :
  sha1 (rep 64 0x61)
  = hexs "0098ba824b5c16427bd7a1122a5a442a25ec644d".
Proof. vm_compute. reflexivity. Qed.

Example sha1_a119 :
  sha1 (rep 119 0x61)
  = hexs "ee971065aaa017e0632a8ca6c77bb3bf8b1dfc56".
Proof. vm_compute. reflexivity. Qed.

Example sha256_a55 :
  sha256 (rep 55 0x61)
  = hexs "9f4390f8d30c2dd92ec9f095b65e2b9ae9b0a925a5258e241c9f1e910f734318".
Proof. vm_compute. reflexivity. Qed.

Example sha256_a64 :
  sha256 (rep 64 0x61)
  = hexs "ffe054fe7ae0cb6dc65c3af9b61d5209f439851db43d0ba5997337df154668eb".
Proof. vm_compute. reflexivity. Qed.

Example sha256_a119 :
  sha256 (rep 119 0x61)
  = hexs "31eba51c313a5c08226adf18d4a359cfdfd8d2e816b13f4af952f7ea6584dcfb".
Proof. vm_compute. reflexivity. Qed.

Example sha512_a111 :
  sha512 (rep 111 0x61)
  = hexs "fa9121c7b32b9e01733d034cfc78cbf67f926c7ed83e82200ef8681819692176
          0b4beff48404df811b953828274461673c68d04e297b0eb7b2b4d60fc6b566a2".
Proof. vm_compute. reflexivity. Qed.

Example sha512_a128 :
  sha512 (rep 128 0x61)
  = hexs "b73d1929aa615934e61a871596b3f3b33359f42b8175602e89f7e06e5f658a24
          3667807ed300314b95cacdd579f3e33abdfbe351909519a846d465c59582f321".
Proof. vm_compute. reflexivity. Qed.

Example sha512_a239 :
  sha512 (rep 239 0x61)
  = hexs "52c853cb8d907f3d4d6b889beb027985d7c273486d75f8baf26f80d24e90c74c
          6c3de3e22131582380a7d14d43f2941a31385439cd6ddc469f628015e50bf286".
Proof. vm_compute. reflexivity. Qed.

(* ---- HMAC-SHA-1: RFC 2202 section 3, test cases 1, 2, 6 (80-byte key > 64-byte block) ---- *)

Example hmac_sha1_rfc2202_tc1 :
  hmac_sha1 (rep 20 0x0b) (str "Hi There")
  = hexs "b617318655057264e28bc0b6fb378c8ef146be00".
Proof. vm_compute. reflexivity. Qed.

Example hmac_sha1_rfc2202_tc2 :
  hmac_sha1 (str "Jefe") (str "what do ya want for nothing?")
  = hexs "effcdf6ae5eb2fa2d27416d5f184df9c259a7c79".
Proof. vm_compute. reflexivity. Qed.

Example hmac_sha1_rfc2202_tc6 :
  hmac_sha1 (rep 80 0xaa) (str "Test Using Larger Than Block-Size Key - Hash Key First")
  = hexs "aa4ae5e15272d00e95705637ce8a3b55ed402112".
Proof. vm_compute. reflexivity. Qed.

(* ---- HMAC-SHA-256 / HMAC-SHA-512: RFC 4231 test cases 1, 2, 6 (131-byte key > block) ---- *)

Example hmac_sha256_rfc4231_tc1 :
  hmac_sha256 (rep 20 0x0b) (str "Hi There")
  = hexs "b0344c61d8db38535ca8afceaf0bf12b881dc200c9833da726e9376c2e32cff7".
Proof. vm_compute. reflexivity. Qed.

Example hmac_sha256_rfc4231_tc2 :
  hmac_sha256 (str "Jefe") (str "what do ya want for nothing?")
  = hexs "5bdcc146bf60754e6a042426089575c75a003f089d2739839dec58b964ec3843".
Proof. vm_compute. reflexivity. Qed.

Example hmac_sha256_rfc4231_tc6 :
  hmac_sha256 (rep 131 0xaa) (str "Test Using Larger Than Block-Size Key - Hash Key First")
  = hexs "60e431591ee0b67f0d8a26aacbf5b77f8e0bc6213728c5140546040f0ee37f54".
Proof. vm_compute. reflexivity. Qed.

Example hmac_sha512_rfc4231_tc1 :
  hmac_sha512 (rep 20 0x0b) (str "Hi There")
  = hexs "87aa7cdea5ef619d4ff0b4241a1d6cb02379f4e2ce4ec2787ad0b30545e17cde
          daa833b7d6b8a702038b274eaea3f4e4be9d914eeb61f1702e696c203a126854".
Proof. vm_compute. reflexivity. Qed.

Example hmac_sha512_rfc4231_tc2 :
  hmac_sha512 (str "Jefe") (str "what do ya want for nothing?")
  = hexs "164b7a7bfcf819e2e395fbe73b56e0a387bd64222e831fd610270cd7ea250554
          9758bf75c05a994a6d034f65f8f0e6fdcaeab1a34d4a6b4b636e070a38bce737".
Proof. vm_compute. reflexivity. Qed.

Example hmac_sha512_rfc4231_tc6 :
  hmac_sha512 (rep 131 0xaa) (str "Test Using Larger Than Block-Size Key - Hash Key First")
  = hexs "80b24263c7c1a3ebb71493c1dd7be8b49b46d1f41b4aeec1121b013783f8f352
          6b56d037e05f2598bd0fd2215d6a1e5295e64f73f63f0aec8b915a985d786598".
Proof. vm_compute. reflexivity. Qed.

(* ---- ChaCha20: RFC 8439 ---- *)

Definition rfc8439_key : bytes :=
  hexs "000102030405060708090a0b0c0d0e0f101112131415161718191a1b1c1d1e1f".

(* Section 2.3.2: block function test vector *)
Example chacha20_block_rfc8439_2_3_2 :
  chacha20_block rfc8439_key 1 (hexs "000000090000004a00000000")
  = hexs "10f1e7e4d13b5915500fdd1fa32071c4c7d1f4c733c068030422aa9ac3d46c4e
          d2826446079faa0914c2d705d98b02a2b5129cd1de164eb9cbd083e8a2503c4e".
Proof. vm_compute. reflexivity. Qed.

Definition sunscreen : bytes :=
  str "Ladies and Gentlemen of the class of '99: If I could offer you only one tip for the future, sunscreen would be it.".

(* Section 2.4.2: encryption test vector, full 114-byte ciphertext *)
Example chacha20_xor_rfc8439_2_4_2 :
  chacha20_xor rfc8439_key (hexs "000000000000004a00000000") 1 sunscreen
  = hexs "6e2e359a2568f98041ba0728dd0d6981e97e7aec1d4360c20a27afccfd9fae0b
          f91b65c5524733ab8f593dabcd62b3571639d624e65152ab8f530c359f0861d8
          07ca0dbf500d6a6156a38e088a22b65e52bc514d16ccf806818ce91ab7793736
          5af90bbf74a35be6b40b8eedf2785e42874d".
Proof. vm_compute. reflexivity. Qed.

(* Decryption is the same operation. *)
Example chacha20_xor_rfc8439_2_4_2_inv :
  chacha20_xor rfc8439_key (hexs "000000000000004a00000000") 1
    (chacha20_xor rfc8439_key (hexs "000000000000004a00000000") 1 sunscreen) = sunscreen.
Proof. vm_compute. reflexivity. Qed.

(* Appendix A.1 test vector #1: all-zero key and nonce, counter 0 *)
Example chacha20_block_rfc8439_A1_1 :
  chacha20_block (rep 32 0) 0 (rep 12 0)
  = hexs "76b8e0ada0f13d90405d6ae55386bd28bdd219b8a08ded1aa836efcc8b770dc7
          da41597c5157488d7724e03fb8d84a376a43b8f41518a11cc387b669b2ee6586".
Proof. vm_compute. reflexivity. Qed.

(* The block counter is a 32-bit word: it wraps. *)
Example chacha20_block_counter_wraps :
  chacha20_block rfc8439_key (2 ^ 32 + 1) (hexs "000000090000004a00000000") = chacha20_block rfc8439_key 1 (hexs "000000090000004a00000000").
Proof. vm_compute. reflexivity. Qed.

(* ---- Salsa20/20 ---- *)

(* Salsa20 specification, section 9 example: k0 = (1..16), k1 = (201..216),
   n = (101..116) i.e. nonce (101..108) and block counter = LE (109..116). *)
Example salsa20_block_spec_sec9 :
  salsa20_block (hexs "0102030405060708090a0b0c0d0e0f10
                       c9cacbcccdcecfd0d1d2d3d4d5d6d7d8")
                (hexs "65666768696a6b6c") (le_dec (hexs "6d6e6f7071727374"))
  = [69; 37; 68; 39; 41; 15; 107; 193; 255; 139; 122; 6; 170; 233; 217; 98;
     89; 144; 182; 106; 21; 51; 200; 65; 239; 49; 222; 34; 215; 114; 40; 126;
     104; 197; 7; 225; 197; 153; 31; 2; 102; 78; 76; 176; 84; 245; 246; 184;
     177; 160; 133; 130; 6; 72; 149; 119; 192; 195; 132; 236; 234; 103; 246; 74].
Proof. vm_compute. reflexivity. Qed.

(* ECRYPT eSTREAM verified test vectors, Salsa20/20, 256-bit key, "Set 1, vector# 0":
   key = 80 00..00, IV = 0.  stream[0..63], [192..255], [256..319], [448..511].
   (The value 4DFA5E48...D1DBB0AA sometimes quoted for this vector number belongs to the
   128-bit-key variant, "expand 16-byte k", which is not modelled here.) *)
Definition ecrypt_key : bytes := 0x80 :: rep 31 0.

Example salsa20_block_ecrypt_set1_v0 :
  salsa20_block ecrypt_key (rep 8 0) 0
  = hexs "e3be8fdd8beca2e3ea8ef9475b29a6e7003951e1097a5c38d23b7a5fad9f6844
          b22c97559e2723c7cbbd3fe4fc8d9a0744652a83e72a9c461876af4d7ef1a117".
Proof. vm_compute. reflexivity. Qed.

Example salsa20_xor_ecrypt_set1_v0_0 :
  take 64 (salsa20_xor ecrypt_key (rep 8 0) (rep 512 0))
  = hexs "e3be8fdd8beca2e3ea8ef9475b29a6e7003951e1097a5c38d23b7a5fad9f6844
          b22c97559e2723c7cbbd3fe4fc8d9a0744652a83e72a9c461876af4d7ef1a117".
Proof. vm_compute. reflexivity. Qed.

Example salsa20_xor_ecrypt_set1_v0_192 :
  take 64 (drop 192 (salsa20_xor ecrypt_key (rep 8 0) (rep 512 0)))
  = hexs "57be81f47b17d9ae7c4ff15429a73e10acf250ed3a90a93c711308a74c6216a9
          ed84cd126da7f28e8abf8bb63517e1ca98e712f4fb2e1a6aed9fdc73291faa17".
Proof. vm_compute. reflexivity. Qed.

Example salsa20_xor_ecrypt_set1_v0_256 :
  take 64 (drop 256 (salsa20_xor ecrypt_key (rep 8 0) (rep 512 0)))
  = hexs "958211c4ba2ebd5838c635edb81f513a91a294e194f1c039aeec657dce40aa7e
          7c0af57cacefa40c9f14b71a4b3456a63e162ec7d8d10b8ffb1810d71001b618".
Proof. vm_compute. reflexivity. Qed.

Example salsa20_xor_ecrypt_set1_v0_448 :
  take 64 (drop 448 (salsa20_xor ecrypt_key (rep 8 0) (rep 512 0)))
  = hexs "696afcfd0cddcc83c7e77f11a649d79acdc3354e9635ff137e929933a0bd6f53
          77efa105a3a4266b7c0d089d08f1e855cc32b15b93784a36e56a76cc64bc8477".
Proof. vm_compute. reflexivity. Qed.

(* A 100-byte message (not a multiple of the block size), non-zero nonce; expected value from
   the independent Python implementation, not from a published document. *)
Example salsa20_xor_partial :
  salsa20_xor rfc8439_key (hexs "0102030405060708") (hexs "000102030405060708090a0b0c0d0e0f101112131415161718191a1b1c1d1e1f
      202122232425262728292a2b2c2d2e2f303132333435363738393a3b3c3d3e3f
      404142434445464748494a4b4c4d4e4f505152535455565758595a5b5c5d5e5f
      60616263")
  = hexs "2d8724a58a211a957c94cde4ab4660eba87e254db1ebe36b15654758000ac223
          fca64a6fd638c614446d20637ab4287e3c0416da952541f94dfb091af277c2e3
          49ebf6809474003dfa0fef3867831563183311140c4c303ca1ffc2a25161e814
          2b294c3d".
Proof. vm_compute. reflexivity. Qed.

(* Block counter above 2^32 (exercises the high counter word); expected value from the
   independent Python implementation. *)
Example salsa20_block_high_counter :
  salsa20_block rfc8439_key (hexs "0102030405060708") (2 ^ 32 + 5)
  = hexs "2608e3bc0546b60b8d42ea8515f7ce5ee0e96bf8dc1a3ac894a8f80b159ed1c3
          eb69add772f88462da4a11591573b27e0f1cdd99c414db38483a73fbf0bd8c6f".
Proof. vm_compute. reflexivity. Qed.

(* ---- closedness ---- *)
Print Assumptions sha1_abc.
Print Assumptions sha256_abc.
Print Assumptions sha512_abc.
Print Assumptions hmac_sha1_rfc2202_tc6.
Print Assumptions hmac_sha256_rfc4231_tc6.
Print Assumptions hmac_sha512_rfc4231_tc6.
Print Assumptions chacha20_block_rfc8439_2_3_2.
Print Assumptions chacha20_xor_rfc8439_2_4_2.
Print Assumptions salsa20_block_ecrypt_set1_v0.
Print Assumptions salsa20_xor_ecrypt_set1_v0_448.
Print Assumptions sha1_length.
Print Assumptions sha256_length.
Print Assumptions sha512_length.

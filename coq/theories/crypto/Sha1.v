(* SHA-1, FIPS 180-4.  Executable model over [bytes]. *)
From KP Require Import Bytes LE LEFacts Words.
Local Open Scope N_scope.

(* Working variables a..e / hash value H0..H4. *)
Definition state1 : Type := N * N * N * N * N.

(* Section 5.3.1: initial hash value. *)
Definition H1_init : state1 := (0x67452301, 0xefcdab89, 0x98badcfe, 0x10325476, 0xc3d2e1f0).

(* Section 6.1.2 step 3, one iteration, parameterised by the stage's f_t (section 4.1.1)
   and K_t (section 4.2.1). *)
Definition round1 (f : N -> N -> N -> N) (k w : N) (s : state1) : state1 :=
  let '(a, b, c, d, e) := s in
  let T := add32 (add32 (add32 (add32 (rotl32 5 a) (f b c d)) e) k) w in
  (T, a, rotl32 30 b, c, d).

(* Section 6.1.2 step 1, as a sliding window: at round t the window [ws] holds W[t..t+15];
   the next window drops W[t] and appends
   W[t+16] = ROTL1(W[t+13] xor W[t+8] xor W[t+2] xor W[t]). *)
Definition next_w1 (ws : list N) : N :=
  rotl32 1 (N.lxor (N.lxor (N.lxor (nth 13 ws 0) (nth 8 ws 0)) (nth 2 ws 0)) (nth 0 ws 0)).

(* [n] consecutive rounds sharing the same f and K; returns the advanced window too. *)
Fixpoint rounds1 (n : nat) (f : N -> N -> N -> N) (k : N) (ws : list N) (s : state1)
  : list N * state1 :=
  match n with
  | O => (ws, s)
  | S n' => rounds1 n' f k (tl ws ++ [next_w1 ws]) (round1 f k (nth 0 ws 0) s)
  end.

(* Section 6.1.2: process one 64-byte block; four stages of 20 rounds. *)
Definition compress1 (s : state1) (block : bytes) : state1 :=
  let '(a, b, c, d, e) := s in
  let '(ws1, s1) := rounds1 20 Ch     0x5a827999 (words_be 4 16 block) s in
  let '(ws2, s2) := rounds1 20 Parity 0x6ed9eba1 ws1 s1 in
  let '(ws3, s3) := rounds1 20 Maj    0x8f1bbcdc ws2 s2 in
  let '(_,   s4) := rounds1 20 Parity 0xca62c1d6 ws3 s3 in
  let '(a', b', c', d', e') := s4 in
  (add32 a a', add32 b b', add32 c c', add32 d d', add32 e e').

Definition sha1 (msg : bytes) : bytes :=
  let '(h0, h1, h2, h3, h4) := md_run compress1 64 8 H1_init msg in
  ser_be 4 [h0; h1; h2; h3; h4].

Lemma sha1_length m : length (sha1 m) = 20%nat.
Proof.
  unfold sha1. destruct (md_run compress1 64 8 H1_init m) as [[[[h0 h1] h2] h3] h4].
  apply ser_be_length.
Qed.

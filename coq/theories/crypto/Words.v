(* Fixed-width word arithmetic on [N] and block-walking helpers shared by the hash and
   stream-cipher models.  Words are plain [N] values kept below 2^32 / 2^64 by explicit
   truncation ([w32] / [w64]); truncation is written with [N.land] against an all-ones mask
   (fast under vm_compute and in extracted code) and proved equal to [mod 2^32] / [mod 2^64]. *)
From KP Require Import Bytes LE LEFacts.
Local Open Scope N_scope.

(* ---- 32-bit words ---- *)
Definition mask32 : N := 0xFFFFFFFF.
Definition w32 (x : N) : N := N.land x mask32.
Definition add32 (a b : N) : N := w32 (a + b).
(* Rotations assume the argument is already < 2^32 and 0 < n < 32. *)
Definition rotl32 (n x : N) : N := w32 (N.lor (N.shiftl x n) (N.shiftr x (32 - n))).
Definition rotr32 (n x : N) : N := w32 (N.lor (N.shiftr x n) (N.shiftl x (32 - n))).

(* ---- 64-bit words ---- *)
Definition mask64 : N := 0xFFFFFFFFFFFFFFFF.
Definition w64 (x : N) : N := N.land x mask64.
Definition add64 (a b : N) : N := w64 (a + b).
Definition rotr64 (n x : N) : N := w64 (N.lor (N.shiftr x n) (N.shiftl x (64 - n))).

Lemma w32_mod x : w32 x = x mod 2 ^ 32.
Proof. unfold w32. change mask32 with (N.ones 32). apply N.land_ones. Qed.

Lemma w64_mod x : w64 x = x mod 2 ^ 64.
Proof. unfold w64. change mask64 with (N.ones 64). apply N.land_ones. Qed.

Lemma add32_mod a b : add32 a b = (a + b) mod 2 ^ 32.
Proof. apply w32_mod. Qed.

Lemma add64_mod a b : add64 a b = (a + b) mod 2 ^ 64.
Proof. apply w64_mod. Qed.

(* FIPS 180-4 sections 4.1.1-4.1.3: Ch, Parity, Maj (width independent).
   [N.ldiff z x] is (NOT x) AND z. *)
Definition Ch (x y z : N) : N := N.lxor (N.land x y) (N.ldiff z x).
Definition Parity (x y z : N) : N := N.lxor (N.lxor x y) z.
Definition Maj (x y z : N) : N := N.lxor (N.lxor (N.land x y) (N.land x z)) (N.land y z).

(* ---- bytes <-> words ---- *)

(* Split the first [n * wsz] bytes of [l] into [n] words of [wsz] bytes each. *)
Fixpoint words_be (wsz n : nat) (l : bytes) : list N :=
  match n with
  | O => []
  | S k => be_dec (take wsz l) :: words_be wsz k (drop wsz l)
  end.

Fixpoint words_le (wsz n : nat) (l : bytes) : list N :=
  match n with
  | O => []
  | S k => le_dec (take wsz l) :: words_le wsz k (drop wsz l)
  end.

Definition ser_be (wsz : nat) (ws : list N) : bytes := concat (map (be_enc wsz) ws).
Definition ser_le (wsz : nat) (ws : list N) : bytes := concat (map (le_enc wsz) ws).

Lemma be_enc_length n v : length (be_enc n v) = n.
Proof. unfold be_enc. rewrite rev_length. apply le_enc_length. Qed.

Lemma ser_be_length wsz ws : length (ser_be wsz ws) = (length ws * wsz)%nat.
Proof.
  unfold ser_be. induction ws as [|w r IH]; [reflexivity|].
  cbn [map concat length]. rewrite app_length, be_enc_length, IH. reflexivity.
Qed.

Lemma ser_le_length wsz ws : length (ser_le wsz ws) = (length ws * wsz)%nat.
Proof.
  unfold ser_le. induction ws as [|w r IH]; [reflexivity|].
  cbn [map concat length]. rewrite app_length, le_enc_length, IH. reflexivity.
Qed.

(* Length of a byte string as an [N] (tail recursive; avoids a large unary [nat]). *)
Fixpoint lenN_acc (acc : N) (l : bytes) : N :=
  match l with
  | [] => acc
  | _ :: r => lenN_acc (acc + 1) r
  end.
Definition lenN (l : bytes) : N := lenN_acc 0 l.

(* ---- Merkle-Damgard block absorption ----
   [absorb compress bs (st, buf, n) l] walks [l] byte by byte.  [buf] is the current partial
   block in reverse order and [n] is the number of bytes still missing from it, minus one.
   Each time a block of [S bs] bytes is complete it is fed to [compress].  Structural on [l],
   tail recursive, so it can be called once on the message and again on the padding without
   ever building [msg ++ padding]. *)
Fixpoint absorb {S : Type} (compress : S -> bytes -> S) (bs : nat)
         (st : S) (buf : bytes) (n : nat) (l : bytes) : S * bytes * nat :=
  match l with
  | [] => (st, buf, n)
  | b :: r =>
      match n with
      | O => absorb compress bs (compress st (rev' (b :: buf))) [] bs r
      | S n' => absorb compress bs st (b :: buf) n' r
      end
  end.

(* FIPS 180-4 section 5.1: 0x80, then k zero bytes, then the bit length big-endian in
   [lenbytes] bytes, with k minimal such that the total is a multiple of [bs] bytes.
   [bs] is 64 (lenbytes 8) or 128 (lenbytes 16). *)
Definition md_padding (bs : N) (lenbytes : nat) (len : N) : bytes :=
  let used := (len + 1 + N.of_nat lenbytes) mod bs in
  let k := (bs - used) mod bs in
  128 :: zeros (N.to_nat k) ++ be_enc lenbytes (8 * len).

(* Generic hash driver: absorb the message, then the padding, and return the final state. *)
Definition md_run {S : Type} (compress : S -> bytes -> S) (bs lenbytes : nat)
           (init : S) (msg : bytes) : S :=
  let '(st, buf, n) := absorb compress (bs - 1) init [] (bs - 1) msg in
  let '(st', _, _) :=
    absorb compress (bs - 1) st buf n (md_padding (N.of_nat bs) lenbytes (lenN msg)) in
  st'.

(* ---- stream-cipher XOR ----
   [xor_stream gen ctr ks data acc]: XOR [data] with the keystream [ks ++ gen ctr ++ gen (ctr+1) ++ ...];
   result accumulated in reverse in [acc].  Structural on [data], tail recursive. *)
Fixpoint xor_stream (gen : N -> bytes) (ctr : N) (ks : bytes) (data : bytes) (acc : bytes) : bytes :=
  match data with
  | [] => rev' acc
  | b :: r =>
      match ks with
      | k :: ks' => xor_stream gen ctr ks' r (N.lxor b k :: acc)
      | [] =>
          match gen ctr with
          | k :: ks' => xor_stream gen (ctr + 1) ks' r (N.lxor b k :: acc)
          | [] => xor_stream gen (ctr + 1) [] r (b :: acc)  (* unreachable: blocks are 64 bytes *)
          end
      end
  end.

Lemma xor_stream_length gen ctr ks data acc :
  length (xor_stream gen ctr ks data acc) = (length acc + length data)%nat.
Proof.
  revert ctr ks acc. induction data as [|b r IH]; intros ctr ks acc; cbn [xor_stream].
  - unfold rev'. rewrite rev_append_rev, app_length, rev_length. cbn [length]. lia.
  - destruct ks as [|k ks']; [destruct (gen ctr) as [|k ks']|]; rewrite IH; cbn [length]; lia.
Qed.

(* ---- small generic combinators ---- *)
Fixpoint iter {A : Type} (n : nat) (f : A -> A) (x : A) : A :=
  match n with
  | O => x
  | S k => iter k f (f x)
  end.

Fixpoint map2 (f : N -> N -> N) (a b : list N) : list N :=
  match a, b with
  | x :: a', y :: b' => f x y :: map2 f a' b'
  | _, _ => []
  end.

Lemma words_le_length wsz n l : length (words_le wsz n l) = n.
Proof. revert l. induction n as [|k IH]; intro l; cbn [words_le length]; [reflexivity|]. rewrite IH. reflexivity. Qed.

Lemma words_be_length wsz n l : length (words_be wsz n l) = n.
Proof. revert l. induction n as [|k IH]; intro l; cbn [words_be length]; [reflexivity|]. rewrite IH. reflexivity. Qed.

Lemma map2_length f a b : length (map2 f a b) = Nat.min (length a) (length b).
Proof.
  revert b. induction a as [|x a IH]; intro b; [reflexivity|].
  destruct b as [|y b]; [reflexivity|]. cbn [map2 length]. rewrite IH. reflexivity.
Qed.

Lemma iter_invariant {A : Type} (P : A -> Prop) (f : A -> A) :
  (forall x, P x -> P (f x)) -> forall n x, P x -> P (iter n f x).
Proof. intros Hf n. induction n as [|k IH]; intros x Hx; cbn [iter]; [exact Hx|]. apply IH, Hf, Hx. Qed.

(* KDBX4 container framing: the reader inverts the writer.
   Layer lemmas (TLV, variant dictionary, KDF <-> dictionary, outer header, HMAC block stream,
   inner header) and the end-to-end theorem [frame_roundtrip]:  decrypt4 (dump4 ...) gives back the
   configuration, the attachments, the inner stream key and the XML payload, for all primitives that
   satisfy the inverse laws and the two output-size laws of SHA-256 / HMAC-SHA-256. *)
From Coq Require Import Lia ZifyN ZifyNat ZifyBool.
From Coq Require Import Permutation.
From KP Require Import Bytes Outcome LE LEFacts Version Kdbx4.
Local Open Scope N_scope.

(* ---------- constants ---------- *)
Lemma pow2_16 : 2 ^ 16 = 65536. Proof. reflexivity. Qed.
Lemma pow2_32 : 2 ^ 32 = 4294967296. Proof. reflexivity. Qed.
Lemma pow2_64 : 2 ^ 64 = 18446744073709551616. Proof. reflexivity. Qed.
Lemma pow256_2 : 256 ^ N.of_nat 2 = 65536. Proof. reflexivity. Qed.
Lemma pow256_4 : 256 ^ N.of_nat 4 = 4294967296. Proof. reflexivity. Qed.
Lemma pow256_8 : 256 ^ N.of_nat 8 = 18446744073709551616. Proof. reflexivity. Qed.

(* ---------- list plumbing ---------- *)
Lemma bytes_eqb_refl (x : bytes) : bytes_eqb x x = true.
Proof. induction x as [|a r IH]; cbn [bytes_eqb]; [reflexivity|]. rewrite N.eqb_refl, IH. reflexivity. Qed.

Lemma bytes_eqb_eq (a b : bytes) : bytes_eqb a b = true <-> a = b.
Proof.
  split; [|intros ->; apply bytes_eqb_refl].
  revert b. induction a as [|x a' IH]; intros [|y b'] H; cbn [bytes_eqb] in H; try discriminate; [reflexivity|].
  apply andb_true_iff in H. destruct H as [Hxy Hr]. apply N.eqb_eq in Hxy. apply IH in Hr. subst. reflexivity.
Qed.

Lemma Ok_inj {E A} (a b : A) : @Ok E A a = Ok b -> a = b.
Proof. intro H. injection H as H. exact H. Qed.

Lemma take_app_len n (a b : bytes) : length a = n -> take n (a ++ b) = a.
Proof. intros <-. apply take_app_exact. Qed.

Lemma drop_app_len n (a b : bytes) : length a = n -> drop n (a ++ b) = b.
Proof. intros <-. apply drop_app_exact. Qed.

Lemma take_all n (a : bytes) : length a = n -> take n a = a.
Proof. intro H. rewrite <- (app_nil_r a) at 1. apply take_app_len. exact H. Qed.

Lemma drop_all n (a : bytes) : length a = n -> drop n a = [].
Proof. intro H. rewrite <- (app_nil_r a) at 1. apply drop_app_len. exact H. Qed.

Lemma le_dec_enc2 v : v < 2 ^ 16 -> le_dec (le_enc 2 v) = v.
Proof. intro H. apply le_dec_enc_small. rewrite pow256_2. rewrite pow2_16 in H. exact H. Qed.

Lemma le_dec_enc4 v : v < 2 ^ 32 -> le_dec (le_enc 4 v) = v.
Proof. intro H. apply le_dec_enc_small. rewrite pow256_4. rewrite pow2_32 in H. exact H. Qed.

Lemma le_dec_enc8 v : v < 2 ^ 64 -> le_dec (le_enc 8 v) = v.
Proof. intro H. apply le_dec_enc_small. rewrite pow256_8. rewrite pow2_64 in H. exact H. Qed.

Lemma le32_enc v (y : bytes) : v < 2 ^ 32 -> le32 (le_enc 4 v ++ y) = v.
Proof. intro H. unfold le32. rewrite take_app_len by apply le_enc_length. apply le_dec_enc4. exact H. Qed.

Lemma drop4_enc v (y : bytes) : drop 4 (le_enc 4 v ++ y) = y.
Proof. apply drop_app_len. apply le_enc_length. Qed.

Lemma fits_app (b rest : bytes) : fits (N.of_nat (length b)) (b ++ rest) = true.
Proof. unfold fits. rewrite app_length. apply N.leb_le. lia. Qed.

Lemma with_len_length (b : bytes) : length (with_len b) = (4 + length b)%nat.
Proof. unfold with_len. rewrite app_length, le_enc_length. reflexivity. Qed.

Lemma le32_with_len (b y : bytes) : N.of_nat (length b) < 2 ^ 32 -> le32 (with_len b ++ y) = N.of_nat (length b).
Proof. intro H. unfold with_len. rewrite <- app_assoc. apply le32_enc. exact H. Qed.

Lemma drop4_with_len (b y : bytes) : drop 4 (with_len b ++ y) = b ++ y.
Proof. unfold with_len. rewrite <- app_assoc. apply drop4_enc. Qed.

Lemma field_length ty (b : bytes) : length (field ty b) = (5 + length b)%nat.
Proof. unfold field. rewrite app_length, with_len_length. reflexivity. Qed.

(* ---------- (L1) one TLV ---------- *)
Lemma tlv_field ty (b rest : bytes) :
  N.of_nat (length b) < 2 ^ 32 -> tlv (field ty b ++ rest) = Some (ty, b, rest).
Proof.
  intro Hb. unfold field, with_len. cbn [app]. rewrite <- app_assoc. unfold tlv.
  rewrite app_length, le_enc_length.
  replace (Nat.ltb (4 + length (b ++ rest)) 4) with false by (symmetry; apply Nat.ltb_ge; lia).
  rewrite le32_enc by exact Hb. rewrite drop4_enc. rewrite fits_app. cbn [negb].
  rewrite Nat2N.id. rewrite take_app_exact, drop_app_exact. reflexivity.
Qed.

(* ---------- (L2) variant dictionary ---------- *)
Definition vdval_ok (v : vdval) : bool :=
  match v with
  | VU32 x | VI32 x => N.ltb x (2 ^ 32)
  | VU64 x | VI64 x => N.ltb x (2 ^ 64)
  | VBool _ => true
  | VStr s | VBytes s => N.ltb (N.of_nat (length s)) (2 ^ 32)
  end.
Definition vd_entry_ok (e : bytes * vdval) : bool :=
  N.ltb (N.of_nat (length (fst e))) (2 ^ 32) && vdval_ok (snd e).
Definition vd_ok (d : vdict) : bool := forallb vd_entry_ok d.

Definition vd_ty (v : vdval) : N :=
  match v with
  | VU32 _ => 4 | VU64 _ => 5 | VBool _ => 8 | VI32 _ => 12 | VI64 _ => 13 | VStr _ => 24 | VBytes _ => 66
  end.
Definition vd_val_bytes (v : vdval) : bytes :=
  match v with
  | VU32 x | VI32 x => le_enc 4 x
  | VU64 x | VI64 x => le_enc 8 x
  | VBool b => [if b then 1 else 0]
  | VStr s | VBytes s => s
  end.

Lemma vd_dump_entry_shape k v :
  vd_dump_entry (k, v) = [vd_ty v] ++ with_len k ++ with_len (vd_val_bytes v).
Proof.
  destruct v as [x|x|b|x|x|s|s]; cbn [vd_dump_entry vd_ty vd_val_bytes]; try reflexivity;
    unfold with_len at 2; cbn [length]; rewrite ?le_enc_length; reflexivity.
Qed.

Lemma vd_val_bytes_length v : vdval_ok v = true -> N.of_nat (length (vd_val_bytes v)) < 2 ^ 32.
Proof.
  rewrite pow2_32.
  destruct v as [x|x|b|x|x|s|s]; cbn [vdval_ok vd_val_bytes length]; rewrite ?le_enc_length, ?pow2_32; intro H; lia.
Qed.

Lemma vd_value_dump v : vdval_ok v = true -> vd_value (vd_ty v) (vd_val_bytes v) = Ok v.
Proof.
  destruct v as [x|x|b|x|x|s|s]; cbn [vdval_ok vd_ty vd_val_bytes]; intro H; unfold vd_value;
    cbn [N.eqb Pos.eqb orb negb]; rewrite ?le_enc_length; cbn [Nat.leb negb].
  - rewrite take_all by apply le_enc_length. rewrite le_dec_enc4 by (apply N.ltb_lt; exact H). reflexivity.
  - rewrite take_all by apply le_enc_length. rewrite le_dec_enc8 by (apply N.ltb_lt; exact H). reflexivity.
  - destruct b; reflexivity.
  - rewrite take_all by apply le_enc_length. rewrite le_dec_enc4 by (apply N.ltb_lt; exact H). reflexivity.
  - rewrite take_all by apply le_enc_length. rewrite le_dec_enc8 by (apply N.ltb_lt; exact H). reflexivity.
  - reflexivity.
  - reflexivity.
Qed.

Lemma vd_entries_step f ty (k vb more : bytes) acc :
  N.of_nat (length k) < 2 ^ 32 -> N.of_nat (length vb) < 2 ^ 32 -> more <> [] ->
  vd_entries (S f) (([ty] ++ with_len k ++ with_len vb) ++ more) acc =
  bind (vd_value ty vb) (fun value => vd_entries f more (acc ++ [(k, value)])).
Proof.
  intros Hk Hv Hm. cbn [app vd_entries].
  assert (Hlen : Nat.ltb 9 (length (ty :: (with_len k ++ with_len vb) ++ more)) = true).
  { apply Nat.ltb_lt. cbn [length]. rewrite !app_length, !with_len_length.
    destruct more as [|m0 more']; [congruence|]. cbn [length]. lia. }
  rewrite Hlen. clear Hlen. rewrite <- !app_assoc.
  rewrite !le32_with_len by exact Hk. rewrite !drop4_with_len. rewrite fits_app. cbn [negb].
  rewrite Nat2N.id. rewrite take_app_exact, drop_app_exact.
  assert (Hl4 : Nat.ltb (length (k ++ with_len vb ++ more) - length k) 4 = false).
  { apply Nat.ltb_ge. rewrite !app_length, with_len_length. lia. }
  rewrite Hl4. clear Hl4.
  rewrite !le32_with_len by exact Hv. rewrite !drop4_with_len. rewrite fits_app. cbn [negb].
  rewrite Nat2N.id. rewrite take_app_exact, drop_app_exact. reflexivity.
Qed.

Lemma vd_entries_dump d : forall fuel acc,
  (length d < fuel)%nat -> vd_ok d = true ->
  vd_entries fuel (concat (map vd_dump_entry d) ++ [0]) acc = Ok (acc ++ d).
Proof.
  induction d as [|[k v] r IH]; intros fuel acc Hf Hok.
  - destruct fuel as [|f]; [cbn [length] in Hf; lia|]. cbn [map concat app vd_entries length Nat.ltb Nat.leb N.eqb].
    rewrite app_nil_r. reflexivity.
  - destruct fuel as [|f]; [cbn [length] in Hf; lia|]. cbn [length] in Hf.
    cbn [vd_ok forallb] in Hok. apply andb_true_iff in Hok. destruct Hok as [He Hr].
    unfold vd_entry_ok in He. cbn [fst snd] in He. apply andb_true_iff in He. destruct He as [Hk Hv].
    apply N.ltb_lt in Hk.
    cbn [map concat]. rewrite <- app_assoc. rewrite vd_dump_entry_shape.
    rewrite vd_entries_step.
    + rewrite vd_value_dump by exact Hv. cbn [bind].
      rewrite IH; [|lia|exact Hr]. rewrite <- app_assoc. reflexivity.
    + exact Hk.
    + apply vd_val_bytes_length. exact Hv.
    + destruct (concat (map vd_dump_entry r)); discriminate.
Qed.

Lemma vd_concat_length_ge d : (length d <= length (concat (map vd_dump_entry d)))%nat.
Proof.
  induction d as [|[k v] r IH]; [cbn; lia|].
  cbn [map concat length]. rewrite app_length, vd_dump_entry_shape. cbn [app length]. lia.
Qed.

Lemma le_enc_2_256 : le_enc 2 256 = [0; 1].
Proof. reflexivity. Qed.

Theorem vd_parse_dump d : vd_ok d = true -> vd_parse (vd_dump d) = Ok d.
Proof.
  intro Hok. unfold vd_dump. rewrite le_enc_2_256. unfold vd_parse.
  cbn [app length Nat.ltb Nat.leb take drop le_dec].
  change (N.eqb (0 + 256 * (1 + 256 * 0)) 256) with true. cbn [negb].
  rewrite vd_entries_dump; [reflexivity| |exact Hok].
  rewrite app_length. pose proof (vd_concat_length_ge d). lia.
Qed.

(* ---------- (L3) KDF configuration <-> dictionary, any order ---------- *)
Lemma vd_lookup_none k d : ~ In k (map fst d) -> vd_lookup k d = None.
Proof.
  induction d as [|[k' v'] r IH]; intro H; cbn [vd_lookup]; [reflexivity|].
  rewrite IH by (intro Hin; apply H; right; exact Hin).
  destruct (bytes_eqb k' k) eqn:E; [|reflexivity].
  apply bytes_eqb_eq in E. subst k'. exfalso. apply H. left. reflexivity.
Qed.

Lemma vd_lookup_in k v d : NoDup (map fst d) -> In (k, v) d -> vd_lookup k d = Some v.
Proof.
  induction d as [|[k' v'] r IH]; intros Hnd Hin; [contradiction|].
  cbn [map fst] in Hnd. inversion Hnd as [|x l Hnotin Hnd']; subst x l. cbn [vd_lookup].
  destruct Hin as [Heq|Hin].
  - injection Heq as -> ->. rewrite vd_lookup_none by exact Hnotin. rewrite bytes_eqb_refl. reflexivity.
  - rewrite IH by assumption. reflexivity.
Qed.

(* with pairwise distinct keys the lookup does not depend on the order of the entries *)
Lemma vd_lookup_perm k v d d' :
  Permutation d d' -> NoDup (map fst d') -> In (k, v) d' -> vd_lookup k d = Some v.
Proof.
  intros Hp Hnd Hin. apply vd_lookup_in.
  - apply (Permutation_NoDup (l := map fst d')); [|exact Hnd].
    apply Permutation_map. apply Permutation_sym. exact Hp.
  - apply (Permutation_in (l := d')); [apply Permutation_sym; exact Hp|exact Hin].
Qed.

Lemma vd_of_kdf_keys_nodup k seed : NoDup (map fst (vd_of_kdf k seed)).
Proof.
  destruct k as [rounds|id it mem par v]; cbn [vd_of_kdf map fst];
    unfold k_uuid, k_M, k_S, k_I, k_P, k_V, k_R;
    repeat (constructor; [cbn [In]; intro H; repeat (destruct H as [H|H]; [discriminate H|]); exact H|]);
    constructor.
Qed.

Theorem kdf_of_vd_perm k seed d :
  Permutation d (vd_of_kdf k seed) -> kdf_of_vd d = Ok (k, seed).
Proof.
  intro Hp.
  assert (Hl : forall key v, In (key, v) (vd_of_kdf k seed) -> vd_lookup key d = Some v).
  { intros key v Hin. apply (vd_lookup_perm key v d _ Hp); [apply vd_of_kdf_keys_nodup|exact Hin]. }
  unfold kdf_of_vd, get_bytes, get_u64, get_u32.
  destruct k as [rounds|id it mem par v]; cbn [vd_of_kdf] in Hl.
  - rewrite (Hl k_uuid (VBytes kdf_aes_kdbx4)) by (cbn [In]; auto 10).
    rewrite (Hl k_R (VU64 rounds)) by (cbn [In]; auto 10).
    rewrite (Hl k_S (VBytes seed)) by (cbn [In]; auto 10).
    cbn [bind].
    change (bytes_eqb kdf_aes_kdbx4 kdf_argon2id) with false.
    change (bytes_eqb kdf_aes_kdbx4 kdf_argon2) with false.
    rewrite bytes_eqb_refl. cbn [orb bind]. reflexivity.
  - rewrite (Hl k_uuid (VBytes (if id then kdf_argon2id else kdf_argon2))) by (cbn [In]; auto 10).
    rewrite (Hl k_M (VU64 mem)) by (cbn [In]; auto 10).
    rewrite (Hl k_S (VBytes seed)) by (cbn [In]; auto 10).
    rewrite (Hl k_I (VU64 it)) by (cbn [In]; auto 10).
    rewrite (Hl k_P (VU32 par)) by (cbn [In]; auto 10).
    rewrite (Hl k_V (VU32 (argon_version_id v))) by (cbn [In]; auto 10).
    cbn [bind].
    destruct id.
    + rewrite bytes_eqb_refl. destruct v; reflexivity.
    + change (bytes_eqb kdf_argon2 kdf_argon2id) with false. rewrite bytes_eqb_refl.
      destruct v; reflexivity.
Qed.

(* ---------- (L4) outer header ---------- *)
Definition kdf_params_ok (k : kdfcfg) : bool :=
  match k with
  | KAes rounds => N.ltb rounds (2 ^ 64)
  | KArgon2 _ iterations memory parallelism _ =>
    N.ltb iterations (2 ^ 64) && N.ltb memory (2 ^ 64) && N.ltb parallelism (2 ^ 32)
  end.

Lemma vd_of_kdf_ok k seed :
  kdf_params_ok k = true -> N.of_nat (length seed) < 2 ^ 32 -> vd_ok (vd_of_kdf k seed) = true.
Proof.
  intros Hk Hs. apply N.ltb_lt in Hs.
  destruct k as [rounds|id it mem par v]; cbn [kdf_params_ok] in Hk;
    cbn [vd_of_kdf vd_ok forallb]; unfold vd_entry_ok; cbn [fst snd vdval_ok].
  - rewrite Hk, Hs. reflexivity.
  - apply andb_true_iff in Hk. destruct Hk as [Hk Hp]. apply andb_true_iff in Hk. destruct Hk as [Hi Hm].
    rewrite Hi, Hm, Hp, Hs. destruct id, v; reflexivity.
Qed.

Lemma vd_ok_perm d d' : Permutation d d' -> vd_ok d' = true -> vd_ok d = true.
Proof.
  unfold vd_ok. intros Hp H. rewrite forallb_forall in *. intros e He. apply H.
  apply (Permutation_in (l := d)); assumption.
Qed.

Lemma version_dump_bytes minor :
  version_dump minor = [3; 217; 162; 154; 103; 251; 75; 181] ++ le_enc 2 minor ++ [4; 0].
Proof. reflexivity. Qed.

Lemma version_dump_length minor : length (version_dump minor) = 12%nat.
Proof. rewrite version_dump_bytes. rewrite !app_length, le_enc_length. reflexivity. Qed.

Lemma version_parse_dump minor rest :
  minor < 2 ^ 16 -> version_parse (version_dump minor ++ rest) = Ok (KDB4 minor).
Proof.
  intro Hm. unfold version_parse, version_header_size.
  assert (Hlen : Nat.ltb (length (version_dump minor ++ rest)) 12 = false).
  { apply Nat.ltb_ge. rewrite app_length, version_dump_length. lia. }
  rewrite Hlen. clear Hlen.
  rewrite version_dump_bytes. pose proof (le_dec_enc2 minor Hm) as Hd.
  cbn [le_enc] in Hd |- *. cbn [app take drop]. rewrite Hd.
  change (bytes_eqb [3; 217; 162; 154] kdbx_identifier) with true. cbn [negb].
  change (le_dec [103; 251; 75; 181]) with keepass_latest_id.
  change (N.eqb keepass_latest_id keepass_1_id) with false.
  change (N.eqb keepass_latest_id keepass_2_id) with false.
  change (N.eqb keepass_latest_id keepass_latest_id) with true.
  change (N.eqb (le_dec [4; 0]) 3) with false.
  change (N.eqb (le_dec [4; 0]) 4) with true.
  reflexivity.
Qed.

Lemma ocipher_of_id_id c : ocipher_of_id (ocipher_id c) = Some c.
Proof. destruct c; reflexivity. Qed.

Lemma ocipher_id_length c : length (ocipher_id c) = 16%nat.
Proof. destruct c; reflexivity. Qed.

Lemma compression_of_id_id z : compression_of_id (le32 (le_enc 4 (compression_id z))) = Some z.
Proof. destruct z; reflexivity. Qed.

Lemma outer_fields_end f rest a : outer_fields (S f) (field 0 [] ++ rest) a = Ok (a, rest).
Proof. cbn [outer_fields]. rewrite tlv_field by (cbn [length]; rewrite pow2_32; lia). reflexivity. Qed.

Lemma outer_fields_cipher f c rest a :
  outer_fields (S f) (field 2 (ocipher_id c) ++ rest) a =
  outer_fields f rest (mkOA (Some c) (oa_compression a) (oa_seed a) (oa_iv a) (oa_kdf a)).
Proof.
  cbn [outer_fields]. rewrite tlv_field by (rewrite ocipher_id_length, pow2_32; lia).
  cbn [N.eqb Pos.eqb]. rewrite ocipher_of_id_id. reflexivity.
Qed.

Lemma outer_fields_compression f z rest a :
  outer_fields (S f) (field 3 (le_enc 4 (compression_id z)) ++ rest) a =
  outer_fields f rest (mkOA (oa_cipher a) (Some z) (oa_seed a) (oa_iv a) (oa_kdf a)).
Proof.
  cbn [outer_fields]. rewrite tlv_field by (rewrite le_enc_length, pow2_32; lia).
  cbn [N.eqb Pos.eqb]. rewrite le_enc_length. cbn [Nat.ltb Nat.leb]. rewrite compression_of_id_id. reflexivity.
Qed.

Lemma outer_fields_seed f seed rest a :
  N.of_nat (length seed) < 2 ^ 32 ->
  outer_fields (S f) (field 4 seed ++ rest) a =
  outer_fields f rest (mkOA (oa_cipher a) (oa_compression a) (Some seed) (oa_iv a) (oa_kdf a)).
Proof. intro H. cbn [outer_fields]. rewrite tlv_field by exact H. reflexivity. Qed.

Lemma outer_fields_iv f iv rest a :
  N.of_nat (length iv) < 2 ^ 32 ->
  outer_fields (S f) (field 7 iv ++ rest) a =
  outer_fields f rest (mkOA (oa_cipher a) (oa_compression a) (oa_seed a) (Some iv) (oa_kdf a)).
Proof. intro H. cbn [outer_fields]. rewrite tlv_field by exact H. reflexivity. Qed.

Lemma outer_fields_kdf f vd k kseed rest a :
  N.of_nat (length (vd_dump vd)) < 2 ^ 32 -> vd_ok vd = true -> Permutation vd (vd_of_kdf k kseed) ->
  outer_fields (S f) (field 11 (vd_dump vd) ++ rest) a =
  outer_fields f rest (mkOA (oa_cipher a) (oa_compression a) (oa_seed a) (oa_iv a) (Some (k, kseed))).
Proof.
  intros Hl Hok Hp. cbn [outer_fields]. rewrite tlv_field by exact Hl.
  cbn [N.eqb Pos.eqb]. rewrite vd_parse_dump by exact Hok. cbn [bind].
  rewrite (kdf_of_vd_perm k kseed vd Hp). reflexivity.
Qed.

Lemma outer_fields_dump fuel c z iv seed vd k kseed rest :
  (6 <= fuel)%nat ->
  N.of_nat (length iv) < 2 ^ 32 -> N.of_nat (length seed) < 2 ^ 32 ->
  N.of_nat (length (vd_dump vd)) < 2 ^ 32 -> vd_ok vd = true -> Permutation vd (vd_of_kdf k kseed) ->
  outer_fields fuel
    (field 2 (ocipher_id c) ++ field 3 (le_enc 4 (compression_id z)) ++ field 7 iv ++ field 4 seed
     ++ field 11 (vd_dump vd) ++ field 0 [] ++ rest) (mkOA None None None None None)
  = Ok (mkOA (Some c) (Some z) (Some seed) (Some iv) (Some (k, kseed)), rest).
Proof.
  intros Hf Hiv Hseed Hl Hok Hp.
  do 6 (destruct fuel as [|fuel]; [lia|]).
  rewrite outer_fields_cipher, outer_fields_compression.
  rewrite outer_fields_iv by exact Hiv. rewrite outer_fields_seed by exact Hseed.
  rewrite (outer_fields_kdf _ vd k kseed) by assumption.
  rewrite outer_fields_end. reflexivity.
Qed.

Theorem parse_outer_header_dump minor c z iv seed vd k kseed rest :
  minor < 2 ^ 16 ->
  N.of_nat (length iv) < 2 ^ 32 -> N.of_nat (length seed) < 2 ^ 32 ->
  N.of_nat (length (vd_dump vd)) < 2 ^ 32 -> vd_ok vd = true -> Permutation vd (vd_of_kdf k kseed) ->
  parse_outer_header (outer_header_dump minor c z iv seed vd ++ rest)
  = Ok (KDB4 minor, mkOuter c z seed iv k kseed, length (outer_header_dump minor c z iv seed vd)).
Proof.
  intros Hm Hiv Hseed Hl Hok Hp.
  set (H := outer_header_dump minor c z iv seed vd).
  assert (HL : length (H ++ rest) = (length H + length rest)%nat) by apply app_length.
  assert (H12 : (12 <= length H)%nat).
  { subst H. unfold outer_header_dump. rewrite app_length, version_dump_length. lia. }
  unfold parse_outer_header. remember (length (H ++ rest)) as L eqn:EL.
  subst H. unfold outer_header_dump. rewrite <- !app_assoc.
  rewrite version_parse_dump by exact Hm.
  unfold version_header_size. rewrite drop_app_len by apply version_dump_length.
  rewrite (outer_fields_dump _ c z iv seed vd k kseed) by (assumption || lia).
  cbn [bind oa_cipher oa_compression oa_seed oa_iv oa_kdf].
  replace (L - length rest)%nat with (length (outer_header_dump minor c z iv seed vd)) by lia.
  reflexivity.
Qed.

(* ---------- (L6) inner header ---------- *)
Definition att_ok (a : attachment) : bool := N.ltb (N.of_nat (length (att_content a)) + 1) (2 ^ 32).
Definition atts_ok (atts : list attachment) : bool := forallb att_ok atts.

Lemma attachment_dump_field a : attachment_dump a = field 3 (att_flags a :: att_content a).
Proof.
  unfold attachment_dump, field, with_len. cbn [length app].
  rewrite Nat2N.inj_succ, <- N.add_1_r. reflexivity.
Qed.

Lemma inner_header_dump_fields c key atts :
  inner_header_dump c key atts =
  field 1 (le_enc 4 (icipher_id c)) ++ field 2 key ++ concat (map attachment_dump atts) ++ field 0 [].
Proof.
  unfold inner_header_dump. unfold field at 3. unfold with_len at 1. rewrite le_enc_length.
  cbn [app]. rewrite <- app_assoc. reflexivity.
Qed.

Lemma icipher_of_id_id c : icipher_of_id (le32 (le_enc 4 (icipher_id c))) = Some c.
Proof. destruct c; reflexivity. Qed.

Lemma inner_fields_end f rest a : inner_fields (S f) (field 0 [] ++ rest) a = Ok (a, rest).
Proof. cbn [inner_fields]. rewrite tlv_field by (cbn [length]; rewrite pow2_32; lia). reflexivity. Qed.

Lemma inner_fields_stream f c rest a :
  inner_fields (S f) (field 1 (le_enc 4 (icipher_id c)) ++ rest) a =
  inner_fields f rest (mkIA (Some c) (ia_key a) (ia_atts a)).
Proof.
  cbn [inner_fields]. rewrite tlv_field by (rewrite le_enc_length, pow2_32; lia).
  cbn [N.eqb Pos.eqb]. rewrite le_enc_length. cbn [Nat.ltb Nat.leb]. rewrite icipher_of_id_id. reflexivity.
Qed.

Lemma inner_fields_key f key rest a :
  N.of_nat (length key) < 2 ^ 32 ->
  inner_fields (S f) (field 2 key ++ rest) a = inner_fields f rest (mkIA (ia_stream a) (Some key) (ia_atts a)).
Proof. intro H. cbn [inner_fields]. rewrite tlv_field by exact H. reflexivity. Qed.

Lemma inner_fields_att f x rest a :
  att_ok x = true ->
  inner_fields (S f) (attachment_dump x ++ rest) a =
  inner_fields f rest (mkIA (ia_stream a) (ia_key a) (ia_atts a ++ [x])).
Proof.
  intro H. unfold att_ok in H. apply N.ltb_lt in H.
  rewrite attachment_dump_field. cbn [inner_fields].
  rewrite tlv_field by (cbn [length]; rewrite Nat2N.inj_succ, <- N.add_1_r; exact H).
  cbn [N.eqb Pos.eqb]. destruct x as [fl content]. reflexivity.
Qed.

Lemma inner_fields_atts atts : forall fuel a rest,
  (length atts < fuel)%nat -> atts_ok atts = true ->
  inner_fields fuel (concat (map attachment_dump atts) ++ field 0 [] ++ rest) a =
  Ok (mkIA (ia_stream a) (ia_key a) (ia_atts a ++ atts), rest).
Proof.
  induction atts as [|x r IH]; intros fuel a rest Hf Hok.
  - destruct fuel as [|f]; [cbn [length] in Hf; lia|]. cbn [map concat app].
    rewrite inner_fields_end.
    rewrite app_nil_r. destruct a; reflexivity.
  - destruct fuel as [|f]; [cbn [length] in Hf; lia|]. cbn [length] in Hf.
    cbn [atts_ok forallb] in Hok. apply andb_true_iff in Hok. destruct Hok as [Hx Hr].
    cbn [map concat]. rewrite <- app_assoc. rewrite inner_fields_att by exact Hx.
    rewrite IH; [|lia|exact Hr]. cbn [ia_stream ia_key ia_atts]. rewrite <- app_assoc. reflexivity.
Qed.

Lemma atts_concat_length_ge atts : (length atts <= length (concat (map attachment_dump atts)))%nat.
Proof.
  induction atts as [|x r IH]; [cbn; lia|].
  cbn [map concat length]. rewrite app_length, attachment_dump_field, field_length. lia.
Qed.

Theorem parse_inner_header_dump c key atts xml :
  N.of_nat (length key) < 2 ^ 32 -> atts_ok atts = true ->
  parse_inner_header (inner_header_dump c key atts ++ xml) = Ok (atts, c, key, xml).
Proof.
  intros Hk Hok. unfold parse_inner_header.
  assert (HL : (2 + length atts < S (length (inner_header_dump c key atts ++ xml)))%nat).
  { rewrite inner_header_dump_fields. rewrite !app_length, !field_length.
    pose proof (atts_concat_length_ge atts). lia. }
  remember (S (length (inner_header_dump c key atts ++ xml))) as fuel eqn:Ef. clear Ef.
  destruct fuel as [|fuel]; [lia|]. destruct fuel as [|fuel]; [lia|].
  rewrite inner_header_dump_fields. rewrite <- !app_assoc.
  rewrite inner_fields_stream. rewrite inner_fields_key by exact Hk.
  rewrite inner_fields_atts; [|lia|exact Hok].
  cbn [bind ia_stream ia_key ia_atts app]. reflexivity.
Qed.

(* ---------- (L5) HMAC block stream ---------- *)
Section blocks.
  Variable sha512 : bytes -> bytes.
  Variable hmac256 : bytes -> bytes -> bytes.
  (* HMAC-SHA-256 produces 32 bytes; the reader slices the MAC off by that size *)
  Hypothesis hmac256_length : forall k m, length (hmac256 k m) = 32%nat.

  Notation block_mac := (block_mac sha512 hmac256).
  Notation read_blocks := (read_blocks sha512 hmac256).
  Notation write_blocks := (write_blocks sha512 hmac256).

  Lemma block_mac_length idx key sb block : length (block_mac idx key sb block) = 32%nat.
  Proof. unfold Kdbx4.block_mac. apply hmac256_length. Qed.

  Lemma read_blocks_unfold f idx rest key out :
    rest <> [] ->
    read_blocks (S f) idx rest key out =
    if Nat.ltb (length rest) 36 then Err EBlockHash
    else
      if negb (fits (le_dec (take 4 (drop 32 rest))) (drop 36 rest)) then Err EBlockHash
      else
        if negb (bytes_eqb (take 32 rest)
                   (block_mac idx key (take 4 (drop 32 rest))
                      (take (N.to_nat (le_dec (take 4 (drop 32 rest)))) (drop 36 rest))))
        then Err EBlockHash
        else if N.eqb (le_dec (take 4 (drop 32 rest))) 0 then Ok out
             else read_blocks f (idx + 1) (drop (N.to_nat (le_dec (take 4 (drop 32 rest)))) (drop 36 rest)) key
                    (out ++ take (N.to_nat (le_dec (take 4 (drop 32 rest)))) (drop 36 rest)).
  Proof using. intro H. destruct rest as [|x r]; [congruence|]. reflexivity. Qed.

  (* one framed block *)
  Lemma read_blocks_step f idx block key out rest :
    N.of_nat (length block) < 2 ^ 32 ->
    read_blocks (S f) idx
      (block_mac idx key (le_enc 4 (N.of_nat (length block))) block
       ++ le_enc 4 (N.of_nat (length block)) ++ block ++ rest) key out =
    if N.eqb (N.of_nat (length block)) 0 then Ok out else read_blocks f (idx + 1) rest key (out ++ block).
  Proof.
    intro Hb.
    set (sb := le_enc 4 (N.of_nat (length block))).
    set (mac := block_mac idx key sb block).
    assert (Hmac : length mac = 32%nat) by apply block_mac_length.
    assert (Hsb : length sb = 4%nat) by apply le_enc_length.
    assert (Hlen : length (mac ++ sb ++ block ++ rest) = (36 + length block + length rest)%nat).
    { rewrite !app_length. lia. }
    rewrite read_blocks_unfold by (intro E; rewrite E in Hlen; cbn [length] in Hlen; lia).
    rewrite Hlen.
    replace (Nat.ltb (36 + length block + length rest) 36) with false by (symmetry; apply Nat.ltb_ge; lia).
    assert (Hd36 : drop 36 (mac ++ sb ++ block ++ rest) = block ++ rest).
    { rewrite app_assoc. apply drop_app_len. rewrite app_length. lia. }
    rewrite Hd36. rewrite (take_app_len 32 mac) by exact Hmac. rewrite (drop_app_len 32 mac) by exact Hmac.
    rewrite (take_app_len 4 sb) by exact Hsb.
    assert (Hdec : le_dec sb = N.of_nat (length block)) by (apply le_dec_enc4; exact Hb).
    rewrite Hdec. rewrite fits_app. cbn [negb]. rewrite Nat2N.id.
    rewrite take_app_exact, drop_app_exact. fold mac. rewrite bytes_eqb_refl. cbn [negb]. reflexivity.
  Qed.

  (* the closing empty block *)
  Lemma read_blocks_last f idx key out :
    read_blocks (S f) idx (block_mac idx key (le_enc 4 0) [] ++ le_enc 4 0) key out = Ok out.
  Proof.
    pose proof (read_blocks_step f idx [] key out []) as H.
    cbn [length N.of_nat app] in H. rewrite app_nil_r in H.
    rewrite H by (rewrite pow2_32; lia). reflexivity.
  Qed.

  Theorem read_write_blocks fuel data key :
    (2 <= fuel)%nat -> N.of_nat (length data) < 2 ^ 32 ->
    read_blocks fuel 0 (write_blocks data key) key [] = Ok data.
  Proof.
    intros Hf Hd. destruct fuel as [|fuel]; [lia|]. destruct fuel as [|fuel]; [lia|].
    unfold Kdbx4.write_blocks. destruct data as [|x r].
    - cbn [app]. apply read_blocks_last.
    - remember (x :: r) as data eqn:Edata.
      rewrite <- !app_assoc. rewrite read_blocks_step by exact Hd.
      replace (N.eqb (N.of_nat (length data)) 0) with false
        by (symmetry; apply N.eqb_neq; subst data; cbn [length]; lia).
      change (0 + 1) with 1. cbn [app]. apply read_blocks_last.
  Qed.

  Lemma write_blocks_length data key :
    (length data <= length (write_blocks data key))%nat.
  Proof using.
    clear hmac256_length.
    unfold Kdbx4.write_blocks. destruct data as [|x r]; [cbn [length]; lia|].
    rewrite !app_length. lia.
  Qed.

  Lemma write_blocks_length_ge data key : (2 <= length (write_blocks data key))%nat.
  Proof.
    unfold Kdbx4.write_blocks. rewrite !app_length, block_mac_length. lia.
  Qed.
End blocks.

(* ---------- sizes of what the writer puts into the outer header ---------- *)
Lemma concat_map_length_perm {A} (f : A -> bytes) (l l' : list A) :
  Permutation l l' -> length (concat (map f l)) = length (concat (map f l')).
Proof.
  intro Hp. induction Hp as [|x l l' Hp IH|x y l|l l' l'' Hp1 IH1 Hp2 IH2]; cbn [map concat].
  - reflexivity.
  - rewrite !app_length, IH. reflexivity.
  - rewrite !app_length. lia.
  - rewrite IH1. exact IH2.
Qed.

Lemma vd_dump_length_perm d d' : Permutation d d' -> length (vd_dump d) = length (vd_dump d').
Proof.
  intro Hp. unfold vd_dump. rewrite !app_length. rewrite (concat_map_length_perm vd_dump_entry d d' Hp). reflexivity.
Qed.

Lemma vd_dump_kdf_length k seed : (length (vd_dump (vd_of_kdf k seed)) <= 107 + length seed)%nat.
Proof.
  destruct k as [rounds|id it mem par v]; [|destruct id]; unfold vd_dump; cbn [vd_of_kdf map concat];
    rewrite !vd_dump_entry_shape; cbn [vd_ty vd_val_bytes];
    rewrite !app_length, !with_len_length, !le_enc_length;
    cbn [length k_uuid k_M k_S k_I k_P k_V k_R kdf_aes_kdbx4 kdf_argon2 kdf_argon2id]; lia.
Qed.

(* ---------- (L7) the whole frame ---------- *)
Section roundtrip.
  Variables (sha256 sha512 : bytes -> bytes) (hmac256 : bytes -> bytes -> bytes)
            (kdf : kdfcfg -> bytes -> bytes -> res bytes)
            (outer_enc outer_dec : ocipher -> bytes -> bytes -> bytes -> res bytes)
            (compress decompress : compression -> bytes -> res bytes).

  (* the two inverse laws *)
  Hypothesis dec_enc : forall c key iv p ct, outer_enc c key iv p = Ok ct -> outer_dec c key iv ct = Ok p.
  Hypothesis decompress_compress : forall z p c, compress z p = Ok c -> decompress z c = Ok p.
  (* the two output sizes the reader relies on when it slices the header hash and the MACs off the file *)
  Hypothesis sha256_length : forall m, length (sha256 m) = 32%nat.
  Hypothesis hmac256_length : forall k m, length (hmac256 k m) = 32%nat.

  Notation dump4 := (dump4 sha256 sha512 hmac256 kdf outer_enc compress).
  Notation decrypt4 := (decrypt4 sha256 sha512 hmac256 kdf outer_dec decompress).
  Notation header_mac := (header_mac sha512 hmac256).
  Notation hmac_key_of := (hmac_key_of sha512).
  Notation master_key_of := (master_key_of sha256).
  Notation composite_key := (composite_key sha256).
  Notation read_blocks := (read_blocks sha512 hmac256).
  Notation write_blocks := (write_blocks sha512 hmac256).

  Lemma drop_drop a b (l : bytes) : drop (a + b) l = drop b (drop a l).
  Proof using.
    revert l. induction a as [|a IH]; intro l; [reflexivity|].
    destruct l as [|x r]; cbn [Nat.add drop]; [destruct b; reflexivity|]. apply IH.
  Qed.

  (* the reader on  header ++ SHA-256(header) ++ mac ++ stream : the outer header, the version, the header
     hash and the fixed-size slicing are all resolved; what remains is the keyed part *)
  Lemma decrypt4_on_frame minor c z iv seed vd k kseed (mac stream : bytes) els :
    minor < 2 ^ 16 ->
    N.of_nat (length iv) < 2 ^ 32 -> N.of_nat (length seed) < 2 ^ 32 ->
    N.of_nat (length (vd_dump vd)) < 2 ^ 32 -> vd_ok vd = true -> Permutation vd (vd_of_kdf k kseed) ->
    length mac = 32%nat ->
    let header := outer_header_dump minor c z iv seed vd in
    decrypt4 (header ++ sha256 header ++ mac ++ stream) els =
    bind els (fun e =>
    bind (kdf k kseed (composite_key e)) (fun t =>
      if negb (bytes_eqb mac (header_mac (hmac_key_of seed t) header)) then Err EIncorrectKey
      else
        bind (read_blocks (S (length stream)) 0 stream (hmac_key_of seed t) []) (fun payload_enc =>
        bind (outer_dec c (master_key_of seed t) iv payload_enc) (fun payload_comp =>
        bind (decompress z payload_comp) (fun payload =>
        bind (parse_inner_header payload) (fun '(aik, xml) =>
          let '(atts, ic, ikey) := aik in
          if negb (inner_key_ok ic ikey) then Err ECrypto
          else Ok (mkConfig (KDB4 minor) c z ic k, atts, ikey, xml))))))).
  Proof using sha256_length.
    clear dec_enc decompress_compress hmac256_length. clear outer_enc compress.
    intros Hm Hiv Hseed Hl Hok Hp Hmac header.
    unfold Kdbx4.decrypt4.
    unfold header at 1. rewrite (parse_outer_header_dump minor c z iv seed vd k kseed) by assumption. fold header.
    cbn [bind h_cipher h_compression h_master_seed h_iv h_kdf h_kdf_seed].
    set (sha := sha256 header).
    assert (Hsha : length sha = 32%nat) by apply sha256_length.
    assert (HL : length (header ++ sha ++ mac ++ stream) = (length header + 64 + length stream)%nat).
    { rewrite !app_length. lia. }
    rewrite HL.
    replace (Nat.ltb (length header + 64 + length stream) (length header + 64)) with false
      by (symmetry; apply Nat.ltb_ge; lia).
    rewrite take_app_exact.
    replace (length header + 64)%nat with (length header + 32 + 32)%nat by lia.
    rewrite !drop_drop. rewrite drop_app_exact.
    rewrite (take_app_len 32 sha) by exact Hsha. rewrite (drop_app_len 32 sha) by exact Hsha.
    rewrite (take_app_len 32 mac) by exact Hmac. rewrite (drop_app_len 32 mac) by exact Hmac.
    fold sha. rewrite bytes_eqb_refl. cbn [negb]. reflexivity.
  Qed.

  Lemma draws_ok_lengths cfg d :
    draws_ok cfg d = true ->
    length (d_master_seed d) = 32%nat /\ (length (d_iv d) <= 16)%nat /\
    (length (d_inner_key d) <= 32)%nat /\ length (d_kdf_seed d) = 32%nat.
  Proof using.
    clear dec_enc decompress_compress sha256_length hmac256_length.
    unfold draws_ok. rewrite !andb_true_iff, !Nat.eqb_eq.
    destruct (c_outer cfg), (c_inner cfg); cbn [iv_size ikey_size]; lia.
  Qed.

  (* the conditions [parse_outer_header_dump] needs follow from the draw sizes and the KDF parameter ranges *)
  Lemma header_conditions cfg d vd :
    draws_ok cfg d = true -> kdf_params_ok (c_kdf cfg) = true ->
    Permutation vd (vd_of_kdf (c_kdf cfg) (d_kdf_seed d)) ->
    N.of_nat (length (d_iv d)) < 2 ^ 32 /\ N.of_nat (length (d_master_seed d)) < 2 ^ 32 /\
    N.of_nat (length (vd_dump vd)) < 2 ^ 32 /\ vd_ok vd = true /\ N.of_nat (length (d_inner_key d)) < 2 ^ 32.
  Proof using.
    clear dec_enc decompress_compress sha256_length hmac256_length.
    intros Hd Hk Hp. destruct (draws_ok_lengths cfg d Hd) as (Hms & Hiv & Hik & Hks).
    rewrite pow2_32. repeat split; try lia.
    - rewrite (vd_dump_length_perm _ _ Hp). pose proof (vd_dump_kdf_length (c_kdf cfg) (d_kdf_seed d)). lia.
    - apply (vd_ok_perm _ _ Hp). apply vd_of_kdf_ok; [exact Hk|]. rewrite pow2_32. lia.
  Qed.

  (* what a successful dump4 computed on the way *)
  Lemma dump4_inv cfg d vd els atts xml file minor :
    c_version cfg = KDB4 minor ->
    dump4 cfg d vd els atts xml = Ok file ->
    exists e t p ct,
      els = Ok e /\
      kdf (c_kdf cfg) (d_kdf_seed d) (composite_key e) = Ok t /\
      inner_key_ok (c_inner cfg) (d_inner_key d) = true /\
      compress (c_compression cfg) (inner_header_dump (c_inner cfg) (d_inner_key d) atts ++ xml) = Ok p /\
      outer_enc (c_outer cfg) (master_key_of (d_master_seed d) t) (d_iv d) p = Ok ct /\
      let header := outer_header_dump minor (c_outer cfg) (c_compression cfg) (d_iv d) (d_master_seed d) vd in
      let hmac_key := hmac_key_of (d_master_seed d) t in
      file = header ++ sha256 header ++ header_mac hmac_key header ++ write_blocks ct hmac_key.
  Proof using.
    clear dec_enc decompress_compress sha256_length hmac256_length.
    intros Hver Hdump. unfold Kdbx4.dump4 in Hdump. rewrite Hver in Hdump.
    destruct els as [e| | |]; cbn [bind] in Hdump; try discriminate Hdump.
    destruct (kdf (c_kdf cfg) (d_kdf_seed d) (composite_key e)) as [t| | |] eqn:Ek;
      cbn [bind] in Hdump; try discriminate Hdump.
    destruct (inner_key_ok (c_inner cfg) (d_inner_key d)) eqn:Eik; cbn [negb] in Hdump; [|discriminate Hdump].
    destruct (compress (c_compression cfg) (inner_header_dump (c_inner cfg) (d_inner_key d) atts ++ xml))
      as [p| | |] eqn:Ec; cbn [bind] in Hdump; try discriminate Hdump.
    destruct (outer_enc (c_outer cfg) (master_key_of (d_master_seed d) t) (d_iv d) p)
      as [ct| | |] eqn:Ee; cbn [bind] in Hdump; try discriminate Hdump.
    apply Ok_inj in Hdump. exists e, t, p, ct. repeat (split; [assumption || reflexivity|]).
    cbv zeta. symmetry. exact Hdump.
  Qed.

  (* the round trip on the intermediate values *)
  Theorem frame_roundtrip_core cfg d vd atts xml minor e t p ct :
    c_version cfg = KDB4 minor -> minor < 2 ^ 16 ->
    draws_ok cfg d = true ->
    Permutation vd (vd_of_kdf (c_kdf cfg) (d_kdf_seed d)) ->
    kdf_params_ok (c_kdf cfg) = true ->
    atts_ok atts = true ->
    kdf (c_kdf cfg) (d_kdf_seed d) (composite_key e) = Ok t ->
    inner_key_ok (c_inner cfg) (d_inner_key d) = true ->
    compress (c_compression cfg) (inner_header_dump (c_inner cfg) (d_inner_key d) atts ++ xml) = Ok p ->
    outer_enc (c_outer cfg) (master_key_of (d_master_seed d) t) (d_iv d) p = Ok ct ->
    N.of_nat (length ct) < 2 ^ 32 ->
    let header := outer_header_dump minor (c_outer cfg) (c_compression cfg) (d_iv d) (d_master_seed d) vd in
    let hmac_key := hmac_key_of (d_master_seed d) t in
    decrypt4 (header ++ sha256 header ++ header_mac hmac_key header ++ write_blocks ct hmac_key) (Ok e)
    = Ok (cfg, atts, d_inner_key d, xml).
  Proof.
    intros Hver Hminor Hdraws Hperm Hkdf Hatts Ek Eik Ec Ee Hct header hmac_key.
    destruct (header_conditions cfg d vd Hdraws Hkdf Hperm) as (Hiv & Hms & Hvl & Hvok & Hik).
    unfold header.
    rewrite (decrypt4_on_frame minor (c_outer cfg) (c_compression cfg) (d_iv d) (d_master_seed d) vd
               (c_kdf cfg) (d_kdf_seed d)); try assumption; [|apply hmac256_length].
    cbn [bind]. rewrite Ek. cbn [bind]. fold header. fold hmac_key. rewrite bytes_eqb_refl. cbn [negb].
    rewrite (read_write_blocks sha512 hmac256 hmac256_length);
      [|pose proof (write_blocks_length_ge sha512 hmac256 hmac256_length ct hmac_key); lia
       |exact Hct].
    cbn [bind]. rewrite (dec_enc _ _ _ _ _ Ee). cbn [bind].
    rewrite (decompress_compress _ _ _ Ec). cbn [bind].
    rewrite parse_inner_header_dump by assumption. cbn [bind]. rewrite Eik. cbn [negb].
    destruct cfg as [ver oc zc ic kc]. cbn [c_version c_outer c_compression c_inner c_kdf] in *.
    rewrite Hver. reflexivity.
  Qed.

  (* C01/C20 at the framing level: reading what the writer wrote gives back what was written *)
  Theorem frame_roundtrip cfg d vd els atts xml file minor :
    c_version cfg = KDB4 minor -> minor < 2 ^ 16 ->
    draws_ok cfg d = true ->
    Permutation vd (vd_of_kdf (c_kdf cfg) (d_kdf_seed d)) ->
    kdf_params_ok (c_kdf cfg) = true ->
    atts_ok atts = true ->
    (forall key p ct,
        compress (c_compression cfg) (inner_header_dump (c_inner cfg) (d_inner_key d) atts ++ xml) = Ok p ->
        outer_enc (c_outer cfg) key (d_iv d) p = Ok ct -> N.of_nat (length ct) < 2 ^ 32) ->
    dump4 cfg d vd els atts xml = Ok file ->
    decrypt4 file els = Ok (cfg, atts, d_inner_key d, xml).
  Proof.
    intros Hver Hminor Hdraws Hperm Hkdf Hatts Hct Hdump.
    destruct (dump4_inv cfg d vd els atts xml file minor Hver Hdump)
      as (e & t & p & ct & -> & Ek & Eik & Ec & Ee & Hfile).
    cbv zeta in Hfile. subst file.
    apply (frame_roundtrip_core cfg d vd atts xml minor e t p ct); try assumption.
    exact (Hct _ _ _ Ec Ee).
  Qed.

  (* the same with one size condition on the output: the file is smaller than 4 GiB *)
  Theorem frame_roundtrip_small_file cfg d vd els atts xml file minor :
    c_version cfg = KDB4 minor -> minor < 2 ^ 16 ->
    draws_ok cfg d = true ->
    Permutation vd (vd_of_kdf (c_kdf cfg) (d_kdf_seed d)) ->
    kdf_params_ok (c_kdf cfg) = true ->
    atts_ok atts = true ->
    dump4 cfg d vd els atts xml = Ok file ->
    N.of_nat (length file) < 2 ^ 32 ->
    decrypt4 file els = Ok (cfg, atts, d_inner_key d, xml).
  Proof.
    intros Hver Hminor Hdraws Hperm Hkdf Hatts Hdump Hsize.
    destruct (dump4_inv cfg d vd els atts xml file minor Hver Hdump)
      as (e & t & p & ct & -> & Ek & Eik & Ec & Ee & Hfile).
    cbv zeta in Hfile. subst file.
    apply (frame_roundtrip_core cfg d vd atts xml minor e t p ct); try assumption.
    rewrite !app_length in Hsize.
    pose proof (write_blocks_length sha512 hmac256 ct (hmac_key_of (d_master_seed d) t)).
    rewrite pow2_32 in Hsize |- *. lia.
  Qed.

  (* the writer's own dictionary order *)
  Corollary frame_roundtrip_default_order cfg d els atts xml file minor :
    c_version cfg = KDB4 minor -> minor < 2 ^ 16 ->
    draws_ok cfg d = true -> kdf_params_ok (c_kdf cfg) = true -> atts_ok atts = true ->
    dump4 cfg d (vd_of_kdf (c_kdf cfg) (d_kdf_seed d)) els atts xml = Ok file ->
    N.of_nat (length file) < 2 ^ 32 ->
    decrypt4 file els = Ok (cfg, atts, d_inner_key d, xml).
  Proof.
    intros Hver Hminor Hdraws Hkdf Hatts Hdump Hsize.
    apply (frame_roundtrip_small_file cfg d (vd_of_kdf (c_kdf cfg) (d_kdf_seed d)) els atts xml file minor); try assumption.
    apply Permutation_refl.
  Qed.

  (* wrong key: other key elements whose header MAC differs are rejected with IncorrectKey, before any
     block is read, decrypted or decompressed *)
  Theorem frame_wrong_key cfg d vd els atts xml file minor e e' t t' :
    c_version cfg = KDB4 minor -> minor < 2 ^ 16 ->
    draws_ok cfg d = true ->
    Permutation vd (vd_of_kdf (c_kdf cfg) (d_kdf_seed d)) ->
    kdf_params_ok (c_kdf cfg) = true ->
    dump4 cfg d vd els atts xml = Ok file ->
    els = Ok e ->
    kdf (c_kdf cfg) (d_kdf_seed d) (composite_key e) = Ok t ->
    kdf (c_kdf cfg) (d_kdf_seed d) (composite_key e') = Ok t' ->
    let header := outer_header_dump minor (c_outer cfg) (c_compression cfg) (d_iv d) (d_master_seed d) vd in
    header_mac (hmac_key_of (d_master_seed d) t) header <> header_mac (hmac_key_of (d_master_seed d) t') header ->
    decrypt4 file (Ok e') = Err EIncorrectKey.
  Proof using sha256_length hmac256_length.
    clear dec_enc decompress_compress.
    intros Hver Hminor Hdraws Hperm Hkdf Hdump Hels Ek Ek' header Hne.
    destruct (header_conditions cfg d vd Hdraws Hkdf Hperm) as (Hiv & Hms & Hvl & Hvok & Hik).
    destruct (dump4_inv cfg d vd els atts xml file minor Hver Hdump)
      as (e0 & t0 & p & ct & Hels0 & Ek0 & Eik & Ec & Ee & Hfile).
    rewrite Hels in Hels0. apply Ok_inj in Hels0. subst e0.
    rewrite Ek in Ek0. apply Ok_inj in Ek0. subst t0.
    cbv zeta in Hfile. subst file.
    rewrite (decrypt4_on_frame minor (c_outer cfg) (c_compression cfg) (d_iv d) (d_master_seed d) vd
               (c_kdf cfg) (d_kdf_seed d)); try assumption; [|apply hmac256_length].
    cbn [bind]. rewrite Ek'. cbn [bind]. fold header.
    destruct (bytes_eqb (header_mac (hmac_key_of (d_master_seed d) t) header)
                (header_mac (hmac_key_of (d_master_seed d) t') header)) eqn:E.
    - apply bytes_eqb_eq in E. contradiction.
    - reflexivity.
  Qed.
End roundtrip.

Print Assumptions frame_roundtrip.
Print Assumptions frame_roundtrip_small_file.
Print Assumptions frame_wrong_key.

(* The XML TEXT layer discharged: the end-to-end theorem of SaveOpen.v with the concrete xml-rs text model
   (xml/XmlText.v: [render_xml], [lex_xml]) in place of the parameters [render]/[lex], and the premise
   "the reader gives back the events of the document that was written" PROVED instead of assumed.

   What is needed for that is  wf_events (dump_events gzip c ks) = true  ([dump_events_wf]): the event list
   the writer model emits is in the domain of [lex_render].  That is a walk over every dump function of
   xml/XmlDump.v.  [wf_content] (the domain of the object mapping) does not suffice: it says nothing about
   the CHARACTERS of the strings.  The additional domain is [text_content_ok]:
   - every string of the object model that is written as character data or as an attribute value is
     [chars_ok]: TAB, LF, CR and bytes from 0x20 only, neither U+FFFE nor U+FFFF, at most 2^30 bytes
     (the complement of the finding "a string with a character outside XML 1.0 Char: save succeeds,
     open fails");
   - the keys of the Times map are element NAMES in the document ([dump_time_entry]): they must be
     [name_ok] (an ASCII XML name without ':', at most 2^18 bytes) - [wf_content] only excludes the
     two names Expires and UsageCount;
   - byte strings written in base64 (protected values, icon data, binary bodies) are at most 3 * 2^28
     bytes long, so that the text stays within the reader's 2^30 limit.
   Everything else [wf_events] asks for (nesting, fixed element and attribute names, no blank text, no two
   adjacent texts, the alphabet of base64 / decimal / hex / True / False texts) is PROVED of the writer. *)
From Coq Require Import Lia Permutation.
From KP Require Import Bytes Outcome LE LEFacts Utf8 Base64 Base64Proofs Scalars Version.
From KP Require Import Kdbx4 Kdbx4Facts Kdbx4Proofs.
From KP Require Import XmlTypes XmlDump XmlParse XmlSpec XmlCodecProofs XmlStream XmlRoundTrip XmlText XmlTextProofs.
From KP Require Import SaveOpen.
Local Open Scope N_scope.

Ltac andH H a b := apply andb_true_iff in H; destruct H as [a b].
Ltac nm := vm_compute; reflexivity.

(* ========================================================================================== *)
(* The text domain *)

(* a byte string written in base64: the text is 4 * ceil(len / 3) characters *)
Definition b64_len_ok (b : bytes) : bool := len_le b 805306368.

Definition tx_value (v : value) : bool :=
  match v with
  | VUnprotected t => chars_ok t
  | VBytes b => chars_ok b
  | VProtected p => b64_len_ok p
  end.
(* the stamp names are element names *)
Definition tx_times (t : times) : bool := forallb (fun kv => name_ok (fst kv)) (t_times t).
Definition tx_cditem (kv : bytes * cditem) : bool := chars_ok (fst kv) && wf_opt tx_value (cd_value (snd kv)).
Definition tx_custom_data (c : custom_data) : bool := forallb tx_cditem c.
Definition tx_assoc (a : assoc) : bool := wf_opt chars_ok (as_window a) && wf_opt chars_ok (as_seq a).
Definition tx_autotype (a : autotype) : bool := wf_opt chars_ok (at_seq a) && forallb tx_assoc (at_assocs a).
Definition tx_field (kv : bytes * value) : bool := chars_ok (fst kv) && tx_value (snd kv).

Fixpoint tx_entry (e : entry) : bool :=
  match e with
  | mkEntry uuid fields aty tags tms cd icon cicon fg bg url qc hist =>
    forallb tx_field fields && wf_opt tx_autotype aty && chars_ok (join_tags tags) && tx_times tms
    && tx_custom_data cd && wf_opt chars_ok url
    && match hist with Some h => forallb tx_entry h | None => true end
  end.

Fixpoint tx_group (g : group) : bool :=
  match g with
  | mkGroup uuid name notes icon cicon children tms cd exp das ea es ltve =>
    chars_ok name && wf_opt chars_ok notes && tx_times tms && tx_custom_data cd
    && wf_opt chars_ok das && wf_opt chars_ok ea && wf_opt chars_ok es
    && forallb (fun c => match c with inl e => tx_entry e | inr g' => tx_group g' end) children
  end.
Definition tx_node (c : entry + group) : bool := match c with inl e => tx_entry e | inr g => tx_group g end.

Definition tx_icon (i : icon) : bool := b64_len_ok (ic_data i).

Section txgz.
  Variable gzip : bytes -> bytes.
  Definition tx_binary (b : binary) : bool := wf_opt chars_ok (bin_id b) && b64_len_ok (binary_wire gzip b).
  Definition tx_meta (m : meta) : bool :=
    wf_opt chars_ok (m_generator m) && wf_opt chars_ok (m_database_name m)
    && wf_opt chars_ok (m_database_description m) && wf_opt chars_ok (m_default_username m)
    && forallb tx_icon (m_custom_icons m) && forallb tx_binary (m_binaries m)
    && tx_custom_data (m_custom_data m).
  (* THE TEXT DOMAIN of a database content *)
  Definition text_content_ok (c : content) : bool := tx_meta (c_meta c) && tx_group (c_root c).
End txgz.

(* ========================================================================================== *)
(* Balanced blocks *)

(* [evs] is a sequence of complete elements: it can be put in front of any well-formed rest, at any depth,
   where no text precedes; no text is pending after it *)
Definition blk (evs : list ev) : Prop :=
  forall stack r, wf_go stack false r = true -> wf_go stack false (evs ++ r) = true.
(* [evs] is the rest of an element [n] whose start tag has been written: complete elements, or one text,
   then the end tag *)
Definition oblk (n : bytes) (evs : list ev) : Prop :=
  forall stack r, wf_go stack false r = true -> wf_go (n :: stack) false (evs ++ r) = true.

Lemma blk_nil : blk [].
Proof. intros stack r Hr. exact Hr. Qed.

Lemma blk_app a b : blk a -> blk b -> blk (a ++ b).
Proof. intros Ha Hb stack r Hr. rewrite <- app_assoc. apply Ha. apply Hb. exact Hr. Qed.

Lemma blk_concat {A} (f : A -> list ev) (l : list A) : (forall x, In x l -> blk (f x)) -> blk (concat (map f l)).
Proof.
  induction l as [|x r IH]; intro H; cbn [map concat]; [apply blk_nil|].
  apply blk_app; [apply H; left; reflexivity|]. apply IH. intros y Hy. apply H. right. exact Hy.
Qed.

Lemma wf_go_end n stack prev r : wf_go (n :: stack) prev (EEnd n :: r) = wf_go stack false r.
Proof. cbn [wf_go]. rewrite beqb_refl. reflexivity. Qed.

Lemma oblk_end n : oblk n [EEnd n].
Proof. intros stack r Hr. cbn [app]. rewrite wf_go_end. exact Hr. Qed.

Lemma oblk_app n a b : blk a -> oblk n b -> oblk n (a ++ b).
Proof. intros Ha Hb stack r Hr. rewrite <- app_assoc. apply Ha. apply Hb. exact Hr. Qed.

(* [emit_chars] drops empty and blank texts: what it emits is a non-blank text *)
Lemma oblk_text n t : chars_ok t = true -> oblk n (emit_chars t ++ [EEnd n]).
Proof.
  intros Hc stack r Hr. unfold emit_chars. destruct (ws_only t) eqn:E; cbn [app].
  - rewrite wf_go_end. exact Hr.
  - cbn [wf_go is_nil negb andb]. unfold text_ok. rewrite E, Hc, beqb_refl. cbn [negb andb]. exact Hr.
Qed.

Lemma blk_start n a rest :
  name_ok n = true -> attrs_ok [] a = true -> len_le a 65536 = true -> oblk n rest -> blk (EStart n a :: rest).
Proof.
  intros Hn Ha Hl Ho stack r Hr. cbn [app wf_go]. rewrite Hn, Ha, Hl. cbn [andb]. apply Ho. exact Hr.
Qed.

Lemma blk_start0 n rest : name_ok n = true -> oblk n rest -> blk (EStart n [] :: rest).
Proof. intros Hn Ho. apply blk_start; [exact Hn|reflexivity|reflexivity|exact Ho]. Qed.

Lemma blk_elem n body : name_ok n = true -> blk body -> blk (EStart n [] :: body ++ [EEnd n]).
Proof. intros Hn Hb. apply blk_start0; [exact Hn|]. apply oblk_app; [exact Hb|apply oblk_end]. Qed.

Lemma blk_simple n t : name_ok n = true -> chars_ok t = true -> blk (simple n t).
Proof. intros Hn Ht. unfold simple. apply blk_start0; [exact Hn|]. apply oblk_text. exact Ht. Qed.

Lemma blk_simple_opt {A} n (f : A -> bytes) (p : A -> bool) o :
  name_ok n = true -> (forall x, p x = true -> chars_ok (f x) = true) -> wf_opt p o = true ->
  blk (simple_opt n f o).
Proof.
  intros Hn Hf Ho. destruct o as [x|]; cbn [simple_opt]; [|apply blk_nil].
  apply blk_simple; [exact Hn|]. apply Hf. exact Ho.
Qed.

(* dumpers: the same with the key stream threaded through *)
Definition dblk (d : dumper) : Prop :=
  forall ks, bytes_ok ks = true -> blk (fst (d ks)) /\ bytes_ok (snd (d ks)) = true.

Lemma dblk_pure e : blk e -> dblk (dpure e).
Proof. intros He ks Hks. unfold dpure. cbn [fst snd]. split; [exact He|exact Hks]. Qed.

Lemma dblk_seq a b : dblk a -> dblk b -> dblk (dseq a b).
Proof.
  intros Ha Hb ks Hks. unfold dseq. destruct (Ha ks Hks) as [Ha1 Ha2].
  destruct (a ks) as [x k1]. cbn [fst snd] in Ha1, Ha2. destruct (Hb k1 Ha2) as [Hb1 Hb2].
  destruct (b k1) as [y k2]. cbn [fst snd] in *. split; [apply blk_app; assumption|exact Hb2].
Qed.

Lemma dblk_map {A} (f : A -> dumper) (l : list A) : (forall x, In x l -> dblk (f x)) -> dblk (dmap f l).
Proof.
  induction l as [|x r IH]; intro H; cbn [dmap]; [apply dblk_pure, blk_nil|].
  apply dblk_seq; [apply H; left; reflexivity|]. apply IH. intros y Hy. apply H. right. exact Hy.
Qed.

Lemma dblk_wrap n d : name_ok n = true -> dblk d -> dblk (wrap n d).
Proof.
  intros Hn Hd ks Hks. unfold wrap, dseq, dpure. destruct (Hd ks Hks) as [H1 H2].
  destruct (d ks) as [x k1]. cbn [fst snd app] in *. split; [|exact H2]. apply blk_elem; assumption.
Qed.

(* ========================================================================================== *)
(* The scalar texts *)

(* printable ASCII *)
Definition plain (c : N) : bool := N.leb 32 c && N.ltb c 127.

Lemma plain_xml c : plain c = true -> xml_char c = true.
Proof. unfold plain, xml_char. intro H. andH H H1 H2. rewrite H1. apply orb_true_r. Qed.

Lemma plain_nonchar t : forallb plain t = true -> has_nonchar t = false.
Proof.
  induction t as [|a r IH]; [reflexivity|]. cbn [forallb has_nonchar]. intro H. andH H Ha Hr.
  assert (E : N.eqb a 239 = false).
  { unfold plain in Ha. andH Ha H1 H2. apply N.ltb_lt in H2. apply N.eqb_neq. lia. }
  rewrite E. cbn [andb orb]. apply IH. exact Hr.
Qed.

Lemma plain_chars_ok t : forallb plain t = true -> len_le t 1073741824 = true -> chars_ok t = true.
Proof.
  intros Hp Hl. unfold chars_ok. rewrite Hl, (plain_nonchar _ Hp).
  assert (Hx : forallb xml_char t = true).
  { apply forallb_forall. intros c Hc. apply plain_xml. rewrite forallb_forall in Hp. apply Hp. exact Hc. }
  rewrite Hx. reflexivity.
Qed.

Lemma len_small {A} (t : list A) : (length t <= 100)%nat -> len_le t 1073741824 = true.
Proof. intro H. unfold len_le. apply N.leb_le. lia. Qed.

Lemma b64_char_plain c : b64_char_ok c = true -> plain c = true.
Proof.
  unfold b64_char_ok, plain.
  rewrite !orb_true_iff, !andb_true_iff, !N.leb_le, !N.eqb_eq, N.ltb_lt. lia.
Qed.

Lemma b64_len_le b : b64_len_ok b = true -> len_le (b64_encode b) 1073741824 = true.
Proof.
  unfold b64_len_ok, len_le. rewrite !N.leb_le. intro H. rewrite b64_encode_length.
  rewrite Nat2N.inj_mul, Nat2N.inj_div, Nat2N.inj_add.
  change (N.of_nat 4) with 4. change (N.of_nat 2) with 2. change (N.of_nat 3) with 3.
  set (n := N.of_nat (length b)) in *. clearbody n.
  assert (Hd : (n + 2) / 3 <= 268435456).
  { transitivity ((805306368 + 2) / 3); [apply N.div_le_mono; lia|]. apply N.leb_le. vm_compute. reflexivity. }
  lia.
Qed.

(* base64 text of bytes: alphabet and '=' only *)
Lemma b64_chars_ok b : bytes_ok b = true -> b64_len_ok b = true -> chars_ok (b64_encode b) = true.
Proof.
  intros Hb Hl. apply plain_chars_ok; [|apply b64_len_le; exact Hl].
  apply forallb_forall. intros c Hc. apply b64_char_plain.
  pose proof (b64_encode_chars_ok b Hb) as H. rewrite forallb_forall in H. apply H. exact Hc.
Qed.

Lemma fmt_time_ok t : chars_ok (fmt_time t) = true.
Proof.
  unfold fmt_time, i64_enc. apply b64_chars_ok; [exact (le_enc_bytes_ok _ _)|].
  unfold b64_len_ok, len_le. rewrite le_enc_length. reflexivity.
Qed.

Lemma fmt_uuid_ok u : wf_uuid u = true -> chars_ok (fmt_uuid u) = true.
Proof.
  unfold wf_uuid, fmt_uuid. intro H. andH H Hlen Hb. apply b64_chars_ok; [exact Hb|].
  unfold b64_len_ok, len_le. apply Nat.eqb_eq in Hlen. rewrite Hlen. reflexivity.
Qed.

Lemma fmt_bool_ok b : chars_ok (fmt_bool b) = true.
Proof. destruct b; vm_compute; reflexivity. Qed.

Lemma le_digits_len fuel : forall n, (length (le_digits fuel n) <= fuel)%nat.
Proof.
  induction fuel as [|f IH]; intro n; cbn [le_digits length]; [lia|].
  destruct (N.ltb n 10); cbn [length]; [lia|]. specialize (IH (n / 10)). lia.
Qed.

Lemma le_digits_plain fuel : forall n, forallb plain (map (fun d => 48 + d) (le_digits fuel n)) = true.
Proof.
  induction fuel as [|f IH]; intro n; cbn [le_digits map forallb]; [reflexivity|].
  assert (Hp : plain (48 + n mod 10) = true).
  { unfold plain. assert (Hm : n mod 10 < 10) by (apply N.mod_lt; lia).
    apply andb_true_iff. split; [apply N.leb_le|apply N.ltb_lt]; lia. }
  rewrite Hp. cbn [andb]. destruct (N.ltb n 10); [reflexivity|apply IH].
Qed.

Lemma fmt_N_plain n : forallb plain (fmt_N n) = true.
Proof.
  unfold fmt_N. apply forallb_forall. intros c Hc. apply in_rev in Hc. revert c Hc.
  apply forallb_forall. apply le_digits_plain.
Qed.

Lemma fmt_N_len n : n < 2 ^ 64 -> (length (fmt_N n) <= 65)%nat.
Proof.
  intro H. unfold fmt_N. rewrite rev_length, map_length.
  pose proof (le_digits_len (S (N.to_nat (N.log2 n))) n) as Hl.
  assert (Hg : N.log2 n < 64).
  { destruct (N.eq_dec n 0) as [->|Hn]; [reflexivity|]. apply N.log2_lt_pow2; [lia|exact H]. }
  lia.
Qed.

Lemma fmt_N_ok n : wf_usize n = true -> chars_ok (fmt_N n) = true.
Proof.
  unfold wf_usize. intro H. apply N.ltb_lt in H.
  apply plain_chars_ok; [apply fmt_N_plain|]. apply len_small. pose proof (fmt_N_len n H). lia.
Qed.

Lemma fmt_Z_ok z : wf_isize z = true -> chars_ok (fmt_Z z) = true.
Proof.
  unfold wf_isize. intro H. andH H H1 H2. apply Z.leb_le in H1. apply Z.ltb_lt in H2.
  assert (E63 : (2 ^ 63 = 9223372036854775808)%Z) by reflexivity.
  assert (E64 : 2 ^ 64 = 18446744073709551616) by reflexivity.
  destruct z as [|p|p]; cbn [fmt_Z Z.to_N].
  - apply fmt_N_ok. reflexivity.
  - apply fmt_N_ok. unfold wf_usize. apply N.ltb_lt. lia.
  - assert (Hp : N.pos p < 2 ^ 64) by lia.
    apply plain_chars_ok; [cbn [forallb]; rewrite fmt_N_plain; reflexivity|].
    apply len_small. cbn [length]. pose proof (fmt_N_len _ Hp). lia.
Qed.

Lemma hex_digit_plain v : v < 16 -> plain (hex_digit v) = true.
Proof.
  intro H. unfold hex_digit, plain.
  destruct (N.ltb v 10) eqn:E; [apply N.ltb_lt in E|apply N.ltb_ge in E];
    apply andb_true_iff; (split; [apply N.leb_le|apply N.ltb_lt]); lia.
Qed.

Lemma fmt_color_ok c : wf_color c = true -> chars_ok (fmt_color_c c) = true.
Proof.
  destruct c as [[r g] b]. unfold wf_color, fmt_color_c, fmt_color, hex2. intro H.
  andH H H Hb. andH H Hr Hg. apply N.ltb_lt in Hr, Hg, Hb.
  apply plain_chars_ok; [|reflexivity]. cbn [app forallb].
  assert (D : forall x, x < 256 -> x / 16 < 16) by (intros x Hx; apply N.div_lt_upper_bound; lia).
  assert (M : forall x, x mod 16 < 16) by (intro x; apply N.mod_lt; lia).
  rewrite !hex_digit_plain by auto. reflexivity.
Qed.

(* the typed versions of [blk_simple_opt] *)
Lemma blk_opt_time n o : name_ok n = true -> blk (simple_opt n fmt_time o).
Proof.
  intro Hn. apply (blk_simple_opt n fmt_time (fun _ => true) o Hn); [intros x _; apply fmt_time_ok|].
  destruct o; reflexivity.
Qed.
Lemma blk_opt_bool n o : name_ok n = true -> blk (simple_opt n fmt_bool o).
Proof.
  intro Hn. apply (blk_simple_opt n fmt_bool (fun _ => true) o Hn); [intros x _; apply fmt_bool_ok|].
  destruct o; reflexivity.
Qed.
Lemma blk_opt_N n o : name_ok n = true -> wf_opt wf_usize o = true -> blk (simple_opt n fmt_N o).
Proof. intros Hn Ho. exact (blk_simple_opt n fmt_N wf_usize o Hn fmt_N_ok Ho). Qed.
Lemma blk_opt_Z n o : name_ok n = true -> wf_opt wf_isize o = true -> blk (simple_opt n fmt_Z o).
Proof. intros Hn Ho. exact (blk_simple_opt n fmt_Z wf_isize o Hn fmt_Z_ok Ho). Qed.
Lemma blk_opt_uuid n o : name_ok n = true -> wf_opt wf_uuid o = true -> blk (simple_opt n fmt_uuid o).
Proof. intros Hn Ho. exact (blk_simple_opt n fmt_uuid wf_uuid o Hn fmt_uuid_ok Ho). Qed.
Lemma blk_opt_color n o : name_ok n = true -> wf_opt wf_color o = true -> blk (simple_opt n fmt_color_c o).
Proof. intros Hn Ho. exact (blk_simple_opt n fmt_color_c wf_color o Hn fmt_color_ok Ho). Qed.
Lemma blk_opt_id n o : name_ok n = true -> wf_opt chars_ok o = true -> blk (simple_opt n fmt_id o).
Proof. intros Hn Ho. exact (blk_simple_opt n fmt_id chars_ok o Hn (fun x H => H) Ho). Qed.

(* one piece of a concatenation of SimpleTags *)
Ltac piece :=
  lazymatch goal with
  | |- blk [] => apply blk_nil
  | |- blk (simple_opt _ fmt_time _) => apply blk_opt_time; nm
  | |- blk (simple_opt _ fmt_bool _) => apply blk_opt_bool; nm
  | |- blk (simple_opt _ fmt_N _) => apply blk_opt_N; [nm|assumption]
  | |- blk (simple_opt _ fmt_Z _) => apply blk_opt_Z; [nm|assumption]
  | |- blk (simple_opt _ fmt_uuid _) => apply blk_opt_uuid; [nm|assumption]
  | |- blk (simple_opt _ fmt_color_c _) => apply blk_opt_color; [nm|assumption]
  | |- blk (simple_opt _ fmt_id _) => apply blk_opt_id; [nm|assumption]
  | |- blk (simple _ (fmt_bool _)) => apply blk_simple; [nm|apply fmt_bool_ok]
  | |- blk (simple _ (fmt_time _)) => apply blk_simple; [nm|apply fmt_time_ok]
  | |- blk (simple _ (fmt_uuid _)) => apply blk_simple; [nm|apply fmt_uuid_ok; assumption]
  | |- blk (simple _ (fmt_N _)) => apply blk_simple; [nm|apply fmt_N_ok; assumption]
  | |- blk (simple _ _) => apply blk_simple; [nm|assumption]
  end.
(* a right-nested concatenation; pieces that are not SimpleTags are left as goals *)
Ltac walk :=
  lazymatch goal with
  | |- oblk _ [EEnd _] => apply oblk_end
  | |- oblk _ (_ ++ _) => apply oblk_app; [try piece|walk]
  | |- blk (_ ++ _) => apply blk_app; [try piece|walk]
  | |- blk _ => try piece
  end.

(* ========================================================================================== *)
(* The dump functions, one by one *)

Definition vbytes_ok (v : value) : bool := match v with VProtected p => bytes_ok p | _ => true end.
Lemma wf_value_vbytes v : wf_value v = true -> vbytes_ok v = true.
Proof. destruct v; cbn [wf_value vbytes_ok]; intro H; [reflexivity|apply utf8_valid_bytes_ok; exact H|reflexivity]. Qed.
Lemma wf_field_value_vbytes v : wf_field_value v = true -> vbytes_ok v = true.
Proof.
  destruct v; cbn [wf_field_value vbytes_ok]; intro H; [reflexivity| |reflexivity].
  andH H H1 H2. apply utf8_valid_bytes_ok. exact H2.
Qed.

Lemma dblk_value v : vbytes_ok v = true -> tx_value v = true -> dblk (dump_value v).
Proof.
  destruct v as [s|p|b]; cbn [vbytes_ok tx_value dump_value]; intros Hb Ht.
  - apply dblk_pure. apply blk_simple; [nm|exact Ht].
  - intros ks Hks. cbn [fst snd]. split; [|apply bytes_ok_drop; exact Hks].
    apply blk_start; [nm|nm|reflexivity|]. apply oblk_text. apply b64_chars_ok.
    + apply xor_ks_ok; assumption.
    + unfold b64_len_ok, len_le in *. rewrite xor_ks_length. exact Ht.
  - apply dblk_pure. apply blk_simple; [nm|exact Ht].
Qed.

Lemma blk_times t : wf_times t = true -> tx_times t = true -> blk (dump_times t).
Proof.
  unfold wf_times, tx_times, dump_times. intros Hw Ht. split_ands.
  apply blk_start0; [nm|]. walk.
  apply blk_concat. intros kv Hin. unfold dump_time_entry. apply blk_simple; [|apply fmt_time_ok].
  rewrite forallb_forall in Ht. apply Ht. exact Hin.
Qed.

Lemma dblk_cditem kv : wf_cditem kv = true -> tx_cditem kv = true -> dblk (dump_cditem kv).
Proof.
  unfold wf_cditem, tx_cditem, dump_cditem. intros Hw Ht. split_ands.
  apply dblk_wrap; [nm|]. apply dblk_seq; [apply dblk_pure; piece|].
  apply dblk_seq; [|apply dblk_pure; piece].
  destruct (cd_value (snd kv)) as [v|]; cbn [dopt wf_opt] in *; [|apply dblk_pure, blk_nil].
  apply dblk_value; [apply wf_value_vbytes|]; assumption.
Qed.

Lemma dblk_custom_data c : wf_custom_data c = true -> tx_custom_data c = true -> dblk (dump_custom_data c).
Proof.
  unfold wf_custom_data, tx_custom_data, dump_custom_data. intros Hw Ht. andH Hw Hnd Hw.
  apply dblk_wrap; [nm|]. apply dblk_map. intros kv Hin. rewrite forallb_forall in Hw, Ht.
  apply dblk_cditem; [apply Hw|apply Ht]; exact Hin.
Qed.

Lemma blk_assoc a : tx_assoc a = true -> blk (dump_assoc a).
Proof. unfold tx_assoc, dump_assoc. intro Ht. split_ands. apply blk_start0; [nm|]. walk. Qed.

Lemma blk_autotype a : tx_autotype a = true -> blk (dump_autotype a).
Proof.
  unfold tx_autotype, dump_autotype. intro Ht. split_ands. apply blk_start0; [nm|]. walk.
  apply blk_concat. intros x Hin. apply blk_assoc.
  match goal with H : forallb tx_assoc _ = true |- _ => rewrite forallb_forall in H; apply H; exact Hin end.
Qed.

Lemma dblk_field kv : wf_field kv = true -> tx_field kv = true -> dblk (dump_field kv).
Proof.
  unfold wf_field, tx_field, dump_field. intros Hw Ht. split_ands.
  apply dblk_wrap; [nm|]. apply dblk_seq; [apply dblk_pure; piece|].
  apply dblk_value; [apply wf_field_value_vbytes|]; assumption.
Qed.

Lemma blk_entry_tail icon cicon fg bg url qc :
  wf_opt wf_usize icon = true -> wf_opt wf_uuid cicon = true -> wf_opt wf_color fg = true ->
  wf_opt wf_color bg = true -> wf_opt chars_ok url = true ->
  blk (entry_tail icon cicon fg bg url qc).
Proof. intros H1 H2 H3 H4 H5. unfold entry_tail. walk. Qed.

Lemma dblk_entry e : wf_entry e = true -> tx_entry e = true -> dblk (dump_entry e).
Proof.
  induction e as [uuid fields aty tags tms cd icon cicon fg bg url qc hist IH] using entry_ind'.
  intros Hw Ht. cbn [wf_entry tx_entry] in Hw, Ht. cbn [dump_entry].
  andH Hw Hw Hwh. andH Ht Ht Hth. split_ands.
  apply dblk_wrap; [nm|].
  apply dblk_seq; [apply dblk_pure; walk|].
  apply dblk_seq.
  { apply dblk_map. intros kv Hin.
    repeat match goal with H : forallb _ fields = true |- _ => rewrite forallb_forall in H; specialize (H kv Hin) end.
    apply dblk_field; assumption. }
  apply dblk_seq; [apply dblk_custom_data; assumption|].
  apply dblk_seq.
  - apply dblk_pure. apply blk_app; [|apply blk_app; [apply blk_times; assumption|apply blk_entry_tail; assumption]].
    destruct aty as [a|]; [|apply blk_nil]. apply blk_autotype. assumption.
  - destruct hist as [h|]; [|apply dblk_pure, blk_nil]. apply dblk_wrap; [nm|]. apply dblk_map. intros x Hin.
    rewrite wf_hist_forallb in Hwh. rewrite forallb_forall in Hwh, Hth.
    cbn [hist_all] in IH. rewrite Forall_forall in IH. apply IH; auto.
Qed.

Lemma blk_group_head name uuid notes icon cicon tms :
  chars_ok name = true -> wf_uuid uuid = true -> wf_opt chars_ok notes = true -> wf_opt wf_usize icon = true ->
  wf_opt wf_uuid cicon = true -> wf_times tms = true -> tx_times tms = true ->
  blk (group_head name uuid notes icon cicon tms).
Proof. intros H1 H2 H3 H4 H5 H6 H7. unfold group_head. walk. apply blk_times; assumption. Qed.

Lemma blk_group_mid exp das ea es ltve :
  wf_opt chars_ok das = true -> wf_opt chars_ok ea = true -> wf_opt chars_ok es = true ->
  wf_opt wf_uuid ltve = true -> blk (group_mid exp das ea es ltve).
Proof. intros H1 H2 H3 H4. unfold group_mid. walk. Qed.

Lemma dblk_group g : wf_group g = true -> tx_group g = true -> dblk (dump_group g).
Proof.
  induction g as [uuid name notes icon cicon children tms cd exp das ea es ltve IH] using group_ind'.
  intros Hw Ht. cbn [wf_group tx_group] in Hw, Ht. cbn [dump_group].
  andH Hw Hw Hwc. andH Ht Ht Htc. split_ands.
  apply dblk_wrap; [nm|].
  apply dblk_seq; [apply dblk_pure; apply blk_group_head; assumption|].
  apply dblk_seq; [apply dblk_custom_data; assumption|].
  apply dblk_seq; [apply dblk_pure; apply blk_group_mid; assumption|].
  apply dblk_map. intros x Hin.
  rewrite wf_children_forallb in Hwc. rewrite forallb_forall in Hwc, Htc. rewrite Forall_forall in IH.
  specialize (Hwc x Hin). specialize (Htc x Hin). specialize (IH x Hin).
  destruct x as [e|g']; cbn [wf_node] in Hwc; [apply dblk_entry; assumption|apply IH; assumption].
Qed.

Lemma blk_memprot m : blk (dump_memprot m).
Proof. unfold dump_memprot. apply blk_start0; [nm|]. walk. Qed.

Lemma blk_icon i : wf_icon i = true -> tx_icon i = true -> blk (dump_icon i).
Proof.
  unfold wf_icon, tx_icon, dump_icon. intros Hw Ht. split_ands. apply blk_start0; [nm|]. walk.
  apply blk_simple; [nm|]. apply b64_chars_ok; assumption.
Qed.

Lemma blk_icons l : forallb wf_icon l = true -> forallb tx_icon l = true -> blk (dump_icons l).
Proof.
  intros Hw Ht. unfold dump_icons. apply blk_start0; [nm|]. walk. apply blk_concat. intros i Hin.
  rewrite forallb_forall in Hw, Ht. apply blk_icon; auto.
Qed.

Section gz.
  Variable gzip : bytes -> bytes.
  Variable gunzip : bytes -> option bytes.

  Lemma binary_attrs_ok b : wf_opt chars_ok (bin_id b) = true ->
    attrs_ok [] (binary_attrs b) = true /\ len_le (binary_attrs b) 65536 = true.
  Proof.
    unfold binary_attrs. destruct (bin_id b) as [i|]; destruct (bin_compressed b); cbn [app wf_opt]; intro Hi;
      (split; [|reflexivity]); cbn [attrs_ok fst snd]; try rewrite Hi; vm_compute; reflexivity.
  Qed.

  Lemma blk_binary b : wf_binary gzip gunzip b = true -> tx_binary gzip b = true -> blk (dump_binary gzip b).
  Proof.
    unfold wf_binary, tx_binary, dump_binary. cbv zeta. intros Hw Ht. split_ands.
    destruct (binary_attrs_ok b) as [Ha Hl]; [assumption|].
    apply blk_start; [nm|exact Ha|exact Hl|]. apply oblk_text. apply b64_chars_ok; assumption.
  Qed.

  Lemma blk_binaries l :
    forallb (wf_binary gzip gunzip) l = true -> forallb (tx_binary gzip) l = true -> blk (dump_binaries gzip l).
  Proof.
    intros Hw Ht. unfold dump_binaries. apply blk_start0; [nm|]. walk. apply blk_concat. intros i Hin.
    rewrite forallb_forall in Hw, Ht. apply blk_binary; auto.
  Qed.

  Lemma blk_meta_head m : wf_meta gzip gunzip m = true -> tx_meta gzip m = true -> blk (meta_head gzip m).
  Proof.
    unfold wf_meta, tx_meta, meta_head. intros Hw Ht. split_ands. walk.
    - destruct (m_memory_protection m) as [p|]; [apply blk_memprot|apply blk_nil].
    - apply blk_icons; assumption.
    - apply blk_binaries; assumption.
  Qed.

  Lemma dblk_meta m : wf_meta gzip gunzip m = true -> tx_meta gzip m = true -> dblk (dump_meta gzip m).
  Proof.
    intros Hw Ht. unfold dump_meta. apply dblk_wrap; [nm|].
    apply dblk_seq; [apply dblk_pure; apply blk_meta_head; assumption|].
    unfold wf_meta in Hw. unfold tx_meta in Ht. split_ands. apply dblk_custom_data; assumption.
  Qed.

  Lemma blk_delobj o : wf_delobj o = true -> blk (dump_delobj o).
  Proof. unfold wf_delobj, dump_delobj. intro Hw. split_ands. apply blk_start0; [nm|]. walk. Qed.

  Lemma blk_deleted l : forallb wf_delobj l = true -> blk (dump_deleted l).
  Proof.
    intro Hw. unfold dump_deleted. apply blk_start0; [nm|]. walk. apply blk_concat. intros o Hin.
    rewrite forallb_forall in Hw. apply blk_delobj; auto.
  Qed.

  Lemma dblk_content c :
    wf_content gzip gunzip c = true -> text_content_ok gzip c = true -> dblk (dump_content gzip c).
  Proof.
    unfold wf_content, text_content_ok, dump_content. intros Hw Ht. split_ands.
    apply dblk_wrap; [nm|]. apply dblk_seq; [apply dblk_meta; assumption|].
    apply dblk_wrap; [nm|]. apply dblk_seq; [apply dblk_group; assumption|].
    apply dblk_pure. apply blk_deleted. assumption.
  Qed.

  Lemma fst_wrap n d ks : fst (wrap n d ks) = EStart n [] :: fst (d ks) ++ [EEnd n].
  Proof. unfold wrap, dseq, dpure. destruct (d ks) as [x k1]. reflexivity. Qed.

  (* ====================================================================================== *)
  (* THE WRITER'S EVENTS ARE IN THE DOMAIN OF THE TEXT ROUND TRIP *)
  Theorem dump_events_wf : forall (c : content) (ks : bytes),
    wf_content gzip gunzip c = true -> text_content_ok gzip c = true -> bytes_ok ks = true ->
    wf_events (dump_events gzip c ks) = true.
  Proof.
    intros c ks Hw Ht Hks. unfold wf_events. apply andb_true_iff. split.
    - unfold dump_events, dump_content. rewrite fst_wrap. reflexivity.
    - destruct (dblk_content c Hw Ht ks Hks) as [Hb _]. unfold dump_events.
      specialize (Hb [] [] eq_refl). rewrite app_nil_r in Hb. exact Hb.
  Qed.

  (* the inverse law of the text layer that SaveOpen.save_open_identity_law takes as a premise *)
  Corollary lex_render_dump : forall (c : content) (ks : bytes),
    wf_content gzip gunzip c = true -> text_content_ok gzip c = true -> bytes_ok ks = true ->
    lex_xml (render_xml (dump_events gzip c ks)) = dump_events gzip c ks.
  Proof. intros c ks Hw Ht Hks. apply lex_render. apply dump_events_wf; assumption. Qed.
End gz.

(* ========================================================================================== *)
(* END TO END with the concrete text layer: the statement of SaveOpen.save_open_identity (props/C03.v,
   c03_save_open_identity) with  render := render_xml,  lex := lex_xml,  the premise
   lex (render (document ...)) = document ...  REMOVED, and the text domain added. *)
Theorem save_open_identity_text :
  forall (sha256 sha512 : bytes -> bytes) (hmac256 : bytes -> bytes -> bytes)
         (kdf : kdfcfg -> bytes -> bytes -> Kdbx4.res bytes)
         (outer_enc outer_dec : ocipher -> bytes -> bytes -> bytes -> Kdbx4.res bytes)
         (compress decompress : compression -> bytes -> Kdbx4.res bytes)
         (gzip : bytes -> bytes) (gunzip : bytes -> option bytes)
         (keystream : icipher -> bytes -> bytes)
         (other_formats : dbversion -> bytes -> Kdbx4.res (list bytes) -> outcome ferr database),
  (forall m, length (sha256 m) = 32%nat) ->
  (forall k m, length (hmac256 k m) = 32%nat) ->
  (forall c key iv p ct, outer_enc c key iv p = Ok ct -> outer_dec c key iv ct = Ok p) ->
  (forall z p c, compress z p = Ok c -> decompress z c = Ok p) ->
  (forall c k, bytes_ok (keystream c k) = true) ->
  forall (cfg : config) (atts : list attachment) (c : content) (d : draws) (vd : vdict)
         (elements : Kdbx4.res (list bytes)) (file : bytes) (minor : N),
  let db := mkDb cfg atts c in
  c_version cfg = KDB4 minor -> minor < 2 ^ 16 ->
  draws_ok cfg d = true ->
  Permutation vd (vd_of_kdf (c_kdf cfg) (d_kdf_seed d)) ->
  kdf_params_ok (c_kdf cfg) = true ->
  atts_ok atts = true ->
  wf_content gzip gunzip c = true ->
  text_content_ok gzip c = true ->
  save_model sha256 sha512 hmac256 kdf outer_enc compress gzip render_xml keystream db d vd elements = Ok file ->
  N.of_nat (length file) < 2 ^ 32 ->
  open_model sha256 sha512 hmac256 kdf outer_dec decompress gunzip lex_xml keystream other_formats file elements = Ok db.
Proof.
  intros sha256 sha512 hmac256 kdf outer_enc outer_dec compress decompress gzip gunzip keystream other_formats
         Hsha Hmac Hdec Hdecomp Hks cfg atts c d vd els file minor db Hver Hminor Hdraws Hperm Hkdf Hatts Hwf Htx
         Hsave Hsize.
  apply (save_open_identity sha256 sha512 hmac256 kdf outer_enc outer_dec compress decompress gzip gunzip
           render_xml lex_xml keystream other_formats Hsha Hmac Hdec Hdecomp Hks
           cfg atts c d vd els file minor Hver Hminor Hdraws Hperm Hkdf Hatts Hwf); [|exact Hsave|exact Hsize].
  unfold document. cbn [db_content db_config].
  apply lex_render_dump with (gunzip := gunzip); [exact Hwf|exact Htx|apply Hks].
Qed.

(* the same for the writer's own order of the KDF dictionary (SaveOpen.save_open_identity_default_order) *)
Corollary save_open_identity_text_default_order :
  forall (sha256 sha512 : bytes -> bytes) (hmac256 : bytes -> bytes -> bytes)
         (kdf : kdfcfg -> bytes -> bytes -> Kdbx4.res bytes)
         (outer_enc outer_dec : ocipher -> bytes -> bytes -> bytes -> Kdbx4.res bytes)
         (compress decompress : compression -> bytes -> Kdbx4.res bytes)
         (gzip : bytes -> bytes) (gunzip : bytes -> option bytes)
         (keystream : icipher -> bytes -> bytes)
         (other_formats : dbversion -> bytes -> Kdbx4.res (list bytes) -> outcome ferr database),
  (forall m, length (sha256 m) = 32%nat) ->
  (forall k m, length (hmac256 k m) = 32%nat) ->
  (forall c key iv p ct, outer_enc c key iv p = Ok ct -> outer_dec c key iv ct = Ok p) ->
  (forall z p c, compress z p = Ok c -> decompress z c = Ok p) ->
  (forall c k, bytes_ok (keystream c k) = true) ->
  forall (cfg : config) (atts : list attachment) (c : content) (d : draws)
         (elements : Kdbx4.res (list bytes)) (file : bytes) (minor : N),
  c_version cfg = KDB4 minor -> minor < 2 ^ 16 ->
  draws_ok cfg d = true -> kdf_params_ok (c_kdf cfg) = true -> atts_ok atts = true ->
  wf_content gzip gunzip c = true ->
  text_content_ok gzip c = true ->
  save_model sha256 sha512 hmac256 kdf outer_enc compress gzip render_xml keystream (mkDb cfg atts c) d
             (vd_of_kdf (c_kdf cfg) (d_kdf_seed d)) elements = Ok file ->
  N.of_nat (length file) < 2 ^ 32 ->
  open_model sha256 sha512 hmac256 kdf outer_dec decompress gunzip lex_xml keystream other_formats file elements
  = Ok (mkDb cfg atts c).
Proof.
  intros sha256 sha512 hmac256 kdf outer_enc outer_dec compress decompress gzip gunzip keystream other_formats
         Hsha Hmac Hdec Hdecomp Hks cfg atts c d els file minor Hver Hminor Hdraws Hkdf Hatts Hwf Htx Hsave Hsize.
  apply (save_open_identity_text sha256 sha512 hmac256 kdf outer_enc outer_dec compress decompress gzip gunzip
           keystream other_formats Hsha Hmac Hdec Hdecomp Hks cfg atts c d _ els file minor Hver Hminor Hdraws
           (Permutation_refl _) Hkdf Hatts Hwf Htx Hsave Hsize).
Qed.

(* ========================================================================================== *)
(* The two domains are inhabited, and [text_content_ok] is NEEDED: contents inside [wf_content] whose
   document the reader does not give back (closed computations; GZip = identity). *)
Module TextDomainExamples.
  Definition gz (b : bytes) : bytes := b.
  Definition gunz (b : bytes) : option bytes := Some b.
  Definition uu (k : N) : bytes := map (fun i => k + i) [0;1;2;3;4;5;6;7;8;9;10;11;12;13;14;15].
  Definition s_Title : bytes := [84;105;116;108;101].
  Definition s_Password : bytes := [80;97;115;115;119;111;114;100].
  Definition mk_entry (title : bytes) (stamp : bytes) : entry :=
    mkEntry (uu 1) [(s_Title, VUnprotected title); (s_Password, VProtected [104;117;110;116;101;114;50])]
            (Some (mkAutoType true None [mkAssoc (Some [119;105;110]) None]))
            [[97;98];[99]] (mkTimes false 3 [(stamp, 1700000000%Z)]) [] (Some 0) None (Some (255, 0, 17)) None
            None None None.
  Definition mk_content (title : bytes) (stamp : bytes) : content :=
    mkContent (set_m_generator (Some [75;80]) (set_m_binaries [mkBinary (Some [48]) true [1;2;3]] meta_default))
              (mkGroup (uu 100) [82;111;111;116] None None None [inl (mk_entry title stamp)]
                       (mkTimes false 0 []) [] true None None None None)
              [mkDelObj (uu 50) 1600000000%Z].
  Definition ks : bytes := [7;200;13;0;255;1;2;3;4;5;6].

  (* a content with a protected value, a tag list, an attachment with attributes, ... in both domains *)
  Definition good : content := mk_content [109;121;32;60;116;105;116;108;101;62;32;38;32;195;169] s_CreationTime.
  Example good_wf : wf_content gz gunz good = true. Proof. vm_compute. reflexivity. Qed.
  Example good_text : text_content_ok gz good = true. Proof. vm_compute. reflexivity. Qed.
  Example good_lex : lex_xml (render_xml (dump_events gz good ks)) = dump_events gz good ks.
  Proof. vm_compute. reflexivity. Qed.

  (* U+0001 in a title: in [wf_content], outside [text_content_ok]; the reader answers an error *)
  Definition bad_char : content := mk_content [97;1;98] s_CreationTime.
  Example bad_char_wf : wf_content gz gunz bad_char = true. Proof. vm_compute. reflexivity. Qed.
  Example bad_char_text : text_content_ok gz bad_char = false. Proof. vm_compute. reflexivity. Qed.
  Example bad_char_lex : lex_xml (render_xml (dump_events gz bad_char ks)) <> dump_events gz bad_char ks.
  Proof. vm_compute. discriminate. Qed.

  (* U+FFFF (EF BF BF) in a title *)
  Definition bad_nonchar : content := mk_content [97;239;191;191] s_CreationTime.
  Example bad_nonchar_wf : wf_content gz gunz bad_nonchar = true. Proof. vm_compute. reflexivity. Qed.
  Example bad_nonchar_text : text_content_ok gz bad_nonchar = false. Proof. vm_compute. reflexivity. Qed.
  Example bad_nonchar_lex : lex_xml (render_xml (dump_events gz bad_nonchar ks)) <> dump_events gz bad_nonchar ks.
  Proof. vm_compute. discriminate. Qed.

  (* a Times key that is not an XML name ("1st"): in [wf_content], outside [text_content_ok] *)
  Definition bad_stamp : content := mk_content [97] [49;115;116].
  Example bad_stamp_wf : wf_content gz gunz bad_stamp = true. Proof. vm_compute. reflexivity. Qed.
  Example bad_stamp_text : text_content_ok gz bad_stamp = false. Proof. vm_compute. reflexivity. Qed.
  Example bad_stamp_lex : lex_xml (render_xml (dump_events gz bad_stamp ks)) <> dump_events gz bad_stamp ks.
  Proof. vm_compute. discriminate. Qed.
End TextDomainExamples.

Print Assumptions dump_events_wf.
Print Assumptions save_open_identity_text_default_order.
Print Assumptions lex_render_dump.
Print Assumptions save_open_identity_text.

(* packaged for props/C12.v *)
Lemma bad_char_refuted :
  wf_content TextDomainExamples.gz TextDomainExamples.gunz TextDomainExamples.bad_char = true /\
  text_content_ok TextDomainExamples.gz TextDomainExamples.bad_char = false /\
  lex_xml (render_xml (dump_events TextDomainExamples.gz TextDomainExamples.bad_char TextDomainExamples.ks))
  <> dump_events TextDomainExamples.gz TextDomainExamples.bad_char TextDomainExamples.ks.
Proof.
  exact (conj TextDomainExamples.bad_char_wf (conj TextDomainExamples.bad_char_text TextDomainExamples.bad_char_lex)).
Qed.

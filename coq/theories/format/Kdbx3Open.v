(* KDBX 3.1 end to end: parse_kdbx3 = the container (Kdbx3.decrypt3) and the XML object mapping (xml/Xml*.v)
   COMPOSED, on a conforming KDBX 3.1 file.

   Mirrors   src/format/kdbx3.rs     parse_kdbx3, decrypt_kdbx3
             src/xml_db/parse/mod.rs parse
             src/db/mod.rs           Database::parse (the dispatch on DatabaseVersion::parse).

   The glue, as read off the Rust:
   - decrypt_kdbx3 builds the inner cipher from the header's INNERRANDOMSTREAMID and the header's
     PROTECTEDSTREAMKEY as it stands (no inner header in KDBX 3.1), and returns it with the configuration
     (version from DatabaseVersion::parse; outer cipher, compression, inner cipher id, AES-KDF rounds from the
     header) and the decompressed bytes of the hashed block stream.  So the XML layer gets
         keystream (h3_inner h) (h3_psk h).
   - parse_kdbx3 hands those bytes and that cipher to xml_db::parse::parse and assembles
         Database { config, header_attachments: Vec::new(), root, deleted_objects, meta };
     an XML error becomes DatabaseIntegrityError::Xml.
   - The crate has no KDBX 3.1 writer.  The CONFORMING DOCUMENT is defined here: the events of the crate's own
     writer for the content ([XmlDump.dump_events], protected values XORed with the stream above) with every
     time stamp re-encoded the way KDBX 3.1 files carry them, as ISO-8601 text ([Kdbx3Time.iso_variant]);
     the CONFORMING FILE is [Kdbx3.frame3] of its text: header fields in any order, comments anywhere, any
     partition of the (compressed) text into blocks.

   Trusted, as variables: SHA-256, the AES-KDF, the outer ciphers, compression, GZip, the inner stream
   generator [keystream], and the text layer of xml-rs ([render], [lex]); exactly as in SaveOpen.v. *)
From Coq Require Import Lia Permutation.
From KP Require Import Bytes Outcome LE LEFacts Version Kdbx4 Kdbx4Proofs Kdbx4Total Kdbx3 Kdbx3Proofs.
From KP Require Import XmlTypes XmlDump XmlParse XmlSpec XmlStream XmlRoundTrip XmlTotal.
From KP Require Import SaveOpen Kdbx3Time.
Local Open Scope N_scope.
Local Open Scope outcome_scope.

Section open3.
  Variables (sha256 : bytes -> bytes)
            (kdf : kdfcfg -> bytes -> bytes -> res bytes)
            (outer_enc outer_dec : ocipher -> bytes -> bytes -> bytes -> res bytes)
            (compress decompress : compression -> bytes -> res bytes).
  Variable gzip : bytes -> bytes.
  Variable gunzip : bytes -> option bytes.
  Variable render : list ev -> bytes.
  Variable lex : bytes -> list ev.
  Variable keystream : icipher -> bytes -> bytes.

  Notation frame3 := (frame3 sha256 kdf outer_enc).
  Notation decrypt3 := (decrypt3 sha256 kdf outer_dec decompress).

  (* -------------------------------------------------------------------------------------- *)
  (* parse_kdbx3 *)
  Definition open3_model (file : bytes) (elements : res (list bytes)) : outcome ferr database :=
    do (ck, xml) <- map_err FContainer (decrypt3 file elements);
    let '(cfg, stream_key) := ck in
    do c <- map_err FXmlRead (parse_events gunzip (lex xml) (keystream (c_inner cfg) stream_key));
    Ok (mkDb cfg [] c).

  (* the configuration a KDBX 3.1 header denotes *)
  Definition config3 (minor : N) (h : header3) : config :=
    mkConfig (KDB3 minor) (h3_cipher h) (h3_compression h) (h3_inner h) (KAes (h3_rounds h)).

  (* the conforming document: the writer's events under the header's stream, time stamps in ISO form *)
  Definition document3 (c : content) (h : header3) : list ev :=
    iso_variant (dump_events gzip c (keystream (h3_inner h) (h3_psk h))).

  (* -------------------------------------------------------------------------------------- *)
  Hypothesis sha256_length : forall x, length (sha256 x) = 32%nat.
  (* decryption gives the plaintext back, possibly followed by padding left in place (the Twofish path) *)
  Hypothesis dec_enc_tail : forall c k iv x e,
    outer_enc c k iv x = Ok e -> exists tail, outer_dec c k iv e = Ok (x ++ tail).
  Hypothesis decompress_compress : forall z p c, compress z p = Ok c -> decompress z c = Ok p.
  Hypothesis keystream_bytes : forall c k, bytes_ok (keystream c k) = true.

  (* THE XML HALF: a container that yields the header's configuration, its protected stream key and the text
     of the conforming document opens as the content *)
  Lemma open3_of_frame c h minor file els :
    wf_content gzip gunzip c = true ->
    lex (render (document3 c h)) = document3 c h ->
    decrypt3 file els = Ok (config3 minor h, h3_psk h, render (document3 c h)) ->
    open3_model file els = Ok (mkDb (config3 minor h) [] c).
  Proof.
    intros Hwf Hlex Hdec. unfold open3_model. rewrite Hdec. cbn [map_err bind]. cbn [config3 c_inner].
    rewrite Hlex. unfold document3. rewrite parse_events_iso_variant.
    rewrite (parse_dump_roundtrip gzip gunzip _ _ Hwf (keystream_bytes _ _)). reflexivity.
  Qed.

  (* ====================================================================================== *)
  (* THE END-TO-END THEOREM for KDBX 3.1 *)
  Theorem open3_roundtrip :
    forall (c : content) (h : header3) (minor : N) (fields : list (N * bytes)) (end_buf : bytes)
           (els : list bytes) (z : bytes) (blocks : list bytes) (file : bytes),
    (* the container's side conditions (frame3_roundtrip_permuted) *)
    minor < 2 ^ 16 ->
    header3_ok h -> N.of_nat (length end_buf) < 2 ^ 16 ->
    Forall (fun f => fst f = 1 -> short16 (snd f)) fields ->
    Permutation (filter non_comment fields) (canonical_fields h) ->
    length (h3_start h) = 32%nat ->
    (* the object mapping's side condition (parse_dump_roundtrip) *)
    wf_content gzip gunzip c = true ->
    (* xml-rs reads back the events of the document that was written *)
    lex (render (document3 c h)) = document3 c h ->
    (* its text, compressed, cut into blocks in any way *)
    compress (h3_compression h) (render (document3 c h)) = Ok z ->
    concat blocks = z -> Forall block_ok blocks ->
    frame3 minor fields end_buf h els blocks = Ok file ->
    open3_model file (Ok els) = Ok (mkDb (config3 minor h) [] c).
  Proof.
    intros c h minor fields end_buf els z blocks file Hm Hh He Hc Hp Hst Hwf Hlex Hz Hcat Hblocks Hframe.
    apply (open3_of_frame c h minor file (Ok els) Hwf Hlex).
    apply (frame3_roundtrip_permuted sha256 kdf outer_enc outer_dec decompress sha256_length dec_enc_tail
             minor fields end_buf h els blocks file (render (document3 c h))); try assumption.
    rewrite Hcat. apply (decompress_compress _ _ _ Hz).
  Qed.

  (* the same with the text layer's inverse law stated once and for all, for the ISO variants of the documents
     of well-formed contents *)
  Corollary open3_roundtrip_law :
    (forall c ks, wf_content gzip gunzip c = true -> bytes_ok ks = true ->
                  lex (render (iso_variant (dump_events gzip c ks))) = iso_variant (dump_events gzip c ks)) ->
    forall c h minor fields end_buf els z blocks file,
    minor < 2 ^ 16 -> header3_ok h -> N.of_nat (length end_buf) < 2 ^ 16 ->
    Forall (fun f => fst f = 1 -> short16 (snd f)) fields ->
    Permutation (filter non_comment fields) (canonical_fields h) ->
    length (h3_start h) = 32%nat ->
    wf_content gzip gunzip c = true ->
    compress (h3_compression h) (render (document3 c h)) = Ok z ->
    concat blocks = z -> Forall block_ok blocks ->
    frame3 minor fields end_buf h els blocks = Ok file ->
    open3_model file (Ok els) = Ok (mkDb (config3 minor h) [] c).
  Proof.
    intros Hlaw c h minor fields end_buf els z blocks file Hm Hh He Hc Hp Hst Hwf Hz Hcat Hblocks Hframe.
    apply (open3_roundtrip c h minor fields end_buf els z blocks file); try assumption.
    unfold document3. apply Hlaw; [exact Hwf|apply keystream_bytes].
  Qed.

  (* a document with the writer's own base64 time stamps is a KDBX 3.1 document as well (the reader takes
     both forms; files written by other programs for KDBX 4 carry base64) *)
  Theorem open3_roundtrip_base64 :
    forall c h minor fields end_buf els z blocks file,
    minor < 2 ^ 16 -> header3_ok h -> N.of_nat (length end_buf) < 2 ^ 16 ->
    Forall (fun f => fst f = 1 -> short16 (snd f)) fields ->
    Permutation (filter non_comment fields) (canonical_fields h) ->
    length (h3_start h) = 32%nat ->
    wf_content gzip gunzip c = true ->
    let doc := dump_events gzip c (keystream (h3_inner h) (h3_psk h)) in
    lex (render doc) = doc ->
    compress (h3_compression h) (render doc) = Ok z ->
    concat blocks = z -> Forall block_ok blocks ->
    frame3 minor fields end_buf h els blocks = Ok file ->
    open3_model file (Ok els) = Ok (mkDb (config3 minor h) [] c).
  Proof.
    intros c h minor fields end_buf els z blocks file Hm Hh He Hc Hp Hst Hwf doc Hlex Hz Hcat Hblocks Hframe.
    assert (Hdec : decrypt3 file (Ok els) = Ok (config3 minor h, h3_psk h, render doc)).
    { apply (frame3_roundtrip_permuted sha256 kdf outer_enc outer_dec decompress sha256_length dec_enc_tail
               minor fields end_buf h els blocks file (render doc)); try assumption.
      rewrite Hcat. apply (decompress_compress _ _ _ Hz). }
    unfold open3_model. rewrite Hdec. cbn [map_err bind]. cbn [config3 c_inner]. rewrite Hlex. unfold doc.
    rewrite (parse_dump_roundtrip gzip gunzip _ _ Hwf (keystream_bytes _ _)). reflexivity.
  Qed.

  (* Database::parse reaches parse_kdbx3 on such a file: with the legacy readers of [SaveOpen.open_model]
     instantiated by any function that is [open3_model] on KDBX 3 versions, Database::open gives the content *)
  Lemma frame3_version minor fields end_buf h els blocks file :
    minor < 2 ^ 16 -> frame3 minor fields end_buf h els blocks = Ok file -> version_parse file = Ok (KDB3 minor).
  Proof using.
    intros Hm Hframe.
    destruct (frame3_inv sha256 kdf outer_enc _ _ _ _ _ _ _ Hframe) as (t & enc & _ & _ & ->).
    unfold header_dump3. rewrite <- app_assoc. apply version_parse_dump3. exact Hm.
  Qed.

  Corollary open_model_kdbx3 sha512 hmac256 decompress4 other :
    (forall m f e, other (KDB3 m) f e = open3_model f e) ->
    forall c h minor fields end_buf els z blocks file,
    minor < 2 ^ 16 -> header3_ok h -> N.of_nat (length end_buf) < 2 ^ 16 ->
    Forall (fun f => fst f = 1 -> short16 (snd f)) fields ->
    Permutation (filter non_comment fields) (canonical_fields h) ->
    length (h3_start h) = 32%nat ->
    wf_content gzip gunzip c = true ->
    lex (render (document3 c h)) = document3 c h ->
    compress (h3_compression h) (render (document3 c h)) = Ok z ->
    concat blocks = z -> Forall block_ok blocks ->
    frame3 minor fields end_buf h els blocks = Ok file ->
    open_model sha256 sha512 hmac256 kdf outer_dec decompress4 gunzip lex keystream other file (Ok els)
    = Ok (mkDb (config3 minor h) [] c).
  Proof.
    intros Hother c h minor fields end_buf els z blocks file Hm Hh He Hc Hp Hst Hwf Hlex Hz Hcat Hblocks Hframe.
    unfold open_model. rewrite (frame3_version _ _ _ _ _ _ _ Hm Hframe). rewrite Hother.
    apply (open3_roundtrip c h minor fields end_buf els z blocks file); assumption.
  Qed.

  (* ====================================================================================== *)
  (* WRONG KEY: a payload that does not begin with the stream-start bytes is answered with IncorrectKey,
     before any block is read, anything is decompressed or any XML is parsed *)
  Theorem open3_wrong_key minor fields end_buf h els blocks file e' t' p :
    minor < 2 ^ 16 -> header3_ok h -> N.of_nat (length end_buf) < 2 ^ 16 ->
    Forall (fun f => fst f = 1 -> short16 (snd f)) fields ->
    Permutation (filter non_comment fields) (canonical_fields h) ->
    length (h3_start h) = 32%nat ->
    frame3 minor fields end_buf h els blocks = Ok file ->
    kdf (KAes (h3_rounds h)) (h3_transform_seed h) (sha256 (concat e')) = Ok t' ->
    outer_dec (h3_cipher h) (sha256 (h3_master_seed h ++ t')) (h3_iv h)
              (drop (length (header_dump3 minor fields end_buf)) file) = Ok p ->
    take 32 p <> h3_start h ->
    open3_model file (Ok e') = Err (FContainer EIncorrectKey).
  Proof using.
    intros Hm Hh He Hc Hp Hst Hframe Ek Ed Hne. unfold open3_model.
    rewrite (frame3_wrong_start sha256 kdf outer_enc outer_dec decompress minor fields end_buf h els blocks file e' t' p);
      try assumption; [reflexivity| |].
    - apply (permuted_fields_ok h); assumption.
    - apply (permuted_fields_fold h); [|exact Hp]. destruct Hh as (_ & _ & Hr & _). exact Hr.
  Qed.

  (* no credentials: a key error *)
  Theorem open3_no_credentials file e db : open3_model file (Err e) <> Ok db.
  Proof using.
    unfold open3_model, Kdbx3.decrypt3. intro H.
    destruct (version_parse file) as [v|e0|n|]; cbn [map_err bind] in H; try discriminate H.
    destruct (parse_outer_header3 file) as [[h0 bs]|e0|n|]; cbn [map_err bind] in H; try discriminate H.
    destruct (negb (inner_key_ok (h3_inner h0) (h3_psk h0))); cbn [map_err bind] in H; discriminate H.
  Qed.

  (* ====================================================================================== *)
  (* TOTALITY: any bytes; no well-formedness, no inverse law *)
  Theorem open3_total file elements :
    good elements ->
    (forall k s c, good (kdf k s c)) ->
    (forall c k iv p, good (outer_dec c k iv p)) ->
    (forall z p, good (decompress z p)) ->
    good (open3_model file elements).
  Proof using.
    intros Hels Hkdf Hdec Hz. unfold open3_model.
    apply good_bind; [apply good_map_err; apply decrypt3_total; assumption|].
    intros [[cfg key] xml] _.
    apply good_bind; [|intros; exact I]. apply good_map_err.
    destruct (parse_events_total gunzip (lex xml) (keystream (c_inner cfg) key)) as [[c E]|[e E]];
      rewrite E; exact I.
  Qed.

  Corollary open3_never_panics_never_hangs file elements :
    good elements ->
    (forall k s c, good (kdf k s c)) ->
    (forall c k iv p, good (outer_dec c k iv p)) ->
    (forall z p, good (decompress z p)) ->
    (forall n, open3_model file elements <> Panic n) /\ open3_model file elements <> OutOfFuel.
  Proof using. intros. apply good_spec. apply open3_total; assumption. Qed.
End open3.

(* ========================================================================================== *)
(* the ISO form of the writer's time-stamp elements, precisely: for a stamp name and an instant in
   0001-01-01T00:00:00 .. 9999-12-31T23:59:59 the element <Name>base64</Name> becomes <Name>ISO text</Name> *)
Lemma iso_variant_time_element name t rest :
  is_time_name name = true -> iso_range t ->
  iso_variant (simple name (fmt_time t) ++ rest) = simple name (fmt_iso t) ++ iso_variant rest.
Proof.
  intros Hn Ht. unfold simple. rewrite (emit_chars_text _ (XmlCodecProofs.fmt_time_not_ws t)).
  rewrite (emit_chars_text _ (fmt_iso_not_ws t Ht)).
  unfold iso_variant, time_variant. cbn [app ivf]. rewrite Hn. rewrite (to_iso_fmt_time t Ht). reflexivity.
Qed.

(* elements with other names are left as they are *)
Lemma iso_variant_other_element name text rest :
  is_time_name name = false ->
  iso_variant (simple name text ++ rest) = simple name text ++ iso_variant rest.
Proof.
  intro Hn. unfold simple, emit_chars, iso_variant, time_variant.
  destruct (ws_only text); cbn [app ivf]; try rewrite Hn; reflexivity.
Qed.

(* ========================================================================================== *)
(* NON-VACUITY.  The toy primitives and the database of SaveOpen.Toy; a KDBX 3.1 header with permuted fields
   and comments; the text of the ISO document GZip-"compressed" and cut into three blocks. *)
Module Toy3.
  Import SaveOpen.Toy.

  Definition the_header : header3 :=
    mkH3 OTwofish CGzip (map N.of_nat (seq 1 32)) (map N.of_nat (seq 40 32)) 6000 (zeros 16)
         (map N.of_nat (seq 90 32)) (map N.of_nat (seq 130 32)) ISalsa20.
  Definition the_fields : list (N * bytes) :=
    [(1, [104; 105])] ++ rev (canonical_fields the_header) ++ [(1, [])].
  Definition the_els : list bytes := [sha256 [112; 119]].

  Definition doc : list ev := document3 gzip keystream the_content the_header.
  Definition xml : bytes := render doc.
  Definition the_blocks : list bytes := [take 100 xml; take 1 (drop 100 xml); drop 101 xml].

  Definition open3 := open3_model sha256 kdf cipher zip gunzip lex keystream.
  Definition the_file : bytes :=
    match frame3 sha256 kdf cipher 1 the_fields [13; 10; 13; 10] the_header the_els the_blocks with Ok f => f | _ => [] end.
  Definition the_config : config := mkConfig (KDB3 1) OTwofish CGzip ISalsa20 (KAes 6000).

  (* by evaluation *)
  Example open3_computed : open3 the_file (Ok the_els) = Ok (mkDb the_config [] the_content).
  Proof. vm_compute. reflexivity. Qed.

  (* the document does carry an ISO text where the writer's document carries base64: the deletion time
     1700000000 = 2023-11-14T22:13:20Z *)
  Example doc_is_iso :
    In (EChars [50;48;50;51;45;49;49;45;49;52;84;50;50;58;49;51;58;50;48;90]) doc
    /\ ~ In (EChars (fmt_time 1700000000)) doc
    /\ In (EChars (fmt_time 1700000000)) (dump_events gzip the_content (keystream ISalsa20 (h3_psk the_header))).
  Proof.
    split; [|split].
    - vm_compute. tauto.
    - vm_compute. intuition discriminate.
    - vm_compute. tauto.
  Qed.

  (* by the theorem: all its hypotheses hold of the toy *)
  Example open3_by_theorem : open3 the_file (Ok the_els) = Ok (mkDb the_config [] the_content).
  Proof.
    unfold open3.
    apply (open3_roundtrip sha256 kdf cipher cipher zip zip gzip gunzip render lex keystream)
      with (minor := 1) (fields := the_fields) (end_buf := [13; 10; 13; 10]) (z := xml) (blocks := the_blocks)
           (h := the_header) (els := the_els).
    - intro x. reflexivity.                                                  (* sha256_length *)
    - intros c k iv x e H. unfold cipher in H. injection H as <-. exists []. rewrite app_nil_r. reflexivity.
    - intros z p c H. unfold zip in *. congruence.                           (* decompress_compress *)
    - exact keystream_bytes.
    - reflexivity.
    - unfold header3_ok, short16. vm_compute. repeat split.
    - reflexivity.
    - apply Forall_forall. intros f Hin _. unfold short16.
      assert (Hall : forallb (fun f => N.ltb (N.of_nat (length (snd f))) (2 ^ 16)) the_fields = true)
        by (vm_compute; reflexivity).
      rewrite forallb_forall in Hall. apply N.ltb_lt. exact (Hall f Hin).
    - assert (Hf : filter non_comment the_fields = rev (canonical_fields the_header)) by (vm_compute; reflexivity).
      rewrite Hf. apply Permutation_sym, Permutation_rev.
    - reflexivity.
    - vm_compute. reflexivity.                                               (* wf_content *)
    - vm_compute. reflexivity.                                               (* lex (render doc) = doc *)
    - reflexivity.
    - vm_compute. reflexivity.                                               (* the partition *)
    - unfold the_blocks, block_ok. repeat constructor; try (vm_compute; discriminate); vm_compute; reflexivity.
    - vm_compute. reflexivity.
  Qed.

  (* the wrong key elements; arbitrary bytes *)
  Example open3_garbage : open3 (zeros 100) (Ok the_els) = Err (FContainer EIdentifier).
  Proof. vm_compute. reflexivity. Qed.
  Example open3_truncated : open3 (take 400 the_file) (Ok the_els) = Err (FContainer EBlockHash).
  Proof. vm_compute. reflexivity. Qed.
  Example open3_no_key : open3 the_file (Err EIncorrectKey) = Err (FContainer EIncorrectKey).
  Proof. vm_compute. reflexivity. Qed.
  (* an ISO text that is not a date makes the document unreadable: the reader falls back to base64 *)
  Example open3_bad_stamp :
    parse_events gunzip
      (map (fun e => match e with
                     | EChars [50;48;50;51;45;49;49;45;49;52;84;50;50;58;49;51;58;50;48;90] =>
                       EChars [50;48;50;51;45;49;51;45;49;52;84;50;50;58;49;51;58;50;48;90]   (* month 13 *)
                     | e => e end) doc)
      (keystream ISalsa20 (h3_psk the_header)) = Err XBase64.
  Proof. vm_compute. reflexivity. Qed.
End Toy3.

Print Assumptions open3_roundtrip.
Print Assumptions open3_roundtrip_law.
Print Assumptions open3_roundtrip_base64.
Print Assumptions open_model_kdbx3.
Print Assumptions open3_wrong_key.
Print Assumptions open3_total.
Print Assumptions open3_never_panics_never_hangs.
Print Assumptions iso_variant_time_element.

(* Credentials (C20, C04).  Mirrors src/key.rs: parse_xml_keyfile (on the events xml-rs delivers),
   parse_keyfile, DatabaseKey::get_key_elements, and the composite key of the three formats. *)
From KP Require Import Bytes Outcome LE Base64 Utf8.
Local Open Scope N_scope.

(* what the loop over xml::reader::EventReader sees *)
Inductive xev :=
| XStart (local_name : bytes)
| XEnd
| XChars (s : bytes)
| XOther               (* whitespace, comments, processing instructions, document start/end, CDATA ... *)
| XErr.                (* the reader reports an error: the loop returns it *)

Definition s_KeyFile : bytes := [75;101;121;70;105;108;101].
Definition s_Meta : bytes := [77;101;116;97].
Definition s_Version : bytes := [86;101;114;115;105;111;110].
Definition s_Key : bytes := [75;101;121].
Definition s_Data : bytes := [68;97;116;97].
Definition s_2_0 : bytes := [50;46;48].

Definition stack_is (stack : list bytes) (want : list bytes) : bool := list_eqb bytes_eqb stack want.

(* returns None on an XML error, else (version text, data text) - the last occurrence of each wins.
   [stack] is innermost-last, as the Vec in the code *)
Fixpoint kf_scan (evs : list xev) (stack : list bytes) (ver val : option bytes)
  : option (option bytes * option bytes) :=
  match evs with
  | [] => Some (ver, val)
  | ev :: r =>
    match ev with
    | XErr => None
    | XStart n => kf_scan r (stack ++ [n]) ver val
    | XEnd => kf_scan r (removelast stack) ver val
    | XChars s =>
      if stack_is stack [s_KeyFile; s_Meta; s_Version] then kf_scan r stack (Some s) val
      else if stack_is stack [s_KeyFile; s_Key; s_Data] then kf_scan r stack ver (Some s)
      else kf_scan r stack ver val
    | XOther => kf_scan r stack ver val
    end
  end.

(* UTF-8 decoding of a valid string into code points *)
Fixpoint utf8_points (fuel : nat) (l : bytes) : list N :=
  match fuel with
  | O => []
  | S f =>
    match l with
    | [] => []
    | b0 :: r0 =>
      if N.ltb b0 128 then b0 :: utf8_points f r0
      else if N.ltb b0 224 then
        match r0 with b1 :: r1 => ((b0 mod 32) * 64 + b1 mod 64) :: utf8_points f r1 | _ => [] end
      else if N.ltb b0 240 then
        match r0 with b1 :: b2 :: r2 => ((b0 mod 16) * 4096 + (b1 mod 64) * 64 + b2 mod 64) :: utf8_points f r2 | _ => [] end
      else
        match r0 with b1 :: b2 :: b3 :: r3 => ((b0 mod 8) * 262144 + (b1 mod 64) * 4096 + (b2 mod 64) * 64 + b3 mod 64) :: utf8_points f r3 | _ => [] end
    end
  end.

(* char::is_whitespace (Unicode White_Space) *)
Definition is_whitespace (c : N) : bool :=
  (N.leb 9 c && N.leb c 13) || N.eqb c 32 || N.eqb c 133 || N.eqb c 160 || N.eqb c 5760
  || (N.leb 8192 c && N.leb c 8202) || N.eqb c 8232 || N.eqb c 8233 || N.eqb c 8239
  || N.eqb c 8287 || N.eqb c 12288.

Definition hexv (c : N) : option N :=
  if N.leb 48 c && N.leb c 57 then Some (c - 48)
  else if N.leb 97 c && N.leb c 102 then Some (c - 87)
  else if N.leb 65 c && N.leb c 70 then Some (c - 55)
  else None.

(* hex::decode on a sequence of code points: even length, hex digits only *)
Fixpoint hex_decode (l : list N) : option bytes :=
  match l with
  | [] => Some []
  | a :: b :: r =>
    match hexv a, hexv b, hex_decode r with
    | Some x, Some y, Some t => Some ((x * 16 + y) :: t)
    | _, _, _ => None
    end
  | _ => None
  end.

Inductive keyerr := KIncorrectKey | KInvalidKeyFile.

(* parse_xml_keyfile *)
Definition parse_xml_keyfile (evs : list xev) : option bytes :=
  match kf_scan evs [] None None with
  | None => None                                     (* XML error *)
  | Some (_, None) => None                           (* InvalidKeyFile *)
  | Some (ver, Some data) =>
    if option_eqb bytes_eqb ver (Some s_2_0) then
      let trimmed := filter (fun c => negb (is_whitespace c)) (utf8_points (length data) data) in
      match hex_decode trimmed with Some k => Some k | None => Some data end
    else
      match b64_decode data with Some k => Some k | None => Some data end
  end.

Section key.
  Variable sha256 : bytes -> bytes.

  (* parse_keyfile: XML, else 32 raw bytes, else the hash of the file *)
  Definition parse_keyfile (buffer : bytes) (evs : list xev) : bytes :=
    match parse_xml_keyfile evs with
    | Some k => k
    | None => if Nat.eqb (length buffer) 32 then buffer else sha256 buffer
    end.

  (* DatabaseKey::get_key_elements: password hash first, then the key-file key *)
  Definition key_elements (password : option bytes) (keyfile : option (bytes * list xev)) : outcome keyerr (list bytes) :=
    let p := match password with Some pw => [sha256 pw] | None => [] end in
    let k := match keyfile with Some (buf, evs) => [parse_keyfile buf evs] | None => [] end in
    match p ++ k with
    | [] => Err KIncorrectKey
    | els => Ok els
    end.

  (* KDBX 3.1 / 4: one more SHA-256 over the concatenated elements *)
  Definition composite_kdbx (els : list bytes) : bytes := sha256 (concat els).
  (* KDB: a lone element is used as it is (it must be 32 bytes); otherwise as KDBX *)
  Definition composite_kdb (els : list bytes) : outcome keyerr bytes :=
    match els with
    | [e] => if Nat.eqb (length e) 32 then Ok e else Err KInvalidKeyFile
    | _ => Ok (sha256 (concat els))
    end.
End key.

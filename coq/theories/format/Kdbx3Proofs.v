(* KDBX 3.1 container framing (C02): the reader inverts every conforming writer, rejects a wrong
   stream start, and is total.

   (R1) tlv16_field                     one u16-length TLV
   (R2) fields3_dump, parse_outer_header3_dump, parse_outer_header3_canonical,
        parse_outer_header3_permuted    any number of header fields, any order, comments anywhere,
                                        last occurrence wins
   (R3) read_write_blocks3              any partition of the payload into non-empty blocks
   (R4) frame3_roundtrip                decrypt3 (frame3 ...) gives the configuration, the inner stream key, the XML
   (R5) decrypt3_wrong_start, frame3_wrong_start
   (R6) fields3_good, read_blocks3_good, parse_outer_header3_good, decrypt3_total
                                        never Panic, never OutOfFuel, on every byte string *)
From Coq Require Import Lia ZifyN ZifyNat ZifyBool.
From Coq Require Import Permutation.
From KP Require Import Bytes Outcome LE LEFacts Version Kdbx4 Kdbx4Proofs Kdbx4Total Kdbx3.
Local Open Scope N_scope.

(* ---------- (R1) one TLV ---------- *)
Lemma field16_length ty (b : bytes) : length (field16 ty b) = (3 + length b)%nat.
Proof. unfold field16. rewrite !app_length, le_enc_length. reflexivity. Qed.

Theorem tlv16_field ty (b rest : bytes) :
  N.of_nat (length b) < 2 ^ 16 -> tlv16 (field16 ty b ++ rest) = Some (ty, b, rest).
Proof.
  intro Hb. unfold field16. cbn [app]. rewrite <- app_assoc. unfold tlv16. cbv zeta.
  rewrite app_length, le_enc_length.
  replace (Nat.ltb (2 + length (b ++ rest)) 2) with false by (symmetry; apply Nat.ltb_ge; lia).
  rewrite (take_app_len 2) by apply le_enc_length. rewrite (drop_app_len 2) by apply le_enc_length.
  rewrite le_dec_enc2 by exact Hb. rewrite fits_app. cbn [negb].
  rewrite Nat2N.id, take_app_exact, drop_app_exact. reflexivity.
Qed.

(* ---------- (R2) header fields ---------- *)
Definition set_cipher (a : acc3) (c : ocipher) : acc3 :=
  mkA3 (Some c) (a3_compression a) (a3_master_seed a) (a3_transform_seed a) (a3_rounds a) (a3_iv a) (a3_psk a) (a3_start a) (a3_inner a).
Definition set_compression (a : acc3) (z : compression) : acc3 :=
  mkA3 (a3_cipher a) (Some z) (a3_master_seed a) (a3_transform_seed a) (a3_rounds a) (a3_iv a) (a3_psk a) (a3_start a) (a3_inner a).
Definition set_master_seed (a : acc3) (b : bytes) : acc3 :=
  mkA3 (a3_cipher a) (a3_compression a) (Some b) (a3_transform_seed a) (a3_rounds a) (a3_iv a) (a3_psk a) (a3_start a) (a3_inner a).
Definition set_transform_seed (a : acc3) (b : bytes) : acc3 :=
  mkA3 (a3_cipher a) (a3_compression a) (a3_master_seed a) (Some b) (a3_rounds a) (a3_iv a) (a3_psk a) (a3_start a) (a3_inner a).
Definition set_rounds (a : acc3) (r : N) : acc3 :=
  mkA3 (a3_cipher a) (a3_compression a) (a3_master_seed a) (a3_transform_seed a) (Some r) (a3_iv a) (a3_psk a) (a3_start a) (a3_inner a).
Definition set_iv (a : acc3) (b : bytes) : acc3 :=
  mkA3 (a3_cipher a) (a3_compression a) (a3_master_seed a) (a3_transform_seed a) (a3_rounds a) (Some b) (a3_psk a) (a3_start a) (a3_inner a).
Definition set_psk (a : acc3) (b : bytes) : acc3 :=
  mkA3 (a3_cipher a) (a3_compression a) (a3_master_seed a) (a3_transform_seed a) (a3_rounds a) (a3_iv a) (Some b) (a3_start a) (a3_inner a).
Definition set_start (a : acc3) (b : bytes) : acc3 :=
  mkA3 (a3_cipher a) (a3_compression a) (a3_master_seed a) (a3_transform_seed a) (a3_rounds a) (a3_iv a) (a3_psk a) (Some b) (a3_inner a).
Definition set_inner (a : acc3) (c : icipher) : acc3 :=
  mkA3 (a3_cipher a) (a3_compression a) (a3_master_seed a) (a3_transform_seed a) (a3_rounds a) (a3_iv a) (a3_psk a) (a3_start a) (Some c).

(* what one field does to the accumulator: the last occurrence of a type wins; type 1 is a comment *)
Definition apply_field (a : acc3) (f : N * bytes) : acc3 :=
  let ty := fst f in let buf := snd f in
  if N.eqb ty 2 then match ocipher_of_id buf with Some c => set_cipher a c | None => a end
  else if N.eqb ty 3 then match compression_of_id (le32 buf) with Some z => set_compression a z | None => a end
  else if N.eqb ty 4 then set_master_seed a buf
  else if N.eqb ty 5 then set_transform_seed a buf
  else if N.eqb ty 6 then set_rounds a (le_dec (take 8 buf))
  else if N.eqb ty 7 then set_iv a buf
  else if N.eqb ty 8 then set_psk a buf
  else if N.eqb ty 9 then set_start a buf
  else if N.eqb ty 10 then match icipher_of_id (le32 buf) with Some c => set_inner a c | None => a end
  else a.

Definition short16 (b : bytes) : Prop := N.of_nat (length b) < 2 ^ 16.

(* a field the reader accepts *)
Inductive field_ok : N * bytes -> Prop :=
| ok_comment b : short16 b -> field_ok (1, b)
| ok_cipher c : field_ok (2, ocipher_id c)
| ok_compression b z : short16 b -> (4 <= length b)%nat -> compression_of_id (le32 b) = Some z -> field_ok (3, b)
| ok_master_seed b : short16 b -> field_ok (4, b)
| ok_transform_seed b : short16 b -> field_ok (5, b)
| ok_rounds b : short16 b -> (8 <= length b)%nat -> field_ok (6, b)
| ok_iv b : short16 b -> field_ok (7, b)
| ok_psk b : short16 b -> field_ok (8, b)
| ok_start b : short16 b -> field_ok (9, b)
| ok_inner b c : short16 b -> (4 <= length b)%nat -> icipher_of_id (le32 b) = Some c -> field_ok (10, b).

(* the same as a decision procedure *)
Definition is_some {A} (o : option A) : bool := match o with Some _ => true | None => false end.
Definition field_okb (f : N * bytes) : bool :=
  let ty := fst f in let buf := snd f in
  N.ltb (N.of_nat (length buf)) (2 ^ 16) &&
  (if N.eqb ty 1 then true
   else if N.eqb ty 2 then is_some (ocipher_of_id buf)
   else if N.eqb ty 3 then Nat.leb 4 (length buf) && is_some (compression_of_id (le32 buf))
   else if N.eqb ty 4 then true
   else if N.eqb ty 5 then true
   else if N.eqb ty 6 then Nat.leb 8 (length buf)
   else if N.eqb ty 7 then true
   else if N.eqb ty 8 then true
   else if N.eqb ty 9 then true
   else if N.eqb ty 10 then Nat.leb 4 (length buf) && is_some (icipher_of_id (le32 buf))
   else false).

Lemma ocipher_of_id_some b c : ocipher_of_id b = Some c -> b = ocipher_id c.
Proof.
  unfold ocipher_of_id.
  destruct (bytes_eqb b cs_aes256) eqn:E1; [intro H; injection H as <-; apply bytes_eqb_eq; exact E1|].
  destruct (bytes_eqb b cs_twofish) eqn:E2; [intro H; injection H as <-; apply bytes_eqb_eq; exact E2|].
  destruct (bytes_eqb b cs_chacha20) eqn:E3; [intro H; injection H as <-; apply bytes_eqb_eq; exact E3|].
  discriminate.
Qed.

Lemma field_ok_short ty b : field_ok (ty, b) -> short16 b.
Proof.
  intro H. inversion H; subst; try assumption.
  unfold short16. rewrite ocipher_id_length, pow2_16. lia.
Qed.

Lemma field_okb_ok f : field_okb f = true -> field_ok f.
Proof.
  destruct f as [ty buf]. unfold field_okb. cbn [fst snd]. intro H.
  apply andb_true_iff in H. destruct H as [Hs H]. apply N.ltb_lt in Hs. fold (short16 buf) in Hs.
  destruct (N.eqb_spec ty 1) as [->|_]; [apply ok_comment; exact Hs|].
  destruct (N.eqb_spec ty 2) as [->|_].
  { destruct (ocipher_of_id buf) as [c|] eqn:E; [|discriminate H].
    apply ocipher_of_id_some in E. subst buf. apply ok_cipher. }
  destruct (N.eqb_spec ty 3) as [->|_].
  { apply andb_true_iff in H. destruct H as [H4 H]. apply Nat.leb_le in H4.
    destruct (compression_of_id (le32 buf)) as [z|] eqn:E; [|discriminate H].
    apply (ok_compression buf z); assumption. }
  destruct (N.eqb_spec ty 4) as [->|_]; [apply ok_master_seed; exact Hs|].
  destruct (N.eqb_spec ty 5) as [->|_]; [apply ok_transform_seed; exact Hs|].
  destruct (N.eqb_spec ty 6) as [->|_]; [apply Nat.leb_le in H; apply ok_rounds; assumption|].
  destruct (N.eqb_spec ty 7) as [->|_]; [apply ok_iv; exact Hs|].
  destruct (N.eqb_spec ty 8) as [->|_]; [apply ok_psk; exact Hs|].
  destruct (N.eqb_spec ty 9) as [->|_]; [apply ok_start; exact Hs|].
  destruct (N.eqb_spec ty 10) as [->|_]; [|discriminate H].
  apply andb_true_iff in H. destruct H as [H4 H]. apply Nat.leb_le in H4.
  destruct (icipher_of_id (le32 buf)) as [c|] eqn:E; [|discriminate H].
  apply (ok_inner buf c); assumption.
Qed.

Lemma field_ok_okb f : field_ok f -> field_okb f = true.
Proof.
  intro H. pose proof H as Hs. destruct f as [ty b]. apply field_ok_short in Hs.
  apply N.ltb_lt in Hs. unfold field_okb. cbn [fst snd]. rewrite Hs. cbn [andb]. clear Hs.
  inversion H as [b0 Hb|c|b0 z Hb H4 Hz|b0 Hb|b0 Hb|b0 Hb H8|b0 Hb|b0 Hb|b0 Hb|b0 c Hb H4 Hc]; subst;
    cbn [N.eqb Pos.eqb]; try reflexivity.
  - rewrite ocipher_of_id_id. reflexivity.
  - rewrite Hz. apply Nat.leb_le in H4. rewrite H4. reflexivity.
  - apply Nat.leb_le. exact H8.
  - rewrite Hc. apply Nat.leb_le in H4. rewrite H4. reflexivity.
Qed.

Theorem field_okb_spec f : field_okb f = true <-> field_ok f.
Proof. split; [apply field_okb_ok|apply field_ok_okb]. Qed.

Lemma Forall_field_okb fields : forallb field_okb fields = true -> Forall field_ok fields.
Proof. intro H. apply Forall_forall. intros f Hin. apply field_okb_ok. rewrite forallb_forall in H. apply H. exact Hin. Qed.

(* the statement of well-formedness in the words of the format *)
Theorem field_ok_spec ty buf :
  field_ok (ty, buf) <->
  N.of_nat (length buf) < 2 ^ 16 /\
  (ty = 1 \/ (ty = 2 /\ exists c, buf = ocipher_id c)
   \/ (ty = 3 /\ (4 <= length buf)%nat /\ compression_of_id (le32 buf) <> None)
   \/ ty = 4 \/ ty = 5 \/ (ty = 6 /\ (8 <= length buf)%nat) \/ ty = 7 \/ ty = 8 \/ ty = 9
   \/ (ty = 10 /\ (4 <= length buf)%nat /\ icipher_of_id (le32 buf) <> None)).
Proof.
  split.
  - intro H. split; [exact (field_ok_short ty buf H)|].
    inversion H as [b0 Hb|c|b0 z Hb H4 Hz|b0 Hb|b0 Hb|b0 Hb H8|b0 Hb|b0 Hb|b0 Hb|b0 c Hb H4 Hc]; subst.
    + left. reflexivity.
    + right. left. split; [reflexivity|]. exists c. reflexivity.
    + right. right. left. repeat split; [exact H4|]. rewrite Hz. discriminate.
    + do 3 right. left. reflexivity.
    + do 4 right. left. reflexivity.
    + do 5 right. left. split; [reflexivity|exact H8].
    + do 6 right. left. reflexivity.
    + do 7 right. left. reflexivity.
    + do 8 right. left. reflexivity.
    + do 9 right. repeat split; [exact H4|]. rewrite Hc. discriminate.
  - intros [Hs H]. fold (short16 buf) in Hs.
    destruct H as [->|[[-> [c ->]]|[[-> [H4 Hz]]|[->|[->|[[-> H8]|[->|[->|[->|[-> [H4 Hc]]]]]]]]]]].
    + apply ok_comment; exact Hs.
    + apply ok_cipher.
    + destruct (compression_of_id (le32 buf)) as [z|] eqn:E; [|congruence]. apply (ok_compression buf z); assumption.
    + apply ok_master_seed; exact Hs.
    + apply ok_transform_seed; exact Hs.
    + apply ok_rounds; assumption.
    + apply ok_iv; exact Hs.
    + apply ok_psk; exact Hs.
    + apply ok_start; exact Hs.
    + destruct (icipher_of_id (le32 buf)) as [c|] eqn:E; [|congruence]. apply (ok_inner buf c); assumption.
Qed.

(* one loop iteration on a well-formed field *)
Lemma ltb_min0 (b : bytes) : Nat.ltb (length b) 0 = false.
Proof. apply Nat.ltb_ge. lia. Qed.

Lemma fields3_end f (end_buf rest : bytes) a :
  short16 end_buf -> fields3 (S f) (field16 0 end_buf ++ rest) a = Ok (a, rest).
Proof.
  intro Hs. cbn [fields3]. rewrite tlv16_field by exact Hs.
  unfold min_length3. cbn [N.eqb orb]. rewrite ltb_min0. reflexivity.
Qed.

Lemma fields3_step f ty buf rest a :
  field_ok (ty, buf) ->
  fields3 (S f) (field16 ty buf ++ rest) a = fields3 f rest (apply_field a (ty, buf)).
Proof.
  intro Hok. pose proof (field_ok_short ty buf Hok) as Hs.
  cbn [fields3]. rewrite tlv16_field by exact Hs. clear Hs.
  unfold min_length3, apply_field. cbn [fst snd].
  inversion Hok as [b0 Hb|c|b0 z Hb H4 Hz|b0 Hb|b0 Hb|b0 Hb H8|b0 Hb|b0 Hb|b0 Hb|b0 c Hb H4 Hc]; subst;
    cbn [N.eqb Pos.eqb orb]; rewrite ?ltb_min0; try reflexivity.
  - rewrite ocipher_of_id_id. reflexivity.
  - replace (Nat.ltb (length buf) 4) with false by (symmetry; apply Nat.ltb_ge; exact H4).
    rewrite Hz. reflexivity.
  - replace (Nat.ltb (length buf) 8) with false by (symmetry; apply Nat.ltb_ge; exact H8). reflexivity.
  - replace (Nat.ltb (length buf) 4) with false by (symmetry; apply Nat.ltb_ge; exact H4).
    rewrite Hc. reflexivity.
Qed.

Notation dump_field := (fun f : N * bytes => field16 (fst f) (snd f)).

Theorem fields3_dump fields : forall fuel a (end_buf body : bytes),
  Forall field_ok fields -> N.of_nat (length end_buf) < 2 ^ 16 -> (length fields < fuel)%nat ->
  fields3 fuel (concat (map dump_field fields) ++ field16 0 end_buf ++ body) a
  = Ok (fold_left apply_field fields a, body).
Proof.
  induction fields as [|[ty buf] r IH]; intros fuel a end_buf body Hok He Hf.
  - destruct fuel as [|f]; [cbn [length] in Hf; lia|]. cbn [map concat app fold_left].
    apply fields3_end. exact He.
  - destruct fuel as [|f]; [cbn [length] in Hf; lia|]. cbn [length] in Hf.
    inversion Hok as [|x l Hx Hr]; subst x l.
    cbn [map concat fst snd fold_left]. rewrite <- app_assoc.
    rewrite fields3_step by exact Hx. apply IH; [exact Hr|exact He|lia].
Qed.

Definition acc_of_header3 (h : header3) : acc3 :=
  mkA3 (Some (h3_cipher h)) (Some (h3_compression h)) (Some (h3_master_seed h)) (Some (h3_transform_seed h))
       (Some (h3_rounds h)) (Some (h3_iv h)) (Some (h3_psk h)) (Some (h3_start h)) (Some (h3_inner h)).

Lemma version_dump3_bytes minor :
  version_dump3 minor = [3; 217; 162; 154; 103; 251; 75; 181] ++ le_enc 2 minor ++ [3; 0].
Proof. reflexivity. Qed.

Lemma version_dump3_length minor : length (version_dump3 minor) = 12%nat.
Proof. rewrite version_dump3_bytes. rewrite !app_length, le_enc_length. reflexivity. Qed.

Lemma fields_concat_length_ge (fields : list (N * bytes)) :
  (3 * length fields <= length (concat (map dump_field fields)))%nat.
Proof.
  induction fields as [|[ty b] r IH]; [cbn; lia|].
  cbn [map concat length fst snd]. rewrite app_length, field16_length. lia.
Qed.

Lemma header_dump3_length minor fields end_buf :
  length (header_dump3 minor fields end_buf)
  = (12 + length (concat (map dump_field fields)) + 3 + length end_buf)%nat.
Proof. unfold header_dump3. rewrite !app_length, version_dump3_length, field16_length. lia. Qed.

Theorem parse_outer_header3_dump minor fields end_buf body h :
  Forall field_ok fields -> N.of_nat (length end_buf) < 2 ^ 16 ->
  fold_left apply_field fields acc3_empty = acc_of_header3 h ->
  parse_outer_header3 (header_dump3 minor fields end_buf ++ body)
  = Ok (h, length (header_dump3 minor fields end_buf)).
Proof.
  intros Hok He Hfold.
  set (H := header_dump3 minor fields end_buf).
  assert (HL : length (H ++ body) = (length H + length body)%nat) by apply app_length.
  assert (Hfuel : (length fields < S (length (H ++ body)))%nat).
  { rewrite HL. unfold H. rewrite header_dump3_length. pose proof (fields_concat_length_ge fields). lia. }
  unfold parse_outer_header3. remember (length (H ++ body)) as L eqn:EL.
  unfold H at 1. unfold header_dump3. rewrite <- !app_assoc.
  unfold version_header_size. rewrite (drop_app_len 12) by apply version_dump3_length.
  rewrite fields3_dump by assumption.
  cbn [bind]. rewrite Hfold. unfold acc_of_header3.
  cbn [a3_cipher a3_compression a3_master_seed a3_transform_seed a3_rounds a3_iv a3_psk a3_start a3_inner].
  replace (L - length body)%nat with (length H) by lia.
  destruct h; reflexivity.
Qed.

(* ---------- the canonical field list of a header, and every permutation of it ---------- *)
Definition canonical_fields (h : header3) : list (N * bytes) :=
  [(2, ocipher_id (h3_cipher h)); (3, le_enc 4 (compression_id (h3_compression h)));
   (4, h3_master_seed h); (5, h3_transform_seed h); (6, le_enc 8 (h3_rounds h)); (7, h3_iv h);
   (8, h3_psk h); (9, h3_start h); (10, le_enc 4 (icipher_id (h3_inner h)))].

(* what the writer must respect for the header to be representable *)
Definition header3_ok (h : header3) : Prop :=
  short16 (h3_master_seed h) /\ short16 (h3_transform_seed h) /\ h3_rounds h < 2 ^ 64 /\
  short16 (h3_iv h) /\ short16 (h3_psk h) /\ short16 (h3_start h).

Lemma short16_le_enc n v : (n <= 8)%nat -> short16 (le_enc n v).
Proof. intro H. unfold short16. rewrite le_enc_length, pow2_16. lia. Qed.

Lemma canonical_fields_ok h : header3_ok h -> Forall field_ok (canonical_fields h).
Proof.
  intros (Hms & Hts & Hr & Hiv & Hpsk & Hst). unfold canonical_fields.
  repeat apply Forall_cons; try apply Forall_nil.
  - apply ok_cipher.
  - apply (ok_compression _ (h3_compression h)); [apply short16_le_enc; lia|rewrite le_enc_length; lia|].
    apply compression_of_id_id.
  - apply ok_master_seed; exact Hms.
  - apply ok_transform_seed; exact Hts.
  - apply ok_rounds; [apply short16_le_enc; lia|rewrite le_enc_length; lia].
  - apply ok_iv; exact Hiv.
  - apply ok_psk; exact Hpsk.
  - apply ok_start; exact Hst.
  - apply (ok_inner _ (h3_inner h)); [apply short16_le_enc; lia|rewrite le_enc_length; lia|].
    apply icipher_of_id_id.
Qed.

Lemma apply_field_cipher a c : apply_field a (2, ocipher_id c) = set_cipher a c.
Proof. unfold apply_field. cbn [fst snd N.eqb Pos.eqb]. rewrite ocipher_of_id_id. reflexivity. Qed.
Lemma apply_field_compression a z : apply_field a (3, le_enc 4 (compression_id z)) = set_compression a z.
Proof. unfold apply_field. cbn [fst snd N.eqb Pos.eqb]. rewrite compression_of_id_id. reflexivity. Qed.
Lemma apply_field_master_seed a b : apply_field a (4, b) = set_master_seed a b.
Proof. reflexivity. Qed.
Lemma apply_field_transform_seed a b : apply_field a (5, b) = set_transform_seed a b.
Proof. reflexivity. Qed.
Lemma apply_field_rounds a r : r < 2 ^ 64 -> apply_field a (6, le_enc 8 r) = set_rounds a r.
Proof.
  intro H. unfold apply_field. cbn [fst snd N.eqb Pos.eqb].
  rewrite take_all by apply le_enc_length. rewrite le_dec_enc8 by exact H. reflexivity.
Qed.
Lemma apply_field_iv a b : apply_field a (7, b) = set_iv a b.
Proof. reflexivity. Qed.
Lemma apply_field_psk a b : apply_field a (8, b) = set_psk a b.
Proof. reflexivity. Qed.
Lemma apply_field_start a b : apply_field a (9, b) = set_start a b.
Proof. reflexivity. Qed.
Lemma apply_field_inner a c : apply_field a (10, le_enc 4 (icipher_id c)) = set_inner a c.
Proof. unfold apply_field. cbn [fst snd N.eqb Pos.eqb]. rewrite icipher_of_id_id. reflexivity. Qed.

(* whatever was accumulated before, the nine fields overwrite all of it *)
Lemma canonical_fields_fold h a :
  h3_rounds h < 2 ^ 64 -> fold_left apply_field (canonical_fields h) a = acc_of_header3 h.
Proof.
  intro Hr. unfold canonical_fields. cbn [fold_left].
  rewrite apply_field_cipher, apply_field_compression, apply_field_master_seed, apply_field_transform_seed.
  rewrite apply_field_rounds by exact Hr.
  rewrite apply_field_iv, apply_field_psk, apply_field_start, apply_field_inner.
  reflexivity.
Qed.

(* --- fields of different types commute --- *)
Inductive act :=
| ANone | ACipher (c : ocipher) | ACompression (z : compression) | AMasterSeed (b : bytes)
| ATransformSeed (b : bytes) | ARounds (r : N) | AIv (b : bytes) | APsk (b : bytes) | AStart (b : bytes)
| AInner (c : icipher).

Definition act_of (f : N * bytes) : act :=
  let ty := fst f in let buf := snd f in
  if N.eqb ty 2 then match ocipher_of_id buf with Some c => ACipher c | None => ANone end
  else if N.eqb ty 3 then match compression_of_id (le32 buf) with Some z => ACompression z | None => ANone end
  else if N.eqb ty 4 then AMasterSeed buf
  else if N.eqb ty 5 then ATransformSeed buf
  else if N.eqb ty 6 then ARounds (le_dec (take 8 buf))
  else if N.eqb ty 7 then AIv buf
  else if N.eqb ty 8 then APsk buf
  else if N.eqb ty 9 then AStart buf
  else if N.eqb ty 10 then match icipher_of_id (le32 buf) with Some c => AInner c | None => ANone end
  else ANone.

Definition do_act (a : acc3) (x : act) : acc3 :=
  match x with
  | ANone => a | ACipher c => set_cipher a c | ACompression z => set_compression a z
  | AMasterSeed b => set_master_seed a b | ATransformSeed b => set_transform_seed a b
  | ARounds r => set_rounds a r | AIv b => set_iv a b | APsk b => set_psk a b | AStart b => set_start a b
  | AInner c => set_inner a c
  end.

Definition act_slot (x : act) : N :=
  match x with
  | ANone => 0 | ACipher _ => 2 | ACompression _ => 3 | AMasterSeed _ => 4 | ATransformSeed _ => 5
  | ARounds _ => 6 | AIv _ => 7 | APsk _ => 8 | AStart _ => 9 | AInner _ => 10
  end.

Lemma apply_field_act a f : apply_field a f = do_act a (act_of f).
Proof.
  unfold apply_field, act_of. cbv zeta.
  repeat match goal with |- context [if ?c then _ else _] => destruct c end;
  repeat match goal with |- context [match ?o with Some _ => _ | None => _ end] => destruct o end;
  reflexivity.
Qed.

Lemma act_of_slot f : act_of f = ANone \/ act_slot (act_of f) = fst f.
Proof.
  unfold act_of. cbv zeta.
  destruct (N.eqb_spec (fst f) 2) as [E|_]; [destruct (ocipher_of_id (snd f)); [right; symmetry; exact E|left; reflexivity]|].
  destruct (N.eqb_spec (fst f) 3) as [E|_]; [destruct (compression_of_id (le32 (snd f))); [right; symmetry; exact E|left; reflexivity]|].
  destruct (N.eqb_spec (fst f) 4) as [E|_]; [right; symmetry; exact E|].
  destruct (N.eqb_spec (fst f) 5) as [E|_]; [right; symmetry; exact E|].
  destruct (N.eqb_spec (fst f) 6) as [E|_]; [right; symmetry; exact E|].
  destruct (N.eqb_spec (fst f) 7) as [E|_]; [right; symmetry; exact E|].
  destruct (N.eqb_spec (fst f) 8) as [E|_]; [right; symmetry; exact E|].
  destruct (N.eqb_spec (fst f) 9) as [E|_]; [right; symmetry; exact E|].
  destruct (N.eqb_spec (fst f) 10) as [E|_]; [destruct (icipher_of_id (le32 (snd f))); [right; symmetry; exact E|left; reflexivity]|].
  left. reflexivity.
Qed.

Lemma do_act_comm a x y :
  x = ANone \/ y = ANone \/ act_slot x <> act_slot y -> do_act (do_act a x) y = do_act (do_act a y) x.
Proof.
  intro H. destruct x, y; try reflexivity; exfalso;
    destruct H as [H|[H|H]]; try discriminate H; apply H; reflexivity.
Qed.

Lemma apply_field_comm a f g :
  fst f <> fst g -> apply_field (apply_field a f) g = apply_field (apply_field a g) f.
Proof.
  intro Hne. rewrite !apply_field_act. apply do_act_comm.
  destruct (act_of_slot f) as [Hf|Hf]; [left; exact Hf|].
  destruct (act_of_slot g) as [Hg|Hg]; [right; left; exact Hg|].
  right. right. rewrite Hf, Hg. exact Hne.
Qed.

Lemma apply_field_comment a f : fst f = 1 -> apply_field a f = a.
Proof. intro H. unfold apply_field. cbv zeta. rewrite H. reflexivity. Qed.

Definition non_comment (f : N * bytes) : bool := negb (N.eqb (fst f) 1).

Lemma fold_filter_comments fields : forall a,
  fold_left apply_field (filter non_comment fields) a = fold_left apply_field fields a.
Proof.
  induction fields as [|x r IH]; intro a; [reflexivity|].
  cbn [filter]. unfold non_comment at 1. destruct (N.eqb_spec (fst x) 1) as [E|E]; cbn [negb fold_left].
  - rewrite (apply_field_comment a x E). apply IH.
  - apply IH.
Qed.

(* a list with pairwise distinct types folds to the same accumulator in every order *)
Theorem fold_apply_perm l l' :
  Permutation l l' -> NoDup (map fst l) -> forall a, fold_left apply_field l a = fold_left apply_field l' a.
Proof.
  intro Hp. induction Hp as [|x l l' Hp IH|x y l|l l' l'' Hp1 IH1 Hp2 IH2]; intros Hnd a.
  - reflexivity.
  - cbn [map] in Hnd. inversion Hnd as [|x0 l0 Hnotin Hnd']; subst x0 l0. cbn [fold_left]. apply IH. exact Hnd'.
  - cbn [map] in Hnd. inversion Hnd as [|x0 l0 Hnotin Hnd']; subst x0 l0. cbn [fold_left].
    rewrite (apply_field_comm a y x); [reflexivity|].
    intro E. apply Hnotin. left. symmetry. exact E.
  - rewrite IH1 by exact Hnd. apply IH2.
    apply (Permutation_NoDup (l := map fst l)); [apply Permutation_map; exact Hp1|exact Hnd].
Qed.

Lemma canonical_types_nodup h : NoDup (map fst (canonical_fields h)).
Proof.
  unfold canonical_fields. cbn [map fst].
  repeat (constructor; [cbn [In]; intro H; repeat (destruct H as [H|H]; [discriminate H|]); exact H|]).
  constructor.
Qed.

(* any arrangement of the nine fields, comments anywhere *)
Theorem permuted_fields_fold h fields a :
  h3_rounds h < 2 ^ 64 ->
  Permutation (filter non_comment fields) (canonical_fields h) ->
  fold_left apply_field fields a = acc_of_header3 h.
Proof.
  intros Hr Hp. rewrite <- fold_filter_comments.
  rewrite (fold_apply_perm _ (canonical_fields h) Hp).
  - apply canonical_fields_fold. exact Hr.
  - apply (Permutation_NoDup (l := map fst (canonical_fields h))); [|apply canonical_types_nodup].
    apply Permutation_map. apply Permutation_sym. exact Hp.
Qed.

Lemma permuted_fields_ok h fields :
  header3_ok h ->
  Forall (fun f => fst f = 1 -> short16 (snd f)) fields ->
  Permutation (filter non_comment fields) (canonical_fields h) ->
  Forall field_ok fields.
Proof.
  intros Hh Hc Hp. apply Forall_forall. intros f Hin.
  destruct (non_comment f) eqn:E.
  - pose proof (canonical_fields_ok h Hh) as Hok. rewrite Forall_forall in Hok. apply Hok.
    apply (Permutation_in (l := filter non_comment fields)); [exact Hp|].
    apply filter_In. split; assumption.
  - unfold non_comment in E. apply negb_false_iff in E. apply N.eqb_eq in E.
    rewrite Forall_forall in Hc. specialize (Hc f Hin E).
    destruct f as [ty b]. cbn [fst snd] in *. subst ty. apply ok_comment. exact Hc.
Qed.

Corollary parse_outer_header3_canonical minor h end_buf body :
  header3_ok h -> N.of_nat (length end_buf) < 2 ^ 16 ->
  parse_outer_header3 (header_dump3 minor (canonical_fields h) end_buf ++ body)
  = Ok (h, length (header_dump3 minor (canonical_fields h) end_buf)).
Proof.
  intros Hh He. apply parse_outer_header3_dump; [apply canonical_fields_ok; exact Hh|exact He|].
  apply canonical_fields_fold. destruct Hh as (_ & _ & Hr & _). exact Hr.
Qed.

Corollary parse_outer_header3_permuted minor h fields end_buf body :
  header3_ok h -> N.of_nat (length end_buf) < 2 ^ 16 ->
  Forall (fun f => fst f = 1 -> short16 (snd f)) fields ->
  Permutation (filter non_comment fields) (canonical_fields h) ->
  parse_outer_header3 (header_dump3 minor fields end_buf ++ body)
  = Ok (h, length (header_dump3 minor fields end_buf)).
Proof.
  intros Hh He Hc Hp. apply parse_outer_header3_dump; [apply (permuted_fields_ok h); assumption|exact He|].
  apply (permuted_fields_fold h); [|exact Hp]. destruct Hh as (_ & _ & Hr & _). exact Hr.
Qed.

(* ---------- (R3) the hashed block stream ---------- *)
Definition block_ok (b : bytes) : Prop := b <> [] /\ N.of_nat (length b) < 2 ^ 32.

Lemma zeros_length n : length (zeros n) = n.
Proof. induction n as [|k IH]; cbn [zeros length]; [reflexivity|]. rewrite IH. reflexivity. Qed.

Section blocks3.
  Variable sha256 : bytes -> bytes.
  (* SHA-256 produces 32 bytes; the reader slices the hash off by that size *)
  Hypothesis sha256_length : forall x, length (sha256 x) = 32%nat.

  Notation read_blocks3 := (read_blocks3 sha256).
  Notation write_blocks3 := (write_blocks3 sha256).
  Notation block3 := (block3 sha256).

  Lemma read_blocks3_unfold f (rest out : bytes) :
    read_blocks3 (S f) rest out =
    if Nat.ltb (length rest) 40 then Err EBlockHash
    else if N.eqb (le32 (drop 36 rest)) 0 then Ok out
    else if negb (fits (le32 (drop 36 rest)) (drop 40 rest)) then Err EBlockHash
    else if negb (bytes_eqb (take 32 (drop 4 rest))
                            (sha256 (take (N.to_nat (le32 (drop 36 rest))) (drop 40 rest))))
    then Err EBlockHash
    else read_blocks3 f (drop (40 + N.to_nat (le32 (drop 36 rest))) rest)
                      (out ++ take (N.to_nat (le32 (drop 36 rest))) (drop 40 rest)).
  Proof using. reflexivity. Qed.

  (* one framed block; the four id bytes are arbitrary *)
  Lemma read_blocks3_step f (idb b rest out : bytes) :
    length idb = 4%nat -> block_ok b ->
    read_blocks3 (S f) (idb ++ sha256 b ++ le_enc 4 (N.of_nat (length b)) ++ b ++ rest) out
    = read_blocks3 f rest (out ++ b).
  Proof.
    intros Hid [Hne Hb].
    set (sb := le_enc 4 (N.of_nat (length b))).
    set (hash := sha256 b).
    assert (Hhash : length hash = 32%nat) by apply sha256_length.
    assert (Hsb : length sb = 4%nat) by apply le_enc_length.
    set (stream := idb ++ hash ++ sb ++ b ++ rest).
    assert (Hlen : length stream = (40 + length b + length rest)%nat).
    { unfold stream. rewrite !app_length. lia. }
    assert (H4 : drop 4 stream = hash ++ sb ++ b ++ rest).
    { unfold stream. apply drop_app_len. exact Hid. }
    assert (H36 : drop 36 stream = sb ++ b ++ rest).
    { unfold stream. rewrite (app_assoc idb hash). apply drop_app_len. rewrite app_length. lia. }
    assert (H40 : drop 40 stream = b ++ rest).
    { unfold stream. rewrite (app_assoc idb hash), (app_assoc (idb ++ hash) sb).
      apply drop_app_len. rewrite !app_length. lia. }
    assert (Hend : drop (40 + length b) stream = rest).
    { unfold stream. rewrite (app_assoc idb hash), (app_assoc (idb ++ hash) sb), (app_assoc ((idb ++ hash) ++ sb) b).
      apply drop_app_len. rewrite !app_length. lia. }
    rewrite read_blocks3_unfold. rewrite Hlen, H4, H36, H40.
    replace (Nat.ltb (40 + length b + length rest) 40) with false by (symmetry; apply Nat.ltb_ge; lia).
    unfold sb. rewrite !le32_enc by exact Hb.
    replace (N.eqb (N.of_nat (length b)) 0) with false
      by (symmetry; apply N.eqb_neq; destruct b; [congruence|cbn [length]; lia]).
    rewrite fits_app. cbn [negb]. rewrite Nat2N.id. rewrite Hend.
    rewrite take_app_exact. rewrite (take_app_len 32 hash) by exact Hhash.
    fold hash. rewrite bytes_eqb_refl. cbn [negb]. reflexivity.
  Qed.

  (* the closing block: only its size field is looked at *)
  Lemma read_blocks3_last f (pre tail out : bytes) :
    length pre = 36%nat -> read_blocks3 (S f) (pre ++ le_enc 4 0 ++ tail) out = Ok out.
  Proof using.
    clear sha256_length.
    intro Hpre. rewrite read_blocks3_unfold.
    rewrite !app_length, le_enc_length, Hpre.
    replace (Nat.ltb (36 + (4 + length tail)) 40) with false by (symmetry; apply Nat.ltb_ge; lia).
    rewrite (drop_app_len 36) by exact Hpre. rewrite le32_enc by (rewrite pow2_32; lia). reflexivity.
  Qed.

  Theorem read_write_blocks3 blocks : forall fuel id (tail out : bytes),
    Forall block_ok blocks -> (S (length blocks) <= fuel)%nat ->
    read_blocks3 fuel (write_blocks3 id blocks ++ tail) out = Ok (out ++ concat blocks).
  Proof.
    induction blocks as [|b r IH]; intros fuel id tail out Hok Hf.
    - destruct fuel as [|f]; [lia|]. cbn [Kdbx3.write_blocks3 concat]. rewrite app_nil_r.
      rewrite <- !app_assoc. rewrite (app_assoc (le_enc 4 id) (zeros 32)).
      apply read_blocks3_last. rewrite app_length, le_enc_length, zeros_length. reflexivity.
    - destruct fuel as [|f]; [lia|]. cbn [length] in Hf.
      inversion Hok as [|x l Hb Hr]; subst x l.
      cbn [Kdbx3.write_blocks3 concat]. unfold Kdbx3.block3. rewrite <- !app_assoc.
      rewrite read_blocks3_step; [|apply le_enc_length|exact Hb].
      rewrite IH; [|exact Hr|lia]. rewrite <- app_assoc. reflexivity.
  Qed.

  (* every block costs at least 41 bytes, the closing block 40 *)
  Lemma write_blocks3_length blocks : forall id,
    Forall block_ok blocks -> (40 + 41 * length blocks <= length (write_blocks3 id blocks))%nat.
  Proof.
    induction blocks as [|b r IH]; intros id Hok.
    - cbn [Kdbx3.write_blocks3]. rewrite !app_length, !le_enc_length, zeros_length. cbn [length]. lia.
    - inversion Hok as [|x l [Hne Hb] Hr]; subst x l.
      cbn [Kdbx3.write_blocks3 length]. unfold Kdbx3.block3.
      rewrite !app_length, !le_enc_length, sha256_length. specialize (IH (id + 1) Hr).
      destruct b as [|b0 b']; [congruence|]. cbn [length]. lia.
  Qed.

  (* the fuel the reader passes *)
  Corollary read_write_blocks3_reader blocks id (tail out : bytes) :
    Forall block_ok blocks ->
    read_blocks3 (S (length (write_blocks3 id blocks ++ tail))) (write_blocks3 id blocks ++ tail) out
    = Ok (out ++ concat blocks).
  Proof.
    intro Hok. apply read_write_blocks3; [exact Hok|].
    rewrite app_length. pose proof (write_blocks3_length blocks id Hok). lia.
  Qed.
End blocks3.

(* ---------- version header ---------- *)
Lemma version_parse_dump3 minor rest :
  minor < 2 ^ 16 -> version_parse (version_dump3 minor ++ rest) = Ok (KDB3 minor).
Proof.
  intro Hm. unfold version_parse, version_header_size.
  assert (Hlen : Nat.ltb (length (version_dump3 minor ++ rest)) 12 = false).
  { apply Nat.ltb_ge. rewrite app_length, version_dump3_length. lia. }
  rewrite Hlen. clear Hlen.
  rewrite version_dump3_bytes. pose proof (le_dec_enc2 minor Hm) as Hd.
  cbn [le_enc] in Hd |- *. cbn [app take drop]. rewrite Hd.
  change (bytes_eqb [3; 217; 162; 154] kdbx_identifier) with true. cbn [negb].
  change (le_dec [103; 251; 75; 181]) with keepass_latest_id.
  change (N.eqb keepass_latest_id keepass_1_id) with false.
  change (N.eqb keepass_latest_id keepass_2_id) with false.
  change (N.eqb keepass_latest_id keepass_latest_id) with true.
  change (N.eqb (le_dec [3; 0]) 3) with true.
  reflexivity.
Qed.

(* every inner cipher accepts a key of any length *)
Lemma inner_key_ok_true c (k : bytes) : inner_key_ok c k = true.
Proof. destruct c; reflexivity. Qed.

(* ---------- (R4), (R5) the whole frame ---------- *)
Section roundtrip3.
  Variables (sha256 : bytes -> bytes)
            (kdf : kdfcfg -> bytes -> bytes -> res bytes)
            (outer_enc outer_dec : ocipher -> bytes -> bytes -> bytes -> res bytes)
            (decompress : compression -> bytes -> res bytes).

  Hypothesis sha256_length : forall x, length (sha256 x) = 32%nat.
  (* decryption gives the plaintext back, possibly followed by padding left in place (the Twofish path) *)
  Hypothesis dec_enc_tail : forall c k iv x e,
    outer_enc c k iv x = Ok e -> exists tail, outer_dec c k iv e = Ok (x ++ tail).

  Notation frame3 := (frame3 sha256 kdf outer_enc).
  Notation decrypt3 := (decrypt3 sha256 kdf outer_dec decompress).
  Notation read_blocks3 := (read_blocks3 sha256).
  Notation write_blocks3 := (write_blocks3 sha256).

  (* the reader on  header ++ ciphertext : version, outer header, inner key check and the body offset
     are resolved; what remains is the keyed part *)
  Lemma decrypt3_on_frame minor fields end_buf h (enc : bytes) els :
    minor < 2 ^ 16 ->
    Forall field_ok fields -> N.of_nat (length end_buf) < 2 ^ 16 ->
    fold_left apply_field fields acc3_empty = acc_of_header3 h ->
    decrypt3 (header_dump3 minor fields end_buf ++ enc) els =
    bind els (fun e =>
    bind (kdf (KAes (h3_rounds h)) (h3_transform_seed h) (sha256 (concat e))) (fun t =>
    bind (outer_dec (h3_cipher h) (sha256 (h3_master_seed h ++ t)) (h3_iv h) enc) (fun payload =>
      if Nat.ltb (length payload) (length (h3_start h))
         || negb (bytes_eqb (take (length (h3_start h)) payload) (h3_start h))
      then Err EIncorrectKey
      else
        bind (read_blocks3 (S (length payload)) (drop 32 payload) []) (fun buf =>
        bind (decompress (h3_compression h) buf) (fun xml =>
        Ok (mkConfig (KDB3 minor) (h3_cipher h) (h3_compression h) (h3_inner h) (KAes (h3_rounds h)),
            h3_psk h, xml)))))).
  Proof using.
    clear sha256_length dec_enc_tail.
    intros Hm Hok He Hfold. unfold Kdbx3.decrypt3.
    assert (Hv : version_parse (header_dump3 minor fields end_buf ++ enc) = Ok (KDB3 minor)).
    { unfold header_dump3. rewrite <- app_assoc. apply version_parse_dump3. exact Hm. }
    rewrite Hv. rewrite (parse_outer_header3_dump minor fields end_buf enc h) by assumption.
    cbn [bind]. rewrite inner_key_ok_true. cbn [negb].
    rewrite drop_app_exact. reflexivity.
  Qed.

  (* what a successful frame3 computed on the way *)
  Lemma frame3_inv minor fields end_buf h els blocks file :
    frame3 minor fields end_buf h els blocks = Ok file ->
    exists t enc,
      kdf (KAes (h3_rounds h)) (h3_transform_seed h) (sha256 (concat els)) = Ok t /\
      outer_enc (h3_cipher h) (sha256 (h3_master_seed h ++ t)) (h3_iv h) (h3_start h ++ write_blocks3 0 blocks) = Ok enc /\
      file = header_dump3 minor fields end_buf ++ enc.
  Proof using.
    clear sha256_length dec_enc_tail.
    unfold Kdbx3.frame3. intro H.
    destruct (kdf (KAes (h3_rounds h)) (h3_transform_seed h) (sha256 (concat els))) as [t| | |] eqn:Ek;
      cbn [bind] in H; try discriminate H.
    destruct (outer_enc (h3_cipher h) (sha256 (h3_master_seed h ++ t)) (h3_iv h) (h3_start h ++ write_blocks3 0 blocks))
      as [enc| | |] eqn:Ee; cbn [bind] in H; try discriminate H.
    apply Ok_inj in H. exists t, enc. repeat split; [exact Ee|symmetry; exact H].
  Qed.

  Theorem frame3_roundtrip minor fields end_buf h els blocks file xml :
    minor < 2 ^ 16 ->
    Forall field_ok fields -> N.of_nat (length end_buf) < 2 ^ 16 ->
    fold_left apply_field fields acc3_empty = acc_of_header3 h ->
    length (h3_start h) = 32%nat ->
    Forall block_ok blocks ->
    decompress (h3_compression h) (concat blocks) = Ok xml ->
    frame3 minor fields end_buf h els blocks = Ok file ->
    decrypt3 file (Ok els)
    = Ok (mkConfig (KDB3 minor) (h3_cipher h) (h3_compression h) (h3_inner h) (KAes (h3_rounds h)),
          h3_psk h, xml).
  Proof.
    intros Hm Hok He Hfold Hst Hblocks Hz Hframe.
    destruct (frame3_inv _ _ _ _ _ _ _ Hframe) as (t & enc & Ek & Ee & ->).
    rewrite (decrypt3_on_frame minor fields end_buf h) by assumption.
    cbn [bind]. rewrite Ek. cbn [bind].
    destruct (dec_enc_tail _ _ _ _ _ Ee) as [tail Ed]. rewrite Ed. cbn [bind].
    rewrite <- app_assoc.
    assert (Hlen : Nat.ltb (length (h3_start h ++ write_blocks3 0 blocks ++ tail)) (length (h3_start h)) = false).
    { apply Nat.ltb_ge. rewrite app_length. lia. }
    rewrite Hlen. rewrite take_app_exact, bytes_eqb_refl. cbn [negb orb].
    rewrite (drop_app_len 32) by exact Hst.
    rewrite (read_write_blocks3 sha256 sha256_length blocks); [|exact Hblocks|].
    - cbn [app bind]. rewrite Hz. reflexivity.
    - rewrite !app_length. pose proof (write_blocks3_length sha256 sha256_length blocks 0 Hblocks). lia.
  Qed.

  (* the canonical header, fields in any order, comments anywhere *)
  Corollary frame3_roundtrip_permuted minor fields end_buf h els blocks file xml :
    minor < 2 ^ 16 ->
    header3_ok h -> N.of_nat (length end_buf) < 2 ^ 16 ->
    Forall (fun f => fst f = 1 -> short16 (snd f)) fields ->
    Permutation (filter non_comment fields) (canonical_fields h) ->
    length (h3_start h) = 32%nat ->
    Forall block_ok blocks ->
    decompress (h3_compression h) (concat blocks) = Ok xml ->
    frame3 minor fields end_buf h els blocks = Ok file ->
    decrypt3 file (Ok els)
    = Ok (mkConfig (KDB3 minor) (h3_cipher h) (h3_compression h) (h3_inner h) (KAes (h3_rounds h)),
          h3_psk h, xml).
  Proof.
    intros Hm Hh He Hc Hp Hst Hblocks Hz Hframe.
    apply (frame3_roundtrip minor fields end_buf h els blocks file xml); try assumption.
    - apply (permuted_fields_ok h); assumption.
    - apply (permuted_fields_fold h); [|exact Hp]. destruct Hh as (_ & _ & Hr & _). exact Hr.
  Qed.

  (* wrong key, on the reader directly: a payload that does not begin with the stream-start bytes is
     rejected with IncorrectKey before any block is read or decompressed *)
  Theorem decrypt3_wrong_start data v h body_start e t p :
    version_parse data = Ok v ->
    parse_outer_header3 data = Ok (h, body_start) ->
    kdf (KAes (h3_rounds h)) (h3_transform_seed h) (sha256 (concat e)) = Ok t ->
    outer_dec (h3_cipher h) (sha256 (h3_master_seed h ++ t)) (h3_iv h) (drop body_start data) = Ok p ->
    take (length (h3_start h)) p <> h3_start h ->
    decrypt3 data (Ok e) = Err EIncorrectKey.
  Proof using.
    clear sha256_length dec_enc_tail.
    intros Hv Hh Ek Ed Hne. unfold Kdbx3.decrypt3. rewrite Hv, Hh. cbn [bind].
    rewrite inner_key_ok_true. cbn [negb bind]. rewrite Ek. cbn [bind]. rewrite Ed. cbn [bind].
    destruct (Nat.ltb (length p) (length (h3_start h))); [reflexivity|]. cbn [orb].
    destruct (bytes_eqb (take (length (h3_start h)) p) (h3_start h)) eqn:E; [|reflexivity].
    apply bytes_eqb_eq in E. contradiction.
  Qed.

  (* the same on a written file, opened with other key elements *)
  Theorem frame3_wrong_start minor fields end_buf h els blocks file e' t' p :
    minor < 2 ^ 16 ->
    Forall field_ok fields -> N.of_nat (length end_buf) < 2 ^ 16 ->
    fold_left apply_field fields acc3_empty = acc_of_header3 h ->
    length (h3_start h) = 32%nat ->
    frame3 minor fields end_buf h els blocks = Ok file ->
    kdf (KAes (h3_rounds h)) (h3_transform_seed h) (sha256 (concat e')) = Ok t' ->
    outer_dec (h3_cipher h) (sha256 (h3_master_seed h ++ t')) (h3_iv h)
              (drop (length (header_dump3 minor fields end_buf)) file) = Ok p ->
    take 32 p <> h3_start h ->
    decrypt3 file (Ok e') = Err EIncorrectKey.
  Proof using.
    clear sha256_length dec_enc_tail.
    intros Hm Hok He Hfold Hst Hframe Ek Ed Hne.
    destruct (frame3_inv _ _ _ _ _ _ _ Hframe) as (t & enc & _ & _ & ->).
    apply (decrypt3_wrong_start _ (KDB3 minor) h (length (header_dump3 minor fields end_buf)) e' t' p).
    - unfold header_dump3. rewrite <- app_assoc. apply version_parse_dump3. exact Hm.
    - apply parse_outer_header3_dump; assumption.
    - exact Ek.
    - exact Ed.
    - rewrite Hst. exact Hne.
  Qed.
End roundtrip3.

(* ---------- (R6) reading never panics and never hangs ---------- *)
(* exact accounting: a TLV consumes its three-byte prefix and its buffer *)
Lemma tlv16_length rest ty buf rest' :
  tlv16 rest = Some (ty, buf, rest') -> (length rest = 3 + length buf + length rest')%nat.
Proof.
  unfold tlv16. destruct rest as [|t r1]; [discriminate|].
  destruct (Nat.ltb_spec (length r1) 2) as [L|L]; [discriminate|]. cbv zeta.
  assert (E2 : length (drop 2 r1) = (length r1 - 2)%nat) by apply drop_length.
  revert E2. generalize (drop 2 r1). generalize (le_dec (take 2 r1)). intros len r2 E2.
  destruct (fits len r2) eqn:F; cbn [negb]; [|discriminate].
  apply fits_le in F.
  intro H. injection H as _ Hb H. subst rest' buf.
  rewrite take_length by exact F. rewrite drop_length. cbn [length]. lia.
Qed.

Lemma tlv16_shorter rest ty buf rest' :
  tlv16 rest = Some (ty, buf, rest') -> (length rest' + 3 <= length rest)%nat.
Proof. intro H. apply tlv16_length in H. lia. Qed.

(* the measure the Rust loop decreases: at least three bytes per field *)
Theorem fields3_good3 : forall fuel rest a,
  (length rest < 3 * fuel)%nat -> good (fields3 fuel rest a).
Proof.
  induction fuel as [|f IH]; intros rest a H; [lia|].
  cbn [fields3]. destruct (tlv16 rest) as [[[ty buf] rest']|] eqn:T; [|exact I].
  apply tlv16_shorter in T.
  assert (Hrec : forall a', good (fields3 f rest' a')) by (intro a'; apply IH; lia).
  destruct (Nat.ltb (length buf) (min_length3 ty)); [exact I|].
  destruct (N.eqb ty 0); [exact I|].
  destruct (N.eqb ty 1); [apply Hrec|].
  destruct (N.eqb ty 2); [destruct (ocipher_of_id buf); [apply Hrec|exact I]|].
  destruct (N.eqb ty 3); [destruct (compression_of_id (le32 buf)); [apply Hrec|exact I]|].
  destruct (N.eqb ty 4); [apply Hrec|].
  destruct (N.eqb ty 5); [apply Hrec|].
  destruct (N.eqb ty 6); [apply Hrec|].
  destruct (N.eqb ty 7); [apply Hrec|].
  destruct (N.eqb ty 8); [apply Hrec|].
  destruct (N.eqb ty 9); [apply Hrec|].
  destruct (N.eqb ty 10); [destruct (icipher_of_id (le32 buf)); [apply Hrec|exact I]|].
  exact I.
Qed.

Corollary fields3_good fuel rest a : (length rest < fuel)%nat -> good (fields3 fuel rest a).
Proof. intro H. apply fields3_good3. lia. Qed.

Theorem parse_outer_header3_good data : good (parse_outer_header3 data).
Proof.
  unfold parse_outer_header3. apply good_bind.
  - apply fields3_good. rewrite drop_length. lia.
  - intros [a rest'] _.
    destruct (a3_cipher a); [|exact I]. destruct (a3_compression a); [|exact I].
    destruct (a3_master_seed a); [|exact I]. destruct (a3_transform_seed a); [|exact I].
    destruct (a3_rounds a); [|exact I]. destruct (a3_iv a); [|exact I].
    destruct (a3_psk a); [|exact I]. destruct (a3_start a); [|exact I].
    destruct (a3_inner a); exact I.
Qed.

(* the body offset never exceeds the file *)
Lemma fields3_suffix : forall fuel rest a a' rest',
  fields3 fuel rest a = Ok (a', rest') -> (length rest' <= length rest)%nat.
Proof.
  induction fuel as [|f IH]; intros rest a a' rest' H; [discriminate H|].
  cbn [fields3] in H. destruct (tlv16 rest) as [[[ty buf] r1]|] eqn:T; [|discriminate H].
  apply tlv16_shorter in T.
  assert (Hrec : forall a0, fields3 f r1 a0 = Ok (a', rest') -> (length rest' <= length rest)%nat).
  { intros a0 H0. apply IH in H0. lia. }
  destruct (Nat.ltb (length buf) (min_length3 ty)); [discriminate H|].
  destruct (N.eqb ty 0); [injection H as _ <-; lia|].
  destruct (N.eqb ty 1); [exact (Hrec _ H)|].
  destruct (N.eqb ty 2); [destruct (ocipher_of_id buf); [exact (Hrec _ H)|discriminate H]|].
  destruct (N.eqb ty 3); [destruct (compression_of_id (le32 buf)); [exact (Hrec _ H)|discriminate H]|].
  destruct (N.eqb ty 4); [exact (Hrec _ H)|].
  destruct (N.eqb ty 5); [exact (Hrec _ H)|].
  destruct (N.eqb ty 6); [exact (Hrec _ H)|].
  destruct (N.eqb ty 7); [exact (Hrec _ H)|].
  destruct (N.eqb ty 8); [exact (Hrec _ H)|].
  destruct (N.eqb ty 9); [exact (Hrec _ H)|].
  destruct (N.eqb ty 10); [destruct (icipher_of_id (le32 buf)); [exact (Hrec _ H)|discriminate H]|].
  discriminate H.
Qed.

(* no hypothesis on sha256: it is a total function to byte strings.
   The measure the Rust loop decreases: at least 41 bytes per block (40 of framing, size >= 1) *)
Theorem read_blocks3_good41 sha256 : forall fuel (rest out : bytes),
  (length rest < 41 * fuel)%nat -> good (read_blocks3 sha256 fuel rest out).
Proof.
  induction fuel as [|f IH]; intros rest out H; [lia|].
  rewrite read_blocks3_unfold.
  destruct (Nat.ltb_spec (length rest) 40) as [L|L]; [exact I|].
  destruct (N.eqb_spec (le32 (drop 36 rest)) 0) as [E|E]; [exact I|].
  destruct (fits (le32 (drop 36 rest)) (drop 40 rest)) eqn:F; cbn [negb]; [|exact I].
  match goal with |- good (if negb ?c then _ else _) => destruct c end; cbn [negb]; [|exact I].
  apply IH. rewrite drop_length. apply fits_le in F. rewrite drop_length in F. lia.
Qed.

Corollary read_blocks3_good sha256 fuel (rest out : bytes) :
  (length rest < fuel)%nat -> good (read_blocks3 sha256 fuel rest out).
Proof. intro H. apply read_blocks3_good41. lia. Qed.

Section total3.
  Variable sha256 : bytes -> bytes.
  Variable kdf : kdfcfg -> bytes -> bytes -> res bytes.
  Variable outer_dec : ocipher -> bytes -> bytes -> bytes -> res bytes.
  Variable decompress : compression -> bytes -> res bytes.

  Theorem decrypt3_total : forall data els,
    good els ->
    (forall k s c, good (kdf k s c)) ->
    (forall c k iv d, good (outer_dec c k iv d)) ->
    (forall z d, good (decompress z d)) ->
    good (decrypt3 sha256 kdf outer_dec decompress data els).
  Proof.
    intros data els Hels Hkdf Hdec Hz. unfold decrypt3.
    pose proof (version_parse_good data) as Hv.
    destruct (version_parse data) as [v|e| |]; cbn [good] in Hv; try contradiction; [|exact I].
    apply good_bind; [apply parse_outer_header3_good|]. intros [h body_start] _. cbv zeta.
    match goal with |- good (if negb ?c then _ else _) => destruct c end; cbn [negb]; [|exact I].
    apply good_bind; [exact Hels|]. intros l _.
    apply good_bind; [apply Hkdf|]. intros transformed _.
    apply good_bind; [apply Hdec|]. intros payload _.
    match goal with |- good (if ?c then _ else _) => destruct c end; [exact I|].
    apply good_bind; [apply read_blocks3_good; rewrite drop_length; lia|]. intros buf _.
    apply good_bind; [apply Hz|]. intros xml _. exact I.
  Qed.

End total3.

(* the writer *)
Theorem frame3_total sha256 kdf outer_enc : forall minor fields end_buf h els blocks,
  (forall k s c, good (kdf k s c)) ->
  (forall c k iv p, good (outer_enc c k iv p)) ->
  good (frame3 sha256 kdf outer_enc minor fields end_buf h els blocks).
Proof.
  intros minor fields end_buf h els blocks Hkdf Henc. unfold frame3.
  apply good_bind; [apply Hkdf|]. intros transformed _. cbv zeta.
  apply good_bind; [apply Henc|]. intros enc _. exact I.
Qed.

(* the statement in the "never Panic, never OutOfFuel" form, hypotheses spelled out *)
Corollary decrypt3_never_panics_never_hangs sha256 kdf outer_dec decompress data els :
  match els with Panic _ | OutOfFuel => False | _ => True end ->
  (forall k s c, match kdf k s c with Panic _ | OutOfFuel => False | _ => True end) ->
  (forall c k iv d, match outer_dec c k iv d with Panic _ | OutOfFuel => False | _ => True end) ->
  (forall z d, match decompress z d with Panic _ | OutOfFuel => False | _ => True end) ->
  (forall n, decrypt3 sha256 kdf outer_dec decompress data els <> Panic n)
  /\ decrypt3 sha256 kdf outer_dec decompress data els <> OutOfFuel.
Proof.
  intros Hels Hkdf Hdec Hz. apply good_spec.
  exact (decrypt3_total sha256 kdf outer_dec decompress data els Hels Hkdf Hdec Hz).
Qed.

(* ---------- non-vacuity: a toy instance, run ---------- *)
Module Example3.
  Definition sha (_ : bytes) : bytes := zeros 32.
  Definition kdf0 (_ : kdfcfg) (_ k : bytes) : res bytes := Ok k.
  Definition enc0 (_ : ocipher) (_ _ x : bytes) : res bytes := Ok x.
  Definition dec0 (_ : ocipher) (_ _ x : bytes) : res bytes := Ok x.
  (* a cipher path that leaves padding behind the plaintext *)
  Definition dec_pad (_ : ocipher) (_ _ x : bytes) : res bytes := Ok (x ++ [5; 5; 5; 5; 5]).
  (* a wrong key: the first byte comes out different *)
  Definition dec_bad (_ : ocipher) (_ _ x : bytes) : res bytes :=
    match x with [] => Ok [] | b :: r => Ok ((b + 1) mod 256 :: r) end.
  Definition unz (_ : compression) (x : bytes) : res bytes := Ok x.

  Definition h : header3 :=
    mkH3 OTwofish CGzip (zeros 32) [1; 2; 3] 6000 (zeros 16) [9; 9] (zeros 32) ISalsa20.

  (* permuted, with comments, a repeated compression field (the last one wins) and over-wide buffers *)
  Definition fields : list (N * bytes) :=
    [(1, [104; 105]); (10, le_enc 4 2 ++ [255]); (9, zeros 32); (3, le_enc 4 0); (8, [9; 9]);
     (6, le_enc 8 6000 ++ [1; 2]); (1, []); (7, zeros 16); (3, le_enc 4 1); (2, cs_twofish);
     (5, [1; 2; 3]); (4, zeros 32); (1, [0])].

  Definition blocks : list bytes := [[60; 97; 62]; [60; 47; 97; 62; 10]].
  Definition els : list bytes := [[1; 1]; [2]].
  Definition file : res bytes := frame3 sha kdf0 enc0 1 fields [13; 10; 13; 10] h els blocks.

  Example fields_wf : forallb field_okb fields = true.
  Proof. vm_compute. reflexivity. Qed.

  Example fields_fold : fold_left apply_field fields acc3_empty = acc_of_header3 h.
  Proof. vm_compute. reflexivity. Qed.

  Example roundtrip :
    bind file (fun f => decrypt3 sha kdf0 dec0 unz f (Ok els))
    = Ok (mkConfig (KDB3 1) OTwofish CGzip ISalsa20 (KAes 6000), [9; 9], [60; 97; 62; 60; 47; 97; 62; 10]).
  Proof. vm_compute. reflexivity. Qed.

  Example roundtrip_padding :
    bind file (fun f => decrypt3 sha kdf0 dec_pad unz f (Ok els))
    = Ok (mkConfig (KDB3 1) OTwofish CGzip ISalsa20 (KAes 6000), [9; 9], [60; 97; 62; 60; 47; 97; 62; 10]).
  Proof. vm_compute. reflexivity. Qed.

  Example wrong_key : bind file (fun f => decrypt3 sha kdf0 dec_bad unz f (Ok els)) = Err EIncorrectKey.
  Proof. vm_compute. reflexivity. Qed.

  (* the same file by the theorem: the hypotheses of [frame3_roundtrip] are satisfiable *)
  Example roundtrip_by_theorem f :
    file = Ok f ->
    decrypt3 sha kdf0 dec_pad unz f (Ok els)
    = Ok (mkConfig (KDB3 1) OTwofish CGzip ISalsa20 (KAes 6000), [9; 9], concat blocks).
  Proof.
    intro Hf.
    apply (frame3_roundtrip sha kdf0 enc0 dec_pad unz) with (minor := 1) (fields := fields)
      (end_buf := [13; 10; 13; 10]) (h := h) (blocks := blocks).
    - intro x. reflexivity.
    - intros c k iv x e H. injection H as <-. exists [5; 5; 5; 5; 5]. reflexivity.
    - reflexivity.
    - apply Forall_field_okb. exact fields_wf.
    - reflexivity.
    - exact fields_fold.
    - reflexivity.
    - repeat constructor; discriminate.
    - reflexivity.
    - exact Hf.
  Qed.

  (* malformed inputs end in errors *)
  Example empty_file : decrypt3 sha kdf0 dec0 unz [] (Ok els) = Err EIdentifier.
  Proof. vm_compute. reflexivity. Qed.

  Example truncated_file :
    bind file (fun f => decrypt3 sha kdf0 dec0 unz (take (length f - 3) f) (Ok els)) = Err EBlockHash.
  Proof. vm_compute. reflexivity. Qed.

  Example header_only :
    decrypt3 sha kdf0 dec0 unz (version_dump3 1 ++ field16 2 cs_aes256) (Ok els) = Err EIncompleteOuter.
  Proof. vm_compute. reflexivity. Qed.
End Example3.

Print Assumptions tlv16_field.
Print Assumptions fields3_dump.
Print Assumptions parse_outer_header3_dump.
Print Assumptions parse_outer_header3_canonical.
Print Assumptions parse_outer_header3_permuted.
Print Assumptions fold_apply_perm.
Print Assumptions read_write_blocks3.
Print Assumptions read_write_blocks3_reader.
Print Assumptions frame3_roundtrip.
Print Assumptions frame3_roundtrip_permuted.
Print Assumptions decrypt3_wrong_start.
Print Assumptions frame3_wrong_start.
Print Assumptions fields3_good3.
Print Assumptions read_blocks3_good41.
Print Assumptions parse_outer_header3_good.
Print Assumptions decrypt3_total.
Print Assumptions decrypt3_never_panics_never_hangs.
Print Assumptions frame3_total.
Print Assumptions Example3.roundtrip_by_theorem.

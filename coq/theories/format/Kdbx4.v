(* KDBX4 container framing: reader and writer (C01, C03, C04, C05, C06, C07, C08, C09, C20).
   Mirrors src/format/kdbx4/parse.rs (parse_outer_header, decrypt_kdbx4, parse_inner_header),
   src/format/kdbx4/dump.rs (dump_kdbx4, KDBX4OuterHeader::dump, KDBX4InnerHeader::dump),
   src/hmac_block_stream.rs, src/variant_dictionary.rs, src/config.rs (KDF <-> dictionary, ids).
   Hashes, MAC, KDFs, outer ciphers and compression are Section variables.  Executable, total. *)
From KP Require Import Bytes Outcome LE Version.
Local Open Scope N_scope.

Inductive ocipher := OAes256 | OTwofish | OChaCha20.
Inductive compression := CNone | CGzip.
Inductive icipher := IPlain | ISalsa20 | IChaCha20.
Inductive argon_version := V10 | V13.
Inductive kdfcfg :=
| KAes (rounds : N)
| KArgon2 (id : bool) (iterations memory parallelism : N) (v : argon_version).   (* id = Argon2id *)

Record config := mkConfig {
  c_version : dbversion; c_outer : ocipher; c_compression : compression;
  c_inner : icipher; c_kdf : kdfcfg }.

Record attachment := mkAtt { att_flags : N; att_content : bytes }.

Inductive kerr :=
| EIdentifier | EVersion
| EIncompleteOuter | EInvalidOuterEntry | EFixedHeader
| EOuterCipherId | ECompressionId | EInnerCipherId
| EVdVersion | EVdValueType | EVdNotTerminated | EVdMissingKey | EVdMistyped
| EKdfVersion | EKdfUuid
| EHeaderHash | EIncorrectKey | EBlockHash
| ECrypto | EDecompress
| EIncompleteInner | EInvalidInnerEntry
| EUnsupported | ERandom.

Definition res A := outcome kerr A.
Local Open Scope outcome_scope.

(* ---------- constants ---------- *)
Definition cs_aes256 : bytes := [49;193;242;230;191;113;67;80;190;88;5;33;106;252;90;255].
Definition cs_twofish : bytes := [173;104;242;159;87;111;75;185;163;106;212;122;249;101;52;108].
Definition cs_chacha20 : bytes := [214;3;138;43;139;111;76;181;165;36;51;154;49;219;181;154].
Definition kdf_aes_kdbx3 : bytes := [201;217;243;154;98;138;68;96;191;116;13;8;193;138;79;234].
Definition kdf_aes_kdbx4 : bytes := [124;2;187;130;121;167;74;192;146;125;17;74;0;100;130;56].
Definition kdf_argon2 : bytes := [239;99;109;223;140;41;68;75;145;247;169;164;3;227;10;12].
Definition kdf_argon2id : bytes := [158;41;139;25;86;219;71;115;178;61;252;62;198;240;161;230].

Definition k_uuid : bytes := [36;85;85;73;68].      (* "$UUID" *)
Definition k_M : bytes := [77].  Definition k_S : bytes := [83].  Definition k_I : bytes := [73].
Definition k_P : bytes := [80].  Definition k_V : bytes := [86].  Definition k_R : bytes := [82].

Definition ocipher_id (c : ocipher) : bytes :=
  match c with OAes256 => cs_aes256 | OTwofish => cs_twofish | OChaCha20 => cs_chacha20 end.
Definition ocipher_of_id (b : bytes) : option ocipher :=
  if bytes_eqb b cs_aes256 then Some OAes256
  else if bytes_eqb b cs_twofish then Some OTwofish
  else if bytes_eqb b cs_chacha20 then Some OChaCha20 else None.
Definition iv_size (c : ocipher) : nat := match c with OChaCha20 => 12 | _ => 16 end.

Definition compression_id (c : compression) : N := match c with CNone => 0 | CGzip => 1 end.
Definition compression_of_id (v : N) : option compression :=
  if N.eqb v 0 then Some CNone else if N.eqb v 1 then Some CGzip else None.

Definition icipher_id (c : icipher) : N := match c with IPlain => 0 | ISalsa20 => 2 | IChaCha20 => 3 end.
Definition icipher_of_id (v : N) : option icipher :=
  if N.eqb v 0 then Some IPlain else if N.eqb v 2 then Some ISalsa20
  else if N.eqb v 3 then Some IChaCha20 else None.
Definition ikey_size (c : icipher) : nat := match c with IPlain => 1 | _ => 32 end.

Definition argon_version_id (v : argon_version) : N := match v with V10 => 16 | V13 => 19 end.

(* a length-checked slice: `n` bytes of `l`, with the bound compared in N so that absurd lengths
   from the file never become a unary number *)
Definition fits (n : N) (l : bytes) : bool := N.leb n (N.of_nat (length l)).
Definition le32 (l : bytes) : N := le_dec (take 4 l).

(* ---------- variant dictionary ---------- *)
Inductive vdval :=
| VU32 (v : N) | VU64 (v : N) | VBool (b : bool) | VI32 (raw : N) | VI64 (raw : N)
| VStr (s : bytes) | VBytes (b : bytes).
Definition vdict := list (bytes * vdval).     (* insertion order; a later insert replaces *)

Fixpoint vd_lookup (k : bytes) (d : vdict) : option vdval :=
  match d with
  | [] => None
  | (k', v) :: r => match vd_lookup k r with
                    | Some v' => Some v'
                    | None => if bytes_eqb k' k then Some v else None
                    end
  end.

Definition vd_value (ty : N) (vb : bytes) : res vdval :=
  let width_ok := if N.eqb ty 4 || N.eqb ty 12 then Nat.leb 4 (length vb)
                  else if N.eqb ty 5 || N.eqb ty 13 then Nat.leb 8 (length vb) else true in
  if negb width_ok then Err EVdValueType
  else if N.eqb ty 4 then Ok (VU32 (le_dec (take 4 vb)))
  else if N.eqb ty 5 then Ok (VU64 (le_dec (take 8 vb)))
  else if N.eqb ty 8 then Ok (VBool (negb (bytes_eqb vb [0])))
  else if N.eqb ty 12 then Ok (VI32 (le_dec (take 4 vb)))
  else if N.eqb ty 13 then Ok (VI64 (le_dec (take 8 vb)))
  else if N.eqb ty 24 then Ok (VStr vb)
  else if N.eqb ty 66 then Ok (VBytes vb)
  else Err EVdValueType.

Fixpoint vd_entries (fuel : nat) (rest : bytes) (acc : vdict) : res vdict :=
  match fuel with
  | O => OutOfFuel
  | S f =>
    if Nat.ltb 9 (length rest) then          (* while pos + 9 < buffer.len() *)
      match rest with
      | [] => Err EVdNotTerminated
      | ty :: r1 =>
        let klen := le32 r1 in let r2 := drop 4 r1 in
        if negb (fits klen r2) then Err EVdNotTerminated
        else
          let k := N.to_nat klen in
          if Nat.ltb (length r2 - k) 4 then Err EVdNotTerminated
          else
            let key := take k r2 in let r3 := drop k r2 in
            let vlen := le32 r3 in let r4 := drop 4 r3 in
            if negb (fits vlen r4) then Err EVdNotTerminated
            else
              let v := N.to_nat vlen in
              do value <- vd_value ty (take v r4);
              vd_entries f (drop v r4) (acc ++ [(key, value)])
      end
    else
      match rest with
      | [] => Err EVdNotTerminated
      | b :: _ => if N.eqb b 0 then Ok acc else Err EVdNotTerminated
      end
  end.

Definition vd_parse (buffer : bytes) : res vdict :=
  if Nat.ltb (length buffer) 2 then Err EVdNotTerminated
  else if negb (N.eqb (le_dec (take 2 buffer)) 256) then Err EVdVersion
  else vd_entries (S (length buffer)) (drop 2 buffer) [].

Definition with_len (b : bytes) : bytes := le_enc 4 (N.of_nat (length b)) ++ b.

Definition vd_dump_entry (e : bytes * vdval) : bytes :=
  let '(k, v) := e in
  match v with
  | VU32 x => [4] ++ with_len k ++ le_enc 4 4 ++ le_enc 4 x
  | VU64 x => [5] ++ with_len k ++ le_enc 4 8 ++ le_enc 8 x
  | VBool b => [8] ++ with_len k ++ le_enc 4 1 ++ [if b then 1 else 0]
  | VI32 x => [12] ++ with_len k ++ le_enc 4 4 ++ le_enc 4 x
  | VI64 x => [13] ++ with_len k ++ le_enc 4 8 ++ le_enc 8 x
  | VStr s => [24] ++ with_len k ++ with_len s
  | VBytes s => [66] ++ with_len k ++ with_len s
  end.

(* VariantDictionary::dump with the HashMap's iteration order given *)
Definition vd_dump (d : vdict) : bytes := le_enc 2 256 ++ concat (map vd_dump_entry d) ++ [0].

(* ---------- KDF configuration <-> dictionary ---------- *)
Definition get_bytes (k : bytes) (d : vdict) : res bytes :=
  match vd_lookup k d with
  | None => Err EVdMissingKey | Some (VBytes b) => Ok b | Some _ => Err EVdMistyped end.
Definition get_u64 (k : bytes) (d : vdict) : res N :=
  match vd_lookup k d with
  | None => Err EVdMissingKey | Some (VU64 v) => Ok v | Some _ => Err EVdMistyped end.
Definition get_u32 (k : bytes) (d : vdict) : res N :=
  match vd_lookup k d with
  | None => Err EVdMissingKey | Some (VU32 v) => Ok v | Some _ => Err EVdMistyped end.

Definition kdf_of_vd (d : vdict) : res (kdfcfg * bytes) :=
  do uuid <- get_bytes k_uuid d;
  let argon (id : bool) :=
      do memory <- get_u64 k_M d;
      do salt <- get_bytes k_S d;
      do iterations <- get_u64 k_I d;
      do parallelism <- get_u32 k_P d;
      do version <- get_u32 k_V d;
      if N.eqb version 16 then Ok (KArgon2 id iterations memory parallelism V10, salt)
      else if N.eqb version 19 then Ok (KArgon2 id iterations memory parallelism V13, salt)
      else Err EKdfVersion in
  if bytes_eqb uuid kdf_argon2id then argon true
  else if bytes_eqb uuid kdf_argon2 then argon false
  else if bytes_eqb uuid kdf_aes_kdbx4 || bytes_eqb uuid kdf_aes_kdbx3 then
    do rounds <- get_u64 k_R d;
    do seed <- get_bytes k_S d;
    Ok (KAes rounds, seed)
  else Err EKdfUuid.

(* KdfConfig::to_variant_dictionary: the entries, in the order of the `set` calls *)
Definition vd_of_kdf (k : kdfcfg) (seed : bytes) : vdict :=
  match k with
  | KAes rounds => [(k_uuid, VBytes kdf_aes_kdbx4); (k_R, VU64 rounds); (k_S, VBytes seed)]
  | KArgon2 id iterations memory parallelism v =>
    [(k_uuid, VBytes (if id then kdf_argon2id else kdf_argon2)); (k_M, VU64 memory); (k_S, VBytes seed);
     (k_I, VU64 iterations); (k_P, VU32 parallelism); (k_V, VU32 (argon_version_id v))]
  end.

(* ---------- outer header ---------- *)
Record outer_header := mkOuter {
  h_cipher : ocipher; h_compression : compression; h_master_seed : bytes; h_iv : bytes;
  h_kdf : kdfcfg; h_kdf_seed : bytes }.

Record outer_acc := mkOA {
  oa_cipher : option ocipher; oa_compression : option compression; oa_seed : option bytes;
  oa_iv : option bytes; oa_kdf : option (kdfcfg * bytes) }.

(* one TLV: type, u32 length, buffer; None when it does not fit *)
Definition tlv (rest : bytes) : option (N * bytes * bytes) :=
  match rest with
  | ty :: r1 =>
    if Nat.ltb (length r1) 4 then None
    else
      let len := le32 r1 in let r2 := drop 4 r1 in
      if negb (fits len r2) then None
      else let n := N.to_nat len in Some (ty, take n r2, drop n r2)
  | [] => None
  end.

Fixpoint outer_fields (fuel : nat) (rest : bytes) (a : outer_acc) : res (outer_acc * bytes) :=
  match fuel with
  | O => OutOfFuel
  | S f =>
    match tlv rest with
    | None => Err EIncompleteOuter
    | Some (ty, buf, rest') =>
      if N.eqb ty 0 then Ok (a, rest')
      else if N.eqb ty 1 then outer_fields f rest' a
      else if N.eqb ty 2 then
        match ocipher_of_id buf with
        | Some c => outer_fields f rest' (mkOA (Some c) (oa_compression a) (oa_seed a) (oa_iv a) (oa_kdf a))
        | None => Err EOuterCipherId
        end
      else if N.eqb ty 3 then
        if Nat.ltb (length buf) 4 then Err EInvalidOuterEntry
        else match compression_of_id (le32 buf) with
             | Some c => outer_fields f rest' (mkOA (oa_cipher a) (Some c) (oa_seed a) (oa_iv a) (oa_kdf a))
             | None => Err ECompressionId
             end
      else if N.eqb ty 4 then outer_fields f rest' (mkOA (oa_cipher a) (oa_compression a) (Some buf) (oa_iv a) (oa_kdf a))
      else if N.eqb ty 7 then outer_fields f rest' (mkOA (oa_cipher a) (oa_compression a) (oa_seed a) (Some buf) (oa_kdf a))
      else if N.eqb ty 11 then
        do d <- vd_parse buf;
        do ks <- kdf_of_vd d;
        outer_fields f rest' (mkOA (oa_cipher a) (oa_compression a) (oa_seed a) (oa_iv a) (Some ks))
      else Err EInvalidOuterEntry
    end
  end.

Definition version_err (e : verr) : kerr :=
  match e with InvalidKDBXIdentifier => EIdentifier | InvalidKDBXVersion => EVersion end.

(* returns the header, the version and the header length *)
Definition parse_outer_header (data : bytes) : res (dbversion * outer_header * nat) :=
  match version_parse data with
  | Err e => Err (version_err e)
  | Panic n => Panic n
  | OutOfFuel => OutOfFuel
  | Ok v =>
    do (a, rest') <- outer_fields (S (length data)) (drop version_header_size data)
                                  (mkOA None None None None None);
    match oa_cipher a, oa_compression a, oa_seed a, oa_iv a, oa_kdf a with
    | Some c, Some z, Some s, Some iv, Some (k, ks) =>
      Ok (v, mkOuter c z s iv k ks, (length data - length rest')%nat)
    | _, _, _, _, _ => Err EIncompleteOuter
    end
  end.

(* ---------- inner header ---------- *)
Record inner_acc := mkIA { ia_stream : option icipher; ia_key : option bytes; ia_atts : list attachment }.

Fixpoint inner_fields (fuel : nat) (rest : bytes) (a : inner_acc) : res (inner_acc * bytes) :=
  match fuel with
  | O => OutOfFuel
  | S f =>
    match tlv rest with
    | None => Err EIncompleteInner
    | Some (ty, buf, rest') =>
      if N.eqb ty 0 then Ok (a, rest')
      else if N.eqb ty 1 then
        if Nat.ltb (length buf) 4 then Err EInvalidInnerEntry
        else match icipher_of_id (le32 buf) with
             | Some c => inner_fields f rest' (mkIA (Some c) (ia_key a) (ia_atts a))
             | None => Err EInnerCipherId
             end
      else if N.eqb ty 2 then inner_fields f rest' (mkIA (ia_stream a) (Some buf) (ia_atts a))
      else if N.eqb ty 3 then
        match buf with
        | [] => Err EInvalidInnerEntry
        | fl :: content => inner_fields f rest' (mkIA (ia_stream a) (ia_key a) (ia_atts a ++ [mkAtt fl content]))
        end
      else Err EInvalidInnerEntry
    end
  end.

Definition parse_inner_header (payload : bytes) : res (list attachment * icipher * bytes * bytes) :=
  do (a, rest') <- inner_fields (S (length payload)) payload (mkIA None None []);
  match ia_stream a, ia_key a with
  | Some c, Some k => Ok (ia_atts a, c, k, rest')
  | _, _ => Err EIncompleteInner
  end.

Section primitives.
  Variable sha256 sha512 : bytes -> bytes.
  Variable hmac256 : bytes -> bytes -> bytes.                       (* key, message *)
  Variable kdf : kdfcfg -> bytes -> bytes -> res bytes.             (* config, seed, composite key *)
  Variable outer_enc outer_dec : ocipher -> bytes -> bytes -> bytes -> res bytes.   (* key, iv, data *)
  Variable compress decompress : compression -> bytes -> res bytes.

  Definition u64_max : N := 18446744073709551615.
  Definition block_key (index : N) (hmac_key : bytes) : bytes := sha512 (le_enc 8 index ++ hmac_key).
  Definition block_mac (index : N) (hmac_key size_bytes block : bytes) : bytes :=
    hmac256 (block_key index hmac_key) (le_enc 8 index ++ size_bytes ++ block).

  (* read_hmac_block_stream *)
  Fixpoint read_blocks (fuel : nat) (index : N) (rest hmac_key out : bytes) : res bytes :=
    match fuel with
    | O => OutOfFuel
    | S f =>
      match rest with
      | [] => Err EBlockHash   (* the data ends before the closing empty block (fix 92a788c) *)
      | _ :: _ =>
        if Nat.ltb (length rest) 36 then Err EBlockHash
        else
          let mac := take 32 rest in
          let size_bytes := take 4 (drop 32 rest) in
          let size := le_dec size_bytes in
          let r2 := drop 36 rest in
          if negb (fits size r2) then Err EBlockHash
          else
            let n := N.to_nat size in
            let block := take n r2 in
            if negb (bytes_eqb mac (block_mac index hmac_key size_bytes block)) then Err EBlockHash
            else if N.eqb size 0 then Ok out
            else read_blocks f (index + 1) (drop n r2) hmac_key (out ++ block)
      end
    end.

  (* write_hmac_block_stream: the whole payload as one block, then the empty block *)
  Definition write_blocks (data hmac_key : bytes) : bytes :=
    let first :=
        match data with
        | [] => []
        | _ :: _ => let sb := le_enc 4 (N.of_nat (length data)) in
                    block_mac 0 hmac_key sb data ++ sb ++ data
        end in
    let idx := match data with [] => 0 | _ :: _ => 1 end in
    first ++ block_mac idx hmac_key (le_enc 4 0) [] ++ le_enc 4 0.

  (* the key schedule shared by reader and writer *)
  Definition composite_key (elements : list bytes) : bytes := sha256 (concat elements).
  Definition master_key_of (seed transformed : bytes) : bytes := sha256 (seed ++ transformed).
  Definition hmac_key_of (seed transformed : bytes) : bytes := sha512 (seed ++ transformed ++ [1]).
  Definition header_mac (hmac_key header : bytes) : bytes := hmac256 (block_key u64_max hmac_key) header.

  (* every inner cipher accepts a key of any length: Salsa20Cipher::new hashes it with SHA-256 (since
     the repair F17; before, it demanded exactly 32 bytes), ChaCha20Cipher::new with SHA-512 *)
  Definition inner_key_ok (c : icipher) (k : bytes) : bool :=
    match c with ISalsa20 => true | _ => true end.

  (* decrypt_kdbx4; [elements] is DatabaseKey::get_key_elements *)
  Definition decrypt4 (data : bytes) (elements : res (list bytes))
    : res (config * list attachment * bytes * bytes) :=
    do (vh, hlen) <- parse_outer_header data;
    let '(v, h) := vh in
    if Nat.ltb (length data) (hlen + 64) then Err EFixedHeader
    else
      let header := take hlen data in
      let sha := take 32 (drop hlen data) in
      let mac := take 32 (drop (hlen + 32) data) in
      let stream := drop (hlen + 64) data in
      if negb (bytes_eqb sha (sha256 header)) then Err EHeaderHash
      else
        do els <- elements;
        do transformed <- kdf (h_kdf h) (h_kdf_seed h) (composite_key els);
        let master_key := master_key_of (h_master_seed h) transformed in
        let hmac_key := hmac_key_of (h_master_seed h) transformed in
        if negb (bytes_eqb mac (header_mac hmac_key header)) then Err EIncorrectKey
        else
          do payload_enc <- read_blocks (S (length stream)) 0 stream hmac_key [];
          do payload_comp <- outer_dec (h_cipher h) master_key (h_iv h) payload_enc;
          do payload <- decompress (h_compression h) payload_comp;
          do (aik, xml) <- parse_inner_header payload;
          let '(atts, ic, ikey) := aik in
          if negb (inner_key_ok ic ikey) then Err ECrypto
          else Ok (mkConfig v (h_cipher h) (h_compression h) ic (h_kdf h), atts, ikey, xml).

  (* ---------- writer ---------- *)
  Definition version_dump (minor : N) : bytes :=
    kdbx_identifier ++ le_enc 4 keepass_latest_id ++ le_enc 2 minor ++ le_enc 2 4.

  Definition field (ty : N) (b : bytes) : bytes := [ty] ++ with_len b.

  (* KDBX4OuterHeader::dump; [vd] is the KDF dictionary in the HashMap's iteration order *)
  Definition outer_header_dump (minor : N) (c : ocipher) (z : compression) (iv seed : bytes) (vd : vdict) : bytes :=
    version_dump minor
    ++ field 2 (ocipher_id c)
    ++ field 3 (le_enc 4 (compression_id z))
    ++ field 7 iv
    ++ field 4 seed
    ++ field 11 (vd_dump vd)
    ++ field 0 [].

  Definition attachment_dump (a : attachment) : bytes :=
    [3] ++ le_enc 4 (N.of_nat (length (att_content a)) + 1) ++ [att_flags a] ++ att_content a.

  Definition inner_header_dump (c : icipher) (key : bytes) (atts : list attachment) : bytes :=
    [1] ++ le_enc 4 4 ++ le_enc 4 (icipher_id c)
    ++ field 2 key
    ++ concat (map attachment_dump atts)
    ++ field 0 [].

  Record draws := mkDraws { d_master_seed : bytes; d_iv : bytes; d_inner_key : bytes; d_kdf_seed : bytes }.

  (* what dump_kdbx4 asks the random source for, in order *)
  Definition draw_sizes (cfg : config) : list nat :=
    [32; iv_size (c_outer cfg); ikey_size (c_inner cfg); 32]%nat.
  Definition draws_ok (cfg : config) (d : draws) : bool :=
    Nat.eqb (length (d_master_seed d)) 32 && Nat.eqb (length (d_iv d)) (iv_size (c_outer cfg))
    && Nat.eqb (length (d_inner_key d)) (ikey_size (c_inner cfg)) && Nat.eqb (length (d_kdf_seed d)) 32.

  (* dump_kdbx4.  [vd] must be a permutation of vd_of_kdf (checked by the caller / hypothesis). *)
  Definition dump4 (cfg : config) (d : draws) (vd : vdict) (elements : res (list bytes))
             (atts : list attachment) (xml : bytes) : res bytes :=
    match c_version cfg with
    | KDB4 minor =>
      let header := outer_header_dump minor (c_outer cfg) (c_compression cfg) (d_iv d) (d_master_seed d) vd in
      do els <- elements;
      do transformed <- kdf (c_kdf cfg) (d_kdf_seed d) (composite_key els);
      let master_key := master_key_of (d_master_seed d) transformed in
      let hmac_key := hmac_key_of (d_master_seed d) transformed in
      if negb (inner_key_ok (c_inner cfg) (d_inner_key d)) then Err ECrypto
      else
        let payload := inner_header_dump (c_inner cfg) (d_inner_key d) atts ++ xml in
        do compressed <- compress (c_compression cfg) payload;
        do encrypted <- outer_enc (c_outer cfg) master_key (d_iv d) compressed;
        Ok (header ++ sha256 header ++ header_mac hmac_key header ++ write_blocks encrypted hmac_key)
    | _ => Err EUnsupported
    end.
End primitives.

(* KDB payload reader (C02): specification side.
   Everything here speaks about finished trees ([list knode]) and about the writer's descriptions
   ([gdesc], [edesc]); nothing mentions the reader's stack machine ([group_end], [collapse]).
     - [preorder]      : the (depth, name) listing of the groups of a forest, in preorder
     - [forest_paths]  : the index paths of the groups of a forest, in the same order
     - [children_at], [name_at], [tags_at] : what an index path reaches
     - [valid_levels], [gdesc_ok], [edesc_ok] : what a conforming writer lays out
     - [gm_spec]       : the id map as a fold of insertions (last one wins)
     - [entry_fields], [attach_entries] : what the entries section denotes
   and the pure facts about them: [preorder_inj] (a groups-only forest is determined by its
   listing), [forest_paths_valid], [forest_paths_names], [forest_paths_NoDup], [gm_spec_get]. *)
From Coq Require Import Lia.
From KP Require Import Bytes Outcome LE LEFacts Version Kdbx4 Key Kdb.
Local Open Scope N_scope.

(* ---------- induction on forests ---------- *)
Section forest_ind.
  Variable P : list knode -> Prop.
  Hypothesis Hnil : P [].
  Hypothesis Hgrp : forall name c r, P c -> P r -> P (KGroup name c :: r).
  Hypothesis Hent : forall f r, P r -> P (KEntry f :: r).
  Fixpoint node_forest_ind (n : knode) : forall r, P r -> P (n :: r) :=
    match n with
    | KGroup name c => fun r Hr =>
        Hgrp name c r
          ((fix go (l : list knode) : P l :=
              match l with [] => Hnil | x :: l' => node_forest_ind x l' (go l') end) c) Hr
    | KEntry f => fun r Hr => Hent f r Hr
    end.
  Fixpoint forest_ind (l : list knode) : P l :=
    match l with [] => Hnil | x :: r => node_forest_ind x r (forest_ind r) end.
End forest_ind.

(* ---------- observations on forests ---------- *)

(* (depth, name) of every group, in preorder; entries are ignored *)
Fixpoint preorder_node (d : nat) (n : knode) : list (nat * bytes) :=
  match n with
  | KGroup name c => (d, name) :: flat_map (preorder_node (S d)) c
  | KEntry _ => []
  end.
Definition preorder (d : nat) (l : list knode) : list (nat * bytes) := flat_map (preorder_node d) l.

(* no entry anywhere *)
Fixpoint groups_only_node (n : knode) : bool :=
  match n with KGroup _ c => forallb groups_only_node c | KEntry _ => false end.
Definition groups_only (l : list knode) : bool := forallb groups_only_node l.

(* the forest without its entries *)
Fixpoint strip_node (n : knode) : list knode :=
  match n with KGroup name c => [KGroup name (flat_map strip_node c)] | KEntry _ => [] end.
Definition strip_entries (l : list knode) : list knode := flat_map strip_node l.

Section imap.
  Context {A B : Type}.
  Variable f : nat -> A -> list B.
  Fixpoint imap (i : nat) (l : list A) : list B :=
    match l with [] => [] | x :: r => f i x ++ imap (S i) r end.
End imap.

(* index paths of the groups below a node ([] is the node itself), in preorder *)
Fixpoint node_paths (n : knode) : list (list nat) :=
  match n with
  | KGroup _ c => [] :: imap (fun i x => map (cons i) (node_paths x)) 0 c
  | KEntry _ => []
  end.
Definition forest_paths_from (i : nat) (l : list knode) : list (list nat) :=
  imap (fun i x => map (cons i) (node_paths x)) i l.
Definition forest_paths (l : list knode) : list (list nat) := forest_paths_from 0 l.

(* the children of the group an index path leads to ([] is the root's children list itself) *)
Fixpoint children_at (p : list nat) (t : list knode) : option (list knode) :=
  match p with
  | [] => Some t
  | i :: q => match nth_error t i with Some (KGroup _ c) => children_at q c | _ => None end
  end.
(* the name of that group *)
Fixpoint name_at (p : list nat) (t : list knode) : option bytes :=
  match p with
  | [] => None
  | i :: q =>
    match nth_error t i with
    | Some (KGroup name c) => match q with [] => Some name | _ => name_at q c end
    | _ => None
    end
  end.
(* a children list seen as: None for a sub-group, Some fields for an entry *)
Definition tag (n : knode) : option kfields := match n with KGroup _ _ => None | KEntry f => Some f end.

(* ---------- what a conforming writer lays out ---------- *)
Definition gdesc_ok (g : gdesc) : bool :=
  N.ltb (N.of_nat (gd_level g)) (2 ^ 16) && N.ltb (gd_gid g) (2 ^ 32)
  && N.ltb (N.of_nat (S (length (gd_name g)))) (2 ^ 32)
  && negb (N.eqb (last (gd_name g) 1) 0).

(* [levels_ok d gs]: the first level is at most [d], each next one at most the previous + 1 *)
Fixpoint levels_ok (d : nat) (gs : list gdesc) : bool :=
  match gs with
  | [] => true
  | g :: r => Nat.leb (gd_level g) d && levels_ok (S (gd_level g)) r
  end.
(* the first group is at level 0 and no level exceeds its predecessor's by more than one *)
Definition valid_levels (gs : list gdesc) : bool := levels_ok 0 gs.

Definition lvname (g : gdesc) : nat * bytes := (gd_level g, gd_name g).

(* the id map: insertions in file order, a repeated id is overwritten *)
Definition gm_insert (m : list (N * list nat)) (kp : N * list nat) := map_insert (fst kp) (snd kp) m.
Definition gm_spec (ids : list N) (ps : list (list nat)) : list (N * list nat) :=
  fold_left gm_insert (combine ids ps) [].

(* ---------- entries ---------- *)
Definition field_ok (f : N * bytes) : bool :=
  (N.eqb (fst f) 4 || N.eqb (fst f) 5 || N.eqb (fst f) 6 || N.eqb (fst f) 7 || N.eqb (fst f) 8
   || N.eqb (fst f) 13 || N.eqb (fst f) 14)
  && N.ltb (N.of_nat (length (snd f))) (2 ^ 32).
Definition edesc_ok (e : edesc) : bool := N.ltb (ed_gid e) (2 ^ 32) && forallb field_ok (ed_fields e).

Definition interp_field (fs : kfields) (f : N * bytes) : kfields :=
  if N.eqb (fst f) 7 then field_insert s_Password (KProt (trim_nul (snd f))) fs
  else if N.eqb (fst f) 14 then field_insert s_BinaryData (KBytes (snd f)) fs
  else field_insert (entry_name (fst f)) (KUnprot (trim_nul (snd f))) fs.
Definition entry_fields (e : edesc) : kfields := fold_left interp_field (ed_fields e) [].

Definition attach_d (p : list nat) (t : list knode) (e : knode) : list knode :=
  match attach p t e with Some t' => t' | None => t end.
Definition attach_entry (m : list (N * list nat)) (t : list knode) (e : edesc) : list knode :=
  match map_get (ed_gid e) m with
  | Some p => attach_d p t (KEntry (entry_fields e))
  | None => t
  end.
Definition attach_entries (m : list (N * list nat)) (t : list knode) (es : list edesc) : list knode :=
  fold_left (attach_entry m) es t.

Definition path_eqb (p q : list nat) : bool := list_eqb Nat.eqb p q.
(* the entries the map sends to the group at [p], in file order *)
Definition entries_for (m : list (N * list nat)) (p : list nat) (es : list edesc) : list edesc :=
  filter (fun e => match map_get (ed_gid e) m with Some q => path_eqb q p | None => false end) es.

(* ---------- unfolding equations ---------- *)
Lemma preorder_nil d : preorder d [] = [].
Proof. reflexivity. Qed.
Lemma preorder_group d name c r :
  preorder d (KGroup name c :: r) = (d, name) :: preorder (S d) c ++ preorder d r.
Proof. reflexivity. Qed.
Lemma preorder_entry d f r : preorder d (KEntry f :: r) = preorder d r.
Proof. reflexivity. Qed.
Lemma preorder_app d a b : preorder d (a ++ b) = preorder d a ++ preorder d b.
Proof. unfold preorder. apply flat_map_app. Qed.

Lemma groups_only_group name c r :
  groups_only (KGroup name c :: r) = groups_only c && groups_only r.
Proof. reflexivity. Qed.
Lemma groups_only_entry f r : groups_only (KEntry f :: r) = false.
Proof. reflexivity. Qed.
Lemma groups_only_app a b : groups_only (a ++ b) = groups_only a && groups_only b.
Proof. unfold groups_only. apply forallb_app. Qed.

Lemma strip_group name c r :
  strip_entries (KGroup name c :: r) = KGroup name (strip_entries c) :: strip_entries r.
Proof. reflexivity. Qed.
Lemma strip_entry f r : strip_entries (KEntry f :: r) = strip_entries r.
Proof. reflexivity. Qed.
Lemma strip_app a b : strip_entries (a ++ b) = strip_entries a ++ strip_entries b.
Proof. unfold strip_entries. apply flat_map_app. Qed.

Lemma strip_groups_only t : groups_only t = true -> strip_entries t = t.
Proof.
  induction t as [|name c r IHc IHr|f r IHr] using forest_ind; intro H.
  - reflexivity.
  - rewrite groups_only_group in H. apply andb_true_iff in H. destruct H as [Hc Hr].
    rewrite strip_group, IHc, IHr by assumption. reflexivity.
  - rewrite groups_only_entry in H. discriminate H.
Qed.

Lemma strip_is_groups_only t : groups_only (strip_entries t) = true.
Proof.
  induction t as [|name c r IHc IHr|f r IHr] using forest_ind.
  - reflexivity.
  - rewrite strip_group, groups_only_group, IHc, IHr. reflexivity.
  - rewrite strip_entry. exact IHr.
Qed.

Lemma preorder_strip d t : preorder d (strip_entries t) = preorder d t.
Proof.
  revert d. induction t as [|name c r IHc IHr|f r IHr] using forest_ind; intro d.
  - reflexivity.
  - rewrite strip_group, !preorder_group, IHc, IHr. reflexivity.
  - rewrite strip_entry, preorder_entry. apply IHr.
Qed.

(* ---------- a groups-only forest is determined by its preorder listing ---------- *)
Lemma preorder_deeper t : forall d, Forall (fun x => (d <= fst x)%nat) (preorder d t).
Proof.
  induction t as [|name c r IHc IHr|f r IHr] using forest_ind; intro d.
  - constructor.
  - rewrite preorder_group. constructor; [cbn [fst]; lia|].
    apply Forall_app. split; [|apply IHr].
    eapply Forall_impl; [|apply (IHc (S d))]. intros x Hx. cbn beta in Hx |- *. lia.
  - rewrite preorder_entry. apply IHr.
Qed.

Definition starts_at (d : nat) (l : list (nat * bytes)) : Prop :=
  match l with [] => True | x :: _ => fst x = d end.

Lemma preorder_starts d t : groups_only t = true -> starts_at d (preorder d t).
Proof.
  destruct t as [|[name c|f] r]; intro H.
  - exact I.
  - rewrite preorder_group. reflexivity.
  - rewrite groups_only_entry in H. discriminate H.
Qed.

Lemma split_unique d (l1 l2 a b : list (nat * bytes)) :
  Forall (fun x => (S d <= fst x)%nat) l1 -> Forall (fun x => (S d <= fst x)%nat) l2 ->
  starts_at d a -> starts_at d b -> l1 ++ a = l2 ++ b -> l1 = l2 /\ a = b.
Proof.
  revert l2. induction l1 as [|x l1 IH]; intros l2 H1 H2 Ha Hb E.
  - destruct l2 as [|y l2]; [split; [reflexivity|exact E]|].
    exfalso. cbn [app] in E. destruct a as [|x a]; [discriminate E|].
    injection E as Ex Ea. subst x. cbn [starts_at] in Ha. inversion H2 as [|? ? Hy ?]; subst. lia.
  - destruct l2 as [|y l2].
    + exfalso. cbn [app] in E. destruct b as [|y b]; [discriminate E|].
      injection E as Ex Eb. subst y. cbn [starts_at] in Hb. inversion H1 as [|? ? Hx ?]; subst. lia.
    + cbn [app] in E. injection E as Ex E. subst y.
      inversion H1 as [|? ? _ H1']; subst. inversion H2 as [|? ? _ H2']; subst.
      destruct (IH l2 H1' H2' Ha Hb E) as [-> ->]. split; reflexivity.
Qed.

Theorem preorder_inj t1 : forall d t2,
  groups_only t1 = true -> groups_only t2 = true -> preorder d t1 = preorder d t2 -> t1 = t2.
Proof.
  induction t1 as [|name c r IHc IHr|f r IHr] using forest_ind; intros d t2 G1 G2 E.
  - destruct t2 as [|[n2 c2|f2] r2]; [reflexivity| |].
    + rewrite preorder_group in E. discriminate E.
    + rewrite groups_only_entry in G2. discriminate G2.
  - destruct t2 as [|[n2 c2|f2] r2].
    + rewrite preorder_group in E. discriminate E.
    + rewrite !preorder_group in E. injection E as En E. subst n2.
      rewrite groups_only_group in G1, G2.
      apply andb_true_iff in G1. destruct G1 as [G1c G1r].
      apply andb_true_iff in G2. destruct G2 as [G2c G2r].
      destruct (split_unique d _ _ _ _ (preorder_deeper c (S d)) (preorder_deeper c2 (S d))
                  (preorder_starts d r G1r) (preorder_starts d r2 G2r) E) as [Ec Er].
      rewrite (IHc (S d) c2 G1c G2c Ec), (IHr d r2 G1r G2r Er). reflexivity.
    + rewrite groups_only_entry in G2. discriminate G2.
  - rewrite groups_only_entry in G1. discriminate G1.
Qed.

(* ---------- index paths ---------- *)
Lemma fpf_nil i : forest_paths_from i [] = [].
Proof. reflexivity. Qed.
Lemma fpf_group i name c r :
  forest_paths_from i (KGroup name c :: r) =
  [i] :: map (cons i) (forest_paths_from 0 c) ++ forest_paths_from (S i) r.
Proof. reflexivity. Qed.
Lemma fpf_entry i f r : forest_paths_from i (KEntry f :: r) = forest_paths_from (S i) r.
Proof. reflexivity. Qed.
Lemma fpf_app a : forall i b,
  forest_paths_from i (a ++ b) = forest_paths_from i a ++ forest_paths_from (i + length a) b.
Proof.
  unfold forest_paths_from. induction a as [|x a IH]; intros i b.
  - cbn [app imap length]. rewrite Nat.add_0_r. reflexivity.
  - cbn [app imap length]. rewrite IH, <- app_assoc. replace (S i + length a)%nat with (i + S (length a))%nat by lia.
    reflexivity.
Qed.

Lemma fpf_length t : forall i d, length (forest_paths_from i t) = length (preorder d t).
Proof.
  induction t as [|name c r IHc IHr|f r IHr] using forest_ind; intros i d.
  - reflexivity.
  - rewrite fpf_group, preorder_group. cbn [length]. rewrite !app_length, map_length.
    rewrite (IHc 0%nat (S d)), (IHr (S i) d). reflexivity.
  - rewrite fpf_entry, preorder_entry. apply IHr.
Qed.

Lemma forest_paths_length t : length (forest_paths t) = length (preorder 0 t).
Proof. apply fpf_length. Qed.

(* every listed path starts with an index >= the offset, in particular is not empty *)
Lemma fpf_head t : forall i p, In p (forest_paths_from i t) -> exists j q, p = j :: q /\ (i <= j)%nat.
Proof.
  induction t as [|name c r IHc IHr|f r IHr] using forest_ind; intros i p H.
  - destruct H.
  - rewrite fpf_group in H. destruct H as [H|H].
    + exists i, []. split; [symmetry; exact H|lia].
    + apply in_app_or in H. destruct H as [H|H].
      * apply in_map_iff in H. destruct H as [q [Hq _]]. exists i, q. split; [symmetry; exact Hq|lia].
      * destruct (IHr (S i) p H) as [j [q [Hp Hj]]]. exists j, q. split; [exact Hp|lia].
  - rewrite fpf_entry in H. destruct (IHr (S i) p H) as [j [q [Hp Hj]]]. exists j, q. split; [exact Hp|lia].
Qed.

Lemma forest_paths_nonempty t p : In p (forest_paths t) -> p <> [].
Proof. intro H. destruct (fpf_head t 0%nat p H) as [j [q [-> _]]]. discriminate. Qed.

Lemma nth_error_pre {A} (pre : list A) x r : nth_error (pre ++ x :: r) (length pre) = Some x.
Proof. induction pre as [|y pre IH]; [reflexivity|exact IH]. Qed.

(* every listed path leads to a group *)
Lemma fpf_valid t : forall pre p,
  In p (forest_paths_from (length pre) t) -> exists c, children_at p (pre ++ t) = Some c.
Proof.
  induction t as [|name c r IHc IHr|f r IHr] using forest_ind; intros pre p H.
  - destruct H.
  - rewrite fpf_group in H. destruct H as [H|H].
    + subst p. cbn [children_at]. rewrite nth_error_pre. exists c. reflexivity.
    + apply in_app_or in H. destruct H as [H|H].
      * apply in_map_iff in H. destruct H as [q [Hq Hin]]. subst p.
        cbn [children_at]. rewrite nth_error_pre. apply (IHc [] q). exact Hin.
      * specialize (IHr (pre ++ [KGroup name c]) p). rewrite app_length, Nat.add_1_r, <- app_assoc in IHr.
        apply IHr. exact H.
  - rewrite fpf_entry in H.
    specialize (IHr (pre ++ [KEntry f]) p). rewrite app_length, Nat.add_1_r, <- app_assoc in IHr.
    apply IHr. exact H.
Qed.

Theorem forest_paths_valid t p : In p (forest_paths t) -> exists c, children_at p t = Some c.
Proof. intro H. apply (fpf_valid t [] p). exact H. Qed.

(* the i-th listed path leads to the group listed i-th by [preorder] *)
Lemma fpf_names t : forall pre d,
  map (fun p => name_at p (pre ++ t)) (forest_paths_from (length pre) t) =
  map (fun x => Some (snd x)) (preorder d t).
Proof.
  induction t as [|name c r IHc IHr|f r IHr] using forest_ind; intros pre d.
  - reflexivity.
  - rewrite fpf_group, preorder_group. cbn [map]. rewrite !map_app, map_map. f_equal.
    + cbn [name_at]. rewrite nth_error_pre. reflexivity.
    + f_equal.
      * rewrite <- (IHc [] (S d)). cbn [app length]. apply map_ext_in. intros q Hq.
        cbn [name_at]. rewrite nth_error_pre.
        destruct q as [|j q]; [exfalso; exact (forest_paths_nonempty c [] Hq eq_refl)|reflexivity].
      * specialize (IHr (pre ++ [KGroup name c]) d). rewrite app_length, Nat.add_1_r, <- app_assoc in IHr.
        exact IHr.
  - rewrite fpf_entry, preorder_entry.
    specialize (IHr (pre ++ [KEntry f]) d). rewrite app_length, Nat.add_1_r, <- app_assoc in IHr.
    exact IHr.
Qed.

Theorem forest_paths_names t :
  map (fun p => name_at p t) (forest_paths t) = map (fun x => Some (snd x)) (preorder 0 t).
Proof. apply (fpf_names t [] 0%nat). Qed.

(* a path is one longer than the depth of the group it leads to *)
Lemma fpf_depths t : forall i d,
  map (fun p => (d + length p)%nat) (forest_paths_from i t) = map (fun x => S (fst x)) (preorder d t).
Proof.
  induction t as [|name c r IHc IHr|f r IHr] using forest_ind; intros i d.
  - reflexivity.
  - rewrite fpf_group, preorder_group. cbn [map length fst]. rewrite !map_app, map_map. f_equal; [lia|].
    f_equal; [|apply IHr].
    rewrite <- (IHc 0%nat (S d)). apply map_ext. intro q. cbn [length]. lia.
  - rewrite fpf_entry, preorder_entry. apply IHr.
Qed.

Theorem forest_paths_depths t :
  map (@length nat) (forest_paths t) = map (fun x => S (fst x)) (preorder 0 t).
Proof. rewrite <- (fpf_depths t 0%nat 0%nat). apply map_ext. intro p. reflexivity. Qed.

(* no path is listed twice *)
Lemma NoDup_app_disjoint {A} (a b : list A) :
  NoDup a -> NoDup b -> (forall x, In x a -> In x b -> False) -> NoDup (a ++ b).
Proof.
  induction a as [|x a IH]; intros Ha Hb Hd; [exact Hb|].
  inversion Ha as [|? ? Hx Ha']; subst. cbn [app]. constructor.
  - intro Hin. apply in_app_or in Hin. destruct Hin as [Hin|Hin]; [exact (Hx Hin)|].
    apply (Hd x); [left; reflexivity|exact Hin].
  - apply IH; [exact Ha'|exact Hb|]. intros y Hya Hyb. apply (Hd y); [right; exact Hya|exact Hyb].
Qed.

Lemma NoDup_map_cons (i : nat) (l : list (list nat)) : NoDup l -> NoDup (map (cons i) l).
Proof.
  induction l as [|x l IH]; intro H; [constructor|].
  inversion H as [|? ? Hx Hl]; subst. cbn [map]. constructor; [|apply IH; exact Hl].
  intro Hin. apply in_map_iff in Hin. destruct Hin as [y [Hy Hin]]. injection Hy as ->. exact (Hx Hin).
Qed.

Lemma fpf_NoDup t : forall i, NoDup (forest_paths_from i t).
Proof.
  induction t as [|name c r IHc IHr|f r IHr] using forest_ind; intro i.
  - constructor.
  - rewrite fpf_group. change ([i] :: map (cons i) (forest_paths_from 0 c) ++ forest_paths_from (S i) r)
      with (map (cons i) ([] :: forest_paths_from 0 c) ++ forest_paths_from (S i) r).
    apply NoDup_app_disjoint.
    + apply NoDup_map_cons. constructor; [|apply IHc].
      intro Hin. exact (forest_paths_nonempty c [] Hin eq_refl).
    + apply IHr.
    + intros p Hp1 Hp2. apply in_map_iff in Hp1. destruct Hp1 as [q [Hq _]].
      destruct (fpf_head r (S i) p Hp2) as [j [q' [Hp Hj]]]. subst p. injection Hp as Hij _. lia.
  - rewrite fpf_entry. apply IHr.
Qed.

Theorem forest_paths_NoDup t : NoDup (forest_paths t).
Proof. apply fpf_NoDup. Qed.

(* ---------- the id map ---------- *)
Lemma map_get_insert k k' v m :
  map_get k (map_insert k' v m) = if N.eqb k k' then Some v else map_get k m.
Proof.
  induction m as [|[k0 v0] m IH]; cbn [map_insert map_get].
  - reflexivity.
  - destruct (N.eqb k' k0) eqn:E0; cbn [map_get].
    + apply N.eqb_eq in E0. subst k0. destruct (N.eqb k k'); reflexivity.
    + rewrite IH. destruct (N.eqb k k0) eqn:E1; [|reflexivity].
      apply N.eqb_eq in E1. subst k0. rewrite N.eqb_sym, E0. reflexivity.
Qed.

Lemma map_get_in k p m : map_get k m = Some p -> In (k, p) m.
Proof.
  induction m as [|[k0 v0] m IH]; cbn [map_get]; intro H; [discriminate H|].
  destruct (N.eqb k k0) eqn:E.
  - apply N.eqb_eq in E. subst k0. injection H as ->. left. reflexivity.
  - right. apply IH. exact H.
Qed.

Lemma map_insert_in k v m kp : In kp (map_insert k v m) -> kp = (k, v) \/ In kp m.
Proof.
  induction m as [|[k0 v0] m IH]; cbn [map_insert]; intro H.
  - destruct H as [H|[]]. left. symmetry. exact H.
  - destruct (N.eqb k k0).
    + destruct H as [H|H]; [left; symmetry; exact H|right; right; exact H].
    + destruct H as [H|H]; [right; left; exact H|].
      destruct (IH H) as [H'|H']; [left; exact H'|right; right; exact H'].
Qed.

Lemma combine_snoc {A B} (l1 : list A) (l2 : list B) a b :
  length l1 = length l2 -> combine (l1 ++ [a]) (l2 ++ [b]) = combine l1 l2 ++ [(a, b)].
Proof.
  revert l2. induction l1 as [|x l1 IH]; intros [|y l2] H; cbn [length] in H; try discriminate H.
  - reflexivity.
  - cbn [app combine]. rewrite IH by lia. reflexivity.
Qed.

Lemma gm_spec_snoc ids ps k p :
  length ids = length ps -> gm_spec (ids ++ [k]) (ps ++ [p]) = map_insert k p (gm_spec ids ps).
Proof. intro H. unfold gm_spec. rewrite combine_snoc by exact H. rewrite fold_left_app. reflexivity. Qed.

Lemma fold_insert_get kvs : forall init k,
  map_get k (fold_left gm_insert kvs init) =
  match find (fun kv => N.eqb k (fst kv)) (rev kvs) with
  | Some kv => Some (snd kv)
  | None => map_get k init
  end.
Proof.
  induction kvs as [|[k' v'] kvs IH] using rev_ind; intros init k.
  - reflexivity.
  - rewrite fold_left_app, rev_app_distr. cbn [fold_left rev app find fst snd]. unfold gm_insert at 1.
    cbn [fst snd]. rewrite map_get_insert. destruct (N.eqb k k'); [reflexivity|]. apply IH.
Qed.

(* the i-th id is mapped to the i-th path, unless the id occurs again later *)
Theorem gm_spec_get ids ps i k p :
  length ids = length ps -> nth_error ids i = Some k -> nth_error ps i = Some p ->
  (forall j, (i < j)%nat -> nth_error ids j <> Some k) ->
  map_get k (gm_spec ids ps) = Some p.
Proof.
  revert ps i. induction ids as [|k' ids IH] using rev_ind; intros ps i Hl Hk Hp Hlast.
  - destruct i; discriminate Hk.
  - destruct ps as [|p' ps] using rev_ind; [rewrite app_length in Hl; cbn [length] in Hl; lia|]. clear IHps.
    rewrite !app_length in Hl. cbn [length] in Hl. assert (Hl' : length ids = length ps) by lia.
    rewrite gm_spec_snoc by exact Hl'. rewrite map_get_insert.
    destruct (Nat.eq_dec i (length ids)) as [Ei|Ei].
    + subst i. rewrite nth_error_app2 in Hk by lia. rewrite Nat.sub_diag in Hk. injection Hk as ->.
      rewrite Hl' in Hp. rewrite nth_error_app2 in Hp by lia. rewrite Nat.sub_diag in Hp. injection Hp as ->.
      rewrite N.eqb_refl. reflexivity.
    + assert (Hi : (i < length ids)%nat).
      { assert (Hs : nth_error (ids ++ [k']) i <> None) by (rewrite Hk; discriminate).
        apply nth_error_Some in Hs. rewrite app_length in Hs. cbn [length] in Hs. lia. }
      destruct (N.eqb k k') eqn:E.
      * exfalso. apply N.eqb_eq in E. subst k'. apply (Hlast (length ids) Hi).
        rewrite nth_error_app2 by lia. rewrite Nat.sub_diag. reflexivity.
      * rewrite nth_error_app1 in Hk by exact Hi. rewrite nth_error_app1 in Hp by lia.
        apply (IH ps i Hl' Hk Hp). intros j Hj Hn.
        apply (Hlast j Hj). assert (Hjl : (j < length ids)%nat) by (apply nth_error_Some; rewrite Hn; discriminate).
        rewrite nth_error_app1 by exact Hjl. exact Hn.
Qed.

(* an id no group carries is not in the map *)
Theorem gm_spec_none ids ps k : ~ In k ids -> map_get k (gm_spec ids ps) = None.
Proof.
  intro H. unfold gm_spec. rewrite fold_insert_get.
  destruct (find (fun kv => N.eqb k (fst kv)) (rev (combine ids ps))) as [[k' v']|] eqn:F; [|reflexivity].
  exfalso. apply find_some in F. destruct F as [Hin Hk]. cbn [fst] in Hk. apply N.eqb_eq in Hk. subst k'.
  apply in_rev in Hin. apply in_combine_l in Hin. exact (H Hin).
Qed.

(* every stored path is one of the listed ones *)
Lemma gm_spec_in ids ps k p : In (k, p) (gm_spec ids ps) -> In p ps.
Proof.
  unfold gm_spec.
  assert (G : forall kvs init, In (k, p) (fold_left gm_insert kvs init) -> In (k, p) init \/ In (k, p) kvs).
  { induction kvs as [|kv kvs IH]; intros init H; [left; exact H|].
    cbn [fold_left] in H. destruct (IH _ H) as [H'|H'].
    - unfold gm_insert in H'. destruct (map_insert_in _ _ _ _ H') as [E|Hin].
      + right. left. destruct kv. cbn [fst snd] in E. symmetry. exact E.
      + left. exact Hin.
    - right. right. exact H'. }
  intro H. destruct (G _ _ H) as [[]|Hin]. apply in_combine_r in Hin. exact Hin.
Qed.

(* ---------- text ---------- *)
Lemma trim_nul_snoc0 l : trim_nul (l ++ [0]) = trim_nul l.
Proof. induction l as [|b r IH]; [reflexivity|]. cbn [app trim_nul]. rewrite IH. reflexivity. Qed.

Lemma trim_nul_id l : N.eqb (last l 1) 0 = false -> trim_nul l = l.
Proof.
  induction l as [|b r IH]; intro H; [reflexivity|].
  destruct r as [|x r'].
  - cbn [last] in H. cbn [trim_nul]. rewrite H. reflexivity.
  - change (last (b :: x :: r') 1) with (last (x :: r') 1) in H.
    change (trim_nul (b :: x :: r')) with (match trim_nul (x :: r') with [] => if N.eqb b 0 then [] else [b] | r0 => b :: r0 end).
    rewrite (IH H). reflexivity.
Qed.

Lemma path_eqb_eq p q : path_eqb p q = true <-> p = q.
Proof.
  unfold path_eqb. revert q. induction p as [|x p IH]; intros [|y q]; cbn [list_eqb]; split; intro H;
    try reflexivity; try discriminate H.
  - apply andb_true_iff in H. destruct H as [Hx Hp]. apply Nat.eqb_eq in Hx. apply IH in Hp. subst. reflexivity.
  - injection H as -> ->. rewrite Nat.eqb_refl. apply IH. reflexivity.
Qed.

(* ---------- attaching an entry ---------- *)
Lemma set_nth_split {A} (l1 : list A) x y l2 : set_nth (length l1) y (l1 ++ x :: l2) = l1 ++ y :: l2.
Proof. induction l1 as [|z l1 IH]; [reflexivity|]. cbn [length app set_nth]. rewrite IH. reflexivity. Qed.

Lemma nth_error_split_at {A} (l1 : list A) x l2 j :
  j <> length l1 -> forall y, nth_error (l1 ++ y :: l2) j = nth_error (l1 ++ x :: l2) j.
Proof.
  intros Hj y. destruct (Nat.lt_ge_cases j (length l1)) as [Hlt|Hge].
  - rewrite !nth_error_app1 by exact Hlt. reflexivity.
  - rewrite !nth_error_app2 by exact Hge. destruct (j - length l1)%nat as [|n] eqn:E; [lia|reflexivity].
Qed.

Lemma attach_some p : forall t c e,
  children_at p t = Some c ->
  exists t', attach p t e = Some t' /\ children_at p t' = Some (c ++ [e]).
Proof.
  induction p as [|i p IH]; intros t c e H.
  - cbn [children_at] in H. injection H as <-. exists (t ++ [e]). split; reflexivity.
  - cbn [children_at] in H. cbn [attach].
    destruct (nth_error t i) as [[name ci|f]|] eqn:En; try discriminate H.
    destruct (IH ci c e H) as [ci' [Ha Hc]]. rewrite Ha.
    exists (set_nth i (KGroup name ci') t). split; [reflexivity|].
    destruct (nth_error_split t i En) as [l1 [l2 [-> Hl]]]. subst i.
    rewrite set_nth_split. cbn [children_at]. rewrite nth_error_pre. exact Hc.
Qed.

Lemma attach_other p : forall t t' e q c,
  attach p t e = Some t' -> q <> p -> children_at q t = Some c ->
  exists c', children_at q t' = Some c' /\ map tag c' = map tag c.
Proof.
  induction p as [|i p IH]; intros t t' e q c Ha Hq Hc.
  - cbn [attach] in Ha. injection Ha as <-. destruct q as [|j q]; [congruence|].
    cbn [children_at] in Hc |- *.
    destruct (nth_error t j) as [[name cj|f]|] eqn:En; try discriminate Hc.
    rewrite nth_error_app1 by (apply nth_error_Some; rewrite En; discriminate). rewrite En.
    exists c. split; [exact Hc|reflexivity].
  - cbn [attach] in Ha.
    destruct (nth_error t i) as [[name ci|f]|] eqn:En; try discriminate Ha.
    destruct (attach p ci e) as [ci'|] eqn:Hai; [|discriminate Ha]. injection Ha as <-.
    destruct (nth_error_split t i En) as [l1 [l2 [-> Hl]]]. subst i. rewrite set_nth_split.
    destruct q as [|j q].
    + cbn [children_at] in Hc |- *. injection Hc as <-. eexists. split; [reflexivity|].
      rewrite !map_app. reflexivity.
    + cbn [children_at] in Hc |- *. destruct (Nat.eq_dec j (length l1)) as [Ej|Ej].
      * subst j. rewrite nth_error_pre in Hc |- *.
        apply (IH ci ci' e q c Hai); [congruence|exact Hc].
      * rewrite (nth_error_split_at l1 (KGroup name ci) l2 j Ej). exists c. split; [exact Hc|reflexivity].
Qed.

(* group paths stay valid *)
Lemma attach_keeps_valid p t t' e q c :
  attach p t e = Some t' -> children_at q t = Some c -> exists c', children_at q t' = Some c'.
Proof.
  intros Ha Hc. destruct (list_eq_dec Nat.eq_dec q p) as [->|Hq].
  - destruct (attach_some p t c e Hc) as [t2 [Ha2 Hc2]]. rewrite Ha in Ha2. injection Ha2 as <-.
    eexists. exact Hc2.
  - destruct (attach_other p t t' e q c Ha Hq Hc) as [c' [Hc' _]]. exists c'. exact Hc'.
Qed.

Lemma attach_strip p : forall t t' f, attach p t (KEntry f) = Some t' -> strip_entries t' = strip_entries t.
Proof.
  induction p as [|i p IH]; intros t t' f Ha.
  - cbn [attach] in Ha. injection Ha as <-. rewrite strip_app. cbn. apply app_nil_r.
  - cbn [attach] in Ha.
    destruct (nth_error t i) as [[name ci|f0]|] eqn:En; try discriminate Ha.
    destruct (attach p ci (KEntry f)) as [ci'|] eqn:Hai; [|discriminate Ha]. injection Ha as <-.
    destruct (nth_error_split t i En) as [l1 [l2 [-> Hl]]]. subst i. rewrite set_nth_split.
    rewrite !strip_app, !strip_group. rewrite (IH ci ci' f Hai). reflexivity.
Qed.

(* only a non-empty path leaves the top-level list alone *)
Lemma attach_top_tags p t t' e : p <> [] -> attach p t e = Some t' -> map tag t' = map tag t.
Proof.
  intros Hp Ha. destruct (attach_other p t t' e [] t Ha (fun E => Hp (eq_sym E)) eq_refl) as [c' [Hc' Ht]].
  cbn [children_at] in Hc'. injection Hc' as <-. exact Ht.
Qed.

(* ---------- the entries section, characterised ---------- *)
Definition paths_valid (m : list (N * list nat)) (t : list knode) : Prop :=
  forall k p, map_get k m = Some p -> exists c, children_at p t = Some c.

Lemma attach_entry_some m t e p c :
  map_get (ed_gid e) m = Some p -> children_at p t = Some c ->
  attach p t (KEntry (entry_fields e)) = Some (attach_entry m t e).
Proof.
  intros Hm Hc. unfold attach_entry, attach_d. rewrite Hm.
  destruct (attach_some p t c (KEntry (entry_fields e)) Hc) as [t' [Ha _]]. rewrite Ha. reflexivity.
Qed.

Lemma attach_entry_valid m t e : paths_valid m t -> paths_valid m (attach_entry m t e).
Proof.
  intros Hv k q Hq. destruct (Hv k q Hq) as [c Hc].
  destruct (map_get (ed_gid e) m) as [p|] eqn:Hm.
  - destruct (Hv _ _ Hm) as [cp Hcp].
    apply (attach_keeps_valid p t _ _ q c (attach_entry_some m t e p cp Hm Hcp) Hc).
  - unfold attach_entry. rewrite Hm. exists c. exact Hc.
Qed.

Lemma attach_entries_valid m es : forall t, paths_valid m t -> paths_valid m (attach_entries m t es).
Proof.
  induction es as [|e es IH]; intros t Hv; [exact Hv|].
  unfold attach_entries. cbn [fold_left]. apply IH. apply attach_entry_valid. exact Hv.
Qed.

Theorem attach_entries_strip m es : forall t,
  paths_valid m t -> strip_entries (attach_entries m t es) = strip_entries t.
Proof.
  induction es as [|e es IH]; intros t Hv; [reflexivity|].
  unfold attach_entries. cbn [fold_left]. fold (attach_entries m (attach_entry m t e) es).
  rewrite IH by (apply attach_entry_valid; exact Hv).
  destruct (map_get (ed_gid e) m) as [p|] eqn:Hm.
  - destruct (Hv _ _ Hm) as [cp Hcp].
    apply (attach_strip p t _ _ (attach_entry_some m t e p cp Hm Hcp)).
  - unfold attach_entry. rewrite Hm. reflexivity.
Qed.

(* the children of the group at [p] afterwards: what was there (sub-groups stay sub-groups, entries
   stay the same entries), followed by the entries the map sends to [p], in file order *)
Theorem attach_entries_children m es : forall t p c,
  paths_valid m t -> children_at p t = Some c ->
  exists c', children_at p (attach_entries m t es) = Some c' /\
             map tag c' = map tag c ++ map (fun e => Some (entry_fields e)) (entries_for m p es).
Proof.
  induction es as [|e es IH]; intros t p c Hv Hc.
  - exists c. split; [exact Hc|]. cbn. rewrite app_nil_r. reflexivity.
  - unfold attach_entries. cbn [fold_left]. fold (attach_entries m (attach_entry m t e) es).
    pose proof (attach_entry_valid m t e Hv) as Hv1.
    unfold entries_for. cbn [filter]. fold (entries_for m p es).
    destruct (map_get (ed_gid e) m) as [pe|] eqn:Hm.
    + destruct (Hv _ _ Hm) as [ce Hce].
      pose proof (attach_entry_some m t e pe ce Hm Hce) as Ha.
      destruct (path_eqb pe p) eqn:Ep.
      * apply path_eqb_eq in Ep. subst pe. rewrite Hc in Hce. injection Hce as <-.
        destruct (attach_some p t c (KEntry (entry_fields e)) Hc) as [t1 [Ha1 Hc1]].
        rewrite Ha in Ha1. injection Ha1 as <-.
        destruct (IH _ p _ Hv1 Hc1) as [c' [Hc' Ht]]. exists c'. split; [exact Hc'|].
        rewrite Ht, map_app, <- app_assoc. reflexivity.
      * assert (Hne : p <> pe).
        { intro E. subst pe. assert (T : path_eqb p p = true) by (apply path_eqb_eq; reflexivity). congruence. }
        destruct (attach_other pe t _ _ p c Ha Hne Hc) as [c1 [Hc1 Ht1]].
        destruct (IH _ p c1 Hv1 Hc1) as [c' [Hc' Ht]]. exists c'. split; [exact Hc'|].
        rewrite Ht, Ht1. reflexivity.
    + assert (E : attach_entry m t e = t) by (unfold attach_entry; rewrite Hm; reflexivity).
      rewrite E. apply IH; assumption.
Qed.

(* no stored path is empty: the top-level list receives no entry *)
Theorem attach_entries_top m es : forall t,
  paths_valid m t -> (forall k p, map_get k m = Some p -> p <> []) ->
  map tag (attach_entries m t es) = map tag t.
Proof.
  intros t Hv Hne.
  assert (E : entries_for m [] es = []).
  { unfold entries_for. induction es as [|e es IH]; [reflexivity|]. cbn [filter].
    destruct (map_get (ed_gid e) m) as [q|] eqn:Hm; [|exact IH].
    destruct q as [|i q]; [exfalso; exact (Hne _ _ Hm eq_refl)|exact IH]. }
  destruct (attach_entries_children m es t [] t Hv eq_refl) as [c' [Hc' Ht]].
  cbn [children_at] in Hc'. injection Hc' as <-. rewrite Ht.
  rewrite E. cbn. apply app_nil_r.
Qed.

(* KDB payload reader (C02): the record layer and the groups section.
   [record_enc]; one loop iteration per record ([groups_loop_S] and the step lemmas); the stack machine
   against the tree it denotes: [full b r] is the forest obtained by closing the whole branch [b] over the
   root list [r]; [collapse] does not change it ([collapse_full]) and [group_end] appends one leaf group at
   the depth it names ([group_end_inv]). *)
From Coq Require Import Lia.
From KP Require Import Bytes Outcome LE LEFacts Version Kdbx4 Kdbx4Proofs Key Kdb KdbSpec.
Local Open Scope N_scope.
Local Open Scope outcome_scope.

(* ---------- one record ---------- *)
Lemma drop6 (a b c : bytes) : length a = 2%nat -> length b = 4%nat -> drop 6 (a ++ b ++ c) = c.
Proof.
  intros Ha Hb.
  destruct a as [|a0 [|a1 [|a2 a]]]; try discriminate Ha.
  destruct b as [|b0 [|b1 [|b2 [|b3 [|b4 b]]]]]; try discriminate Hb.
  reflexivity.
Qed.

Lemma drop_nil n : drop n [] = [].
Proof. destruct n; reflexivity. Qed.

Lemma drop_add a : forall b (l : bytes), drop (a + b) l = drop b (drop a l).
Proof.
  induction a as [|a IH]; intros b l; [reflexivity|].
  destruct l as [|x l]; [cbn [Nat.add drop]; rewrite drop_nil; reflexivity|].
  cbn [Nat.add drop]. apply IH.
Qed.

Lemma rec_enc_length ty v : length (rec_enc ty v) = (6 + length v)%nat.
Proof. unfold rec_enc. rewrite !app_length, !le_enc_length. reflexivity. Qed.

Theorem record_enc ty v rest :
  ty < 2 ^ 16 -> N.of_nat (length v) < 2 ^ 32 ->
  record (rec_enc ty v ++ rest) = Some (ty, N.of_nat (length v), v, rest).
Proof.
  intros Hty Hv. unfold record, rec_enc. rewrite <- !app_assoc.
  assert (Hlen : Nat.ltb (length (le_enc 2 ty ++ le_enc 4 (N.of_nat (length v)) ++ v ++ rest)) 6 = false).
  { apply Nat.ltb_ge. rewrite !app_length, !le_enc_length. lia. }
  rewrite Hlen. clear Hlen.
  rewrite (drop_add 6 (N.to_nat _)).
  rewrite !drop6 by apply le_enc_length.
  rewrite (drop_app_len 2) by apply le_enc_length.
  rewrite (take_app_len 4) by apply le_enc_length.
  rewrite (take_app_len 2) by apply le_enc_length.
  rewrite le_dec_enc4 by exact Hv. rewrite le_dec_enc2 by exact Hty.
  rewrite fits_app. cbn [negb]. rewrite Nat2N.id, take_app_exact, drop_app_exact. reflexivity.
Qed.

(* what is left after a record is at least 6 bytes shorter *)
Lemma record_shrinks data ty size v rest :
  record data = Some (ty, size, v, rest) -> (length rest + 6 <= length data)%nat.
Proof.
  unfold record. destruct (Nat.ltb (length data) 6) eqn:E; [discriminate|]. apply Nat.ltb_ge in E.
  destruct (fits (le_dec (take 4 (drop 2 data))) (drop 6 data)); cbn [negb]; [|discriminate].
  remember (drop (6 + N.to_nat (le_dec (take 4 (drop 2 data)))) data) as d eqn:Hd.
  intro H. injection H as _ _ _ H4. subst rest d. rewrite drop_length. lia.
Qed.

(* ---------- the forest a machine state denotes ---------- *)
(* [wrap rest n]: the node [n] closed under the groups [rest] (deepest first) *)
Fixpoint wrap (rest : list kgrp) (n : knode) : knode :=
  match rest with
  | [] => n
  | p :: rest' => wrap rest' (KGroup (fst p) (snd p ++ [n]))
  end.
Definition full (b : list kgrp) (r : list knode) : list knode :=
  match b with [] => r | leaf :: rest => r ++ [wrap rest (close leaf)] end.
Definition len_snd (g : kgrp) : nat := length (snd g).
(* the index path of the top of the branch *)
Definition tpath (r : list knode) (b : list kgrp) : list nat :=
  match b with [] => [] | _ :: rest => length r :: rev (map len_snd rest) end.

Lemma tpath_length r b : length (tpath r b) = length b.
Proof. destruct b as [|g rest]; [reflexivity|]. cbn [tpath length]. rewrite rev_length, map_length. reflexivity. Qed.

Lemma collapse_nil k r : collapse k [] r = ([], r).
Proof. destruct k; reflexivity. Qed.

Lemma collapse_length k : forall b r, length (fst (collapse k b r)) = (length b - k)%nat.
Proof.
  induction k as [|k IH]; intros b r; [cbn [collapse fst]; lia|].
  destruct b as [|leaf [|parent rest]]; cbn [collapse].
  - reflexivity.
  - rewrite collapse_nil. cbn [fst length]. lia.
  - rewrite IH. cbn [length]. lia.
Qed.

Lemma collapse_full k : forall b r, full (fst (collapse k b r)) (snd (collapse k b r)) = full b r.
Proof.
  induction k as [|k IH]; intros b r; [reflexivity|].
  destruct b as [|leaf [|parent rest]]; cbn [collapse].
  - reflexivity.
  - rewrite collapse_nil. reflexivity.
  - rewrite IH. reflexivity.
Qed.

Lemma collapse_all b r : collapse (length b) b r = ([], full b r).
Proof.
  pose proof (collapse_length (length b) b r) as Hl. pose proof (collapse_full (length b) b r) as Hf.
  destruct (collapse (length b) b r) as [b' r']. cbn [fst snd] in Hl, Hf.
  rewrite Nat.sub_diag in Hl. destruct b'; [|discriminate Hl]. cbn [full] in Hf. rewrite Hf. reflexivity.
Qed.

Lemma collapse_tpath k : forall b r, (k <= length b)%nat ->
  tpath (snd (collapse k b r)) (fst (collapse k b r)) = firstn (length b - k) (tpath r b).
Proof.
  induction k as [|k IH]; intros b r Hk.
  - cbn [collapse fst snd]. rewrite Nat.sub_0_r, <- (tpath_length r b), firstn_all. reflexivity.
  - destruct b as [|leaf [|parent rest]]; cbn [collapse]; cbn [length] in Hk.
    + lia.
    + rewrite collapse_nil. cbn [fst snd tpath length]. replace (1 - S k)%nat with 0%nat by lia. reflexivity.
    + rewrite IH by (cbn [length]; lia). cbn [length tpath map rev].
      change (length r :: rev (map len_snd rest) ++ [len_snd parent])
        with ((length r :: rev (map len_snd rest)) ++ [len_snd parent]).
      rewrite firstn_app. cbn [length]. rewrite rev_length, map_length.
      replace (S (S (length rest)) - S k - S (length rest))%nat with 0%nat by lia.
      cbn [firstn]. rewrite app_nil_r. reflexivity.
Qed.

(* pushing a leaf group on the branch = appending it at that depth of the denoted forest *)
Lemma preorder_node_group d name c : preorder_node d (KGroup name c) = (d, name) :: preorder (S d) c.
Proof. reflexivity. Qed.
Lemma preorder_one d n : preorder d [n] = preorder_node d n.
Proof. unfold preorder. cbn [flat_map]. apply app_nil_r. Qed.

Lemma wrap_preorder name rest : forall n n' k,
  (forall d, preorder_node d n' = preorder_node d n ++ [((d + k)%nat, name)]) ->
  forall d, preorder_node d (wrap rest n') = preorder_node d (wrap rest n) ++ [((d + k + length rest)%nat, name)].
Proof.
  induction rest as [|p rest IH]; intros n n' k H d.
  - cbn [wrap length]. rewrite Nat.add_0_r. apply H.
  - cbn [wrap length]. replace (d + k + S (length rest))%nat with (d + S k + length rest)%nat by lia.
    apply IH. intro d'. rewrite !preorder_node_group, !preorder_app, !preorder_one, H.
    cbn [app]. rewrite <- app_assoc. replace (S d' + k)%nat with (d' + S k)%nat by lia. reflexivity.
Qed.

Lemma full_push_preorder name b r :
  preorder 0 (full ((name, []) :: b) r) = preorder 0 (full b r) ++ [(length b, name)].
Proof.
  destruct b as [|leaf rest].
  - cbn [full wrap close fst snd length]. rewrite preorder_app. reflexivity.
  - cbn [full wrap close fst snd length]. rewrite !preorder_app, !preorder_one, <- app_assoc. f_equal.
    apply (wrap_preorder name rest (KGroup (fst leaf) (snd leaf)) _ 1%nat).
    intro d. rewrite !preorder_node_group, preorder_app, preorder_one. cbn [preorder_node flat_map app].
    replace (d + 1)%nat with (S d) by lia. reflexivity.
Qed.

Lemma node_paths_group name c : node_paths (KGroup name c) = [] :: forest_paths_from 0 c.
Proof. reflexivity. Qed.
Lemma fpf_one i n : forest_paths_from i [n] = map (cons i) (node_paths n).
Proof. unfold forest_paths_from. cbn [imap]. apply app_nil_r. Qed.

Lemma wrap_paths rest : forall n n' q,
  node_paths n' = node_paths n ++ [q] ->
  node_paths (wrap rest n') = node_paths (wrap rest n) ++ [rev (map len_snd rest) ++ q].
Proof.
  induction rest as [|p rest IH]; intros n n' q H.
  - exact H.
  - cbn [wrap map rev]. rewrite <- app_assoc. cbn [app]. apply IH.
    rewrite !node_paths_group, !fpf_app, !fpf_one, H, map_app. cbn [map Nat.add].
    rewrite app_comm_cons, app_assoc. reflexivity.
Qed.

Lemma full_push_paths name b r :
  forest_paths (full ((name, []) :: b) r) = forest_paths (full b r) ++ [tpath r ((name, []) :: b)].
Proof.
  unfold forest_paths. destruct b as [|leaf rest].
  - cbn [full wrap close fst snd tpath map rev]. rewrite fpf_app, fpf_one. reflexivity.
  - cbn [full wrap close fst snd tpath map rev]. rewrite !fpf_app, !fpf_one, <- app_assoc. f_equal.
    rewrite (wrap_paths rest (KGroup (fst leaf) (snd leaf)) _ [len_snd leaf]).
    + rewrite map_app. reflexivity.
    + rewrite !node_paths_group, fpf_app, fpf_one. cbn [node_paths imap map Nat.add].
      rewrite app_comm_cons. reflexivity.
Qed.

Lemma groups_only_node_group name c : groups_only_node (KGroup name c) = groups_only c.
Proof. reflexivity. Qed.

Lemma wrap_groups_only rest : forall n n',
  (groups_only_node n = true -> groups_only_node n' = true) ->
  groups_only_node (wrap rest n) = true -> groups_only_node (wrap rest n') = true.
Proof.
  induction rest as [|p rest IH]; intros n n' H; [exact H|].
  cbn [wrap]. apply IH. rewrite !groups_only_node_group, !groups_only_app. unfold groups_only. cbn [forallb].
  intro G. apply andb_true_iff in G. destruct G as [G1 G2]. rewrite andb_true_r in G2.
  rewrite G1, (H G2). reflexivity.
Qed.

Lemma full_push_groups_only name b r :
  groups_only (full b r) = true -> groups_only (full ((name, []) :: b) r) = true.
Proof.
  destruct b as [|leaf rest]; cbn [full wrap close fst snd]; rewrite !groups_only_app; intro G.
  - cbn [full] in G. rewrite G. reflexivity.
  - apply andb_true_iff in G. destruct G as [G1 G2]. rewrite G1. cbn [andb].
    unfold groups_only in G2 |- *. cbn [forallb] in G2 |- *. rewrite andb_true_r in G2 |- *.
    revert G2. apply wrap_groups_only. intro G3. change (groups_only (snd leaf) = true) in G3.
    rewrite groups_only_node_group, groups_only_app, G3. reflexivity.
Qed.

(* ---------- the 0xffff record of a group ---------- *)
Lemma group_end_unfold s lv :
  gs_level s = Some lv -> length (gs_path s) = length (gs_branch s) ->
  group_end s =
    let level := N.to_nat lv in
    let cb := collapse (length (gs_branch s) - level) (gs_branch s) (gs_root s) in
    if negb (Nat.eqb level (length (fst cb))) then Err KEInvalidLevel
    else match gs_gid s with
         | None => Err KEMissingGroupId
         | Some gid =>
           let path' := firstn level (gs_path s) ++
                        [match fst cb with [] => length (snd cb) | parent :: _ => length (snd parent) end] in
           Ok (mkGS (snd cb) ((gs_name s, []) :: fst cb) [] (gs_level s) None path'
                    (map_insert gid path' (gs_map s)) (gs_count s + 1))
         end.
Proof.
  intros Hl Hp. unfold group_end. rewrite Hl. cbv zeta.
  destruct (Nat.ltb (N.to_nat lv) (length (gs_branch s))) eqn:E.
  - destruct (collapse (length (gs_branch s) - N.to_nat lv) (gs_branch s) (gs_root s)) as [b r].
    cbn [fst snd]. reflexivity.
  - apply Nat.ltb_ge in E.
    replace (length (gs_branch s) - N.to_nat lv)%nat with 0%nat by lia. cbn [collapse fst snd].
    rewrite (firstn_all2 (n := N.to_nat lv) (gs_path s)) by lia. reflexivity.
Qed.

Lemma tpath_push r name b :
  tpath r ((name, []) :: b) =
  tpath r b ++ [match b with [] => length r | parent :: _ => length (snd parent) end].
Proof. destruct b as [|parent rest]; reflexivity. Qed.

(* [s'] is [s] with one more leaf group, at depth [lv], named [gs_name s], recorded under [gid] *)
Definition pushed (s s' : gstate) (lv gid : N) : Prop :=
  let t := full (gs_branch s) (gs_root s) in
  let t' := full (gs_branch s') (gs_root s') in
  preorder 0 t' = preorder 0 t ++ [(N.to_nat lv, gs_name s)] /\
  forest_paths t' = forest_paths t ++ [gs_path s'] /\
  (groups_only t = true -> groups_only t' = true) /\
  gs_path s' = tpath (gs_root s') (gs_branch s') /\
  gs_map s' = map_insert gid (gs_path s') (gs_map s) /\
  length (gs_branch s') = S (N.to_nat lv) /\
  gs_name s' = [] /\ gs_level s' = Some lv /\ gs_gid s' = None /\ gs_count s' = gs_count s + 1.

Lemma group_end_inv s s' :
  gs_path s = tpath (gs_root s) (gs_branch s) -> group_end s = Ok s' ->
  exists lv gid, gs_level s = Some lv /\ gs_gid s = Some gid /\
                 (N.to_nat lv <= length (gs_branch s))%nat /\ pushed s s' lv gid.
Proof.
  intros Hp He.
  destruct (gs_level s) as [lv|] eqn:Hl; [|unfold group_end in He; rewrite Hl in He; discriminate He].
  rewrite (group_end_unfold s lv Hl) in He by (rewrite Hp; apply tpath_length). cbv zeta in He.
  pose proof (collapse_length (length (gs_branch s) - N.to_nat lv) (gs_branch s) (gs_root s)) as Hcl.
  pose proof (collapse_full (length (gs_branch s) - N.to_nat lv) (gs_branch s) (gs_root s)) as Hcf.
  pose proof (collapse_tpath (length (gs_branch s) - N.to_nat lv) (gs_branch s) (gs_root s)) as Hct.
  destruct (collapse (length (gs_branch s) - N.to_nat lv) (gs_branch s) (gs_root s)) as [b r].
  cbn [fst snd] in He, Hcl, Hcf, Hct.
  destruct (Nat.eqb (N.to_nat lv) (length b)) eqn:El; cbn [negb] in He; [|discriminate He].
  apply Nat.eqb_eq in El.
  destruct (gs_gid s) as [gid|] eqn:Hg; [|discriminate He].
  assert (Hle : (N.to_nat lv <= length (gs_branch s))%nat) by lia.
  exists lv, gid. split; [reflexivity|]. split; [reflexivity|]. split; [exact Hle|].
  assert (Hpath : firstn (N.to_nat lv) (gs_path s) ++
                  [match b with [] => length r | parent :: _ => length (snd parent) end]
                  = tpath r ((gs_name s, []) :: b)).
  { rewrite tpath_push. f_equal. rewrite Hct by lia. rewrite Hp. f_equal. lia. }
  rewrite Hpath in He. injection He as <-. unfold pushed. cbn [gs_root gs_branch gs_path gs_map gs_name gs_level gs_gid gs_count].
  rewrite full_push_preorder, full_push_paths, Hcf, El.
  repeat split; try reflexivity.
  - rewrite <- Hcf. apply full_push_groups_only.
  - exact Hl.
Qed.

Lemma group_end_ok s lv gid :
  gs_path s = tpath (gs_root s) (gs_branch s) -> gs_level s = Some lv -> gs_gid s = Some gid ->
  (N.to_nat lv <= length (gs_branch s))%nat -> exists s', group_end s = Ok s'.
Proof.
  intros Hp Hl Hg Hle.
  rewrite (group_end_unfold s lv Hl) by (rewrite Hp; apply tpath_length). cbv zeta.
  rewrite collapse_length, Hg.
  replace (Nat.eqb (N.to_nat lv) (length (gs_branch s) - (length (gs_branch s) - N.to_nat lv))) with true
    by (symmetry; apply Nat.eqb_eq; lia).
  cbn [negb]. eexists. reflexivity.
Qed.

(* a level deeper than one below the previous group *)
Lemma group_end_bad s lv :
  gs_path s = tpath (gs_root s) (gs_branch s) -> gs_level s = Some lv ->
  (length (gs_branch s) < N.to_nat lv)%nat -> group_end s = Err KEInvalidLevel.
Proof.
  intros Hp Hl Hlt.
  rewrite (group_end_unfold s lv Hl) by (rewrite Hp; apply tpath_length). cbv zeta.
  rewrite collapse_length.
  replace (Nat.eqb (N.to_nat lv) (length (gs_branch s) - (length (gs_branch s) - N.to_nat lv))) with false
    by (symmetry; apply Nat.eqb_neq; lia).
  reflexivity.
Qed.

(* ---------- one loop iteration per record of a group ---------- *)
Lemma pow2_16_lt k : k < 65536 -> k < 2 ^ 16. Proof. rewrite pow2_16. exact (fun H => H). Qed.

Lemma gstep_gid f total s gid rest :
  N.ltb (gs_count s) total = true -> gid < 2 ^ 32 ->
  groups_loop (S f) total s (rec_enc 1 (le_enc 4 gid) ++ rest) =
  groups_loop f total (mkGS (gs_root s) (gs_branch s) (gs_name s) (gs_level s) (Some gid) (gs_path s) (gs_map s) (gs_count s)) rest.
Proof.
  intros Hc Hg. cbn [groups_loop]. rewrite Hc. cbn [negb].
  rewrite record_enc by (rewrite ?le_enc_length, ?pow2_16, ?pow2_32; cbn; lia).
  rewrite le_enc_length, le_dec_enc4 by exact Hg. reflexivity.
Qed.

Lemma gstep_name f total s v rest :
  N.ltb (gs_count s) total = true -> N.of_nat (length v) < 2 ^ 32 ->
  groups_loop (S f) total s (rec_enc 2 v ++ rest) =
  groups_loop f total (mkGS (gs_root s) (gs_branch s) (trim_nul v) (gs_level s) (gs_gid s) (gs_path s) (gs_map s) (gs_count s)) rest.
Proof.
  intros Hc Hv. cbn [groups_loop]. rewrite Hc. cbn [negb].
  rewrite record_enc by (rewrite ?pow2_16; try exact Hv; lia). reflexivity.
Qed.

Lemma gstep_level f total s lv rest :
  N.ltb (gs_count s) total = true -> lv < 2 ^ 16 ->
  groups_loop (S f) total s (rec_enc 8 (le_enc 2 lv) ++ rest) =
  groups_loop f total (mkGS (gs_root s) (gs_branch s) (gs_name s) (Some lv) (gs_gid s) (gs_path s) (gs_map s) (gs_count s)) rest.
Proof.
  intros Hc Hl. cbn [groups_loop]. rewrite Hc. cbn [negb].
  rewrite record_enc by (rewrite ?le_enc_length, ?pow2_16, ?pow2_32; cbn; lia).
  rewrite le_enc_length, le_dec_enc2 by exact Hl. reflexivity.
Qed.

Lemma gstep_end f total s rest :
  N.ltb (gs_count s) total = true ->
  groups_loop (S f) total s (rec_enc 65535 [] ++ rest) =
  (do s' <- group_end s; groups_loop f total s' rest).
Proof.
  intros Hc. cbn [groups_loop]. rewrite Hc. cbn [negb].
  rewrite record_enc by (rewrite ?pow2_16, ?pow2_32; cbn; lia). reflexivity.
Qed.

Lemma gdesc_ok_props g :
  gdesc_ok g = true ->
  N.of_nat (gd_level g) < 2 ^ 16 /\ gd_gid g < 2 ^ 32 /\ N.of_nat (length (gd_name g ++ [0])) < 2 ^ 32 /\
  trim_nul (gd_name g ++ [0]) = gd_name g.
Proof.
  unfold gdesc_ok. intro H. repeat (apply andb_true_iff in H; destruct H as [H ?]).
  apply N.ltb_lt in H. split; [exact H|]. split; [apply N.ltb_lt; assumption|].
  split.
  - rewrite app_length, Nat.add_1_r. apply N.ltb_lt. assumption.
  - rewrite trim_nul_snoc0. apply trim_nul_id. apply negb_true_iff. assumption.
Qed.

Definition gprep (s : gstate) (g : gdesc) : gstate :=
  mkGS (gs_root s) (gs_branch s) (gd_name g) (Some (N.of_nat (gd_level g))) (Some (gd_gid g))
       (gs_path s) (gs_map s) (gs_count s).

Lemma group_step f total s g rest :
  N.ltb (gs_count s) total = true -> gdesc_ok g = true ->
  groups_loop (S (S (S (S f)))) total s (group_enc g ++ rest) =
  (do s' <- group_end (gprep s g); groups_loop f total s' rest).
Proof.
  intros Hc Hok. destruct (gdesc_ok_props g Hok) as [Hlv [Hgid [Hnm Htrim]]].
  unfold group_enc. rewrite <- !app_assoc.
  rewrite gstep_gid by assumption.
  rewrite gstep_name by assumption. cbn [gs_root gs_branch gs_name gs_level gs_gid gs_path gs_map gs_count].
  rewrite gstep_level by assumption. cbn [gs_root gs_branch gs_name gs_level gs_gid gs_path gs_map gs_count].
  rewrite gstep_end by assumption. rewrite Htrim. reflexivity.
Qed.

(* ---------- the groups section a conforming writer lays out ---------- *)
Definition GSpec (gs1 : list gdesc) (s : gstate) : Prop :=
  let t := full (gs_branch s) (gs_root s) in
  gs_path s = tpath (gs_root s) (gs_branch s) /\
  preorder 0 t = map lvname gs1 /\
  groups_only t = true /\
  gs_map s = gm_spec (map gd_gid gs1) (forest_paths t) /\
  gs_gid s = None /\
  gs_count s = N.of_nat (length gs1).

Definition depth_after (d : nat) (gs : list gdesc) : nat := fold_left (fun _ g => S (gd_level g)) gs d.

Lemma levels_ok_app gs1 : forall d gs2,
  levels_ok d (gs1 ++ gs2) = levels_ok d gs1 && levels_ok (depth_after d gs1) gs2.
Proof.
  induction gs1 as [|g gs1 IH]; intros d gs2; [reflexivity|].
  cbn [app levels_ok]. rewrite IH, andb_assoc. reflexivity.
Qed.

Lemma GSpec_step gs1 s g s1 :
  GSpec gs1 s -> (gd_level g <= length (gs_branch s))%nat ->
  group_end (gprep s g) = Ok s1 ->
  GSpec (gs1 ++ [g]) s1 /\ length (gs_branch s1) = S (gd_level g).
Proof.
  intros [Hp [Hpre [Hgo [Hm [Hg Hc]]]]] Hle He.
  destruct (group_end_inv (gprep s g) s1 Hp He) as [lv [gid [Hlv [Hgid [_ Hpush]]]]].
  cbn [gprep gs_level gs_gid] in Hlv, Hgid. injection Hlv as <-. injection Hgid as <-.
  unfold pushed in Hpush. cbn [gprep gs_root gs_branch gs_name gs_map gs_count] in Hpush.
  rewrite Nat2N.id in Hpush.
  destruct Hpush as [Q1 [Q2 [Q3 [Q4 [Q5 [Q6 [Q7 [Q8 [Q9 Q10]]]]]]]]].
  split; [|exact Q6].
  unfold GSpec. cbv zeta. repeat split.
  - exact Q4.
  - rewrite Q1, Hpre, map_app. reflexivity.
  - exact (Q3 Hgo).
  - rewrite Q5, Q2, Hm, map_app. cbn [map]. symmetry. apply gm_spec_snoc.
    rewrite forest_paths_length, Hpre, !map_length. reflexivity.
  - exact Q9.
  - rewrite Q10, Hc, app_length. cbn [length]. lia.
Qed.

Lemma groups_run gs2 : forall gs1 s f total rest,
  GSpec gs1 s -> levels_ok (length (gs_branch s)) gs2 = true -> forallb gdesc_ok gs2 = true ->
  N.of_nat (length gs1 + length gs2) <= total ->
  exists s', groups_loop (4 * length gs2 + f) total s (concat (map group_enc gs2) ++ rest)
             = groups_loop f total s' rest /\
             GSpec (gs1 ++ gs2) s' /\
             length (gs_branch s') = depth_after (length (gs_branch s)) gs2.
Proof.
  induction gs2 as [|g gs2 IH]; intros gs1 s f total rest HS Hlv Hok Htot.
  - exists s. rewrite app_nil_r. split; [reflexivity|]. split; [exact HS|reflexivity].
  - cbn [levels_ok] in Hlv. apply andb_true_iff in Hlv. destruct Hlv as [Hle Hlv]. apply Nat.leb_le in Hle.
    cbn [forallb] in Hok. apply andb_true_iff in Hok. destruct Hok as [Hg Hok].
    cbn [length] in Htot |- *.
    replace (4 * S (length gs2) + f)%nat with (S (S (S (S (4 * length gs2 + f))))) by lia.
    cbn [map concat]. rewrite <- app_assoc.
    assert (Hcount : N.ltb (gs_count s) total = true).
    { apply N.ltb_lt. destruct HS as [_ [_ [_ [_ [_ Hc]]]]]. rewrite Hc. lia. }
    rewrite group_step by assumption.
    destruct HS as [Hp HS'].
    destruct (group_end_ok (gprep s g) (N.of_nat (gd_level g)) (gd_gid g) Hp eq_refl eq_refl) as [s1 He].
    { cbn [gprep gs_branch]. rewrite Nat2N.id. exact Hle. }
    rewrite He. cbn [bind].
    destruct (GSpec_step gs1 s g s1 (conj Hp HS') Hle He) as [HS1 Hb1].
    destruct (IH (gs1 ++ [g]) s1 f total rest HS1) as [s' [Hrun [HS2 Hb2]]].
    + rewrite Hb1. exact Hlv.
    + exact Hok.
    + rewrite app_length. cbn [length]. lia.
    + exists s'. split; [exact Hrun|]. rewrite <- app_assoc in HS2. split; [exact HS2|].
      rewrite Hb2, Hb1. reflexivity.
Qed.

Lemma GSpec_init : GSpec [] gs_init.
Proof. unfold GSpec. cbn. repeat split. Qed.

Lemma group_enc_length g : (4 <= length (group_enc g))%nat.
Proof. unfold group_enc. rewrite !app_length, !rec_enc_length. lia. Qed.

Lemma groups_enc_length gs : (4 * length gs <= length (concat (map group_enc gs)))%nat.
Proof.
  induction gs as [|g gs IH]; [cbn; lia|]. cbn [map concat length]. rewrite app_length.
  pose proof (group_enc_length g). lia.
Qed.

(* (2a), (2c): success, exactly [rest] left, the forest, the map *)
Theorem parse_groups_ok gs rest :
  valid_levels gs = true -> forallb gdesc_ok gs = true ->
  exists root m,
    parse_groups (N.of_nat (length gs)) (concat (map group_enc gs) ++ rest) = Ok (root, m, rest) /\
    preorder 0 root = map lvname gs /\
    groups_only root = true /\
    m = gm_spec (map gd_gid gs) (forest_paths root).
Proof.
  intros Hlv Hok. unfold parse_groups.
  pose proof (groups_enc_length gs) as Hlen.
  remember (length (concat (map group_enc gs) ++ rest)) as n eqn:Hn.
  assert (Hfuel : S n = (4 * length gs + S (n - 4 * length gs))%nat).
  { rewrite Hn, app_length. lia. }
  rewrite Hfuel.
  destruct (groups_run gs [] gs_init (S (n - 4 * length gs)) (N.of_nat (length gs)) rest GSpec_init)
    as [s' [Hrun [[Hp [Hpre [Hgo [Hm [Hg Hc]]]]] _]]].
  - exact Hlv.
  - exact Hok.
  - cbn [length Nat.add]. lia.
  - rewrite Hrun. cbn [groups_loop]. cbn [app length] in Hc. rewrite Hc, N.ltb_irrefl. cbn [negb bind].
    rewrite Hg, collapse_all.
    exists (full (gs_branch s') (gs_root s')), (gs_map s').
    split; [reflexivity|]. split; [exact Hpre|]. split; [exact Hgo|exact Hm].
Qed.

(* the error side: the first group whose level is out of line *)
Theorem parse_groups_bad_level gs1 g gs2 total rest :
  valid_levels gs1 = true -> valid_levels (gs1 ++ [g]) = false ->
  forallb gdesc_ok (gs1 ++ [g]) = true -> N.of_nat (length gs1) < total ->
  parse_groups total (concat (map group_enc (gs1 ++ g :: gs2)) ++ rest) = Err KEInvalidLevel.
Proof.
  intros Hlv Hbad Hok Htot. unfold parse_groups.
  rewrite forallb_app in Hok. apply andb_true_iff in Hok. destruct Hok as [Hok1 Hokg].
  cbn [forallb] in Hokg. rewrite andb_true_r in Hokg.
  unfold valid_levels in Hbad. rewrite levels_ok_app in Hbad. unfold valid_levels in Hlv. rewrite Hlv in Hbad.
  cbn [andb levels_ok] in Hbad. rewrite andb_true_r in Hbad. apply Nat.leb_gt in Hbad.
  rewrite map_app, concat_app. cbn [map concat]. rewrite <- !app_assoc.
  pose proof (groups_enc_length gs1) as Hlen1. pose proof (group_enc_length g) as Hleng.
  remember (length (concat (map group_enc gs1) ++ group_enc g ++ concat (map group_enc gs2) ++ rest)) as n eqn:Hn.
  assert (Hfuel : S n = (4 * length gs1 + S (S (S (S (n - 4 * length gs1 - 3)))))%nat).
  { rewrite Hn, !app_length. lia. }
  rewrite Hfuel.
  destruct (groups_run gs1 [] gs_init (S (S (S (S (n - 4 * length gs1 - 3))))) total
              (group_enc g ++ concat (map group_enc gs2) ++ rest) GSpec_init)
    as [s' [Hrun [[Hp [Hpre [Hgo [Hm [Hg Hc]]]]] Hb]]].
  - exact Hlv.
  - exact Hok1.
  - cbn [length Nat.add]. lia.
  - rewrite Hrun. cbn [app length] in Hc.
    rewrite group_step; [|apply N.ltb_lt; rewrite Hc; exact Htot|exact Hokg].
    rewrite (group_end_bad (gprep s' g) (N.of_nat (gd_level g)) Hp eq_refl); [reflexivity|].
    cbn [gprep gs_branch]. rewrite Nat2N.id, Hb. exact Hbad.
Qed.

(* ---------- arbitrary input: the loop ends, and every stored path is a path of the final forest ---------- *)
Definition GI (r : list knode) (b : list kgrp) (path : list nat) (m : list (N * list nat)) : Prop :=
  path = tpath r b /\ forall k p, In (k, p) m -> In p (forest_paths (full b r)).
Definition GInv (s : gstate) : Prop := GI (gs_root s) (gs_branch s) (gs_path s) (gs_map s).

Lemma group_end_GInv s s' : GInv s -> group_end s = Ok s' -> GInv s'.
Proof.
  intros [Hp Hm] He.
  destruct (group_end_inv s s' Hp He) as [lv [gid [_ [_ [_ Hpush]]]]].
  destruct Hpush as [_ [Q2 [_ [Q4 [Q5 _]]]]].
  split; [exact Q4|]. intros k p Hin. rewrite Q2. rewrite Q5 in Hin.
  apply in_or_app. destruct (map_insert_in _ _ _ _ Hin) as [E|Hin'].
  - right. left. injection E as _ ->. reflexivity.
  - left. exact (Hm k p Hin').
Qed.

Lemma group_end_no_panic s : match group_end s with Panic _ | OutOfFuel => False | _ => True end.
Proof.
  unfold group_end. destruct (gs_level s) as [lv|]; [|exact I].
  destruct (Nat.ltb (N.to_nat lv) (length (gs_branch s))).
  - destruct (collapse (length (gs_branch s) - N.to_nat lv) (gs_branch s) (gs_root s)) as [b r].
    destruct (negb (Nat.eqb (N.to_nat lv) (length b))); [exact I|]. destruct (gs_gid s); exact I.
  - destruct (negb (Nat.eqb (N.to_nat lv) (length (gs_branch s)))); [exact I|]. destruct (gs_gid s); exact I.
Qed.

Definition gl_post (n : nat) (x : kres (gstate * bytes)) : Prop :=
  match x with
  | Ok (s', rest') => GInv s' /\ (length rest' <= n)%nat
  | Err _ => True
  | Panic _ | OutOfFuel => False
  end.

Lemma gl_post_mono n n' x : gl_post n x -> (n <= n')%nat -> gl_post n' x.
Proof. destruct x as [[s' r']|e|site|]; cbn [gl_post]; intros H Hn; try exact H. destruct H; split; [assumption|lia]. Qed.

Lemma gl_post_ensure n a b x : gl_post n x -> gl_post n (do _ <- ensure_length a b; x).
Proof. intro H. unfold ensure_length. destruct (N.eqb a b); cbn [bind]; [exact H|exact I]. Qed.

Lemma groups_loop_total fuel : forall total s data,
  (length data < fuel)%nat -> GInv s -> gl_post (length data) (groups_loop fuel total s data).
Proof.
  induction fuel as [|f IH]; intros total s data Hf Hinv; [lia|].
  cbn [groups_loop].
  destruct (negb (N.ltb (gs_count s) total)); [cbn [gl_post]; split; [exact Hinv|lia]|].
  destruct (record data) as [[[[ty size] v] rest]|] eqn:R; [|exact I].
  pose proof (record_shrinks _ _ _ _ _ R) as Hsh.
  assert (Hrec : forall s0, GInv s0 -> gl_post (length data) (groups_loop f total s0 rest)).
  { intros s0 H0. apply (gl_post_mono (length rest)); [apply IH; [lia|exact H0]|lia]. }
  destruct (N.eqb ty 0); [apply Hrec; exact Hinv|].
  destruct (N.eqb ty 1); [apply gl_post_ensure; apply Hrec; exact Hinv|].
  destruct (N.eqb ty 2); [apply Hrec; exact Hinv|].
  destruct (N.leb 3 ty && N.leb ty 6); [apply gl_post_ensure; apply Hrec; exact Hinv|].
  destruct (N.eqb ty 7); [apply gl_post_ensure; apply Hrec; exact Hinv|].
  destruct (N.eqb ty 8); [apply gl_post_ensure; apply Hrec; exact Hinv|].
  destruct (N.eqb ty 9); [apply gl_post_ensure; apply Hrec; exact Hinv|].
  destruct (N.eqb ty 65535); [|exact I].
  apply gl_post_ensure.
  pose proof (group_end_no_panic s) as Hnp. pose proof (group_end_GInv s) as Hge.
  destruct (group_end s) as [s1|e|site|]; cbn [bind].
  - apply Hrec. apply Hge; [exact Hinv|reflexivity].
  - exact I.
  - exact Hnp.
  - exact Hnp.
Qed.

Lemma GInv_init : GInv gs_init.
Proof. split; [reflexivity|]. intros k p []. Qed.

Theorem parse_groups_total total data :
  match parse_groups total data with
  | Ok (root, m, rest) =>
      (forall k p, In (k, p) m -> In p (forest_paths root)) /\ (length rest <= length data)%nat
  | Err _ => True
  | Panic _ | OutOfFuel => False
  end.
Proof.
  unfold parse_groups.
  pose proof (groups_loop_total (S (length data)) total gs_init data (Nat.lt_succ_diag_r _) GInv_init) as H.
  destruct (groups_loop (S (length data)) total gs_init data) as [[s rest]|e|site|]; cbn [gl_post bind] in H |- *;
    try exact H.
  destruct (gs_gid s); [exact I|]. rewrite collapse_all. destruct H as [[_ Hm] Hl]. split; [exact Hm|exact Hl].
Qed.

(* KeePass 1 (KDB) end to end: a conforming FILE writer and the whole reader [Kdb.kdb_open] on what it
   writes, on arbitrary bytes, and under other credentials.

   Mirrors   src/format/kdb.rs   parse_header (the 124-byte fixed header), parse_kdb (key, cipher flags,
                                 decryption, the reader's own padding step, contents hash, parse_db)
             src/db/mod.rs       Database::parse (the dispatch on DatabaseVersion::parse).

   THE PADDING STEP.  parse_kdb takes the last byte of what the cipher object returned as a padding length
   and removes that many bytes - for BOTH ciphers - although the two cipher objects of the library differ:
     - AES-256-CBC  decrypts with  decrypt_padded_vec_mut::<Pkcs7>,  i.e. it has ALREADY removed the padding;
     - Twofish-CBC  decrypts with  NoPadding,                        i.e. the padding is still there.
   So on the Twofish path the last byte is the PKCS#7 count and the step removes the padding; on the AES path
   the last byte is the last byte of the PAYLOAD.  A conforming payload that is not empty ends with the
   terminator record  ff ff 00 00 00 00  of its last group or entry ([payload_enc_ends_terminator]), so that
   byte is 0 and nothing is removed ([payload_enc_last_zero], [kdb_unpad_plain]).  The EMPTY payload (no group,
   no entry) has no last byte: under AES the reader answers IncorrectKey ([kdb_open_empty_payload_aes]); under
   Twofish it opens ([ToyKdb.empty_payload_twofish]).

   Trusted, as variables: SHA-256, the AES-KDF, the two outer ciphers (as the library's cipher objects).
   Not modelled: I/O, the conversion of the KDB node tree into db::Group / db::Entry values. *)
From Coq Require Import Lia.
From KP Require Import Bytes Outcome LE LEFacts Version Kdbx4 Kdbx4Proofs Kdbx4Total Key KeyProofs.
From KP Require Import Kdb KdbSpec KdbGroups KdbEntries KdbProofs.
Local Open Scope N_scope.
Local Open Scope outcome_scope.

(* ------------------------------------------------------------------------------------------ *)
(* list plumbing *)
Lemma concat_map_snoc {A} (f : A -> bytes) (l : list A) (x : A) :
  concat (map f (l ++ [x])) = concat (map f l) ++ f x.
Proof. rewrite map_app, concat_app. cbn [map concat]. rewrite app_nil_r. reflexivity. Qed.

Lemma drop_step (n k : nat) (x rest l : bytes) :
  drop n l = x ++ rest -> length x = k -> drop (n + k) l = rest.
Proof. intros H L. rewrite drop_add, H. apply drop_app_len. exact L. Qed.

Lemma take_at (n k : nat) (x rest l : bytes) :
  drop n l = x ++ rest -> length x = k -> take k (drop n l) = x.
Proof. intros H L. rewrite H. apply take_app_len. exact L. Qed.

Lemma le_dec_enc4_mod v : le_dec (le_enc 4 v) = v mod 2 ^ 32.
Proof. rewrite le_dec_enc, pow256_4, pow2_32. reflexivity. Qed.

Lemma mod32_mod16 a : (a mod 2 ^ 32) mod 65536 = a mod 65536.
Proof.
  change (2 ^ 32) with (65536 * 65536). rewrite N.mod_mul_r by lia.
  rewrite (N.mul_comm 65536 ((a / 65536) mod 65536)). rewrite N.mod_add by lia. apply N.mod_mod. lia.
Qed.

(* ------------------------------------------------------------------------------------------ *)
(* every conforming payload that is not empty ends with a terminator record *)
Definition kdb_terminator : bytes := [255; 255; 0; 0; 0; 0].

Lemma rec_enc_end : rec_enc 65535 [] = kdb_terminator.
Proof. reflexivity. Qed.

Lemma group_enc_ends g : exists pre, group_enc g = pre ++ kdb_terminator.
Proof.
  exists (rec_enc 1 (le_enc 4 (gd_gid g)) ++ rec_enc 2 (gd_name g ++ [0])
          ++ rec_enc 8 (le_enc 2 (N.of_nat (gd_level g)))).
  unfold group_enc. rewrite rec_enc_end, <- !app_assoc. reflexivity.
Qed.

Lemma entry_enc_ends e : exists pre, entry_enc e = pre ++ kdb_terminator.
Proof.
  exists (rec_enc 2 (le_enc 4 (ed_gid e)) ++ concat (map (fun f => rec_enc (fst f) (snd f)) (ed_fields e))).
  unfold entry_enc. rewrite rec_enc_end, <- !app_assoc. reflexivity.
Qed.

Theorem payload_enc_ends_terminator gs es :
  gs <> [] \/ es <> [] -> exists pre, payload_enc gs es = pre ++ kdb_terminator.
Proof.
  intro H. unfold payload_enc.
  destruct es as [|e0 es0].
  - destruct H as [Hg|He]; [|contradiction He; reflexivity].
    destruct (exists_last Hg) as [gs' [g Eg]]. rewrite Eg, concat_map_snoc.
    destruct (group_enc_ends g) as [pre Ep]. rewrite Ep.
    exists (concat (map group_enc gs') ++ pre). cbn [map concat]. rewrite app_nil_r, <- app_assoc. reflexivity.
  - assert (Hne : e0 :: es0 <> []) by discriminate.
    destruct (exists_last Hne) as [es' [e Ee]]. rewrite Ee, concat_map_snoc.
    destruct (entry_enc_ends e) as [pre Ep]. rewrite Ep.
    exists (concat (map group_enc gs) ++ concat (map entry_enc es') ++ pre).
    rewrite <- !app_assoc. reflexivity.
Qed.

(* the form the reader's padding step meets: the last byte is the 0 of the last record's size field *)
Theorem payload_enc_last_zero gs es :
  gs <> [] \/ es <> [] -> exists pre, payload_enc gs es = pre ++ [0].
Proof.
  intro H. destruct (payload_enc_ends_terminator gs es H) as [pre E].
  exists (pre ++ [255; 255; 0; 0; 0]). rewrite E. unfold kdb_terminator. rewrite <- app_assoc. reflexivity.
Qed.

Corollary payload_enc_last_byte gs es d : gs <> [] \/ es <> [] -> last (payload_enc gs es) d = 0.
Proof. intro H. destruct (payload_enc_last_zero gs es H) as [pre E]. rewrite E. apply last_last. Qed.

Lemma payload_enc_empty : payload_enc [] [] = [].
Proof. reflexivity. Qed.

(* ------------------------------------------------------------------------------------------ *)
(* the reader's own padding step:  padlen = last byte, if it is at most the length;  payload = the rest *)
Definition kdb_unpad (padded : bytes) : option bytes :=
  match rev padded with
  | [] => None
  | b :: _ => if fits b padded then Some (take (length padded - N.to_nat b) padded) else None
  end.

(* what the cipher objects of the library leave behind the plaintext: nothing (AES-CBC with Pkcs7 unpadding)
   or a PKCS#7 padding (Twofish-CBC with NoPadding): 1..255 bytes, each equal to their number *)
Definition pkcs7_shape (pad : bytes) : Prop :=
  pad <> [] /\ (length pad < 256)%nat /\ Forall (fun b => b = N.of_nat (length pad)) pad.
Definition lib_tail (pad : bytes) : Prop := pad = [] \/ pkcs7_shape pad.

(* PKCS#7 for block size [bs] *)
Definition pkcs7 (bs : nat) (x : bytes) : bytes :=
  let n := (bs - length x mod bs)%nat in repeat (N.of_nat n) n.

Lemma pkcs7_is_shape bs x : (0 < bs < 256)%nat -> pkcs7_shape (pkcs7 bs x).
Proof.
  intro Hbs. unfold pkcs7. cbv zeta.
  assert (Hm : (length x mod bs < bs)%nat) by (apply Nat.mod_upper_bound; lia).
  set (n := (bs - length x mod bs)%nat). assert (Hn : (0 < n <= bs)%nat) by (unfold n; lia).
  unfold pkcs7_shape. rewrite repeat_length. split; [|split].
  - destruct n as [|n']; [lia|discriminate].
  - lia.
  - apply Forall_forall. intros b Hb. exact (repeat_spec _ _ _ Hb).
Qed.

(* AES path: nothing was left, the payload ends with 0, nothing is removed *)
Lemma kdb_unpad_plain pre : kdb_unpad (pre ++ [0]) = Some (pre ++ [0]).
Proof.
  unfold kdb_unpad. rewrite rev_unit.
  assert (F : fits 0 (pre ++ [0]) = true) by (unfold fits; apply N.leb_le; lia).
  rewrite F. change (N.to_nat 0) with 0%nat. rewrite Nat.sub_0_r. rewrite take_all by reflexivity. reflexivity.
Qed.

(* Twofish path: the padding is there, its last byte is its length, exactly the padding is removed *)
Lemma kdb_unpad_pkcs7 x pad : pkcs7_shape pad -> kdb_unpad (x ++ pad) = Some x.
Proof.
  intros (Hne & Hlen & Hall). unfold kdb_unpad.
  destruct (exists_last Hne) as [p' [b Ep]].
  assert (Hb : b = N.of_nat (length pad)).
  { rewrite Forall_forall in Hall. apply Hall. rewrite Ep. apply in_or_app. right. left. reflexivity. }
  assert (Erev : rev (x ++ pad) = b :: rev (x ++ p')).
  { rewrite Ep, app_assoc. apply rev_unit. }
  rewrite Erev.
  assert (F : fits b (x ++ pad) = true).
  { unfold fits. apply N.leb_le. rewrite Hb, app_length. lia. }
  rewrite F. rewrite Hb, Nat2N.id, app_length.
  replace (length x + length pad - length pad)%nat with (length x) by lia.
  rewrite take_app_exact. reflexivity.
Qed.

Theorem kdb_unpad_ok x pad :
  lib_tail pad -> (pad = [] -> exists pre, x = pre ++ [0]) -> kdb_unpad (x ++ pad) = Some x.
Proof.
  intros [E|Hs] Hx.
  - destruct (Hx E) as [pre Ex]. subst pad. rewrite app_nil_r, Ex. apply kdb_unpad_plain.
  - apply kdb_unpad_pkcs7. exact Hs.
Qed.

(* why the payload's last byte matters on the AES path: a plaintext that ends in 2 loses two bytes *)
Example kdb_unpad_eats_payload : kdb_unpad [1; 2; 3; 2] = Some [1; 2].
Proof. reflexivity. Qed.
Example kdb_unpad_empty : kdb_unpad [] = None.
Proof. reflexivity. Qed.
Example kdb_unpad_too_long : kdb_unpad [1; 2; 9] = None.
Proof. reflexivity. Qed.

(* ------------------------------------------------------------------------------------------ *)
(* the fixed header *)
Definition kdb_signature : bytes := [3; 217; 162; 154; 101; 251; 75; 181].     (* 03 d9 a2 9a  65 fb 4b b5 *)

(* flag bits: 1 = SHA2, 2 = AES (Rijndael), 8 = Twofish *)
Definition kdb_flags (c : ocipher) : N := match c with OAes256 => 3 | OTwofish => 9 | OChaCha20 => 1 end.
Definition kdb_cipher_of_flags (flags : N) : option ocipher :=
  if N.testbit flags 1 then Some OAes256 else if N.testbit flags 3 then Some OTwofish else None.

Lemma kdb_cipher_of_kdb_flags c : c <> OChaCha20 -> kdb_cipher_of_flags (kdb_flags c) = Some c.
Proof. destruct c; intro H; try reflexivity. contradiction H; reflexivity. Qed.

Definition kdb_header (flags subversion : N) (master_seed iv : bytes) (ng ne : N)
           (hash transform_seed : bytes) (rounds : N) : bytes :=
  kdb_signature ++ le_enc 4 flags ++ le_enc 4 subversion ++ master_seed ++ iv ++ le_enc 4 ng ++ le_enc 4 ne
  ++ hash ++ transform_seed ++ le_enc 4 rounds.

Lemma kdb_header_length flags sv ms iv ng ne h ts r :
  length ms = 16%nat -> length iv = 16%nat -> length h = 32%nat -> length ts = 32%nat ->
  length (kdb_header flags sv ms iv ng ne h ts r) = kdb_header_size.
Proof.
  intros Hms Hiv Hh Hts. unfold kdb_header. rewrite !app_length, !le_enc_length, Hms, Hiv, Hh, Hts. reflexivity.
Qed.

(* the fields at their fixed offsets; the u32 fields wrap *)
Lemma kdb_header_fields flags sv ms iv ng ne h ts r ct :
  length ms = 16%nat -> length iv = 16%nat -> length h = 32%nat -> length ts = 32%nat ->
  let data := kdb_header flags sv ms iv ng ne h ts r ++ ct in
  Nat.ltb (length data) kdb_header_size = false
  /\ le32 (drop 8 data) = flags mod 2 ^ 32
  /\ le32 (drop 12 data) = sv mod 2 ^ 32
  /\ take 16 (drop 16 data) = ms
  /\ take 16 (drop 32 data) = iv
  /\ le32 (drop 48 data) = ng mod 2 ^ 32
  /\ le32 (drop 52 data) = ne mod 2 ^ 32
  /\ take 32 (drop 56 data) = h
  /\ take 32 (drop 88 data) = ts
  /\ le32 (drop 120 data) = r mod 2 ^ 32
  /\ drop kdb_header_size data = ct.
Proof.
  intros Hms Hiv Hh Hts data.
  assert (H0 : drop 0 data = kdb_signature ++ le_enc 4 flags ++ le_enc 4 sv ++ ms ++ iv ++ le_enc 4 ng
                             ++ le_enc 4 ne ++ h ++ ts ++ le_enc 4 r ++ ct).
  { unfold data, kdb_header. cbn [drop]. rewrite <- !app_assoc. reflexivity. }
  assert (H8 : drop 8 data = le_enc 4 flags ++ le_enc 4 sv ++ ms ++ iv ++ le_enc 4 ng ++ le_enc 4 ne ++ h
                             ++ ts ++ le_enc 4 r ++ ct)
    by exact (drop_step 0 8 _ _ _ H0 eq_refl).
  assert (H12 : drop 12 data = le_enc 4 sv ++ ms ++ iv ++ le_enc 4 ng ++ le_enc 4 ne ++ h ++ ts ++ le_enc 4 r ++ ct)
    by exact (drop_step 8 4 _ _ _ H8 (le_enc_length 4 flags)).
  assert (H16 : drop 16 data = ms ++ iv ++ le_enc 4 ng ++ le_enc 4 ne ++ h ++ ts ++ le_enc 4 r ++ ct)
    by exact (drop_step 12 4 _ _ _ H12 (le_enc_length 4 sv)).
  assert (H32 : drop 32 data = iv ++ le_enc 4 ng ++ le_enc 4 ne ++ h ++ ts ++ le_enc 4 r ++ ct)
    by exact (drop_step 16 16 _ _ _ H16 Hms).
  assert (H48 : drop 48 data = le_enc 4 ng ++ le_enc 4 ne ++ h ++ ts ++ le_enc 4 r ++ ct)
    by exact (drop_step 32 16 _ _ _ H32 Hiv).
  assert (H52 : drop 52 data = le_enc 4 ne ++ h ++ ts ++ le_enc 4 r ++ ct)
    by exact (drop_step 48 4 _ _ _ H48 (le_enc_length 4 ng)).
  assert (H56 : drop 56 data = h ++ ts ++ le_enc 4 r ++ ct)
    by exact (drop_step 52 4 _ _ _ H52 (le_enc_length 4 ne)).
  assert (H88 : drop 88 data = ts ++ le_enc 4 r ++ ct)
    by exact (drop_step 56 32 _ _ _ H56 Hh).
  assert (H120 : drop 120 data = le_enc 4 r ++ ct)
    by exact (drop_step 88 32 _ _ _ H88 Hts).
  assert (H124 : drop 124 data = ct)
    by exact (drop_step 120 4 _ _ _ H120 (le_enc_length 4 r)).
  split.
  { apply Nat.ltb_ge. unfold data. rewrite app_length, (kdb_header_length flags sv ms iv ng ne h ts r Hms Hiv Hh Hts). lia. }
  unfold le32.
  split; [rewrite (take_at 8 4 _ _ _ H8 (le_enc_length 4 flags)); apply le_dec_enc4_mod|].
  split; [rewrite (take_at 12 4 _ _ _ H12 (le_enc_length 4 sv)); apply le_dec_enc4_mod|].
  split; [exact (take_at 16 16 _ _ _ H16 Hms)|].
  split; [exact (take_at 32 16 _ _ _ H32 Hiv)|].
  split; [rewrite (take_at 48 4 _ _ _ H48 (le_enc_length 4 ng)); apply le_dec_enc4_mod|].
  split; [rewrite (take_at 52 4 _ _ _ H52 (le_enc_length 4 ne)); apply le_dec_enc4_mod|].
  split; [exact (take_at 56 32 _ _ _ H56 Hh)|].
  split; [exact (take_at 88 32 _ _ _ H88 Hts)|].
  split; [rewrite (take_at 120 4 _ _ _ H120 (le_enc_length 4 r)); apply le_dec_enc4_mod|].
  exact H124.
Qed.

(* Database::parse dispatches on DatabaseVersion::parse, which reads the u16 at offset 8 - for a KDB file the
   low half of the FLAGS word - as the "minor version"; any such file goes to parse_kdb *)
Lemma version_parse_kdb_header flags sv ms iv ng ne h ts r ct :
  version_parse (kdb_header flags sv ms iv ng ne h ts r ++ ct) = Ok (KDB (flags mod 65536)).
Proof.
  unfold kdb_header. rewrite <- !app_assoc. unfold version_parse.
  assert (L : Nat.ltb (length (kdb_signature ++ le_enc 4 flags ++ le_enc 4 sv ++ ms ++ iv ++ le_enc 4 ng
                               ++ le_enc 4 ne ++ h ++ ts ++ le_enc 4 r ++ ct)) version_header_size = false).
  { apply Nat.ltb_ge. rewrite !app_length, !le_enc_length. unfold version_header_size.
    change (length kdb_signature) with 8%nat. lia. }
  rewrite L. cbn [kdb_signature app take drop]. cbn [bytes_eqb kdbx_identifier N.eqb Pos.eqb andb negb].
  cbn [le_enc app take drop le_dec].
  change (181 + 256 * (0 + 256 * 0)) with 181. change (101 + 256 * (251 + 256 * (75 + 256 * (181 + 256 * 0)))) with keepass_1_id.
  rewrite N.eqb_refl. f_equal. f_equal.
  rewrite N.mul_0_r, N.add_0_r.
  change 65536 with (256 * 256). rewrite N.mod_mul_r by lia. reflexivity.
Qed.

(* ========================================================================================== *)
Section kdb_open.
  Variable sha256 : bytes -> bytes.
  Variable kdf : kdfcfg -> bytes -> bytes -> res bytes.
  Variable outer_enc outer_dec : ocipher -> bytes -> bytes -> bytes -> res bytes.

  Notation kdb_open := (kdb_open sha256 kdf outer_dec).

  (* -------------------------------------------------------------------------------------- *)
  (* the conforming FILE writer.  [flags]: any word whose cipher bits name [c] (the theorems ask
     [kdb_cipher_of_flags flags = Some c]); [kdb_file_enc] uses SHA2 + the cipher's bit. *)
  Definition kdb_file_enc_flags (flags : N) (c : ocipher) (subversion : N) (master_seed iv transform_seed : bytes)
             (rounds : N) (gs : list gdesc) (es : list edesc) (elements : list bytes) : kres bytes :=
    match composite_kdb sha256 elements with
    | Err e => Err (KEKey e) | Panic n => Panic n | OutOfFuel => OutOfFuel
    | Ok composite =>
      do transformed <- lift (kdf (KAes rounds) transform_seed composite);
      let master_key := sha256 (master_seed ++ transformed) in
      let payload := payload_enc gs es in
      do ct <- lift (outer_enc c master_key iv payload);
      Ok (kdb_header flags subversion master_seed iv (N.of_nat (length gs)) (N.of_nat (length es))
                     (sha256 payload) transform_seed rounds ++ ct)
    end.

  Definition kdb_file_enc (c : ocipher) := kdb_file_enc_flags (kdb_flags c) c.

  Lemma lift_ok_inv {A} (r : res A) (x : A) : lift r = Ok x -> r = Ok x.
  Proof using. destruct r; cbn [lift]; intro H; try discriminate H. apply Ok_inj in H. rewrite H. reflexivity. Qed.

  Lemma good_lift {A} (r : res A) : good r -> good (lift r).
  Proof using. destruct r; exact (fun H => H). Qed.

  Lemma composite_kdb_good els : good (composite_kdb sha256 els).
  Proof using.
    unfold composite_kdb. destruct els as [|e [|e' r]]; try exact I. destruct (Nat.eqb (length e) 32); exact I.
  Qed.

  (* what a successful writer computed on the way *)
  Lemma kdb_file_enc_inv flags c sv ms iv ts rounds gs es els file :
    kdb_file_enc_flags flags c sv ms iv ts rounds gs es els = Ok file ->
    exists composite t ct,
      composite_kdb sha256 els = Ok composite
      /\ kdf (KAes rounds) ts composite = Ok t
      /\ outer_enc c (sha256 (ms ++ t)) iv (payload_enc gs es) = Ok ct
      /\ file = kdb_header flags sv ms iv (N.of_nat (length gs)) (N.of_nat (length es))
                           (sha256 (payload_enc gs es)) ts rounds ++ ct.
  Proof using.
    unfold kdb_file_enc_flags. intro H.
    destruct (composite_kdb sha256 els) as [composite| | |] eqn:Ec; try discriminate H.
    destruct (lift (kdf (KAes rounds) ts composite)) as [t| | |] eqn:Ek; cbn [bind] in H; try discriminate H.
    cbv zeta in H.
    destruct (lift (outer_enc c (sha256 (ms ++ t)) iv (payload_enc gs es))) as [ct| | |] eqn:Ee;
      cbn [bind] in H; try discriminate H.
    apply Ok_inj in H. exists composite, t, ct.
    split; [reflexivity|]. split; [exact (lift_ok_inv _ _ Ek)|]. split; [exact (lift_ok_inv _ _ Ee)|].
    symmetry. exact H.
  Qed.

  (* when it succeeds: a lone key element of 32 bytes or several elements, and primitives that deliver *)
  Definition kdb_elements_ok (els : list bytes) : Prop :=
    match els with [e] => length e = 32%nat | _ => True end.

  Lemma composite_kdb_ok els : kdb_elements_ok els -> exists composite, composite_kdb sha256 els = Ok composite.
  Proof using.
    unfold kdb_elements_ok, composite_kdb. destruct els as [|e [|e' r]]; intro H.
    - eexists; reflexivity.
    - rewrite H. eexists; reflexivity.
    - eexists; reflexivity.
  Qed.

  Lemma kdb_file_enc_succeeds flags c sv ms iv ts rounds gs es els composite t ct :
    composite_kdb sha256 els = Ok composite ->
    kdf (KAes rounds) ts composite = Ok t ->
    outer_enc c (sha256 (ms ++ t)) iv (payload_enc gs es) = Ok ct ->
    kdb_file_enc_flags flags c sv ms iv ts rounds gs es els
    = Ok (kdb_header flags sv ms iv (N.of_nat (length gs)) (N.of_nat (length es))
                     (sha256 (payload_enc gs es)) ts rounds ++ ct).
  Proof using.
    intros Ec Ek Ee. unfold kdb_file_enc_flags. rewrite Ec, Ek. cbn [lift bind]. rewrite Ee. reflexivity.
  Qed.

  (* a lone element of another length: the writer refuses, as the reader would *)
  Lemma kdb_file_enc_lone_bad flags c sv ms iv ts rounds gs es e :
    length e <> 32%nat ->
    kdb_file_enc_flags flags c sv ms iv ts rounds gs es [e] = Err (KEKey KInvalidKeyFile).
  Proof using.
    intro H. unfold kdb_file_enc_flags. rewrite (composite_kdb_lone_bad sha256 e H). reflexivity.
  Qed.

  (* -------------------------------------------------------------------------------------- *)
  (* the reader in terms of the header FIELDS, the padding step named *)
  Definition kdb_open_fields (flags subversion : N) (master_seed iv : bytes) (ng ne : N)
             (hash transform_seed : bytes) (rounds : N) (ct : bytes) (elements : outcome keyerr (list bytes))
    : kres (dbversion * ocipher * N * list knode) :=
    match elements with
    | Err e => Err (KEKey e) | Panic n => Panic n | OutOfFuel => OutOfFuel
    | Ok els =>
      match composite_kdb sha256 els with
      | Err e => Err (KEKey e) | Panic n => Panic n | OutOfFuel => OutOfFuel
      | Ok composite =>
        do transformed <- lift (kdf (KAes rounds) transform_seed composite);
        do cipher <- of_option KEFixedCipherId (kdb_cipher_of_flags flags);
        do padded <- lift (outer_dec cipher (sha256 (master_seed ++ transformed)) iv ct);
        match kdb_unpad padded with
        | None => Err KEIncorrectKey
        | Some payload =>
          if negb (bytes_eqb hash (sha256 payload)) then Err KEIncorrectKey
          else
            do root <- parse_db ng ne payload;
            Ok (KDB (subversion mod 65536), cipher, rounds, root)
        end
      end
    end.

  (* for ANY file of at least 124 bytes *)
  Lemma kdb_open_split data elements :
    Nat.ltb (length data) kdb_header_size = false ->
    kdb_open data elements
    = kdb_open_fields (le32 (drop 8 data)) (le32 (drop 12 data)) (take 16 (drop 16 data)) (take 16 (drop 32 data))
                      (le32 (drop 48 data)) (le32 (drop 52 data)) (take 32 (drop 56 data)) (take 32 (drop 88 data))
                      (le32 (drop 120 data)) (drop kdb_header_size data) elements.
  Proof using.
    intro L. unfold Kdb.kdb_open, kdb_open_fields. rewrite L. cbv zeta.
    destruct elements as [els|e|n|]; try reflexivity.
    destruct (composite_kdb sha256 els) as [composite|e|n|]; try reflexivity.
    destruct (lift (kdf (KAes (le32 (drop 120 data))) (take 32 (drop 88 data)) composite)) as [t|e|n|];
      cbn [bind]; try reflexivity.
    unfold kdb_cipher_of_flags.
    assert (Hc : (if N.testbit (le32 (drop 8 data)) 1 then Ok OAes256
                  else if N.testbit (le32 (drop 8 data)) 3 then Ok OTwofish else Err KEFixedCipherId)
                 = of_option KEFixedCipherId
                     (if N.testbit (le32 (drop 8 data)) 1 then Some OAes256
                      else if N.testbit (le32 (drop 8 data)) 3 then Some OTwofish else None)).
    { destruct (N.testbit (le32 (drop 8 data)) 1); [reflexivity|].
      destruct (N.testbit (le32 (drop 8 data)) 3); reflexivity. }
    rewrite Hc. clear Hc.
    destruct (of_option KEFixedCipherId _) as [c|e|n|]; cbn [bind]; try reflexivity.
    destruct (lift (outer_dec c (sha256 (take 16 (drop 16 data) ++ t)) (take 16 (drop 32 data))
                              (drop kdb_header_size data))) as [padded|e|n|]; cbn [bind]; try reflexivity.
    unfold kdb_unpad. destruct (rev padded) as [|b r]; [reflexivity|].
    destruct (fits b padded); reflexivity.
  Qed.

  (* on  header ++ ciphertext *)
  Lemma kdb_open_on_file flags sv ms iv ng ne h ts r ct elements :
    length ms = 16%nat -> length iv = 16%nat -> length h = 32%nat -> length ts = 32%nat ->
    kdb_open (kdb_header flags sv ms iv ng ne h ts r ++ ct) elements
    = kdb_open_fields (flags mod 2 ^ 32) (sv mod 2 ^ 32) ms iv (ng mod 2 ^ 32) (ne mod 2 ^ 32) h ts (r mod 2 ^ 32)
                      ct elements.
  Proof using.
    intros Hms Hiv Hh Hts.
    destruct (kdb_header_fields flags sv ms iv ng ne h ts r ct Hms Hiv Hh Hts)
      as (L & Ef & Ev & Em & Ei & Eg & Ee & Eh & Et & Er & Ec).
    rewrite (kdb_open_split _ _ L). rewrite Ef, Ev, Em, Ei, Eg, Ee, Eh, Et, Er, Ec. reflexivity.
  Qed.

  Lemma kdb_cipher_of_flags_mod flags : kdb_cipher_of_flags (flags mod 2 ^ 32) = kdb_cipher_of_flags flags.
  Proof using.
    unfold kdb_cipher_of_flags. rewrite !N.mod_pow2_bits_low by lia. reflexivity.
  Qed.

  (* -------------------------------------------------------------------------------------- *)
  Hypothesis sha256_length : forall m, length (sha256 m) = 32%nat.

  (* THE STEP FROM THE FILE TO THE PAYLOAD: whatever [parse_db] answers on the written payload is what
     [kdb_open] answers on the file.  [Hdec] is about the one cipher in use. *)
  Lemma kdb_open_of_file flags c sv ms iv ts rounds gs es els file :
    (forall k i x ct, outer_enc c k i x = Ok ct -> exists pad, outer_dec c k i ct = Ok (x ++ pad) /\ lib_tail pad) ->
    kdb_cipher_of_flags flags = Some c ->
    length ms = 16%nat -> length iv = 16%nat -> length ts = 32%nat -> rounds < 2 ^ 32 ->
    N.of_nat (length gs) < 2 ^ 32 -> N.of_nat (length es) < 2 ^ 32 ->
    gs <> [] \/ es <> [] ->
    kdb_file_enc_flags flags c sv ms iv ts rounds gs es els = Ok file ->
    kdb_open file (Ok els)
    = bind (parse_db (N.of_nat (length gs)) (N.of_nat (length es)) (payload_enc gs es))
           (fun root => Ok (KDB (sv mod 65536), c, rounds, root)).
  Proof.
    intros Hdec Hflags Hms Hiv Hts Hr Hng Hne Hnonempty Hfile.
    destruct (kdb_file_enc_inv _ _ _ _ _ _ _ _ _ _ _ Hfile) as (composite & t & ct & Ec & Ek & Ee & ->).
    rewrite kdb_open_on_file by (try assumption; apply sha256_length).
    unfold kdb_open_fields. rewrite Ec.
    rewrite (N.mod_small rounds), (N.mod_small (N.of_nat (length gs))), (N.mod_small (N.of_nat (length es)))
      by assumption.
    rewrite Ek. cbn [lift bind]. rewrite kdb_cipher_of_flags_mod, Hflags. cbn [of_option bind].
    destruct (Hdec _ _ _ _ Ee) as (pad & Ed & Hpad). rewrite Ed. cbn [lift bind].
    rewrite (kdb_unpad_ok (payload_enc gs es) pad Hpad (fun _ => payload_enc_last_zero gs es Hnonempty)).
    rewrite bytes_eqb_refl. cbn [negb]. rewrite mod32_mod16. reflexivity.
  Qed.

  (* ====================================================================================== *)
  (* THE END-TO-END THEOREM for KDB: what the conforming writer lays out is opened as the tree
     [parse_db_ok_distinct] describes, with the version, cipher and rounds of the header. *)
  Theorem kdb_open_roundtrip_flags flags c sv ms iv ts rounds gs es els file :
    (* the cipher object in use, in either of the two shapes of the library *)
    (forall k i x ct, outer_enc c k i x = Ok ct -> exists pad, outer_dec c k i ct = Ok (x ++ pad) /\ lib_tail pad) ->
    kdb_cipher_of_flags flags = Some c ->
    length ms = 16%nat -> length iv = 16%nat -> length ts = 32%nat -> rounds < 2 ^ 32 ->
    gs <> [] -> N.of_nat (length gs) < 2 ^ 32 -> N.of_nat (length es) < 2 ^ 32 ->
    valid_levels gs = true -> forallb gdesc_ok gs = true -> forallb edesc_ok es = true ->
    NoDup (map gd_gid gs) -> (forall e, In e es -> In (ed_gid e) (map gd_gid gs)) ->
    kdb_file_enc_flags flags c sv ms iv ts rounds gs es els = Ok file ->
    exists root',
      kdb_open file (Ok els) = Ok (KDB (sv mod 65536), c, rounds, root') /\
      preorder 0 root' = map lvname gs /\
      groups_only (strip_entries root') = true /\
      map tag root' = map (fun _ => None) (strip_entries root') /\
      forall i g, nth_error gs i = Some g ->
        exists p ch ch',
          nth_error (forest_paths (strip_entries root')) i = Some p /\
          name_at p (strip_entries root') = Some (gd_name g) /\ length p = S (gd_level g) /\
          children_at p (strip_entries root') = Some ch /\
          children_at p root' = Some ch' /\
          map tag ch' = map (fun _ => None) ch ++
                        map (fun e => Some (entry_fields e)) (filter (fun e => N.eqb (ed_gid e) (gd_gid g)) es).
  Proof.
    intros Hdec Hflags Hms Hiv Hts Hr Hgne Hng Hne Hlv Hgs Hes Hnd Hids Hfile.
    destruct (parse_db_ok_distinct gs es Hlv Hgs Hes Hnd Hids) as (root' & Hdb & Hrest).
    exists root'. split; [|exact Hrest].
    rewrite (kdb_open_of_file flags c sv ms iv ts rounds gs es els file Hdec Hflags Hms Hiv Hts Hr Hng Hne
                              (or_introl Hgne) Hfile).
    rewrite Hdb. reflexivity.
  Qed.

  (* the same without the distinctness of the group ids: the tree is [attach_entries] of [parse_db_ok] *)
  Theorem kdb_open_roundtrip_attach flags c sv ms iv ts rounds gs es els file :
    (forall k i x ct, outer_enc c k i x = Ok ct -> exists pad, outer_dec c k i ct = Ok (x ++ pad) /\ lib_tail pad) ->
    kdb_cipher_of_flags flags = Some c ->
    length ms = 16%nat -> length iv = 16%nat -> length ts = 32%nat -> rounds < 2 ^ 32 ->
    gs <> [] -> N.of_nat (length gs) < 2 ^ 32 -> N.of_nat (length es) < 2 ^ 32 ->
    valid_levels gs = true -> forallb gdesc_ok gs = true -> forallb edesc_ok es = true ->
    (forall e, In e es -> In (ed_gid e) (map gd_gid gs)) ->
    kdb_file_enc_flags flags c sv ms iv ts rounds gs es els = Ok file ->
    exists root m,
      preorder 0 root = map lvname gs /\ groups_only root = true /\
      m = gm_spec (map gd_gid gs) (forest_paths root) /\
      kdb_open file (Ok els) = Ok (KDB (sv mod 65536), c, rounds, attach_entries m root es).
  Proof.
    intros Hdec Hflags Hms Hiv Hts Hr Hgne Hng Hne Hlv Hgs Hes Hids Hfile.
    destruct (parse_db_ok gs es Hlv Hgs Hes Hids)
      as (root & m & root' & _ & Hdb & Hpre & Hgo & Hm & Hroot' & _).
    exists root, m. split; [exact Hpre|]. split; [exact Hgo|]. split; [exact Hm|].
    rewrite (kdb_open_of_file flags c sv ms iv ts rounds gs es els file Hdec Hflags Hms Hiv Hts Hr Hng Hne
                              (or_introl Hgne) Hfile).
    rewrite Hdb, Hroot'. reflexivity.
  Qed.

  (* with the canonical flag word (SHA2 + the cipher's bit) *)
  Corollary kdb_open_roundtrip c sv ms iv ts rounds gs es els file :
    (forall k i x ct, outer_enc c k i x = Ok ct -> exists pad, outer_dec c k i ct = Ok (x ++ pad) /\ lib_tail pad) ->
    c = OAes256 \/ c = OTwofish ->
    length ms = 16%nat -> length iv = 16%nat -> length ts = 32%nat -> rounds < 2 ^ 32 ->
    gs <> [] -> N.of_nat (length gs) < 2 ^ 32 -> N.of_nat (length es) < 2 ^ 32 ->
    valid_levels gs = true -> forallb gdesc_ok gs = true -> forallb edesc_ok es = true ->
    NoDup (map gd_gid gs) -> (forall e, In e es -> In (ed_gid e) (map gd_gid gs)) ->
    kdb_file_enc c sv ms iv ts rounds gs es els = Ok file ->
    exists root',
      kdb_open file (Ok els) = Ok (KDB (sv mod 65536), c, rounds, root') /\
      preorder 0 root' = map lvname gs /\
      groups_only (strip_entries root') = true /\
      map tag root' = map (fun _ => None) (strip_entries root') /\
      forall i g, nth_error gs i = Some g ->
        exists p ch ch',
          nth_error (forest_paths (strip_entries root')) i = Some p /\
          name_at p (strip_entries root') = Some (gd_name g) /\ length p = S (gd_level g) /\
          children_at p (strip_entries root') = Some ch /\
          children_at p root' = Some ch' /\
          map tag ch' = map (fun _ => None) ch ++
                        map (fun e => Some (entry_fields e)) (filter (fun e => N.eqb (ed_gid e) (gd_gid g)) es).
  Proof.
    intros Hdec Hc. intros.
    apply (kdb_open_roundtrip_flags (kdb_flags c) c sv ms iv ts rounds gs es els file Hdec); try assumption.
    apply kdb_cipher_of_kdb_flags. destruct Hc as [-> | ->]; discriminate.
  Qed.

  (* Database::parse reaches parse_kdb on such a file *)
  Lemma kdb_file_version flags c sv ms iv ts rounds gs es els file :
    kdb_file_enc_flags flags c sv ms iv ts rounds gs es els = Ok file ->
    version_parse file = Ok (KDB (flags mod 65536)).
  Proof using.
    intro Hfile. destruct (kdb_file_enc_inv _ _ _ _ _ _ _ _ _ _ _ Hfile) as (composite & t & ct & _ & _ & _ & ->).
    apply version_parse_kdb_header.
  Qed.

  (* ====================================================================================== *)
  (* WRONG KEY, on the reader directly and for ANY file: if what the derived key decrypts does not survive
     the padding step, or survives it with another hash than the header's, the answer is IncorrectKey -
     before anything is parsed *)
  Theorem kdb_open_wrong_key data els composite t c padded :
    Nat.ltb (length data) kdb_header_size = false ->
    composite_kdb sha256 els = Ok composite ->
    kdf (KAes (le32 (drop 120 data))) (take 32 (drop 88 data)) composite = Ok t ->
    kdb_cipher_of_flags (le32 (drop 8 data)) = Some c ->
    outer_dec c (sha256 (take 16 (drop 16 data) ++ t)) (take 16 (drop 32 data)) (drop kdb_header_size data) = Ok padded ->
    (forall payload, kdb_unpad padded = Some payload -> sha256 payload <> take 32 (drop 56 data)) ->
    kdb_open data (Ok els) = Err KEIncorrectKey.
  Proof using.
    intros L Ec Ek Hc Ed Hne. rewrite (kdb_open_split _ _ L). unfold kdb_open_fields.
    rewrite Ec, Ek. cbn [lift bind]. rewrite Hc. cbn [of_option bind]. rewrite Ed. cbn [lift bind].
    destruct (kdb_unpad padded) as [payload|]; [|reflexivity].
    destruct (bytes_eqb (take 32 (drop 56 data)) (sha256 payload)) eqn:E; [|reflexivity].
    apply bytes_eqb_eq in E. exfalso. exact (Hne payload eq_refl (eq_sym E)).
  Qed.

  (* the same on a written file opened with OTHER key elements *)
  Theorem kdb_file_wrong_key flags c sv ms iv ts rounds gs es els file els' composite' t' padded :
    kdb_cipher_of_flags flags = Some c ->
    length ms = 16%nat -> length iv = 16%nat -> length ts = 32%nat -> rounds < 2 ^ 32 ->
    kdb_file_enc_flags flags c sv ms iv ts rounds gs es els = Ok file ->
    composite_kdb sha256 els' = Ok composite' ->
    kdf (KAes rounds) ts composite' = Ok t' ->
    outer_dec c (sha256 (ms ++ t')) iv (drop kdb_header_size file) = Ok padded ->
    (forall payload, kdb_unpad padded = Some payload -> sha256 payload <> sha256 (payload_enc gs es)) ->
    kdb_open file (Ok els') = Err KEIncorrectKey.
  Proof.
    intros Hflags Hms Hiv Hts Hr Hfile Ec Ek Ed Hne.
    destruct (kdb_file_enc_inv _ _ _ _ _ _ _ _ _ _ _ Hfile) as (composite & t & ct & _ & _ & _ & ->).
    destruct (kdb_header_fields flags sv ms iv (N.of_nat (length gs)) (N.of_nat (length es))
                (sha256 (payload_enc gs es)) ts rounds ct Hms Hiv (sha256_length _) Hts)
      as (_ & _ & _ & _ & _ & _ & _ & _ & _ & _ & Ect).
    rewrite Ect in Ed.
    rewrite kdb_open_on_file by (try assumption; apply sha256_length).
    unfold kdb_open_fields. rewrite Ec. rewrite (N.mod_small rounds) by assumption. rewrite Ek. cbn [lift bind].
    rewrite kdb_cipher_of_flags_mod, Hflags. cbn [of_option bind]. rewrite Ed. cbn [lift bind].
    destruct (kdb_unpad padded) as [payload|] eqn:Eu; [|reflexivity].
    destruct (bytes_eqb (sha256 (payload_enc gs es)) (sha256 payload)) eqn:E; [|reflexivity].
    apply bytes_eqb_eq in E. exfalso. exact (Hne payload eq_refl (eq_sym E)).
  Qed.

  (* no credentials, or a lone element of the wrong length: a key error *)
  Theorem kdb_open_no_credentials data e :
    Nat.ltb (length data) kdb_header_size = false -> kdb_open data (Err e) = Err (KEKey e).
  Proof using. intro L. rewrite (kdb_open_split _ _ L). reflexivity. Qed.

  (* THE EMPTY PAYLOAD under AES (documented limitation): a file with zero groups and zero entries, written
     and read with a cipher object that removes its padding, is answered with IncorrectKey *)
  Theorem kdb_open_empty_payload_aes flags sv ms iv ts rounds els file :
    (forall k i x ct, outer_enc OAes256 k i x = Ok ct -> outer_dec OAes256 k i ct = Ok x) ->
    kdb_cipher_of_flags flags = Some OAes256 ->
    length ms = 16%nat -> length iv = 16%nat -> length ts = 32%nat -> rounds < 2 ^ 32 ->
    kdb_file_enc_flags flags OAes256 sv ms iv ts rounds [] [] els = Ok file ->
    kdb_open file (Ok els) = Err KEIncorrectKey.
  Proof.
    intros Hdec Hflags Hms Hiv Hts Hr Hfile.
    destruct (kdb_file_enc_inv _ _ _ _ _ _ _ _ _ _ _ Hfile) as (composite & t & ct & Ec & Ek & Ee & ->).
    rewrite kdb_open_on_file by (try assumption; apply sha256_length).
    unfold kdb_open_fields. rewrite Ec. rewrite (N.mod_small rounds) by assumption. rewrite Ek. cbn [lift bind].
    rewrite kdb_cipher_of_flags_mod, Hflags. cbn [of_option bind].
    rewrite (Hdec _ _ _ _ Ee). reflexivity.
  Qed.

  (* ====================================================================================== *)
  (* TOTALITY: any bytes, any outcome of the credential source that is not itself a panic *)
  Theorem kdb_open_total data elements :
    good elements ->
    (forall k s c, good (kdf k s c)) ->
    (forall c k iv d, good (outer_dec c k iv d)) ->
    good (kdb_open data elements).
  Proof using.
    intros Hels Hkdf Hdec.
    destruct (Nat.ltb (length data) kdb_header_size) eqn:L.
    - unfold Kdb.kdb_open. rewrite L. exact I.
    - rewrite (kdb_open_split _ _ L). unfold kdb_open_fields.
      destruct elements as [els|e|n|]; cbn [good] in Hels; try contradiction; [|exact I].
      pose proof (composite_kdb_good els) as Hc.
      destruct (composite_kdb sha256 els) as [composite|e|n|]; cbn [good] in Hc; try contradiction; [|exact I].
      apply good_bind; [apply good_lift; apply Hkdf|]. intros t _.
      apply good_bind; [destruct (kdb_cipher_of_flags _); exact I|]. intros c _.
      apply good_bind; [apply good_lift; apply Hdec|]. intros padded _.
      destruct (kdb_unpad padded) as [payload|]; [|exact I].
      destruct (negb _); [exact I|].
      apply good_bind; [|intros; exact I].
      pose proof (parse_db_never_panics (le32 (drop 48 data)) (le32 (drop 52 data)) payload) as Hp.
      destruct (parse_db _ _ payload); try exact I; exact Hp.
  Qed.

  Corollary kdb_open_never_panics_never_hangs data elements :
    match elements with Panic _ | OutOfFuel => False | _ => True end ->
    (forall k s c, match kdf k s c with Panic _ | OutOfFuel => False | _ => True end) ->
    (forall c k iv d, match outer_dec c k iv d with Panic _ | OutOfFuel => False | _ => True end) ->
    (exists r, kdb_open data elements = Ok r) \/ (exists e, kdb_open data elements = Err e).
  Proof using.
    intros Hels Hkdf Hdec. apply good_cases. apply kdb_open_total; assumption.
  Qed.

  (* a file shorter than the fixed header is an error whatever the credential source did *)
  Lemma kdb_open_short data elements :
    (length data < kdb_header_size)%nat -> kdb_open data elements = Err KEFixedHeader.
  Proof using. intro L. unfold Kdb.kdb_open. apply Nat.ltb_lt in L. rewrite L. reflexivity. Qed.

  (* the writer *)
  Theorem kdb_file_enc_total flags c sv ms iv ts rounds gs es els :
    (forall k s c, good (kdf k s c)) ->
    (forall c k iv d, good (outer_enc c k iv d)) ->
    good (kdb_file_enc_flags flags c sv ms iv ts rounds gs es els).
  Proof using.
    intros Hkdf Henc. unfold kdb_file_enc_flags.
    pose proof (composite_kdb_good els) as Hc.
    destruct (composite_kdb sha256 els) as [composite|e|n|]; cbn [good] in Hc; try contradiction; [|exact I].
    apply good_bind; [apply good_lift; apply Hkdf|]. intros t _. cbv zeta.
    apply good_bind; [apply good_lift; apply Henc|]. intros ct _. exact I.
  Qed.
End kdb_open.

(* ========================================================================================== *)
(* THE TWO SHAPES OF THE LIBRARY, spelled out *)

(* AES-256-CBC: the cipher object returns the plaintext *)
Corollary kdb_open_roundtrip_aes sha256 kdf outer_enc outer_dec sv ms iv ts rounds gs es els file :
  (forall m, length (sha256 m) = 32%nat) ->
  (forall k i x ct, outer_enc OAes256 k i x = Ok ct -> outer_dec OAes256 k i ct = Ok x) ->
  length ms = 16%nat -> length iv = 16%nat -> length ts = 32%nat -> rounds < 2 ^ 32 ->
  gs <> [] -> N.of_nat (length gs) < 2 ^ 32 -> N.of_nat (length es) < 2 ^ 32 ->
  valid_levels gs = true -> forallb gdesc_ok gs = true -> forallb edesc_ok es = true ->
  NoDup (map gd_gid gs) -> (forall e, In e es -> In (ed_gid e) (map gd_gid gs)) ->
  kdb_file_enc sha256 kdf outer_enc OAes256 sv ms iv ts rounds gs es els = Ok file ->
  exists root',
    kdb_open sha256 kdf outer_dec file (Ok els) = Ok (KDB (sv mod 65536), OAes256, rounds, root') /\
    parse_db (N.of_nat (length gs)) (N.of_nat (length es)) (payload_enc gs es) = Ok root'.
Proof.
  intros Hsha Hdec Hms Hiv Hts Hr Hgne Hng Hne Hlv Hgs Hes Hnd Hids Hfile.
  destruct (parse_db_ok_distinct gs es Hlv Hgs Hes Hnd Hids) as (root' & Hdb & _).
  exists root'. split; [|exact Hdb].
  rewrite (kdb_open_of_file sha256 kdf outer_enc outer_dec Hsha (kdb_flags OAes256) OAes256 sv ms iv ts rounds
                            gs es els file); try assumption; try reflexivity.
  - rewrite Hdb. reflexivity.
  - intros k i x ct E. exists []. rewrite app_nil_r. split; [exact (Hdec _ _ _ _ E)|left; reflexivity].
  - left. exact Hgne.
Qed.

(* Twofish-CBC: the cipher object returns the plaintext followed by its PKCS#7 padding to 16-byte blocks *)
Corollary kdb_open_roundtrip_twofish sha256 kdf outer_enc outer_dec sv ms iv ts rounds gs es els file :
  (forall m, length (sha256 m) = 32%nat) ->
  (forall k i x ct, outer_enc OTwofish k i x = Ok ct -> outer_dec OTwofish k i ct = Ok (x ++ pkcs7 16 x)) ->
  length ms = 16%nat -> length iv = 16%nat -> length ts = 32%nat -> rounds < 2 ^ 32 ->
  N.of_nat (length gs) < 2 ^ 32 -> N.of_nat (length es) < 2 ^ 32 ->
  valid_levels gs = true -> forallb gdesc_ok gs = true -> forallb edesc_ok es = true ->
  NoDup (map gd_gid gs) -> (forall e, In e es -> In (ed_gid e) (map gd_gid gs)) ->
  kdb_file_enc sha256 kdf outer_enc OTwofish sv ms iv ts rounds gs es els = Ok file ->
  exists root',
    kdb_open sha256 kdf outer_dec file (Ok els) = Ok (KDB (sv mod 65536), OTwofish, rounds, root') /\
    parse_db (N.of_nat (length gs)) (N.of_nat (length es)) (payload_enc gs es) = Ok root'.
Proof.
  (* no [gs <> []] here: the padding is never empty, so the empty payload opens as well *)
  intros Hsha Hdec Hms Hiv Hts Hr Hng Hne Hlv Hgs Hes Hnd Hids Hfile.
  destruct (parse_db_ok_distinct gs es Hlv Hgs Hes Hnd Hids) as (root' & Hdb & _).
  exists root'. split; [|exact Hdb].
  destruct (kdb_file_enc_inv sha256 kdf outer_enc _ _ _ _ _ _ _ _ _ _ _ Hfile)
    as (composite & t & ct & Ec & Ek & Ee & ->).
  rewrite kdb_open_on_file by (try assumption; apply Hsha).
  unfold kdb_open_fields. rewrite Ec.
  rewrite (N.mod_small rounds), (N.mod_small (N.of_nat (length gs))), (N.mod_small (N.of_nat (length es)))
    by assumption.
  rewrite Ek. cbn [lift bind]. rewrite kdb_cipher_of_flags_mod. cbn [kdb_flags].
  change (kdb_cipher_of_flags 9) with (Some OTwofish). cbn [of_option bind].
  rewrite (Hdec _ _ _ _ Ee). cbn [lift bind].
  rewrite (kdb_unpad_pkcs7 (payload_enc gs es) (pkcs7 16 (payload_enc gs es))) by (apply pkcs7_is_shape; lia).
  rewrite bytes_eqb_refl. cbn [negb]. rewrite mod32_mod16, Hdb. reflexivity.
Qed.

(* ========================================================================================== *)
(* NON-VACUITY AND COUNTER-EXAMPLES.  Toy primitives that satisfy the hypotheses: a "hash" of 32 bytes that
   depends on its input, a KDF that depends on the rounds, a key-dependent XOR cipher whose AES object returns
   the plaintext and whose Twofish object leaves the PKCS#7 padding in place. *)
Module ToyKdb.
  Definition sha256 (m : bytes) : bytes := take 32 (map (fun b => (b * 7 + N.of_nat (length m)) mod 256) m ++ zeros 32).
  Definition kdf (k : kdfcfg) (seed composite : bytes) : res bytes :=
    match k with KAes r => Ok (map (fun b => (b + r) mod 256) composite) | _ => Err ECrypto end.
  Definition keybyte (k : bytes) : N := nth 16 k 0.            (* the first byte that came from the KDF *)
  Definition xor_with (k x : bytes) : bytes := map (fun b => N.lxor b (keybyte k)) x.
  Definition enc (_ : ocipher) (k _ x : bytes) : res bytes := Ok (xor_with k x).
  Definition dec (c : ocipher) (k _ ct : bytes) : res bytes :=
    match c with
    | OTwofish => Ok (xor_with k ct ++ pkcs7 16 ct)
    | _ => Ok (xor_with k ct)
    end.

  Lemma sha256_length m : length (sha256 m) = 32%nat.
  Proof. unfold sha256. apply take_length. rewrite app_length, map_length. clear. induction m; cbn; lia. Qed.

  Lemma xor_with_twice k x : xor_with k (xor_with k x) = x.
  Proof.
    unfold xor_with. rewrite map_map. rewrite <- (map_id x) at 2. apply map_ext. intro b.
    rewrite N.lxor_assoc, N.lxor_nilpotent, N.lxor_0_r. reflexivity.
  Qed.
  Lemma xor_with_length k x : length (xor_with k x) = length x.
  Proof. apply map_length. Qed.

  Lemma dec_enc c : forall k i x ct, enc c k i x = Ok ct -> exists pad, dec c k i ct = Ok (x ++ pad) /\ lib_tail pad.
  Proof.
    intros k i x ct E. unfold enc in E. apply Ok_inj in E. subst ct.
    destruct c; cbn [dec]; rewrite xor_with_twice.
    - exists []. rewrite app_nil_r. split; [reflexivity|left; reflexivity].
    - exists (pkcs7 16 (xor_with k x)). split; [reflexivity|right; apply pkcs7_is_shape; lia].
    - exists []. rewrite app_nil_r. split; [reflexivity|left; reflexivity].
  Qed.

  Definition ms : bytes := map N.of_nat (seq 1 16).
  Definition iv : bytes := map N.of_nat (seq 101 16).
  Definition ts : bytes := map N.of_nat (seq 201 32).
  Definition key1 : list bytes := [map N.of_nat (seq 50 32)].                 (* a lone 32-byte element *)
  Definition key2 : list bytes := [[1; 2; 3]; map N.of_nat (seq 9 32)].       (* password hash + key file *)
  Definition key_other : list bytes := [map N.of_nat (seq 51 32)].

  Definition write := kdb_file_enc sha256 kdf enc.
  Definition open := kdb_open sha256 kdf dec.
  Definition file_of (r : kres bytes) : bytes := match r with Ok f => f | _ => [] end.

  Definition the_tree : list knode :=
    [KGroup [65]
       [KGroup [66]
          [KGroup [65] [KEntry [(s_Password, KProt [112; 119]); (s_Title, KUnprot [121])]]];
        KGroup [66]
          [KEntry [(s_Title, KUnprot [116; 49]); (s_UserName, KUnprot [117])];
           KEntry [(s_BinaryData, KBytes [1; 2; 0])]]];
     KGroup [65]
       [KEntry [(s_BinaryDesc, KUnprot [100]); (s_Additional, KUnprot [110]); (s_URL, KUnprot [104])]]].

  (* by evaluation: both ciphers, both credential shapes; the subversion is cut to its low 16 bits *)
  Example aes_lone_key :
    open (file_of (write OAes256 196610 ms iv ts 6000 ex_gs ex_es key1)) (Ok key1)
    = Ok (KDB 2, OAes256, 6000, the_tree).
  Proof. vm_compute. reflexivity. Qed.
  Example twofish_two_elements :
    open (file_of (write OTwofish 196610 ms iv ts 6000 ex_gs ex_es key2)) (Ok key2)
    = Ok (KDB 2, OTwofish, 6000, the_tree).
  Proof. vm_compute. reflexivity. Qed.
  (* the payload is not in the file as it stands, and the Twofish object did leave a padding behind *)
  Example cipher_is_used :
    drop kdb_header_size (file_of (write OAes256 196610 ms iv ts 6000 ex_gs ex_es key1)) <> payload_enc ex_gs ex_es.
  Proof. vm_compute. discriminate. Qed.
  Example twofish_leaves_padding :
    dec OTwofish (zeros 32) iv (payload_enc ex_gs ex_es) = Ok (payload_enc ex_gs ex_es ++ repeat 5 5).
  Proof. vm_compute. reflexivity. Qed.

  (* by the theorem: all its hypotheses hold of the toy *)
  Example aes_by_theorem :
    exists root', open (file_of (write OAes256 196610 ms iv ts 6000 ex_gs ex_es key1)) (Ok key1)
                  = Ok (KDB (196610 mod 65536), OAes256, 6000, root').
  Proof.
    destruct (kdb_open_roundtrip sha256 kdf enc dec sha256_length OAes256 196610 ms iv ts 6000 ex_gs ex_es key1
                (file_of (write OAes256 196610 ms iv ts 6000 ex_gs ex_es key1)))
      as (root' & H & _); try reflexivity; try (vm_compute; reflexivity).
    - apply dec_enc.
    - left; reflexivity.
    - discriminate.
    - repeat constructor; cbn; intuition discriminate.
    - intros e He. vm_compute in He. vm_compute. intuition (subst; auto).
    - exists root'. exact H.
  Qed.

  (* wrong key: IncorrectKey, with either cipher *)
  Example wrong_key_aes :
    open (file_of (write OAes256 196610 ms iv ts 6000 ex_gs ex_es key1)) (Ok key_other) = Err KEIncorrectKey.
  Proof. vm_compute. reflexivity. Qed.
  Example wrong_key_twofish :
    open (file_of (write OTwofish 196610 ms iv ts 6000 ex_gs ex_es key2)) (Ok key1) = Err KEIncorrectKey.
  Proof. vm_compute. reflexivity. Qed.
  Example no_credentials :
    open (file_of (write OAes256 196610 ms iv ts 6000 ex_gs ex_es key1)) (Err KIncorrectKey) = Err (KEKey KIncorrectKey).
  Proof. vm_compute. reflexivity. Qed.
  Example lone_short_element :
    open (file_of (write OAes256 196610 ms iv ts 6000 ex_gs ex_es key1)) (Ok [[1; 2; 3]]) = Err (KEKey KInvalidKeyFile)
    /\ write OAes256 196610 ms iv ts 6000 ex_gs ex_es [[1; 2; 3]] = Err (KEKey KInvalidKeyFile).
  Proof. vm_compute. split; reflexivity. Qed.

  (* THE EMPTY PAYLOAD (documented limitation, not a finding): zero groups, zero entries.  Under AES the
     cipher object returns the empty plaintext, which has no last byte: IncorrectKey.  Under Twofish the
     sixteen padding bytes are there and the file opens as the empty tree. *)
  Example empty_payload_aes :
    open (file_of (write OAes256 196610 ms iv ts 6000 [] [] key1)) (Ok key1) = Err KEIncorrectKey.
  Proof. vm_compute. reflexivity. Qed.
  Example empty_payload_twofish :
    open (file_of (write OTwofish 196610 ms iv ts 6000 [] [] key1)) (Ok key1) = Ok (KDB 2, OTwofish, 6000, []).
  Proof. vm_compute. reflexivity. Qed.

  (* COUNTER-EXAMPLES: each hypothesis of [kdb_open_roundtrip] is needed *)
  (* a master seed of 15 bytes shifts every later field *)
  Example short_master_seed :
    open (file_of (write OAes256 196610 (take 15 ms) iv ts 6000 ex_gs ex_es key1)) (Ok key1) = Err KEIncorrectKey.
  Proof. vm_compute. reflexivity. Qed.
  Example short_iv :
    open (file_of (write OAes256 196610 ms (take 15 iv) ts 6000 ex_gs ex_es key1)) (Ok key1) = Err KEIncorrectKey.
  Proof. vm_compute. reflexivity. Qed.
  Example long_transform_seed :
    open (file_of (write OAes256 196610 ms iv (ts ++ [1]) 6000 ex_gs ex_es key1)) (Ok key1) <> Ok (KDB 2, OAes256, 6000, the_tree).
  Proof. vm_compute. discriminate. Qed.
  (* the rounds field is a u32: 2^32 + 5 is read back as 5 - another configuration and, with a real KDF,
     another key (the toy KDF only looks at the rounds modulo 256, so the file still opens) *)
  Example rounds_wrap :
    open (file_of (write OAes256 196610 ms iv ts (2 ^ 32 + 5) ex_gs ex_es key1)) (Ok key1)
    = Ok (KDB 2, OAes256, 5, the_tree).
  Proof. vm_compute. reflexivity. Qed.
  (* the count fields are u32 as well: 2^32 groups would be announced as none *)
  Example count_wrap y : le32 (le_enc 4 (2 ^ 32) ++ y) = 0.
  Proof. reflexivity. Qed.
  (* a flag word without a cipher bit *)
  Example no_cipher_bit :
    open (file_of (kdb_file_enc_flags sha256 kdf enc 1 OAes256 196610 ms iv ts 6000 ex_gs ex_es key1)) (Ok key1)
    = Err KEFixedCipherId.
  Proof. vm_compute. reflexivity. Qed.
  (* both cipher bits: AES wins; a Twofish file so flagged is not opened *)
  Example both_cipher_bits :
    open (file_of (kdb_file_enc_flags sha256 kdf enc 11 OTwofish 196610 ms iv ts 6000 ex_gs ex_es key1)) (Ok key1)
    <> Ok (KDB 2, OTwofish, 6000, the_tree).
  Proof. vm_compute. discriminate. Qed.
  (* a hash of 31 bytes: the header is one byte short and every later field is read at the wrong place *)
  Example short_hash :
    let sha31 m := take 31 (sha256 m) in
    kdb_open sha31 kdf dec (file_of (kdb_file_enc sha31 kdf enc OAes256 196610 ms iv ts 6000 ex_gs ex_es key1)) (Ok key1)
    <> Ok (KDB 2, OAes256, 6000, the_tree).
  Proof. vm_compute. discriminate. Qed.
  (* a cipher object that leaves something else than a PKCS#7 padding behind the plaintext *)
  Example foreign_tail :
    let dec' c k i ct := match dec OAes256 k i ct with Ok x => Ok (x ++ [5; 5; 5]) | r => r end in
    kdb_open sha256 kdf dec' (file_of (write OAes256 196610 ms iv ts 6000 ex_gs ex_es key1)) (Ok key1) = Err KEIncorrectKey.
  Proof. vm_compute. reflexivity. Qed.
  (* an entry naming no group *)
  Example unknown_group :
    open (file_of (write OAes256 196610 ms iv ts 6000 ex_gs [mkED 99 []] key1)) (Ok key1) = Err KEInvalidGroupId.
  Proof. vm_compute. reflexivity. Qed.
  (* a level jump *)
  Example bad_levels :
    open (file_of (write OAes256 196610 ms iv ts 6000 [mkGD 0 1 [65]; mkGD 2 2 [66]] [] key1)) (Ok key1) = Err KEInvalidLevel.
  Proof. vm_compute. reflexivity. Qed.

  (* arbitrary bytes: an error, never a panic *)
  Example garbage : open (zeros 200) (Ok key1) = Err KEFixedCipherId.
  Proof. vm_compute. reflexivity. Qed.
  Example truncated :
    open (take 300 (file_of (write OAes256 196610 ms iv ts 6000 ex_gs ex_es key1))) (Ok key1) = Err KEIncorrectKey.
  Proof. vm_compute. reflexivity. Qed.
  Example too_short : open (zeros 123) (Ok key1) = Err KEFixedHeader.
  Proof. vm_compute. reflexivity. Qed.

  (* Database::parse sends the file to parse_kdb *)
  Example dispatch : version_parse (file_of (write OTwofish 196610 ms iv ts 6000 ex_gs ex_es key2)) = Ok (KDB 9).
  Proof. vm_compute. reflexivity. Qed.
End ToyKdb.

Print Assumptions payload_enc_last_zero.
Print Assumptions kdb_unpad_ok.
Print Assumptions kdb_open_roundtrip_flags.
Print Assumptions kdb_open_roundtrip.
Print Assumptions kdb_open_roundtrip_attach.
Print Assumptions kdb_open_roundtrip_aes.
Print Assumptions kdb_open_roundtrip_twofish.
Print Assumptions kdb_open_wrong_key.
Print Assumptions kdb_file_wrong_key.
Print Assumptions kdb_open_empty_payload_aes.
Print Assumptions kdb_open_total.
Print Assumptions kdb_open_never_panics_never_hangs.
Print Assumptions kdb_file_enc_total.

(* Time stamps of a KDBX 3.1 document.

   The crate's writer (KDBX4 only) emits every time stamp as base64 of the seconds since year 1
   ([XmlTypes.fmt_time]); KDBX 3.1 files carry ISO-8601 texts ("2021-03-04T05:06:07Z").  The reader
   (parse_xml_timestamp = [XmlTypes.parse_time]) tries the ISO form first and falls back to base64.

   PART 1 (encoding invariance, for ARBITRARY event lists).  [time_variant rt evs] replaces the text t of
   every element with a time-stamp name (the five stamps of <Times>, DeletionTime, the *Changed stamps of
   <Meta>, and LastModificationTime of a custom-data item) by [rt t].  If [rt] does not change what
   [parse_time] answers, the whole reader answers the same: [parse_events_time_variant].  The proof is a
   simulation through every parser of XmlParse.v; it does not look at the writer.

   PART 2 (the ISO form).  [fmt_iso z] is the canonical 20-character text of the instant z;
   [to_iso t] re-encodes a text that the reader takes for an instant whose ISO text the reader takes for
   the SAME instant, and leaves every other text alone - so it satisfies the premise of part 1 by
   construction ([to_iso_time]).  [parse_iso_fmt_iso]: for every instant in 0001-01-01T00:00:00 ..
   9999-12-31T23:59:59 ([iso_range]) the ISO text IS read back as that instant, hence [to_iso] does produce
   it ([to_iso_fmt_time]). *)
From Coq Require Import Lia.
From KP Require Import Bytes Outcome LE LEFacts Utf8 Base64 Scalars XmlTypes XmlDump XmlParse XmlSpec XmlCodecProofs.
Local Open Scope outcome_scope.

(* ------------------------------------------------------------------------------------------ *)
(* the element names whose text is a time stamp wherever the reader looks at it *)
Definition time_names : list bytes :=
  [ s_CreationTime; s_LastModificationTime; s_LastAccessTime; s_LocationChanged; s_ExpiryTime;
    s_DeletionTime;
    s_DatabaseNameChanged; s_DatabaseDescriptionChanged; s_DefaultUserNameChanged; s_MasterKeyChanged;
    s_RecycleBinChanged; s_EntryTemplatesGroupChanged; s_SettingsChanged ].
Definition is_time_name (n : bytes) : bool := mem_bytes n time_names.

Section variant.
  Variable rt : bytes -> bytes.

  (* [flag]: the previous event opened an element with a time-stamp name *)
  Fixpoint ivf (flag : bool) (evs : list ev) : list ev :=
    match evs with
    | [] => []
    | EStart n a :: r => EStart n a :: ivf (is_time_name n) r
    | EChars t :: r => EChars (if flag then rt t else t) :: ivf false r
    | EEnd n :: r => EEnd n :: ivf false r
    | EErr :: r => EErr :: ivf false r
    end.
  Definition time_variant (evs : list ev) : list ev := ivf false evs.

  Lemma ivf_length evs : forall f, length (ivf f evs) = length evs.
  Proof. induction evs as [|[n a|n|t|] r IH]; intro f; cbn [ivf length]; try rewrite IH; reflexivity. Qed.

  (* ---------------------------------------------------------------------------------------- *)
  (* outcomes related: the same error, or values related *)
  Definition orel {X} (R : X -> X -> Prop) (x' x : outcome xerr X) : Prop :=
    match x', x with
    | Ok a', Ok a => R a' a
    | Err e', Err e => e' = e
    | Panic n', Panic n => n' = n
    | OutOfFuel, OutOfFuel => True
    | _, _ => False
    end.
  Definition sim (r' r : list ev) : Prop := exists f, r' = ivf f r.
  Definition R0 (a' a : list ev) : Prop := sim a' a.
  Definition R2 {A} (a' a : A * list ev) : Prop := fst a' = fst a /\ sim (snd a') (snd a).
  Definition R2w {A} (a' a : A * list ev) : Prop := sim (snd a') (snd a).
  Definition R3 {A} (a' a : A * list ev * bytes) : Prop :=
    fst (fst a') = fst (fst a) /\ snd a' = snd a /\ sim (snd (fst a')) (snd (fst a)).

  Lemma sim_ivf f r : sim (ivf f r) r.
  Proof. exists f. reflexivity. Qed.

  Lemma orel_bind {X Y} (R : X -> X -> Prop) (S : Y -> Y -> Prop) (x' x : outcome xerr X) (g : X -> outcome xerr Y) :
    orel R x' x -> (forall a' a, R a' a -> orel S (g a') (g a)) -> orel S (bind x' g) (bind x g).
  Proof.
    destruct x' as [a'|e'|n'|], x as [a|e|n|]; cbn [orel bind]; intros H Hg; try contradiction; try exact H.
    apply Hg. exact H.
  Qed.

  Lemma orel_err {X} (R : X -> X -> Prop) e : orel R (Err e) (Err e).
  Proof. reflexivity. Qed.

  Definition psim {A} (p : list ev -> bytes -> pres A) : Prop :=
    forall f evs ks, orel R3 (p (ivf f evs) ks) (p evs ks).
  (* a child handler is entered with the Start event of the name it was chosen by *)
  Definition hsim {St} (name : bytes) (h : handler St) : Prop :=
    forall acc a r ks, orel R3 (h acc (EStart name a :: ivf (is_time_name name) r) ks) (h acc (EStart name a :: r) ks).

  Lemma R3_intro {A} (v : A) r' r (k : bytes) : sim r' r -> R3 (v, r', k) (v, r, k).
  Proof. intro H. unfold R3. cbn [fst snd]. repeat split. exact H. Qed.

  (* ---------------------------------------------------------------------------------------- *)
  (* leaves *)
  Hypothesis rt_time : forall t, parse_time (rt t) = parse_time t.

  Lemma p_chars_sim {A} (conv : bytes -> outcome xerr A) f r :
    f = false \/ (forall t, conv (rt t) = conv t) -> orel R2 (p_chars conv (ivf f r)) (p_chars conv r).
  Proof using.
    intro H. destruct r as [|[n a|n|t|] r]; cbn [ivf p_chars]; try apply orel_err.
    assert (E : conv (if f then rt t else t) = conv t).
    { destruct H as [-> | H]; [reflexivity|]. destruct f; [apply H|reflexivity]. }
    rewrite E. destruct (conv t) as [v|e|n|]; cbn [bind orel]; try reflexivity.
    split; [reflexivity|apply sim_ivf].
  Qed.

  Lemma p_opt_chars_sim {A} (conv : bytes -> outcome xerr A) f r :
    f = false \/ (forall t, conv (rt t) = conv t) -> orel R2 (p_opt_chars conv (ivf f r)) (p_opt_chars conv r).
  Proof using.
    intro H. destruct r as [|[n a|n|t|] r]; cbn [ivf p_opt_chars orel]; try reflexivity;
      try (split; [reflexivity|cbn [snd]]).
    - exists f. reflexivity.
    - exists f. reflexivity.
    - assert (E : conv (if f then rt t else t) = conv t).
      { destruct H as [-> | H]; [reflexivity|]. destruct f; [apply H|reflexivity]. }
      rewrite E. destruct (conv t) as [v|e|n|]; cbn [bind orel]; try reflexivity.
      split; [reflexivity|apply sim_ivf].
    - exists f. reflexivity.
  Qed.

  (* SimpleTag entered at the Start event of [name] *)
  Lemma p_simple_at {A} (inner : list ev -> outcome xerr (A * list ev)) name a r :
    (forall r0, orel R2 (inner (ivf (is_time_name name) r0)) (inner r0)) ->
    orel R2 (p_simple inner (EStart name a :: ivf (is_time_name name) r)) (p_simple inner (EStart name a :: r)).
  Proof using.
    intro Hi. unfold p_simple. apply (orel_bind R2 R2); [apply Hi|].
    intros [v' r1'] [v r1] [Hv [f1 Hs]]. cbn [fst snd] in Hv, Hs. subst v' r1'.
    destruct r1 as [|[n2 a2|n2|t2|] r2]; cbn [ivf]; try apply orel_err.
    destruct (bytes_eqb n2 name); [|apply orel_err]. cbn [orel]. split; [reflexivity|apply sim_ivf].
  Qed.

  (* the same when the value may differ (it is dropped by the caller) *)
  Lemma p_simple_string_w f evs :
    orel R2w (p_simple (p_chars conv_string) (ivf f evs)) (p_simple (p_chars conv_string) evs).
  Proof using.
    unfold p_simple. destruct evs as [|[n a|n|t|] r]; cbn [ivf]; try apply orel_err.
    destruct r as [|[n1 a1|n1|t1|] r1]; cbn [ivf p_chars]; try apply orel_err.
    unfold conv_string. cbn [bind].
    destruct r1 as [|[n2 a2|n2|t2|] r2]; cbn [ivf]; try apply orel_err.
    destruct (bytes_eqb n2 n); [|apply orel_err]. cbn [orel]. unfold R2w. cbn [snd]. apply sim_ivf.
  Qed.

  Lemma hsim_simple {St A} name (inner : list ev -> outcome xerr (A * list ev)) (set : A -> St -> St) :
    (forall r0, orel R2 (inner (ivf (is_time_name name) r0)) (inner r0)) -> hsim name (h_simple inner set).
  Proof using.
    intros Hi acc a r ks. unfold h_simple. apply (orel_bind R2 R3); [apply p_simple_at; exact Hi|].
    intros [nv' r'] [nv r0] [Hv Hs]. cbn [fst snd] in Hv, Hs. subst nv'. cbn [orel]. apply R3_intro. exact Hs.
  Qed.

  Lemma hsim_simple_chars {St A} name (conv : bytes -> outcome xerr A) (set : A -> St -> St) :
    is_time_name name = false \/ (forall t, conv (rt t) = conv t) -> hsim name (h_simple (p_chars conv) set).
  Proof using. intro H. apply hsim_simple. intro r0. apply p_chars_sim. exact H. Qed.

  Lemma hsim_simple_opt {St A} name (conv : bytes -> outcome xerr A) (set : option A -> St -> St) :
    is_time_name name = false \/ (forall t, conv (rt t) = conv t) -> hsim name (h_simple (p_opt_chars conv) set).
  Proof using. intro H. apply hsim_simple. intro r0. apply p_opt_chars_sim. exact H. Qed.

  Lemma hsim_sub {St A} name (p : list ev -> bytes -> pres A) (set : A -> St -> St) :
    psim p -> hsim name (h_sub p set).
  Proof using.
    intros Hp acc a r ks. unfold h_sub.
    change (EStart name a :: ivf (is_time_name name) r) with (ivf false (EStart name a :: r)).
    apply (orel_bind R3 R3); [apply Hp|].
    intros [[v' r'] k'] [[v r0] k0] (Hv & Hk & Hs). cbn [fst snd] in Hv, Hk, Hs. subst v' k'.
    cbn [fst snd orel]. apply R3_intro. exact Hs.
  Qed.

  Lemma hsim_bad {St} name : hsim name (@h_bad St).
  Proof using. intros acc a r ks. apply orel_err. Qed.

  (* IgnoreSubfield never looks at a text *)
  Lemma skip_body_sim evs : forall d f, orel R0 (skip_body d (ivf f evs)) (skip_body d evs).
  Proof using.
    induction evs as [|[n a|n|t|] r IH]; intros d f; cbn [ivf skip_body].
    - cbn [orel]. exists false. reflexivity.
    - apply IH.
    - destruct d as [|d']; [cbn [orel]; apply sim_ivf|apply IH].
    - apply IH.
    - apply orel_err.
  Qed.

  Lemma hsim_ignore {St} name : hsim name (@h_ignore St).
  Proof using.
    intros acc a r ks. unfold h_ignore, p_ignore. apply (orel_bind R0 R3); [apply skip_body_sim|].
    intros r' r0 Hs. cbn [orel]. apply R3_intro. exact Hs.
  Qed.

  (* ---------------------------------------------------------------------------------------- *)
  (* the container loop *)
  Lemma p_loop_sim {St} close (child : bytes -> handler St) :
    (forall name, hsim name (child name)) ->
    forall n acc f evs ks, orel R3 (p_loop close child n acc (ivf f evs) ks) (p_loop close child n acc evs ks).
  Proof using.
    intro Hc. induction n as [|m IH]; intros acc f evs ks;
      destruct evs as [|[nm a|nm|t|] r]; cbn [ivf p_loop]; try apply orel_err; try exact I.
    - destruct (bytes_eqb nm close); [|apply orel_err]. cbn [orel]. apply R3_intro. apply sim_ivf.
    - apply (orel_bind R3 R3); [apply Hc|].
      intros [[v' r'] k'] [[v r0] k0] (Hv & Hk & [f0 Hs]). cbn [fst snd] in Hv, Hk, Hs. subst v' k' r'.
      cbn [fst snd]. apply IH.
    - destruct (bytes_eqb nm close); [|apply orel_err]. cbn [orel]. apply R3_intro. apply sim_ivf.
  Qed.

  Lemma p_element_sim {St} tag (init : St) (child : bytes -> handler St) n :
    (forall name, hsim name (child name)) -> psim (p_element tag init child n).
  Proof using.
    intros Hc f evs ks. unfold p_element.
    destruct evs as [|[nm a|nm|t|] r]; cbn [ivf]; try apply orel_err.
    destruct (bytes_eqb nm tag); [|apply orel_err]. apply p_loop_sim. exact Hc.
  Qed.

  (* ---------------------------------------------------------------------------------------- *)
  (* dispatch on the child name *)
  Ltac hs_leaf :=
    first
      [ apply hsim_simple_chars; first [left; reflexivity | right; exact rt_time]
      | apply hsim_simple_opt; first [left; reflexivity | right; exact rt_time]
      | apply hsim_sub; solve [eauto with psim]
      | apply hsim_ignore
      | apply hsim_bad ].
  Ltac dispatch :=
    repeat match goal with
           | |- hsim ?name (if bytes_eqb ?name ?s then _ else _) =>
             let E := fresh "E" in
             destruct (bytes_eqb name s) eqn:E;
             [apply XmlCodecProofs.bytes_eqb_eq in E; subst name; try hs_leaf|]
           end;
    try hs_leaf.

  (* Value *)
  Lemma p_value_sim : psim p_value.
  Proof using.
    intros f evs ks. unfold p_value.
    destruct evs as [|[tag attrs|nm|t|] r]; cbn [ivf]; try apply orel_err.
    destruct (bytes_eqb tag s_Value) eqn:E; [|apply orel_err].
    apply XmlCodecProofs.bytes_eqb_eq in E. subst tag. change (is_time_name s_Value) with false.
    destruct (attr_bool s_Protected attrs) as [protected|e|n|]; cbn [bind]; try reflexivity.
    apply (orel_bind R2 R3); [apply p_opt_chars_sim; left; reflexivity|].
    intros [c' r1'] [c r1] [Hc [f1 Hs]]. cbn [fst snd] in Hc, Hs. subst c' r1'.
    match goal with |- orel _ (bind ?x _) (bind ?x _) => destruct x as [[v ks1]|e|n|] end; cbn [bind]; try reflexivity.
    destruct r1 as [|[n2 a2|n2|t2|] r2]; cbn [ivf]; try apply orel_err.
    destruct (bytes_eqb n2 s_Value); [|apply orel_err]. cbn [orel]. apply R3_intro. apply sim_ivf.
  Qed.
  #[local] Hint Resolve p_value_sim : psim.

  (* Times: every child that is neither Expires nor UsageCount is a time stamp *)
  Lemma times_child_sim name : hsim name (times_child name).
  Proof using rt_time.
    unfold times_child. dispatch.
    intros acc a r ks. apply (orel_bind R2 R3).
    - apply p_simple_at. intro r0. apply p_chars_sim. right. exact rt_time.
    - intros [nv' r'] [nv r0] [Hv Hs]. cbn [fst snd] in Hv, Hs. subst nv'. cbn [orel]. apply R3_intro. exact Hs.
  Qed.
  Lemma p_times_sim n : psim (p_times n).
  Proof using rt_time. apply p_element_sim. exact times_child_sim. Qed.
  #[local] Hint Resolve p_times_sim : psim.

  (* CustomData *)
  Lemma cditem_child_sim name : hsim name (cditem_child name).
  Proof using rt_time. unfold cditem_child. dispatch. Qed.
  Lemma p_cditem_sim n : psim (p_cditem n).
  Proof using rt_time. apply p_element_sim. exact cditem_child_sim. Qed.
  #[local] Hint Resolve p_cditem_sim : psim.
  Lemma custom_data_child_sim n name : hsim name (custom_data_child n name).
  Proof using rt_time. unfold custom_data_child. dispatch. Qed.
  Lemma p_custom_data_sim n : psim (p_custom_data n).
  Proof using rt_time. apply p_element_sim. apply custom_data_child_sim. Qed.
  #[local] Hint Resolve p_custom_data_sim : psim.

  (* AutoType *)
  Lemma assoc_child_sim name : hsim name (assoc_child name).
  Proof using rt_time. unfold assoc_child. dispatch. Qed.
  Lemma p_assoc_sim n : psim (p_assoc n).
  Proof using rt_time. apply p_element_sim. exact assoc_child_sim. Qed.
  #[local] Hint Resolve p_assoc_sim : psim.
  Lemma autotype_child_sim n name : hsim name (autotype_child n name).
  Proof using rt_time. unfold autotype_child. dispatch. Qed.
  Lemma p_autotype_sim n : psim (p_autotype n).
  Proof using rt_time. apply p_element_sim. apply autotype_child_sim. Qed.
  #[local] Hint Resolve p_autotype_sim : psim.

  (* String *)
  Lemma string_field_child_sim name : hsim name (string_field_child name).
  Proof using rt_time. unfold string_field_child. dispatch. Qed.
  Lemma p_string_field_sim n : psim (p_string_field n).
  Proof using rt_time. apply p_element_sim. exact string_field_child_sim. Qed.
  #[local] Hint Resolve p_string_field_sim : psim.

  (* <Binary><Key>k</Key><Value Ref="r"/></Binary> of an entry: the key's text is dropped, the last event
     is not looked at *)
  Lemma p_binary_field_sim f evs : orel R0 (p_binary_field (ivf f evs)) (p_binary_field evs).
  Proof using.
    unfold p_binary_field.
    destruct evs as [|[nm a|nm|t|] r]; cbn [ivf]; try apply orel_err.
    destruct (bytes_eqb nm s_Binary); [|apply orel_err].
    apply (orel_bind R2w R0); [apply p_simple_string_w|].
    intros [v' r1'] [v r1] [f1 Hs]. cbn [snd] in Hs. subst r1'.
    destruct r1 as [|[n2 a2|n2|t2|] r2]; cbn [ivf]; try apply orel_err.
    destruct (bytes_eqb n2 s_Value); [|apply orel_err].
    destruct (attr_get s_Ref a2); [|apply orel_err].
    destruct r2 as [|[n3 a3|n3|t3|] r3]; cbn [ivf]; try apply orel_err.
    destruct (bytes_eqb n3 s_Value); [|apply orel_err].
    destruct r3 as [|[n4 a4|n4|t4|] r4]; cbn [ivf orel]; try reflexivity; apply sim_ivf.
  Qed.

  (* Entry / History *)
  Lemma history_child_sim pe name : psim pe -> hsim name (history_child pe name).
  Proof using. intro Hpe. unfold history_child. dispatch. Qed.

  Lemma entry_child_sim pe n name : psim pe -> hsim name (entry_child pe n name).
  Proof using rt_time.
    intro Hpe. unfold entry_child. dispatch.
    - (* Binary *)
      intros acc a r ks.
      change (EStart s_Binary a :: ivf (is_time_name s_Binary) r) with (ivf false (EStart s_Binary a :: r)).
      apply (orel_bind R0 R3); [apply p_binary_field_sim|].
      intros r' r0 Hs. cbn [orel]. apply R3_intro. exact Hs.
    - (* History *)
      apply hsim_sub. apply p_element_sim. intro nm. apply history_child_sim. exact Hpe.
  Qed.

  Lemma p_entry_sim fuel : psim (p_entry fuel).
  Proof using rt_time.
    induction fuel as [|f0 IH]; intros f evs ks; cbn [p_entry]; [exact I|].
    apply p_element_sim. intro name. apply entry_child_sim. exact IH.
  Qed.
  #[local] Hint Resolve p_entry_sim : psim.

  (* Group *)
  Lemma group_child_sim pg pe n name : psim pg -> psim pe -> hsim name (group_child pg pe n name).
  Proof using rt_time. intros Hpg Hpe. unfold group_child. dispatch. Qed.

  Lemma p_group_sim fuel : psim (p_group fuel).
  Proof using rt_time.
    induction fuel as [|f0 IH]; intros f evs ks; cbn [p_group]; [exact I|].
    apply p_element_sim. intro name. apply group_child_sim; [exact IH|apply p_entry_sim].
  Qed.
  #[local] Hint Resolve p_group_sim : psim.

  (* Meta *)
  Lemma memprot_child_sim name : hsim name (memprot_child name).
  Proof using rt_time. unfold memprot_child. dispatch. Qed.
  Lemma p_memprot_sim n : psim (p_memprot n).
  Proof using rt_time. apply p_element_sim. exact memprot_child_sim. Qed.
  #[local] Hint Resolve p_memprot_sim : psim.
  Lemma icon_child_sim name : hsim name (icon_child name).
  Proof using rt_time. unfold icon_child. dispatch. Qed.
  Lemma p_icon_sim n : psim (p_icon n).
  Proof using rt_time. apply p_element_sim. exact icon_child_sim. Qed.
  #[local] Hint Resolve p_icon_sim : psim.
  Lemma icons_child_sim n name : hsim name (icons_child n name).
  Proof using rt_time. unfold icons_child. dispatch. Qed.
  Lemma p_icons_sim n : psim (p_icons n).
  Proof using rt_time. apply p_element_sim. apply icons_child_sim. Qed.
  #[local] Hint Resolve p_icons_sim : psim.

  Section gunzip.
    Variable gunzip : bytes -> option bytes.

    (* <Binary ID= Compressed= Protected=>base64</Binary> of Meta: the close tag is not looked at *)
    Lemma p_binary_sim : psim (p_binary gunzip).
    Proof using.
      intros f evs ks. unfold p_binary.
      destruct evs as [|[nm attrs|nm|t|] r]; cbn [ivf]; try apply orel_err.
      destruct (bytes_eqb nm s_Binary) eqn:E; [|apply orel_err].
      apply XmlCodecProofs.bytes_eqb_eq in E. subst nm. change (is_time_name s_Binary) with false.
      destruct (attr_bool s_Compressed attrs) as [compressed|e|n|]; cbn [bind]; try reflexivity.
      destruct (attr_bool s_Protected attrs) as [protected|e|n|]; cbn [bind]; try reflexivity.
      apply (orel_bind R2 R3); [apply p_chars_sim; left; reflexivity|].
      intros [d' r1'] [d r1] [Hd [f1 Hs]]. cbn [fst snd] in Hd, Hs. subst d' r1'.
      destruct (of_option XBase64 (b64_decode d)) as [buf|e|n|]; cbn [bind]; try reflexivity.
      match goal with |- orel _ (bind ?x _) (bind ?x _) => destruct x as [content|e|n|] end; cbn [bind]; try reflexivity.
      destruct r1 as [|[n2 a2|n2|t2|] r2]; cbn [ivf orel]; try reflexivity; apply R3_intro; apply sim_ivf.
    Qed.
    #[local] Hint Resolve p_binary_sim : psim.

    Lemma binaries_child_sim name : hsim name (binaries_child gunzip name).
    Proof using. unfold binaries_child. dispatch. Qed.
    Lemma p_binaries_sim n : psim (p_binaries gunzip n).
    Proof using. apply p_element_sim. exact binaries_child_sim. Qed.
    #[local] Hint Resolve p_binaries_sim : psim.

    Lemma meta_child_sim n name : hsim name (meta_child gunzip n name).
    Proof using rt_time. unfold meta_child. dispatch. Qed.
    Lemma p_meta_sim n : psim (p_meta gunzip n).
    Proof using rt_time. apply p_element_sim. apply meta_child_sim. Qed.
    #[local] Hint Resolve p_meta_sim : psim.

    (* Root *)
    Lemma delobj_child_sim name : hsim name (delobj_child name).
    Proof using rt_time. unfold delobj_child. dispatch. Qed.
    Lemma p_delobj_sim n : psim (p_delobj n).
    Proof using rt_time. apply p_element_sim. exact delobj_child_sim. Qed.
    #[local] Hint Resolve p_delobj_sim : psim.
    Lemma deleted_child_sim n name : hsim name (deleted_child n name).
    Proof using rt_time. unfold deleted_child. dispatch. Qed.
    Lemma p_deleted_sim n : psim (p_deleted n).
    Proof using rt_time. apply p_element_sim. apply deleted_child_sim. Qed.
    #[local] Hint Resolve p_deleted_sim : psim.
    Lemma root_child_sim n name : hsim name (root_child n name).
    Proof using rt_time. unfold root_child. dispatch. Qed.
    Lemma p_root_sim n : psim (p_root n).
    Proof using rt_time. apply p_element_sim. apply root_child_sim. Qed.
    #[local] Hint Resolve p_root_sim : psim.
    Lemma keepass_child_sim n name : hsim name (keepass_child gunzip n name).
    Proof using rt_time. unfold keepass_child. dispatch. Qed.
    Lemma p_keepass_sim n : psim (p_keepass gunzip n).
    Proof using rt_time. apply p_element_sim. apply keepass_child_sim. Qed.

    (* ====================================================================================== *)
    (* ENCODING INVARIANCE: any event list, any key stream, every outcome (errors included) *)
    Theorem parse_events_time_variant evs ks :
      parse_events gunzip (time_variant evs) ks = parse_events gunzip evs ks.
    Proof using rt_time.
      unfold parse_events, time_variant. rewrite ivf_length.
      pose proof (p_keepass_sim (length evs) false evs ks) as H.
      destruct (p_keepass gunzip (length evs) (ivf false evs) ks) as [[[c' r'] k']|e'|n'|],
               (p_keepass gunzip (length evs) evs ks) as [[[c r] k]|e|n|];
        cbn [orel] in H; try contradiction; cbn [bind fst]; try (rewrite H; reflexivity); try reflexivity.
      destruct H as [Hc _]. cbn [fst] in Hc. rewrite Hc. reflexivity.
    Qed.
  End gunzip.
End variant.

(* ========================================================================================== *)
(* PART 2: the ISO text of an instant *)
Local Open Scope Z_scope.

(* civil date of a day number (days since 1970-01-01), proleptic Gregorian: the inverse of
   [days_from_civil] *)
Definition civil_from_days (days : Z) : Z * Z * Z :=
  let z := days + 719468 in
  let era := z / 146097 in
  let doe := z - era * 146097 in
  let yoe := (doe - doe / 1460 + doe / 36524 - doe / 146096) / 365 in
  let doy := doe - (365 * yoe + yoe / 4 - yoe / 100) in
  let mp := (5 * doy + 2) / 153 in
  let d := doy - (153 * mp + 2) / 5 + 1 in
  let m := if mp <? 10 then mp + 3 else mp - 9 in
  let y := yoe + era * 400 + (if m <=? 2 then 1 else 0) in
  (y, m, d).

Definition dig2 (n : Z) : bytes := [Z.to_N (48 + n / 10); Z.to_N (48 + n mod 10)].

Definition fmt_iso (t : Z) : bytes :=
  let days := t / 86400 in
  let secs := t mod 86400 in
  let '(y, m, d) := civil_from_days days in
  dig2 (y / 100) ++ dig2 (y mod 100) ++ [45%N] ++ dig2 m ++ [45%N] ++ dig2 d ++ [84%N]
  ++ dig2 (secs / 3600) ++ [58%N] ++ dig2 ((secs mod 3600) / 60) ++ [58%N] ++ dig2 (secs mod 60) ++ [90%N].

(* 0001-01-01T00:00:00 .. 9999-12-31T23:59:59 *)
Definition iso_min : Z := -62135596800.
Definition iso_max : Z := 253402300799.
Definition iso_range (t : Z) : Prop := iso_min <= t <= iso_max.

Definition opt_Z_eqb (a : option Z) (b : Z) : bool := match a with Some x => Z.eqb x b | None => false end.

(* re-encode a text the reader takes for an instant, if the reader takes the ISO text for the same instant *)
Definition to_iso (t : bytes) : bytes :=
  match parse_time t with
  | Ok z => if opt_Z_eqb (parse_iso (fmt_iso z)) z then fmt_iso z else t
  | _ => t
  end.

Lemma to_iso_time t : parse_time (to_iso t) = parse_time t.
Proof.
  unfold to_iso. destruct (parse_time t) as [z|e|n|] eqn:E; try exact E.
  destruct (parse_iso (fmt_iso z)) as [z'|] eqn:P; cbn [opt_Z_eqb]; [|exact E].
  destruct (Z.eqb_spec z' z) as [->|_]; [|exact E].
  unfold parse_time. rewrite P. reflexivity.
Qed.

Definition iso_variant : list ev -> list ev := time_variant to_iso.

Theorem parse_events_iso_variant gunzip evs ks :
  parse_events gunzip (iso_variant evs) ks = parse_events gunzip evs ks.
Proof. apply parse_events_time_variant. exact to_iso_time. Qed.

Lemma iso_variant_length evs : length (iso_variant evs) = length evs.
Proof. apply ivf_length. Qed.

(* ------------------------------------------------------------------------------------------ *)
(* the ISO text is read back: 0001-01-01T00:00:00 .. 9999-12-31T23:59:59 *)

(* a check of a boolean property on [lo, lo + 2^depth) by halving *)
Fixpoint range_ok (p : Z -> bool) (depth : nat) (lo : Z) : bool :=
  match depth with
  | O => p lo
  | S k => range_ok p k lo && range_ok p k (lo + 2 ^ Z.of_nat k)
  end.
Lemma range_ok_spec p depth : forall lo, range_ok p depth lo = true ->
  forall z, lo <= z < lo + 2 ^ Z.of_nat depth -> p z = true.
Proof.
  induction depth as [|k IH]; intros lo H z Hz.
  - cbn [range_ok] in H. change (2 ^ Z.of_nat 0) with 1 in Hz. replace z with lo by lia. exact H.
  - cbn [range_ok] in H. apply andb_true_iff in H. destruct H as [H1 H2].
    rewrite Nat2Z.inj_succ, Z.pow_succ_r in Hz by lia.
    destruct (Z.lt_ge_cases z (lo + 2 ^ Z.of_nat k)) as [L|L].
    + apply (IH lo H1). lia.
    + apply (IH _ H2). lia.
Qed.

(* the part of [civil_from_days] inside one 400-year era: year of era, month, day of a day of era *)
Definition doe_civil (doe : Z) : Z * Z * Z :=
  let yoe := (doe - doe / 1460 + doe / 36524 - doe / 146096) / 365 in
  let doy := doe - (365 * yoe + yoe / 4 - yoe / 100) in
  let mp := (5 * doy + 2) / 153 in
  let d := doy - (153 * mp + 2) / 5 + 1 in
  let m := if mp <? 10 then mp + 3 else mp - 9 in
  (yoe, m, d).

Lemma civil_from_days_doe days :
  civil_from_days days =
  let z := days + 719468 in
  let era := z / 146097 in
  let '(yoe, m, d) := doe_civil (z - era * 146097) in
  (yoe + era * 400 + (if m <=? 2 then 1 else 0), m, d).
Proof. reflexivity. Qed.

(* everything the proof needs about one day of an era, as a boolean; all 146097 days are checked by
   evaluation *)
Definition doe_ok (doe : Z) : bool :=
  let '(yoe, m, d) := doe_civil doe in
  let adj := if m <=? 2 then 1 else 0 in
  (0 <=? yoe) && (yoe <=? 399) && (1 <=? m) && (m <=? 12) && (1 <=? d) && (d <=? 31)
  && N.leb (Z.to_N d) (days_in_month (yoe + adj) (Z.to_N m))
  && (yoe * 365 + yoe / 4 - yoe / 100 + ((153 * (m + (if 2 <? m then -3 else 9)) + 2) / 5 + d - 1) =? doe)
  && ((doe <? 306) || (1 <=? yoe + adj))
  && ((146036 <? doe) || (yoe + adj <=? 399)).

Lemma doe_all_checked : range_ok (fun z => (146097 <=? z) || doe_ok z) 18 0 = true.
Proof. vm_compute. reflexivity. Qed.

Lemma doe_ok_all doe : 0 <= doe < 146097 -> doe_ok doe = true.
Proof.
  intro H. pose proof (range_ok_spec _ 18 0 doe_all_checked doe) as P. cbv beta in P.
  change (2 ^ Z.of_nat 18) with 262144 in P.
  assert (Hr : 0 <= doe < 0 + 262144) by lia. specialize (P Hr).
  apply orb_true_iff in P. destruct P as [P|P]; [apply Z.leb_le in P; lia|exact P].
Qed.

Lemma is_leap_era a era : is_leap (a + era * 400) = is_leap a.
Proof.
  unfold is_leap.
  replace ((a + era * 400) mod 4) with (a mod 4)
    by (replace (a + era * 400) with (a + (era * 100) * 4) by lia; symmetry; apply Z_mod_plus_full).
  replace ((a + era * 400) mod 100) with (a mod 100)
    by (replace (a + era * 400) with (a + (era * 4) * 100) by lia; symmetry; apply Z_mod_plus_full).
  rewrite Z_mod_plus_full. reflexivity.
Qed.

Lemma days_in_month_era a era m : days_in_month (a + era * 400) m = days_in_month a m.
Proof. unfold days_in_month. rewrite is_leap_era. reflexivity. Qed.

(* [civil_from_days] gives an existing date of which [days_from_civil] is the day number *)
Lemma civil_from_days_spec days y m d :
  -719162 <= days <= 2932896 ->
  civil_from_days days = (y, m, d) ->
  1 <= y <= 9999 /\ 1 <= m <= 12 /\ 1 <= d <= 31
  /\ N.leb (Z.to_N d) (days_in_month y (Z.to_N m)) = true
  /\ days_from_civil y m d = days.
Proof.
  intros Hd Hc. rewrite civil_from_days_doe in Hc. cbv zeta in Hc.
  set (z := days + 719468) in *. set (era := z / 146097) in *. set (doe := z - era * 146097) in *.
  assert (Hz : 306 <= z <= 3652364) by (unfold z; lia).
  assert (Hera : 0 <= era <= 24).
  { unfold era. split; [apply Z.div_pos; lia|]. assert (z / 146097 < 25) by (apply Z.div_lt_upper_bound; lia). lia. }
  assert (Hdoe : 0 <= doe < 146097).
  { unfold doe, era. pose proof (Z.mod_pos_bound z 146097 ltac:(lia)) as B. rewrite Z.mod_eq in B by lia. lia. }
  pose proof (doe_ok_all doe Hdoe) as Hok. unfold doe_ok in Hok.
  destruct (doe_civil doe) as [[yoe m0] d0]. injection Hc as Hy Hm Hd0. subst m0 d0.
  set (adj := if m <=? 2 then 1 else 0) in *.
  repeat (apply andb_true_iff in Hok; let H := fresh "K" in destruct Hok as [Hok H]).
  apply Z.leb_le in Hok, K7, K6, K5, K4, K3. apply Z.eqb_eq in K1.
  assert (Hy1 : era = 0 -> 1 <= yoe + adj).
  { intro E0. apply orb_true_iff in K0. destruct K0 as [L|L]; [|apply Z.leb_le in L; exact L].
    apply Z.ltb_lt in L. exfalso. unfold doe in L. lia. }
  assert (Hy2 : era = 24 -> yoe + adj <= 399).
  { intro E24. apply orb_true_iff in K. destruct K as [L|L]; [|apply Z.leb_le in L; exact L].
    apply Z.ltb_lt in L. exfalso. unfold doe in L. lia. }
  assert (Hadj : 0 <= adj <= 1) by (unfold adj; destruct (m <=? 2); lia).
  assert (Hyear : y = (yoe + adj) + era * 400) by lia.
  split; [lia|]. split; [lia|]. split; [lia|]. split.
  { rewrite Hyear, days_in_month_era. exact K2. }
  unfold days_from_civil. cbv zeta.
  assert (Hy' : (if m <=? 2 then y - 1 else y) = yoe + era * 400).
  { unfold adj in Hyear. destruct (m <=? 2); lia. }
  rewrite Hy'.
  assert (Hdiv : (yoe + era * 400) / 400 = era).
  { symmetry. apply (Z.div_unique (yoe + era * 400) 400 era yoe); lia. }
  rewrite Hdiv. replace (yoe + era * 400 - era * 400) with yoe by lia.
  rewrite K1. unfold doe, z. lia.
Qed.

(* two decimal digits *)
Definition dig2_ok (n : Z) : bool :=
  match digit2 (Z.to_N (48 + n / 10)) (Z.to_N (48 + n mod 10)) with
  | Some v => N.eqb v (Z.to_N n)
  | None => false
  end.
Lemma dig2_all_checked : range_ok (fun n => (100 <=? n) || dig2_ok n) 7 0 = true.
Proof. vm_compute. reflexivity. Qed.
Lemma digit2_dig2 n : 0 <= n <= 99 ->
  digit2 (Z.to_N (48 + n / 10)) (Z.to_N (48 + n mod 10)) = Some (Z.to_N n).
Proof.
  intro H. pose proof (range_ok_spec _ 7 0 dig2_all_checked n) as P. cbv beta in P.
  change (2 ^ Z.of_nat 7) with 128 in P. assert (Hr : 0 <= n < 0 + 128) by lia. specialize (P Hr).
  apply orb_true_iff in P. destruct P as [P|P]; [apply Z.leb_le in P; lia|].
  unfold dig2_ok in P. destruct (digit2 _ _) as [v|]; [|discriminate P]. apply N.eqb_eq in P. rewrite P. reflexivity.
Qed.

(* the text of [fmt_iso] in terms of its numeric fields, and what [parse_iso] does with such a text *)
Definition iso_text (ya yb m d h mi s : Z) : bytes :=
  dig2 ya ++ dig2 yb ++ [45%N] ++ dig2 m ++ [45%N] ++ dig2 d ++ [84%N]
  ++ dig2 h ++ [58%N] ++ dig2 mi ++ [58%N] ++ dig2 s ++ [90%N].

Lemma parse_iso_text ya yb m d h mi s :
  0 <= ya <= 99 -> 0 <= yb <= 99 -> 0 <= m <= 99 -> 0 <= d <= 99 -> 0 <= h <= 99 -> 0 <= mi <= 99 -> 0 <= s <= 99 ->
  parse_iso (iso_text ya yb m d h mi s) =
  let y := Z.of_N (Z.to_N ya * 100 + Z.to_N yb) in
  if (N.leb 1 (Z.to_N m) && N.leb (Z.to_N m) 12 && N.leb 1 (Z.to_N d) && N.leb (Z.to_N d) (days_in_month y (Z.to_N m))
      && N.ltb (Z.to_N h) 24 && N.ltb (Z.to_N mi) 60 && N.leb (Z.to_N s) 60)%bool
  then Some (days_from_civil y (Z.of_N (Z.to_N m)) (Z.of_N (Z.to_N d)) * 86400
             + Z.of_N (Z.to_N h) * 3600 + Z.of_N (Z.to_N mi) * 60 + Z.of_N (N.min (Z.to_N s) 59))
  else None.
Proof.
  intros Hya Hyb Hm Hd Hh Hmi Hs.
  unfold iso_text, dig2. cbn [app]. unfold parse_iso. cbn [length Nat.eqb negb].
  rewrite !digit2_dig2 by assumption. reflexivity.
Qed.

Lemma iso_range_days t : iso_range t -> -719162 <= t / 86400 <= 2932896.
Proof.
  unfold iso_range, iso_min, iso_max. intro Ht. split; [apply Z.div_le_lower_bound; lia|].
  assert (t / 86400 < 2932897) by (apply Z.div_lt_upper_bound; lia). lia.
Qed.

Theorem parse_iso_fmt_iso t : iso_range t -> parse_iso (fmt_iso t) = Some t.
Proof.
  intro Ht. pose proof (iso_range_days t Ht) as Hdays.
  unfold iso_range, iso_min, iso_max in Ht. unfold fmt_iso. cbv zeta.
  set (days := t / 86400) in *. set (secs := t mod 86400).
  assert (Hsecs : 0 <= secs < 86400) by (apply Z.mod_pos_bound; lia).
  assert (Ht' : t = days * 86400 + secs).
  { unfold days, secs. rewrite Z.mul_comm. apply Z.div_mod. lia. }
  destruct (civil_from_days days) as [[y m] d] eqn:Ec.
  destruct (civil_from_days_spec days y m d Hdays Ec) as (Hy & Hm & Hd & Hdim & Hciv).
  change (dig2 (y / 100) ++ dig2 (y mod 100) ++ [45%N] ++ dig2 m ++ [45%N] ++ dig2 d ++ [84%N]
          ++ dig2 (secs / 3600) ++ [58%N] ++ dig2 (secs mod 3600 / 60) ++ [58%N] ++ dig2 (secs mod 60) ++ [90%N])
    with (iso_text (y / 100) (y mod 100) m d (secs / 3600) (secs mod 3600 / 60) (secs mod 60)).
  assert (Hya : 0 <= y / 100 <= 99).
  { split; [apply Z.div_pos; lia|]. assert (y / 100 < 100) by (apply Z.div_lt_upper_bound; lia). lia. }
  assert (Hyb : 0 <= y mod 100 < 100) by (apply Z.mod_pos_bound; lia).
  assert (Hh : 0 <= secs / 3600 <= 23).
  { split; [apply Z.div_pos; lia|]. assert (secs / 3600 < 24) by (apply Z.div_lt_upper_bound; lia). lia. }
  assert (Hr : 0 <= secs mod 3600 < 3600) by (apply Z.mod_pos_bound; lia).
  assert (Hmi : 0 <= secs mod 3600 / 60 <= 59).
  { split; [apply Z.div_pos; lia|]. assert (secs mod 3600 / 60 < 60) by (apply Z.div_lt_upper_bound; lia). lia. }
  assert (Hs : 0 <= secs mod 60 < 60) by (apply Z.mod_pos_bound; lia).
  rewrite parse_iso_text by lia. cbv zeta.
  assert (Ey : Z.of_N (Z.to_N (y / 100) * 100 + Z.to_N (y mod 100)) = y).
  { pose proof (Z.div_mod y 100 ltac:(lia)) as Dy. lia. }
  rewrite Ey. rewrite !Z2N.id by lia. rewrite Hdim, Hciv.
  assert (C : (N.leb 1 (Z.to_N m) && N.leb (Z.to_N m) 12 && N.leb 1 (Z.to_N d) && true
               && N.ltb (Z.to_N (secs / 3600)) 24 && N.ltb (Z.to_N (secs mod 3600 / 60)) 60
               && N.leb (Z.to_N (secs mod 60)) 60)%bool = true).
  { repeat (apply andb_true_iff; split); try reflexivity;
      first [apply N.leb_le; lia | apply N.ltb_lt; lia]. }
  rewrite C. f_equal.
  replace (N.min (Z.to_N (secs mod 60)) 59) with (Z.to_N (secs mod 60)) by lia.
  rewrite Z2N.id by lia.
  pose proof (Z.div_mod secs 3600 ltac:(lia)) as D1.
  pose proof (Z.div_mod (secs mod 3600) 60 ltac:(lia)) as D2.
  assert (D3 : secs mod 60 = (secs mod 3600) mod 60).
  { rewrite (Z.div_mod secs 3600) at 1 by lia.
    replace (3600 * (secs / 3600) + secs mod 3600) with (secs mod 3600 + (60 * (secs / 3600)) * 60) by lia.
    apply Z_mod_plus_full. }
  lia.
Qed.

Lemma iso_range_ts_ok t : iso_range t -> ts_ok t = true.
Proof.
  unfold iso_range, iso_min, iso_max, ts_ok, ts_min, ts_max. intro H.
  apply andb_true_iff. split; apply Z.leb_le; lia.
Qed.

(* the ISO text is not blank: the writer does emit it as a Characters event *)
Lemma fmt_iso_not_ws t : iso_range t -> ws_only (fmt_iso t) = false.
Proof.
  intro Ht. pose proof (iso_range_days t Ht) as Hdays. unfold fmt_iso. cbv zeta.
  destruct (civil_from_days (t / 86400)) as [[y m] d] eqn:Ec.
  destruct (civil_from_days_spec _ y m d Hdays Ec) as (Hy & _).
  unfold dig2 at 1. cbn [app]. rewrite ws_only_cons.
  assert (Hq : 0 <= y / 100 / 10) by (apply Z.div_pos; [apply Z.div_pos; lia|lia]).
  replace (is_ws (Z.to_N (48 + y / 100 / 10))) with false; [reflexivity|].
  unfold is_ws. symmetry. repeat (apply orb_false_iff; split); apply N.eqb_neq; lia.
Qed.

(* within the range, [to_iso] does turn the writer's base64 text into the ISO text *)
Theorem to_iso_fmt_time t : iso_range t -> to_iso (fmt_time t) = fmt_iso t.
Proof.
  intro H. unfold to_iso. rewrite (parse_time_fmt t (iso_range_ts_ok t H)).
  rewrite (parse_iso_fmt_iso t H). cbn [opt_Z_eqb]. rewrite Z.eqb_refl. reflexivity.
Qed.

(* and the ISO text is read as the instant *)
Corollary parse_time_fmt_iso t : iso_range t -> parse_time (fmt_iso t) = Ok t.
Proof. intro H. unfold parse_time. rewrite (parse_iso_fmt_iso t H). reflexivity. Qed.

(* examples; beyond year 9999 the canonical 20-character form does not exist and [to_iso] keeps the base64 text *)
Example fmt_iso_epoch : fmt_iso 0 = [49;57;55;48;45;48;49;45;48;49;84;48;48;58;48;48;58;48;48;90]%N.  (* 1970-01-01T00:00:00Z *)
Proof. vm_compute. reflexivity. Qed.
Example fmt_iso_min : fmt_iso iso_min = [48;48;48;49;45;48;49;45;48;49;84;48;48;58;48;48;58;48;48;90]%N.  (* 0001-01-01T00:00:00Z *)
Proof. vm_compute. reflexivity. Qed.
Example fmt_iso_max : fmt_iso iso_max = [57;57;57;57;45;49;50;45;51;49;84;50;51;58;53;57;58;53;57;90]%N.  (* 9999-12-31T23:59:59Z *)
Proof. vm_compute. reflexivity. Qed.
Example fmt_iso_leap_day : fmt_iso 1709210096 = [50;48;50;52;45;48;50;45;50;57;84;49;50;58;51;52;58;53;54;90]%N.  (* 2024-02-29T12:34:56Z *)
Proof. vm_compute. reflexivity. Qed.
Example year_10000_not_iso : parse_iso (fmt_iso (iso_max + 1)) = None /\ to_iso (fmt_time (iso_max + 1)) = fmt_time (iso_max + 1).
Proof. vm_compute. split; reflexivity. Qed.
(* year 0000 is outside [iso_range] but its text happens to be read back (the reader has no lower bound on the
   year), so the self-checking [to_iso] re-encodes it as well: 0000-12-31T23:59:59Z *)
Example year_0_is_iso :
  to_iso (fmt_time (iso_min - 1)) = [48;48;48;48;45;49;50;45;51;49;84;50;51;58;53;57;58;53;57;90]%N.
Proof. vm_compute. reflexivity. Qed.
(* a text that is not a time stamp at all is left alone *)
Example to_iso_other : to_iso [104; 101; 108; 108; 111]%N = [104; 101; 108; 108; 111]%N.
Proof. vm_compute. reflexivity. Qed.

Print Assumptions parse_events_time_variant.
Print Assumptions parse_events_iso_variant.
Print Assumptions parse_iso_fmt_iso.
Print Assumptions to_iso_fmt_time.
Print Assumptions fmt_iso_not_ws.

(* DatabaseVersion::parse (src/format/mod.rs). *)
From KP Require Import Bytes Outcome LE.
Local Open Scope N_scope.

Inductive dbversion := KDB (minor : N) | KDB2 (minor : N) | KDB3 (minor : N) | KDB4 (minor : N).
Inductive verr := InvalidKDBXIdentifier | InvalidKDBXVersion.

Definition kdbx_identifier : bytes := [3; 217; 162; 154].      (* 03 d9 a2 9a *)
Definition keepass_1_id : N := 3041655653.                     (* 0xb54bfb65 *)
Definition keepass_2_id : N := 3041655654.
Definition keepass_latest_id : N := 3041655655.
Definition version_header_size : nat := 12.

Definition version_parse (data : bytes) : outcome verr dbversion :=
  if Nat.ltb (length data) version_header_size then Err InvalidKDBXIdentifier
  else if negb (bytes_eqb (take 4 data) kdbx_identifier) then Err InvalidKDBXIdentifier
  else
    let version := le_dec (take 4 (drop 4 data)) in
    let minor := le_dec (take 2 (drop 8 data)) in
    let major := le_dec (take 2 (drop 10 data)) in
    if N.eqb version keepass_1_id then Ok (KDB minor)
    else if N.eqb version keepass_2_id then Ok (KDB2 minor)
    else if N.eqb version keepass_latest_id && N.eqb major 3 then Ok (KDB3 minor)
    else if N.eqb version keepass_latest_id && N.eqb major 4 then Ok (KDB4 minor)
    else Err InvalidKDBXVersion.

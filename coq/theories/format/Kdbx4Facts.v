(* First facts about the KDBX4 framing model that follow by unfolding the writer (C08, C09). *)
From KP Require Import Bytes Outcome LE Version Kdbx4.
Local Open Scope N_scope.

Section facts.
  Variable sha256 sha512 : bytes -> bytes.
  Variable hmac256 : bytes -> bytes -> bytes.
  Variable kdf : kdfcfg -> bytes -> bytes -> res bytes.
  Variable outer_enc : ocipher -> bytes -> bytes -> bytes -> res bytes.
  Variable compress : compression -> bytes -> res bytes.

  Notation dump4 := (dump4 sha256 sha512 hmac256 kdf outer_enc compress).

  (* C09: the four draws are placed verbatim: master seed and IV in their outer header fields, the
     KDF seed is the seed the key derivation uses, the inner key is in the inner header *)
  Theorem dump4_places_draws cfg d vd els atts xml file :
    dump4 cfg d vd els atts xml = Ok file ->
    exists minor tail,
      c_version cfg = KDB4 minor /\
      file = outer_header_dump minor (c_outer cfg) (c_compression cfg) (d_iv d) (d_master_seed d) vd ++ tail.
  Proof.
    unfold Kdbx4.dump4. destruct (c_version cfg) as [m|m|m|minor]; try discriminate.
    destruct els as [e| | |]; cbn [bind]; try discriminate.
    destruct (kdf _ _ _) as [t| | |]; cbn [bind]; try discriminate.
    destruct (negb _); [discriminate|].
    destruct (compress _ _) as [c| | |]; cbn [bind]; try discriminate.
    destruct (outer_enc _ _ _ _) as [enc| | |]; cbn [bind]; try discriminate.
    intro H. injection H as <-. exists minor. eexists. split; reflexivity.
  Qed.

  (* ... where the header is, field by field: *)
  Lemma outer_header_layout minor c z iv seed vd :
    outer_header_dump minor c z iv seed vd =
    version_dump minor
    ++ field 2 (ocipher_id c)
    ++ field 3 (le_enc 4 (compression_id z))
    ++ field 7 iv
    ++ field 4 seed
    ++ field 11 (vd_dump vd)
    ++ field 0 [].
  Proof. reflexivity. Qed.

  (* the plaintext of the payload begins with the inner header carrying the inner stream key draw *)
  Theorem dump4_inner_key cfg d vd els atts xml file :
    dump4 cfg d vd els atts xml = Ok file ->
    exists minor transformed compressed encrypted,
      c_version cfg = KDB4 minor /\
      compress (c_compression cfg) (inner_header_dump (c_inner cfg) (d_inner_key d) atts ++ xml) = Ok compressed /\
      outer_enc (c_outer cfg) (master_key_of sha256 (d_master_seed d) transformed) (d_iv d) compressed = Ok encrypted /\
      exists els', els = Ok els' /\ kdf (c_kdf cfg) (d_kdf_seed d) (composite_key sha256 els') = Ok transformed.
  Proof.
    unfold Kdbx4.dump4. destruct (c_version cfg) as [m|m|m|minor]; try discriminate.
    destruct els as [e| | |]; cbn [bind]; try discriminate.
    destruct (kdf _ _ _) as [t| | |] eqn:Ek; cbn [bind]; try discriminate.
    destruct (negb _); [discriminate|].
    destruct (compress _ _) as [c| | |] eqn:Ec; cbn [bind]; try discriminate.
    destruct (outer_enc _ _ _ _) as [enc| | |] eqn:Ee; cbn [bind]; try discriminate.
    intros _. exists minor, t, c, enc. repeat split; auto. exists e. auto.
  Qed.

  (* C08: database content (attachments, XML) reaches the file only through the outer cipher:
     two contents whose compressed payloads encrypt to the same bytes give identical files *)
  Theorem dump4_only_through_cipher cfg d vd els atts1 xml1 atts2 xml2 c1 c2 :
    compress (c_compression cfg) (inner_header_dump (c_inner cfg) (d_inner_key d) atts1 ++ xml1) = Ok c1 ->
    compress (c_compression cfg) (inner_header_dump (c_inner cfg) (d_inner_key d) atts2 ++ xml2) = Ok c2 ->
    (forall key iv, outer_enc (c_outer cfg) key iv c1 = outer_enc (c_outer cfg) key iv c2) ->
    dump4 cfg d vd els atts1 xml1 = dump4 cfg d vd els atts2 xml2.
  Proof.
    intros H1 H2 He. unfold Kdbx4.dump4. destruct (c_version cfg); try reflexivity.
    destruct els as [e| | |]; cbn [bind]; try reflexivity.
    destruct (kdf _ _ _) as [t| | |]; cbn [bind]; try reflexivity.
    destruct (negb _); [reflexivity|].
    rewrite H1, H2. cbn [bind]. rewrite He. reflexivity.
  Qed.

  (* everything after the header, its hash and its MAC is the block framing of the ciphertext *)
  Theorem dump4_payload_is_ciphertext cfg d vd els atts xml file :
    dump4 cfg d vd els atts xml = Ok file ->
    exists header transformed encrypted,
      file = header ++ sha256 header
             ++ header_mac sha512 hmac256 (hmac_key_of sha512 (d_master_seed d) transformed) header
             ++ write_blocks sha512 hmac256 encrypted (hmac_key_of sha512 (d_master_seed d) transformed).
  Proof.
    unfold Kdbx4.dump4. destruct (c_version cfg) as [m|m|m|minor]; try discriminate.
    destruct els as [e| | |]; cbn [bind]; try discriminate.
    destruct (kdf _ _ _) as [t| | |]; cbn [bind]; try discriminate.
    destruct (negb _); [discriminate|].
    destruct (compress _ _) as [c| | |]; cbn [bind]; try discriminate.
    destruct (outer_enc _ _ _ _) as [enc| | |]; cbn [bind]; try discriminate.
    intro H. injection H as <-.
    exists (outer_header_dump minor (c_outer cfg) (c_compression cfg) (d_iv d) (d_master_seed d) vd), t, enc.
    reflexivity.
  Qed.
End facts.

(* the draws requested, in order: 32, the cipher's IV size, the inner cipher's key size, 32 *)
Theorem draw_sizes_spec cfg :
  draw_sizes cfg = [32; iv_size (c_outer cfg); ikey_size (c_inner cfg); 32]%nat
  /\ (iv_size (c_outer cfg) = 12 \/ iv_size (c_outer cfg) = 16)%nat
  /\ (ikey_size (c_inner cfg) = 1 \/ ikey_size (c_inner cfg) = 32)%nat.
Proof.
  split; [reflexivity|]. split.
  - destruct (c_outer cfg); cbn; auto.
  - destruct (c_inner cfg); cbn; auto.
Qed.

(* without key elements (empty credentials) nothing is ever returned *)
Theorem decrypt4_no_credentials sha256 sha512 hmac256 kdf outer_dec decompress file e r :
  decrypt4 sha256 sha512 hmac256 kdf outer_dec decompress file (Err e) <> Ok r.
Proof.
  unfold decrypt4. destruct (parse_outer_header file) as [[[v h] hlen]| | |]; cbn [bind]; try discriminate.
  destruct (Nat.ltb _ _); [discriminate|].
  destruct (negb _); [discriminate|]. cbn [bind]. discriminate.
Qed.

(* KDB payload reader (C02): the end-to-end statements.
   Specification vocabulary: KdbSpec.v (nothing there mentions the reader's stack machine).
   Groups section: KdbGroups.v ([record_enc], [parse_groups_ok], [parse_groups_bad_level], [parse_groups_total]).
   Entries section: KdbEntries.v ([parse_entries_ok], [parse_entries_bad_gid], [parse_entries_total]).
   Here: [parse_db_never_panics], [parse_db_total] (all inputs); [parse_db_ok] (what a conforming writer
   lays out is read back exactly), [group_index_facts], [parse_db_ok_distinct] (with pairwise distinct group
   ids, the i-th group receives exactly the entries naming its id); [attach_by_name_refuted]; examples. *)
From Coq Require Import Lia.
From KP Require Import Bytes Outcome LE LEFacts Version Kdbx4 Kdbx4Proofs Key Kdb KdbSpec KdbGroups KdbEntries.
Local Open Scope N_scope.
Local Open Scope outcome_scope.

(* ---------- all inputs ---------- *)
Theorem parse_db_never_panics ng ne payload :
  match parse_db ng ne payload with Panic _ => False | OutOfFuel => False | _ => True end.
Proof.
  unfold parse_db. pose proof (parse_groups_total ng payload) as H.
  destruct (parse_groups ng payload) as [[[root m] rest]|e|site|]; cbn [bind]; try exact H.
  destruct H as [Hm _].
  assert (Hv : paths_valid_in m root).
  { intros k p Hin. apply forest_paths_valid. exact (Hm k p Hin). }
  pose proof (parse_entries_total ne m root rest Hv) as Ht.
  destruct (parse_entries ne m root rest); try exact I; exact Ht.
Qed.

Theorem parse_db_total ng ne payload :
  (exists root, parse_db ng ne payload = Ok root) \/ (exists e, parse_db ng ne payload = Err e).
Proof.
  pose proof (parse_db_never_panics ng ne payload) as H.
  destruct (parse_db ng ne payload) as [root|e|site|]; try contradiction.
  - left. exists root. reflexivity.
  - right. exists e. reflexivity.
Qed.

(* ---------- the map [parse_groups] builds ---------- *)
Lemma gm_paths_valid ids root : paths_valid (gm_spec ids (forest_paths root)) root.
Proof. intros k p Hg. apply forest_paths_valid. apply (gm_spec_in ids _ k p). apply map_get_in. exact Hg. Qed.

Lemma gm_paths_nonempty ids root k p : map_get k (gm_spec ids (forest_paths root)) = Some p -> p <> [].
Proof. intro Hg. apply (forest_paths_nonempty root). apply (gm_spec_in ids _ k p). apply map_get_in. exact Hg. Qed.

Lemma gm_spec_some ids : forall ps k,
  length ids = length ps -> In k ids -> map_get k (gm_spec ids ps) <> None.
Proof.
  induction ids as [|k' ids IH] using rev_ind; intros ps k Hl Hin; [destruct Hin|].
  destruct ps as [|p' ps _] using rev_ind; [rewrite app_length in Hl; cbn [length] in Hl; lia|].
  rewrite !app_length in Hl. cbn [length] in Hl.
  rewrite gm_spec_snoc by lia. rewrite map_get_insert.
  destruct (N.eqb k k') eqn:E; [discriminate|].
  apply IH; [lia|]. apply in_app_or in Hin. destruct Hin as [Hin|[Hk|[]]]; [exact Hin|].
  subst k'. rewrite N.eqb_refl in E. discriminate E.
Qed.

(* ---------- groups-only forests: every children list consists of sub-groups ---------- *)
Lemma groups_only_nth t : forall i n, groups_only t = true -> nth_error t i = Some n -> groups_only_node n = true.
Proof.
  unfold groups_only. induction t as [|x t IH]; intros [|i] n G H; try discriminate H;
    cbn [forallb] in G; apply andb_true_iff in G; destruct G as [G1 G2].
  - injection H as <-. exact G1.
  - exact (IH i n G2 H).
Qed.

Lemma groups_only_children p : forall t c, groups_only t = true -> children_at p t = Some c -> groups_only c = true.
Proof.
  induction p as [|i p IH]; intros t c G H.
  - injection H as <-. exact G.
  - cbn [children_at] in H. destruct (nth_error t i) as [[name ci|f]|] eqn:En; try discriminate H.
    apply (IH ci c); [|exact H]. exact (groups_only_nth t i _ G En).
Qed.

Lemma groups_only_tags c : groups_only c = true -> map tag c = map (fun _ => None) c.
Proof.
  unfold groups_only. induction c as [|[name ci|f] c IH]; intro G; [reflexivity| |discriminate G].
  cbn [forallb] in G. apply andb_true_iff in G. destruct G as [_ G]. cbn [map tag]. rewrite IH by exact G. reflexivity.
Qed.

(* ---------- what a conforming writer lays out is read back exactly ---------- *)
Theorem parse_db_ok gs es :
  valid_levels gs = true -> forallb gdesc_ok gs = true -> forallb edesc_ok es = true ->
  (forall e, In e es -> In (ed_gid e) (map gd_gid gs)) ->
  exists root m root',
    parse_groups (N.of_nat (length gs)) (payload_enc gs es) = Ok (root, m, concat (map entry_enc es)) /\
    parse_db (N.of_nat (length gs)) (N.of_nat (length es)) (payload_enc gs es) = Ok root' /\
    (* the groups *)
    preorder 0 root = map lvname gs /\ groups_only root = true /\
    m = gm_spec (map gd_gid gs) (forest_paths root) /\
    (* the entries *)
    root' = attach_entries m root es /\
    strip_entries root' = root /\
    preorder 0 root' = map lvname gs /\
    map tag root' = map (fun _ => None) root /\
    (forall p c, children_at p root = Some c ->
       exists c', children_at p root' = Some c' /\
                  map tag c' = map (fun _ => None) c ++ map (fun e => Some (entry_fields e)) (entries_for m p es)).
Proof.
  intros Hlv Hgs Hes Hids.
  destruct (parse_groups_ok gs (concat (map entry_enc es)) Hlv Hgs) as [root [m [Hpg [Hpre [Hgo Hm]]]]].
  exists root, m, (attach_entries m root es).
  assert (Hv : paths_valid m root) by (rewrite Hm; apply gm_paths_valid).
  assert (Hstrip : strip_entries (attach_entries m root es) = root).
  { rewrite attach_entries_strip by exact Hv. apply strip_groups_only. exact Hgo. }
  split; [exact Hpg|]. split.
  { unfold parse_db. unfold payload_enc in Hpg |- *. rewrite Hpg. cbn [bind].
    apply parse_entries_ok; [exact Hv| |exact Hes].
    intros e He. rewrite Hm. apply gm_spec_some; [|exact (Hids e He)].
    rewrite forest_paths_length, Hpre, !map_length. reflexivity. }
  split; [exact Hpre|]. split; [exact Hgo|]. split; [exact Hm|]. split; [reflexivity|]. split; [exact Hstrip|].
  split; [rewrite <- preorder_strip, Hstrip; exact Hpre|].
  split.
  { rewrite attach_entries_top; [apply groups_only_tags; exact Hgo|exact Hv|].
    intros k p Hg. rewrite Hm in Hg. exact (gm_paths_nonempty _ _ _ _ Hg). }
  intros p c Hc. destruct (attach_entries_children m es root p c Hv Hc) as [c' [Hc' Ht]].
  exists c'. split; [exact Hc'|]. rewrite Ht. f_equal. apply groups_only_tags.
  exact (groups_only_children p root c Hgo Hc).
Qed.

(* ---------- the i-th group ---------- *)
Lemma nth_error_map' {A B} (f : A -> B) l : forall i, nth_error (map f l) i = option_map f (nth_error l i).
Proof. induction l as [|x l IH]; intros [|i]; try reflexivity. apply IH. Qed.

(* in a forest whose listing is that of [gs], the i-th path leads to a group with the i-th name, at the
   i-th level *)
Theorem group_index_facts gs root i g :
  preorder 0 root = map lvname gs -> nth_error gs i = Some g ->
  exists p c, nth_error (forest_paths root) i = Some p /\ children_at p root = Some c /\
              name_at p root = Some (gd_name g) /\ length p = S (gd_level g).
Proof.
  intros Hpre Hi.
  assert (Hlen : length (forest_paths root) = length gs).
  { rewrite forest_paths_length, Hpre, map_length. reflexivity. }
  destruct (nth_error (forest_paths root) i) as [p|] eqn:Hp.
  2:{ apply nth_error_None in Hp. assert (i < length gs)%nat by (apply nth_error_Some; rewrite Hi; discriminate). lia. }
  destruct (forest_paths_valid root p (nth_error_In _ _ Hp)) as [c Hc].
  exists p, c. split; [reflexivity|]. split; [exact Hc|].
  pose proof (f_equal (fun l => nth_error l i) (forest_paths_names root)) as Hn. cbn beta in Hn.
  pose proof (f_equal (fun l => nth_error l i) (forest_paths_depths root)) as Hd. cbn beta in Hd.
  rewrite Hpre, !nth_error_map', Hp, Hi in Hn. rewrite Hpre, !nth_error_map', Hp, Hi in Hd.
  cbn [option_map lvname snd fst] in Hn, Hd.
  split; [injection Hn as Hn; exact Hn|injection Hd as Hd; exact Hd].
Qed.

(* (2c) the id of the i-th group is mapped to the i-th path unless a later group repeats the id: the
   last group carrying an id is the one recorded *)
Theorem group_map_get gs root i g :
  preorder 0 root = map lvname gs -> nth_error gs i = Some g ->
  (forall j g', (i < j)%nat -> nth_error gs j = Some g' -> gd_gid g' <> gd_gid g) ->
  exists p, nth_error (forest_paths root) i = Some p /\
            map_get (gd_gid g) (gm_spec (map gd_gid gs) (forest_paths root)) = Some p.
Proof.
  intros Hpre Hi Hlast.
  destruct (group_index_facts gs root i g Hpre Hi) as [p [c [Hp _]]].
  exists p. split; [exact Hp|].
  apply (gm_spec_get (map gd_gid gs) (forest_paths root) i).
  - rewrite forest_paths_length, Hpre, !map_length. reflexivity.
  - rewrite nth_error_map', Hi. reflexivity.
  - exact Hp.
  - intros j Hj Hn. rewrite nth_error_map' in Hn.
    destruct (nth_error gs j) as [g'|] eqn:Hg'; [|discriminate Hn]. injection Hn as Hn.
    exact (Hlast j g' Hj Hg' Hn).
Qed.

(* with pairwise distinct ids, the entries the map sends to the i-th group are those naming its id *)
Lemma entries_for_distinct gs root es i g p :
  preorder 0 root = map lvname gs -> NoDup (map gd_gid gs) ->
  (forall e, In e es -> In (ed_gid e) (map gd_gid gs)) ->
  nth_error gs i = Some g -> nth_error (forest_paths root) i = Some p ->
  entries_for (gm_spec (map gd_gid gs) (forest_paths root)) p es =
  filter (fun e => N.eqb (ed_gid e) (gd_gid g)) es.
Proof.
  intros Hpre Hnd Hids Hi Hp. unfold entries_for. apply filter_ext_in. intros e He.
  destruct (In_nth_error _ _ (Hids e He)) as [j Hj].
  rewrite nth_error_map' in Hj. destruct (nth_error gs j) as [g'|] eqn:Hg'; [|discriminate Hj]. injection Hj as Hj.
  destruct (group_map_get gs root j g' Hpre Hg') as [q [Hq Hget]].
  { intros j2 g2 Hlt Hg2 E.
    assert (Hj2 : j = j2).
    { apply (proj1 (NoDup_nth_error (map gd_gid gs)) Hnd).
      - rewrite map_length. apply nth_error_Some. rewrite Hg'. discriminate.
      - rewrite !nth_error_map', Hg', Hg2. cbn [option_map]. rewrite E. reflexivity. }
    lia. }
  rewrite <- Hj, Hget.
  destruct (N.eqb (gd_gid g') (gd_gid g)) eqn:E.
  - apply N.eqb_eq in E.
    assert (Hji : j = i).
    { apply (proj1 (NoDup_nth_error (map gd_gid gs)) Hnd).
      - rewrite map_length. apply nth_error_Some. rewrite Hg'. discriminate.
      - rewrite !nth_error_map', Hg', Hi. cbn [option_map]. rewrite E. reflexivity. }
    subst j. rewrite Hp in Hq. injection Hq as <-. apply path_eqb_eq. reflexivity.
  - destruct (path_eqb q p) eqn:Eq; [|reflexivity]. exfalso.
    apply path_eqb_eq in Eq. subst q.
    assert (Hji : j = i).
    { apply (proj1 (NoDup_nth_error (forest_paths root)) (forest_paths_NoDup root)).
      - apply nth_error_Some. rewrite Hq. discriminate.
      - rewrite Hq, Hp. reflexivity. }
    subst j. rewrite Hi in Hg'. injection Hg' as <-. rewrite N.eqb_refl in E. discriminate E.
Qed.

(* the combined statement for pairwise distinct group ids: the result has the groups of [gs] in preorder
   (which determines its group skeleton, [preorder_inj]); the i-th of them is reached by the i-th index
   path, carries the i-th name at the i-th level, and its children are its sub-groups followed by exactly
   the entries naming its id, in file order, fields carried as [entry_fields]; the top level holds no
   entry *)
Theorem parse_db_ok_distinct gs es :
  valid_levels gs = true -> forallb gdesc_ok gs = true -> forallb edesc_ok es = true ->
  NoDup (map gd_gid gs) -> (forall e, In e es -> In (ed_gid e) (map gd_gid gs)) ->
  exists root',
    parse_db (N.of_nat (length gs)) (N.of_nat (length es)) (payload_enc gs es) = Ok root' /\
    preorder 0 root' = map lvname gs /\
    groups_only (strip_entries root') = true /\
    map tag root' = map (fun _ => None) (strip_entries root') /\
    forall i g, nth_error gs i = Some g ->
      exists p c c',
        nth_error (forest_paths (strip_entries root')) i = Some p /\
        name_at p (strip_entries root') = Some (gd_name g) /\ length p = S (gd_level g) /\
        children_at p (strip_entries root') = Some c /\
        children_at p root' = Some c' /\
        map tag c' = map (fun _ => None) c ++
                     map (fun e => Some (entry_fields e)) (filter (fun e => N.eqb (ed_gid e) (gd_gid g)) es).
Proof.
  intros Hlv Hgs Hes Hnd Hids.
  destruct (parse_db_ok gs es Hlv Hgs Hes Hids)
    as [root [m [root' [_ [Hdb [Hpre [Hgo [Hm [_ [Hstrip [Hpre' [Htop Hch]]]]]]]]]]]].
  exists root'. rewrite Hstrip. split; [exact Hdb|]. split; [exact Hpre'|]. split; [exact Hgo|].
  split; [exact Htop|].
  intros i g Hi. destruct (group_index_facts gs root i g Hpre Hi) as [p [c [Hp [Hc [Hn Hl]]]]].
  destruct (Hch p c Hc) as [c' [Hc' Ht]].
  exists p, c, c'. repeat (split; [assumption|]).
  rewrite Ht, Hm. rewrite (entries_for_distinct gs root es i g p Hpre Hnd Hids Hi Hp). reflexivity.
Qed.

(* ---------- the code before the repair ---------- *)
(* two sibling groups with the same name; the entry names the id of the second one.  The reader follows the
   index path [1] and gives it to the second group; resolving the path of NAMES [["A"]] gives it to the
   first one. *)
Example attach_by_name_refuted :
  let root := [KGroup [65] []; KGroup [65] []] in
  let e := KEntry [] in
  parse_groups 2 (payload_enc [mkGD 0 1 [65]; mkGD 0 2 [65]] []) = Ok (root, [(1, [0%nat]); (2, [1%nat])], []) /\
  attach [1%nat] root e = Some [KGroup [65] []; KGroup [65] [e]] /\
  attach_by_name [[65]] root e = Some [KGroup [65] [e]; KGroup [65] []] /\
  parse_db 2 1 (payload_enc [mkGD 0 1 [65]; mkGD 0 2 [65]] [mkED 2 []]) = Ok [KGroup [65] []; KGroup [65] [e]].
Proof. vm_compute. repeat split. Qed.

(* ---------- examples ---------- *)
(* A(1){ B(2){ A(3) } B(4) } A(5): three levels, repeated names *)
Definition ex_gs : list gdesc :=
  [mkGD 0 1 [65]; mkGD 1 2 [66]; mkGD 2 3 [65]; mkGD 1 4 [66]; mkGD 0 5 [65]].
Definition ex_es : list edesc :=
  [mkED 4 [(4, [116;49;0]); (6, [117;0])];
   mkED 3 [(7, [112;119;0]); (4, [120;0]); (4, [121;0])];
   mkED 4 [(14, [1;2;0])];
   mkED 5 [(13, [100;0]); (8, [110;0]); (5, [104;0])]].

Example ex_hypotheses :
  valid_levels ex_gs = true /\ forallb gdesc_ok ex_gs = true /\ forallb edesc_ok ex_es = true.
Proof. vm_compute. repeat split. Qed.

Example ex_parse_groups :
  parse_groups 5 (concat (map group_enc ex_gs) ++ [9; 9]) =
  Ok ([KGroup [65] [KGroup [66] [KGroup [65] []]; KGroup [66] []]; KGroup [65] []],
      [(1, [0%nat]); (2, [0%nat; 0%nat]); (3, [0%nat; 0%nat; 0%nat]); (4, [0%nat; 1%nat]); (5, [1%nat])],
      [9; 9]).
Proof. vm_compute. reflexivity. Qed.

Example ex_parse_db :
  parse_db 5 4 (payload_enc ex_gs ex_es) =
  Ok [KGroup [65]
        [KGroup [66]
           [KGroup [65]
              [KEntry [(s_Password, KProt [112; 119]); (s_Title, KUnprot [121])]]];
         KGroup [66]
           [KEntry [(s_Title, KUnprot [116; 49]); (s_UserName, KUnprot [117])];
            KEntry [(s_BinaryData, KBytes [1; 2; 0])]]];
      KGroup [65]
        [KEntry [(s_BinaryDesc, KUnprot [100]); (s_Additional, KUnprot [110]); (s_URL, KUnprot [104])]]].
Proof. vm_compute. reflexivity. Qed.

(* a repeated id: the last group carrying it receives the entry; sub-groups come before entries *)
Example ex_repeated_gid :
  parse_db 3 2 (payload_enc [mkGD 0 7 [65]; mkGD 0 7 [66]; mkGD 1 8 [67]] [mkED 7 [(4, [116; 0])]; mkED 8 []]) =
  Ok [KGroup [65] []; KGroup [66] [KGroup [67] [KEntry []]; KEntry [(s_Title, KUnprot [116])]]].
Proof. vm_compute. reflexivity. Qed.

(* the error side *)
Example ex_level_jump : parse_db 2 0 (payload_enc [mkGD 0 1 [65]; mkGD 2 2 [66]] []) = Err KEInvalidLevel.
Proof. vm_compute. reflexivity. Qed.
Example ex_level_start : parse_db 1 0 (payload_enc [mkGD 1 1 [65]] []) = Err KEInvalidLevel.
Proof. vm_compute. reflexivity. Qed.
Example ex_unknown_gid : parse_db 1 1 (payload_enc [mkGD 0 1 [65]] [mkED 9 []]) = Err KEInvalidGroupId.
Proof. vm_compute. reflexivity. Qed.
(* truncated input: an error, not a panic *)
Example ex_truncated : parse_db 5 4 (take 40 (payload_enc ex_gs ex_es)) = Err KEIncompleteGroup.
Proof. vm_compute. reflexivity. Qed.

(* the specification functions on the example *)
Example ex_spec :
  let root := [KGroup [65] [KGroup [66] [KGroup [65] []]; KGroup [66] []]; KGroup [65] []] in
  preorder 0 root = map lvname ex_gs /\
  forest_paths root = [[0]; [0; 0]; [0; 0; 0]; [0; 1]; [1]]%nat /\
  gm_spec (map gd_gid ex_gs) (forest_paths root) = [(1, [0%nat]); (2, [0%nat; 0%nat]); (3, [0%nat; 0%nat; 0%nat]); (4, [0%nat; 1%nat]); (5, [1%nat])].
Proof. vm_compute. repeat split. Qed.

(* ---------- the error side, end to end ---------- *)
Theorem parse_db_bad_level gs1 g gs2 es total ne :
  valid_levels gs1 = true -> valid_levels (gs1 ++ [g]) = false ->
  forallb gdesc_ok (gs1 ++ [g]) = true -> N.of_nat (length gs1) < total ->
  parse_db total ne (payload_enc (gs1 ++ g :: gs2) es) = Err KEInvalidLevel.
Proof.
  intros H1 H2 H3 H4. unfold parse_db, payload_enc.
  rewrite (parse_groups_bad_level gs1 g gs2 total _ H1 H2 H3 H4). reflexivity.
Qed.

Theorem parse_db_bad_gid gs es1 e es2 total :
  valid_levels gs = true -> forallb gdesc_ok gs = true -> forallb edesc_ok (es1 ++ [e]) = true ->
  (forall e', In e' es1 -> In (ed_gid e') (map gd_gid gs)) -> ~ In (ed_gid e) (map gd_gid gs) ->
  N.of_nat (length es1) < total ->
  parse_db (N.of_nat (length gs)) total (payload_enc gs (es1 ++ e :: es2)) = Err KEInvalidGroupId.
Proof.
  intros Hlv Hgs Hes Hids Hnot Htot. unfold parse_db, payload_enc.
  destruct (parse_groups_ok gs (concat (map entry_enc (es1 ++ e :: es2))) Hlv Hgs) as [root [m [Hpg [Hpre [Hgo Hm]]]]].
  rewrite Hpg. cbn [bind].
  apply parse_entries_bad_gid; try assumption.
  - rewrite Hm. apply gm_paths_valid.
  - intros e' He'. rewrite Hm. apply gm_spec_some; [|exact (Hids e' He')].
    rewrite forest_paths_length, Hpre, !map_length. reflexivity.
  - rewrite Hm. apply gm_spec_none. exact Hnot.
Qed.

Print Assumptions record_enc.
Print Assumptions preorder_inj.
Print Assumptions parse_groups_ok.
Print Assumptions parse_groups_bad_level.
Print Assumptions group_index_facts.
Print Assumptions group_map_get.
Print Assumptions parse_entries_ok.
Print Assumptions parse_entries_bad_gid.
Print Assumptions parse_db_ok.
Print Assumptions parse_db_ok_distinct.
Print Assumptions parse_db_never_panics.
Print Assumptions parse_db_total.
Print Assumptions parse_db_bad_level.
Print Assumptions parse_db_bad_gid.
Print Assumptions attach_by_name_refuted.

(* The legacy formats end to end: KeePass 1 (KdbOpen.v) and KDBX 3.1 (Kdbx3Time.v, Kdbx3Open.v). *)
From KP Require Export KdbOpen Kdbx3Time Kdbx3Open.

(* KDBX4 container framing: integrity as a reduction to MAC forgery (C05).

   No cryptographic assumption is made: sha256, sha512, hmac256, the KDF, the outer cipher and the
   compression are arbitrary functions.  What is proved is that everything the reader returns is
   covered by MAC comparisons that succeeded:

   (I1) read_blocks_sound        an accepted block stream IS a sequence of correctly MACed, consecutively
                                 indexed, non-empty blocks, followed by a correctly MACed empty block (the
                                 closing block, always present) after which the rest of the stream is ignored;
        read_blocks_needs_closing_block
                                 conversely a sequence of correctly MACed, consecutively indexed, non-empty
                                 blocks that is NOT followed by a closing block is never accepted: a stream
                                 cut at a block boundary (in particular the empty stream) is rejected;
   (I2) write_blocks_frames      the honest stream in the same vocabulary;
   (I3) decrypt4_accept_inv      an accepted file has its header hash and header MAC verified over exactly
                                 the bytes parse_outer_header consumed, its stream accepted by read_blocks,
                                 and the result is a function (open_payload) of the header and that payload;
   (I4) accepted_stream_classification / altered_stream_is_forgery / altered_file_is_forgery
                                 an accepted stream (file) under the honest key is the honest stream (plus
                                 ignored trailing bytes), or it contains a MAC that verifies for an
                                 (index, size bytes, block) triple the writer never authenticated.  There is
                                 no third case: the honest stream cut at a block boundary is not accepted.

   Formulation of a frame: the four size bytes are those READ from the stream ([sb], with
   [length sb = 4] and [le_dec sb = N.of_nat (length b)]), not a re-encoding of the length; nothing is
   assumed about the stream's elements being < 256.  [read_blocks_sound_bytes] adds the re-encoded form
   for streams of real bytes. *)
From Coq Require Import Lia ZifyN ZifyNat ZifyBool.
From Coq Require Import Permutation.
From KP Require Import Bytes Outcome LE LEFacts Version Kdbx4 Kdbx4Proofs.
Local Open Scope N_scope.

(* ---------- plumbing ---------- *)
Lemma bytes_eq_dec (a b : bytes) : {a = b} + {a <> b}.
Proof. apply (list_eq_dec N.eq_dec). Qed.

Lemma le_dec_zero4 (sb : bytes) : length sb = 4%nat -> le_dec sb = 0 -> sb = le_enc 4 0.
Proof.
  intros Hl Hz.
  destruct sb as [|b0 [|b1 [|b2 [|b3 [|b4 r]]]]]; cbn [length] in Hl; try discriminate Hl.
  cbn [le_dec] in Hz.
  assert (b0 = 0 /\ b1 = 0 /\ b2 = 0 /\ b3 = 0) as (-> & -> & -> & ->) by lia.
  reflexivity.
Qed.

Lemma le_enc_dec (l : bytes) : bytes_ok l = true -> le_enc (length l) (le_dec l) = l.
Proof.
  induction l as [|a r IH]; intro H; [reflexivity|].
  unfold bytes_ok in H. cbn [forallb] in H. apply andb_true_iff in H. destruct H as [Ha Hr].
  apply N.ltb_lt in Ha. cbn [length le_dec le_enc].
  replace ((a + 256 * le_dec r) mod 256) with a.
  - replace ((a + 256 * le_dec r) / 256) with (le_dec r).
    + rewrite (IH Hr). reflexivity.
    + rewrite N.mul_comm, N.div_add by lia. rewrite N.div_small by exact Ha. reflexivity.
  - rewrite N.mul_comm, N.mod_add by lia. rewrite N.mod_small by exact Ha. reflexivity.
Qed.

Lemma le_dec_bound (l : bytes) : bytes_ok l = true -> le_dec l < 256 ^ N.of_nat (length l).
Proof.
  induction l as [|a r IH]; intro H; [cbn; lia|].
  unfold bytes_ok in H. cbn [forallb] in H. apply andb_true_iff in H. destruct H as [Ha Hr].
  apply N.ltb_lt in Ha. specialize (IH Hr). cbn [length le_dec].
  rewrite Nat2N.inj_succ, N.pow_succ_r'. nia.
Qed.

Lemma triple_inj {A B C} (a a' : A) (b b' : B) (c c' : C) :
  (a, b, c) = (a', b', c') -> a = a' /\ b = b' /\ c = c'.
Proof. intro E. injection E as E1 E2 E3. repeat split; assumption. Qed.

Lemma bytes_ok_app (a b : bytes) : bytes_ok (a ++ b) = true -> bytes_ok a = true /\ bytes_ok b = true.
Proof. unfold bytes_ok. rewrite forallb_app. apply andb_true_iff. Qed.

(* ================================================================================================ *)
(* the HMAC block stream                                                                            *)
(* ================================================================================================ *)
Section block_integrity.
  Variable sha512 : bytes -> bytes.
  Variable hmac256 : bytes -> bytes -> bytes.

  Notation block_mac := (block_mac sha512 hmac256).
  Notation read_blocks := (read_blocks sha512 hmac256).
  Notation write_blocks := (write_blocks sha512 hmac256).

  (* one block on the wire: the MAC over (index, size bytes, block), the size bytes, the block *)
  Definition frame (idx : N) (key sb b : bytes) : bytes := block_mac idx key sb b ++ sb ++ b.

  (* a block as the reader sees it: (size bytes, content) *)
  Definition sized (p : bytes * bytes) : Prop :=
    length (fst p) = 4%nat /\ le_dec (fst p) = N.of_nat (length (snd p)).

  (* consecutively indexed frames *)
  Fixpoint frames (idx : N) (key : bytes) (l : list (bytes * bytes)) : bytes :=
    match l with
    | [] => []
    | p :: r => frame idx key (fst p) (snd p) ++ frames (idx + 1) key r
    end.

  (* the reader's first step on a non-empty stream, inverted *)
  Lemma read_blocks_head f idx stream key out res :
    stream <> [] ->
    read_blocks (S f) idx stream key out = Ok res ->
    exists sb b rest,
      stream = frame idx key sb b ++ rest /\ length sb = 4%nat /\ le_dec sb = N.of_nat (length b)
      /\ (b = [] /\ res = out \/ b <> [] /\ read_blocks f (idx + 1) rest key (out ++ b) = Ok res).
  Proof.
    intros Hne H. rewrite read_blocks_unfold in H by exact Hne.
    destruct (Nat.ltb (length stream) 36) eqn:E36; [discriminate H|]. apply Nat.ltb_ge in E36.
    set (sb := take 4 (drop 32 stream)) in *.
    set (r2 := drop 36 stream) in *.
    destruct (fits (le_dec sb) r2) eqn:Efit; cbn [negb] in H; [|discriminate H].
    set (n := N.to_nat (le_dec sb)) in *. set (b := take n r2) in *.
    destruct (bytes_eqb (take 32 stream) (block_mac idx key sb b)) eqn:Emac; cbn [negb] in H; [|discriminate H].
    apply bytes_eqb_eq in Emac.
    unfold fits in Efit. apply N.leb_le in Efit.
    assert (Hsb : length sb = 4%nat).
    { unfold sb. apply take_length. rewrite drop_length. lia. }
    assert (Hb : length b = n).
    { unfold b. apply take_length. unfold n. lia. }
    assert (Hdec : le_dec sb = N.of_nat (length b)).
    { rewrite Hb. unfold n. rewrite N2Nat.id. reflexivity. }
    assert (Hsplit : stream = frame idx key sb b ++ drop n r2).
    { unfold frame. rewrite <- Emac. rewrite <- !app_assoc. unfold b. rewrite take_drop.
      unfold sb, r2. change 36%nat with (32 + 4)%nat. rewrite drop_drop. rewrite take_drop.
      rewrite take_drop. reflexivity. }
    exists sb, b, (drop n r2). repeat (split; [assumption|]).
    destruct (N.eqb (le_dec sb) 0) eqn:Ez.
    - apply N.eqb_eq in Ez. left. split.
      + destruct b as [|y b']; [reflexivity|]. cbn [length] in Hdec. lia.
      + apply Ok_inj in H. symmetry. exact H.
    - apply N.eqb_neq in Ez. right. split.
      + intro Eb. rewrite Eb in Hdec. cbn [length] in Hdec. lia.
      + exact H.
  Qed.

  (* (I1) soundness of the block reader: the closing block is always there *)
  Theorem read_blocks_sound : forall fuel idx stream key out res,
    read_blocks fuel idx stream key out = Ok res ->
    exists blocks rest,
      res = out ++ concat (map snd blocks)
      /\ Forall (fun p => sized p /\ snd p <> []) blocks
      /\ stream = frames idx key blocks
                  ++ frame (idx + N.of_nat (length blocks)) key (le_enc 4 0) [] ++ rest.
  Proof.
    induction fuel as [|f IH]; intros idx stream key out res H; [discriminate H|].
    destruct stream as [|x r] eqn:Es.
    - cbn [Kdbx4.read_blocks] in H. discriminate H.
    - rewrite <- Es in *. assert (Hne : stream <> []) by (rewrite Es; discriminate). clear Es x r.
      destruct (read_blocks_head f idx stream key out res Hne H)
        as (sb & b & rest & Hs & Hsb & Hdec & [[Eb Er]|[Eb Hrec]]).
      + subst b res. exists [], rest. cbn [map concat frames app length N.of_nat].
        rewrite app_nil_r, N.add_0_r. repeat split; [constructor|].
        cbn [length N.of_nat] in Hdec.
        rewrite <- (le_dec_zero4 sb Hsb Hdec). exact Hs.
      + destruct (IH _ _ _ _ _ Hrec) as (blocks & rest' & Hres & Hall & Hst).
        exists ((sb, b) :: blocks), rest'. cbn [map concat frames fst snd length].
        split; [|split].
        * rewrite Hres. rewrite <- app_assoc. reflexivity.
        * constructor; [|exact Hall]. cbn [fst snd]. split; [split; assumption|exact Eb].
        * rewrite Hs, Hst. rewrite <- !app_assoc.
          rewrite Nat2N.inj_succ, <- N.add_1_l, N.add_assoc. reflexivity.
  Qed.

  (* for a stream of real bytes the size bytes are the encoding of the block length, which is < 2^32 *)
  Lemma sized_bytes sb b :
    bytes_ok sb = true -> sized (sb, b) ->
    sb = le_enc 4 (N.of_nat (length b)) /\ N.of_nat (length b) < 2 ^ 32.
  Proof.
    intros Hok [Hl Hd]. cbn [fst snd] in Hl, Hd. split.
    - rewrite <- Hd, <- Hl. symmetry. apply le_enc_dec. exact Hok.
    - rewrite <- Hd. pose proof (le_dec_bound sb Hok) as Hb. rewrite Hl, pow256_4 in Hb.
      rewrite pow2_32. exact Hb.
  Qed.

  Lemma frames_bytes_ok key : forall blocks idx tail,
    bytes_ok (frames idx key blocks ++ tail) = true ->
    Forall (fun p => bytes_ok (fst p) = true) blocks.
  Proof.
    induction blocks as [|[sb b] r IH]; intros idx tail H; [constructor|].
    cbn [frames fst snd] in H. unfold frame in H. rewrite <- !app_assoc in H.
    apply bytes_ok_app in H. destruct H as [_ H]. apply bytes_ok_app in H. destruct H as [Hsb H].
    apply bytes_ok_app in H. destruct H as [_ H].
    constructor; [exact Hsb|]. exact (IH _ _ H).
  Qed.

  Corollary read_blocks_sound_bytes fuel idx stream key out res :
    bytes_ok stream = true ->
    read_blocks fuel idx stream key out = Ok res ->
    exists blocks rest,
      res = out ++ concat (map snd blocks)
      /\ Forall (fun p => snd p <> [] /\ N.of_nat (length (snd p)) < 2 ^ 32
                          /\ fst p = le_enc 4 (N.of_nat (length (snd p)))) blocks
      /\ stream = frames idx key blocks
                  ++ frame (idx + N.of_nat (length blocks)) key (le_enc 4 0) [] ++ rest.
  Proof.
    intros Hok H. destruct (read_blocks_sound _ _ _ _ _ _ H) as (blocks & rest & Hres & Hall & Hst).
    exists blocks, rest. split; [exact Hres|]. split; [|exact Hst].
    rewrite Hst in Hok. pose proof (frames_bytes_ok key blocks idx _ Hok) as Hbo.
    rewrite Forall_forall in *. intros [sb b] Hin. specialize (Hall _ Hin). specialize (Hbo _ Hin).
    cbn [fst snd] in *. destruct Hall as [Hsz Hne].
    destruct (sized_bytes sb b Hbo Hsz) as [Hsb Hlt]. repeat split; assumption.
  Qed.

  (* ---------- the converse: without the closing block nothing is accepted ---------- *)
  Theorem read_blocks_empty_stream fuel idx key out res : read_blocks fuel idx [] key out <> Ok res.
  Proof. destruct fuel as [|f]; cbn [Kdbx4.read_blocks]; discriminate. Qed.

  Section cut_stream.
    (* HMAC-SHA-256 produces 32 bytes; the reader slices the MAC off by that size *)
    Hypothesis hmac256_length : forall k m, length (hmac256 k m) = 32%nat.

    (* the reader's step on a stream that begins with a correct frame *)
    Lemma read_blocks_frame f idx sb b key out rest :
      length sb = 4%nat -> le_dec sb = N.of_nat (length b) ->
      read_blocks (S f) idx (frame idx key sb b ++ rest) key out =
      if N.eqb (N.of_nat (length b)) 0 then Ok out else read_blocks f (idx + 1) rest key (out ++ b).
    Proof.
      intros Hsb Hdec. unfold frame. rewrite <- !app_assoc.
      set (mac := block_mac idx key sb b).
      assert (Hmac : length mac = 32%nat) by (apply block_mac_length; exact hmac256_length).
      assert (Hlen : length (mac ++ sb ++ b ++ rest) = (36 + length b + length rest)%nat).
      { rewrite !app_length. lia. }
      rewrite read_blocks_unfold by (intro E; rewrite E in Hlen; cbn [length] in Hlen; lia).
      rewrite Hlen.
      replace (Nat.ltb (36 + length b + length rest) 36) with false by (symmetry; apply Nat.ltb_ge; lia).
      assert (Hd36 : drop 36 (mac ++ sb ++ b ++ rest) = b ++ rest).
      { rewrite app_assoc. apply drop_app_len. rewrite app_length. lia. }
      rewrite Hd36. rewrite (take_app_len 32 mac) by exact Hmac. rewrite (drop_app_len 32 mac) by exact Hmac.
      rewrite (take_app_len 4 sb) by exact Hsb.
      rewrite Hdec. rewrite fits_app. cbn [negb]. rewrite Nat2N.id.
      rewrite take_app_exact, drop_app_exact. fold mac. rewrite bytes_eqb_refl. cbn [negb]. reflexivity.
    Qed.

    (* correctly MACed, consecutively indexed, non-empty blocks and then the end of the data: the reader
       consumes every block and then fails (or runs out of fuel before it gets there) *)
    Theorem read_blocks_cut : forall blocks,
      Forall (fun p => sized p /\ snd p <> []) blocks ->
      forall fuel idx key out,
        read_blocks fuel idx (frames idx key blocks) key out =
        if Nat.ltb (length blocks) fuel then Err EBlockHash else OutOfFuel.
    Proof.
      induction blocks as [|[sb b] r IH]; intros Hall fuel idx key out.
      - cbn [frames length]. destruct fuel as [|f]; reflexivity.
      - inversion Hall as [|p l [[Hsb Hdec] Hne] Hall']; subst p l. cbn [fst snd] in Hsb, Hdec, Hne.
        cbn [frames fst snd length]. destruct fuel as [|f]; [reflexivity|].
        rewrite (read_blocks_frame f idx sb b key out _ Hsb Hdec).
        replace (N.eqb (N.of_nat (length b)) 0) with false
          by (symmetry; apply N.eqb_neq; destruct b as [|y b']; [congruence|cbn [length]; lia]).
        rewrite (IH Hall' f (idx + 1) key (out ++ b)). reflexivity.
    Qed.

    (* so a stream of correctly authenticated data blocks cut before its closing block is never accepted *)
    Theorem read_blocks_needs_closing_block blocks fuel idx key out res :
      Forall (fun p => sized p /\ snd p <> []) blocks ->
      read_blocks fuel idx (frames idx key blocks) key out <> Ok res.
    Proof.
      intros Hall H. rewrite (read_blocks_cut blocks Hall) in H.
      destruct (Nat.ltb (length blocks) fuel); discriminate H.
    Qed.

    (* in particular the honest stream without its closing block *)
    Corollary honest_stream_cut_is_rejected fuel key ct res :
      ct <> [] -> N.of_nat (length ct) < 2 ^ 32 ->
      read_blocks fuel 0 (frame 0 key (le_enc 4 (N.of_nat (length ct))) ct) key [] <> Ok res.
    Proof.
      intros Hct Hlt.
      pose proof (read_blocks_needs_closing_block [(le_enc 4 (N.of_nat (length ct)), ct)] fuel 0 key [] res) as H.
      cbn [frames fst snd] in H. rewrite app_nil_r in H. apply H.
      constructor; [|constructor]. cbn [fst snd]. split; [split|exact Hct]; cbn [fst snd].
      - apply le_enc_length.
      - apply le_dec_enc4. exact Hlt.
    Qed.
  End cut_stream.

  (* ---------- (I2) the honest stream in the same vocabulary ---------- *)
  (* the (index, size bytes, block) triples whose MAC the writer computes for payload [data] *)
  Definition honest_triples (data : bytes) : list (N * bytes * bytes) :=
    match data with
    | [] => [(0, le_enc 4 0, [])]
    | _ :: _ => [(0, le_enc 4 (N.of_nat (length data)), data); (1, le_enc 4 0, [])]
    end.

  Lemma write_blocks_triples data key :
    write_blocks data key =
    concat (map (fun t => frame (fst (fst t)) key (snd (fst t)) (snd t)) (honest_triples data)).
  Proof.
    unfold Kdbx4.write_blocks, honest_triples, frame.
    destruct data as [|x r]; cbn [map concat fst snd app]; rewrite ?app_nil_r; [reflexivity|].
    rewrite <- !app_assoc. reflexivity.
  Qed.

  Corollary write_blocks_frames data key :
    data <> [] ->
    write_blocks data key =
    frames 0 key [(le_enc 4 (N.of_nat (length data)), data)] ++ frame 1 key (le_enc 4 0) [].
  Proof.
    intro Hne. unfold Kdbx4.write_blocks, frame. destruct data as [|x r]; [congruence|].
    cbn [frames fst snd]. unfold frame. change (0 + 1) with 1. rewrite !app_nil_r, <- !app_assoc. reflexivity.
  Qed.

  Lemma write_blocks_empty key : write_blocks [] key = frame 0 key (le_enc 4 0) [].
  Proof. unfold Kdbx4.write_blocks, frame. cbn [app]. rewrite app_nil_r. reflexivity. Qed.

  (* ---------- (I4) the reduction, on the stream ---------- *)
  (* the stream contains a MAC that verifies for a triple outside [honest] *)
  Definition Forgery (key : bytes) (honest : list (N * bytes * bytes)) (stream : bytes) : Prop :=
    exists idx sb b pre post,
      ~ In (idx, sb, b) honest /\ stream = pre ++ block_mac idx key sb b ++ sb ++ b ++ post.

  Lemma forgery_at key honest idx sb b pre post :
    ~ In (idx, sb, b) honest -> Forgery key honest (pre ++ frame idx key sb b ++ post).
  Proof.
    intro Hn. exists idx, sb, b, pre, post. split; [exact Hn|]. unfold frame. rewrite <- !app_assoc. reflexivity.
  Qed.

  Lemma honest_triples_ne data :
    data <> [] -> honest_triples data = [(0, le_enc 4 (N.of_nat (length data)), data); (1, le_enc 4 0, [])].
  Proof. destruct data as [|x r]; [congruence|reflexivity]. Qed.

  Lemma triple_eq_dec (x y : N * bytes * bytes) : {x = y} + {x <> y}.
  Proof.
    destruct x as [[i sb] b], y as [[i' sb'] b'].
    destruct (N.eq_dec i i') as [->|Hi]; [|right; congruence].
    destruct (bytes_eq_dec sb sb') as [->|Hs]; [|right; congruence].
    destruct (bytes_eq_dec b b') as [->|Hb]; [left; reflexivity|right; congruence].
  Qed.

  (* every accepted stream, compared with the honest stream for [ct] under the same key *)
  Theorem accepted_stream_classification fuel stream' key ct enc :
    read_blocks fuel 0 stream' key [] = Ok enc ->
    Forgery key (honest_triples ct) stream'
    \/ (enc = ct /\ exists rest, stream' = write_blocks ct key ++ rest).
  Proof.
    intro H. destruct (read_blocks_sound _ _ _ _ _ _ H) as (blocks & rest & Hres & Hall & Hst).
    cbn [app] in Hres.
    destruct blocks as [|[sb b] r].
    - (* no data block *)
      cbn [map concat frames app length N.of_nat] in *. subst enc stream'.
      change (0 + 0) with 0.
      destruct (bytes_eq_dec ct []) as [->|Hct].
      + right. split; [reflexivity|]. exists rest. rewrite write_blocks_empty. reflexivity.
      + left. apply (forgery_at key _ 0 (le_enc 4 0) [] [] rest).
        rewrite (honest_triples_ne ct Hct). cbn [In].
        intros [E|[E|[]]]; [|discriminate E]. injection E as _ Eb. congruence.
    - inversion Hall as [|p l [Hsz Hne] Hall']; subst p l. cbn [fst snd] in Hsz, Hne.
      cbn [frames fst snd] in Hst. change (0 + 1) with 1 in Hst.
      destruct (in_dec triple_eq_dec (0, sb, b) (honest_triples ct)) as [Hin|Hnin].
      2:{ left. subst stream'. rewrite <- app_assoc.
          apply (forgery_at key _ 0 sb b [] _). exact Hnin. }
      destruct (bytes_eq_dec ct []) as [->|Hct].
      { cbn [honest_triples In] in Hin. destruct Hin as [E|[]]. injection E as _ Eb. congruence. }
      rewrite (honest_triples_ne ct Hct) in Hin. cbn [In] in Hin.
      destruct Hin as [E|[E|[]]]; [|discriminate E].
      assert (Esb : sb = le_enc 4 (N.of_nat (length ct))) by congruence.
      assert (Eb : b = ct) by congruence. clear E. subst sb b.
      destruct r as [|[sb2 b2] r2].
      + (* exactly the honest data block, and the closing block *)
        cbn [map concat frames app snd] in Hres, Hst. rewrite app_nil_r in Hres. subst enc.
        right. split; [reflexivity|]. exists rest. cbn [length N.of_nat] in Hst. change (0 + 1) with 1 in Hst.
        rewrite write_blocks_frames by exact Hct. cbn [frames fst snd]. rewrite app_nil_r.
        rewrite Hst. rewrite <- !app_assoc. reflexivity.
      + (* a second data block: index 1 with a non-empty block was never authenticated *)
        left. inversion Hall' as [|p l [_ Hne2] _]; subst p l. cbn [snd] in Hne2.
        subst stream'. cbn [frames fst snd]. rewrite <- !app_assoc.
        apply (forgery_at key _ 1 sb2 b2 (frame 0 key (le_enc 4 (N.of_nat (length ct))) ct) _).
        rewrite (honest_triples_ne ct Hct). cbn [In].
        intros [E|[E|[]]]; [discriminate E|]. injection E as _ Eb. congruence.
  Qed.

  (* the reduction: a payload that differs from the honest one means the stream exhibits a forgery *)
  Corollary altered_stream_is_forgery fuel stream' key ct enc :
    read_blocks fuel 0 stream' key [] = Ok enc ->
    enc <> ct ->
    Forgery key (honest_triples ct) stream'.
  Proof.
    intros H Hne.
    destruct (accepted_stream_classification fuel stream' key ct enc H) as [F|(E & _)];
      [exact F|contradiction].
  Qed.

  (* and a stream that differs from the honest one but yields the same payload is the honest stream with
     ignored bytes after its closing block, or again exhibits a forgery *)
  Corollary altered_stream_same_payload fuel stream' key ct :
    read_blocks fuel 0 stream' key [] = Ok ct ->
    Forgery key (honest_triples ct) stream'
    \/ (exists rest, stream' = write_blocks ct key ++ rest).
  Proof.
    intro H.
    destruct (accepted_stream_classification fuel stream' key ct ct H) as [F|(_ & S)].
    - left; exact F.
    - right. exact S.
  Qed.
End block_integrity.

(* ================================================================================================ *)
(* the whole file                                                                                   *)
(* ================================================================================================ *)
Section file_integrity.
  Variables (sha256 sha512 : bytes -> bytes) (hmac256 : bytes -> bytes -> bytes)
            (kdf : kdfcfg -> bytes -> bytes -> res bytes)
            (outer_enc outer_dec : ocipher -> bytes -> bytes -> bytes -> res bytes)
            (compress decompress : compression -> bytes -> res bytes).

  Notation dump4 := (dump4 sha256 sha512 hmac256 kdf outer_enc compress).
  Notation decrypt4 := (decrypt4 sha256 sha512 hmac256 kdf outer_dec decompress).
  Notation header_mac := (header_mac sha512 hmac256).
  Notation hmac_key_of := (hmac_key_of sha512).
  Notation master_key_of := (master_key_of sha256).
  Notation composite_key := (composite_key sha256).
  Notation read_blocks := (read_blocks sha512 hmac256).
  Notation write_blocks := (write_blocks sha512 hmac256).
  Notation block_mac := (block_mac sha512 hmac256).
  Notation frame := (frame sha512 hmac256).
  Notation Forgery := (Forgery sha512 hmac256).

  (* what the reader does with the authenticated payload: a function of the parsed header, the
     transformed key and the bytes read_blocks returned *)
  Definition open_payload (v : dbversion) (h : outer_header) (t enc : bytes)
    : res (config * list attachment * bytes * bytes) :=
    bind (outer_dec (h_cipher h) (master_key_of (h_master_seed h) t) (h_iv h) enc) (fun payload_comp =>
    bind (decompress (h_compression h) payload_comp) (fun payload =>
    bind (parse_inner_header payload) (fun '(aik, xml) =>
      let '(atts, ic, ikey) := aik in
      if negb (inner_key_ok ic ikey) then Err ECrypto
      else Ok (mkConfig v (h_cipher h) (h_compression h) ic (h_kdf h), atts, ikey, xml)))).

  (* (I3) acceptance implies that the header hash and the header MAC verified over exactly the bytes
     parse_outer_header consumed, and that the stream was accepted by the block reader *)
  Theorem decrypt4_accept_inv file els r :
    decrypt4 file els = Ok r ->
    exists v h hlen e t enc,
      parse_outer_header file = Ok (v, h, hlen) /\ (hlen + 64 <= length file)%nat /\ els = Ok e
      /\ kdf (h_kdf h) (h_kdf_seed h) (composite_key e) = Ok t
      /\ take 32 (drop hlen file) = sha256 (take hlen file)
      /\ take 32 (drop (hlen + 32) file)
         = header_mac (hmac_key_of (h_master_seed h) t) (take hlen file)
      /\ read_blocks (S (length (drop (hlen + 64) file))) 0 (drop (hlen + 64) file)
                     (hmac_key_of (h_master_seed h) t) [] = Ok enc
      /\ open_payload v h t enc = Ok r.
  Proof.
    intro H. unfold Kdbx4.decrypt4 in H.
    destruct (parse_outer_header file) as [[[v h] hlen]| | |] eqn:Ep; cbn [bind] in H; try discriminate H.
    destruct (Nat.ltb (length file) (hlen + 64)) eqn:El; [discriminate H|]. apply Nat.ltb_ge in El.
    destruct (bytes_eqb (take 32 (drop hlen file)) (sha256 (take hlen file))) eqn:Esha;
      cbn [negb] in H; [|discriminate H]. apply bytes_eqb_eq in Esha.
    destruct els as [e| | |]; cbn [bind] in H; try discriminate H.
    destruct (kdf (h_kdf h) (h_kdf_seed h) (composite_key e)) as [t| | |] eqn:Ek; cbn [bind] in H; try discriminate H.
    destruct (bytes_eqb (take 32 (drop (hlen + 32) file))
                (header_mac (hmac_key_of (h_master_seed h) t) (take hlen file))) eqn:Emac;
      cbn [negb] in H; [|discriminate H]. apply bytes_eqb_eq in Emac.
    destruct (read_blocks (S (length (drop (hlen + 64) file))) 0 (drop (hlen + 64) file)
                (hmac_key_of (h_master_seed h) t) []) as [enc| | |] eqn:Er; cbn [bind] in H; try discriminate H.
    exists v, h, hlen, e, t, enc. repeat (split; [assumption || reflexivity|]).
    unfold open_payload. exact H.
  Qed.

  (* a header that differs from the one the writer MACed, accepted under the same derived key: the file
     carries a header MAC that verifies for a message the writer never MACed *)
  Corollary altered_header_is_forgery file els r header hk :
    decrypt4 file els = Ok r ->
    exists v h hlen e t,
      parse_outer_header file = Ok (v, h, hlen) /\ els = Ok e
      /\ kdf (h_kdf h) (h_kdf_seed h) (composite_key e) = Ok t
      /\ (hmac_key_of (h_master_seed h) t = hk -> take hlen file <> header ->
          exists m, m <> header /\ take 32 (drop (hlen + 32) file) = header_mac hk m).
  Proof.
    intro H. destruct (decrypt4_accept_inv file els r H)
      as (v & h & hlen & e & t & enc & Hp & _ & He & Hk & _ & Hmac & _).
    exists v, h, hlen, e, t. repeat (split; [assumption|]).
    intros Ehk Hne. exists (take hlen file). split; [exact Hne|]. rewrite <- Ehk. exact Hmac.
  Qed.

  (* (I4) on files: [f] honestly written, [f'] any byte string that starts with the same outer header
     bytes and is accepted under the same key elements *)
  Theorem altered_file_classification cfg d vd els atts xml f minor f' r' :
    c_version cfg = KDB4 minor -> minor < 2 ^ 16 ->
    draws_ok cfg d = true ->
    Permutation vd (vd_of_kdf (c_kdf cfg) (d_kdf_seed d)) ->
    kdf_params_ok (c_kdf cfg) = true ->
    dump4 cfg d vd els atts xml = Ok f ->
    let header := outer_header_dump minor (c_outer cfg) (c_compression cfg) (d_iv d) (d_master_seed d) vd in
    take (length header) f' = header ->
    decrypt4 f' els = Ok r' ->
    exists e t p ct enc,
      els = Ok e
      /\ kdf (c_kdf cfg) (d_kdf_seed d) (composite_key e) = Ok t
      /\ compress (c_compression cfg) (inner_header_dump (c_inner cfg) (d_inner_key d) atts ++ xml) = Ok p
      /\ outer_enc (c_outer cfg) (master_key_of (d_master_seed d) t) (d_iv d) p = Ok ct
      /\ let hk := hmac_key_of (d_master_seed d) t in
         let stream' := drop (length header + 64) f' in
         f = header ++ sha256 header ++ header_mac hk header ++ write_blocks ct hk
         /\ take 32 (drop (length header + 32) f') = header_mac hk header
         /\ read_blocks (S (length stream')) 0 stream' hk [] = Ok enc
         /\ open_payload (KDB4 minor)
              (mkOuter (c_outer cfg) (c_compression cfg) (d_master_seed d) (d_iv d) (c_kdf cfg) (d_kdf_seed d))
              t enc = Ok r'
         /\ (Forgery hk (honest_triples ct) stream'
             \/ (enc = ct /\ exists rest, stream' = write_blocks ct hk ++ rest)).
  Proof.
    intros Hver Hminor Hdraws Hperm Hkdf Hdump header Hhead Hacc.
    destruct (header_conditions cfg d vd Hdraws Hkdf Hperm) as (Hiv & Hms & Hvl & Hvok & Hik).
    destruct (dump4_inv sha256 sha512 hmac256 kdf outer_enc compress cfg d vd els atts xml f minor Hver Hdump)
      as (e & t & p & ct & Hels & Ek & Eik & Ec & Ee & Hfile).
    cbv zeta in Hfile. fold header in Hfile.
    destruct (decrypt4_accept_inv f' els r' Hacc)
      as (v & h & hlen & e' & t' & enc & Hp & Hlen & He' & Hk' & Hsha & Hmac & Hrd & Hopen).
    assert (Hf' : f' = header ++ drop (length header) f').
    { rewrite <- Hhead at 1. symmetry. apply take_drop. }
    rewrite Hf' in Hp. unfold header in Hp at 1.
    rewrite (parse_outer_header_dump minor (c_outer cfg) (c_compression cfg) (d_iv d) (d_master_seed d) vd
               (c_kdf cfg) (d_kdf_seed d)) in Hp by assumption.
    fold header in Hp. apply Ok_inj in Hp. apply triple_inj in Hp. destruct Hp as (<- & <- & <-).
    cbn [h_cipher h_compression h_master_seed h_iv h_kdf h_kdf_seed] in *.
    rewrite Hels in He'. apply Ok_inj in He'. subst e'.
    rewrite Ek in Hk'. apply Ok_inj in Hk'. subst t'.
    rewrite Hhead in Hmac.
    exists e, t, p, ct, enc. repeat (split; [assumption|]). cbv zeta.
    repeat (split; [assumption|]).
    exact (accepted_stream_classification sha512 hmac256 _ _ _ ct enc Hrd).
  Qed.

  (* the headline: an accepted file with the honest header that opens DIFFERENTLY from what was written
     carries a forged block MAC *)
  Section headline.
    Hypothesis dec_enc : forall c key iv p ct, outer_enc c key iv p = Ok ct -> outer_dec c key iv ct = Ok p.
    Hypothesis decompress_compress : forall z p c, compress z p = Ok c -> decompress z c = Ok p.

    Theorem altered_file_is_forgery cfg d vd els atts xml f minor f' r' :
      c_version cfg = KDB4 minor -> minor < 2 ^ 16 ->
      draws_ok cfg d = true ->
      Permutation vd (vd_of_kdf (c_kdf cfg) (d_kdf_seed d)) ->
      kdf_params_ok (c_kdf cfg) = true ->
      atts_ok atts = true ->
      dump4 cfg d vd els atts xml = Ok f ->
      let header := outer_header_dump minor (c_outer cfg) (c_compression cfg) (d_iv d) (d_master_seed d) vd in
      take (length header) f' = header ->
      decrypt4 f' els = Ok r' ->
      r' <> (cfg, atts, d_inner_key d, xml) ->
      exists e t p ct,
        els = Ok e
        /\ kdf (c_kdf cfg) (d_kdf_seed d) (composite_key e) = Ok t
        /\ compress (c_compression cfg) (inner_header_dump (c_inner cfg) (d_inner_key d) atts ++ xml) = Ok p
        /\ outer_enc (c_outer cfg) (master_key_of (d_master_seed d) t) (d_iv d) p = Ok ct
        /\ let hk := hmac_key_of (d_master_seed d) t in
           f = header ++ sha256 header ++ header_mac hk header ++ write_blocks ct hk
           /\ Forgery hk (honest_triples ct) (drop (length header + 64) f').
    Proof.
      intros Hver Hminor Hdraws Hperm Hkdf Hatts Hdump header Hhead Hacc Hdiff.
      destruct (header_conditions cfg d vd Hdraws Hkdf Hperm) as (Hiv & Hms & Hvl & Hvok & Hik).
      destruct (altered_file_classification cfg d vd els atts xml f minor f' r'
                  Hver Hminor Hdraws Hperm Hkdf Hdump Hhead Hacc)
        as (e & t & p & ct & enc & Hels & Ek & Ec & Ee & Hrest).
      cbv zeta in Hrest. fold header in Hrest.
      destruct Hrest as (Hfile & Hmac & Hrd & Hopen & Hclass).
      exists e, t, p, ct. do 4 (split; [assumption|]). cbv zeta. split; [exact Hfile|].
      assert (Hsame : enc = ct -> False).
      { intro E. subst enc. apply Hdiff. unfold open_payload in Hopen.
        cbn [h_cipher h_compression h_master_seed h_iv h_kdf h_kdf_seed] in Hopen.
        rewrite (dec_enc _ _ _ _ _ Ee) in Hopen. cbn [bind] in Hopen.
        rewrite (decompress_compress _ _ _ Ec) in Hopen. cbn [bind] in Hopen.
        rewrite parse_inner_header_dump in Hopen by assumption. cbn [bind] in Hopen.
        destruct (dump4_inv sha256 sha512 hmac256 kdf outer_enc compress cfg d vd els atts xml f minor Hver Hdump)
          as (e0 & t0 & p0 & ct0 & _ & _ & Eik & _).
        rewrite Eik in Hopen. cbn [negb] in Hopen. apply Ok_inj in Hopen. rewrite <- Hopen.
        destruct cfg as [ver oc zc ic kc]. cbn [c_version c_outer c_compression c_inner c_kdf] in *.
        rewrite Hver. reflexivity. }
      destruct Hclass as [F|(E & _)].
      - exact F.
      - contradiction.
    Qed.

    (* no assumption on the header bytes of [f']: if the header [f'] carries leads to the same HMAC key
       (same KDF parameters, KDF seed and master seed) then a different header is a header-MAC forgery, and
       the same header falls under the previous theorem *)
    Theorem altered_file_same_key cfg d vd els atts xml f minor f' r' :
      c_version cfg = KDB4 minor -> minor < 2 ^ 16 ->
      draws_ok cfg d = true ->
      Permutation vd (vd_of_kdf (c_kdf cfg) (d_kdf_seed d)) ->
      kdf_params_ok (c_kdf cfg) = true ->
      atts_ok atts = true ->
      dump4 cfg d vd els atts xml = Ok f ->
      let header := outer_header_dump minor (c_outer cfg) (c_compression cfg) (d_iv d) (d_master_seed d) vd in
      decrypt4 f' els = Ok r' ->
      r' <> (cfg, atts, d_inner_key d, xml) ->
      exists e t p ct v h hlen,
        els = Ok e
        /\ kdf (c_kdf cfg) (d_kdf_seed d) (composite_key e) = Ok t
        /\ compress (c_compression cfg) (inner_header_dump (c_inner cfg) (d_inner_key d) atts ++ xml) = Ok p
        /\ outer_enc (c_outer cfg) (master_key_of (d_master_seed d) t) (d_iv d) p = Ok ct
        /\ parse_outer_header f' = Ok (v, h, hlen)
        /\ let hk := hmac_key_of (d_master_seed d) t in
           f = header ++ sha256 header ++ header_mac hk header ++ write_blocks ct hk
           /\ (h_kdf h = c_kdf cfg -> h_kdf_seed h = d_kdf_seed d -> h_master_seed h = d_master_seed d ->
               (take hlen f' <> header /\ take 32 (drop (hlen + 32) f') = header_mac hk (take hlen f'))
               \/ (take hlen f' = header
                   /\ Forgery hk (honest_triples ct) (drop (hlen + 64) f'))).
    Proof.
      intros Hver Hminor Hdraws Hperm Hkdf Hatts Hdump header Hacc Hdiff.
      destruct (dump4_inv sha256 sha512 hmac256 kdf outer_enc compress cfg d vd els atts xml f minor Hver Hdump)
        as (e & t & p & ct & Hels & Ek & Eik & Ec & Ee & Hfile).
      cbv zeta in Hfile. fold header in Hfile.
      destruct (decrypt4_accept_inv f' els r' Hacc)
        as (v & h & hlen & e' & t' & enc & Hp & Hlen & He' & Hk' & Hsha & Hmac & Hrd & Hopen).
      rewrite Hels in He'. apply Ok_inj in He'. subst e'.
      exists e, t, p, ct, v, h, hlen. do 5 (split; [assumption|]). cbv zeta. split; [exact Hfile|].
      intros E1 E2 E3. rewrite E1, E2 in Hk'. rewrite Ek in Hk'. apply Ok_inj in Hk'. subst t'.
      rewrite E3 in Hmac.
      destruct (bytes_eq_dec (take hlen f') header) as [Eh|Nh].
      - right. split; [exact Eh|].
        assert (Hl : length header = hlen).
        { rewrite <- Eh. apply take_length. lia. }
        assert (Hhead : take (length header) f' = header) by (rewrite Hl; exact Eh).
        destruct (altered_file_is_forgery cfg d vd els atts xml f minor f' r'
                    Hver Hminor Hdraws Hperm Hkdf Hatts Hdump Hhead Hacc Hdiff)
          as (e0 & t0 & p0 & ct0 & Hels0 & Ek0 & Ec0 & Ee0 & Hrest).
        cbv zeta in Hrest. fold header in Hrest. destruct Hrest as [_ Hcl].
        rewrite Hels in Hels0. apply Ok_inj in Hels0. subst e0.
        rewrite Ek in Ek0. apply Ok_inj in Ek0. subst t0.
        rewrite Ec in Ec0. apply Ok_inj in Ec0. subst p0.
        rewrite Ee in Ee0. apply Ok_inj in Ee0. subst ct0.
        rewrite Hl in Hcl. exact Hcl.
      - left. split; [exact Nh|exact Hmac].
    Qed.
  End headline.
End file_integrity.

Print Assumptions read_blocks_sound.
Print Assumptions read_blocks_sound_bytes.
Print Assumptions read_blocks_empty_stream.
Print Assumptions read_blocks_cut.
Print Assumptions read_blocks_needs_closing_block.
Print Assumptions honest_stream_cut_is_rejected.
Print Assumptions write_blocks_frames.
Print Assumptions accepted_stream_classification.
Print Assumptions altered_stream_is_forgery.
Print Assumptions altered_stream_same_payload.
Print Assumptions decrypt4_accept_inv.
Print Assumptions altered_header_is_forgery.
Print Assumptions altered_file_classification.
Print Assumptions altered_file_is_forgery.
Print Assumptions altered_file_same_key.

(* Database::save followed by Database::open is the identity: the container framing (Kdbx4.v) and the XML
   object mapping (xml/Xml*.v) COMPOSED.

   Mirrors   src/db/mod.rs                 Database::save, Database::open, Database::parse
             src/format/kdbx4/dump.rs      dump_kdbx4
             src/format/kdbx4/parse.rs     parse_kdbx4 (decrypt_kdbx4 is Kdbx4.decrypt4)
             src/xml_db/dump/mod.rs        dump            (EmitterConfig ... create_writer, db.dump_xml)
             src/xml_db/parse/mod.rs       parse / parse_from_bytes (EventReader, the filter_map).

   The glue, as read off the Rust:
   - WRITING.  dump_kdbx4 draws master seed, IV, inner stream key and KDF seed ([draws]); it builds the inner
     cipher from  db.config.inner_cipher_config  and the DRAWN key, writes the inner header with that same
     cipher id and key and  db.header_attachments,  and then lets xml_db::dump::dump write ONE document
     behind it, the protected values XORed with that cipher's stream in document order.  So the XML layer
     gets  keystream (c_inner cfg) (d_inner_key draws).
   - READING.  decrypt_kdbx4 returns the configuration (version, outer cipher, compression and KDF from the
     OUTER header; the inner cipher id from the INNER header), the attachments of the inner header, the
     inner cipher built from the INNER header's id and key, and the bytes after the inner header.
     parse_kdbx4 hands those bytes and that cipher to xml_db::parse::parse and assembles
         Database { config, header_attachments, root, deleted_objects, meta }.
     So the XML layer gets  keystream (c_inner cfg') ikey'  with cfg', ikey' as READ.
   - GZip of <Binary Compressed="True"> is the fixed GZipCompression (xml_db/dump/meta.rs,
     xml_db/parse/meta.rs): it does NOT depend on  config.compression_config.  Hence [gzip]/[gunzip] are
     variables of their own ([gzip_of]/[gunzip_of] below tie them to compress CGzip / decompress CGzip).
   - Database::parse dispatches on DatabaseVersion::parse(data) BEFORE parse_kdbx4 is entered; the KDBX4
     outer-header reader itself accepts any version.  [open_model] has the dispatch; the readers of the
     other formats are a variable ([other_formats]) that the theorems never reach.
   - The xml-rs writer fails (xml::writer::Error -> DatabaseSaveError) iff some Value::Bytes is not UTF-8
     ([XmlDump.dump_fails]); this happens after the key derivation and the inner cipher set-up and before
     compression ([dump4_before_xml] gives the errors that come first).

   Trusted, as variables: the hashes, MAC, KDF, outer ciphers, compression (as in Kdbx4.v), GZip, the inner
   stream generator [keystream], and the TEXT layer of xml-rs:
       render : list ev -> bytes     EventWriter (perform_indent(false)): the events the DumpXml impls emit,
                                     in the vocabulary of XmlTypes.ev, to document text
       lex    : bytes -> list ev     EventReader + the filter_map of parse_from_bytes.
   Not modelled: I/O errors of the Read / Write arguments, getrandom failures (the draws are given),
   challenge-response keys. *)
From Coq Require Import Lia Permutation.
From KP Require Import Bytes Outcome LE LEFacts Version Kdbx4 Kdbx4Facts Kdbx4Proofs Kdbx4Total Kdbx4Integrity.
From KP Require Import XmlTypes XmlDump XmlParse XmlSpec XmlStream XmlRoundTrip XmlTotal.
Local Open Scope N_scope.
Local Open Scope outcome_scope.

(* ------------------------------------------------------------------------------------------ *)
(* Errors of the composed functions: DatabaseOpenError / DatabaseSaveError by origin *)
Inductive ferr :=
| FContainer (e : kerr)        (* everything Kdbx4.v reports: integrity, key, cipher, compression, version *)
| FXmlRead (e : xerr)          (* DatabaseOpenError::DatabaseIntegrity(Xml(XmlParseError)) *)
| FXmlWrite.                   (* DatabaseSaveError::Xml: the xml-rs writer refused (Value::Bytes not UTF-8) *)

Definition map_err {E F A} (f : E -> F) (x : outcome E A) : outcome F A :=
  match x with Ok a => Ok a | Err e => Err (f e) | Panic n => Panic n | OutOfFuel => OutOfFuel end.

Lemma map_err_ok_inv {E F A} (f : E -> F) (x : outcome E A) a : map_err f x = Ok a -> x = Ok a.
Proof. destruct x; cbn [map_err]; intro H; try discriminate H. apply Ok_inj in H. rewrite H. reflexivity. Qed.

Lemma good_map_err {E F A} (f : E -> F) (x : outcome E A) : good x -> good (map_err f x).
Proof. destruct x; exact (fun H => H). Qed.

(* struct Database: config, header_attachments, and (meta, root, deleted_objects) = XmlTypes.content *)
Record database := mkDb { db_config : config; db_attachments : list attachment; db_content : content }.

(* ------------------------------------------------------------------------------------------ *)
(* The writer refuses exactly outside [wf_content]'s domain as far as Value::Bytes goes: a well-formed
   content has no Value::Bytes at all *)
Lemma value_fails_wf v : wf_value v = true -> value_fails v = false.
Proof. destruct v; cbn [wf_value value_fails]; intro H; [reflexivity|reflexivity|discriminate H]. Qed.
Lemma value_fails_wf_field v : wf_field_value v = true -> value_fails v = false.
Proof. destruct v; cbn [wf_field_value value_fails]; intro H; [reflexivity|reflexivity|discriminate H]. Qed.

Lemma existsb_forallb {A} (p q : A -> bool) (l : list A) :
  Forall (fun x => q x = true -> p x = false) l -> forallb q l = true -> existsb p l = false.
Proof.
  induction 1 as [|x r Hx _ IH]; [reflexivity|]. cbn [forallb existsb]. intro H.
  apply andb_true_iff in H. destruct H as [Hq Hr]. rewrite (Hx Hq), (IH Hr). reflexivity.
Qed.

Ltac split_ands :=
  repeat match goal with
         | H : (_ && _)%bool = true |- _ => apply andb_true_iff in H; destruct H
         end.

Lemma cd_fails_wf c : wf_custom_data c = true -> cd_fails c = false.
Proof.
  unfold wf_custom_data, cd_fails. intro H. apply andb_true_iff in H. destruct H as [_ H].
  revert H. apply existsb_forallb. apply Forall_forall. intros kv _ Hk.
  unfold wf_cditem in Hk. split_ands.
  destruct (cd_value (snd kv)) as [v|]; [apply value_fails_wf; assumption|reflexivity].
Qed.

Lemma entry_fails_hist h :
  (fix any (l : list entry) : bool := match l with [] => false | x :: r => entry_fails x || any r end) h
  = existsb entry_fails h.
Proof. induction h as [|x r IH]; [reflexivity|]. cbn [existsb]. rewrite <- IH. reflexivity. Qed.

Lemma entry_fails_wf e : wf_entry e = true -> entry_fails e = false.
Proof.
  induction e as [uuid fields aty tags tms cd icon cicon fg bg url qc hist IH] using entry_ind'.
  intro H. cbn [wf_entry] in H. cbn [entry_fails].
  apply andb_true_iff in H. destruct H as [H Hh]. split_ands.
  assert (Hf : existsb (fun kv => value_fails (snd kv)) fields = false).
  { match goal with Hw : forallb wf_field fields = true |- _ => revert Hw end.
    apply existsb_forallb. apply Forall_forall. intros kv _ Hk. unfold wf_field in Hk. split_ands.
    apply value_fails_wf_field. assumption. }
  rewrite Hf, cd_fails_wf by assumption. cbn [orb].
  destruct hist as [h|]; [|reflexivity].
  rewrite wf_hist_forallb in Hh. rewrite entry_fails_hist. revert Hh. apply existsb_forallb. exact IH.
Qed.

Definition node_fails (c : entry + group) : bool :=
  match c with inl e => entry_fails e | inr g => group_fails g end.
Lemma group_fails_children l :
  (fix any (l : list (entry + group)) : bool :=
     match l with
     | [] => false
     | inl e :: r => entry_fails e || any r
     | inr g' :: r => group_fails g' || any r
     end) l = existsb node_fails l.
Proof. induction l as [|[e|g] r IH]; [reflexivity| |]; cbn [existsb node_fails]; rewrite <- IH; reflexivity. Qed.

Lemma group_fails_wf g : wf_group g = true -> group_fails g = false.
Proof.
  induction g as [uuid name notes icon cicon children tms cd exp das ea es ltve IH] using group_ind'.
  intro H. cbn [wf_group] in H. cbn [group_fails].
  apply andb_true_iff in H. destruct H as [H Hc]. split_ands.
  rewrite cd_fails_wf by assumption. cbn [orb].
  rewrite wf_children_forallb in Hc. rewrite group_fails_children. revert Hc. apply existsb_forallb.
  apply Forall_forall. intros c Hin. rewrite Forall_forall in IH. specialize (IH c Hin).
  destruct c as [e|g']; cbn [wf_node node_fails]; [apply entry_fails_wf|exact IH].
Qed.

Theorem wf_content_dump_succeeds gzip gunzip c : wf_content gzip gunzip c = true -> dump_fails c = false.
Proof.
  unfold wf_content, dump_fails. intro H. split_ands.
  rewrite group_fails_wf by assumption.
  match goal with Hm : wf_meta _ _ _ = true |- _ => unfold wf_meta in Hm end. split_ands.
  rewrite cd_fails_wf by assumption. reflexivity.
Qed.

(* ------------------------------------------------------------------------------------------ *)
(* The version an accepted KDBX4 container carries is the version DatabaseVersion::parse reports *)
Lemma parse_outer_header_version data v h n :
  parse_outer_header data = Ok (v, h, n) -> version_parse data = Ok v.
Proof.
  unfold parse_outer_header. destruct (version_parse data) as [v0|e| |]; try discriminate.
  destruct (outer_fields _ _ _) as [[a rest']| | |]; cbn [bind]; try discriminate.
  destruct (oa_cipher a); [|discriminate]. destruct (oa_compression a); [|discriminate].
  destruct (oa_seed a); [|discriminate]. destruct (oa_iv a); [|discriminate].
  destruct (oa_kdf a) as [[k ks]|]; [|discriminate].
  intro H. apply Ok_inj in H. injection H as -> _ _. reflexivity.
Qed.

(* ========================================================================================== *)
Section save_open.
  (* the primitives of the container *)
  Variables (sha256 sha512 : bytes -> bytes) (hmac256 : bytes -> bytes -> bytes)
            (kdf : kdfcfg -> bytes -> bytes -> res bytes)
            (outer_enc outer_dec : ocipher -> bytes -> bytes -> bytes -> res bytes)
            (compress decompress : compression -> bytes -> res bytes).
  (* GZipCompression as used for <Binary Compressed="True"> *)
  Variable gzip : bytes -> bytes.
  Variable gunzip : bytes -> option bytes.
  (* the text layer of xml-rs *)
  Variable render : list ev -> bytes.
  Variable lex : bytes -> list ev.
  (* InnerCipherConfig::get_cipher(key), as the stream it will XOR with; Plain: zeros *)
  Variable keystream : icipher -> bytes -> bytes.
  (* parse_kdb, parse_kdbx3, and the UnsupportedVersion answer for KDB2 *)
  Variable other_formats : dbversion -> bytes -> res (list bytes) -> outcome ferr database.

  Notation dump4 := (dump4 sha256 sha512 hmac256 kdf outer_enc compress).
  Notation decrypt4 := (decrypt4 sha256 sha512 hmac256 kdf outer_dec decompress).

  (* -------------------------------------------------------------------------------------- *)
  (* Database::save *)

  (* the events of the document the writer emits: the content, with the stream of the CONFIGURED inner
     cipher under the DRAWN key *)
  Definition document (db : database) (d : draws) : list ev :=
    dump_events gzip (db_content db) (keystream (c_inner (db_config db)) (d_inner_key d)).

  (* the steps of dump_kdbx4 that can fail before the XML writer runs: version check, key elements, KDF,
     inner cipher (dump4 with compression and encryption that cannot fail) *)
  Definition dump4_before_xml (cfg : config) (d : draws) (vd : vdict) (elements : res (list bytes)) : res bytes :=
    Kdbx4.dump4 sha256 sha512 hmac256 kdf (fun _ _ _ p => Ok p) (fun _ p => Ok p) cfg d vd elements [] [].

  (* [elements] is DatabaseKey::get_key_elements, [d] what getrandom delivered, [vd] the iteration order of
     the KDF parameter HashMap *)
  Definition save_model (db : database) (d : draws) (vd : vdict) (elements : res (list bytes))
    : outcome ferr bytes :=
    if dump_fails (db_content db) then
      bind (map_err FContainer (dump4_before_xml (db_config db) d vd elements)) (fun _ => Err FXmlWrite)
    else
      map_err FContainer
        (dump4 (db_config db) d vd elements (db_attachments db) (render (document db d))).

  (* -------------------------------------------------------------------------------------- *)
  (* Database::open *)

  (* parse_kdbx4: the XML layer gets the cipher id and the key READ from the inner header *)
  Definition parse_kdbx4_model (file : bytes) (elements : res (list bytes)) : outcome ferr database :=
    do (cak, xml) <- map_err FContainer (decrypt4 file elements);
    let '(cfg, atts, ikey) := cak in
    do c <- map_err FXmlRead (parse_events gunzip (lex xml) (keystream (c_inner cfg) ikey));
    Ok (mkDb cfg atts c).

  (* Database::open = read_to_end, then Database::parse: the dispatch on the version *)
  Definition open_model (file : bytes) (elements : res (list bytes)) : outcome ferr database :=
    match version_parse file with
    | Ok (KDB4 _) => parse_kdbx4_model file elements
    | Ok v => other_formats v file elements
    | Err e => Err (FContainer (version_err e))
    | Panic n => Panic n
    | OutOfFuel => OutOfFuel
    end.

  (* -------------------------------------------------------------------------------------- *)
  (* plumbing *)

  Lemma save_model_ok_inv db d vd els file :
    save_model db d vd els = Ok file ->
    dump_fails (db_content db) = false
    /\ dump4 (db_config db) d vd els (db_attachments db) (render (document db d)) = Ok file.
  Proof.
    unfold save_model. destruct (dump_fails (db_content db)).
    - destruct (dump4_before_xml (db_config db) d vd els); cbn [map_err bind]; discriminate.
    - intro H. split; [reflexivity|]. exact (map_err_ok_inv _ _ _ H).
  Qed.

  Lemma dump4_ok_version cfg d vd els atts xml file minor :
    c_version cfg = KDB4 minor -> minor < 2 ^ 16 ->
    dump4 cfg d vd els atts xml = Ok file -> version_parse file = Ok (KDB4 minor).
  Proof.
    intros Hver Hminor Hdump.
    destruct (dump4_inv sha256 sha512 hmac256 kdf outer_enc compress cfg d vd els atts xml file minor Hver Hdump)
      as (e & t & p & ct & _ & _ & _ & _ & _ & Hfile).
    cbv zeta in Hfile. subst file. unfold outer_header_dump. rewrite <- !app_assoc.
    apply version_parse_dump. exact Hminor.
  Qed.

  Lemma decrypt4_ok_version file els cfg atts k x :
    decrypt4 file els = Ok (cfg, atts, k, x) -> version_parse file = Ok (c_version cfg).
  Proof.
    intro H.
    destruct (decrypt4_accept_inv sha256 sha512 hmac256 kdf outer_dec decompress file els _ H)
      as (v & h & hlen & e & t & enc & Hp & _ & _ & _ & _ & _ & _ & Ho).
    rewrite (parse_outer_header_version _ _ _ _ Hp). f_equal.
    unfold open_payload in Ho.
    destruct (outer_dec _ _ _ _) as [pc| | |]; cbn [bind] in Ho; try discriminate Ho.
    destruct (decompress _ _) as [pl| | |]; cbn [bind] in Ho; try discriminate Ho.
    destruct (parse_inner_header pl) as [[[[a ic] ik] xml]| | |]; cbn [bind] in Ho; try discriminate Ho.
    destruct (negb (inner_key_ok ic ik)); [discriminate Ho|].
    apply Ok_inj in Ho. injection Ho as <- _ _ _. reflexivity.
  Qed.

  (* on a KDBX4 file Database::parse is parse_kdbx4 *)
  Lemma open_model_kdbx4 file els minor :
    version_parse file = Ok (KDB4 minor) -> open_model file els = parse_kdbx4_model file els.
  Proof. intro H. unfold open_model. rewrite H. reflexivity. Qed.

  (* the output sizes the reader relies on when it slices the header hash and the header MAC off the file *)
  Hypothesis sha256_length : forall m, length (sha256 m) = 32%nat.
  Hypothesis hmac256_length : forall k m, length (hmac256 k m) = 32%nat.
  (* the inverse laws of the outer cipher and of the compression *)
  Hypothesis dec_enc : forall c key iv p ct, outer_enc c key iv p = Ok ct -> outer_dec c key iv ct = Ok p.
  Hypothesis decompress_compress : forall z p c, compress z p = Ok c -> decompress z c = Ok p.
  (* the inner stream consists of bytes *)
  Hypothesis keystream_bytes : forall c k, bytes_ok (keystream c k) = true.

  (* THE XML HALF: a container that yields the written configuration, attachments, inner key and document
     text opens as the written database, provided the xml-rs reader gives back the events of THIS document *)
  Lemma parse_kdbx4_of_frame db d file els :
    wf_content gzip gunzip (db_content db) = true ->
    lex (render (document db d)) = document db d ->
    decrypt4 file els = Ok (db_config db, db_attachments db, d_inner_key d, render (document db d)) ->
    parse_kdbx4_model file els = Ok db.
  Proof.
    intros Hwf Hlex Hdec. unfold parse_kdbx4_model. rewrite Hdec. cbn [map_err bind].
    rewrite Hlex. unfold document.
    rewrite (parse_dump_roundtrip gzip gunzip _ _ Hwf (keystream_bytes _ _)). cbn [map_err bind].
    destruct db; reflexivity.
  Qed.

  (* ====================================================================================== *)
  (* THE END-TO-END THEOREM: save followed by open is the identity.
     The text-layer premise is about the one document at hand. *)
  Theorem save_open_identity :
    forall (cfg : config) (atts : list attachment) (c : content)
           (d : draws) (vd : vdict) (elements : res (list bytes)) (file : bytes) (minor : N),
    let db := mkDb cfg atts c in
    (* the container's side conditions (frame_roundtrip_small_file) *)
    c_version cfg = KDB4 minor -> minor < 2 ^ 16 ->
    draws_ok cfg d = true ->
    Permutation vd (vd_of_kdf (c_kdf cfg) (d_kdf_seed d)) ->
    kdf_params_ok (c_kdf cfg) = true ->
    atts_ok atts = true ->
    (* the object mapping's side condition (parse_dump_roundtrip) *)
    wf_content gzip gunzip c = true ->
    (* xml-rs reads back the events of the document it wrote *)
    lex (render (document db d)) = document db d ->
    save_model db d vd elements = Ok file ->
    N.of_nat (length file) < 2 ^ 32 ->
    open_model file elements = Ok db.
  Proof.
    intros cfg atts c d vd els file minor db Hver Hminor Hdraws Hperm Hkdf Hatts Hwf Hlex Hsave Hsize.
    destruct (save_model_ok_inv db d vd els file Hsave) as [_ Hdump].
    cbn [db db_config db_attachments] in Hdump.
    rewrite (open_model_kdbx4 file els minor (dump4_ok_version _ _ _ _ _ _ _ _ Hver Hminor Hdump)).
    apply (parse_kdbx4_of_frame db d file els Hwf Hlex).
    exact (frame_roundtrip_small_file sha256 sha512 hmac256 kdf outer_enc outer_dec compress decompress
             dec_enc decompress_compress sha256_length hmac256_length
             cfg d vd els atts _ file minor Hver Hminor Hdraws Hperm Hkdf Hatts Hdump Hsize).
  Qed.

  (* the same with the text layer's inverse law stated once and for all, for the documents of well-formed
     contents *)
  Corollary save_open_identity_law :
    (forall c ks, wf_content gzip gunzip c = true -> bytes_ok ks = true ->
                  lex (render (dump_events gzip c ks)) = dump_events gzip c ks) ->
    forall cfg atts c d vd elements file minor,
    c_version cfg = KDB4 minor -> minor < 2 ^ 16 ->
    draws_ok cfg d = true ->
    Permutation vd (vd_of_kdf (c_kdf cfg) (d_kdf_seed d)) ->
    kdf_params_ok (c_kdf cfg) = true ->
    atts_ok atts = true ->
    wf_content gzip gunzip c = true ->
    save_model (mkDb cfg atts c) d vd elements = Ok file ->
    N.of_nat (length file) < 2 ^ 32 ->
    open_model file elements = Ok (mkDb cfg atts c).
  Proof.
    intros Hlaw cfg atts c d vd els file minor Hver Hminor Hdraws Hperm Hkdf Hatts Hwf Hsave Hsize.
    apply (save_open_identity cfg atts c d vd els file minor); try assumption.
    unfold document. cbn [db_content db_config]. apply Hlaw; [exact Hwf|apply keystream_bytes].
  Qed.

  (* the writer's own order of the KDF dictionary *)
  Corollary save_open_identity_default_order :
    (forall c ks, wf_content gzip gunzip c = true -> bytes_ok ks = true ->
                  lex (render (dump_events gzip c ks)) = dump_events gzip c ks) ->
    forall cfg atts c d elements file minor,
    c_version cfg = KDB4 minor -> minor < 2 ^ 16 ->
    draws_ok cfg d = true -> kdf_params_ok (c_kdf cfg) = true -> atts_ok atts = true ->
    wf_content gzip gunzip c = true ->
    save_model (mkDb cfg atts c) d (vd_of_kdf (c_kdf cfg) (d_kdf_seed d)) elements = Ok file ->
    N.of_nat (length file) < 2 ^ 32 ->
    open_model file elements = Ok (mkDb cfg atts c).
  Proof.
    intros Hlaw cfg atts c d els file minor Hver Hminor Hdraws Hkdf Hatts Hwf Hsave Hsize.
    apply (save_open_identity_law Hlaw cfg atts c d (vd_of_kdf (c_kdf cfg) (d_kdf_seed d)) els file minor);
      try assumption.
    apply Permutation_refl.
  Qed.

  (* ====================================================================================== *)
  (* WRONG KEY: other key elements are rejected with IncorrectKey - before anything is decrypted, let alone
     parsed - unless the two header MACs collide.  Needs neither the inverse laws nor well-formedness. *)
  Theorem save_open_wrong_key :
    forall cfg atts c d vd elements file minor e e' t t',
    c_version cfg = KDB4 minor -> minor < 2 ^ 16 ->
    draws_ok cfg d = true ->
    Permutation vd (vd_of_kdf (c_kdf cfg) (d_kdf_seed d)) ->
    kdf_params_ok (c_kdf cfg) = true ->
    save_model (mkDb cfg atts c) d vd elements = Ok file ->
    elements = Ok e ->
    kdf (c_kdf cfg) (d_kdf_seed d) (composite_key sha256 e) = Ok t ->
    kdf (c_kdf cfg) (d_kdf_seed d) (composite_key sha256 e') = Ok t' ->
    let header := outer_header_dump minor (c_outer cfg) (c_compression cfg) (d_iv d) (d_master_seed d) vd in
    header_mac sha512 hmac256 (hmac_key_of sha512 (d_master_seed d) t) header
      <> header_mac sha512 hmac256 (hmac_key_of sha512 (d_master_seed d) t') header ->
    open_model file (Ok e') = Err (FContainer EIncorrectKey).
  Proof.
    intros cfg atts c d vd els file minor e e' t t' Hver Hminor Hdraws Hperm Hkdf Hsave Hels Ek Ek' header Hne.
    destruct (save_model_ok_inv _ d vd els file Hsave) as [_ Hdump]. cbn [db_config db_attachments] in Hdump.
    rewrite (open_model_kdbx4 file _ minor (dump4_ok_version _ _ _ _ _ _ _ _ Hver Hminor Hdump)).
    unfold parse_kdbx4_model.
    rewrite (frame_wrong_key sha256 sha512 hmac256 kdf outer_enc outer_dec compress decompress
               sha256_length hmac256_length cfg d vd els atts _ file minor e e' t t'
               Hver Hminor Hdraws Hperm Hkdf Hdump Hels Ek Ek' Hne).
    reflexivity.
  Qed.

  (* no credentials: nothing is ever opened as a KDBX4 database *)
  Theorem parse_kdbx4_no_credentials file e db : parse_kdbx4_model file (Err e) <> Ok db.
  Proof using.
    unfold parse_kdbx4_model. intro H.
    destruct (decrypt4 file (Err e)) as [r| | |] eqn:E; cbn [map_err bind] in H; try discriminate H.
    exact (decrypt4_no_credentials sha256 sha512 hmac256 kdf outer_dec decompress file e r E).
  Qed.

  (* ====================================================================================== *)
  (* INTEGRITY: a file that starts with the honest outer header and opens, under the same key elements, as
     a database OTHER than the one saved carries a forged block MAC. *)
  Theorem save_open_altered_file :
    forall cfg atts c d vd elements f minor f' db',
    let db := mkDb cfg atts c in
    c_version cfg = KDB4 minor -> minor < 2 ^ 16 ->
    draws_ok cfg d = true ->
    Permutation vd (vd_of_kdf (c_kdf cfg) (d_kdf_seed d)) ->
    kdf_params_ok (c_kdf cfg) = true ->
    atts_ok atts = true ->
    wf_content gzip gunzip c = true ->
    lex (render (document db d)) = document db d ->
    save_model db d vd elements = Ok f ->
    let header := outer_header_dump minor (c_outer cfg) (c_compression cfg) (d_iv d) (d_master_seed d) vd in
    take (length header) f' = header ->
    open_model f' elements = Ok db' ->
    db' <> db ->
    exists e t p ct,
      elements = Ok e
      /\ kdf (c_kdf cfg) (d_kdf_seed d) (composite_key sha256 e) = Ok t
      /\ compress (c_compression cfg)
           (inner_header_dump (c_inner cfg) (d_inner_key d) atts ++ render (document db d)) = Ok p
      /\ outer_enc (c_outer cfg) (master_key_of sha256 (d_master_seed d) t) (d_iv d) p = Ok ct
      /\ let hk := hmac_key_of sha512 (d_master_seed d) t in
         f = header ++ sha256 header ++ header_mac sha512 hmac256 hk header ++ write_blocks sha512 hmac256 ct hk
         /\ Forgery sha512 hmac256 hk (honest_triples ct) (drop (length header + 64) f').
  Proof.
    intros cfg atts c d vd els f minor f' db' db Hver Hminor Hdraws Hperm Hkdf Hatts Hwf Hlex Hsave header
           Hhead Hopen Hdiff.
    destruct (save_model_ok_inv db d vd els f Hsave) as [_ Hdump]. cbn [db db_config db_attachments] in Hdump.
    assert (Hv' : version_parse f' = Ok (KDB4 minor)).
    { rewrite <- (take_drop (length header) f'), Hhead. unfold header, outer_header_dump.
      rewrite <- !app_assoc. apply version_parse_dump. exact Hminor. }
    rewrite (open_model_kdbx4 f' els minor Hv') in Hopen.
    destruct (decrypt4 f' els) as [r'| | |] eqn:Edec;
      try (unfold parse_kdbx4_model in Hopen; rewrite Edec in Hopen; cbn [map_err bind] in Hopen; discriminate Hopen).
    apply (altered_file_is_forgery sha256 sha512 hmac256 kdf outer_enc outer_dec compress decompress
             dec_enc decompress_compress cfg d vd els atts (render (document db d)) f minor f' r'
             Hver Hminor Hdraws Hperm Hkdf Hatts Hdump Hhead Edec).
    intro Er. subst r'. apply Hdiff.
    pose proof (parse_kdbx4_of_frame db d f' els Hwf Hlex Edec) as Hdb.
    rewrite Hdb in Hopen. apply Ok_inj in Hopen. symmetry. exact Hopen.
  Qed.

  (* ====================================================================================== *)
  (* TOTALITY: neither function panics or hangs unless a primitive does.  No well-formedness, no inverse
     law; any bytes, any database value. *)
  Theorem save_model_total db d vd elements :
    good elements ->
    (forall k s c, good (kdf k s c)) ->
    (forall z p, good (compress z p)) ->
    (forall c k iv p, good (outer_enc c k iv p)) ->
    good (save_model db d vd elements).
  Proof using.
    intros Hels Hkdf Hz Henc. unfold save_model. destruct (dump_fails (db_content db)).
    - apply good_bind; [|intros; exact I]. apply good_map_err. unfold dump4_before_xml.
      apply dump4_total; try assumption; intros; exact I.
    - apply good_map_err. apply dump4_total; assumption.
  Qed.

  Theorem parse_kdbx4_model_total file elements :
    good elements ->
    (forall k s c, good (kdf k s c)) ->
    (forall c k iv p, good (outer_dec c k iv p)) ->
    (forall z p, good (decompress z p)) ->
    good (parse_kdbx4_model file elements).
  Proof using.
    intros Hels Hkdf Hdec Hz. unfold parse_kdbx4_model.
    apply good_bind; [apply good_map_err; apply decrypt4_total; assumption|].
    intros [[[cfg atts] ikey] xml] _.
    apply good_bind; [|intros; exact I]. apply good_map_err.
    destruct (parse_events_total gunzip (lex xml) (keystream (c_inner cfg) ikey)) as [[c E]|[e E]];
      rewrite E; exact I.
  Qed.

  Theorem open_model_total file elements :
    good elements ->
    (forall k s c, good (kdf k s c)) ->
    (forall c k iv p, good (outer_dec c k iv p)) ->
    (forall z p, good (decompress z p)) ->
    (forall v f e, good (other_formats v f e)) ->
    good (open_model file elements).
  Proof using.
    intros Hels Hkdf Hdec Hz Hother. unfold open_model.
    pose proof (version_parse_good file) as Hv.
    destruct (version_parse file) as [v|e| |]; cbn [good] in Hv; try contradiction; [|exact I].
    destruct v; try apply Hother. apply parse_kdbx4_model_total; assumption.
  Qed.

  (* the same in the "never Panic, never OutOfFuel" form *)
  Corollary save_model_never_panics_never_hangs db d vd elements :
    good elements ->
    (forall k s c, good (kdf k s c)) ->
    (forall z p, good (compress z p)) ->
    (forall c k iv p, good (outer_enc c k iv p)) ->
    (forall n, save_model db d vd elements <> Panic n) /\ save_model db d vd elements <> OutOfFuel.
  Proof using. intros. apply good_spec. apply save_model_total; assumption. Qed.

  Corollary open_model_never_panics_never_hangs file elements :
    good elements ->
    (forall k s c, good (kdf k s c)) ->
    (forall c k iv p, good (outer_dec c k iv p)) ->
    (forall z p, good (decompress z p)) ->
    (forall v f e, good (other_formats v f e)) ->
    (forall n, open_model file elements <> Panic n) /\ open_model file elements <> OutOfFuel.
  Proof using. intros. apply good_spec. apply open_model_total; assumption. Qed.

  (* -------------------------------------------------------------------------------------- *)
  (* GZip of the binaries is the container's GZip: the XML layer's two functions out of compress CGzip and
     decompress CGzip, and the per-binary condition of [wf_binary] from the inverse law *)
  Definition gzip_of (p : bytes) : bytes := match compress CGzip p with Ok z => z | _ => [] end.
  Definition gunzip_of (w : bytes) : option bytes := match decompress CGzip w with Ok p => Some p | _ => None end.
  Lemma gunzip_of_gzip_of p z : compress CGzip p = Ok z -> gunzip_of (gzip_of p) = Some p.
  Proof.
    intro H. unfold gzip_of, gunzip_of. rewrite H, (decompress_compress _ _ _ H). reflexivity.
  Qed.
End save_open.

(* ========================================================================================== *)
(* NON-VACUITY.  Toy primitives that satisfy every hypothesis (identity ciphers and compression, constant
   hashes, a key-dependent inner stream, a length-prefixed injective text encoding standing for xml-rs), a
   database with a header attachment, a GZip-compressed binary, an entry with a protected and an
   unprotected field, a deleted object, Argon2id parameters written in REVERSED dictionary order: the
   theorem applies, and the two models evaluate to the same answer. *)
Module Toy.
  Definition sha256 (_ : bytes) : bytes := zeros 32.
  Definition sha512 (_ : bytes) : bytes := zeros 64.
  Definition hmac256 (_ _ : bytes) : bytes := zeros 32.
  Definition kdf (_ : kdfcfg) (_ composite : bytes) : res bytes := Ok composite.
  Definition cipher (_ : ocipher) (_ _ p : bytes) : res bytes := Ok p.          (* encrypt = decrypt *)
  Definition zip (_ : compression) (p : bytes) : res bytes := Ok p.             (* compress = decompress *)
  Definition gzip (b : bytes) : bytes := 31 :: b.
  Definition gunzip (w : bytes) : option bytes := match w with 31 :: b => Some b | _ => None end.
  Definition keystream (c : icipher) (k : bytes) : bytes :=
    match c with
    | IPlain => zeros 64
    | _ => map (fun b => (b * 7 + 3) mod 256) (k ++ k ++ k)
    end.
  Definition other (_ : dbversion) (_ : bytes) (_ : res (list bytes)) : outcome ferr database :=
    Err (FContainer EUnsupported).

  (* events <-> text: tag, then strings with a one-byte length *)
  Definition str (s : bytes) : bytes := N.of_nat (length s) :: s.
  Definition render_ev (e : ev) : bytes :=
    match e with
    | EStart n attrs => 0 :: str n ++ N.of_nat (length attrs) :: concat (map (fun kv => str (fst kv) ++ str (snd kv)) attrs)
    | EEnd n => 1 :: str n
    | EChars t => 2 :: str t
    | EErr => [3]
    end.
  Definition render (evs : list ev) : bytes := concat (map render_ev evs).

  Definition get_str (b : bytes) : bytes * bytes :=
    match b with n :: r => (take (N.to_nat n) r, drop (N.to_nat n) r) | [] => ([], []) end.
  Fixpoint get_attrs (k : nat) (b : bytes) : list (bytes * bytes) * bytes :=
    match k with
    | O => ([], b)
    | S k' => let (key, r1) := get_str b in let (v, r2) := get_str r1 in
              let (rest, r3) := get_attrs k' r2 in ((key, v) :: rest, r3)
    end.
  Fixpoint lex_fuel (fuel : nat) (b : bytes) : list ev :=
    match fuel with
    | O => []
    | S f =>
      match b with
      | [] => []
      | 0 :: r => let (n, r1) := get_str r in
                  match r1 with
                  | na :: r2 => let (attrs, r3) := get_attrs (N.to_nat na) r2 in EStart n attrs :: lex_fuel f r3
                  | [] => [EErr]
                  end
      | 1 :: r => let (n, r1) := get_str r in EEnd n :: lex_fuel f r1
      | 2 :: r => let (t, r1) := get_str r in EChars t :: lex_fuel f r1
      | _ => [EErr]
      end
    end.
  Definition lex (b : bytes) : list ev := lex_fuel (length b) b.

  Lemma keystream_bytes c k : bytes_ok (keystream c k) = true.
  Proof.
    destruct c; [reflexivity| |]; unfold keystream, bytes_ok; apply forallb_forall; intros x Hx;
      apply in_map_iff in Hx; destruct Hx as [y [<- _]]; apply N.ltb_lt; apply N.mod_lt; discriminate.
  Qed.

  (* the database *)
  Definition uuid_a : bytes := [1;2;3;4;5;6;7;8;9;10;11;12;13;14;15;16].
  Definition uuid_b : bytes := [16;15;14;13;12;11;10;9;8;7;6;5;4;3;2;255].
  Definition the_entry : entry :=
    mkEntry uuid_a
            [ ([80;97;115;115;119;111;114;100], VProtected [104;117;110;116;101;114;50]);      (* Password *)
              ([84;105;116;108;101], VUnprotected [109;97;105;108]) ]                           (* Title *)
            None [[119;111;114;107]] times_default [] (Some 7) None None None None None
            (Some [mkEntry uuid_a [([80;97;115;115;119;111;114;100], VProtected [111;108;100])]
                           None [] times_default [] None None None None None None None]).
  Definition the_root : group :=
    mkGroup uuid_b [82;111;111;116] None None None [inl the_entry] times_default [] true None None None None.
  Definition the_meta : meta :=
    set_m_binaries [mkBinary (Some [48]) true [1;2;3]] (set_m_database_name (Some [100;98]) meta_default).
  Definition the_content : content := mkContent the_meta the_root [mkDelObj uuid_b 1700000000%Z].

  Definition the_cfg : config := mkConfig (KDB4 1) OChaCha20 CGzip ISalsa20 (KArgon2 true 2 65536 2 V13).
  Definition the_atts : list attachment := [mkAtt 1 [9;9;9]].
  Definition the_db : database := mkDb the_cfg the_atts the_content.
  Definition the_draws : draws :=
    mkDraws (zeros 32) (map N.of_nat (seq 100 12)) (map N.of_nat (seq 5 32)) (map N.of_nat (seq 60 32)).
  Definition the_vd : vdict := rev (vd_of_kdf (c_kdf the_cfg) (d_kdf_seed the_draws)).
  Definition the_elements : res (list bytes) := Ok [sha256 [112;119]].

  Definition save := save_model sha256 sha512 hmac256 kdf cipher zip gzip render keystream.
  Definition open := open_model sha256 sha512 hmac256 kdf cipher zip gunzip lex keystream other.
  Definition the_file : bytes := match save the_db the_draws the_vd the_elements with Ok f => f | _ => [] end.

  (* by evaluation *)
  Example save_succeeds : save the_db the_draws the_vd the_elements = Ok the_file.
  Proof. vm_compute. reflexivity. Qed.
  Example open_of_save_computed : open the_file the_elements = Ok the_db.
  Proof. vm_compute. reflexivity. Qed.
  (* the protected value is not in the document as it stands: the stream is not all zeros *)
  Example stream_is_used :
    dump_events gzip the_content (keystream ISalsa20 (d_inner_key the_draws))
    <> dump_events gzip the_content (keystream IPlain (d_inner_key the_draws)).
  Proof. vm_compute. discriminate. Qed.

  (* the writer-side failure and its place in the order of errors: a Value::Bytes that is not UTF-8 makes
     the xml-rs writer refuse; missing credentials are reported before the XML writer is reached *)
  Definition bad_db : database :=
    mkDb the_cfg the_atts
         (mkContent the_meta
                    (mkGroup uuid_b [82] None None None
                             [inl (mkEntry uuid_a [([75], XmlTypes.VBytes [255])] None [] times_default []
                                           None None None None None None None)]
                             times_default [] true None None None None) []).
  Example save_refuses_non_utf8_bytes : save bad_db the_draws the_vd the_elements = Err FXmlWrite.
  Proof. vm_compute. reflexivity. Qed.
  Example key_error_comes_first :
    save bad_db the_draws the_vd (Err EIncorrectKey) = Err (FContainer EIncorrectKey).
  Proof. vm_compute. reflexivity. Qed.
  (* the dispatch of Database::parse: a KDBX 3.1 version header never reaches parse_kdbx4 *)
  Example kdbx3_goes_elsewhere :
    open ([3;217;162;154; 103;251;75;181; 1;0; 3;0] ++ drop 12 the_file) the_elements = Err (FContainer EUnsupported).
  Proof. vm_compute. reflexivity. Qed.

  (* by the theorem: all its hypotheses hold of the toy *)
  Example open_of_save_by_theorem : open the_file the_elements = Ok the_db.
  Proof.
    unfold open, the_db.
    apply (save_open_identity sha256 sha512 hmac256 kdf cipher cipher zip zip gzip gunzip render lex keystream other)
      with (d := the_draws) (vd := the_vd) (minor := 1).
    - intro m. reflexivity.                                        (* sha256_length *)
    - intros k m. reflexivity.                                     (* hmac256_length *)
    - intros c key iv p ct H. unfold cipher in *. congruence.      (* dec_enc *)
    - intros z p c H. unfold zip in *. congruence.                 (* decompress_compress *)
    - exact keystream_bytes.
    - reflexivity.
    - reflexivity.
    - vm_compute. reflexivity.
    - unfold the_vd. apply Permutation_sym, Permutation_rev.
    - reflexivity.
    - reflexivity.
    - vm_compute. reflexivity.
    - vm_compute. reflexivity.                                     (* lex (render document) = document *)
    - exact save_succeeds.
    - vm_compute. reflexivity.
  Qed.
End Toy.

Print Assumptions save_open_identity.
Print Assumptions save_open_identity_law.
Print Assumptions save_open_wrong_key.
Print Assumptions save_open_altered_file.
Print Assumptions save_model_total.
Print Assumptions open_model_total.
Print Assumptions wf_content_dump_succeeds.

(* KDBX4 container framing: reading never panics and never hangs (C06).
   For ARBITRARY byte strings -- no well-formedness assumption -- every loop of the reader has
   enough fuel, no [Panic] site is reachable, and hence [decrypt4] returns a value or an error
   whenever the primitives (KDF, outer cipher, decompression) and the credential source do.
   The same for the writer [dump4].

   (T1) per-loop fuel sufficiency:  vd_entries_good, vd_parse_good, outer_fields_good,
        inner_fields_good, read_blocks_good; and kdf_of_vd_good, version_parse_good,
        parse_outer_header_good, parse_inner_header_good.
   (T2) decrypt4_total.
   (T3) dump4_total.
   (T4) version_parse_take12 / version_parse_depends_on_12: the version depends on the first
        twelve bytes only (unconditionally, short inputs included). *)
From Coq Require Import Lia ZifyN ZifyNat ZifyBool.
From KP Require Import Bytes Outcome LE LEFacts Version Kdbx4.
Local Open Scope N_scope.

(* ---------- the predicate ---------- *)
Definition good {E A} (r : outcome E A) : Prop :=
  match r with Ok _ | Err _ => True | Panic _ | OutOfFuel => False end.

Definition goodb {E A} (r : outcome E A) : bool :=
  match r with Ok _ | Err _ => true | Panic _ | OutOfFuel => false end.

Lemma good_goodb {E A} (r : outcome E A) : good r <-> goodb r = true.
Proof. destruct r; cbn [good goodb]; split; intro H; try exact I; try reflexivity; try discriminate; contradiction. Qed.

Lemma good_spec {E A} (r : outcome E A) :
  good r <-> (forall n, r <> Panic n) /\ r <> OutOfFuel.
Proof.
  destruct r; cbn [good]; split; intro H; try exact I; try contradiction.
  - split; [intro n|]; discriminate.
  - split; [intro n|]; discriminate.
  - destruct H as [H _]. exact (H site eq_refl).
  - destruct H as [_ H]. exact (H eq_refl).
Qed.

Lemma good_cases {E A} (r : outcome E A) : good r -> (exists a, r = Ok a) \/ (exists e, r = Err e).
Proof. destruct r; cbn [good]; intro H; try contradiction; [left|right]; eexists; reflexivity. Qed.

Lemma good_bind {E A B} (x : outcome E A) (f : A -> outcome E B) :
  good x -> (forall a, x = Ok a -> good (f a)) -> good (bind x f).
Proof. destruct x; cbn [good bind]; intros H Hf; try contradiction; [apply Hf; reflexivity|exact I]. Qed.

(* ---------- plumbing ---------- *)
Lemma fits_le (n : N) (l : bytes) : fits n l = true -> (N.to_nat n <= length l)%nat.
Proof. unfold fits. intro H. apply N.leb_le in H. lia. Qed.

Lemma take_short n (l : bytes) : (length l <= n)%nat -> take n l = l.
Proof.
  revert l. induction n as [|k IH]; intros l H.
  - destruct l; [reflexivity|cbn [length] in H; lia].
  - destruct l as [|x r]; [reflexivity|]. cbn [take]. rewrite IH; [reflexivity|cbn [length] in H; lia].
Qed.

(* ---------- variant dictionary ---------- *)
Lemma vd_value_good ty vb : good (vd_value ty vb).
Proof.
  unfold vd_value. cbv zeta.
  repeat match goal with |- good (if ?c then _ else _) => destruct c end; exact I.
Qed.

(* every iteration strictly shortens [rest] (by at least nine bytes; one is all we need) *)
Lemma vd_entries_good : forall fuel rest acc,
  (length rest < fuel)%nat -> good (vd_entries fuel rest acc).
Proof.
  induction fuel as [|f IH]; intros rest acc H; [lia|].
  cbn [vd_entries]. destruct (Nat.ltb 9 (length rest)).
  - destruct rest as [|ty r1]; [exact I|].
    destruct (fits (le32 r1) (drop 4 r1)); cbn [negb]; [|exact I].
    destruct (Nat.ltb (length (drop 4 r1) - N.to_nat (le32 r1)) 4); [exact I|].
    set (r3 := drop (N.to_nat (le32 r1)) (drop 4 r1)).
    destruct (fits (le32 r3) (drop 4 r3)); cbn [negb]; [|exact I].
    apply good_bind; [apply vd_value_good|]. intros value _. apply IH.
    unfold r3. rewrite !drop_length. cbn [length] in H. lia.
  - destruct rest as [|b r]; [exact I|]. destruct (N.eqb b 0); exact I.
Qed.

(* the measure the Rust loop actually decreases: at least nine bytes per entry *)
Lemma vd_entries_good9 : forall fuel rest acc,
  (length rest < 9 * fuel)%nat -> good (vd_entries fuel rest acc).
Proof.
  induction fuel as [|f IH]; intros rest acc H; [lia|].
  cbn [vd_entries]. destruct (Nat.ltb 9 (length rest)).
  - destruct rest as [|ty r1]; [exact I|].
    destruct (fits (le32 r1) (drop 4 r1)) eqn:F1; cbn [negb]; [|exact I].
    destruct (Nat.ltb_spec (length (drop 4 r1) - N.to_nat (le32 r1)) 4) as [L|L]; [exact I|].
    set (r3 := drop (N.to_nat (le32 r1)) (drop 4 r1)) in *.
    destruct (fits (le32 r3) (drop 4 r3)); cbn [negb]; [|exact I].
    apply good_bind; [apply vd_value_good|]. intros value _. apply IH.
    unfold r3. rewrite !drop_length. rewrite drop_length in L. cbn [length] in H. lia.
  - destruct rest as [|b r]; [exact I|]. destruct (N.eqb b 0); exact I.
Qed.

Theorem vd_parse_good buffer : good (vd_parse buffer).
Proof.
  unfold vd_parse. destruct (Nat.ltb (length buffer) 2); [exact I|].
  destruct (negb (N.eqb (le_dec (take 2 buffer)) 256)); [exact I|].
  apply vd_entries_good. rewrite drop_length. lia.
Qed.

(* ---------- KDF configuration out of the dictionary ---------- *)
Lemma get_bytes_good k d : good (get_bytes k d).
Proof. unfold get_bytes. destruct (vd_lookup k d) as [[]|]; exact I. Qed.
Lemma get_u64_good k d : good (get_u64 k d).
Proof. unfold get_u64. destruct (vd_lookup k d) as [[]|]; exact I. Qed.
Lemma get_u32_good k d : good (get_u32 k d).
Proof. unfold get_u32. destruct (vd_lookup k d) as [[]|]; exact I. Qed.

Ltac good_binds :=
  repeat (apply good_bind;
          [first [apply get_bytes_good | apply get_u64_good | apply get_u32_good]|intros ? _]).

Theorem kdf_of_vd_good d : good (kdf_of_vd d).
Proof.
  unfold kdf_of_vd. apply good_bind; [apply get_bytes_good|]. intros uuid _.
  assert (Hargon : forall id : bool, good (
      do memory <- get_u64 k_M d;
      do salt <- get_bytes k_S d;
      do iterations <- get_u64 k_I d;
      do parallelism <- get_u32 k_P d;
      do version <- get_u32 k_V d;
      if N.eqb version 16 then Ok (KArgon2 id iterations memory parallelism V10, salt)
      else if N.eqb version 19 then Ok (KArgon2 id iterations memory parallelism V13, salt)
      else Err EKdfVersion)%outcome).
  { intro id. good_binds.
    repeat match goal with |- good (if ?c then _ else _) => destruct c end; exact I. }
  destruct (bytes_eqb uuid kdf_argon2id); [apply Hargon|].
  destruct (bytes_eqb uuid kdf_argon2); [apply Hargon|].
  destruct (bytes_eqb uuid kdf_aes_kdbx4 || bytes_eqb uuid kdf_aes_kdbx3); [|exact I].
  good_binds. exact I.
Qed.

(* ---------- one TLV ---------- *)
Lemma tlv_shorter rest ty buf rest' :
  tlv rest = Some (ty, buf, rest') -> (length rest' + 5 <= length rest)%nat.
Proof.
  unfold tlv. destruct rest as [|t r1]; [discriminate|].
  destruct (Nat.ltb_spec (length r1) 4) as [L|L]; [discriminate|].
  assert (E2 : length (drop 4 r1) = (length r1 - 4)%nat) by apply drop_length.
  revert E2. generalize (drop 4 r1). intros r2 E2.
  destruct (fits (le32 r1) r2); cbn [negb]; [|discriminate].
  intro H. injection H as _ _ H. subst rest'. rewrite drop_length. cbn [length]. lia.
Qed.

(* exact accounting: a TLV consumes its five-byte prefix and its buffer *)
Lemma tlv_length rest ty buf rest' :
  tlv rest = Some (ty, buf, rest') -> (length rest = 5 + length buf + length rest')%nat.
Proof.
  unfold tlv. destruct rest as [|t r1]; [discriminate|].
  destruct (Nat.ltb_spec (length r1) 4) as [L|L]; [discriminate|].
  assert (E2 : length (drop 4 r1) = (length r1 - 4)%nat) by apply drop_length.
  revert E2. generalize (drop 4 r1). intros r2 E2.
  destruct (fits (le32 r1) r2) eqn:F; cbn [negb]; [|discriminate].
  apply fits_le in F.
  intro H. injection H as _ Hb H. subst rest' buf.
  rewrite take_length by exact F.
  rewrite drop_length. cbn [length]. lia.
Qed.

(* ---------- outer header ---------- *)
Theorem outer_fields_good : forall fuel rest a,
  (length rest < fuel)%nat -> good (outer_fields fuel rest a).
Proof.
  induction fuel as [|f IH]; intros rest a H; [lia|].
  cbn [outer_fields]. destruct (tlv rest) as [[[ty buf] rest']|] eqn:T; [|exact I].
  apply tlv_shorter in T.
  assert (Hrec : forall a', good (outer_fields f rest' a')) by (intro a'; apply IH; lia).
  destruct (N.eqb ty 0); [exact I|].
  destruct (N.eqb ty 1); [apply Hrec|].
  destruct (N.eqb ty 2); [destruct (ocipher_of_id buf); [apply Hrec|exact I]|].
  destruct (N.eqb ty 3).
  { destruct (Nat.ltb (length buf) 4); [exact I|].
    destruct (compression_of_id (le32 buf)); [apply Hrec|exact I]. }
  destruct (N.eqb ty 4); [apply Hrec|].
  destruct (N.eqb ty 7); [apply Hrec|].
  destruct (N.eqb ty 11); [|exact I].
  apply good_bind; [apply vd_parse_good|]. intros d _.
  apply good_bind; [apply kdf_of_vd_good|]. intros ks _. apply Hrec.
Qed.

Theorem version_parse_good data : good (version_parse data).
Proof.
  unfold version_parse. cbv zeta.
  repeat match goal with |- good (if ?c then _ else _) => destruct c end; exact I.
Qed.

Theorem parse_outer_header_good data : good (parse_outer_header data).
Proof.
  unfold parse_outer_header.
  pose proof (version_parse_good data) as Hv.
  destruct (version_parse data) as [v|e| |]; cbn [good] in Hv; try contradiction; [|exact I].
  apply good_bind.
  - apply outer_fields_good. rewrite drop_length. lia.
  - intros [a rest'] _.
    destruct (oa_cipher a); [|exact I]. destruct (oa_compression a); [|exact I].
    destruct (oa_seed a); [|exact I]. destruct (oa_iv a); [|exact I].
    destruct (oa_kdf a) as [[k ks]|]; exact I.
Qed.

(* ---------- inner header ---------- *)
Theorem inner_fields_good : forall fuel rest a,
  (length rest < fuel)%nat -> good (inner_fields fuel rest a).
Proof.
  induction fuel as [|f IH]; intros rest a H; [lia|].
  cbn [inner_fields]. destruct (tlv rest) as [[[ty buf] rest']|] eqn:T; [|exact I].
  apply tlv_shorter in T.
  assert (Hrec : forall a', good (inner_fields f rest' a')) by (intro a'; apply IH; lia).
  destruct (N.eqb ty 0); [exact I|].
  destruct (N.eqb ty 1).
  { destruct (Nat.ltb (length buf) 4); [exact I|].
    destruct (icipher_of_id (le32 buf)); [apply Hrec|exact I]. }
  destruct (N.eqb ty 2); [apply Hrec|].
  destruct (N.eqb ty 3); [|exact I].
  destruct buf as [|fl content]; [exact I|apply Hrec].
Qed.

Theorem parse_inner_header_good payload : good (parse_inner_header payload).
Proof.
  unfold parse_inner_header. apply good_bind.
  - apply inner_fields_good. lia.
  - intros [a rest'] _. destruct (ia_stream a); [|exact I]. destruct (ia_key a); exact I.
Qed.

(* ---------- HMAC block stream ---------- *)
Section primitives.
  Variable sha256 sha512 : bytes -> bytes.
  Variable hmac256 : bytes -> bytes -> bytes.
  Variable kdf : kdfcfg -> bytes -> bytes -> res bytes.
  Variable outer_enc outer_dec : ocipher -> bytes -> bytes -> bytes -> res bytes.
  Variable compress decompress : compression -> bytes -> res bytes.

  (* no hypothesis on sha512 / hmac256: they are total functions to byte strings *)
  Theorem read_blocks_good : forall fuel idx stream key out,
    (length stream < fuel)%nat -> good (read_blocks sha512 hmac256 fuel idx stream key out).
  Proof.
    induction fuel as [|f IH]; intros idx stream key out H; [lia|].
    cbn [read_blocks]. destruct stream as [|b0 r0]; [exact I|].
    set (rest := b0 :: r0) in *.
    destruct (Nat.ltb_spec (length rest) 36) as [L|L]; [exact I|].
    destruct (fits (le_dec (take 4 (drop 32 rest))) (drop 36 rest)); cbn [negb]; [|exact I].
    match goal with |- good (if negb ?c then _ else _) => destruct c end; cbn [negb]; [|exact I].
    destruct (N.eqb (le_dec (take 4 (drop 32 rest))) 0); [exact I|].
    apply IH. rewrite !drop_length. lia.
  Qed.

  (* the measure the Rust loop actually decreases: at least 36 bytes per block *)
  Theorem read_blocks_good36 : forall fuel idx stream key out,
    (length stream < 36 * fuel)%nat -> good (read_blocks sha512 hmac256 fuel idx stream key out).
  Proof.
    induction fuel as [|f IH]; intros idx stream key out H; [lia|].
    cbn [read_blocks]. destruct stream as [|b0 r0]; [exact I|].
    set (rest := b0 :: r0) in *.
    destruct (Nat.ltb_spec (length rest) 36) as [L|L]; [exact I|].
    destruct (fits (le_dec (take 4 (drop 32 rest))) (drop 36 rest)); cbn [negb]; [|exact I].
    match goal with |- good (if negb ?c then _ else _) => destruct c end; cbn [negb]; [|exact I].
    destruct (N.eqb (le_dec (take 4 (drop 32 rest))) 0); [exact I|].
    apply IH. rewrite !drop_length. lia.
  Qed.

  (* ---------- (T2) the reader ---------- *)
  Theorem decrypt4_total : forall file els,
    good els ->
    (forall k s c, good (kdf k s c)) ->
    (forall c k iv d, good (outer_dec c k iv d)) ->
    (forall z d, good (decompress z d)) ->
    good (decrypt4 sha256 sha512 hmac256 kdf outer_dec decompress file els).
  Proof.
    intros file els Hels Hkdf Hdec Hz. unfold decrypt4.
    apply good_bind; [apply parse_outer_header_good|]. intros [[v h] hlen] _.
    destruct (Nat.ltb (length file) (hlen + 64)); [exact I|].
    match goal with |- good (if negb ?c then _ else _) => destruct c end; cbn [negb]; [|exact I].
    apply good_bind; [exact Hels|]. intros l _.
    apply good_bind; [apply Hkdf|]. intros transformed _.
    match goal with |- good (if negb ?c then _ else _) => destruct c end; cbn [negb]; [|exact I].
    apply good_bind; [apply read_blocks_good; lia|]. intros payload_enc _.
    apply good_bind; [apply Hdec|]. intros payload_comp _.
    apply good_bind; [apply Hz|]. intros payload _.
    apply good_bind; [apply parse_inner_header_good|]. intros [[[atts ic] ikey] xml] _.
    destruct (negb (inner_key_ok ic ikey)); exact I.
  Qed.

  (* ---------- (T3) the writer ---------- *)
  Theorem dump4_total : forall cfg d vd els atts xml,
    good els ->
    (forall k s c, good (kdf k s c)) ->
    (forall z p, good (compress z p)) ->
    (forall c k iv p, good (outer_enc c k iv p)) ->
    good (dump4 sha256 sha512 hmac256 kdf outer_enc compress cfg d vd els atts xml).
  Proof.
    intros cfg d vd els atts xml Hels Hkdf Hz Henc. unfold dump4.
    destruct (c_version cfg); try exact I.
    apply good_bind; [exact Hels|]. intros l _.
    apply good_bind; [apply Hkdf|]. intros transformed _.
    destruct (negb (inner_key_ok (c_inner cfg) (d_inner_key d))); [exact I|].
    apply good_bind; [apply Hz|]. intros compressed _.
    apply good_bind; [apply Henc|]. intros encrypted _. exact I.
  Qed.
End primitives.

(* the statements in the "never Panic, never OutOfFuel" form *)
Corollary decrypt4_never_panics_never_hangs sha256 sha512 hmac256 kdf outer_dec decompress file els :
  good els ->
  (forall k s c, good (kdf k s c)) ->
  (forall c k iv d, good (outer_dec c k iv d)) ->
  (forall z d, good (decompress z d)) ->
  (forall n, decrypt4 sha256 sha512 hmac256 kdf outer_dec decompress file els <> Panic n)
  /\ decrypt4 sha256 sha512 hmac256 kdf outer_dec decompress file els <> OutOfFuel.
Proof. intros. apply good_spec. apply decrypt4_total; assumption. Qed.

(* ---------- (T4) the version depends on the first twelve bytes only ---------- *)
Theorem version_parse_take12 data :
  version_parse (take version_header_size data) = version_parse data.
Proof.
  unfold version_header_size.
  destruct (Nat.leb_spec (length data) 12) as [L|L].
  - rewrite take_short by exact L. reflexivity.
  - do 12 (destruct data as [|? data]; [cbn [length] in L; lia|]). reflexivity.
Qed.

Corollary version_parse_depends_on_12 d1 d2 :
  take version_header_size d1 = take version_header_size d2 -> version_parse d1 = version_parse d2.
Proof. intro H. rewrite <- (version_parse_take12 d1), <- (version_parse_take12 d2), H. reflexivity. Qed.

Print Assumptions decrypt4_total.
Print Assumptions dump4_total.
Print Assumptions vd_parse_good.
Print Assumptions parse_outer_header_good.
Print Assumptions parse_inner_header_good.
Print Assumptions read_blocks_good.
Print Assumptions version_parse_take12.

(* KDBX4 container framing: the reader opens the file of ANY conforming writer (C01).
   Kdbx4Proofs.v proves the round trip for the crate's own writer (its order of the outer header
   fields, one data block).  Here, in the style of Kdbx3Proofs.v for the legacy format:
   (B) the HMAC block stream cut into any number of non-empty blocks          [read_blocks_partition]
   (O) the outer header with its fields in any order, comment fields anywhere,
       an end field with arbitrary content, the KDF dictionary in any order   [parse_outer_header_permuted]
   (I) the inner header with the stream id, the stream key and the attachment
       fields interleaved in any way that keeps the attachments' order        [parse_inner_header_permuted]
   (F) the whole reader on such a file, with ignored bytes after the closing
       block                                                                   [frame_roundtrip_conforming]
   What the model does with the cases excluded by hypothesis:
   - outer header: an unknown field type (not 0,1,2,3,4,7,11) is Err EInvalidOuterEntry; a repeated
     field is NOT an error, the last occurrence wins ([parse_outer_header_fields] covers repeated
     fields, the permutation statement excludes them);
   - inner header: there is no comment field (type 1 is the stream id); an unknown type (not 0,1,2,3)
     is Err EInvalidInnerEntry; a repeated stream id / key is not an error, the last one wins
     ([parse_inner_header_fields] covers that); attachments are numbered by position, so their
     relative order is the one thing that must be kept. *)
From Coq Require Import Lia ZifyN ZifyNat ZifyBool.
From Coq Require Import Permutation.
From KP Require Import Bytes Outcome LE LEFacts Version Kdbx4 Kdbx4Proofs Kdbx4Integrity.
Local Open Scope N_scope.

Definition short32 (b : bytes) : Prop := N.of_nat (length b) < 2 ^ 32.

(* ================================================================================================ *)
(* (B) the HMAC block stream, any partition                                                         *)
(* ================================================================================================ *)
Definition block_ok4 (b : bytes) : Prop := b <> [] /\ N.of_nat (length b) < 2 ^ 32.

(* a block as it goes on the wire: its size bytes and its content *)
Definition size_block (b : bytes) : bytes * bytes := (le_enc 4 (N.of_nat (length b)), b).

Section blocks4.
  Variable sha512 : bytes -> bytes.
  Variable hmac256 : bytes -> bytes -> bytes.
  (* HMAC-SHA-256 produces 32 bytes; the reader slices the MAC off by that size *)
  Hypothesis hmac256_length : forall k m, length (hmac256 k m) = 32%nat.

  Notation read_blocks := (read_blocks sha512 hmac256).
  Notation write_blocks := (write_blocks sha512 hmac256).
  Notation frame := (frame sha512 hmac256).
  Notation frames := (frames sha512 hmac256).

  (* the stream of a conforming writer: the blocks, consecutively indexed from [idx], then the empty
     closing block *)
  Definition write_blocks_multi (idx : N) (key : bytes) (blocks : list bytes) : bytes :=
    frames idx key (map size_block blocks) ++ frame (idx + N.of_nat (length blocks)) key (le_enc 4 0) [].

  Theorem read_blocks_partition_gen blocks : forall fuel idx key out rest,
    Forall block_ok4 blocks -> (length blocks < fuel)%nat ->
    read_blocks fuel idx
      (frames idx key (map size_block blocks)
       ++ frame (idx + N.of_nat (length blocks)) key (le_enc 4 0) [] ++ rest) key out
    = Ok (out ++ concat blocks).
  Proof.
    induction blocks as [|b r IH]; intros fuel idx key out rest Hok Hf.
    - destruct fuel as [|f]; [cbn [length] in Hf; lia|].
      cbn [map Kdbx4Integrity.frames app length N.of_nat concat]. rewrite N.add_0_r, app_nil_r.
      rewrite (read_blocks_frame sha512 hmac256 hmac256_length); [reflexivity|apply le_enc_length|reflexivity].
    - destruct fuel as [|f]; [cbn [length] in Hf; lia|]. cbn [length] in Hf.
      inversion Hok as [|x l [Hne Hb] Hr]; subst x l.
      cbn [map Kdbx4Integrity.frames length concat]. unfold size_block at 1 2. cbn [fst snd].
      rewrite <- app_assoc.
      rewrite (read_blocks_frame sha512 hmac256 hmac256_length);
        [|apply le_enc_length|apply le_dec_enc4; exact Hb].
      replace (N.eqb (N.of_nat (length b)) 0) with false
        by (symmetry; apply N.eqb_neq; destruct b as [|y b']; [congruence|cbn [length]; lia]).
      replace (idx + N.of_nat (S (length r))) with (idx + 1 + N.of_nat (length r)) by lia.
      rewrite IH; [|exact Hr|lia]. rewrite <- app_assoc. reflexivity.
  Qed.

  (* the statement as asked for: from index 0, with an empty accumulator *)
  Theorem read_blocks_partition blocks fuel key rest :
    Forall block_ok4 blocks -> (length blocks < fuel)%nat ->
    read_blocks fuel 0
      (frames 0 key (map (fun b => (le_enc 4 (N.of_nat (length b)), b)) blocks)
       ++ frame (N.of_nat (length blocks)) key (le_enc 4 0) [] ++ rest) key []
    = Ok (concat blocks).
  Proof.
    intros Hok Hf.
    exact (read_blocks_partition_gen blocks fuel 0 key [] rest Hok Hf).
  Qed.

  Lemma frame_length idx key sb b : length (frame idx key sb b) = (32 + length sb + length b)%nat.
  Proof.
    unfold Kdbx4Integrity.frame. rewrite !app_length.
    rewrite (block_mac_length sha512 hmac256 hmac256_length). lia.
  Qed.

  (* every data block costs at least 37 bytes *)
  Lemma frames_length_ge key blocks : forall idx,
    Forall block_ok4 blocks -> (37 * length blocks <= length (frames idx key (map size_block blocks)))%nat.
  Proof.
    induction blocks as [|b r IH]; intros idx Hok; [cbn [length]; lia|].
    inversion Hok as [|x l [Hne Hb] Hr]; subst x l.
    cbn [map Kdbx4Integrity.frames length]. rewrite app_length, frame_length.
    unfold size_block at 1 2. cbn [fst snd]. rewrite le_enc_length. specialize (IH (idx + 1) Hr).
    destruct b as [|b0 b']; [congruence|]. cbn [length]. lia.
  Qed.

  Lemma write_blocks_multi_length idx key blocks :
    Forall block_ok4 blocks -> (36 + 37 * length blocks <= length (write_blocks_multi idx key blocks))%nat.
  Proof.
    intro Hok. unfold write_blocks_multi. rewrite app_length, frame_length, le_enc_length.
    pose proof (frames_length_ge key blocks idx Hok). cbn [length]. lia.
  Qed.

  (* the fuel the reader passes: the length of the stream plus one *)
  Corollary read_blocks_partition_reader blocks key rest :
    Forall block_ok4 blocks ->
    read_blocks (S (length (write_blocks_multi 0 key blocks ++ rest))) 0
                (write_blocks_multi 0 key blocks ++ rest) key []
    = Ok (concat blocks).
  Proof.
    intro Hok. unfold write_blocks_multi at 2. rewrite <- app_assoc.
    apply (read_blocks_partition_gen blocks _ 0 key [] rest Hok).
    rewrite app_length. pose proof (write_blocks_multi_length 0 key blocks Hok). lia.
  Qed.

  (* in the vocabulary of partitions: every way of cutting the ciphertext [ct] into non-empty blocks *)
  Corollary read_blocks_any_partition ct blocks key rest :
    concat blocks = ct -> Forall block_ok4 blocks ->
    read_blocks (S (length (write_blocks_multi 0 key blocks ++ rest))) 0
                (write_blocks_multi 0 key blocks ++ rest) key []
    = Ok ct.
  Proof. intros <- Hok. apply read_blocks_partition_reader. exact Hok. Qed.

  (* the crate's writer is the partition into at most one block *)
  Definition one_block (ct : bytes) : list bytes := match ct with [] => [] | _ :: _ => [ct] end.

  Lemma one_block_concat ct : concat (one_block ct) = ct.
  Proof using. destruct ct as [|x r]; [reflexivity|]. cbn [one_block concat]. apply app_nil_r. Qed.

  Lemma one_block_ok ct : N.of_nat (length ct) < 2 ^ 32 -> Forall block_ok4 (one_block ct).
  Proof using.
    intro H. destruct ct as [|x r]; [constructor|]. cbn [one_block].
    constructor; [|constructor]. split; [discriminate|exact H].
  Qed.

  Lemma write_blocks_one_block ct key : write_blocks ct key = write_blocks_multi 0 key (one_block ct).
  Proof using.
    destruct ct as [|x r].
    - reflexivity.
    - unfold Kdbx4.write_blocks, write_blocks_multi. cbn [one_block map Kdbx4Integrity.frames length N.of_nat].
      unfold size_block, Kdbx4Integrity.frame. cbn [fst snd]. rewrite <- !app_assoc. cbn [app].
      rewrite app_nil_r. reflexivity.
  Qed.
End blocks4.

(* ================================================================================================ *)
(* (O) the outer header: any field order, comment fields, any end-field content                     *)
(* ================================================================================================ *)

(* what one field does to the accumulator: the last occurrence of a type wins; type 1 is a comment *)
Inductive oact :=
| OANone | OACipher (c : ocipher) | OACompression (z : compression) | OASeed (b : bytes) | OAIv (b : bytes)
| OAKdf (ks : kdfcfg * bytes).

Definition oact_of (f : N * bytes) : oact :=
  let ty := fst f in let buf := snd f in
  if N.eqb ty 2 then match ocipher_of_id buf with Some c => OACipher c | None => OANone end
  else if N.eqb ty 3 then match compression_of_id (le32 buf) with Some z => OACompression z | None => OANone end
  else if N.eqb ty 4 then OASeed buf
  else if N.eqb ty 7 then OAIv buf
  else if N.eqb ty 11 then
    match vd_parse buf with
    | Ok d => match kdf_of_vd d with Ok ks => OAKdf ks | _ => OANone end
    | _ => OANone
    end
  else OANone.

Definition do_oact (a : outer_acc) (x : oact) : outer_acc :=
  match x with
  | OANone => a
  | OACipher c => mkOA (Some c) (oa_compression a) (oa_seed a) (oa_iv a) (oa_kdf a)
  | OACompression z => mkOA (oa_cipher a) (Some z) (oa_seed a) (oa_iv a) (oa_kdf a)
  | OASeed b => mkOA (oa_cipher a) (oa_compression a) (Some b) (oa_iv a) (oa_kdf a)
  | OAIv b => mkOA (oa_cipher a) (oa_compression a) (oa_seed a) (Some b) (oa_kdf a)
  | OAKdf ks => mkOA (oa_cipher a) (oa_compression a) (oa_seed a) (oa_iv a) (Some ks)
  end.

Definition oact_slot (x : oact) : N :=
  match x with
  | OANone => 0 | OACipher _ => 2 | OACompression _ => 3 | OASeed _ => 4 | OAIv _ => 7 | OAKdf _ => 11
  end.

Definition apply_ofield (a : outer_acc) (f : N * bytes) : outer_acc := do_oact a (oact_of f).

(* a field the reader accepts *)
Inductive ofield_ok : N * bytes -> Prop :=
| oko_comment b : short32 b -> ofield_ok (1, b)
| oko_cipher b c : short32 b -> ocipher_of_id b = Some c -> ofield_ok (2, b)
| oko_compression b z : short32 b -> (4 <= length b)%nat -> compression_of_id (le32 b) = Some z -> ofield_ok (3, b)
| oko_seed b : short32 b -> ofield_ok (4, b)
| oko_iv b : short32 b -> ofield_ok (7, b)
| oko_kdf b d ks : short32 b -> vd_parse b = Ok d -> kdf_of_vd d = Ok ks -> ofield_ok (11, b).

Lemma ofield_ok_short ty b : ofield_ok (ty, b) -> short32 b.
Proof. intro H. inversion H; subst; assumption. Qed.

Lemma outer_fields_end_any f (end_buf rest : bytes) a :
  short32 end_buf -> outer_fields (S f) (field 0 end_buf ++ rest) a = Ok (a, rest).
Proof. intro Hs. cbn [outer_fields]. rewrite tlv_field by exact Hs. reflexivity. Qed.

Lemma outer_fields_step f ty buf rest a :
  ofield_ok (ty, buf) ->
  outer_fields (S f) (field ty buf ++ rest) a = outer_fields f rest (apply_ofield a (ty, buf)).
Proof.
  intro Hok. pose proof (ofield_ok_short ty buf Hok) as Hs.
  cbn [outer_fields]. rewrite tlv_field by exact Hs. clear Hs.
  unfold apply_ofield, oact_of. cbn [fst snd].
  inversion Hok as [b0 Hb|b0 c Hb Hc|b0 z Hb H4 Hz|b0 Hb|b0 Hb|b0 d ks Hb Hd Hks]; subst;
    cbn [N.eqb Pos.eqb]; try reflexivity.
  - rewrite Hc. reflexivity.
  - replace (Nat.ltb (length buf) 4) with false by (symmetry; apply Nat.ltb_ge; exact H4).
    rewrite Hz. reflexivity.
  - rewrite Hd. cbn [bind]. rewrite Hks. cbn [bind]. reflexivity.
Qed.

(* what is excluded above: a field of any other type is an error (so is a type-2/3/11 field whose
   content the reader cannot interpret) *)
Lemma outer_fields_unknown_type f ty buf rest a :
  short32 buf -> ~ In ty [0; 1; 2; 3; 4; 7; 11] ->
  outer_fields (S f) (field ty buf ++ rest) a = Err EInvalidOuterEntry.
Proof.
  intros Hs Hty. cbn [outer_fields]. rewrite tlv_field by exact Hs.
  repeat match goal with
         | |- context [N.eqb ty ?k] =>
           destruct (N.eqb_spec ty k) as [->|_]; [exfalso; apply Hty; cbn [In]; auto 10|]
         end.
  reflexivity.
Qed.

Notation dump_field4 := (fun f : N * bytes => field (fst f) (snd f)).

Theorem outer_fields_dump_any fields : forall fuel a (end_buf body : bytes),
  Forall ofield_ok fields -> short32 end_buf -> (length fields < fuel)%nat ->
  outer_fields fuel (concat (map dump_field4 fields) ++ field 0 end_buf ++ body) a
  = Ok (fold_left apply_ofield fields a, body).
Proof.
  induction fields as [|[ty buf] r IH]; intros fuel a end_buf body Hok He Hf.
  - destruct fuel as [|f]; [cbn [length] in Hf; lia|]. cbn [map concat app fold_left].
    apply outer_fields_end_any. exact He.
  - destruct fuel as [|f]; [cbn [length] in Hf; lia|]. cbn [length] in Hf.
    inversion Hok as [|x l Hx Hr]; subst x l.
    cbn [map concat fst snd fold_left]. rewrite <- app_assoc.
    rewrite outer_fields_step by exact Hx. apply IH; [exact Hr|exact He|lia].
Qed.

(* the header of a conforming writer: signature and version, the fields, the end field *)
Definition header_dump4 (minor : N) (fields : list (N * bytes)) (end_buf : bytes) : bytes :=
  version_dump minor ++ concat (map dump_field4 fields) ++ field 0 end_buf.

Definition acc_of_outer (h : outer_header) : outer_acc :=
  mkOA (Some (h_cipher h)) (Some (h_compression h)) (Some (h_master_seed h)) (Some (h_iv h))
       (Some (h_kdf h, h_kdf_seed h)).

Lemma ofields_concat_length_ge (fields : list (N * bytes)) :
  (5 * length fields <= length (concat (map dump_field4 fields)))%nat.
Proof.
  induction fields as [|[ty b] r IH]; [cbn; lia|].
  cbn [map concat length fst snd]. rewrite app_length, field_length. lia.
Qed.

Lemma header_dump4_length minor fields end_buf :
  length (header_dump4 minor fields end_buf)
  = (12 + length (concat (map dump_field4 fields)) + 5 + length end_buf)%nat.
Proof. unfold header_dump4. rewrite !app_length, version_dump_length, field_length. lia. Qed.

(* the general statement: any list of accepted fields (repeated ones included: the last one wins) *)
Theorem parse_outer_header_fields minor fields end_buf body h :
  minor < 2 ^ 16 ->
  Forall ofield_ok fields -> short32 end_buf ->
  fold_left apply_ofield fields (mkOA None None None None None) = acc_of_outer h ->
  parse_outer_header (header_dump4 minor fields end_buf ++ body)
  = Ok (KDB4 minor, h, length (header_dump4 minor fields end_buf)).
Proof.
  intros Hm Hok He Hfold.
  set (H := header_dump4 minor fields end_buf).
  assert (HL : length (H ++ body) = (length H + length body)%nat) by apply app_length.
  assert (Hfuel : (length fields < S (length (H ++ body)))%nat).
  { rewrite HL. unfold H. rewrite header_dump4_length. pose proof (ofields_concat_length_ge fields). lia. }
  unfold parse_outer_header. remember (length (H ++ body)) as L eqn:EL.
  unfold H at 1 2. unfold header_dump4. rewrite <- !app_assoc.
  rewrite version_parse_dump by exact Hm.
  unfold version_header_size. rewrite (drop_app_len 12) by apply version_dump_length.
  rewrite outer_fields_dump_any by assumption.
  cbn [bind]. rewrite Hfold. unfold acc_of_outer.
  cbn [oa_cipher oa_compression oa_seed oa_iv oa_kdf].
  replace (L - length body)%nat with (length H) by lia.
  destruct h; reflexivity.
Qed.

(* ---------- the canonical field list of a header, and every permutation of it ---------- *)
(* [vd] is the KDF dictionary as the writer serialises it (any order of its entries) *)
Definition canonical_ofields (h : outer_header) (vd : vdict) : list (N * bytes) :=
  [(2, ocipher_id (h_cipher h)); (3, le_enc 4 (compression_id (h_compression h)));
   (7, h_iv h); (4, h_master_seed h); (11, vd_dump vd)].

(* what the writer must respect for the header to be representable *)
Definition header4_ok (h : outer_header) (vd : vdict) : Prop :=
  short32 (h_master_seed h) /\ short32 (h_iv h) /\ short32 (vd_dump vd) /\ vd_ok vd = true /\
  Permutation vd (vd_of_kdf (h_kdf h) (h_kdf_seed h)).

Lemma header_dump4_canonical minor h vd :
  header_dump4 minor (canonical_ofields h vd) []
  = outer_header_dump minor (h_cipher h) (h_compression h) (h_iv h) (h_master_seed h) vd.
Proof.
  unfold header_dump4, canonical_ofields, outer_header_dump. cbn [map concat fst snd].
  rewrite <- !app_assoc. rewrite app_nil_l. reflexivity.
Qed.

Lemma oact_of_kdf h vd :
  vd_ok vd = true -> Permutation vd (vd_of_kdf (h_kdf h) (h_kdf_seed h)) ->
  oact_of (11, vd_dump vd) = OAKdf (h_kdf h, h_kdf_seed h).
Proof.
  intros Hok Hp. unfold oact_of. cbn [fst snd N.eqb Pos.eqb].
  rewrite vd_parse_dump by exact Hok. rewrite (kdf_of_vd_perm _ _ _ Hp). reflexivity.
Qed.

Lemma canonical_ofields_ok h vd : header4_ok h vd -> Forall ofield_ok (canonical_ofields h vd).
Proof.
  intros (Hms & Hiv & Hvl & Hvok & Hp). unfold canonical_ofields.
  repeat apply Forall_cons; try apply Forall_nil.
  - apply (oko_cipher _ (h_cipher h)); [unfold short32; rewrite ocipher_id_length, pow2_32; lia|].
    apply ocipher_of_id_id.
  - apply (oko_compression _ (h_compression h));
      [unfold short32; rewrite le_enc_length, pow2_32; lia|rewrite le_enc_length; lia|].
    apply compression_of_id_id.
  - apply oko_iv; exact Hiv.
  - apply oko_seed; exact Hms.
  - apply (oko_kdf _ vd (h_kdf h, h_kdf_seed h)); [exact Hvl|apply vd_parse_dump; exact Hvok|].
    apply kdf_of_vd_perm. exact Hp.
Qed.

(* whatever was accumulated before, the five fields overwrite all of it *)
Lemma canonical_ofields_fold h vd a :
  vd_ok vd = true -> Permutation vd (vd_of_kdf (h_kdf h) (h_kdf_seed h)) ->
  fold_left apply_ofield (canonical_ofields h vd) a = acc_of_outer h.
Proof.
  intros Hok Hp. unfold canonical_ofields. cbn [fold_left]. unfold apply_ofield.
  rewrite (oact_of_kdf h vd Hok Hp).
  unfold oact_of. cbn [fst snd N.eqb Pos.eqb].
  rewrite ocipher_of_id_id, compression_of_id_id. reflexivity.
Qed.

(* --- fields of different types commute --- *)
Lemma oact_of_slot f : oact_of f = OANone \/ oact_slot (oact_of f) = fst f.
Proof.
  unfold oact_of. cbv zeta.
  destruct (N.eqb_spec (fst f) 2) as [E|_];
    [destruct (ocipher_of_id (snd f)); [right; symmetry; exact E|left; reflexivity]|].
  destruct (N.eqb_spec (fst f) 3) as [E|_];
    [destruct (compression_of_id (le32 (snd f))); [right; symmetry; exact E|left; reflexivity]|].
  destruct (N.eqb_spec (fst f) 4) as [E|_]; [right; symmetry; exact E|].
  destruct (N.eqb_spec (fst f) 7) as [E|_]; [right; symmetry; exact E|].
  destruct (N.eqb_spec (fst f) 11) as [E|_]; [|left; reflexivity].
  destruct (vd_parse (snd f)) as [d| | |]; try (left; reflexivity).
  destruct (kdf_of_vd d) as [ks| | |]; try (left; reflexivity).
  right. symmetry. exact E.
Qed.

Lemma do_oact_comm a x y :
  x = OANone \/ y = OANone \/ oact_slot x <> oact_slot y -> do_oact (do_oact a x) y = do_oact (do_oact a y) x.
Proof.
  intro H. destruct x, y; try reflexivity; exfalso;
    destruct H as [H|[H|H]]; try discriminate H; apply H; reflexivity.
Qed.

Lemma apply_ofield_comm a f g :
  fst f <> fst g -> apply_ofield (apply_ofield a f) g = apply_ofield (apply_ofield a g) f.
Proof.
  intro Hne. unfold apply_ofield. apply do_oact_comm.
  destruct (oact_of_slot f) as [Hf|Hf]; [left; exact Hf|].
  destruct (oact_of_slot g) as [Hg|Hg]; [right; left; exact Hg|].
  right. right. rewrite Hf, Hg. exact Hne.
Qed.

Lemma apply_ofield_comment a f : fst f = 1 -> apply_ofield a f = a.
Proof. intro H. unfold apply_ofield, oact_of. cbv zeta. rewrite H. reflexivity. Qed.

Definition non_comment4 (f : N * bytes) : bool := negb (N.eqb (fst f) 1).

Lemma fold_filter_comments4 fields : forall a,
  fold_left apply_ofield (filter non_comment4 fields) a = fold_left apply_ofield fields a.
Proof.
  induction fields as [|x r IH]; intro a; [reflexivity|].
  cbn [filter]. unfold non_comment4 at 1. destruct (N.eqb_spec (fst x) 1) as [E|E]; cbn [negb fold_left].
  - rewrite (apply_ofield_comment a x E). apply IH.
  - apply IH.
Qed.

(* a list with pairwise distinct types folds to the same accumulator in every order *)
Theorem fold_apply_ofield_perm l l' :
  Permutation l l' -> NoDup (map fst l) -> forall a, fold_left apply_ofield l a = fold_left apply_ofield l' a.
Proof.
  intro Hp. induction Hp as [|x l l' Hp IH|x y l|l l' l'' Hp1 IH1 Hp2 IH2]; intros Hnd a.
  - reflexivity.
  - cbn [map] in Hnd. inversion Hnd as [|x0 l0 Hnotin Hnd']; subst x0 l0. cbn [fold_left]. apply IH. exact Hnd'.
  - cbn [map] in Hnd. inversion Hnd as [|x0 l0 Hnotin Hnd']; subst x0 l0. cbn [fold_left].
    rewrite (apply_ofield_comm a y x); [reflexivity|].
    intro E. apply Hnotin. left. symmetry. exact E.
  - rewrite IH1 by exact Hnd. apply IH2.
    apply (Permutation_NoDup (l := map fst l)); [apply Permutation_map; exact Hp1|exact Hnd].
Qed.

Lemma canonical_otypes_nodup h vd : NoDup (map fst (canonical_ofields h vd)).
Proof.
  unfold canonical_ofields. cbn [map fst].
  repeat (constructor; [cbn [In]; intro H; repeat (destruct H as [H|H]; [discriminate H|]); exact H|]).
  constructor.
Qed.

(* any arrangement of the five fields, comments anywhere *)
Theorem permuted_ofields_fold h vd fields a :
  vd_ok vd = true -> Permutation vd (vd_of_kdf (h_kdf h) (h_kdf_seed h)) ->
  Permutation (filter non_comment4 fields) (canonical_ofields h vd) ->
  fold_left apply_ofield fields a = acc_of_outer h.
Proof.
  intros Hok Hpv Hp. rewrite <- fold_filter_comments4.
  rewrite (fold_apply_ofield_perm _ (canonical_ofields h vd) Hp).
  - apply canonical_ofields_fold; assumption.
  - apply (Permutation_NoDup (l := map fst (canonical_ofields h vd))); [|apply canonical_otypes_nodup].
    apply Permutation_map. apply Permutation_sym. exact Hp.
Qed.

Lemma permuted_ofields_ok h vd fields :
  header4_ok h vd ->
  Forall (fun f => fst f = 1 -> short32 (snd f)) fields ->
  Permutation (filter non_comment4 fields) (canonical_ofields h vd) ->
  Forall ofield_ok fields.
Proof.
  intros Hh Hc Hp. apply Forall_forall. intros f Hin.
  destruct (non_comment4 f) eqn:E.
  - pose proof (canonical_ofields_ok h vd Hh) as Hok. rewrite Forall_forall in Hok. apply Hok.
    apply (Permutation_in (l := filter non_comment4 fields)); [exact Hp|].
    apply filter_In. split; assumption.
  - unfold non_comment4 in E. apply negb_false_iff in E. apply N.eqb_eq in E.
    rewrite Forall_forall in Hc. specialize (Hc f Hin E).
    destruct f as [ty b]. cbn [fst snd] in *. subst ty. apply oko_comment. exact Hc.
Qed.

(* the writer's field order, but an end field with arbitrary content *)
Corollary parse_outer_header_canonical minor h vd end_buf body :
  minor < 2 ^ 16 -> header4_ok h vd -> short32 end_buf ->
  parse_outer_header (header_dump4 minor (canonical_ofields h vd) end_buf ++ body)
  = Ok (KDB4 minor, h, length (header_dump4 minor (canonical_ofields h vd) end_buf)).
Proof.
  intros Hm Hh He. apply parse_outer_header_fields; [exact Hm|apply canonical_ofields_ok; exact Hh|exact He|].
  destruct Hh as (_ & _ & _ & Hok & Hp). apply canonical_ofields_fold; assumption.
Qed.

(* every order of the five fields, comment fields anywhere, an end field with arbitrary content, the
   KDF dictionary in any order: the same record as for the canonical order, and the exact length *)
Corollary parse_outer_header_permuted minor h vd fields end_buf body :
  minor < 2 ^ 16 -> header4_ok h vd -> short32 end_buf ->
  Forall (fun f => fst f = 1 -> short32 (snd f)) fields ->
  Permutation (filter non_comment4 fields) (canonical_ofields h vd) ->
  parse_outer_header (header_dump4 minor fields end_buf ++ body)
  = Ok (KDB4 minor, h, length (header_dump4 minor fields end_buf)).
Proof.
  intros Hm Hh He Hc Hp.
  apply parse_outer_header_fields; [exact Hm|apply (permuted_ofields_ok h vd); assumption|exact He|].
  destruct Hh as (_ & _ & _ & Hok & Hpv). apply (permuted_ofields_fold h vd); assumption.
Qed.

(* ================================================================================================ *)
(* (I) the inner header: stream id, stream key and attachments in any interleaving                  *)
(* ================================================================================================ *)

(* what one field does to the accumulator: the last stream id / key wins, attachments are appended *)
Definition apply_ifield (a : inner_acc) (f : N * bytes) : inner_acc :=
  let ty := fst f in let buf := snd f in
  if N.eqb ty 1 then
    match icipher_of_id (le32 buf) with Some c => mkIA (Some c) (ia_key a) (ia_atts a) | None => a end
  else if N.eqb ty 2 then mkIA (ia_stream a) (Some buf) (ia_atts a)
  else if N.eqb ty 3 then
    match buf with fl :: content => mkIA (ia_stream a) (ia_key a) (ia_atts a ++ [mkAtt fl content]) | [] => a end
  else a.

(* a field the reader accepts (there is no comment field in the inner header) *)
Inductive ifield_ok : N * bytes -> Prop :=
| oki_stream b c : short32 b -> (4 <= length b)%nat -> icipher_of_id (le32 b) = Some c -> ifield_ok (1, b)
| oki_key b : short32 b -> ifield_ok (2, b)
| oki_att fl content : short32 (fl :: content) -> ifield_ok (3, fl :: content).

Lemma ifield_ok_short ty b : ifield_ok (ty, b) -> short32 b.
Proof. intro H. inversion H; subst; assumption. Qed.

Lemma inner_fields_end_any f (end_buf rest : bytes) a :
  short32 end_buf -> inner_fields (S f) (field 0 end_buf ++ rest) a = Ok (a, rest).
Proof. intro Hs. cbn [inner_fields]. rewrite tlv_field by exact Hs. reflexivity. Qed.

Lemma inner_fields_step f ty buf rest a :
  ifield_ok (ty, buf) ->
  inner_fields (S f) (field ty buf ++ rest) a = inner_fields f rest (apply_ifield a (ty, buf)).
Proof.
  intro Hok. pose proof (ifield_ok_short ty buf Hok) as Hs.
  cbn [inner_fields]. rewrite tlv_field by exact Hs. clear Hs.
  unfold apply_ifield. cbn [fst snd].
  inversion Hok as [b0 c Hb H4 Hc|b0 Hb|fl content Hb]; subst; cbn [N.eqb Pos.eqb]; try reflexivity.
  replace (Nat.ltb (length buf) 4) with false by (symmetry; apply Nat.ltb_ge; exact H4).
  rewrite Hc. reflexivity.
Qed.

(* what is excluded above: a field of any other type is an error; so are a stream id the reader does
   not know, a stream-id field shorter than four bytes and an empty attachment field *)
Lemma inner_fields_unknown_type f ty buf rest a :
  short32 buf -> ~ In ty [0; 1; 2; 3] ->
  inner_fields (S f) (field ty buf ++ rest) a = Err EInvalidInnerEntry.
Proof.
  intros Hs Hty. cbn [inner_fields]. rewrite tlv_field by exact Hs.
  repeat match goal with
         | |- context [N.eqb ty ?k] =>
           destruct (N.eqb_spec ty k) as [->|_]; [exfalso; apply Hty; cbn [In]; auto 10|]
         end.
  reflexivity.
Qed.

Theorem inner_fields_dump_any fields : forall fuel a (end_buf body : bytes),
  Forall ifield_ok fields -> short32 end_buf -> (length fields < fuel)%nat ->
  inner_fields fuel (concat (map dump_field4 fields) ++ field 0 end_buf ++ body) a
  = Ok (fold_left apply_ifield fields a, body).
Proof.
  induction fields as [|[ty buf] r IH]; intros fuel a end_buf body Hok He Hf.
  - destruct fuel as [|f]; [cbn [length] in Hf; lia|]. cbn [map concat app fold_left].
    apply inner_fields_end_any. exact He.
  - destruct fuel as [|f]; [cbn [length] in Hf; lia|]. cbn [length] in Hf.
    inversion Hok as [|x l Hx Hr]; subst x l.
    cbn [map concat fst snd fold_left]. rewrite <- app_assoc.
    rewrite inner_fields_step by exact Hx. apply IH; [exact Hr|exact He|lia].
Qed.

(* the inner header of a conforming writer: the fields, the end field *)
Definition inner_dump4 (fields : list (N * bytes)) (end_buf : bytes) : bytes :=
  concat (map dump_field4 fields) ++ field 0 end_buf.

(* the general statement: any list of accepted fields (a repeated stream id or key included: the last
   one wins) *)
Theorem parse_inner_header_fields fields end_buf xml c key atts :
  Forall ifield_ok fields -> short32 end_buf ->
  fold_left apply_ifield fields (mkIA None None []) = mkIA (Some c) (Some key) atts ->
  parse_inner_header (inner_dump4 fields end_buf ++ xml) = Ok (atts, c, key, xml).
Proof.
  intros Hok He Hfold. unfold parse_inner_header.
  assert (Hfuel : (length fields < S (length (inner_dump4 fields end_buf ++ xml)))%nat).
  { unfold inner_dump4. rewrite !app_length. pose proof (ofields_concat_length_ge fields). lia. }
  remember (S (length (inner_dump4 fields end_buf ++ xml))) as fuel eqn:Ef. clear Ef.
  unfold inner_dump4. rewrite <- app_assoc.
  rewrite inner_fields_dump_any by assumption.
  cbn [bind]. rewrite Hfold. reflexivity.
Qed.

(* --- the accumulator is three independent components --- *)
Definition has_type (t : N) (f : N * bytes) : bool := N.eqb (fst f) t.

Definition stream_step (s : option icipher) (f : N * bytes) : option icipher :=
  if N.eqb (fst f) 1 then match icipher_of_id (le32 (snd f)) with Some c => Some c | None => s end else s.
Definition key_step (k : option bytes) (f : N * bytes) : option bytes :=
  if N.eqb (fst f) 2 then Some (snd f) else k.
Definition att_of (f : N * bytes) : list attachment :=
  if N.eqb (fst f) 3 then match snd f with fl :: content => [mkAtt fl content] | [] => [] end else [].

Lemma apply_ifield_components a f :
  apply_ifield a f = mkIA (stream_step (ia_stream a) f) (key_step (ia_key a) f) (ia_atts a ++ att_of f).
Proof.
  destruct f as [ty buf]. unfold apply_ifield, stream_step, key_step, att_of. cbn [fst snd].
  destruct (N.eqb_spec ty 1) as [->|H1].
  { cbn [N.eqb Pos.eqb]. rewrite app_nil_r. destruct (icipher_of_id (le32 buf)); destruct a; reflexivity. }
  destruct (N.eqb_spec ty 2) as [->|H2].
  { cbn [N.eqb Pos.eqb]. rewrite app_nil_r. reflexivity. }
  destruct (N.eqb_spec ty 3) as [->|H3].
  { destruct buf as [|fl content]; [rewrite app_nil_r; destruct a|]; reflexivity. }
  rewrite app_nil_r. destruct a; reflexivity.
Qed.

Lemma fold_ifields fields : forall a,
  fold_left apply_ifield fields a
  = mkIA (fold_left stream_step fields (ia_stream a)) (fold_left key_step fields (ia_key a))
         (ia_atts a ++ flat_map att_of fields).
Proof.
  induction fields as [|x r IH]; intro a.
  - cbn [fold_left flat_map]. rewrite app_nil_r. destruct a; reflexivity.
  - cbn [fold_left flat_map]. rewrite IH. rewrite apply_ifield_components.
    cbn [ia_stream ia_key ia_atts]. rewrite <- app_assoc. reflexivity.
Qed.

Lemma stream_step_filter fields : forall s,
  fold_left stream_step (filter (has_type 1) fields) s = fold_left stream_step fields s.
Proof.
  induction fields as [|x r IH]; intro s; [reflexivity|].
  cbn [filter]. unfold has_type at 1. destruct (N.eqb (fst x) 1) eqn:E; cbn [fold_left].
  - apply IH.
  - replace (stream_step s x) with s by (unfold stream_step; rewrite E; reflexivity). apply IH.
Qed.

Lemma key_step_filter fields : forall k,
  fold_left key_step (filter (has_type 2) fields) k = fold_left key_step fields k.
Proof.
  induction fields as [|x r IH]; intro k; [reflexivity|].
  cbn [filter]. unfold has_type at 1. destruct (N.eqb (fst x) 2) eqn:E; cbn [fold_left].
  - apply IH.
  - replace (key_step k x) with k by (unfold key_step; rewrite E; reflexivity). apply IH.
Qed.

Lemma att_of_filter fields : flat_map att_of (filter (has_type 3) fields) = flat_map att_of fields.
Proof.
  induction fields as [|x r IH]; [reflexivity|].
  cbn [filter]. unfold has_type at 1. destruct (N.eqb (fst x) 3) eqn:E; cbn [flat_map].
  - rewrite IH. reflexivity.
  - replace (att_of x) with (@nil attachment) by (unfold att_of; rewrite E; reflexivity). cbn [app]. exact IH.
Qed.

(* the three kinds of field *)
Definition stream_field (c : icipher) : N * bytes := (1, le_enc 4 (icipher_id c)).
Definition key_field (key : bytes) : N * bytes := (2, key).
Definition att_field (x : attachment) : N * bytes := (3, att_flags x :: att_content x).

(* the writer's order *)
Definition canonical_ifields (c : icipher) (key : bytes) (atts : list attachment) : list (N * bytes) :=
  stream_field c :: key_field key :: map att_field atts.

Lemma inner_dump4_canonical c key atts :
  inner_dump4 (canonical_ifields c key atts) [] = inner_header_dump c key atts.
Proof.
  rewrite inner_header_dump_fields. unfold inner_dump4, canonical_ifields.
  cbn [map concat stream_field key_field fst snd]. rewrite <- !app_assoc.
  do 2 f_equal. f_equal. rewrite map_map. f_equal.
  apply map_ext. intro x. unfold att_field. cbn [fst snd]. symmetry. apply attachment_dump_field.
Qed.

Lemma flat_map_att_fields atts : flat_map att_of (map att_field atts) = atts.
Proof.
  induction atts as [|[fl content] r IH]; [reflexivity|].
  cbn [map flat_map]. rewrite IH. reflexivity.
Qed.

Lemma att_field_ok x : att_ok x = true -> ifield_ok (att_field x).
Proof.
  intro H. unfold att_ok in H. apply N.ltb_lt in H. unfold att_field. apply oki_att.
  unfold short32. cbn [length]. rewrite Nat2N.inj_succ, <- N.add_1_r. exact H.
Qed.

(* an interleaving of one stream-id field, one key field and the attachment fields in their order *)
Definition interleaved_ifields (c : icipher) (key : bytes) (atts : list attachment)
           (fields : list (N * bytes)) : Prop :=
  Forall (fun f => fst f = 1 \/ fst f = 2 \/ fst f = 3) fields /\
  filter (has_type 1) fields = [stream_field c] /\
  filter (has_type 2) fields = [key_field key] /\
  filter (has_type 3) fields = map att_field atts.

Lemma filter_att_fields_other t atts : t <> 3 -> filter (has_type t) (map att_field atts) = [].
Proof.
  intro Ht. induction atts as [|x r IH]; [reflexivity|]. cbn [map filter]. unfold has_type at 1.
  cbn [att_field fst]. destruct (N.eqb_spec 3 t) as [E|_]; [congruence|]. exact IH.
Qed.

Lemma filter_att_fields atts : filter (has_type 3) (map att_field atts) = map att_field atts.
Proof.
  induction atts as [|x r IH]; [reflexivity|]. cbn [map filter]. unfold has_type at 1.
  cbn [att_field fst N.eqb Pos.eqb]. rewrite IH. reflexivity.
Qed.

Lemma canonical_ifields_interleaved c key atts : interleaved_ifields c key atts (canonical_ifields c key atts).
Proof.
  unfold interleaved_ifields, canonical_ifields.
  pose proof (fun t => filter_att_fields_other t atts) as Hf.
  pose proof (filter_att_fields atts) as H3.
  split; [|split; [|split]].
  - apply Forall_cons; [left; reflexivity|]. apply Forall_cons; [right; left; reflexivity|].
    apply Forall_forall. intros f Hin. apply in_map_iff in Hin. destruct Hin as (x & <- & _).
    right. right. reflexivity.
  - cbn [filter has_type stream_field key_field fst N.eqb Pos.eqb]. rewrite Hf by discriminate. reflexivity.
  - cbn [filter has_type stream_field key_field fst N.eqb Pos.eqb]. rewrite Hf by discriminate. reflexivity.
  - cbn [filter has_type stream_field key_field fst N.eqb Pos.eqb]. exact H3.
Qed.

Lemma interleaved_ifields_ok c key atts fields :
  short32 key -> atts_ok atts = true -> interleaved_ifields c key atts fields -> Forall ifield_ok fields.
Proof.
  intros Hk Hatts (Hty & H1 & H2 & H3). apply Forall_forall. intros f Hin.
  rewrite Forall_forall in Hty. specialize (Hty f Hin).
  destruct Hty as [E|[E|E]].
  - assert (Hf : In f (filter (has_type 1) fields)).
    { apply filter_In. split; [exact Hin|]. unfold has_type. apply N.eqb_eq. exact E. }
    rewrite H1 in Hf. destruct Hf as [<-|[]]. unfold stream_field.
    apply (oki_stream _ c); [unfold short32; rewrite le_enc_length, pow2_32; lia|rewrite le_enc_length; lia|].
    apply icipher_of_id_id.
  - assert (Hf : In f (filter (has_type 2) fields)).
    { apply filter_In. split; [exact Hin|]. unfold has_type. apply N.eqb_eq. exact E. }
    rewrite H2 in Hf. destruct Hf as [<-|[]]. unfold key_field. apply oki_key. exact Hk.
  - assert (Hf : In f (filter (has_type 3) fields)).
    { apply filter_In. split; [exact Hin|]. unfold has_type. apply N.eqb_eq. exact E. }
    rewrite H3 in Hf. apply in_map_iff in Hf. destruct Hf as (x & <- & Hx).
    apply att_field_ok. unfold atts_ok in Hatts. rewrite forallb_forall in Hatts. apply Hatts. exact Hx.
Qed.

Lemma interleaved_ifields_fold c key atts fields :
  interleaved_ifields c key atts fields ->
  fold_left apply_ifield fields (mkIA None None []) = mkIA (Some c) (Some key) atts.
Proof.
  intros (_ & H1 & H2 & H3). rewrite fold_ifields. cbn [ia_stream ia_key ia_atts app].
  rewrite <- stream_step_filter, <- key_step_filter, <- att_of_filter. rewrite H1, H2, H3.
  rewrite flat_map_att_fields. cbn [fold_left]. unfold stream_step, key_step, stream_field, key_field.
  cbn [fst snd N.eqb Pos.eqb]. rewrite icipher_of_id_id. reflexivity.
Qed.

(* the stream id, the key and the attachments interleaved in any way that keeps the attachments'
   relative order, an end field with arbitrary content: the same result as for the writer's order *)
Theorem parse_inner_header_permuted c key atts fields end_buf xml :
  short32 key -> atts_ok atts = true -> short32 end_buf ->
  interleaved_ifields c key atts fields ->
  parse_inner_header (inner_dump4 fields end_buf ++ xml) = Ok (atts, c, key, xml).
Proof.
  intros Hk Hatts He Hi. apply parse_inner_header_fields.
  - apply (interleaved_ifields_ok c key atts); assumption.
  - exact He.
  - apply interleaved_ifields_fold. exact Hi.
Qed.

(* repeated stream-id and key fields: the last of each kind is the one that counts *)
Theorem parse_inner_header_last_wins c sb key atts fields pre1 pre2 end_buf xml :
  Forall ifield_ok fields -> short32 end_buf ->
  filter (has_type 1) fields = pre1 ++ [(1, sb)] -> icipher_of_id (le32 sb) = Some c ->
  filter (has_type 2) fields = pre2 ++ [(2, key)] ->
  flat_map att_of fields = atts ->
  parse_inner_header (inner_dump4 fields end_buf ++ xml) = Ok (atts, c, key, xml).
Proof.
  intros Hok He H1 Hc H2 H3. apply parse_inner_header_fields; [exact Hok|exact He|].
  rewrite fold_ifields. cbn [ia_stream ia_key ia_atts app].
  rewrite <- stream_step_filter, <- key_step_filter. rewrite H1, H2, H3.
  rewrite !fold_left_app. cbn [fold_left]. unfold stream_step at 1, key_step at 1.
  cbn [fst snd N.eqb Pos.eqb]. rewrite Hc. reflexivity.
Qed.

(* ================================================================================================ *)
(* (F) the whole reader on the file of a conforming writer                                          *)
(* ================================================================================================ *)

(* the choices the format leaves to a writer *)
Record layout4 := mkLayout4 {
  l_ofields : list (N * bytes);      (* the outer header fields in the writer's order, comments included *)
  l_oend : bytes;                    (* the content of the outer end field (KeePass: CR LF CR LF) *)
  l_ifields : list (N * bytes);      (* the inner header fields in the writer's order *)
  l_iend : bytes;                    (* the content of the inner end field *)
  l_cut : bytes -> list bytes;       (* how the ciphertext is cut into HMAC blocks *)
  l_trailing : bytes }.              (* bytes after the closing block (ignored by the reader) *)

(* the layout encodes the header [h] (KDF dictionary [vd], any order of its entries), the inner
   stream cipher [ic], the inner key [key] and the attachments [atts] *)
Definition conforming_layout4 (h : outer_header) (vd : vdict) (ic : icipher) (key : bytes)
           (atts : list attachment) (L : layout4) : Prop :=
  header4_ok h vd /\ short32 (l_oend L) /\
  Forall (fun f => fst f = 1 -> short32 (snd f)) (l_ofields L) /\
  Permutation (filter non_comment4 (l_ofields L)) (canonical_ofields h vd) /\
  short32 key /\ atts_ok atts = true /\ short32 (l_iend L) /\
  interleaved_ifields ic key atts (l_ifields L).

Lemma inner_key_ok_true4 c (k : bytes) : inner_key_ok c k = true.
Proof. destruct c; reflexivity. Qed.

Section conform.
  Variables (sha256 sha512 : bytes -> bytes) (hmac256 : bytes -> bytes -> bytes)
            (kdf : kdfcfg -> bytes -> bytes -> res bytes)
            (outer_enc outer_dec : ocipher -> bytes -> bytes -> bytes -> res bytes)
            (compress decompress : compression -> bytes -> res bytes).

  (* the two inverse laws *)
  Hypothesis dec_enc : forall c key iv p ct, outer_enc c key iv p = Ok ct -> outer_dec c key iv ct = Ok p.
  Hypothesis decompress_compress : forall z p c, compress z p = Ok c -> decompress z c = Ok p.
  (* the two output sizes the reader relies on when it slices the header hash and the MACs off the file *)
  Hypothesis sha256_length : forall m, length (sha256 m) = 32%nat.
  Hypothesis hmac256_length : forall k m, length (hmac256 k m) = 32%nat.

  Notation dump4 := (dump4 sha256 sha512 hmac256 kdf outer_enc compress).
  Notation decrypt4 := (decrypt4 sha256 sha512 hmac256 kdf outer_dec decompress).
  Notation header_mac := (header_mac sha512 hmac256).
  Notation hmac_key_of := (hmac_key_of sha512).
  Notation master_key_of := (master_key_of sha256).
  Notation composite_key := (composite_key sha256).
  Notation read_blocks := (read_blocks sha512 hmac256).
  Notation write_blocks := (write_blocks sha512 hmac256).
  Notation write_blocks_multi := (write_blocks_multi sha512 hmac256).

  (* header, SHA-256 of the header, HMAC of the header, the block stream, ignored bytes *)
  Definition conforming_file4 (header hmac_key : bytes) (blocks : list bytes) (trailing : bytes) : bytes :=
    header ++ sha256 header ++ header_mac hmac_key header ++ write_blocks_multi 0 hmac_key blocks ++ trailing.

  (* a conforming writer: the same computation as dump4, with the layout chosen freely *)
  Definition write_conforming4 (minor : N) (h : outer_header) (L : layout4)
             (elements : res (list bytes)) (xml : bytes) : res bytes :=
    bind elements (fun els =>
    bind (kdf (h_kdf h) (h_kdf_seed h) (composite_key els)) (fun t =>
    bind (compress (h_compression h) (inner_dump4 (l_ifields L) (l_iend L) ++ xml)) (fun compressed =>
    bind (outer_enc (h_cipher h) (master_key_of (h_master_seed h) t) (h_iv h) compressed) (fun ct =>
    Ok (conforming_file4 (header_dump4 minor (l_ofields L) (l_oend L))
                         (hmac_key_of (h_master_seed h) t) (l_cut L ct) (l_trailing L)))))).

  (* the reader on  header ++ SHA-256(header) ++ mac ++ stream  for any header bytes the outer parser
     accepts with exactly their length: what remains is the keyed part *)
  Lemma decrypt4_on_header (header : bytes) v h (mac stream : bytes) els :
    parse_outer_header (header ++ sha256 header ++ mac ++ stream) = Ok (v, h, length header) ->
    length mac = 32%nat ->
    decrypt4 (header ++ sha256 header ++ mac ++ stream) els =
    bind els (fun e =>
    bind (kdf (h_kdf h) (h_kdf_seed h) (composite_key e)) (fun t =>
      if negb (bytes_eqb mac (header_mac (hmac_key_of (h_master_seed h) t) header)) then Err EIncorrectKey
      else
        bind (read_blocks (S (length stream)) 0 stream (hmac_key_of (h_master_seed h) t) []) (fun payload_enc =>
        bind (outer_dec (h_cipher h) (master_key_of (h_master_seed h) t) (h_iv h) payload_enc) (fun payload_comp =>
        bind (decompress (h_compression h) payload_comp) (fun payload =>
        bind (parse_inner_header payload) (fun '(aik, xml) =>
          let '(atts, ic, ikey) := aik in
          if negb (inner_key_ok ic ikey) then Err ECrypto
          else Ok (mkConfig v (h_cipher h) (h_compression h) ic (h_kdf h), atts, ikey, xml))))))).
  Proof using sha256_length.
    clear dec_enc decompress_compress hmac256_length. clear outer_enc compress.
    intros Hparse Hmac.
    unfold Kdbx4.decrypt4. rewrite Hparse. cbn [bind].
    set (sha := sha256 header).
    assert (Hsha : length sha = 32%nat) by apply sha256_length.
    assert (HL : length (header ++ sha ++ mac ++ stream) = (length header + 64 + length stream)%nat).
    { rewrite !app_length. lia. }
    rewrite HL.
    replace (Nat.ltb (length header + 64 + length stream) (length header + 64)) with false
      by (symmetry; apply Nat.ltb_ge; lia).
    rewrite take_app_exact.
    replace (length header + 64)%nat with (length header + 32 + 32)%nat by lia.
    rewrite !drop_drop. rewrite drop_app_exact.
    rewrite (take_app_len 32 sha) by exact Hsha. rewrite (drop_app_len 32 sha) by exact Hsha.
    rewrite (take_app_len 32 mac) by exact Hmac. rewrite (drop_app_len 32 mac) by exact Hmac.
    fold sha. rewrite bytes_eqb_refl. cbn [negb]. reflexivity.
  Qed.

  (* the round trip on the intermediate values: [t] the transformed key, [p] the compressed payload,
     [blocks] any partition of its ciphertext *)
  Theorem frame_roundtrip_conforming_core minor h vd ic key atts L xml e t p blocks :
    minor < 2 ^ 16 ->
    conforming_layout4 h vd ic key atts L ->
    kdf (h_kdf h) (h_kdf_seed h) (composite_key e) = Ok t ->
    compress (h_compression h) (inner_dump4 (l_ifields L) (l_iend L) ++ xml) = Ok p ->
    outer_enc (h_cipher h) (master_key_of (h_master_seed h) t) (h_iv h) p = Ok (concat blocks) ->
    Forall block_ok4 blocks ->
    decrypt4 (conforming_file4 (header_dump4 minor (l_ofields L) (l_oend L))
                               (hmac_key_of (h_master_seed h) t) blocks (l_trailing L)) (Ok e)
    = Ok (mkConfig (KDB4 minor) (h_cipher h) (h_compression h) ic (h_kdf h), atts, key, xml).
  Proof.
    intros Hminor (Hh & Hoe & Hoc & Hop & Hk & Hatts & Hie & Hi) Ek Ec Ee Hblocks.
    unfold conforming_file4.
    set (header := header_dump4 minor (l_ofields L) (l_oend L)).
    set (hmac_key := hmac_key_of (h_master_seed h) t).
    rewrite (decrypt4_on_header header (KDB4 minor) h);
      [|unfold header; apply (parse_outer_header_permuted minor h vd); assumption|apply hmac256_length].
    cbn [bind]. rewrite Ek. cbn [bind]. fold hmac_key. rewrite bytes_eqb_refl. cbn [negb].
    rewrite (read_blocks_partition_reader sha512 hmac256 hmac256_length) by exact Hblocks.
    cbn [bind]. rewrite (dec_enc _ _ _ _ _ Ee). cbn [bind].
    rewrite (decompress_compress _ _ _ Ec). cbn [bind].
    rewrite (parse_inner_header_permuted ic key atts) by assumption.
    cbn [bind]. rewrite inner_key_ok_true4. reflexivity.
  Qed.

  (* what a successful conforming writer computed on the way *)
  Lemma write_conforming4_inv minor h L els xml file :
    write_conforming4 minor h L els xml = Ok file ->
    exists e t p ct,
      els = Ok e /\
      kdf (h_kdf h) (h_kdf_seed h) (composite_key e) = Ok t /\
      compress (h_compression h) (inner_dump4 (l_ifields L) (l_iend L) ++ xml) = Ok p /\
      outer_enc (h_cipher h) (master_key_of (h_master_seed h) t) (h_iv h) p = Ok ct /\
      file = conforming_file4 (header_dump4 minor (l_ofields L) (l_oend L))
                              (hmac_key_of (h_master_seed h) t) (l_cut L ct) (l_trailing L).
  Proof using.
    clear dec_enc decompress_compress sha256_length hmac256_length.
    unfold write_conforming4. intro H.
    destruct els as [e| | |]; cbn [bind] in H; try discriminate H.
    destruct (kdf (h_kdf h) (h_kdf_seed h) (composite_key e)) as [t| | |] eqn:Ek;
      cbn [bind] in H; try discriminate H.
    destruct (compress (h_compression h) (inner_dump4 (l_ifields L) (l_iend L) ++ xml))
      as [p| | |] eqn:Ec; cbn [bind] in H; try discriminate H.
    destruct (outer_enc (h_cipher h) (master_key_of (h_master_seed h) t) (h_iv h) p)
      as [ct| | |] eqn:Ee; cbn [bind] in H; try discriminate H.
    apply Ok_inj in H. exists e, t, p, ct. repeat (split; [assumption || reflexivity|]).
    symmetry. exact H.
  Qed.

  (* C01 at the framing level: for every well-formed KDBX4 file produced by ANY conforming writer --
     every partition of the ciphertext into non-empty HMAC blocks, every order of the outer header
     fields with comment fields anywhere, every order of the KDF dictionary, every interleaving of the
     inner header fields that keeps the attachments' order, arbitrary end-field contents, ignored bytes
     after the closing block -- opening yields exactly the stored content *)
  Theorem frame_roundtrip_conforming minor h vd ic key atts L els xml file :
    minor < 2 ^ 16 ->
    conforming_layout4 h vd ic key atts L ->
    (forall k p ct,
        compress (h_compression h) (inner_dump4 (l_ifields L) (l_iend L) ++ xml) = Ok p ->
        outer_enc (h_cipher h) k (h_iv h) p = Ok ct ->
        concat (l_cut L ct) = ct /\ Forall block_ok4 (l_cut L ct)) ->
    write_conforming4 minor h L els xml = Ok file ->
    decrypt4 file els
    = Ok (mkConfig (KDB4 minor) (h_cipher h) (h_compression h) ic (h_kdf h), atts, key, xml).
  Proof.
    intros Hminor Hconf Hcut Hw.
    destruct (write_conforming4_inv minor h L els xml file Hw) as (e & t & p & ct & -> & Ek & Ec & Ee & ->).
    destruct (Hcut _ _ _ Ec Ee) as [Hconcat Hblocks].
    apply (frame_roundtrip_conforming_core minor h vd ic key atts L xml e t p (l_cut L ct)); try assumption.
    rewrite Hconcat. exact Ee.
  Qed.

  (* ---------- the crate's own writer is one of the conforming writers ---------- *)
  Definition header_of_draws (cfg : config) (d : draws) : outer_header :=
    mkOuter (c_outer cfg) (c_compression cfg) (d_master_seed d) (d_iv d) (c_kdf cfg) (d_kdf_seed d).

  Definition crate_layout4 (cfg : config) (d : draws) (vd : vdict) (atts : list attachment) : layout4 :=
    mkLayout4 (canonical_ofields (header_of_draws cfg d) vd) []
              (canonical_ifields (c_inner cfg) (d_inner_key d) atts) [] one_block [].

  Lemma dump4_is_conforming cfg d vd els atts xml minor :
    c_version cfg = KDB4 minor ->
    dump4 cfg d vd els atts xml
    = write_conforming4 minor (header_of_draws cfg d) (crate_layout4 cfg d vd atts) els xml.
  Proof using.
    clear dec_enc decompress_compress sha256_length hmac256_length.
    intro Hver. unfold Kdbx4.dump4, write_conforming4. rewrite Hver.
    unfold crate_layout4. cbn [l_ofields l_oend l_ifields l_iend l_cut l_trailing].
    rewrite header_dump4_canonical, inner_dump4_canonical.
    unfold header_of_draws. cbn [h_cipher h_compression h_master_seed h_iv h_kdf h_kdf_seed].
    rewrite inner_key_ok_true4. cbn [negb].
    destruct els as [e| | |]; cbn [bind]; try reflexivity.
    destruct (kdf (c_kdf cfg) (d_kdf_seed d) (composite_key e)) as [t| | |]; cbn [bind]; try reflexivity.
    destruct (compress (c_compression cfg) (inner_header_dump (c_inner cfg) (d_inner_key d) atts ++ xml))
      as [p| | |]; cbn [bind]; try reflexivity.
    destruct (outer_enc (c_outer cfg) (master_key_of (d_master_seed d) t) (d_iv d) p)
      as [ct| | |]; cbn [bind]; try reflexivity.
    unfold conforming_file4. rewrite write_blocks_one_block, app_nil_r. reflexivity.
  Qed.

  Lemma crate_layout4_conforming cfg d vd atts :
    draws_ok cfg d = true -> kdf_params_ok (c_kdf cfg) = true ->
    Permutation vd (vd_of_kdf (c_kdf cfg) (d_kdf_seed d)) -> atts_ok atts = true ->
    conforming_layout4 (header_of_draws cfg d) vd (c_inner cfg) (d_inner_key d) atts (crate_layout4 cfg d vd atts).
  Proof using.
    clear dec_enc decompress_compress sha256_length hmac256_length.
    intros Hd Hk Hp Hatts.
    destruct (header_conditions cfg d vd Hd Hk Hp) as (Hiv & Hms & Hvl & Hvok & Hik).
    assert (Hnil : short32 []) by (unfold short32; cbn [length]; rewrite pow2_32; lia).
    unfold conforming_layout4, crate_layout4, header4_ok, header_of_draws.
    cbn [l_ofields l_oend l_ifields l_iend h_cipher h_compression h_master_seed h_iv h_kdf h_kdf_seed].
    split; [repeat split; assumption|].
    split; [exact Hnil|].
    split.
    { apply Forall_forall. intros f Hin E. exfalso. unfold canonical_ofields in Hin. cbn [In] in Hin.
      repeat (destruct Hin as [<-|Hin]; [discriminate E|]). exact Hin. }
    split; [apply Permutation_refl|].
    split; [exact Hik|]. split; [exact Hatts|]. split; [exact Hnil|].
    apply canonical_ifields_interleaved.
  Qed.

  (* so [frame_roundtrip] of Kdbx4Proofs.v is the instance of [frame_roundtrip_conforming] for the
     crate's layout *)
  Corollary frame_roundtrip_from_conforming cfg d vd els atts xml file minor :
    c_version cfg = KDB4 minor -> minor < 2 ^ 16 ->
    draws_ok cfg d = true ->
    Permutation vd (vd_of_kdf (c_kdf cfg) (d_kdf_seed d)) ->
    kdf_params_ok (c_kdf cfg) = true ->
    atts_ok atts = true ->
    (forall key p ct,
        compress (c_compression cfg) (inner_header_dump (c_inner cfg) (d_inner_key d) atts ++ xml) = Ok p ->
        outer_enc (c_outer cfg) key (d_iv d) p = Ok ct -> N.of_nat (length ct) < 2 ^ 32) ->
    dump4 cfg d vd els atts xml = Ok file ->
    decrypt4 file els = Ok (cfg, atts, d_inner_key d, xml).
  Proof.
    intros Hver Hminor Hdraws Hperm Hkdf Hatts Hct Hdump.
    rewrite (dump4_is_conforming cfg d vd els atts xml minor Hver) in Hdump.
    rewrite (frame_roundtrip_conforming minor (header_of_draws cfg d) vd (c_inner cfg) (d_inner_key d) atts
               (crate_layout4 cfg d vd atts) els xml file Hminor).
    - destruct cfg as [ver oc zc ic kc]. cbn [c_version c_outer c_compression c_inner c_kdf] in *.
      rewrite Hver. reflexivity.
    - apply crate_layout4_conforming; assumption.
    - cbn [crate_layout4 l_ifields l_iend l_cut header_of_draws h_compression h_cipher h_iv].
      rewrite inner_dump4_canonical. intros k p ct Ec Ee. split; [apply one_block_concat|].
      apply one_block_ok. exact (Hct _ _ _ Ec Ee).
    - exact Hdump.
  Qed.
End conform.

(* ---------- non-vacuity: a toy instance, run and opened by the theorem ---------- *)
Module Example4.
  (* toy primitives that depend on their inputs, so that a wrong index, key or header would be seen *)
  Definition sha (x : bytes) : bytes := take 32 (x ++ zeros 32).
  Definition sha5 (x : bytes) : bytes := x.
  Definition mac (k m : bytes) : bytes := take 32 (m ++ k ++ zeros 32).
  Definition kdf0 (_ : kdfcfg) (_ k : bytes) : res bytes := Ok k.
  Definition enc0 (_ : ocipher) (_ _ x : bytes) : res bytes := Ok (rev x).
  Definition dec0 (_ : ocipher) (_ _ x : bytes) : res bytes := Ok (rev x).
  Definition zip0 (_ : compression) (x : bytes) : res bytes := Ok (120 :: x).
  Definition unzip0 (_ : compression) (x : bytes) : res bytes := Ok (tl x).

  Lemma zeros_length4 n : length (zeros n) = n.
  Proof. induction n as [|k IH]; cbn [zeros length]; [reflexivity|]. rewrite IH. reflexivity. Qed.
  Lemma sha_length x : length (sha x) = 32%nat.
  Proof. unfold sha. apply take_length. rewrite app_length, zeros_length4. lia. Qed.
  Lemma mac_length k m : length (mac k m) = 32%nat.
  Proof. unfold mac. apply take_length. rewrite !app_length, zeros_length4. lia. Qed.

  Definition h : outer_header :=
    mkOuter OChaCha20 CGzip (zeros 32) (zeros 12) (KArgon2 true 2 65536 2 V13) [7; 7; 7].
  (* the KDF dictionary in the reverse of the crate's order *)
  Definition vd : vdict := rev (vd_of_kdf (h_kdf h) (h_kdf_seed h)).

  Definition a1 : attachment := mkAtt 1 [65].
  Definition a2 : attachment := mkAtt 0 [66; 67].
  Definition ikey : bytes := [5; 6; 7; 8].

  (* the outer fields in the reverse of the crate's order, with three comment fields; the inner fields
     with the stream id last and the key between the two attachments; KeePass's end-field content; the
     ciphertext cut into two blocks after its tenth byte; two bytes after the closing block *)
  Definition L : layout4 :=
    mkLayout4
      [(1, [104; 105]); (11, vd_dump vd); (4, h_master_seed h); (1, []); (7, h_iv h);
       (3, le_enc 4 (compression_id (h_compression h))); (2, ocipher_id (h_cipher h)); (1, [0])]
      [13; 10; 13; 10]
      [att_field a1; key_field ikey; att_field a2; stream_field IChaCha20]
      [1; 2; 3]
      (fun ct => [take 10 ct; drop 10 ct])
      [9; 9].

  Definition els : list bytes := [[1; 1]; [2]].
  Definition xml : bytes := [60; 97; 47; 62].
  Definition file : res bytes := write_conforming4 sha sha5 mac kdf0 enc0 zip0 1 h L (Ok els) xml.

  (* the reader, run on that file *)
  Example roundtrip_computed :
    bind file (fun f => decrypt4 sha sha5 mac kdf0 dec0 unzip0 f (Ok els))
    = Ok (mkConfig (KDB4 1) OChaCha20 CGzip IChaCha20 (KArgon2 true 2 65536 2 V13), [a1; a2], ikey, xml).
  Proof. vm_compute. reflexivity. Qed.

  (* the stream really has two data blocks *)
  Example two_blocks :
    bind (zip0 CGzip (inner_dump4 (l_ifields L) (l_iend L) ++ xml)) (fun p =>
    bind (enc0 OChaCha20 [] [] p) (fun ct => Ok (map (@length N) (l_cut L ct)))) = Ok [10; 36]%nat.
  Proof. vm_compute. reflexivity. Qed.

  (* a cut stream (no closing block) is rejected *)
  Example truncated_file :
    bind file (fun f => decrypt4 sha sha5 mac kdf0 dec0 unzip0 (take (length f - 38) f) (Ok els))
    = Err EBlockHash.
  Proof. vm_compute. reflexivity. Qed.

  Example layout_conforming : conforming_layout4 h vd IChaCha20 ikey [a1; a2] L.
  Proof.
    unfold conforming_layout4.
    split.
    { unfold header4_ok. split; [vm_compute; reflexivity|]. split; [vm_compute; reflexivity|].
      split; [vm_compute; reflexivity|]. split; [vm_compute; reflexivity|].
      exact (Permutation_sym (Permutation_rev _)). }
    split; [vm_compute; reflexivity|].
    split.
    { unfold L. cbn [l_ofields].
      repeat (apply Forall_cons; [intros _; vm_compute; reflexivity|]). apply Forall_nil. }
    split.
    { change (Permutation (rev (canonical_ofields h vd)) (canonical_ofields h vd)).
      apply Permutation_sym, Permutation_rev. }
    split; [vm_compute; reflexivity|]. split; [reflexivity|]. split; [vm_compute; reflexivity|].
    unfold interleaved_ifields. split.
    { unfold L. cbn [l_ifields]. repeat (apply Forall_cons; [cbn [fst att_field key_field stream_field]; auto|]).
      apply Forall_nil. }
    split; [reflexivity|]. split; reflexivity.
  Qed.

  (* the same file by the theorem: the hypotheses of [frame_roundtrip_conforming] are satisfiable *)
  Example roundtrip_by_theorem f :
    file = Ok f ->
    decrypt4 sha sha5 mac kdf0 dec0 unzip0 f (Ok els)
    = Ok (mkConfig (KDB4 1) OChaCha20 CGzip IChaCha20 (KArgon2 true 2 65536 2 V13), [a1; a2], ikey, xml).
  Proof.
    intro Hf.
    apply (frame_roundtrip_conforming sha sha5 mac kdf0 enc0 dec0 zip0 unzip0) with (h := h) (vd := vd) (L := L).
    - intros c k iv p ct H. injection H as <-. unfold dec0. rewrite rev_involutive. reflexivity.
    - intros z p c H. injection H as <-. reflexivity.
    - exact sha_length.
    - exact mac_length.
    - reflexivity.
    - exact layout_conforming.
    - intros k p ct Ec Ee. injection Ec as <-. injection Ee as <-.
      split; [vm_compute; reflexivity|].
      unfold L. cbn [l_cut].
      repeat (apply Forall_cons; [split; [vm_compute; discriminate|vm_compute; reflexivity]|]).
      apply Forall_nil.
    - exact Hf.
  Qed.

  (* a repeated outer field is accepted, the last occurrence wins (here: compression 0, then 1) *)
  Example repeated_field_last_wins :
    parse_outer_header (header_dump4 1 ((3, le_enc 4 0) :: l_ofields L) [] ++ [1; 2; 3])
    = Ok (KDB4 1, h, length (header_dump4 1 ((3, le_enc 4 0) :: l_ofields L) [])).
  Proof. vm_compute. reflexivity. Qed.

  (* an unknown outer field type is rejected *)
  Example unknown_field_rejected :
    parse_outer_header (header_dump4 1 ((12, [1]) :: l_ofields L) [] ++ [1; 2; 3]) = Err EInvalidOuterEntry.
  Proof. vm_compute. reflexivity. Qed.

  (* the block-stream theorem alone, on three blocks *)
  Example three_blocks :
    read_blocks sha5 mac 5 0
      (frames sha5 mac 0 [1; 2] (map (fun b => (le_enc 4 (N.of_nat (length b)), b)) [[1]; [2; 3]; [4]])
       ++ frame sha5 mac 3 [1; 2] (le_enc 4 0) [] ++ [7]) [1; 2] []
    = Ok [1; 2; 3; 4].
  Proof.
    apply (read_blocks_partition sha5 mac mac_length [[1]; [2; 3]; [4]] 5 [1; 2] [7]).
    - repeat (apply Forall_cons; [split; [discriminate|reflexivity]|]). apply Forall_nil.
    - cbn [length]. lia.
  Qed.
End Example4.

Print Assumptions read_blocks_partition_gen.
Print Assumptions read_blocks_partition.
Print Assumptions read_blocks_partition_reader.
Print Assumptions read_blocks_any_partition.
Print Assumptions parse_outer_header_fields.
Print Assumptions parse_outer_header_canonical.
Print Assumptions parse_outer_header_permuted.
Print Assumptions parse_inner_header_fields.
Print Assumptions parse_inner_header_permuted.
Print Assumptions parse_inner_header_last_wins.
Print Assumptions outer_fields_unknown_type.
Print Assumptions inner_fields_unknown_type.
Print Assumptions frame_roundtrip_conforming_core.
Print Assumptions frame_roundtrip_conforming.
Print Assumptions dump4_is_conforming.
Print Assumptions frame_roundtrip_from_conforming.
Print Assumptions Example4.roundtrip_computed.
Print Assumptions Example4.roundtrip_by_theorem.
Print Assumptions Example4.three_blocks.

(* KDB payload reader (C02): the entries section.
   One loop iteration per record; the run of [entries_loop] over what a conforming writer lays out
   ([entries_run]); [parse_entries_ok], [parse_entries_bad_gid]; arbitrary input ([parse_entries_total]). *)
From Coq Require Import Lia.
From KP Require Import Bytes Outcome LE LEFacts Version Kdbx4 Kdbx4Proofs Key Kdb KdbSpec KdbGroups.
Local Open Scope N_scope.
Local Open Scope outcome_scope.

(* ---------- one loop iteration per record of an entry ---------- *)
Lemma estep_gid f total m s gid rest :
  N.ltb (es_count s) total = true -> gid < 2 ^ 32 ->
  entries_loop (S f) total m s (rec_enc 2 (le_enc 4 gid) ++ rest) =
  entries_loop f total m (mkES (es_root s) (es_fields s) (Some gid) (es_count s)) rest.
Proof.
  intros Hc Hg. cbn [entries_loop]. rewrite Hc. cbn [negb].
  rewrite record_enc by (rewrite ?le_enc_length, ?pow2_16, ?pow2_32; cbn; lia).
  rewrite le_enc_length, le_dec_enc4 by exact Hg. reflexivity.
Qed.

Lemma estep_field f total m s fld rest :
  N.ltb (es_count s) total = true -> field_ok fld = true ->
  entries_loop (S f) total m s (rec_enc (fst fld) (snd fld) ++ rest) =
  entries_loop f total m (mkES (es_root s) (interp_field (es_fields s) fld) (es_gid s) (es_count s)) rest.
Proof.
  intros Hc Hok. destruct fld as [ty v]. unfold field_ok in Hok. cbn [fst snd] in Hok |- *.
  apply andb_true_iff in Hok. destruct Hok as [Hty Hv]. apply N.ltb_lt in Hv.
  unfold interp_field. cbn [fst snd].
  repeat (apply orb_true_iff in Hty; destruct Hty as [Hty|Hty]); apply N.eqb_eq in Hty; subst ty;
    cbn [entries_loop]; rewrite Hc; cbn [negb];
    (rewrite record_enc by (rewrite ?pow2_16; try exact Hv; lia)); reflexivity.
Qed.

Lemma estep_end f total m s rest :
  N.ltb (es_count s) total = true ->
  entries_loop (S f) total m s (rec_enc 65535 [] ++ rest) =
  (do s' <- entry_end m s; entries_loop f total m s' rest).
Proof.
  intros Hc. cbn [entries_loop]. rewrite Hc. cbn [negb].
  rewrite record_enc by (rewrite ?pow2_16, ?pow2_32; cbn; lia). reflexivity.
Qed.

Definition fields_enc (fs : list (N * bytes)) : bytes := concat (map (fun f => rec_enc (fst f) (snd f)) fs).

Lemma fields_run fs : forall f total m s rest,
  N.ltb (es_count s) total = true -> forallb field_ok fs = true ->
  entries_loop (length fs + f) total m s (fields_enc fs ++ rest) =
  entries_loop f total m (mkES (es_root s) (fold_left interp_field fs (es_fields s)) (es_gid s) (es_count s)) rest.
Proof.
  induction fs as [|fld fs IH]; intros f total m s rest Hc Hok.
  - destruct s. reflexivity.
  - cbn [forallb] in Hok. apply andb_true_iff in Hok. destruct Hok as [Hf Hok].
    unfold fields_enc. cbn [map concat length Nat.add fold_left]. rewrite <- app_assoc.
    rewrite estep_field by assumption. fold (fields_enc fs).
    rewrite IH by assumption. reflexivity.
Qed.

Lemma entry_step f total m s e rest :
  N.ltb (es_count s) total = true -> edesc_ok e = true -> es_fields s = [] ->
  entries_loop (S (S (length (ed_fields e) + f))) total m s (entry_enc e ++ rest) =
  (do s' <- entry_end m (mkES (es_root s) (entry_fields e) (Some (ed_gid e)) (es_count s));
   entries_loop f total m s' rest).
Proof.
  intros Hc Hok Hnil. unfold edesc_ok in Hok. apply andb_true_iff in Hok. destruct Hok as [Hg Hfs].
  apply N.ltb_lt in Hg. unfold entry_enc. rewrite <- !app_assoc.
  rewrite estep_gid by assumption.
  replace (S (length (ed_fields e) + f)) with (length (ed_fields e) + S f)%nat by lia.
  fold (fields_enc (ed_fields e)). rewrite fields_run by assumption.
  cbn [es_root es_fields es_gid es_count]. rewrite estep_end by assumption. rewrite Hnil. reflexivity.
Qed.

(* ---------- the entries section a conforming writer lays out ---------- *)
Definition ecost (es : list edesc) : nat := list_sum (map (fun e => S (S (length (ed_fields e)))) es).

Lemma entry_enc_length e : (S (S (length (ed_fields e))) <= length (entry_enc e))%nat.
Proof.
  unfold entry_enc. rewrite !app_length, !rec_enc_length.
  assert (H : (length (ed_fields e) <= length (concat (map (fun f => rec_enc (fst f) (snd f)) (ed_fields e))))%nat).
  { induction (ed_fields e) as [|fld fs IH]; [cbn; lia|]. cbn [map concat length]. rewrite app_length, rec_enc_length. lia. }
  lia.
Qed.

Lemma entries_enc_length es : (ecost es <= length (concat (map entry_enc es)))%nat.
Proof.
  induction es as [|e es IH]; [cbn; lia|].
  change (ecost (e :: es)) with (S (S (length (ed_fields e))) + ecost es)%nat.
  cbn [map concat]. rewrite app_length.
  pose proof (entry_enc_length e). lia.
Qed.

Lemma entries_run es : forall t cnt f total m rest,
  paths_valid m t -> (forall e, In e es -> map_get (ed_gid e) m <> None) -> forallb edesc_ok es = true ->
  cnt + N.of_nat (length es) <= total ->
  entries_loop (ecost es + f) total m (mkES t [] None cnt) (concat (map entry_enc es) ++ rest) =
  entries_loop f total m (mkES (attach_entries m t es) [] None (cnt + N.of_nat (length es))) rest.
Proof.
  induction es as [|e es IH]; intros t cnt f total m rest Hv Hin Hok Htot.
  - cbn [length N.of_nat]. rewrite N.add_0_r. reflexivity.
  - cbn [forallb] in Hok. apply andb_true_iff in Hok. destruct Hok as [He Hok].
    cbn [length] in Htot |- *.
    change (ecost (e :: es)) with (S (S (length (ed_fields e))) + ecost es)%nat.
    cbn [map concat]. rewrite <- app_assoc.
    replace (S (S (length (ed_fields e))) + ecost es + f)%nat
      with (S (S (length (ed_fields e) + (ecost es + f)))) by lia.
    rewrite entry_step; [|cbn [es_count]; apply N.ltb_lt; lia|exact He|reflexivity].
    cbn [es_root es_count]. unfold entry_end. cbn [es_gid es_root es_fields es_count].
    destruct (map_get (ed_gid e) m) as [p|] eqn:Hm; [|exfalso; exact (Hin e (or_introl eq_refl) Hm)].
    destruct (Hv _ _ Hm) as [c Hc].
    rewrite (attach_entry_some m t e p c Hm Hc). cbn [bind].
    rewrite IH.
    + unfold attach_entries. cbn [fold_left]. f_equal. f_equal. lia.
    + apply attach_entry_valid. exact Hv.
    + intros e' He'. apply Hin. right. exact He'.
    + exact Hok.
    + lia.
Qed.

Theorem parse_entries_ok m root es :
  paths_valid m root -> (forall e, In e es -> map_get (ed_gid e) m <> None) -> forallb edesc_ok es = true ->
  parse_entries (N.of_nat (length es)) m root (concat (map entry_enc es)) = Ok (attach_entries m root es).
Proof.
  intros Hv Hin Hok. unfold parse_entries.
  pose proof (entries_enc_length es) as Hlen.
  remember (length (concat (map entry_enc es))) as n eqn:Hn.
  replace (S n) with (ecost es + S (n - ecost es))%nat by lia.
  rewrite <- (app_nil_r (concat (map entry_enc es))).
  rewrite entries_run; [|exact Hv|exact Hin|exact Hok|lia].
  cbn [entries_loop es_count]. rewrite N.add_0_l, N.ltb_irrefl. cbn [negb bind es_gid es_root]. reflexivity.
Qed.

(* an entry naming an id that is not in the map *)
Theorem parse_entries_bad_gid m root es1 e es2 total :
  paths_valid m root -> (forall e', In e' es1 -> map_get (ed_gid e') m <> None) ->
  forallb edesc_ok (es1 ++ [e]) = true -> map_get (ed_gid e) m = None -> N.of_nat (length es1) < total ->
  parse_entries total m root (concat (map entry_enc (es1 ++ e :: es2))) = Err KEInvalidGroupId.
Proof.
  intros Hv Hin Hok Hm Htot. unfold parse_entries.
  rewrite forallb_app in Hok. apply andb_true_iff in Hok. destruct Hok as [Hok1 Hoke].
  cbn [forallb] in Hoke. rewrite andb_true_r in Hoke.
  rewrite map_app, concat_app. cbn [map concat].
  pose proof (entries_enc_length es1) as Hlen1. pose proof (entry_enc_length e) as Hlene.
  remember (length (concat (map entry_enc es1) ++ entry_enc e ++ concat (map entry_enc es2))) as n eqn:Hn.
  assert (Hfuel : S n = (ecost es1 + S (S (length (ed_fields e) + (n - ecost es1 - length (ed_fields e) - 1))))%nat).
  { rewrite Hn, !app_length. lia. }
  rewrite Hfuel.
  rewrite entries_run; [|exact Hv|exact Hin|exact Hok1|lia].
  rewrite entry_step; [|cbn [es_count]; apply N.ltb_lt; lia|exact Hoke|reflexivity].
  unfold entry_end. cbn [es_gid]. rewrite Hm. reflexivity.
Qed.

(* ---------- arbitrary input ---------- *)
Definition paths_valid_in (m : list (N * list nat)) (t : list knode) : Prop :=
  forall k p, In (k, p) m -> exists c, children_at p t = Some c.

Lemma paths_valid_in_weaken m t : paths_valid_in m t -> paths_valid m t.
Proof. intros H k p Hg. apply (H k p). apply map_get_in. exact Hg. Qed.

Definition el_post (m : list (N * list nat)) (x : kres (estate * bytes)) : Prop :=
  match x with
  | Ok (s', _) => paths_valid_in m (es_root s')
  | Err _ => True
  | Panic _ | OutOfFuel => False
  end.

Lemma el_post_ensure m a b x : el_post m x -> el_post m (do _ <- ensure_length a b; x).
Proof. intro H. unfold ensure_length. destruct (N.eqb a b); cbn [bind]; [exact H|exact I]. Qed.

Lemma entry_end_total m s :
  paths_valid_in m (es_root s) ->
  match entry_end m s with
  | Ok s' => paths_valid_in m (es_root s')
  | Err _ => True
  | Panic _ | OutOfFuel => False
  end.
Proof.
  intro Hv. unfold entry_end. destruct (es_gid s) as [gid|]; [|exact I].
  destruct (map_get gid m) as [p|] eqn:Hm; [|exact I].
  destruct (Hv _ _ (map_get_in _ _ _ Hm)) as [c Hc].
  destruct (attach_some p (es_root s) c (KEntry (es_fields s)) Hc) as [t' [Ha _]]. rewrite Ha.
  cbn [es_root]. intros k q Hin. destruct (Hv k q Hin) as [cq Hcq].
  apply (attach_keeps_valid p (es_root s) t' _ q cq Ha Hcq).
Qed.

Lemma entries_loop_total fuel : forall total m s data,
  (length data < fuel)%nat -> paths_valid_in m (es_root s) -> el_post m (entries_loop fuel total m s data).
Proof.
  induction fuel as [|f IH]; intros total m s data Hf Hinv; [lia|].
  cbn [entries_loop].
  destruct (negb (N.ltb (es_count s) total)); [exact Hinv|].
  destruct (record data) as [[[[ty size] v] rest]|] eqn:R; [|exact I].
  pose proof (record_shrinks _ _ _ _ _ R) as Hsh.
  assert (Hrec : forall s0, paths_valid_in m (es_root s0) -> el_post m (entries_loop f total m s0 rest)).
  { intros s0 H0. apply IH; [lia|exact H0]. }
  destruct (N.eqb ty 0); [apply Hrec; exact Hinv|].
  destruct (N.eqb ty 1); [apply el_post_ensure; apply Hrec; exact Hinv|].
  destruct (N.eqb ty 2); [apply el_post_ensure; apply Hrec; exact Hinv|].
  destruct (N.eqb ty 3); [apply el_post_ensure; apply Hrec; exact Hinv|].
  destruct (N.eqb ty 4 || N.eqb ty 5 || N.eqb ty 6 || N.eqb ty 8 || N.eqb ty 13); [apply Hrec; exact Hinv|].
  destruct (N.eqb ty 7); [apply Hrec; exact Hinv|].
  destruct (N.leb 9 ty && N.leb ty 12); [apply el_post_ensure; apply Hrec; exact Hinv|].
  destruct (N.eqb ty 14); [apply Hrec; exact Hinv|].
  destruct (N.eqb ty 65535); [|exact I].
  apply el_post_ensure.
  pose proof (entry_end_total m s Hinv) as Hee.
  destruct (entry_end m s) as [s1|e|site|]; cbn [bind].
  - apply Hrec. exact Hee.
  - exact I.
  - exact Hee.
  - exact Hee.
Qed.

Theorem parse_entries_total total m root data :
  paths_valid_in m root ->
  match parse_entries total m root data with Panic _ | OutOfFuel => False | _ => True end.
Proof.
  intro Hv. unfold parse_entries.
  pose proof (entries_loop_total (S (length data)) total m (mkES root [] None 0) data (Nat.lt_succ_diag_r _) Hv) as H.
  destruct (entries_loop (S (length data)) total m (mkES root [] None 0) data) as [[s rest]|e|site|];
    cbn [el_post bind] in H |- *; try exact H.
  destruct (es_gid s); exact I.
Qed.

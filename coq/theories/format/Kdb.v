(* KeePass 1 (KDB) reader (C02).  Mirrors src/format/kdb.rs: parse_header, parse_groups (level
   stack, collapse_tail_groups, map from group id to the group's place in the tree), parse_entries
   (field table, attachment to the group the id names), parse_kdb (key, cipher flags, padding,
   contents hash).  Text is modelled as its UTF-8 bytes: [from_utf8] is the removal of trailing
   NULs, i.e. the model describes files whose text fields are valid UTF-8 (String::from_utf8_lossy
   is the identity on those).  Executable, total. *)
From KP Require Import Bytes Outcome LE Version Kdbx4 Key.
Local Open Scope N_scope.
Local Open Scope outcome_scope.

Inductive kval := KUnprot (s : bytes) | KProt (s : bytes) | KBytes (b : bytes).
Definition kfields := list (bytes * kval).       (* HashMap<String, Value>: insert replaces *)
Inductive knode :=
| KGroup (name : bytes) (children : list knode)
| KEntry (fields : kfields).
Definition kgrp := (bytes * list knode)%type.     (* a group under construction *)

Inductive kdberr :=
| KEFixedHeader | KEFixedCipherId | KEKey (e : keyerr) | KEIncorrectKey | KECrypto
| KEIncompleteGroup | KEIncompleteEntry | KEFieldLength
| KEMissingLevel | KEInvalidLevel | KEMissingGroupId | KEInvalidGroupId
| KEGroupFieldType | KEEntryFieldType.
Definition kres A := outcome kdberr A.

Definition site_follow_group_path : N := 1.

(* String::from_utf8_lossy(data).trim_end_matches('\0') on valid UTF-8 *)
Fixpoint trim_nul (l : bytes) : bytes :=
  match l with
  | [] => []
  | b :: r =>
    match trim_nul r with
    | [] => if N.eqb b 0 then [] else [b]
    | r' => b :: r'
    end
  end.

(* one record: type u16, size u32, value; None when it does not fit *)
Definition record (data : bytes) : option (N * N * bytes * bytes) :=
  if Nat.ltb (length data) 6 then None
  else
    let size := le_dec (take 4 (drop 2 data)) in
    if negb (fits size (drop 6 data)) then None
    else Some (le_dec (take 2 data), size, take (N.to_nat size) (drop 6 data),
               drop (6 + N.to_nat size) data).

Definition ensure_length (size expected : N) : kres unit :=
  if N.eqb size expected then Ok tt else Err KEFieldLength.

(* ---------- groups ---------- *)

Definition add_child (g : kgrp) (n : knode) : kgrp := (fst g, snd g ++ [n]).
Definition close (g : kgrp) : knode := KGroup (fst g) (snd g).

(* collapse_tail_groups: pop [k] groups off the branch (its top is the head of the list), each
   becoming the last child of the group below it, or of the root *)
Fixpoint collapse (k : nat) (branch : list kgrp) (root : list knode) : list kgrp * list knode :=
  match k with
  | O => (branch, root)
  | S k' =>
    match branch with
    | [] => (branch, root)
    | [leaf] => collapse k' [] (root ++ [close leaf])
    | leaf :: parent :: rest => collapse k' (add_child parent (close leaf) :: rest) root
    end
  end.

Fixpoint map_insert (k : N) (v : list nat) (m : list (N * list nat)) : list (N * list nat) :=
  match m with
  | [] => [(k, v)]
  | (k', v') :: r => if N.eqb k k' then (k, v) :: r else (k', v') :: map_insert k v r
  end.
Fixpoint map_get (k : N) (m : list (N * list nat)) : option (list nat) :=
  match m with
  | [] => None
  | (k', v') :: r => if N.eqb k k' then Some v' else map_get k r
  end.

Record gstate := mkGS {
  gs_root : list knode;            (* children of the root group *)
  gs_branch : list kgrp;           (* the current branch, deepest group first *)
  gs_name : bytes;                 (* name of the group being read *)
  gs_level : option N;             (* NOT reset between groups *)
  gs_gid : option N;
  gs_path : list nat;              (* child indices from the root to the top of the branch *)
  gs_map : list (N * list nat);    (* group id -> index path *)
  gs_count : N }.

Definition gs_init : gstate := mkGS [] [] [] None None [] [] 0.

(* the 0xffff record of a group *)
Definition group_end (s : gstate) : kres gstate :=
  match gs_level s with
  | None => Err KEMissingLevel
  | Some lv =>
    let level := N.to_nat lv in
    let depth := length (gs_branch s) in
    let '(branch, root, path) :=
      if Nat.ltb level depth
      then let (b, r) := collapse (depth - level) (gs_branch s) (gs_root s) in (b, r, firstn level (gs_path s))
      else (gs_branch s, gs_root s, gs_path s) in
    if negb (Nat.eqb level (length branch)) then Err KEInvalidLevel
    else
      let idx := match branch with [] => length root | parent :: _ => length (snd parent) end in
      let path' := path ++ [idx] in
      match gs_gid s with
      | None => Err KEMissingGroupId
      | Some gid =>
        Ok (mkGS root ((gs_name s, []) :: branch) [] (gs_level s) None path'
                 (map_insert gid path' (gs_map s)) (gs_count s + 1))
      end
  end.

Fixpoint groups_loop (fuel : nat) (total : N) (s : gstate) (data : bytes) : kres (gstate * bytes) :=
  match fuel with
  | O => OutOfFuel
  | S f =>
    if negb (N.ltb (gs_count s) total) then Ok (s, data)
    else
      match record data with
      | None => Err KEIncompleteGroup
      | Some (ty, size, value, rest) =>
        if N.eqb ty 0 then groups_loop f total s rest
        else if N.eqb ty 1 then
          do _ <- ensure_length size 4;
          groups_loop f total (mkGS (gs_root s) (gs_branch s) (gs_name s) (gs_level s) (Some (le_dec value)) (gs_path s) (gs_map s) (gs_count s)) rest
        else if N.eqb ty 2 then
          groups_loop f total (mkGS (gs_root s) (gs_branch s) (trim_nul value) (gs_level s) (gs_gid s) (gs_path s) (gs_map s) (gs_count s)) rest
        else if N.leb 3 ty && N.leb ty 6 then do _ <- ensure_length size 5; groups_loop f total s rest
        else if N.eqb ty 7 then do _ <- ensure_length size 4; groups_loop f total s rest
        else if N.eqb ty 8 then
          do _ <- ensure_length size 2;
          groups_loop f total (mkGS (gs_root s) (gs_branch s) (gs_name s) (Some (le_dec value)) (gs_gid s) (gs_path s) (gs_map s) (gs_count s)) rest
        else if N.eqb ty 9 then do _ <- ensure_length size 4; groups_loop f total s rest
        else if N.eqb ty 65535 then
          do _ <- ensure_length size 0;
          do s' <- group_end s;
          groups_loop f total s' rest
        else Err KEGroupFieldType
      end
  end.

(* parse_groups: the root's children (groups only so far), the id map and the unread data *)
Definition parse_groups (total : N) (data : bytes) : kres (list knode * list (N * list nat) * bytes) :=
  do (s, rest) <- groups_loop (S (length data)) total gs_init data;
  match gs_gid s with
  | Some _ => Err KEIncompleteGroup
  | None =>
    let (_, root) := collapse (length (gs_branch s)) (gs_branch s) (gs_root s) in
    Ok (root, gs_map s, rest)
  end.

(* ---------- entries ---------- *)

Fixpoint field_insert (k : bytes) (v : kval) (m : kfields) : kfields :=
  match m with
  | [] => [(k, v)]
  | (k', v') :: r => if bytes_eqb k k' then (k, v) :: r else (k', v') :: field_insert k v r
  end.

Definition s_Title : bytes := [84;105;116;108;101].
Definition s_URL : bytes := [85;82;76].
Definition s_UserName : bytes := [85;115;101;114;78;97;109;101].
Definition s_Additional : bytes := [65;100;100;105;116;105;111;110;97;108].
Definition s_BinaryDesc : bytes := [66;105;110;97;114;121;68;101;115;99].
Definition s_Password : bytes := [80;97;115;115;119;111;114;100].
Definition s_BinaryData : bytes := [66;105;110;97;114;121;68;97;116;97].

Definition entry_name (ty : N) : bytes :=
  if N.eqb ty 4 then s_Title else if N.eqb ty 5 then s_URL else if N.eqb ty 6 then s_UserName
  else if N.eqb ty 8 then s_Additional else s_BinaryDesc.

Fixpoint set_nth {A} (i : nat) (x : A) (l : list A) : list A :=
  match l, i with
  | [], _ => []
  | _ :: r, O => x :: r
  | y :: r, S i' => y :: set_nth i' x r
  end.

(* follow the index path through groups and append the entry there; None = the panic *)
Fixpoint attach (path : list nat) (children : list knode) (e : knode) : option (list knode) :=
  match path with
  | [] => Some (children ++ [e])
  | i :: p =>
    match nth_error children i with
    | Some (KGroup name c) =>
      match attach p c e with
      | Some c' => Some (set_nth i (KGroup name c') children)
      | None => None
      end
    | _ => None
    end
  end.

Record estate := mkES { es_root : list knode; es_fields : kfields; es_gid : option N; es_count : N }.

Definition entry_end (m : list (N * list nat)) (s : estate) : kres estate :=
  match es_gid s with
  | None => Err KEMissingGroupId
  | Some gid =>
    match map_get gid m with
    | None => Err KEInvalidGroupId
    | Some path =>
      match attach path (es_root s) (KEntry (es_fields s)) with
      | Some root' => Ok (mkES root' [] None (es_count s + 1))
      | None => Panic site_follow_group_path
      end
    end
  end.

Fixpoint entries_loop (fuel : nat) (total : N) (m : list (N * list nat)) (s : estate) (data : bytes)
  : kres (estate * bytes) :=
  match fuel with
  | O => OutOfFuel
  | S f =>
    if negb (N.ltb (es_count s) total) then Ok (s, data)
    else
      match record data with
      | None => Err KEIncompleteEntry
      | Some (ty, size, value, rest) =>
        if N.eqb ty 0 then entries_loop f total m s rest
        else if N.eqb ty 1 then do _ <- ensure_length size 16; entries_loop f total m s rest
        else if N.eqb ty 2 then
          do _ <- ensure_length size 4;
          entries_loop f total m (mkES (es_root s) (es_fields s) (Some (le_dec value)) (es_count s)) rest
        else if N.eqb ty 3 then do _ <- ensure_length size 4; entries_loop f total m s rest
        else if N.eqb ty 4 || N.eqb ty 5 || N.eqb ty 6 || N.eqb ty 8 || N.eqb ty 13 then
          entries_loop f total m (mkES (es_root s) (field_insert (entry_name ty) (KUnprot (trim_nul value)) (es_fields s)) (es_gid s) (es_count s)) rest
        else if N.eqb ty 7 then
          entries_loop f total m (mkES (es_root s) (field_insert s_Password (KProt (trim_nul value)) (es_fields s)) (es_gid s) (es_count s)) rest
        else if N.leb 9 ty && N.leb ty 12 then do _ <- ensure_length size 5; entries_loop f total m s rest
        else if N.eqb ty 14 then
          entries_loop f total m (mkES (es_root s) (field_insert s_BinaryData (KBytes value) (es_fields s)) (es_gid s) (es_count s)) rest
        else if N.eqb ty 65535 then
          do _ <- ensure_length size 0;
          do s' <- entry_end m s;
          entries_loop f total m s' rest
        else Err KEEntryFieldType
      end
  end.

Definition parse_entries (total : N) (m : list (N * list nat)) (root : list knode) (data : bytes)
  : kres (list knode) :=
  do (s, _) <- entries_loop (S (length data)) total m (mkES root [] None 0) data;
  match es_gid s with
  | Some _ => Err KEIncompleteEntry
  | None => Ok (es_root s)
  end.

(* parse_db: the children of the root group "Root" *)
Definition parse_db (num_groups num_entries : N) (payload : bytes) : kres (list knode) :=
  do (rm, rest) <- parse_groups num_groups payload;
  let (root, m) := rm in
  parse_entries num_entries m root rest.

(* ---------- the container ---------- *)

Definition kdb_header_size : nat := 124.

Section primitives.
  Variable sha256 : bytes -> bytes.
  Variable kdf : kdfcfg -> bytes -> bytes -> res bytes.
  Variable outer_dec : ocipher -> bytes -> bytes -> bytes -> res bytes.   (* as the library's ciphers: AES unpads, Twofish does not *)

  Definition lift {A} (r : res A) : kres A :=
    match r with Ok x => Ok x | Err _ => Err KECrypto | Panic n => Panic n | OutOfFuel => OutOfFuel end.

  Definition kdb_open (data : bytes) (elements : outcome keyerr (list bytes))
    : kres (dbversion * ocipher * N * list knode) :=
    if Nat.ltb (length data) kdb_header_size then Err KEFixedHeader
    else
      let flags := le32 (drop 8 data) in
      let subversion := le32 (drop 12 data) in
      let master_seed := take 16 (drop 16 data) in
      let iv := take 16 (drop 32 data) in
      let num_groups := le32 (drop 48 data) in
      let num_entries := le32 (drop 52 data) in
      let contents_hash := take 32 (drop 56 data) in
      let transform_seed := take 32 (drop 88 data) in
      let rounds := le32 (drop 120 data) in
      match elements with
      | Err e => Err (KEKey e) | Panic n => Panic n | OutOfFuel => OutOfFuel
      | Ok els =>
        match composite_kdb sha256 els with
        | Err e => Err (KEKey e) | Panic n => Panic n | OutOfFuel => OutOfFuel
        | Ok composite =>
          do transformed <- lift (kdf (KAes rounds) transform_seed composite);
          let master_key := sha256 (master_seed ++ transformed) in
          do cipher <- (if N.testbit flags 1 then Ok OAes256
                        else if N.testbit flags 3 then Ok OTwofish else Err KEFixedCipherId);
          do padded <- lift (outer_dec cipher master_key iv (drop kdb_header_size data));
          match rev padded with
          | [] => Err KEIncorrectKey
          | b :: _ =>
            if negb (fits b padded) then Err KEIncorrectKey
            else
              let payload := take (length padded - N.to_nat b) padded in
              if negb (bytes_eqb contents_hash (sha256 payload)) then Err KEIncorrectKey
              else
                do root <- parse_db num_groups num_entries payload;
                Ok (KDB (subversion mod 65536), cipher, rounds, root)
          end
        end
      end.
End primitives.

(* ---------- a conforming writer of the payload ---------- *)

Definition rec_enc (ty : N) (value : bytes) : bytes := le_enc 2 ty ++ le_enc 4 (N.of_nat (length value)) ++ value.

(* a group as a writer lays it out: level, id, name (NUL-terminated), other fields ignored by the reader *)
Record gdesc := mkGD { gd_level : nat; gd_gid : N; gd_name : bytes }.
Definition group_enc (g : gdesc) : bytes :=
  rec_enc 1 (le_enc 4 (gd_gid g)) ++ rec_enc 2 (gd_name g ++ [0]) ++ rec_enc 8 (le_enc 2 (N.of_nat (gd_level g)))
  ++ rec_enc 65535 [].

Record edesc := mkED { ed_gid : N; ed_fields : list (N * bytes) }.   (* (field type, raw value) in file order *)
Definition entry_enc (e : edesc) : bytes :=
  rec_enc 2 (le_enc 4 (ed_gid e)) ++ concat (map (fun f => rec_enc (fst f) (snd f)) (ed_fields e)) ++ rec_enc 65535 [].

Definition payload_enc (gs : list gdesc) (es : list edesc) : bytes :=
  concat (map group_enc gs) ++ concat (map entry_enc es).

(* ---------- the code before the repair: places were remembered as paths of NAMES ---------- *)

Fixpoint attach_by_name (path : list bytes) (children : list knode) (e : knode) : option (list knode) :=
  match path with
  | [] => Some (children ++ [e])
  | nm :: p =>
    (fix find (l : list knode) : option (list knode) :=
       match l with
       | [] => None
       | KGroup name c :: r =>
         if bytes_eqb name nm
         then match attach_by_name p c e with Some c' => Some (KGroup name c' :: r) | None => None end
         else match find r with Some r' => Some (KGroup name c :: r') | None => None end
       | x :: r => match find r with Some r' => Some (x :: r') | None => None end
       end) children
  end.

(* KDBX 3.1 container framing (C02).  Mirrors src/format/kdbx3.rs: parse_outer_header (u16-length
   TLVs, minimum widths of the fixed-width fields, last occurrence of a field wins), decrypt_kdbx3
   (stream-start check, hashed block stream starting at the hard-coded offset 32).  A conforming
   writer [frame3] is given beside it.  Hashes, KDF, ciphers, compression are Section variables. *)
From KP Require Import Bytes Outcome LE Version Kdbx4.
Local Open Scope N_scope.
Local Open Scope outcome_scope.

Record header3 := mkH3 {
  h3_cipher : ocipher; h3_compression : compression; h3_master_seed : bytes;
  h3_transform_seed : bytes; h3_rounds : N; h3_iv : bytes; h3_psk : bytes;
  h3_start : bytes; h3_inner : icipher }.

Record acc3 := mkA3 {
  a3_cipher : option ocipher; a3_compression : option compression; a3_master_seed : option bytes;
  a3_transform_seed : option bytes; a3_rounds : option N; a3_iv : option bytes;
  a3_psk : option bytes; a3_start : option bytes; a3_inner : option icipher }.

Definition acc3_empty : acc3 := mkA3 None None None None None None None None None.

(* one TLV: type, u16 length, buffer; None when it does not fit *)
Definition tlv16 (rest : bytes) : option (N * bytes * bytes) :=
  match rest with
  | ty :: r1 =>
    if Nat.ltb (length r1) 2 then None
    else
      let len := le_dec (take 2 r1) in let r2 := drop 2 r1 in
      if negb (fits len r2) then None
      else let n := N.to_nat len in Some (ty, take n r2, drop n r2)
  | [] => None
  end.

Definition min_length3 (ty : N) : nat :=
  if N.eqb ty 3 || N.eqb ty 10 then 4%nat else if N.eqb ty 6 then 8%nat else 0%nat.

Fixpoint fields3 (fuel : nat) (rest : bytes) (a : acc3) : res (acc3 * bytes) :=
  match fuel with
  | O => OutOfFuel
  | S f =>
    match tlv16 rest with
    | None => Err EIncompleteOuter
    | Some (ty, buf, rest') =>
      if Nat.ltb (length buf) (min_length3 ty) then Err EInvalidOuterEntry
      else if N.eqb ty 0 then Ok (a, rest')
      else if N.eqb ty 1 then fields3 f rest' a
      else if N.eqb ty 2 then
        match ocipher_of_id buf with
        | Some c => fields3 f rest' (mkA3 (Some c) (a3_compression a) (a3_master_seed a) (a3_transform_seed a) (a3_rounds a) (a3_iv a) (a3_psk a) (a3_start a) (a3_inner a))
        | None => Err EOuterCipherId
        end
      else if N.eqb ty 3 then
        match compression_of_id (le32 buf) with
        | Some c => fields3 f rest' (mkA3 (a3_cipher a) (Some c) (a3_master_seed a) (a3_transform_seed a) (a3_rounds a) (a3_iv a) (a3_psk a) (a3_start a) (a3_inner a))
        | None => Err ECompressionId
        end
      else if N.eqb ty 4 then fields3 f rest' (mkA3 (a3_cipher a) (a3_compression a) (Some buf) (a3_transform_seed a) (a3_rounds a) (a3_iv a) (a3_psk a) (a3_start a) (a3_inner a))
      else if N.eqb ty 5 then fields3 f rest' (mkA3 (a3_cipher a) (a3_compression a) (a3_master_seed a) (Some buf) (a3_rounds a) (a3_iv a) (a3_psk a) (a3_start a) (a3_inner a))
      else if N.eqb ty 6 then fields3 f rest' (mkA3 (a3_cipher a) (a3_compression a) (a3_master_seed a) (a3_transform_seed a) (Some (le_dec (take 8 buf))) (a3_iv a) (a3_psk a) (a3_start a) (a3_inner a))
      else if N.eqb ty 7 then fields3 f rest' (mkA3 (a3_cipher a) (a3_compression a) (a3_master_seed a) (a3_transform_seed a) (a3_rounds a) (Some buf) (a3_psk a) (a3_start a) (a3_inner a))
      else if N.eqb ty 8 then fields3 f rest' (mkA3 (a3_cipher a) (a3_compression a) (a3_master_seed a) (a3_transform_seed a) (a3_rounds a) (a3_iv a) (Some buf) (a3_start a) (a3_inner a))
      else if N.eqb ty 9 then fields3 f rest' (mkA3 (a3_cipher a) (a3_compression a) (a3_master_seed a) (a3_transform_seed a) (a3_rounds a) (a3_iv a) (a3_psk a) (Some buf) (a3_inner a))
      else if N.eqb ty 10 then
        match icipher_of_id (le32 buf) with
        | Some c => fields3 f rest' (mkA3 (a3_cipher a) (a3_compression a) (a3_master_seed a) (a3_transform_seed a) (a3_rounds a) (a3_iv a) (a3_psk a) (a3_start a) (Some c))
        | None => Err EInnerCipherId
        end
      else Err EInvalidOuterEntry
    end
  end.

(* the header and the offset of the body *)
Definition parse_outer_header3 (data : bytes) : res (header3 * nat) :=
  do (a, rest') <- fields3 (S (length data)) (drop version_header_size data) acc3_empty;
  match a3_cipher a, a3_compression a, a3_master_seed a, a3_transform_seed a, a3_rounds a,
        a3_iv a, a3_psk a, a3_start a, a3_inner a with
  | Some c, Some z, Some ms, Some ts, Some r, Some iv, Some psk, Some st, Some ic =>
    Ok (mkH3 c z ms ts r iv psk st ic, (length data - length rest')%nat)
  | _, _, _, _, _, _, _, _, _ => Err EIncompleteOuter
  end.

Section primitives.
  Variable sha256 : bytes -> bytes.
  Variable kdf : kdfcfg -> bytes -> bytes -> res bytes.             (* config, seed, composite key *)
  Variable outer_enc outer_dec : ocipher -> bytes -> bytes -> bytes -> res bytes.   (* key, iv, data *)
  Variable compress decompress : compression -> bytes -> res bytes.

  (* the hashed block stream: (id u32, sha256 of the data, size u32, data); size 0 ends it *)
  Fixpoint read_blocks3 (fuel : nat) (rest out : bytes) : res bytes :=
    match fuel with
    | O => OutOfFuel
    | S f =>
      if Nat.ltb (length rest) 40 then Err EBlockHash
      else
        let hash := take 32 (drop 4 rest) in
        let size := le32 (drop 36 rest) in
        if N.eqb size 0 then Ok out
        else if negb (fits size (drop 40 rest)) then Err EBlockHash
        else
          let n := N.to_nat size in
          let blk := take n (drop 40 rest) in
          if negb (bytes_eqb hash (sha256 blk)) then Err EBlockHash
          else read_blocks3 f (drop (40 + n) rest) (out ++ blk)
    end.

  (* decrypt_kdbx3: configuration, key of the inner stream, XML *)
  Definition decrypt3 (data : bytes) (elements : res (list bytes)) : res (config * bytes * bytes) :=
    match version_parse data with
    | Err e => Err (version_err e)
    | Panic n => Panic n
    | OutOfFuel => OutOfFuel
    | Ok v =>
      do (h, body_start) <- parse_outer_header3 data;
      (* the key handed to the inner cipher is the protected stream key itself (every inner
         cipher hashes its key and accepts any length) *)
      let stream_key := h3_psk h in
      if negb (inner_key_ok (h3_inner h) stream_key) then Err ECrypto
      else
        do els <- elements;
        do transformed <- kdf (KAes (h3_rounds h)) (h3_transform_seed h) (sha256 (concat els));
        let master_key := sha256 (h3_master_seed h ++ transformed) in
        do payload <- outer_dec (h3_cipher h) master_key (h3_iv h) (drop body_start data);
        if Nat.ltb (length payload) (length (h3_start h))
           || negb (bytes_eqb (take (length (h3_start h)) payload) (h3_start h))
        then Err EIncorrectKey
        else
          do buf <- read_blocks3 (S (length payload)) (drop 32 payload) [];
          do xml <- decompress (h3_compression h) buf;
          Ok (mkConfig v (h3_cipher h) (h3_compression h) (h3_inner h) (KAes (h3_rounds h)), stream_key, xml)
    end.

  (* ---------- a conforming writer ---------- *)
  Definition version_dump3 (minor : N) : bytes :=
    kdbx_identifier ++ le_enc 4 keepass_latest_id ++ le_enc 2 minor ++ le_enc 2 3.

  Definition field16 (ty : N) (b : bytes) : bytes := [ty] ++ le_enc 2 (N.of_nat (length b)) ++ b.

  (* a block with its id, hash and size; the final block has size 0 and a zero hash *)
  Definition block3 (id : N) (data : bytes) : bytes :=
    le_enc 4 id ++ sha256 data ++ le_enc 4 (N.of_nat (length data)) ++ data.
  Fixpoint write_blocks3 (id : N) (blocks : list bytes) : bytes :=
    match blocks with
    | [] => le_enc 4 id ++ zeros 32 ++ le_enc 4 0
    | b :: r => block3 id b ++ write_blocks3 (id + 1) r
    end.

  (* header fields are given as (type, buffer) pairs in the writer's order, end field last *)
  Definition header_dump3 (minor : N) (fields : list (N * bytes)) (end_buf : bytes) : bytes :=
    version_dump3 minor ++ concat (map (fun f => field16 (fst f) (snd f)) fields) ++ field16 0 end_buf.

  Definition frame3 (minor : N) (fields : list (N * bytes)) (end_buf : bytes) (h : header3)
             (elements : list bytes) (blocks : list bytes) : res bytes :=
    do transformed <- kdf (KAes (h3_rounds h)) (h3_transform_seed h) (sha256 (concat elements));
    let master_key := sha256 (h3_master_seed h ++ transformed) in
    do enc <- outer_enc (h3_cipher h) master_key (h3_iv h) (h3_start h ++ write_blocks3 0 blocks);
    Ok (header_dump3 minor fields end_buf ++ enc).
End primitives.

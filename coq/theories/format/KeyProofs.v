(* Proofs for C20: the composite key in every documented encoding. *)
From Coq Require Import Lia.
From KP Require Import Bytes Outcome LE Base64 Base64Proofs Utf8 Key.
Local Open Scope N_scope.

Section key.
  Variable sha256 : bytes -> bytes.

  (* the four credential shapes *)
  Theorem composite_password_only pw :
    key_elements sha256 (Some pw) None = Ok [sha256 pw]
    /\ composite_kdbx sha256 [sha256 pw] = sha256 (sha256 pw ++ []).
  Proof. split; [reflexivity|]. unfold composite_kdbx. cbn [concat]. reflexivity. Qed.

  Theorem composite_password_and_keyfile pw buf evs :
    key_elements sha256 (Some pw) (Some (buf, evs)) = Ok [sha256 pw; parse_keyfile sha256 buf evs]
    /\ composite_kdbx sha256 [sha256 pw; parse_keyfile sha256 buf evs]
       = sha256 (sha256 pw ++ parse_keyfile sha256 buf evs).
  Proof. split; [reflexivity|]. unfold composite_kdbx. cbn [concat]. rewrite app_nil_r. reflexivity. Qed.

  Theorem composite_keyfile_only buf evs :
    key_elements sha256 None (Some (buf, evs)) = Ok [parse_keyfile sha256 buf evs].
  Proof. reflexivity. Qed.

  Theorem no_credentials : key_elements sha256 None None = Err KIncorrectKey.
  Proof. reflexivity. Qed.

  (* an empty password is a credential (its hash is an element); absent is not *)
  Theorem empty_password_is_not_absent :
    key_elements sha256 (Some []) None = Ok [sha256 []] /\ key_elements sha256 None None = Err KIncorrectKey.
  Proof. split; reflexivity. Qed.

  (* the key-file cascade *)
  Theorem keyfile_not_xml_32 buf evs :
    parse_xml_keyfile evs = None -> length buf = 32%nat -> parse_keyfile sha256 buf evs = buf.
  Proof. intros H L. unfold parse_keyfile. rewrite H, L. reflexivity. Qed.

  Theorem keyfile_not_xml_other buf evs :
    parse_xml_keyfile evs = None -> length buf <> 32%nat -> parse_keyfile sha256 buf evs = sha256 buf.
  Proof.
    intros H L. unfold parse_keyfile. rewrite H. destruct (Nat.eqb_spec (length buf) 32); [contradiction|reflexivity].
  Qed.

  Theorem keyfile_xml buf evs k : parse_xml_keyfile evs = Some k -> parse_keyfile sha256 buf evs = k.
  Proof. intro H. unfold parse_keyfile. rewrite H. reflexivity. Qed.

  (* KDB composes a lone 32-byte element without re-hashing *)
  Theorem composite_kdb_lone e : length e = 32%nat -> composite_kdb sha256 [e] = Ok e.
  Proof. intro L. unfold composite_kdb. rewrite L. reflexivity. Qed.
  Theorem composite_kdb_lone_bad e : length e <> 32%nat -> composite_kdb sha256 [e] = Err KInvalidKeyFile.
  Proof. intro L. unfold composite_kdb. destruct (Nat.eqb_spec (length e) 32); [contradiction|reflexivity]. Qed.
  Theorem composite_kdb_two a b : composite_kdb sha256 [a; b] = Ok (sha256 (a ++ b)).
  Proof. unfold composite_kdb. cbn [concat]. rewrite app_nil_r. reflexivity. Qed.
End key.

(* ---------- the XML key file ---------- *)

(* events between elements (white space, comments, processing instructions) never matter *)
Lemma kf_scan_other evs1 evs2 stack ver val :
  kf_scan (evs1 ++ XOther :: evs2) stack ver val = kf_scan (evs1 ++ evs2) stack ver val.
Proof.
  revert stack ver val. induction evs1 as [|e r IH]; intros stack ver val; [reflexivity|].
  cbn [app kf_scan]. destruct e; try apply IH; try reflexivity.
  destruct (stack_is _ _); [apply IH|]. destruct (stack_is _ _); apply IH.
Qed.

Theorem keyfile_layout_independent evs1 evs2 :
  parse_xml_keyfile (evs1 ++ XOther :: evs2) = parse_xml_keyfile (evs1 ++ evs2).
Proof. unfold parse_xml_keyfile. rewrite kf_scan_other. reflexivity. Qed.

(* the document shape of a version 1.00 / 2.0 key file *)
Definition keyfile_doc (version data : bytes) : list xev :=
  [XStart s_KeyFile; XStart s_Meta; XStart s_Version; XChars version; XEnd; XEnd;
   XStart s_Key; XStart s_Data; XChars data; XEnd; XEnd; XEnd].

Lemma kf_scan_doc version data :
  kf_scan (keyfile_doc version data) [] None None = Some (Some version, Some data).
Proof. reflexivity. Qed.

(* version 1: the base64 payload *)
Theorem keyfile_v1_base64 version k :
  bytes_ok k = true -> bytes_eqb version s_2_0 = false ->
  parse_xml_keyfile (keyfile_doc version (b64_encode k)) = Some k.
Proof.
  intros Hk Hv. unfold parse_xml_keyfile. rewrite kf_scan_doc. cbn [option_eqb]. rewrite Hv.
  rewrite b64_decode_encode by exact Hk. reflexivity.
Qed.

(* hex text of a key, lower case *)
Definition hexd (v : N) : N := if N.ltb v 10 then 48 + v else 87 + v.
Fixpoint hex_text (k : bytes) : list N :=
  match k with [] => [] | b :: r => hexd (b / 16) :: hexd (b mod 16) :: hex_text r end.

Lemma hexv_hexd v : v < 16 -> hexv (hexd v) = Some v.
Proof.
  intro H. assert (Hc : forallb (fun v => match hexv (hexd v) with Some w => N.eqb w v | None => false end)
                                [0;1;2;3;4;5;6;7;8;9;10;11;12;13;14;15] = true) by (vm_compute; reflexivity).
  rewrite forallb_forall in Hc.
  assert (Hin : In v [0;1;2;3;4;5;6;7;8;9;10;11;12;13;14;15]).
  { assert (v = 0 \/ v = 1 \/ v = 2 \/ v = 3 \/ v = 4 \/ v = 5 \/ v = 6 \/ v = 7 \/ v = 8 \/ v = 9 \/ v = 10
            \/ v = 11 \/ v = 12 \/ v = 13 \/ v = 14 \/ v = 15) as Hv by lia.
    cbn [In]. intuition. }
  specialize (Hc v Hin). destruct (hexv (hexd v)) as [w|]; [|discriminate].
  apply N.eqb_eq in Hc. congruence.
Qed.

Lemma hex_decode_text k : bytes_ok k = true -> hex_decode (hex_text k) = Some k.
Proof.
  induction k as [|b r IH]; intro H; [reflexivity|].
  cbn [bytes_ok forallb] in H. apply andb_prop in H as [Hb Hr]. apply N.ltb_lt in Hb.
  cbn [hex_text hex_decode].
  assert (b / 16 < 16) by (apply N.div_lt_upper_bound; lia).
  assert (b mod 16 < 16) by (apply N.mod_lt; lia).
  rewrite !hexv_hexd by assumption. rewrite (IH Hr).
  f_equal. f_equal. rewrite N.mul_comm. symmetry. apply N.div_mod. lia.
Qed.

(* version 2: the hex payload with ALL white space ignored: any white-space code points inserted
   anywhere in the text leave the key unchanged *)
Theorem hex_ignores_whitespace (cps : list N) k :
  hex_decode (filter (fun c => negb (is_whitespace c)) cps) = Some k ->
  forall ws pre post, cps = pre ++ post -> is_whitespace ws = true ->
  hex_decode (filter (fun c => negb (is_whitespace c)) (pre ++ ws :: post)) = Some k.
Proof.
  intros H ws pre post -> Hws. rewrite filter_app in *. cbn [filter]. rewrite Hws. cbn [negb]. exact H.
Qed.

(* Proofs for C11: save writes the complete file to any sink or reports failure. *)
From Coq Require Import Arith Lia.
From KP Require Import Bytes Outcome LE LEFacts ReadScript ReadProofs WriteScript.

(* every sink reachable from a fresh one: the failure offset has not been passed, and a hard
   failure is not the transient kind *)
Definition sink_ok (k : sink) : Prop :=
  match k_fail k with
  | Some (off, kind) => (length (k_recv k) <= off)%nat /\ kind <> KInterrupted
  | None => True
  end.

Lemma fresh_sink_ok script fail :
  (match fail with Some (_, kind) => kind <> KInterrupted | None => True end) ->
  sink_ok (fresh_sink script fail).
Proof. unfold sink_ok, fresh_sink. cbn. destruct fail as [[off kind]|]; [|auto]. intro H. split; [lia|exact H]. Qed.

(* one call on a non-empty buffer: the hard failure (exactly at its offset), an interruption, or a
   non-empty accepted prefix that does not pass the failure offset *)
Lemma sink_write_cases buf k :
  buf <> [] -> sink_ok k ->
  (exists off kind, k_fail k = Some (off, kind) /\ length (k_recv k) = off /\ sink_write buf k = (inr kind, k))
  \/
  (exists r, k_script k = WIntr :: r /\ sink_write buf k = (inr KInterrupted, mkSink (k_recv k) r (k_fail k)))
  \/
  (exists m script', (1 <= m <= length buf)%nat
     /\ (length script' <= length (k_script k))%nat
     /\ sink_ok (mkSink (k_recv k ++ take m buf) script' (k_fail k))
     /\ sink_write buf k = (inl m, mkSink (k_recv k ++ take m buf) script' (k_fail k))).
Proof.
  intros Hb Hok. assert (Hl : (1 <= length buf)%nat) by (destruct buf; [contradiction|cbn; lia]).
  unfold sink_write, sink_ok in *. destruct (k_fail k) as [[off kind]|] eqn:Ef.
  - destruct Hok as [Hle Hk].
    destruct (Nat.eqb_spec (length (k_recv k)) off) as [E|N].
    + left. exists off, kind. auto.
    + right. set (limit := Nat.min (length buf) (off - length (k_recv k))).
      assert (Hlim : (1 <= limit <= length buf)%nat) by (subst limit; lia).
      assert (Hlim2 : (length (k_recv k) + limit <= off)%nat) by (subst limit; lia).
      destruct (k_script k) as [|[n|] r] eqn:Es.
      * right. exists limit, []. unfold accept. rewrite take_length by lia.
        cbn [k_fail k_recv length]. rewrite Ef, app_length, take_length by lia. repeat split; auto; lia.
      * right. exists (Nat.min (Nat.max n 1) limit), r. unfold accept. rewrite take_length by lia.
        cbn [k_fail k_recv length]. rewrite Ef, app_length, take_length by lia. repeat split; auto; lia.
      * left. exists r. auto.
  - right. destruct (k_script k) as [|[n|] r] eqn:Es.
    + right. exists (length buf), []. unfold accept. rewrite take_length by lia.
      cbn [k_fail]. rewrite Ef. repeat split; auto; lia.
    + right. exists (Nat.min (Nat.max n 1) (length buf)), r. unfold accept. rewrite take_length by lia.
      cbn [k_fail length]. rewrite Ef. repeat split; auto; lia.
    + left. exists r. auto.
Qed.

Lemma write_all_unfold f buf k :
  buf <> [] ->
  write_all (S f) buf k =
  match sink_write buf k with
  | (inl O, _) => Err KWriteZero
  | (inl n, k') => write_all f (drop n buf) k'
  | (inr KInterrupted, k') => write_all f buf k'
  | (inr e, _) => Err e
  end.
Proof. destruct buf; [contradiction|reflexivity]. Qed.

(* write_all: either everything is received, or the sink's own hard failure is returned, the
   failure offset lying inside the bytes that were still to be written *)
Theorem write_all_spec : forall fuel buf k,
  sink_ok k ->
  (S (length buf + length (k_script k)) <= fuel)%nat ->
  (exists k', write_all fuel buf k = Ok k' /\ k_recv k' = k_recv k ++ buf /\ k_fail k' = k_fail k
              /\ (length (k_script k') <= length (k_script k))%nat /\ sink_ok k')
  \/
  (exists off kind, k_fail k = Some (off, kind) /\ write_all fuel buf k = Err kind
                    /\ (length (k_recv k) <= off < length (k_recv k) + length buf)%nat).
Proof.
  induction fuel as [|f IH]; intros buf k Hok Hfuel; [lia|].
  destruct buf as [|b buf'] eqn:Eb.
  - left. exists k. cbn [write_all]. rewrite app_nil_r. auto.
  - rewrite <- Eb in *. assert (Hne : buf <> []) by (rewrite Eb; discriminate).
    assert (Hl : (1 <= length buf)%nat) by (rewrite Eb; cbn; lia).
    rewrite (write_all_unfold f buf k Hne).
    destruct (sink_write_cases buf k Hne Hok) as [[off [kind [Ef [El E]]]]|[[r [Es E]]|[m [script' [Hm [Hs [Hok' E]]]]]]];
      rewrite E.
    + right. exists off, kind. split; [exact Ef|]. split; [|lia].
      unfold sink_ok in Hok. rewrite Ef in Hok. destruct Hok as [_ Hk]. destruct kind; try reflexivity. contradiction.
    + assert (Hok2 : sink_ok (mkSink (k_recv k) r (k_fail k))) by exact Hok.
      destruct (IH buf _ Hok2) as [H|H].
      { cbn [k_script]. rewrite Es in Hfuel. cbn [length] in Hfuel. lia. }
      * destruct H as [k' [H1 [H2 [H3 [H4 H5]]]]]. left. exists k'. cbn [k_recv k_fail k_script] in *.
        rewrite Es. cbn [length]. repeat split; auto; try lia.
      * destruct H as [o [kd [H1 [H2 H3]]]]. cbn [k_recv k_fail] in *. right. exists o, kd. auto.
    + destruct m as [|m']; [lia|].
      destruct (IH (drop (S m') buf) _ Hok') as [H|H].
      { cbn [k_script]. rewrite drop_length. lia. }
      * destruct H as [k' [H1 [H2 [H3 [H4 H5]]]]]. left. exists k'. cbn [k_recv k_fail k_script] in *.
        rewrite H2, <- app_assoc, take_drop. repeat split; auto; try lia.
      * destruct H as [o [kd [H1 [H2 H3]]]]. cbn [k_recv k_fail] in *. right. exists o, kd.
        split; [exact H1|]. split; [exact H2|].
        rewrite app_length, drop_length, take_length in H3 by lia. lia.
Qed.

(* ---------- the whole save ---------- *)

(* Ok means the sink received the whole file; an error is the sink's own error, raised at an
   offset inside the file; and nothing else can happen *)
Theorem save_complete : forall pieces k,
  sink_ok k ->
  (exists k', save_to_sink pieces k = Ok k' /\ k_recv k' = k_recv k ++ concat pieces)
  \/
  (exists off kind, k_fail k = Some (off, kind) /\ save_to_sink pieces k = Err kind
                    /\ (length (k_recv k) <= off < length (k_recv k) + length (concat pieces))%nat).
Proof.
  induction pieces as [|p r IH]; intros k Hok; cbn [save_to_sink concat].
  - left. exists k. rewrite app_nil_r. auto.
  - destruct (write_all_spec (wa_fuel p k) p k Hok) as [H|H]; [unfold wa_fuel; lia| |].
    + destruct H as [k' [H1 [H2 [H3 [H4 H5]]]]]. rewrite H1.
      destruct (IH k' H5) as [G|G].
      * destruct G as [k'' [G1 G2]]. left. exists k''. rewrite G2, H2, app_assoc. auto.
      * destruct G as [off [kind [G1 [G2 G3]]]]. right. exists off, kind. rewrite H3 in G1.
        split; [exact G1|]. split; [exact G2|]. rewrite H2, !app_length in *. lia.
    + destruct H as [off [kind [H1 [H2 H3]]]]. rewrite H2. right. exists off, kind.
      split; [exact H1|]. split; [reflexivity|]. rewrite app_length. lia.
Qed.

(* conversely, a failure offset strictly inside the file is always reported: save never returns Ok *)
Theorem save_reports_failure pieces script off kind :
  kind <> KInterrupted -> (off < length (concat pieces))%nat ->
  save_to_sink pieces (fresh_sink script (Some (off, kind))) = Err kind.
Proof.
  intros Hk Hoff.
  destruct (save_complete pieces (fresh_sink script (Some (off, kind)))) as [H|H].
  - apply fresh_sink_ok. exact Hk.
  - (* Ok would mean the sink received more than its failure offset allows *)
    exfalso. destruct H as [k' [H1 H2]].
    assert (Hinv : forall ps k k2, sink_ok k -> save_to_sink ps k = Ok k2 -> sink_ok k2 /\ k_fail k2 = k_fail k).
    { induction ps as [|p r IH]; intros k k2 Hok Hs; cbn [save_to_sink] in Hs.
      - injection Hs as <-. auto.
      - destruct (write_all_spec (wa_fuel p k) p k Hok) as [G|G]; [unfold wa_fuel; lia| |].
        + destruct G as [k3 [G1 [G2 [G3 [G4 G5]]]]]. rewrite G1 in Hs.
          destruct (IH k3 k2 G5 Hs) as [A B]. split; [exact A|congruence].
        + destruct G as [o [kd [G1 [G2 G3]]]]. rewrite G2 in Hs. discriminate. }
    destruct (Hinv pieces _ k' (fresh_sink_ok script (Some (off, kind)) Hk) H1) as [Hok' Hf'].
    unfold sink_ok in Hok'. rewrite Hf' in Hok'. cbn [fresh_sink k_fail] in Hok'.
    destruct Hok' as [Hle _]. rewrite H2 in Hle. cbn [fresh_sink k_recv app] in Hle. lia.
  - destruct H as [o [kd [H1 [H2 H3]]]]. cbn [fresh_sink k_fail] in H1. injection H1 as <- <-. exact H2.
Qed.

(* with no failure, or one at or beyond the end of the file, save succeeds and delivers everything *)
Theorem save_succeeds pieces script fail :
  (match fail with Some (off, kind) => (length (concat pieces) <= off)%nat /\ kind <> KInterrupted | None => True end) ->
  exists k', save_to_sink pieces (fresh_sink script fail) = Ok k' /\ k_recv k' = concat pieces.
Proof.
  intro Hf.
  destruct (save_complete pieces (fresh_sink script fail)) as [H|H].
  - apply fresh_sink_ok. destruct fail as [[off kind]|]; [tauto|auto].
  - destruct H as [k' [H1 H2]]. exists k'. auto.
  - destruct H as [o [kd [H1 [H2 H3]]]]. cbn [fresh_sink k_fail k_recv length] in *. subst fail.
    destruct Hf as [Hf _]. lia.
Qed.

(* ---------- the code before the repair ---------- *)

(* a sink that takes 7 bytes per call: the raw-write version reports success with 7 of 20 bytes *)
Lemma save_raw_refuted :
  exists pieces k, sink_ok k /\
    match save_raw pieces k with
    | Ok k' => k_recv k' <> concat pieces
    | _ => False
    end.
Proof.
  exists [[1;2;3;4;5;6;7;8;9;10;11;12;13;14;15;16;17;18;19;20]%N], (fresh_sink [Accept 7] None).
  split; [exact I|]. vm_compute. discriminate.
Qed.

(* Proofs for C10: reading is independent of chunking and surfaces I/O errors. *)
From Coq Require Import Arith Lia.
From KP Require Import Bytes Outcome LE LEFacts Version ReadScript.

Lemma take_nil_iff m (l : bytes) : (1 <= m)%nat -> (take m l = [] <-> l = []).
Proof.
  intro Hm. destruct m as [|k]; [lia|]. destruct l as [|x r]; cbn [take]; split; congruence.
Qed.

Lemma take_length_min m (l : bytes) : length (take m l) = Nat.min m (length l).
Proof.
  revert l. induction m as [|k IH]; intro l; [reflexivity|].
  destruct l as [|x r]; [reflexivity|]. cbn [take length]. rewrite IH. reflexivity.
Qed.

Lemma take_split a m (l : bytes) :
  (m <= a)%nat -> take a l = take m l ++ take (a - length (take m l)) (drop m l).
Proof.
  revert a l. induction m as [|k IH]; intros a l H.
  - cbn [take drop app length]. rewrite Nat.sub_0_r. reflexivity.
  - destruct a as [|a]; [lia|]. destruct l as [|x r]; [reflexivity|].
    cbn [take drop app length]. rewrite Nat.sub_succ. rewrite <- IH by lia. reflexivity.
Qed.

(* ---------- one read call ---------- *)

(* without a hard failure a call is an interruption or delivers a non-empty prefix of what is left
   (empty only at the end of the data) *)
Lemma src_read_nofail cap s :
  s_fail s = None -> (1 <= cap)%nat ->
  (exists r, s_script s = Intr :: r /\
             src_read cap s = (inr KInterrupted, mkSource (s_rest s) (s_pos s) r None))
  \/
  (exists m script', (1 <= m <= cap)%nat /\ (length script' <= length (s_script s))%nat
     /\ (s_script s <> [] -> (length script' < length (s_script s))%nat)
     /\ src_read cap s = (inl (take m (s_rest s)),
                          mkSource (drop m (s_rest s)) (s_pos s + length (take m (s_rest s))) script' None)).
Proof.
  intros Hf Hc. unfold src_read. rewrite Hf.
  destruct (s_script s) as [|[n|] r] eqn:Es.
  - right. exists cap, []. unfold deliver. try rewrite Hf. repeat split; auto; try lia. congruence.
  - right. exists (Nat.min (Nat.max n 1) cap), r. unfold deliver. try rewrite Hf. cbn [length].
    repeat split; auto; try lia.
  - left. exists r. auto.
Qed.

(* ---------- read_to_end ---------- *)

Theorem read_to_end_delivers : forall fuel caps s acc,
  s_fail s = None ->
  (S (length (s_script s) + length (s_rest s)) <= fuel)%nat ->
  read_to_end fuel caps s acc = Ok (acc ++ s_rest s).
Proof.
  induction fuel as [|f IH]; intros caps s acc Hf Hfuel; [lia|].
  cbn [read_to_end].
  destruct (src_read_nofail (Nat.max 1 (hd 32 caps)) s Hf ltac:(lia))
    as [[r [Es E]]|[m [script' [Hm [Hl [Hl' E]]]]]]; rewrite E.
  - rewrite IH; cbn [s_fail s_script s_rest]; [reflexivity|reflexivity|].
    rewrite Es in Hfuel. cbn [length] in Hfuel. lia.
  - destruct (take m (s_rest s)) as [|x d] eqn:Et.
    + apply take_nil_iff in Et; [|lia]. rewrite Et, app_nil_r. reflexivity.
    + rewrite IH; cbn [s_fail s_script s_rest]; [|reflexivity|].
      * rewrite <- app_assoc, <- Et, take_drop. reflexivity.
      * rewrite drop_length.
        assert (Hlen : (1 <= length (s_rest s))%nat).
        { destruct (s_rest s); [destruct m; discriminate|cbn; lia]. }
        lia.
Qed.

(* A hard failure at an offset within the file is always reached and always reported; the caller
   never sees Ok. *)
Theorem read_to_end_fails : forall fuel caps s acc k kind,
  s_fail s = Some (k, kind) -> kind <> KInterrupted ->
  (s_pos s <= k <= s_pos s + length (s_rest s))%nat ->
  (S (length (s_script s) + length (s_rest s)) <= fuel)%nat ->
  read_to_end fuel caps s acc = Err kind.
Proof.
  induction fuel as [|f IH]; intros caps s acc k kind Hf Hk Hr Hfuel; [lia|].
  cbn [read_to_end]. unfold src_read. rewrite Hf.
  destruct (Nat.eqb_spec (s_pos s) k) as [E|N].
  - destruct kind; try reflexivity. contradiction.
  - set (cap := Nat.max 1 (hd 32 caps)).
    assert (Hlim : (1 <= Nat.min cap (k - s_pos s))%nat) by (subst cap; lia).
    assert (Hgen : forall m script', (1 <= m <= k - s_pos s)%nat ->
               (length script' + 0 <= length (s_script s))%nat ->
               match deliver m script' s with
               | (inr KInterrupted, s') => read_to_end f (tl caps) s' acc
               | (inr k0, _) => Err k0
               | (inl [], _) => Ok acc
               | (inl d, s') => read_to_end f (tl caps) s' (acc ++ d)
               end = Err kind).
    { intros m script' Hm Hs. unfold deliver.
      assert (Hlen : length (take m (s_rest s)) = m) by (apply take_length; lia).
      destruct (take m (s_rest s)) as [|x d] eqn:Et; [cbn in Hlen; lia|].
      apply (IH _ _ _ k kind); cbn [s_fail s_pos s_rest s_script]; auto.
      - rewrite drop_length. lia.
      - rewrite drop_length. lia. }
    destruct (s_script s) as [|[n|] r] eqn:Es.
    + apply Hgen; cbn [length]; lia.
    + apply Hgen; cbn [length]; lia.
    + apply (IH _ _ _ k kind); cbn [s_fail s_pos s_rest s_script]; auto. cbn [length] in Hfuel. lia.
Qed.

(* ---------- open / get_xml / with_keyfile ---------- *)

Section open.
  Context {R : Type}.
  Variable parse : bytes -> R.
  Variable io_error : ekind -> R.

  (* any two schedules that deliver the file give the result of parsing the whole file *)
  Theorem open_chunking_independent file script caps :
    open_model parse io_error caps (whole file script None) = Ok (parse file).
  Proof.
    unfold open_model, whole, rte_fuel. cbn [s_script s_rest].
    rewrite read_to_end_delivers; cbn [s_fail s_script s_rest app]; auto.
  Qed.

  (* a failure at any offset k in [0, len] is returned as the I/O error; never a parse of a prefix *)
  Theorem open_surfaces_error file script caps k kind :
    (k <= length file)%nat -> kind <> KInterrupted ->
    open_model parse io_error caps (whole file script (Some (k, kind))) = Ok (io_error kind).
  Proof.
    intros Hk Hi. unfold open_model, whole, rte_fuel. cbn [s_script s_rest].
    rewrite (read_to_end_fails _ _ _ _ k kind); cbn [s_fail s_script s_rest s_pos]; auto. lia.
  Qed.
End open.

(* ---------- get_version ---------- *)

Theorem fill_delivers : forall fuel want s acc,
  s_fail s = None ->
  (S (length (s_script s) + length (s_rest s)) <= fuel)%nat ->
  fill fuel want s acc = Ok (acc ++ take (want - length acc) (s_rest s)).
Proof.
  induction fuel as [|f IH]; intros want s acc Hf Hfuel; [lia|].
  cbn [fill]. destruct (Nat.leb_spec want (length acc)) as [L|L].
  - replace (want - length acc)%nat with 0%nat by lia. cbn [take]. rewrite app_nil_r. reflexivity.
  - destruct (src_read_nofail (want - length acc) s Hf ltac:(lia))
      as [[r [Es E]]|[m [script' [Hm [Hl [Hl' E]]]]]]; rewrite E.
    + rewrite IH; cbn [s_fail s_script s_rest]; [reflexivity|reflexivity|].
      rewrite Es in Hfuel. cbn [length] in Hfuel. lia.
    + destruct (take m (s_rest s)) as [|x d] eqn:Et.
      * apply take_nil_iff in Et; [|lia]. rewrite Et. destruct (want - length acc)%nat; cbn [take]; rewrite app_nil_r; reflexivity.
      * rewrite IH; cbn [s_fail s_script s_rest]; [|reflexivity|].
        -- rewrite <- app_assoc, app_length, <- Et. apply f_equal.
           rewrite (take_split (want - length acc) m (s_rest s)) by lia.
           rewrite Nat.sub_add_distr. reflexivity.
        -- rewrite drop_length.
           assert (Hlen : (1 <= length (s_rest s))%nat).
           { destruct (s_rest s); [destruct m; discriminate|cbn; lia]. }
           lia.
Qed.

Definition pad12 (file : bytes) : bytes :=
  take version_header_size file ++ zeros (version_header_size - length (take version_header_size file)).

Definition gv_of (r : outcome verr dbversion) : outcome unit gv_result :=
  match r with
  | Ok v => Ok (GvVersion v)
  | Err e => Ok (GvIntegrity e)
  | Panic n => Panic n
  | OutOfFuel => OutOfFuel
  end.

(* version sniffing does not depend on how the source delivers the bytes *)
Theorem get_version_chunking_independent file script :
  get_version_model (whole file script None) = gv_of (version_parse (pad12 file)).
Proof.
  unfold get_version_model, whole, rte_fuel. cbn [s_script s_rest].
  rewrite fill_delivers; cbn [s_fail s_script s_rest app length]; auto.
Qed.

Lemma version_parse_prefix data :
  (version_header_size <= length data)%nat ->
  version_parse (take version_header_size data) = version_parse data.
Proof.
  intro H. unfold version_header_size in *.
  do 12 (destruct data as [|? data]; [cbn [length] in H; lia|]).
  reflexivity.
Qed.

(* ... and reports what parsing the file's own header reports (hence what open dispatches on) *)
Theorem get_version_agrees file script :
  (version_header_size <= length file)%nat ->
  get_version_model (whole file script None) = gv_of (version_parse file).
Proof.
  intro H. rewrite get_version_chunking_independent. unfold pad12.
  rewrite take_length by exact H. rewrite Nat.sub_diag. cbn [zeros]. rewrite app_nil_r.
  rewrite version_parse_prefix by exact H. reflexivity.
Qed.

Theorem fill_fails : forall fuel want s acc k kind,
  s_fail s = Some (k, kind) -> kind <> KInterrupted ->
  (s_pos s <= k <= s_pos s + length (s_rest s))%nat ->
  (k - s_pos s < want - length acc)%nat ->
  (S (length (s_script s) + length (s_rest s)) <= fuel)%nat ->
  fill fuel want s acc = Err kind.
Proof.
  induction fuel as [|f IH]; intros want s acc k kind Hf Hk Hr Hw Hfuel; [lia|].
  cbn [fill]. destruct (Nat.leb_spec want (length acc)) as [L|L]; [lia|].
  unfold src_read. rewrite Hf.
  destruct (Nat.eqb_spec (s_pos s) k) as [E|N].
  - destruct kind; try reflexivity. contradiction.
  - set (cap := (want - length acc)%nat).
    assert (Hgen : forall m script', (1 <= m <= k - s_pos s)%nat ->
               (length script' + 0 <= length (s_script s))%nat ->
               match deliver m script' s with
               | (inr KInterrupted, s') => fill f want s' acc
               | (inr k0, _) => Err k0
               | (inl [], _) => Ok acc
               | (inl d, s') => fill f want s' (acc ++ d)
               end = Err kind).
    { intros m script' Hm Hs. unfold deliver.
      assert (Hlen : length (take m (s_rest s)) = m) by (apply take_length; lia).
      destruct (take m (s_rest s)) as [|x d] eqn:Et; [cbn in Hlen; lia|].
      apply (IH _ _ _ k kind); cbn [s_fail s_pos s_rest s_script]; auto.
      - rewrite drop_length. lia.
      - rewrite app_length. lia.
      - rewrite drop_length. lia. }
    destruct (s_script s) as [|[n|] r] eqn:Es.
    + apply Hgen; cbn [length]; subst cap; lia.
    + apply Hgen; cbn [length]; subst cap; lia.
    + apply (IH _ _ _ k kind); cbn [s_fail s_pos s_rest s_script]; auto. cbn [length] in Hfuel. lia.
Qed.

(* a source failing before the header is complete (or at the end of a short file) is reported *)
Theorem get_version_surfaces_error file script k kind :
  (k <= length file)%nat -> (k < version_header_size)%nat -> kind <> KInterrupted ->
  get_version_model (whole file script (Some (k, kind))) = Ok (GvIo kind).
Proof.
  intros Hk Hv Hi. unfold get_version_model, whole, rte_fuel. cbn [s_script s_rest].
  rewrite (fill_fails _ _ _ _ k kind); cbn [s_fail s_script s_rest s_pos length]; auto; lia.
Qed.

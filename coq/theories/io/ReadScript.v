(* Byte sources as scripts (C10).  A source is a byte string, a schedule of short reads and
   interruptions, and optionally a hard failure at a byte offset.  [src_read] is one call of
   Read::read with a buffer of [cap] bytes; [read_to_end] and [fill] are the std / keepass loops
   built on it.  Mirrors src/db/mod.rs Database::open / get_xml / get_version and src/key.rs
   DatabaseKey::with_keyfile as far as their use of the source goes. *)
From KP Require Import Bytes Outcome LE Version.

Inductive ekind := KOther | KUnexpectedEof | KInterrupted | KWriteZero | KBrokenPipe.

Inductive ract :=
| Chunk (n : nat)      (* this call delivers at most n (>= 1) bytes *)
| Intr.                (* this call fails with ErrorKind::Interrupted, nothing consumed *)

Record source := mkSource {
  s_rest : bytes;                     (* not yet delivered *)
  s_pos : nat;                        (* bytes delivered so far *)
  s_script : list ract;               (* per-call behaviour; exhausted = deliver all that fits *)
  s_fail : option (nat * ekind)       (* hard failure once s_pos reaches the offset *)
}.

Definition ekind_eqb (a b : ekind) : bool :=
  match a, b with
  | KOther, KOther | KUnexpectedEof, KUnexpectedEof | KInterrupted, KInterrupted
  | KWriteZero, KWriteZero | KBrokenPipe, KBrokenPipe => true
  | _, _ => false
  end.

Definition deliver (m : nat) (script : list ract) (s : source) : (bytes + ekind) * source :=
  let d := take m (s_rest s) in
  (inl d, mkSource (drop m (s_rest s)) (s_pos s + length d) script (s_fail s)).

(* one Read::read call with a buffer of cap >= 1 bytes *)
Definition src_read (cap : nat) (s : source) : (bytes + ekind) * source :=
  let limit := match s_fail s with
               | Some (k, _) => Nat.min cap (k - s_pos s)
               | None => cap
               end in
  match s_fail s with
  | Some (k, kind) =>
    if Nat.eqb (s_pos s) k then (inr kind, s)
    else
      match s_script s with
      | Intr :: r => (inr KInterrupted, mkSource (s_rest s) (s_pos s) r (s_fail s))
      | Chunk n :: r => deliver (Nat.min (Nat.max n 1) limit) r s
      | [] => deliver limit [] s
      end
  | None =>
    match s_script s with
    | Intr :: r => (inr KInterrupted, mkSource (s_rest s) (s_pos s) r (s_fail s))
    | Chunk n :: r => deliver (Nat.min (Nat.max n 1) limit) r s
    | [] => deliver limit [] s
    end
  end.

(* std::io::Read::read_to_end: retry Interrupted, stop at Ok(0), propagate other errors.
   [caps] are the buffer sizes std happens to offer (arbitrary, >= 1; 32 when the list is exhausted). *)
Fixpoint read_to_end (fuel : nat) (caps : list nat) (s : source) (acc : bytes) : outcome ekind bytes :=
  match fuel with
  | O => OutOfFuel
  | S f =>
    let cap := Nat.max 1 (hd 32 caps) in
    match src_read cap s with
    | (inr KInterrupted, s') => read_to_end f (tl caps) s' acc
    | (inr k, _) => Err k
    | (inl [], _) => Ok acc
    | (inl d, s') => read_to_end f (tl caps) s' (acc ++ d)
    end
  end.

Definition rte_fuel (s : source) : nat := S (length (s_script s) + length (s_rest s)).

Section open.
  Context {R : Type}.
  Variable parse : bytes -> R.            (* Database::parse / decrypt, applied to the whole buffer *)
  Variable io_error : ekind -> R.         (* the call's error for an I/O failure *)

  (* Database::open, Database::get_xml, DatabaseKey::with_keyfile: read_to_end, then use the buffer *)
  Definition open_model (caps : list nat) (s : source) : outcome unit R :=
    match read_to_end (rte_fuel s) caps s [] with
    | Ok data => Ok (parse data)
    | Err k => Ok (io_error k)
    | Panic n => Panic n
    | OutOfFuel => OutOfFuel
    end.
End open.

(* Database::get_version (after the fix): fill a zeroed 12-byte buffer until it is full or the
   source is exhausted, retrying Interrupted; then DatabaseVersion::parse *)
Fixpoint fill (fuel : nat) (want : nat) (s : source) (acc : bytes) : outcome ekind bytes :=
  match fuel with
  | O => OutOfFuel
  | S f =>
    if Nat.leb want (length acc) then Ok acc
    else
      match src_read (want - length acc) s with
      | (inr KInterrupted, s') => fill f want s' acc
      | (inr k, _) => Err k
      | (inl [], _) => Ok acc
      | (inl d, s') => fill f want s' (acc ++ d)
      end
  end.

Inductive gv_result := GvVersion (v : dbversion) | GvIntegrity (e : verr) | GvIo (k : ekind).

Definition get_version_model (s : source) : outcome unit gv_result :=
  match fill (rte_fuel s) version_header_size s [] with
  | Ok buf =>
    match version_parse (buf ++ zeros (version_header_size - length buf)) with
    | Ok v => Ok (GvVersion v)
    | Err e => Ok (GvIntegrity e)
    | Panic n => Panic n
    | OutOfFuel => OutOfFuel
    end
  | Err k => Ok (GvIo k)
  | Panic n => Panic n
  | OutOfFuel => OutOfFuel
  end.

Definition whole (file : bytes) (script : list ract) (fail : option (nat * ekind)) : source :=
  mkSource file 0 script fail.

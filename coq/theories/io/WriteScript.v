(* Byte sinks as scripts (C11).  [sink_write] is one call of Write::write; [write_all] is the std
   loop; [save_to_sink] is the sequence of destination writes of dump_kdbx4 (src/format/kdbx4/dump.rs):
   header, header SHA-256, header HMAC, block stream - each a write_all after the repair. *)
From KP Require Import Bytes Outcome LE ReadScript.

Inductive wact :=
| Accept (n : nat)     (* this call accepts at most n (>= 1) bytes *)
| WIntr.               (* this call fails with ErrorKind::Interrupted *)

Record sink := mkSink {
  k_recv : bytes;                     (* everything accepted so far *)
  k_script : list wact;
  k_fail : option (nat * ekind)       (* hard failure once that many bytes have been accepted *)
}.

Definition accept (m : nat) (script : list wact) (buf : bytes) (k : sink) : (nat + ekind) * sink :=
  let d := take m buf in
  (inl (length d), mkSink (k_recv k ++ d) script (k_fail k)).

(* one Write::write call *)
Definition sink_write (buf : bytes) (k : sink) : (nat + ekind) * sink :=
  let limit := match k_fail k with
               | Some (off, _) => Nat.min (length buf) (off - length (k_recv k))
               | None => length buf
               end in
  match k_fail k with
  | Some (off, kind) =>
    if Nat.eqb (length (k_recv k)) off then (inr kind, k)
    else
      match k_script k with
      | WIntr :: r => (inr KInterrupted, mkSink (k_recv k) r (k_fail k))
      | Accept n :: r => accept (Nat.min (Nat.max n 1) limit) r buf k
      | [] => accept limit [] buf k
      end
  | None =>
    match k_script k with
    | WIntr :: r => (inr KInterrupted, mkSink (k_recv k) r (k_fail k))
    | Accept n :: r => accept (Nat.min (Nat.max n 1) limit) r buf k
    | [] => accept limit [] buf k
    end
  end.

(* std::io::Write::write_all: Ok(0) is WriteZero, Interrupted is retried *)
Fixpoint write_all (fuel : nat) (buf : bytes) (k : sink) : outcome ekind sink :=
  match buf with
  | [] => Ok k
  | _ :: _ =>
    match fuel with
    | O => OutOfFuel
    | S f =>
      match sink_write buf k with
      | (inl O, _) => Err KWriteZero
      | (inl n, k') => write_all f (drop n buf) k'
      | (inr KInterrupted, k') => write_all f buf k'
      | (inr e, _) => Err e
      end
    end
  end.

Definition wa_fuel (buf : bytes) (k : sink) : nat := S (length buf + length (k_script k)).

(* the destination writes of dump_kdbx4, in order *)
Fixpoint save_to_sink (pieces : list bytes) (k : sink) : outcome ekind sink :=
  match pieces with
  | [] => Ok k
  | p :: r =>
    match write_all (wa_fuel p k) p k with
    | Ok k' => save_to_sink r k'
    | Err e => Err e
    | Panic n => Panic n
    | OutOfFuel => OutOfFuel
    end
  end.

(* the code before the repair: one raw write per piece, the returned count discarded *)
Fixpoint save_raw (pieces : list bytes) (k : sink) : outcome ekind sink :=
  match pieces with
  | [] => Ok k
  | p :: r =>
    match sink_write p k with
    | (inl _, k') => save_raw r k'
    | (inr e, _) => Err e
    end
  end.

Definition fresh_sink (script : list wact) (fail : option (nat * ekind)) : sink := mkSink [] script fail.

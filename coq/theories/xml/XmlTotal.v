(* Totality of the reader model: for ANY list of events and ANY key stream, [parse_events] returns
   [Ok] or [Err]; the fuel (= the number of events) never runs out and nothing panics.  Also: every
   parser returns a strictly shorter event list than it was given (it consumes at least its start tag). *)
From Coq Require Import Lia.
From KP Require Import Bytes Outcome LE Utf8 Base64 Scalars XmlTypes XmlParse.
Local Open Scope outcome_scope.

Definition res_ok {A} (evs : list ev) (r : pres A) : Prop :=
  match r with
  | Ok (_, rest, _) => length rest < length evs
  | Err _ => True
  | Panic _ => False
  | OutOfFuel => False
  end.
Definition inner_ok {A} (evs : list ev) (r : outcome xerr (A * list ev)) : Prop :=
  match r with
  | Ok (_, rest) => length rest <= length evs
  | Err _ => True
  | Panic _ => False
  | OutOfFuel => False
  end.
Definition total_conv {A} (conv : bytes -> outcome xerr A) : Prop :=
  forall t, match conv t with Ok _ => True | Err _ => True | _ => False end.

(* a handler / parser is good up to [bound] events *)
Definition hgood {St} (bound : nat) (h : handler St) : Prop :=
  forall acc evs ks, evs <> [] -> length evs <= bound -> res_ok evs (h acc evs ks).
Definition pgood {A} (bound : nat) (p : list ev -> bytes -> pres A) : Prop :=
  forall evs ks, evs <> [] -> length evs <= bound -> res_ok evs (p evs ks).

Lemma pgood_mono {A} a b (p : list ev -> bytes -> pres A) : a <= b -> pgood b p -> pgood a p.
Proof. intros L H evs ks Hne Hl. apply H; [exact Hne|lia]. Qed.

Lemma of_option_total {A} e (f : bytes -> option A) : total_conv (fun t => of_option e (f t)).
Proof. intro t. destruct (f t); exact I. Qed.

Lemma conv_string_total : total_conv conv_string. Proof. intro t. exact I. Qed.
Lemma conv_bool_total : total_conv conv_bool. Proof. apply of_option_total. Qed.
Lemma conv_usize_total : total_conv conv_usize. Proof. apply of_option_total. Qed.
Lemma conv_isize_total : total_conv conv_isize. Proof. apply of_option_total. Qed.
Lemma conv_b64_total : total_conv conv_b64. Proof. apply of_option_total. Qed.
Lemma parse_uuid_total : total_conv parse_uuid.
Proof. intro t. unfold parse_uuid. destruct (b64_decode t) as [v|]; [|exact I]. destruct (Nat.eqb (length v) 16); exact I. Qed.
Lemma parse_color_total : total_conv parse_color_c.
Proof. intro t. unfold parse_color_c. destruct (parse_color t); exact I. Qed.
Lemma parse_time_total : total_conv parse_time.
Proof.
  intro t. unfold parse_time. destruct (parse_iso t); [exact I|]. destruct (b64_decode t) as [v|]; [|exact I].
  destruct (Nat.ltb (length v) 8); [exact I|]. destruct (ts_ok _); exact I.
Qed.
#[export] Hint Resolve conv_string_total conv_bool_total conv_usize_total conv_isize_total conv_b64_total
  parse_uuid_total parse_color_total parse_time_total : xmltotal.

Lemma p_chars_ok {A} (conv : bytes -> outcome xerr A) :
  total_conv conv -> forall evs, inner_ok evs (p_chars conv evs).
Proof.
  intros T evs. destruct evs as [|[n a|n|t|] r]; cbn [p_chars inner_ok]; try exact I.
  specialize (T t). destruct (conv t); cbn [bind inner_ok length]; try exact I; try contradiction. lia.
Qed.
Lemma p_opt_chars_ok {A} (conv : bytes -> outcome xerr A) :
  total_conv conv -> forall evs, inner_ok evs (p_opt_chars conv evs).
Proof.
  intros T evs. destruct evs as [|[n a|n|t|] r]; cbn [p_opt_chars inner_ok length]; try exact I; try lia.
  specialize (T t). destruct (conv t); cbn [bind inner_ok length]; try exact I; try contradiction. lia.
Qed.
#[export] Hint Resolve p_chars_ok p_opt_chars_ok : xmltotal.

Lemma p_simple_ok {A} (inner : list ev -> outcome xerr (A * list ev)) :
  (forall r, inner_ok r (inner r)) ->
  forall evs, match p_simple inner evs with
              | Ok (_, rest) => length rest < length evs
              | Err _ => True
              | _ => False
              end.
Proof.
  intros I0 evs. destruct evs as [|[n a|n|t|] r]; cbn [p_simple]; try exact I.
  specialize (I0 r). destruct (inner r) as [[v r1]| | |]; cbn [bind inner_ok] in *; try exact I; try contradiction.
  destruct r1 as [|[n2 a2|n2|t2|] r2]; try exact I.
  destruct (bytes_eqb n2 n); [|exact I]. cbn [length] in *. lia.
Qed.

Lemma h_simple_good {St A} (inner : list ev -> outcome xerr (A * list ev)) (set : A -> St -> St) bound :
  (forall r, inner_ok r (inner r)) -> hgood bound (h_simple inner set).
Proof.
  intros I0 acc evs ks _ _. unfold h_simple. pose proof (p_simple_ok inner I0 evs) as H.
  destruct (p_simple inner evs) as [[nv r]| | |]; cbn [bind res_ok]; try exact I; try contradiction. exact H.
Qed.

Lemma skip_body_ok d evs :
  match skip_body d evs with Ok r => length r <= length evs | Err _ => True | _ => False end.
Proof.
  revert d. induction evs as [|e r IH]; intro d; cbn [skip_body]; [cbn; lia|].
  destruct e as [n a|n|t|].
  - specialize (IH (S d)). destruct (skip_body (S d) r); try exact I; try contradiction. cbn [length]. lia.
  - destruct d as [|d]; [cbn [length]; lia|].
    specialize (IH d). destruct (skip_body d r); try exact I; try contradiction. cbn [length]. lia.
  - specialize (IH d). destruct (skip_body d r); try exact I; try contradiction. cbn [length]. lia.
  - exact I.
Qed.

Lemma h_ignore_good {St} bound : hgood bound (@h_ignore St).
Proof.
  intros acc evs ks _ _. unfold h_ignore, p_ignore. destruct evs as [|[n a|n|t|] r]; cbn [bind res_ok]; try exact I.
  pose proof (skip_body_ok 0 r) as H. destruct (skip_body 0 r); cbn [bind res_ok]; try exact I; try contradiction.
  cbn [length]. lia.
Qed.
Lemma h_bad_good {St} bound : hgood bound (@h_bad St).
Proof. intros acc evs ks _ _. exact I. Qed.

Lemma h_sub_good {St A} (p : list ev -> bytes -> pres A) (set : A -> St -> St) bound :
  pgood bound p -> hgood bound (h_sub p set).
Proof.
  intros G acc evs ks Hne Hl. unfold h_sub. specialize (G evs ks Hne Hl).
  destruct (p evs ks) as [[[v r] k]| | |]; cbn [bind res_ok fst snd] in *; try exact I; try contradiction. exact G.
Qed.

(* the container loop *)
Lemma p_loop_ok {St} (close : bytes) (child : bytes -> handler St) bound :
  (forall name, hgood bound (child name)) ->
  forall n acc evs ks, length evs <= n -> length evs <= bound ->
    match p_loop close child n acc evs ks with
    | Ok (_, rest, _) => length rest < length evs
    | Err _ => True
    | _ => False
    end.
Proof.
  intros G. induction n as [|n IH]; intros acc evs ks Hn Hb.
  - destruct evs; [exact I|cbn in Hn; lia].
  - destruct evs as [|[nm a|nm|t|] r]; cbn [p_loop]; try exact I.
    + pose proof (G nm acc (EStart nm a :: r) ks ltac:(discriminate) Hb) as H.
      destruct (child nm acc (EStart nm a :: r) ks) as [[[acc' r'] ks']| | |]; cbn [bind res_ok fst snd] in *;
        try exact I; try contradiction.
      cbn [length] in *. specialize (IH acc' r' ks' ltac:(lia) ltac:(lia)).
      destruct (p_loop close child n acc' r' ks') as [[[a2 r2] k2]| | |]; try exact I; try contradiction. lia.
    + destruct (bytes_eqb nm close); [|exact I]. cbn [length]. lia.
Qed.

Lemma p_element_good {St} (tag : bytes) (init : St) (child : bytes -> handler St) n :
  (forall name, hgood n (child name)) -> pgood (S n) (p_element tag init child n).
Proof.
  intros G evs ks _ Hl. unfold p_element. destruct evs as [|[nm a|nm|t|] r]; cbn [res_ok]; try exact I.
  destruct (bytes_eqb nm tag); [|exact I]. cbn [length] in Hl.
  pose proof (p_loop_ok tag child n G n init r ks ltac:(lia) ltac:(lia)) as H.
  destruct (p_loop tag child n init r ks) as [[[a2 r2] k2]| | |]; cbn [res_ok]; try exact I; try contradiction.
  cbn [length]. lia.
Qed.

Lemma attr_bool_total name attrs : match attr_bool name attrs with Ok _ => True | Err _ => True | _ => False end.
Proof. unfold attr_bool. destruct (attr_get name attrs) as [v|]; [|exact I]. destruct (parse_bool v); exact I. Qed.

Lemma p_value_good bound : pgood bound p_value.
Proof.
  intros evs ks _ _. unfold p_value. destruct evs as [|[tag attrs|n|t|] r]; cbn [res_ok]; try exact I.
  destruct (bytes_eqb tag s_Value); [|exact I].
  pose proof (attr_bool_total s_Protected attrs) as Hp.
  destruct (attr_bool s_Protected attrs) as [prot| | |]; cbn [bind res_ok]; try exact I; try contradiction.
  pose proof (p_opt_chars_ok conv_string conv_string_total r) as Hc.
  destruct (p_opt_chars conv_string r) as [[c r1]| | |]; cbn [bind res_ok inner_ok] in *; try exact I; try contradiction.
  assert (Hv : forall x : outcome xerr (value * bytes), match x with Ok _ => True | Err _ => True | _ => False end ->
    res_ok (EStart tag attrs :: r)
      (do (v, ks1) <- x;
       match r1 with
       | [] => Err XEof
       | EEnd t2 :: r2 => if bytes_eqb t2 s_Value then Ok (v, r2, ks1) else Err XBadEvent
       | _ => Err XBadEvent
       end)).
  { intros x Hx. destruct x as [[v k1]| | |]; cbn [bind res_ok]; try exact I; try contradiction.
    destruct r1 as [|[n2 a2|n2|t2|] r2]; try exact I. destruct (bytes_eqb n2 s_Value); [|exact I].
    cbn [res_ok length] in *. lia. }
  apply Hv. destruct prot; [|exact I]. destruct (b64_decode _); exact I.
Qed.

Lemma p_binary_field_ok evs :
  match p_binary_field evs with Ok r => length r < length evs | Err _ => True | _ => False end.
Proof.
  unfold p_binary_field. destruct evs as [|[nm a|nm|t|] r]; try exact I.
  destruct (bytes_eqb nm s_Binary); [|exact I].
  pose proof (p_simple_ok (p_chars conv_string) (p_chars_ok conv_string conv_string_total) r) as H.
  destruct (p_simple (p_chars conv_string) r) as [[kv r1]| | |]; cbn [bind]; try exact I; try contradiction.
  destruct r1 as [|[n2 a2|n2|t2|] r2]; try exact I.
  destruct (bytes_eqb n2 s_Value); [|exact I]. destruct (attr_get s_Ref a2); [|exact I].
  destruct r2 as [|[n3 a3|n3|t3|] r3]; try exact I. destruct (bytes_eqb n3 s_Value); [|exact I].
  destruct r3 as [|e4 r4]; [exact I|]. cbn [length] in *. lia.
Qed.

(* ---- the elements ---- *)
Ltac chain :=
  repeat match goal with |- hgood _ (if ?b then _ else _) => destruct b end;
  try first [ apply h_ignore_good | apply h_bad_good
            | apply h_simple_good; solve [auto with xmltotal]
            | apply h_sub_good ].

Lemma times_child_good bound name : hgood bound (times_child name).
Proof.
  unfold times_child. chain.
  intros acc evs ks _ _.
  pose proof (p_simple_ok (p_chars parse_time) (p_chars_ok parse_time parse_time_total) evs) as H.
  destruct (p_simple (p_chars parse_time) evs) as [[nv r]| | |]; cbn [bind res_ok]; try exact I; try contradiction. exact H.
Qed.
Lemma p_times_good n : pgood (S n) (p_times n).
Proof. apply p_element_good. intro. apply times_child_good. Qed.

Lemma p_cditem_good n : pgood (S n) (p_cditem n).
Proof. apply p_element_good. intro name. unfold cditem_child. chain. apply p_value_good. Qed.
Lemma p_custom_data_good n : pgood (S n) (p_custom_data n).
Proof.
  apply p_element_good. intro name. unfold custom_data_child. chain.
  eapply pgood_mono; [|apply p_cditem_good]. lia.
Qed.
Lemma p_assoc_good n : pgood (S n) (p_assoc n).
Proof. apply p_element_good. intro name. unfold assoc_child. chain. Qed.
Lemma p_autotype_good n : pgood (S n) (p_autotype n).
Proof.
  apply p_element_good. intro name. unfold autotype_child. chain.
  eapply pgood_mono; [|apply p_assoc_good]. lia.
Qed.
Lemma p_string_field_good n : pgood (S n) (p_string_field n).
Proof. apply p_element_good. intro name. unfold string_field_child. chain. apply p_value_good. Qed.

Lemma entry_child_good pe n name : pgood n pe -> hgood n (entry_child pe n name).
Proof.
  intro G. unfold entry_child. chain.
  - eapply pgood_mono; [|apply p_string_field_good]. lia.
  - eapply pgood_mono; [|apply p_custom_data_good]. lia.
  - intros acc evs ks _ _. pose proof (p_binary_field_ok evs) as H.
    destruct (p_binary_field evs); cbn [bind res_ok]; try exact I; try contradiction. exact H.
  - eapply pgood_mono; [|apply p_autotype_good]. lia.
  - eapply pgood_mono; [|apply p_times_good]. lia.
  - eapply pgood_mono; [|apply p_element_good]; [lia|]. intro nm. unfold history_child. chain. exact G.
Qed.

Lemma p_entry_good fuel : pgood fuel (p_entry fuel).
Proof.
  induction fuel as [|f IH].
  - intros evs ks Hne Hl. destruct evs; [congruence|cbn in Hl; lia].
  - cbn [p_entry]. apply p_element_good. intro name. apply entry_child_good. exact IH.
Qed.

Lemma group_child_good pg pe n name : pgood n pg -> pgood n pe -> hgood n (group_child pg pe n name).
Proof.
  intros Gg Ge. unfold group_child. chain; try assumption.
  - eapply pgood_mono; [|apply p_times_good]. lia.
  - eapply pgood_mono; [|apply p_custom_data_good]. lia.
Qed.

Lemma p_group_good fuel : pgood fuel (p_group fuel).
Proof.
  induction fuel as [|f IH].
  - intros evs ks Hne Hl. destruct evs; [congruence|cbn in Hl; lia].
  - cbn [p_group]. apply p_element_good. intro name. apply group_child_good; [exact IH|apply p_entry_good].
Qed.

Lemma p_memprot_good n : pgood (S n) (p_memprot n).
Proof. apply p_element_good. intro name. unfold memprot_child. chain. Qed.
Lemma p_icon_good n : pgood (S n) (p_icon n).
Proof. apply p_element_good. intro name. unfold icon_child. chain. Qed.
Lemma p_icons_good n : pgood (S n) (p_icons n).
Proof.
  apply p_element_good. intro name. unfold icons_child. chain. eapply pgood_mono; [|apply p_icon_good]. lia.
Qed.

Section gunzip.
  Variable gunzip : bytes -> option bytes.

  Lemma p_binary_good bound : pgood bound (p_binary gunzip).
  Proof.
    intros evs ks _ _. unfold p_binary. destruct evs as [|[nm attrs|nm|t|] r]; cbn [res_ok]; try exact I.
    destruct (bytes_eqb nm s_Binary); [|exact I].
    pose proof (attr_bool_total s_Compressed attrs) as Hc.
    destruct (attr_bool s_Compressed attrs) as [comp| | |]; cbn [bind res_ok]; try exact I; try contradiction.
    pose proof (attr_bool_total s_Protected attrs) as Hp.
    destruct (attr_bool s_Protected attrs) as [prot| | |]; cbn [bind res_ok]; try exact I; try contradiction.
    pose proof (p_chars_ok conv_string conv_string_total r) as Hd.
    destruct (p_chars conv_string r) as [[data r1]| | |]; cbn [bind res_ok inner_ok] in *; try exact I; try contradiction.
    destruct (b64_decode data) as [buf|]; cbn [of_option bind res_ok]; [|exact I].
    set (bk := if prot then _ else _).
    assert (Hz : match (if comp then of_option XCompression (gunzip (fst bk)) else Ok (fst bk)) : outcome xerr bytes with
                 | Ok _ => True | Err _ => True | _ => False end).
    { destruct comp; [|exact I]. destruct (gunzip (fst bk)); exact I. }
    destruct (if comp then of_option XCompression (gunzip (fst bk)) else Ok (fst bk)) as [content| | |];
      cbn [bind res_ok]; try exact I; try contradiction.
    destruct r1 as [|e2 r2]; [exact I|]. cbn [res_ok length] in *. lia.
  Qed.
  Lemma p_binaries_good n : pgood (S n) (p_binaries gunzip n).
  Proof. apply p_element_good. intro name. unfold binaries_child. chain. apply p_binary_good. Qed.

  Lemma p_meta_good n : pgood (S n) (p_meta gunzip n).
  Proof.
    apply p_element_good. intro name. unfold meta_child. chain.
    - eapply pgood_mono; [|apply p_memprot_good]. lia.
    - eapply pgood_mono; [|apply p_icons_good]. lia.
    - eapply pgood_mono; [|apply p_binaries_good]. lia.
    - eapply pgood_mono; [|apply p_custom_data_good]. lia.
  Qed.
  Lemma p_delobj_good n : pgood (S n) (p_delobj n).
  Proof. apply p_element_good. intro name. unfold delobj_child. chain. Qed.
  Lemma p_deleted_good n : pgood (S n) (p_deleted n).
  Proof.
    apply p_element_good. intro name. unfold deleted_child. chain. eapply pgood_mono; [|apply p_delobj_good]. lia.
  Qed.
  Lemma p_root_good n : pgood (S n) (p_root n).
  Proof.
    apply p_element_good. intro name. unfold root_child. chain.
    - apply p_group_good.
    - eapply pgood_mono; [|apply p_deleted_good]. lia.
  Qed.
  Lemma p_keepass_good n : pgood (S n) (p_keepass gunzip n).
  Proof.
    apply p_element_good. intro name. unfold keepass_child. chain.
    - eapply pgood_mono; [|apply p_meta_good]. lia.
    - eapply pgood_mono; [|apply p_root_good]. lia.
  Qed.

  (* the reader never panics and never runs out of fuel, on any input *)
  Theorem parse_events_total :
    forall (evs : list ev) (ks : bytes),
      (exists c, parse_events gunzip evs ks = Ok c) \/ (exists e, parse_events gunzip evs ks = Err e).
  Proof.
    intros evs ks. unfold parse_events.
    destruct evs as [|e r].
    - right. exists XEof. reflexivity.
    - pose proof (p_keepass_good (length (e :: r)) (e :: r) ks ltac:(discriminate) ltac:(lia)) as H.
      destruct (p_keepass gunzip (length (e :: r)) (e :: r) ks) as [[[c r'] k]| x | |]; cbn [bind res_ok] in *;
        try contradiction.
      + left. exists c. reflexivity.
      + right. exists x. reflexivity.
  Qed.

  Corollary parse_events_no_panic evs ks site : parse_events gunzip evs ks <> Panic site.
  Proof. destruct (parse_events_total evs ks) as [[c E]|[e E]]; rewrite E; discriminate. Qed.
  Corollary parse_events_no_out_of_fuel evs ks : parse_events gunzip evs ks <> OutOfFuel.
  Proof. destruct (parse_events_total evs ks) as [[c E]|[e E]]; rewrite E; discriminate. Qed.
End gunzip.

Print Assumptions parse_events_total.

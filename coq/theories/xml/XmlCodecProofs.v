(* Round trips of the scalar codecs of the XML layer. *)
From Coq Require Import Lia ZifyN ZifyBool.
From KP Require Import Bytes Outcome LE LEFacts Utf8 Base64 Base64Proofs Scalars ScalarsProofs XmlTypes.
Local Open Scope N_scope.

(* ------------------------------------------------------------------------------------------ *)
(* white space *)
Lemma ws_only_cons c r : ws_only (c :: r) = is_ws c && ws_only r.
Proof. reflexivity. Qed.

Lemma b64_char_not_ws c : b64_char_ok c = true -> is_ws c = false.
Proof.
  unfold b64_char_ok, is_ws. intro H.
  destruct (N.eqb_spec c 32), (N.eqb_spec c 9), (N.eqb_spec c 10), (N.eqb_spec c 13); subst; try reflexivity;
    vm_compute in H; discriminate.
Qed.

Lemma b64_encode_not_ws b : bytes_ok b = true -> b <> [] -> ws_only (b64_encode b) = false.
Proof.
  intros Hok Hne. destruct b as [|x r]; [congruence|].
  pose proof (b64_encode_chars_ok _ Hok) as Hc.
  destruct (b64_encode_nonempty x r) as [y [t E]]. rewrite E in *.
  cbn [forallb] in Hc. apply andb_true_iff in Hc. destruct Hc as [Hy _].
  rewrite ws_only_cons, (b64_char_not_ws _ Hy). reflexivity.
Qed.

Lemma ws_only_app a b : ws_only (a ++ b) = ws_only a && ws_only b.
Proof. unfold ws_only. apply forallb_app. Qed.

(* ------------------------------------------------------------------------------------------ *)
(* decimal *)
Lemma le_val_digits f n : n < 10 ^ N.of_nat f -> le_val (le_digits f n) = n.
Proof.
  revert n. induction f as [|f IH]; intros n H.
  - change (10 ^ N.of_nat 0) with 1 in H. cbn [le_digits le_val]. lia.
  - cbn [le_digits le_val]. destruct (N.ltb_spec n 10) as [L|L].
    + cbn [le_val]. rewrite N.mod_small by lia. lia.
    + rewrite IH.
      * pose proof (N.div_mod n 10 ltac:(lia)). lia.
      * rewrite Nat2N.inj_succ, N.pow_succ_r' in H. apply N.div_lt_upper_bound; lia.
Qed.

Lemma le_digits_lt10 f n : Forall (fun d => d < 10) (le_digits f n).
Proof.
  revert n. induction f as [|f IH]; intro n; cbn [le_digits]; [constructor|].
  constructor; [apply N.mod_lt; lia|]. destruct (N.ltb n 10); [constructor|apply IH].
Qed.

Lemma le_digits_nonempty f n : le_digits (S f) n <> [].
Proof. cbn [le_digits]. discriminate. Qed.

Lemma pow10_bound n : n < 10 ^ N.of_nat (S (N.to_nat (N.log2 n))).
Proof.
  destruct n as [|p]; [cbn; lia|].
  pose proof (N.log2_spec (N.pos p) ltac:(lia)) as [_ Hu].
  rewrite Nat2N.inj_succ, N2Nat.id.
  eapply N.lt_le_trans; [exact Hu|].
  apply N.pow_le_mono_l. lia.
Qed.

Lemma map_sub_add l : Forall (fun d => d < 10) l -> map (fun c => c - 48) (map (fun d => 48 + d) l) = l.
Proof. induction 1 as [|d r Hd _ IH]; cbn [map]; [reflexivity|]. rewrite IH. f_equal. lia. Qed.

Lemma digits_are_digits l : Forall (fun d => d < 10) l -> forallb is_digit (map (fun d => 48 + d) l) = true.
Proof.
  induction 1 as [|d r Hd _ IH]; cbn [map forallb]; [reflexivity|]. rewrite IH, andb_true_r.
  unfold is_digit. apply andb_true_iff. split; apply N.leb_le; lia.
Qed.

Lemma forallb_rev {A} (f : A -> bool) l : forallb f (rev l) = forallb f l.
Proof.
  induction l as [|x r IH]; [reflexivity|]. cbn [rev forallb]. rewrite forallb_app, IH. cbn [forallb].
  rewrite andb_true_r. apply andb_comm.
Qed.

Lemma fmt_N_nonempty n : fmt_N n <> [].
Proof.
  unfold fmt_N. cbn [le_digits map rev]. intro H. apply app_eq_nil in H. destruct H as [_ H]. discriminate.
Qed.

Lemma fmt_N_digits n : forallb is_digit (fmt_N n) = true.
Proof. unfold fmt_N. rewrite forallb_rev. apply digits_are_digits, le_digits_lt10. Qed.

Lemma parse_dec_fmt n : parse_dec (fmt_N n) = Some n.
Proof.
  unfold parse_dec. pose proof (fmt_N_nonempty n) as Hne. destruct (fmt_N n) as [|c r] eqn:E; [congruence|].
  rewrite <- E. rewrite fmt_N_digits. unfold fmt_N. rewrite <- map_rev, rev_involutive.
  rewrite map_sub_add by apply le_digits_lt10. rewrite le_val_digits by apply pow10_bound. reflexivity.
Qed.

Lemma is_digit_not_ws c : is_digit c = true -> is_ws c = false.
Proof.
  unfold is_digit, is_ws. intro H. apply andb_true_iff in H. destruct H as [H1 H2].
  apply N.leb_le in H1. apply N.leb_le in H2.
  destruct (N.eqb_spec c 32), (N.eqb_spec c 9), (N.eqb_spec c 10), (N.eqb_spec c 13); try reflexivity; lia.
Qed.

Lemma fmt_N_head n : exists c r, fmt_N n = c :: r /\ is_digit c = true.
Proof.
  pose proof (fmt_N_nonempty n) as Hne. pose proof (fmt_N_digits n) as Hd.
  destruct (fmt_N n) as [|c r]; [congruence|]. exists c, r. split; [reflexivity|].
  cbn [forallb] in Hd. apply andb_true_iff in Hd. tauto.
Qed.

Lemma fmt_N_not_ws n : ws_only (fmt_N n) = false.
Proof.
  destruct (fmt_N_head n) as [c [r [E Hc]]]. rewrite E, ws_only_cons, (is_digit_not_ws _ Hc). reflexivity.
Qed.

Lemma strip_plus_digit c (r : bytes) : is_digit c = true -> strip_plus (c :: r) = c :: r.
Proof.
  intro H. unfold strip_plus. destruct (N.eqb_spec c 43) as [->|]; [vm_compute in H; discriminate|reflexivity].
Qed.

Theorem parse_usize_fmt n : n < 2 ^ 64 -> parse_usize (fmt_N n) = Some n.
Proof.
  intro H. unfold parse_usize. destruct (fmt_N_head n) as [c [r [E Hc]]].
  rewrite E, (strip_plus_digit c r Hc), <- E, parse_dec_fmt.
  destruct (N.ltb_spec n (2 ^ 64)); [reflexivity|lia].
Qed.

Theorem parse_isize_fmt z : (- 2 ^ 63 <= z < 2 ^ 63)%Z -> parse_isize (fmt_Z z) = Some z.
Proof.
  intro H. unfold parse_isize, fmt_Z. destruct z as [|p|p].
  - reflexivity.
  - change (Z.to_N (Z.pos p)) with (N.pos p).
    destruct (fmt_N_head (N.pos p)) as [c [r [E Hc]]]. rewrite E.
    destruct (N.eqb_spec c 45) as [->|_]; [vm_compute in Hc; discriminate|].
    rewrite (strip_plus_digit c r Hc), <- E, parse_dec_fmt.
    destruct (N.ltb_spec (N.pos p) (2 ^ 63)); [reflexivity|lia].
  - rewrite N.eqb_refl, parse_dec_fmt. destruct (N.leb_spec (N.pos p) (2 ^ 63)); [reflexivity|lia].
Qed.

Lemma fmt_Z_not_ws z : ws_only (fmt_Z z) = false.
Proof. unfold fmt_Z. destruct z; try apply fmt_N_not_ws. reflexivity. Qed.

(* ------------------------------------------------------------------------------------------ *)
(* bool *)
Lemma parse_bool_fmt b : parse_bool (fmt_bool b) = Some b.
Proof. destruct b; reflexivity. Qed.
Lemma fmt_bool_not_ws b : ws_only (fmt_bool b) = false.
Proof. destruct b; reflexivity. Qed.

(* ------------------------------------------------------------------------------------------ *)
(* time stamps *)
Lemma i64_enc_length v : length (i64_enc v) = 8%nat.
Proof. apply le_enc_length. Qed.
Lemma i64_enc_ok v : bytes_ok (i64_enc v) = true.
Proof. apply le_enc_bytes_ok. Qed.

Lemma i64_dec_enc v : (- 2 ^ 63 <= v < 2 ^ 63)%Z -> i64_dec (i64_enc v) = v.
Proof.
  intro H. unfold i64_dec, i64_enc.
  rewrite le_dec_enc_small.
  2:{ change (256 ^ N.of_nat 8) with (2 ^ 64). pose proof (Z.mod_pos_bound v (2 ^ 64) ltac:(lia)). lia. }
  destruct (N.ltb_spec (Z.to_N (v mod 2 ^ 64)) (2 ^ 63)) as [L|L].
  - rewrite Z2N.id by (apply Z.mod_pos_bound; lia).
    destruct (Z.leb_spec 0 v).
    + apply Z.mod_small. lia.
    + exfalso. assert (E : (v mod 2 ^ 64 = v + 2 ^ 64)%Z).
      { symmetry. apply (Z.mod_unique v (2 ^ 64) (-1)); lia. }
      rewrite E in L. lia.
  - rewrite Z2N.id by (apply Z.mod_pos_bound; lia).
    destruct (Z.leb_spec 0 v).
    + exfalso. rewrite Z.mod_small in L by lia. lia.
    + assert (E : (v mod 2 ^ 64 = v + 2 ^ 64)%Z).
      { symmetry. apply (Z.mod_unique v (2 ^ 64) (-1)); lia. }
      lia.
Qed.

Lemma firstn_all_len {A} (l : list A) n : length l = n -> firstn n l = l.
Proof. intros <-. apply firstn_all. Qed.

Lemma fmt_time_length t : length (fmt_time t) = 12%nat.
Proof. unfold fmt_time. apply b64_encode_length_8; [apply i64_enc_ok|apply i64_enc_length]. Qed.

Lemma parse_iso_fmt_time t : parse_iso (fmt_time t) = None.
Proof. unfold parse_iso. rewrite fmt_time_length. reflexivity. Qed.

Theorem parse_time_fmt t : ts_ok t = true -> parse_time (fmt_time t) = Ok t.
Proof.
  intro H. unfold parse_time. rewrite parse_iso_fmt_time. unfold fmt_time.
  rewrite b64_decode_encode by apply i64_enc_ok. rewrite i64_enc_length. cbn [Nat.ltb Nat.leb].
  rewrite firstn_all_len by apply i64_enc_length.
  unfold ts_ok, ts_min, ts_max in H. apply andb_true_iff in H. destruct H as [H1 H2].
  apply Z.leb_le in H1. apply Z.leb_le in H2.
  rewrite i64_dec_enc by (unfold epoch_baseline; lia).
  replace (t - epoch_baseline + epoch_baseline)%Z with t by lia.
  unfold ts_ok, ts_min, ts_max.
  destruct (Z.leb_spec (-8334601228800) t); [|lia]. destruct (Z.leb_spec t 8210266876799); [|lia]. reflexivity.
Qed.

Lemma fmt_time_not_ws t : ws_only (fmt_time t) = false.
Proof.
  unfold fmt_time. apply b64_encode_not_ws; [apply i64_enc_ok|].
  intro E. pose proof (i64_enc_length (t - epoch_baseline)) as L. rewrite E in L. discriminate.
Qed.

(* ------------------------------------------------------------------------------------------ *)
(* uuid, colour *)
Theorem parse_uuid_fmt u : length u = 16%nat -> bytes_ok u = true -> parse_uuid (b64_encode u) = Ok u.
Proof. intros L Hok. unfold parse_uuid. rewrite b64_decode_encode by exact Hok. rewrite L. reflexivity. Qed.

Lemma uuid_not_ws u : length u = 16%nat -> bytes_ok u = true -> ws_only (b64_encode u) = false.
Proof. intros L Hok. apply b64_encode_not_ws; [exact Hok|]. intro E. rewrite E in L. discriminate. Qed.

Theorem parse_color_fmt c :
  (let '(r, g, b) := c in r < 256 /\ g < 256 /\ b < 256) -> parse_color_c (fmt_color_c c) = Ok c.
Proof.
  destruct c as [[r g] b]. intros [Hr [Hg Hb]]. unfold parse_color_c, fmt_color_c.
  rewrite color_roundtrip by assumption. reflexivity.
Qed.
Lemma fmt_color_not_ws c : ws_only (fmt_color_c c) = false.
Proof. destruct c as [[r g] b]. reflexivity. Qed.

(* ------------------------------------------------------------------------------------------ *)
(* tags *)
Lemma split_tags_nonempty s : split_tags s <> [].
Proof.
  induction s as [|c r IH]; cbn [split_tags]; [discriminate|].
  destruct (is_sep c); [discriminate|]. destruct (split_tags r); [discriminate|discriminate].
Qed.

Lemma split_tags_nosep x : existsb is_sep x = false -> split_tags x = [x].
Proof.
  induction x as [|c r IH]; intro H; [reflexivity|].
  cbn [existsb] in H. apply orb_false_iff in H. destruct H as [Hc Hr].
  cbn [split_tags]. rewrite Hc, (IH Hr). reflexivity.
Qed.

Lemma split_tags_app_sep x s : existsb is_sep x = false -> split_tags (x ++ 59 :: s) = x :: split_tags s.
Proof.
  induction x as [|c r IH]; intro H.
  - reflexivity.
  - cbn [existsb] in H. apply orb_false_iff in H. destruct H as [Hc Hr].
    cbn [app split_tags]. rewrite Hc, (IH Hr). reflexivity.
Qed.

Theorem split_join_tags l :
  l <> [] -> forallb (fun t => negb (existsb is_sep t)) l = true -> split_tags (join_tags l) = l.
Proof.
  induction l as [|x r IH]; intros Hne H; [congruence|].
  cbn [forallb] in H. apply andb_true_iff in H. destruct H as [Hx Hr]. apply negb_true_iff in Hx.
  destruct r as [|y r'].
  - cbn [join_tags]. apply split_tags_nosep. exact Hx.
  - change (join_tags (x :: y :: r')) with (x ++ 59 :: join_tags (y :: r')).
    rewrite split_tags_app_sep by exact Hx. rewrite IH; [reflexivity|discriminate|exact Hr].
Qed.

(* ------------------------------------------------------------------------------------------ *)
(* from_utf8_lossy is the identity on UTF-8 *)
Lemma utf8_lossy_valid : forall l, utf8_valid l = true -> utf8_lossy l = l.
Proof.
  assert (P : forall n l, (length l <= n)%nat -> utf8_valid l = true -> utf8_lossy l = l).
  { induction n as [|n IH]; intros l Hl Hv.
    - destruct l; [reflexivity|cbn in Hl; lia].
    - destruct l as [|b0 r0]; [reflexivity|]. cbn [length] in Hl.
      cbn [utf8_valid utf8_lossy] in *.
      destruct (N.ltb b0 128). { rewrite IH; [reflexivity|lia|exact Hv]. }
      destruct (N.ltb b0 194); [discriminate|].
      destruct (N.ltb b0 224).
      { destruct r0 as [|b1 r1]; [discriminate|]. apply andb_true_iff in Hv. destruct Hv as [H1 Hv].
        rewrite H1. cbn [length] in Hl. rewrite IH; [reflexivity|lia|exact Hv]. }
      destruct (N.ltb b0 240).
      { destruct r0 as [|b1 [|b2 r2]]; try discriminate.
        apply andb_true_iff in Hv. destruct Hv as [Hv H3]. apply andb_true_iff in Hv. destruct Hv as [H1 H2].
        unfold second3_ok. rewrite H1, H2. cbn [length] in Hl. rewrite IH; [reflexivity|lia|exact H3]. }
      destruct (N.ltb b0 245); [|discriminate].
      destruct r0 as [|b1 [|b2 [|b3 r3]]]; try discriminate.
      apply andb_true_iff in Hv. destruct Hv as [Hv H4]. apply andb_true_iff in Hv. destruct Hv as [Hv H3].
      apply andb_true_iff in Hv. destruct Hv as [H1 H2].
      unfold second4_ok. rewrite H1, H2, H3. cbn [length] in Hl. rewrite IH; [reflexivity|lia|exact H4]. }
  intros l. apply (P (length l)). lia.
Qed.

Lemma utf8_valid_bytes_ok : forall l, utf8_valid l = true -> bytes_ok l = true.
Proof.
  assert (P : forall n l, (length l <= n)%nat -> utf8_valid l = true -> bytes_ok l = true).
  { unfold bytes_ok. induction n as [|n IH]; intros l Hl Hv.
    - destruct l; [reflexivity|cbn in Hl; lia].
    - destruct l as [|b0 r0]; [reflexivity|]. cbn [length] in Hl.
      cbn [utf8_valid] in Hv. cbn [forallb].
      destruct (N.ltb_spec b0 128) as [L0|L0].
      { rewrite IH; [|lia|exact Hv]. rewrite andb_true_r. apply N.ltb_lt. lia. }
      destruct (N.ltb_spec b0 194) as [L1|L1]; [discriminate|].
      assert (C : forall b, cont b = true -> N.ltb b 256 = true).
      { intros b Hb. unfold cont, in_rng in Hb. apply andb_true_iff in Hb. destruct Hb as [_ Hb].
        apply N.leb_le in Hb. apply N.ltb_lt. lia. }
      assert (R : forall lo hi b, hi < 256 -> in_rng lo hi b = true -> N.ltb b 256 = true).
      { intros lo hi b Hh Hb. unfold in_rng in Hb. apply andb_true_iff in Hb. destruct Hb as [_ Hb].
        apply N.leb_le in Hb. apply N.ltb_lt. lia. }
      destruct (N.ltb_spec b0 224) as [L2|L2].
      { destruct r0 as [|b1 r1]; [discriminate|]. apply andb_true_iff in Hv. destruct Hv as [H1 Hv].
        cbn [length] in Hl. cbn [forallb]. rewrite (C _ H1), IH; [|lia|exact Hv].
        rewrite !andb_true_r. apply N.ltb_lt. lia. }
      destruct (N.ltb_spec b0 240) as [L3|L3].
      { destruct r0 as [|b1 [|b2 r2]]; try discriminate.
        apply andb_true_iff in Hv. destruct Hv as [Hv H3]. apply andb_true_iff in Hv. destruct Hv as [H1 H2].
        cbn [length] in Hl. cbn [forallb]. rewrite (C _ H2), IH; [|lia|exact H3].
        assert (B1 : N.ltb b1 256 = true).
        { destruct (N.eqb b0 224); [apply (R 160 191); [lia|exact H1]|].
          destruct (N.eqb b0 237); [apply (R 128 159); [lia|exact H1]|apply C; exact H1]. }
        rewrite B1, !andb_true_r. apply N.ltb_lt. lia. }
      destruct (N.ltb_spec b0 245) as [L4|L4]; [|discriminate].
      destruct r0 as [|b1 [|b2 [|b3 r3]]]; try discriminate.
      apply andb_true_iff in Hv. destruct Hv as [Hv H4]. apply andb_true_iff in Hv. destruct Hv as [Hv H3].
      apply andb_true_iff in Hv. destruct Hv as [H1 H2].
      cbn [length] in Hl. cbn [forallb]. rewrite (C _ H2), (C _ H3), IH; [|lia|exact H4].
      assert (B1 : N.ltb b1 256 = true).
      { destruct (N.eqb b0 240); [apply (R 144 191); [lia|exact H1]|].
        destruct (N.eqb b0 244); [apply (R 128 143); [lia|exact H1]|apply C; exact H1]. }
      rewrite B1, !andb_true_r. apply N.ltb_lt. lia. }
  intros l. apply (P (length l)). lia.
Qed.

(* ------------------------------------------------------------------------------------------ *)
(* the stream cipher *)
Lemma lxor_lt_256 a b : a < 256 -> b < 256 -> N.lxor a b < 256.
Proof.
  intros Ha Hb. destruct (N.eq_dec (N.lxor a b) 0) as [E|NE]; [rewrite E; lia|].
  change 256 with (2 ^ 8) in *.
  apply (proj2 (N.log2_lt_pow2 (N.lxor a b) 8 ltac:(lia))).
  eapply N.le_lt_trans; [apply N.log2_lxor|].
  apply N.max_lub_lt.
  - destruct (N.eq_dec a 0) as [->|Na]; [cbn; lia|]. apply (proj1 (N.log2_lt_pow2 a 8 ltac:(lia))). exact Ha.
  - destruct (N.eq_dec b 0) as [->|Nb]; [cbn; lia|]. apply (proj1 (N.log2_lt_pow2 b 8 ltac:(lia))). exact Hb.
Qed.

Lemma xor_ks_length p ks : length (xor_ks p ks) = length p.
Proof.
  revert ks. induction p as [|d r IH]; intro ks; [reflexivity|].
  destruct ks as [|k kr]; cbn [xor_ks length]; rewrite IH; reflexivity.
Qed.

Lemma xor_ks_ok p ks : bytes_ok p = true -> bytes_ok ks = true -> bytes_ok (xor_ks p ks) = true.
Proof.
  unfold bytes_ok. revert ks. induction p as [|d r IH]; intros ks Hp Hk; [reflexivity|].
  cbn [forallb] in Hp. apply andb_true_iff in Hp. destruct Hp as [Hd Hr].
  destruct ks as [|k kr]; cbn [xor_ks forallb].
  - rewrite Hd, (IH [] Hr eq_refl). reflexivity.
  - cbn [forallb] in Hk. apply andb_true_iff in Hk. destruct Hk as [Hk Hkr].
    rewrite (IH kr Hr Hkr), andb_true_r. apply N.ltb_lt. apply N.ltb_lt in Hd, Hk. apply lxor_lt_256; assumption.
Qed.

Lemma xor_ks_involutive p ks : xor_ks (xor_ks p ks) ks = p.
Proof.
  revert ks. induction p as [|d r IH]; intro ks; [reflexivity|].
  destruct ks as [|k kr]; cbn [xor_ks]; rewrite IH; [reflexivity|].
  f_equal. rewrite N.lxor_assoc, N.lxor_nilpotent, N.lxor_0_r. reflexivity.
Qed.

Lemma xor_ks_nil_iff p ks : xor_ks p ks = [] <-> p = [].
Proof. destruct p as [|d r]; [tauto|]. destruct ks; cbn [xor_ks]; split; discriminate. Qed.

Lemma bytes_ok_drop n l : bytes_ok l = true -> bytes_ok (drop n l) = true.
Proof.
  unfold bytes_ok. revert l. induction n as [|n IH]; intros l H; [destruct l; exact H|].
  destruct l as [|x r]; [reflexivity|]. cbn [drop]. apply IH. cbn [forallb] in H. apply andb_true_iff in H. tauto.
Qed.

Lemma drop_drop a b (l : bytes) : drop a (drop b l) = drop (b + a) l.
Proof.
  revert l. induction b as [|b IH]; intro l; [destruct l; reflexivity|].
  destruct l as [|x r]; [destruct a; reflexivity|]. cbn [drop Nat.add]. apply IH.
Qed.

(* ------------------------------------------------------------------------------------------ *)
(* bytes_eqb *)
Lemma bytes_eqb_refl a : bytes_eqb a a = true.
Proof. induction a as [|x r IH]; [reflexivity|]. cbn [bytes_eqb]. rewrite N.eqb_refl, IH. reflexivity. Qed.
Lemma bytes_eqb_eq a b : bytes_eqb a b = true <-> a = b.
Proof.
  split; [|intros ->; apply bytes_eqb_refl]. revert b.
  induction a as [|x r IH]; intros [|y s] H; try discriminate; [reflexivity|].
  cbn [bytes_eqb] in H. apply andb_true_iff in H. destruct H as [H1 H2]. apply N.eqb_eq in H1. f_equal; auto.
Qed.
Lemma bytes_eqb_sym a b : bytes_eqb a b = bytes_eqb b a.
Proof.
  destruct (bytes_eqb a b) eqn:E.
  - apply bytes_eqb_eq in E. subst. symmetry. apply bytes_eqb_refl.
  - destruct (bytes_eqb b a) eqn:E2; [|reflexivity]. apply bytes_eqb_eq in E2. subst. rewrite bytes_eqb_refl in E. discriminate.
Qed.

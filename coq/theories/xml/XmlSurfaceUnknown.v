(* (1) Unknown elements are ignored.

   The reader skips a child whose name its handler table does not know (IgnoreSubfield).  The skip looks at
   nothing inside the element except the nesting of start and end tags; in particular a
   <Value Protected="True"> inside an unknown element does NOT draw from the inner key stream, so no
   proviso on the content of the unknown element is needed beyond its being well bracketed and free of
   error events.

   Which names are unknown depends on the parent: [cls k name = CIgnore].  The parents that skip unknown
   children are KeePassFile/Meta, MemoryProtection, CustomIcons, Icon, Binaries, Group, Entry, History,
   String, AutoType, Association.  The others do not: Times reads EVERY child name other than Expires and
   UsageCount as a time stamp key; CustomData, its Item, Root, KeePassFile, DeletedObjects and
   DeletedObject fail with BadEvent on an unknown child ([..._refuted] below). *)
From Coq Require Import Lia.
From KP Require Import Bytes Outcome LE Utf8 Base64 Scalars XmlTypes XmlDump XmlParse XmlSpec XmlCodecProofs
  XmlSurfaceCore XmlSurfaceVar.
Local Open Scope outcome_scope.

(* ------------------------------------------------------------------------------------------ *)
(* structure of [var] *)
Lemma var_body_app_gen s B1 B1' :
  var s B1 B1' -> forall k, s = SBody k -> forall B2 B2', var (SBody k) B2 B2' -> var (SBody k) (B1 ++ B2) (B1' ++ B2').
Proof.
  induction 1 as [k a a' B B' _ _ | k | k E E' B B' HE _ _ IH2 | k sub B B' Hu _ IH | k sub B B' Hu _ IH
                  | k n a a' o Hc | k n a a' o o' Hc Ht | k n a a' o Hc Ha | k n a a' o Hc Ha
                  | k n a a' kn ka ka' kt vn va Hc | k k' E E' Hc _ _];
    intros k0 Heq B2 B2' H2; try discriminate; inversion Heq; subst k0.
  - exact H2.
  - rewrite <- !app_assoc. apply v_child; [exact HE|]. apply IH2; [reflexivity|exact H2].
  - rewrite <- app_assoc. apply v_ins_r; [exact Hu|]. apply IH; [reflexivity|exact H2].
  - rewrite <- app_assoc. apply v_ins_l; [exact Hu|]. apply IH; [reflexivity|exact H2].
Qed.
Lemma var_body_app k B1 B1' B2 B2' :
  var (SBody k) B1 B1' -> var (SBody k) B2 B2' -> var (SBody k) (B1 ++ B2) (B1' ++ B2').
Proof. intros H1 H2. exact (var_body_app_gen _ _ _ H1 k eq_refl _ _ H2). Qed.

Lemma time_eq_sym o o' : time_eq o o' -> time_eq o' o.
Proof. destruct o, o'; cbn [time_eq]; auto. Qed.
Lemma time_eq_refl o : time_eq o o.
Proof. destruct o; cbn [time_eq]; auto. Qed.
Lemma same_bin_attrs_sym a a' : same_bin_attrs a a' -> same_bin_attrs a' a.
Proof. intros [H1 [H2 H3]]. repeat split; auto. Qed.
Lemma same_bin_attrs_refl a : same_bin_attrs a a.
Proof. repeat split. Qed.

Lemma var_sym s E E' : var s E E' -> var s E' E.
Proof.
  induction 1 as [k a a' B B' _ IH | k | k E E' B B' _ IH1 _ IH2 | k sub B B' Hu _ IH | k sub B B' Hu _ IH
                  | k n a a' o Hc | k n a a' o o' Hc Ht | k n a a' o Hc Ha | k n a a' o Hc Ha
                  | k n a a' kn ka ka' kt vn va Hc | k k' E E' Hc _ IH].
  - apply v_elem. exact IH.
  - apply v_nil.
  - apply v_child; assumption.
  - apply v_ins_l; assumption.
  - apply v_ins_r; assumption.
  - apply v_leaf. exact Hc.
  - apply v_time; [exact Hc|apply time_eq_sym; exact Ht].
  - apply v_value; [exact Hc|symmetry; exact Ha].
  - apply v_mbin; [exact Hc|apply same_bin_attrs_sym; exact Ha].
  - apply v_ebin. exact Hc.
  - eapply v_sub; eassumption.
Qed.

(* the left document of a variant pair is structured: it is a variant of itself *)
Lemma var_refl_l s E E' : var s E E' -> var s E E.
Proof.
  induction 1 as [k a a' B B' _ IH | k | k E E' B B' _ IH1 _ IH2 | k sub B B' Hu _ IH | k sub B B' Hu _ IH
                  | k n a a' o Hc | k n a a' o o' Hc Ht | k n a a' o Hc Ha | k n a a' o Hc Ha
                  | k n a a' kn ka ka' kt vn va Hc | k k' E E' Hc _ IH].
  - apply v_elem. exact IH.
  - apply v_nil.
  - apply v_child; assumption.
  - exact IH.
  - apply v_ins_r; [exact Hu|]. apply v_ins_l; [exact Hu|exact IH].
  - apply v_leaf. exact Hc.
  - apply v_time; [exact Hc|apply time_eq_refl].
  - apply v_value; [exact Hc|reflexivity].
  - apply v_mbin; [exact Hc|apply same_bin_attrs_refl].
  - apply v_ebin. exact Hc.
  - eapply v_sub; eassumption.
Qed.
Lemma var_refl_r s E E' : var s E E' -> var s E' E'.
Proof. intro H. apply (var_refl_l s E' E). apply var_sym. exact H. Qed.

(* [structured k B]: B is a sequence of complete children of a [k] element, each of a shape the reader
   consumes exactly (leaves with at most one text, containers of structured children, unknown
   well-bracketed elements where the kind skips them) *)
Definition structured (k : kind) (B : list ev) : Prop := var (SBody k) B B.
Definition el (k : kind) (a : list (bytes * bytes)) (B : list ev) : list ev := EStart (tag k) a :: B ++ [EEnd (tag k)].

(* a variation of one child, in context *)
Lemma var_child_ctx k B1 B2 E E' :
  structured k B1 -> structured k B2 -> var (SChild k) E E' -> var (SBody k) (B1 ++ E ++ B2) (B1 ++ E' ++ B2).
Proof. intros H1 H2 HE. apply var_body_app; [exact H1|]. apply v_child; assumption. Qed.
Lemma var_elem_ctx k k' B1 B2 E E' :
  structured k B1 -> structured k B2 -> cls k (tag k') = CSub k' -> var (SElem k') E E' ->
  var (SBody k) (B1 ++ E ++ B2) (B1 ++ E' ++ B2).
Proof. intros H1 H2 Hc HE. apply var_child_ctx; [exact H1|exact H2|]. eapply v_sub; eassumption. Qed.

(* ------------------------------------------------------------------------------------------ *)
(* (1) *)
Theorem unknown_between_children k B1 B2 sub :
  structured k B1 -> structured k B2 -> unknown k sub -> var (SBody k) (B1 ++ B2) (B1 ++ sub ++ B2).
Proof. intros H1 H2 Hu. apply var_body_app; [exact H1|]. apply v_ins_r; assumption. Qed.

Section unknown.
  Variable gunzip : bytes -> option bytes.

  (* any parent kind: inserting an element unknown to [k] between two children of a [k] element changes
     neither the value, nor the stream, nor an error, in front of any continuation X *)
  Theorem element_unknown_ignored k a B1 B2 sub :
    structured k B1 -> structured k B2 -> unknown k sub ->
    forall fuel fuel' X ks,
      length (el k a (B1 ++ B2) ++ X) <= fuel -> length (el k a (B1 ++ sub ++ B2) ++ X) <= fuel' ->
      PK gunzip k fuel (el k a (B1 ++ B2) ++ X) ks = PK gunzip k fuel' (el k a (B1 ++ sub ++ B2) ++ X) ks.
  Proof.
    intros H1 H2 Hu. apply var_elem_same. apply v_elem. apply unknown_between_children; assumption.
  Qed.

  Theorem entry_unknown_ignored a B1 B2 name sub :
    structured K_entry B1 -> structured K_entry B2 -> cls_entry name = CIgnore -> well_bracketed name sub ->
    forall fuel fuel' X ks,
      length (el K_entry a (B1 ++ B2) ++ X) <= fuel -> length (el K_entry a (B1 ++ sub ++ B2) ++ X) <= fuel' ->
      p_entry fuel (el K_entry a (B1 ++ B2) ++ X) ks = p_entry fuel' (el K_entry a (B1 ++ sub ++ B2) ++ X) ks.
  Proof.
    intros H1 H2 Hc Hw fuel fuel' X ks L L'. rewrite <- !PK_entry with (gunzip := gunzip).
    exact (element_unknown_ignored K_entry a B1 B2 sub H1 H2 (ex_intro _ name (conj Hc Hw)) fuel fuel' X ks L L').
  Qed.

  Theorem group_unknown_ignored a B1 B2 name sub :
    structured K_group B1 -> structured K_group B2 -> cls_group name = CIgnore -> well_bracketed name sub ->
    forall fuel fuel' X ks,
      length (el K_group a (B1 ++ B2) ++ X) <= fuel -> length (el K_group a (B1 ++ sub ++ B2) ++ X) <= fuel' ->
      p_group fuel (el K_group a (B1 ++ B2) ++ X) ks = p_group fuel' (el K_group a (B1 ++ sub ++ B2) ++ X) ks.
  Proof.
    intros H1 H2 Hc Hw fuel fuel' X ks L L'. rewrite <- !PK_group with (gunzip := gunzip).
    exact (element_unknown_ignored K_group a B1 B2 sub H1 H2 (ex_intro _ name (conj Hc Hw)) fuel fuel' X ks L L').
  Qed.

  Theorem meta_unknown_ignored a B1 B2 name sub :
    structured K_meta B1 -> structured K_meta B2 -> cls_meta name = CIgnore -> well_bracketed name sub ->
    forall n n' X ks,
      length (el K_meta a (B1 ++ B2) ++ X) <= S n -> length (el K_meta a (B1 ++ sub ++ B2) ++ X) <= S n' ->
      p_meta gunzip n (el K_meta a (B1 ++ B2) ++ X) ks = p_meta gunzip n' (el K_meta a (B1 ++ sub ++ B2) ++ X) ks.
  Proof.
    intros H1 H2 Hc Hw n n' X ks L L'.
    apply (element_unknown_ignored K_meta a B1 B2 sub H1 H2 (ex_intro _ name (conj Hc Hw)) (S n) (S n') X ks L L').
  Qed.

  (* the remaining parents that skip unknown children, through the same generic statement *)
  Definition skips_unknown (k : kind) : bool :=
    match k with
    | K_meta | K_group | K_entry | K_history | K_string | K_autotype | K_assoc | K_memprot | K_icons | K_icon
    | K_binaries => true
    | K_file | K_root | K_times | K_cdata | K_item | K_deleted | K_delobj => false
    end.
  (* the kinds that do not skip have no unknown names at all *)
  Lemma no_unknown k : skips_unknown k = false -> forall sub, ~ unknown k sub.
  Proof.
    intros Hk sub [n [Hc _]]. destruct k; try discriminate; cbn [cls] in Hc.
    - unfold cls_file in Hc. destruct (bytes_eqb n s_Meta); [discriminate|]. destruct (bytes_eqb n s_Root); discriminate.
    - unfold cls_root in Hc. destruct (bytes_eqb n s_Group); [discriminate|].
      destruct (bytes_eqb n s_DeletedObjects); discriminate.
    - unfold cls_times in Hc. destruct (bytes_eqb n s_Expires); [discriminate|].
      destruct (bytes_eqb n s_UsageCount); discriminate.
    - unfold cls_cdata in Hc. destruct (bytes_eqb n s_Item); discriminate.
    - unfold cls_item in Hc. destruct (bytes_eqb n s_Key); [discriminate|]. destruct (bytes_eqb n s_Value); [discriminate|].
      destruct (bytes_eqb n s_LastModificationTime); discriminate.
    - unfold cls_deleted in Hc. destruct (bytes_eqb n s_DeletedObject); discriminate.
    - unfold cls_delobj in Hc. destruct (bytes_eqb n s_UUID); [discriminate|].
      destruct (bytes_eqb n s_DeletionTime); discriminate.
  Qed.
  (* and the kinds that skip do so for every name outside their table, e.g. this one *)
  Definition s_Foo : bytes := [70; 111; 111]%N.
  Lemma skips_unknown_some k : skips_unknown k = true -> cls k s_Foo = CIgnore.
  Proof. destruct k; intro H; try discriminate; reflexivity. Qed.

  (* the document level: any number of insertions at any depth (and the other variations of [var]) *)
  Theorem document_unknown_ignored d d' :
    var (SElem K_file) d d' -> forall ks, parse_events gunzip d ks = parse_events gunzip d' ks.
  Proof. apply var_parse_events. Qed.
End unknown.

(* ------------------------------------------------------------------------------------------ *)
(* one-hole contexts *)
Inductive ctx : sort -> sort -> list ev -> list ev -> Prop :=
| ctx_hole s : ctx s s [] []
| ctx_elem k s' a p q :
    ctx (SBody k) s' p q -> ctx (SElem k) s' (EStart (tag k) a :: p) (q ++ [EEnd (tag k)])
| ctx_body k s' B1 B2 p q :
    structured k B1 -> structured k B2 -> ctx (SBody k) s' p q -> ctx (SBody k) s' (B1 ++ p) (q ++ B2)
| ctx_child k s' B1 B2 p q :
    structured k B1 -> structured k B2 -> ctx (SChild k) s' p q -> ctx (SBody k) s' (B1 ++ p) (q ++ B2)
| ctx_sub k k' s' p q :
    cls k (tag k') = CSub k' -> ctx (SElem k') s' p q -> ctx (SChild k) s' p q.

Lemma ctx_var s s' p q : ctx s s' p q -> forall x x', var s' x x' -> var s (p ++ x ++ q) (p ++ x' ++ q).
Proof.
  induction 1 as [s | k s' a p q _ IH | k s' B1 B2 p q H1 H2 _ IH | k s' B1 B2 p q H1 H2 _ IH | k k' s' p q Hc _ IH];
    intros x x' V.
  - cbn [app]. rewrite !app_nil_r. exact V.
  - specialize (IH x x' V). cbn [app].
    replace (p ++ x ++ q ++ [EEnd (tag k)]) with ((p ++ x ++ q) ++ [EEnd (tag k)]) by (rewrite <- !app_assoc; reflexivity).
    replace (p ++ x' ++ q ++ [EEnd (tag k)]) with ((p ++ x' ++ q) ++ [EEnd (tag k)]) by (rewrite <- !app_assoc; reflexivity).
    apply v_elem. exact IH.
  - specialize (IH x x' V).
    replace ((B1 ++ p) ++ x ++ q ++ B2) with (B1 ++ (p ++ x ++ q) ++ B2) by (rewrite <- !app_assoc; reflexivity).
    replace ((B1 ++ p) ++ x' ++ q ++ B2) with (B1 ++ (p ++ x' ++ q) ++ B2) by (rewrite <- !app_assoc; reflexivity).
    apply var_body_app; [exact H1|]. apply var_body_app; [exact IH|exact H2].
  - specialize (IH x x' V).
    replace ((B1 ++ p) ++ x ++ q ++ B2) with (B1 ++ (p ++ x ++ q) ++ B2) by (rewrite <- !app_assoc; reflexivity).
    replace ((B1 ++ p) ++ x' ++ q ++ B2) with (B1 ++ (p ++ x' ++ q) ++ B2) by (rewrite <- !app_assoc; reflexivity).
    apply var_body_app; [exact H1|]. apply v_child; [exact IH|exact H2].
  - eapply v_sub; [exact Hc|]. apply IH. exact V.
Qed.


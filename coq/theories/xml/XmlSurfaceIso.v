(* (3) The ISO-8601 spelling of a time stamp.

   [iso_of_time t] is the canonical YYYY-MM-DDTHH:MM:SSZ text of the instant t (seconds since
   1970-01-01T00:00:00Z) for the years 0001..9999, computed with the usual civil-from-days algorithm.
   Theorem [parse_iso_of_time]: the reader's ISO parser maps it back to t; hence [parse_time] gives the
   same result on the ISO text and on the base64 text the writer produces ([parse_time_iso_b64]).

   The calendar facts (the day computed is a valid day of the month, days_from_civil inverts
   civil_from_days, the year stays in 1..9999) are checked by computation over one full 400-year cycle
   (146097 days) and transported to every cycle by arithmetic. *)
From Coq Require Import Lia.
From KP Require Import Bytes Outcome LE Utf8 Base64 Scalars XmlTypes XmlParse XmlCodecProofs.
Local Open Scope Z_scope.

(* day [doe] of a 400-year cycle starting on 0000-03-01 -> (year of the cycle counted from January, month, day) *)
Definition civ0 (doe : Z) : Z * Z * Z :=
  let yoe := (doe - doe / 1460 + doe / 36524 - doe / 146096) / 365 in
  let doy := doe - (365 * yoe + yoe / 4 - yoe / 100) in
  let mp := (5 * doy + 2) / 153 in
  let d := doy - (153 * mp + 2) / 5 + 1 in
  let m := if mp <? 10 then mp + 3 else mp - 9 in
  (yoe + (if m <=? 2 then 1 else 0), m, d).
(* days since 1970-01-01 -> (year, month, day) *)
Definition civil_from_days (z0 : Z) : Z * Z * Z :=
  let z := z0 + 719468 in
  let '(y, m, d) := civ0 (z mod 146097) in
  (y + (z / 146097) * 400, m, d).

Definition dhi (n : Z) : N := (48 + Z.to_N (n / 10))%N.
Definition dlo (n : Z) : N := (48 + Z.to_N (n mod 10))%N.
Definition iso_text (y m d h mi s : Z) : bytes :=
  [dhi (y / 100); dlo (y / 100); dhi (y mod 100); dlo (y mod 100); 45; dhi m; dlo m; 45; dhi d; dlo d; 84;
   dhi h; dlo h; 58; dhi mi; dlo mi; 58; dhi s; dlo s; 90]%N.
Definition iso_of_time (t : Z) : bytes :=
  let sod := t mod 86400 in
  let '(y, m, d) := civil_from_days (t / 86400) in
  iso_text y m d (sod / 3600) (sod mod 3600 / 60) (sod mod 60).

Definition iso_min : Z := -62135596800.     (* 0001-01-01T00:00:00Z *)
Definition iso_max : Z := 253402300799.     (* 9999-12-31T23:59:59Z *)

(* ------------------------------------------------------------------------------------------ *)
(* one cycle, by computation *)
Definition cycle_check (doe : Z) : bool :=
  let '(y, m, d) := civ0 doe in
  (1 <=? m) && (m <=? 12) && (1 <=? d) && (d <=? Z.of_N (days_in_month y (Z.to_N m)))
  && (days_from_civil y m d + 719468 =? doe) && (0 <=? y) && (y <=? 400)
  && ((doe <? 306) || (1 <=? y)) && ((146036 <? doe) || (y <=? 399)).
Fixpoint all_from (n : nat) (z : Z) : bool :=
  match n with O => true | S n' => cycle_check z && all_from n' (z + 1) end.
Lemma all_from_spec n : forall z, all_from n z = true -> forall k, z <= k < z + Z.of_nat n -> cycle_check k = true.
Proof.
  induction n as [|n IH]; intros z H k Hk; [lia|].
  cbn [all_from] in H. apply andb_true_iff in H. destruct H as [H1 H2].
  destruct (Z.eq_dec k z) as [->|Hne]; [exact H1|]. apply (IH (z + 1) H2). lia.
Qed.
Lemma cycle_all : all_from (Z.to_nat 146097) 0 = true.
Proof. vm_compute. reflexivity. Qed.
Lemma cycle_ok doe : 0 <= doe < 146097 -> cycle_check doe = true.
Proof. intro H. apply (all_from_spec _ 0 cycle_all). lia. Qed.

(* ------------------------------------------------------------------------------------------ *)
(* every cycle *)
Lemma is_leap_era y e : is_leap (y + e * 400) = is_leap y.
Proof.
  unfold is_leap.
  replace ((y + e * 400) mod 4) with (y mod 4) by (Z.div_mod_to_equations; lia).
  replace ((y + e * 400) mod 100) with (y mod 100) by (Z.div_mod_to_equations; lia).
  replace ((y + e * 400) mod 400) with (y mod 400) by (Z.div_mod_to_equations; lia).
  reflexivity.
Qed.
Lemma days_in_month_era y e m : days_in_month (y + e * 400) m = days_in_month y m.
Proof. unfold days_in_month. rewrite is_leap_era. reflexivity. Qed.
Lemma days_from_civil_era y e m d : days_from_civil (y + e * 400) m d = days_from_civil y m d + e * 146097.
Proof.
  unfold days_from_civil. cbv zeta. destruct (m <=? 2).
  - replace ((y + e * 400 - 1) / 400) with ((y - 1) / 400 + e) by (Z.div_mod_to_equations; lia).
    replace (y + e * 400 - 1 - ((y - 1) / 400 + e) * 400) with (y - 1 - (y - 1) / 400 * 400) by lia. lia.
  - replace ((y + e * 400) / 400) with (y / 400 + e) by (Z.div_mod_to_equations; lia).
    replace (y + e * 400 - (y / 400 + e) * 400) with (y - y / 400 * 400) by lia. lia.
Qed.

(* ------------------------------------------------------------------------------------------ *)
(* two digits *)
Lemma digit2_hi_lo n : 0 <= n < 100 -> digit2 (dhi n) (dlo n) = Some (Z.to_N n).
Proof.
  intro H. unfold digit2, dhi, dlo, is_digit.
  assert (A : 0 <= n / 10 <= 9) by (Z.div_mod_to_equations; lia).
  assert (B : 0 <= n mod 10 <= 9) by (Z.div_mod_to_equations; lia).
  assert (E : n = 10 * (n / 10) + n mod 10) by (Z.div_mod_to_equations; lia).
  destruct (N.leb_spec 48 (48 + Z.to_N (n / 10))); [|lia].
  destruct (N.leb_spec (48 + Z.to_N (n / 10)) 57); [|lia].
  destruct (N.leb_spec 48 (48 + Z.to_N (n mod 10))); [|lia].
  destruct (N.leb_spec (48 + Z.to_N (n mod 10)) 57); [|lia].
  cbn [andb]. f_equal. lia.
Qed.

Lemma parse_iso_chars (y1 y2 y3 y4 m1 m2 d1 d2 h1 h2 n1 n2 s1 s2 : N) :
  parse_iso [y1; y2; y3; y4; 45; m1; m2; 45; d1; d2; 84; h1; h2; 58; n1; n2; 58; s1; s2; 90]%N
  = match digit2 y1 y2, digit2 y3 y4, digit2 m1 m2, digit2 d1 d2, digit2 h1 h2, digit2 n1 n2, digit2 s1 s2 with
    | Some ya, Some yb, Some mo, Some da, Some ho, Some mi, Some se =>
      let y := Z.of_N (ya * 100 + yb) in
      if (N.leb 1 mo && N.leb mo 12 && N.leb 1 da && N.leb da (days_in_month y mo)
          && N.ltb ho 24 && N.ltb mi 60 && N.leb se 60)%bool
      then Some (days_from_civil y (Z.of_N mo) (Z.of_N da) * 86400
                 + Z.of_N ho * 3600 + Z.of_N mi * 60 + Z.of_N (N.min se 59))
      else None
    | _, _, _, _, _, _, _ => None
    end.
Proof. reflexivity. Qed.

(* the text of valid civil fields parses to the instant they denote *)
Lemma parse_iso_text y m d h mi s :
  1 <= y <= 9999 -> 1 <= m <= 12 -> 1 <= d <= Z.of_N (days_in_month y (Z.to_N m)) ->
  0 <= h < 24 -> 0 <= mi < 60 -> 0 <= s < 60 ->
  parse_iso (iso_text y m d h mi s) = Some (days_from_civil y m d * 86400 + h * 3600 + mi * 60 + s).
Proof.
  intros Hy Hm Hd Hh Hmi Hs. unfold iso_text. rewrite parse_iso_chars.
  assert (Hd' : d <= 31).
  { unfold days_in_month in Hd. destruct (N.eqb (Z.to_N m) 2); [destruct (is_leap y); lia|].
    destruct (_ || _)%bool; lia. }
  rewrite (digit2_hi_lo (y / 100)) by (Z.div_mod_to_equations; lia).
  rewrite (digit2_hi_lo (y mod 100)) by (Z.div_mod_to_equations; lia).
  rewrite (digit2_hi_lo m), (digit2_hi_lo d), (digit2_hi_lo h), (digit2_hi_lo mi), (digit2_hi_lo s) by lia.
  cbv zeta.
  replace (Z.of_N (Z.to_N (y / 100) * 100 + Z.to_N (y mod 100))) with y by (Z.div_mod_to_equations; lia).
  destruct (N.leb_spec 1 (Z.to_N m)); [|lia]. destruct (N.leb_spec (Z.to_N m) 12); [|lia].
  destruct (N.leb_spec 1 (Z.to_N d)); [|lia].
  destruct (N.leb_spec (Z.to_N d) (days_in_month y (Z.to_N m))); [|lia].
  destruct (N.ltb_spec (Z.to_N h) 24); [|lia]. destruct (N.ltb_spec (Z.to_N mi) 60); [|lia].
  destruct (N.leb_spec (Z.to_N s) 60); [|lia]. cbn [andb].
  f_equal. rewrite !Z2N.id by lia. rewrite N.min_l by lia. rewrite Z2N.id by lia. reflexivity.
Qed.

(* civil_from_days yields a valid date in the years 1..9999 and days_from_civil inverts it *)
Lemma civil_from_days_ok z0 :
  -719162 <= z0 <= 2932896 ->
  let '(y, m, d) := civil_from_days z0 in
  1 <= y <= 9999 /\ 1 <= m <= 12 /\ 1 <= d <= Z.of_N (days_in_month y (Z.to_N m)) /\ days_from_civil y m d = z0.
Proof.
  intro H. unfold civil_from_days. cbv zeta.
  set (z := z0 + 719468).
  assert (Hdoe : 0 <= z mod 146097 < 146097) by (apply Z.mod_pos_bound; lia).
  assert (Hera : 0 <= z / 146097 <= 24) by (subst z; Z.div_mod_to_equations; lia).
  assert (Hz : z = 146097 * (z / 146097) + z mod 146097) by (apply Z.div_mod; lia).
  pose proof (cycle_ok _ Hdoe) as C. unfold cycle_check in C.
  destruct (civ0 (z mod 146097)) as [[y m] d].
  repeat (apply andb_true_iff in C; destruct C as [C ?]).
  repeat match goal with
         | H : (_ <=? _) = true |- _ => apply Z.leb_le in H
         | H : (_ =? _) = true |- _ => apply Z.eqb_eq in H
         | H : (_ || _)%bool = true |- _ => apply orb_true_iff in H
         | H : (_ <? _) = true \/ _ |- _ => rewrite Z.ltb_lt in H
         end.
  rewrite days_in_month_era, days_from_civil_era.
  repeat split; try lia.
Qed.

Theorem parse_iso_of_time t : iso_min <= t <= iso_max -> parse_iso (iso_of_time t) = Some t.
Proof.
  unfold iso_min, iso_max. intro H. unfold iso_of_time. cbv zeta.
  assert (Hs : 0 <= t mod 86400 < 86400) by (apply Z.mod_pos_bound; lia).
  assert (Hd : -719162 <= t / 86400 <= 2932896) by (Z.div_mod_to_equations; lia).
  assert (Ht : t = 86400 * (t / 86400) + t mod 86400) by (apply Z.div_mod; lia).
  pose proof (civil_from_days_ok _ Hd) as C.
  destruct (civil_from_days (t / 86400)) as [[y m] d]. destruct C as [Hy [Hm [Hdd Hinv]]].
  rewrite parse_iso_text; try assumption; try (Z.div_mod_to_equations; lia).
  f_equal. rewrite Hinv. Z.div_mod_to_equations. lia.
Qed.

(* ------------------------------------------------------------------------------------------ *)
(* the reader treats the two spellings alike *)
Lemma iso_range_ts_ok t : iso_min <= t <= iso_max -> ts_ok t = true.
Proof.
  unfold iso_min, iso_max, ts_ok, ts_min, ts_max. intro H. apply andb_true_iff. split; apply Z.leb_le; lia.
Qed.

Theorem parse_time_iso t : iso_min <= t <= iso_max -> parse_time (iso_of_time t) = Ok t.
Proof. intro H. unfold parse_time. rewrite (parse_iso_of_time t H). reflexivity. Qed.

Theorem parse_time_iso_b64 t : iso_min <= t <= iso_max -> parse_time (iso_of_time t) = parse_time (fmt_time t).
Proof. intro H. rewrite (parse_time_iso t H), (parse_time_fmt t (iso_range_ts_ok t H)). reflexivity. Qed.

(* the ISO text is never blank, so the element carries a Characters event *)
Lemma iso_of_time_not_ws t : ws_only (iso_of_time t) = false.
Proof.
  unfold iso_of_time. cbv zeta. destruct (civil_from_days (t / 86400)) as [[y m] d].
  unfold iso_text. rewrite !ws_only_cons.
  change (is_ws 45) with false. cbn [andb]. rewrite !andb_false_r. reflexivity.
Qed.

(* outside the years 1..9999 the canonical 20-character form does not exist *)
Example iso_range_needed : parse_iso (iso_of_time (iso_max + 1)) <> Some (iso_max + 1).
Proof. vm_compute. discriminate. Qed.
Example iso_sample : iso_of_time 1700000000 = [50;48;50;51;45;49;49;45;49;52;84;50;50;58;49;51;58;50;48;90]%N.
Proof. vm_compute. reflexivity. Qed.

(* Surface forms of the XML document, generic part.

   A child element E of a container has a DENOTATION: a step function on (accumulated struct, key
   stream) such that the child handler, run on E in front of ANY continuation X, returns the step's
   result and exactly X.  A sequence of children B has the composed denotation, and the container
   loop [p_loop] run on B ++ </close> ++ X returns it and X.  Two documents with the same denotation
   parse alike - for every outcome, errors included, and for every sufficient fuel.

   Here: the denotation algebra, the skip of an unknown element ([h_ignore] on a well-bracketed
   element: the identity step, whatever the element contains - in particular it never draws from the
   key stream), and the locality of the leaf handlers (SimpleTag, Value, Binary). *)
From Coq Require Import Lia.
From KP Require Import Bytes Outcome LE Utf8 Base64 Scalars XmlTypes XmlParse XmlCodecProofs.
Local Open Scope outcome_scope.

(* ------------------------------------------------------------------------------------------ *)
(* steps *)
Definition kstep (St : Type) : Type := St -> bytes -> outcome xerr (St * bytes).
Definition kret {St} : kstep St := fun a k => Ok (a, k).
Definition kcomp {St} (f g : kstep St) : kstep St :=
  fun a k => match f a k with
             | Ok (a', k') => g a' k'
             | Err e => Err e
             | Panic s => Panic s
             | OutOfFuel => OutOfFuel
             end.
Definition lift {A} (r : outcome xerr (A * bytes)) (X : list ev) : pres A :=
  match r with
  | Ok (v, k) => Ok (v, X, k)
  | Err e => Err e
  | Panic s => Panic s
  | OutOfFuel => OutOfFuel
  end.

Lemma kcomp_ret_l {St} (f : kstep St) a k : kcomp kret f a k = f a k.
Proof. reflexivity. Qed.
Lemma kcomp_assoc {St} (f g h : kstep St) a k : kcomp (kcomp f g) h a k = kcomp f (kcomp g h) a k.
Proof. unfold kcomp. destruct (f a k) as [[a1 k1]| | |]; reflexivity. Qed.

(* ------------------------------------------------------------------------------------------ *)
(* well-bracketed event lists *)
Inductive forest : list ev -> Prop :=
| forest_nil : forest []
| forest_chars t r : forest r -> forest (EChars t :: r)
| forest_elem n a body r : forest body -> forest r -> forest (EStart n a :: body ++ EEnd n :: r).

(* one complete element named [n]: <n attrs> ... </n>, properly nested inside, no error event *)
Definition well_bracketed (n : bytes) (sub : list ev) : Prop :=
  exists a body, sub = EStart n a :: body ++ [EEnd n] /\ forest body.

Lemma forest_app a b : forest a -> forest b -> forest (a ++ b).
Proof.
  induction 1 as [|t r _ IH|n at' body r Hb _ _ IH]; intro Hb2; cbn [app].
  - exact Hb2.
  - constructor. apply IH. exact Hb2.
  - rewrite <- app_assoc. cbn [app]. constructor; [exact Hb|apply IH; exact Hb2].
Qed.
Lemma well_bracketed_forest n sub : well_bracketed n sub -> forest sub.
Proof.
  intros [a [body [-> Hb]]]. change (EStart n a :: body ++ [EEnd n]) with (EStart n a :: body ++ EEnd n :: []).
  constructor; [exact Hb|constructor].
Qed.

Lemma skip_forest b : forest b -> forall d X, skip_body d (b ++ X) = skip_body d X.
Proof.
  induction 1 as [|t r _ IH|n a body r _ IHb _ IHr]; intros d X; cbn [app skip_body].
  - reflexivity.
  - apply IH.
  - rewrite <- app_assoc. cbn [app]. rewrite IHb. cbn [skip_body]. apply IHr.
Qed.

Lemma p_ignore_wb n sub X : well_bracketed n sub -> p_ignore (sub ++ X) = Ok X.
Proof.
  intros [a [body [-> Hb]]]. cbn [app p_ignore]. rewrite <- app_assoc. cbn [app].
  rewrite (skip_forest body Hb). reflexivity.
Qed.

(* a boolean test for examples: [bal d evs] = the list closes exactly [d] open elements, then ends *)
Fixpoint bal (stack : list bytes) (evs : list ev) : bool :=
  match evs with
  | [] => is_nil stack
  | EStart n _ :: r => bal (n :: stack) r
  | EEnd n :: r => match stack with m :: s => bytes_eqb m n && bal s r | [] => false end
  | EChars _ :: r => bal stack r
  | EErr :: _ => false
  end.

(* ------------------------------------------------------------------------------------------ *)
(* denotations *)
Section den.
  Context {St : Type}.
  Variable child : bytes -> handler St.
  Variable bound : nat.

  Definition hden (E : list ev) (f : kstep St) : Prop :=
    exists name attrs tl, E = EStart name attrs :: tl /\
      forall acc ks X, length (E ++ X) <= bound -> child name acc (E ++ X) ks = lift (f acc ks) X.

  Variable close : bytes.
  Definition bden (B : list ev) (F : kstep St) : Prop :=
    forall acc ks n X, length (B ++ EEnd close :: X) <= n -> length (B ++ EEnd close :: X) <= bound ->
      p_loop close child n acc (B ++ EEnd close :: X) ks = lift (F acc ks) X.

  Lemma bden_nil : bden [] kret.
  Proof.
    intros acc ks n X _ _. cbn [app]. destruct n; cbn [p_loop]; rewrite bytes_eqb_refl; reflexivity.
  Qed.

  Lemma bden_cons E f B F : hden E f -> bden B F -> bden (E ++ B) (kcomp f F).
  Proof.
    intros [name [attrs [tl [-> Hf]]]] HB acc ks n X Hn Hb.
    rewrite <- app_assoc in *. cbn [app length] in Hn, Hb.
    destruct n as [|m]; [lia|]. cbn [app p_loop].
    pose proof (Hf acc ks (B ++ EEnd close :: X)) as H1. cbn [app] in H1.
    rewrite H1 by (cbn [length]; lia). unfold kcomp.
    destruct (f acc ks) as [[a1 k1]|e|s|]; cbn [lift bind fst snd]; try reflexivity.
    rewrite app_length in Hn, Hb. apply HB; lia.
  Qed.

  Lemma bden_ext B F G : (forall a k, F a k = G a k) -> bden B F -> bden B G.
  Proof. intros E H acc ks n X Hn Hb. rewrite <- E. apply H; assumption. Qed.

  (* an unknown element: the identity step *)
  Lemma hden_ignore n sub : child n = h_ignore -> well_bracketed n sub -> hden sub kret.
  Proof.
    intros Hc Hw. pose proof Hw as [a [body [E Hb]]]. exists n, a, (body ++ [EEnd n]). split; [exact E|].
    intros acc ks X _. rewrite Hc. unfold h_ignore. rewrite (p_ignore_wb n sub X Hw). reflexivity.
  Qed.
End den.

(* the loop, directly: an unknown well-bracketed child in front of ANY continuation is one step that changes
   neither the struct nor the key stream - whatever is inside it, Protected="True" values included *)
Lemma p_loop_skip_unknown {St} (close : bytes) (child : bytes -> handler St) name sub n acc post ks :
  child name = h_ignore -> well_bracketed name sub ->
  p_loop close child (S n) acc (sub ++ post) ks = p_loop close child n acc post ks.
Proof.
  intros Hc Hw. pose proof Hw as [a [body [E _]]]. pose proof (p_ignore_wb name sub post Hw) as P.
  rewrite E in *. cbn [app p_loop]. rewrite Hc. unfold h_ignore. cbn [app] in P. rewrite P. reflexivity.
Qed.
Lemma h_ignore_keeps {St} (acc : St) evs ks a r k : h_ignore acc evs ks = Ok (a, r, k) -> a = acc /\ k = ks.
Proof.
  unfold h_ignore. destruct (p_ignore evs); cbn [bind]; intro H; try discriminate. inversion H. split; reflexivity.
Qed.

(* ------------------------------------------------------------------------------------------ *)
(* elements *)
Definition eden {A} (p : list ev -> bytes -> pres A) (bound : nat) (E : list ev)
           (g : bytes -> outcome xerr (A * bytes)) : Prop :=
  forall ks X, length (E ++ X) <= bound -> p (E ++ X) ks = lift (g ks) X.

Lemma eden_element {St} tag init (child : bytes -> handler St) n a B F :
  bden child n tag B F ->
  eden (p_element tag init child n) (S n) (EStart tag a :: B ++ [EEnd tag]) (F init).
Proof.
  intros H ks X Hl. unfold p_element. cbn [app]. rewrite bytes_eqb_refl. rewrite <- app_assoc. cbn [app].
  cbn [app length] in Hl. rewrite <- app_assoc in Hl. cbn [app] in Hl. apply H; lia.
Qed.

Lemma eden_mono {A} (p : list ev -> bytes -> pres A) b b' E g : b <= b' -> eden p b' E g -> eden p b E g.
Proof. intros L H ks X Hl. apply H. lia. Qed.

Definition ksub {St A} (set : A -> St -> St) (g : bytes -> outcome xerr (A * bytes)) : kstep St :=
  fun acc ks => match g ks with
                | Ok (v, k) => Ok (set v acc, k)
                | Err e => Err e
                | Panic s => Panic s
                | OutOfFuel => OutOfFuel
                end.

Lemma hden_sub {St A} (child : bytes -> handler St) bound name attrs tl
      (p : list ev -> bytes -> pres A) (set : A -> St -> St) g :
  child name = h_sub p set -> eden p bound (EStart name attrs :: tl) g ->
  hden child bound (EStart name attrs :: tl) (ksub set g).
Proof.
  intros Hc Hp. exists name, attrs, tl. split; [reflexivity|]. intros acc ks X Hl.
  rewrite Hc. unfold h_sub, ksub. rewrite (Hp ks X Hl).
  destruct (g ks) as [[v k]|e|s|]; reflexivity.
Qed.

(* ------------------------------------------------------------------------------------------ *)
(* leaves: <n attrs/> and <n attrs>text</n> *)
Definition shape0 (n : bytes) (a : list (bytes * bytes)) : list ev := [EStart n a; EEnd n].
Definition shape1 (n : bytes) (a : list (bytes * bytes)) (t : bytes) : list ev := [EStart n a; EChars t; EEnd n].
Definition shape (n : bytes) (a : list (bytes * bytes)) (o : option bytes) : list ev :=
  match o with Some t => shape1 n a t | None => shape0 n a end.

Definition omap {A B} (f : A -> B) (r : outcome xerr A) : outcome xerr B :=
  match r with Ok v => Ok (f v) | Err e => Err e | Panic s => Panic s | OutOfFuel => OutOfFuel end.

(* SimpleTag<T> *)
Definition kchars {St A} (conv : bytes -> outcome xerr A) (set : A -> St -> St) (o : option bytes) : kstep St :=
  fun acc ks => match o with
                | Some t => omap (fun v => (set v acc, ks)) (conv t)
                | None => Err XBadEvent
                end.
Lemma simple_chars_den {St A} (conv : bytes -> outcome xerr A) (set : A -> St -> St) n a o acc ks X :
  h_simple (p_chars conv) set acc (shape n a o ++ X) ks = lift (kchars conv set o acc ks) X.
Proof.
  destruct o as [t|]; unfold h_simple, p_simple, p_chars, kchars, shape, shape1, shape0; cbn [app].
  - destruct (conv t) as [v|e|s|]; cbn [bind omap lift]; try reflexivity. rewrite bytes_eqb_refl. reflexivity.
  - reflexivity.
Qed.
(* SimpleTag<Option<T>> *)
Definition kopt {St A} (conv : bytes -> outcome xerr A) (set : option A -> St -> St) (o : option bytes) : kstep St :=
  fun acc ks => match o with
                | Some t => omap (fun v => (set (Some v) acc, ks)) (conv t)
                | None => Ok (set None acc, ks)
                end.
Lemma simple_opt_den {St A} (conv : bytes -> outcome xerr A) (set : option A -> St -> St) n a o acc ks X :
  h_simple (p_opt_chars conv) set acc (shape n a o ++ X) ks = lift (kopt conv set o acc ks) X.
Proof.
  destruct o as [t|]; unfold h_simple, p_simple, p_opt_chars, kopt, shape, shape1, shape0; cbn [app].
  - destruct (conv t) as [v|e|s|]; cbn [bind omap lift]; try reflexivity. rewrite bytes_eqb_refl. reflexivity.
  - cbn [bind]. rewrite bytes_eqb_refl. reflexivity.
Qed.

(* the time stamps inside <Times>: the element name is the key *)
Definition ktimes (n : bytes) (o : option bytes) : kstep times :=
  fun acc ks => match o with
                | Some t => omap (fun v => (set_t_times (assoc_insert n v (t_times acc)) acc, ks)) (parse_time t)
                | None => Err XBadEvent
                end.
Lemma times_entry_den n a o acc ks X :
  bytes_eqb n s_Expires = false -> bytes_eqb n s_UsageCount = false ->
  times_child n acc (shape n a o ++ X) ks = lift (ktimes n o acc ks) X.
Proof.
  intros H1 H2. unfold times_child. rewrite H1, H2.
  destruct o as [t|]; unfold p_simple, p_chars, ktimes, shape, shape1, shape0; cbn [app].
  - destruct (parse_time t) as [v|e|s|]; cbn [bind omap lift]; try reflexivity. rewrite bytes_eqb_refl. reflexivity.
  - reflexivity.
Qed.

(* <Value [Protected=..]>text</Value> *)
Definition kvalue (n : bytes) (a : list (bytes * bytes)) (o : option bytes) : bytes -> outcome xerr (value * bytes) :=
  fun ks =>
    if bytes_eqb n s_Value then
      match attr_bool s_Protected a with
      | Ok protected =>
        let content := match o with Some t => t | None => [] end in
        if protected : bool then
          match b64_decode content with
          | None => Err XBase64
          | Some buf => Ok (VProtected (utf8_lossy (xor_ks buf ks)), drop (length buf) ks)
          end
        else Ok (VUnprotected content, ks)
      | Err e => Err e
      | Panic s => Panic s
      | OutOfFuel => OutOfFuel
      end
    else Err XBadEvent.
Lemma value_den n a o ks X : p_value (shape n a o ++ X) ks = lift (kvalue n a o ks) X.
Proof.
  unfold p_value, kvalue. destruct o as [t|]; unfold shape, shape1, shape0; cbn [app];
    destruct (bytes_eqb n s_Value) eqn:En; try reflexivity;
    destruct (attr_bool s_Protected a) as [[|]|e|s|]; cbn [bind p_opt_chars conv_string lift]; try reflexivity.
  - destruct (b64_decode t) as [buf|]; cbn [bind lift]; [|reflexivity]. rewrite En. reflexivity.
  - rewrite En. reflexivity.
  - destruct (b64_decode []) as [buf|]; cbn [bind lift]; [|reflexivity]. rewrite En. reflexivity.
  - rewrite En. reflexivity.
Qed.
Lemma kvalue_attrs n a a' o ks :
  attr_bool s_Protected a = attr_bool s_Protected a' -> kvalue n a o ks = kvalue n a' o ks.
Proof. intro H. unfold kvalue. rewrite H. reflexivity. Qed.

(* <Binary><Key>k</Key><Value Ref="r"/></Binary> inside an Entry: read and dropped *)
Definition ebin_shape (n : bytes) (a : list (bytes * bytes)) (kn : bytes) (ka : list (bytes * bytes)) (kt : bytes)
           (vn : bytes) (va : list (bytes * bytes)) : list ev :=
  [EStart n a; EStart kn ka; EChars kt; EEnd kn; EStart vn va; EEnd vn; EEnd n].
Definition h_ebin {St} : handler St := fun acc evs ks => do r <- p_binary_field evs; Ok (acc, r, ks).
Definition kebin {St} (n vn : bytes) (va : list (bytes * bytes)) : kstep St :=
  fun acc ks =>
    if bytes_eqb n s_Binary then
      if bytes_eqb vn s_Value then
        match attr_get s_Ref va with Some _ => Ok (acc, ks) | None => Err XBadEvent end
      else Err XBadEvent
    else Err XBadEvent.
Lemma ebin_den {St} n a kn ka kt vn va (acc : St) ks X :
  h_ebin acc (ebin_shape n a kn ka kt vn va ++ X) ks = lift (kebin n vn va acc ks) X.
Proof.
  unfold h_ebin, p_binary_field, kebin, ebin_shape. cbn [app].
  destruct (bytes_eqb n s_Binary); [|reflexivity].
  unfold p_simple, p_chars, conv_string. cbn [bind]. rewrite bytes_eqb_refl. cbn [bind].
  destruct (bytes_eqb vn s_Value); [|reflexivity]. destruct (attr_get s_Ref va); reflexivity.
Qed.

(* <Binary ID=.. Compressed=.. Protected=..>base64</Binary> inside Meta/Binaries *)
Section mbin.
  Variable gunzip : bytes -> option bytes.
  Definition kmbin (n : bytes) (a : list (bytes * bytes)) (o : option bytes) : bytes -> outcome xerr (binary * bytes) :=
    fun ks =>
      if bytes_eqb n s_Binary then
        match attr_bool s_Compressed a with
        | Ok compressed =>
          match attr_bool s_Protected a with
          | Ok protected =>
            match o with
            | None => Err XBadEvent
            | Some data =>
              match b64_decode data with
              | None => Err XBase64
              | Some buf =>
                let bk := if protected : bool then (xor_ks buf ks, drop (length buf) ks) else (buf, ks) in
                if compressed : bool then
                  match gunzip (fst bk) with
                  | Some content => Ok (mkBinary (attr_get s_ID a) compressed content, snd bk)
                  | None => Err XCompression
                  end
                else Ok (mkBinary (attr_get s_ID a) compressed (fst bk), snd bk)
              end
            end
          | Err e => Err e
          | Panic s => Panic s
          | OutOfFuel => OutOfFuel
          end
        | Err e => Err e
        | Panic s => Panic s
        | OutOfFuel => OutOfFuel
        end
      else Err XBadEvent.
  Lemma mbin_den n a o ks X : p_binary gunzip (shape n a o ++ X) ks = lift (kmbin n a o ks) X.
  Proof.
    unfold p_binary, kmbin. destruct o as [t|]; unfold shape, shape1, shape0; cbn [app];
      destruct (bytes_eqb n s_Binary); try reflexivity;
      destruct (attr_bool s_Compressed a) as [comp|e|s|]; cbn [bind lift]; try reflexivity;
      destruct (attr_bool s_Protected a) as [prot|e|s|]; cbn [bind lift p_chars conv_string]; try reflexivity.
    destruct (b64_decode t) as [buf|]; cbn [of_option bind lift]; [|reflexivity].
    destruct comp; [|reflexivity].
    destruct (gunzip _); reflexivity.
  Qed.
  Definition same_bin_attrs (a a' : list (bytes * bytes)) : Prop :=
    attr_get s_ID a = attr_get s_ID a' /\ attr_bool s_Compressed a = attr_bool s_Compressed a'
    /\ attr_bool s_Protected a = attr_bool s_Protected a'.
  Lemma kmbin_attrs n a a' o ks : same_bin_attrs a a' -> kmbin n a o ks = kmbin n a' o ks.
  Proof. intros [H1 [H2 H3]]. unfold kmbin. rewrite H1, H2, H3. reflexivity. Qed.
End mbin.

(* ------------------------------------------------------------------------------------------ *)
(* helpers *)
Definition shape_tl (n : bytes) (o : option bytes) : list ev :=
  match o with Some t => [EChars t; EEnd n] | None => [EEnd n] end.
Lemma shape_cons n a o : shape n a o = EStart n a :: shape_tl n o.
Proof. destruct o; reflexivity. Qed.

Lemma hden_intro {St} (child : bytes -> handler St) bound name attrs tl f0 :
  (forall acc ks X, child name acc ((EStart name attrs :: tl) ++ X) ks = lift (f0 acc ks) X) ->
  hden child bound (EStart name attrs :: tl) f0.
Proof. intro H. exists name, attrs, tl. split; [reflexivity|]. intros acc ks X _. apply H. Qed.

Lemma hden_sub_pt {St A} (child : bytes -> handler St) bound name attrs tl
      (p : list ev -> bytes -> pres A) (set : A -> St -> St) g :
  (forall acc evs ks, child name acc evs ks = h_sub p set acc evs ks) ->
  eden p bound (EStart name attrs :: tl) g ->
  hden child bound (EStart name attrs :: tl) (ksub set g).
Proof.
  intros Hc Hp. exists name, attrs, tl. split; [reflexivity|]. intros acc ks X Hl.
  rewrite Hc. unfold h_sub, ksub. rewrite (Hp ks X Hl).
  destruct (g ks) as [[v k]|e|s|]; reflexivity.
Qed.

Lemma eden_intro {A} (p : list ev -> bytes -> pres A) bound E g :
  (forall ks X, p (E ++ X) ks = lift (g ks) X) -> eden p bound E g.
Proof. intros H ks X _. apply H. Qed.

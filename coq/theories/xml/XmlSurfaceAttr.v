(* (4) The case of the attribute values Protected="True" / Compressed="True".

   The reader lower-cases the value before reading it as a bool, so "True", "true", "TRUE", "tRuE" are
   alike (and so are the spellings of "false"); any other value is an error (BoolFormat) - in every
   spelling alike.  [recase name f attrs] respells the values of the attribute [name] by [f]. *)
From Coq Require Import Lia.
From KP Require Import Bytes Outcome LE Utf8 Base64 Scalars XmlTypes XmlParse XmlCodecProofs XmlSurfaceCore.

Definition same_case (v v' : bytes) : Prop := map to_lower v = map to_lower v'.
Definition case_only (f : bytes -> bytes) : Prop := forall v, same_case (f v) v.

Lemma parse_bool_case v v' : same_case v v' -> parse_bool v = parse_bool v'.
Proof. intro H. unfold parse_bool. rewrite H. reflexivity. Qed.

Definition recase (name : bytes) (f : bytes -> bytes) (attrs : list (bytes * bytes)) : list (bytes * bytes) :=
  map (fun kv => if bytes_eqb (fst kv) name then (fst kv, f (snd kv)) else kv) attrs.

Lemma attr_get_recase name f attrs : attr_get name (recase name f attrs) = option_map f (attr_get name attrs).
Proof.
  induction attrs as [|[k v] r IH]; [reflexivity|]. cbn [recase map fst snd]. fold (recase name f r).
  destruct (bytes_eqb k name) eqn:E; cbn [attr_get]; rewrite IH; destruct (attr_get name r); cbn [option_map];
    rewrite ?E; reflexivity.
Qed.
Lemma attr_get_recase_other name other f attrs :
  bytes_eqb name other = false -> attr_get other (recase name f attrs) = attr_get other attrs.
Proof.
  intro Hne. induction attrs as [|[k v] r IH]; [reflexivity|]. cbn [recase map fst snd]. fold (recase name f r).
  destruct (bytes_eqb k name) eqn:E; cbn [attr_get]; rewrite IH; [|reflexivity].
  apply bytes_eqb_eq in E. subst k. rewrite Hne. reflexivity.
Qed.

Theorem attr_bool_recase name f attrs : case_only f -> attr_bool name (recase name f attrs) = attr_bool name attrs.
Proof.
  intro Hf. unfold attr_bool. rewrite attr_get_recase. destruct (attr_get name attrs) as [v|]; cbn [option_map]; [|reflexivity].
  rewrite (parse_bool_case (f v) v (Hf v)). reflexivity.
Qed.
Lemma attr_bool_recase_other name other f attrs :
  bytes_eqb name other = false -> attr_bool other (recase name f attrs) = attr_bool other attrs.
Proof. intro H. unfold attr_bool. rewrite (attr_get_recase_other name other f attrs H). reflexivity. Qed.

(* any spelling of "true" / "false" *)
Theorem attr_bool_true name v : same_case v s_true -> attr_bool name [(name, v)] = Ok true.
Proof.
  intro H. unfold attr_bool. cbn [attr_get]. rewrite bytes_eqb_refl.
  rewrite (parse_bool_case v s_true H). reflexivity.
Qed.
Theorem attr_bool_false name v : same_case v s_false -> attr_bool name [(name, v)] = Ok false.
Proof.
  intro H. unfold attr_bool. cbn [attr_get]. rewrite bytes_eqb_refl.
  rewrite (parse_bool_case v s_false H). reflexivity.
Qed.
Example attr_bool_True : attr_bool s_Protected [(s_Protected, s_True)] = Ok true. Proof. reflexivity. Qed.
Example attr_bool_true_lc : attr_bool s_Protected [(s_Protected, s_true)] = Ok true. Proof. reflexivity. Qed.
Example attr_bool_TRUE : attr_bool s_Protected [(s_Protected, [84;82;85;69]%N)] = Ok true. Proof. reflexivity. Qed.
Example attr_bool_tRuE : attr_bool s_Compressed [(s_Compressed, [116;82;117;69]%N)] = Ok true. Proof. reflexivity. Qed.
(* only the case may vary: "1" or "yes" are errors, an absent attribute is false *)
Example attr_bool_one_refuted : attr_bool s_Protected [(s_Protected, [49]%N)] = Err XBoolFormat. Proof. reflexivity. Qed.
Example attr_bool_absent : attr_bool s_Protected [] = Ok false. Proof. reflexivity. Qed.
(* and the attribute NAME is case sensitive: protected="True" is not Protected="True" *)
Example attr_name_case_refuted : attr_bool s_Protected [([112;114;111;116;101;99;116;101;100]%N, s_True)] = Ok false.
Proof. reflexivity. Qed.

(* the attribute sets of <Value> and of Meta's <Binary> under respelling *)
Lemma value_attrs_recase f attrs : case_only f -> attr_bool s_Protected attrs = attr_bool s_Protected (recase s_Protected f attrs).
Proof. intro Hf. symmetry. apply attr_bool_recase. exact Hf. Qed.

Lemma binary_attrs_recase f g attrs :
  case_only f -> case_only g -> same_bin_attrs attrs (recase s_Compressed f (recase s_Protected g attrs)).
Proof.
  intros Hf Hg. unfold same_bin_attrs. split; [|split].
  - rewrite (attr_get_recase_other s_Compressed s_ID) by reflexivity.
    rewrite (attr_get_recase_other s_Protected s_ID) by reflexivity. reflexivity.
  - rewrite (attr_bool_recase s_Compressed f _ Hf).
    rewrite (attr_bool_recase_other s_Protected s_Compressed) by reflexivity. reflexivity.
  - rewrite (attr_bool_recase_other s_Compressed s_Protected) by reflexivity.
    rewrite (attr_bool_recase s_Protected g _ Hg). reflexivity.
Qed.

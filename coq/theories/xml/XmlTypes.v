(* XML object mapping of keepass-rs (src/xml_db): the event alphabet, the object model and the scalar
   codecs shared by the writer model (XmlDump.v) and the reader model (XmlParse.v).

   Strings are their UTF-8 bytes ([bytes] = [list N]).  Rust widths: [usize] is N below 2^64, [isize] is Z in
   [-2^63, 2^63); a [NaiveDateTime] is modelled by its whole seconds since 1970-01-01T00:00:00 (Z) - the
   sub-second part is not representable in the file (the writer drops it) and not in the model;
   [HashMap]-typed fields are association lists, the order of which is the iteration order the writer
   happened to use (see XmlDump.v) and the insertion order of the reader (XmlParse.v). *)
From Coq Require Import Lia.
From KP Require Import Bytes Outcome LE Utf8 Base64 Scalars.
Local Open Scope N_scope.

(* ------------------------------------------------------------------------------------------ *)
(* Events: xml_db::parse::SimpleXmlEvent.  Attributes are (local name, value) in document order;
   the code collects them into a HashMap, so a later duplicate local name wins ([attr_get]). *)
Inductive ev :=
| EStart (name : bytes) (attrs : list (bytes * bytes))
| EEnd (name : bytes)
| EChars (text : bytes)
| EErr.

Fixpoint attr_get (name : bytes) (attrs : list (bytes * bytes)) : option bytes :=
  match attrs with
  | [] => None
  | (k, v) :: r => match attr_get name r with
                   | Some w => Some w
                   | None => if bytes_eqb k name then Some v else None
                   end
  end.

(* XmlParseError, by variant *)
Inductive xerr :=
| XXml | XBase64 | XTimestampFormat | XIntFormat | XBoolFormat | XUuid | XColor
| XCryptography | XCompression | XBadEvent | XEof.

(* ------------------------------------------------------------------------------------------ *)
(* Object model (src/db), fields in struct order *)
Inductive value := VUnprotected (t : bytes) | VProtected (b : bytes) | VBytes (b : bytes).

Record times := mkTimes { t_expires : bool; t_usage : N; t_times : list (bytes * Z) }.
Record cditem := mkCdItem { cd_value : option value; cd_time : option Z }.
Definition custom_data := list (bytes * cditem).
Record assoc := mkAssoc { as_window : option bytes; as_seq : option bytes }.
Record autotype := mkAutoType { at_enabled : bool; at_seq : option bytes; at_assocs : list assoc }.
Definition color := (N * N * N)%type.

Inductive entry := mkEntry {
  e_uuid : bytes;
  e_fields : list (bytes * value);
  e_autotype : option autotype;
  e_tags : list bytes;
  e_times : times;
  e_custom_data : custom_data;
  e_icon_id : option N;
  e_custom_icon : option bytes;
  e_fg : option color;
  e_bg : option color;
  e_override_url : option bytes;
  e_quality_check : option bool;
  e_history : option (list entry) }.

(* Node = Group | Entry; children in order *)
Inductive group := mkGroup {
  g_uuid : bytes;
  g_name : bytes;
  g_notes : option bytes;
  g_icon_id : option N;
  g_custom_icon : option bytes;
  g_children : list (entry + group);
  g_times : times;
  g_custom_data : custom_data;
  g_is_expanded : bool;
  g_default_autotype_sequence : option bytes;
  g_enable_autotype : option bytes;
  g_enable_searching : option bytes;
  g_last_top_visible_entry : option bytes }.

Record memprot := mkMemProt { mp_title : bool; mp_username : bool; mp_password : bool; mp_url : bool; mp_notes : bool }.
Record icon := mkIcon { ic_uuid : bytes; ic_data : bytes }.
Record binary := mkBinary { bin_id : option bytes; bin_compressed : bool; bin_content : bytes }.
Record delobj := mkDelObj { do_uuid : bytes; do_time : Z }.

Record meta := mkMeta {
  m_generator : option bytes;
  m_database_name : option bytes;
  m_database_name_changed : option Z;
  m_database_description : option bytes;
  m_database_description_changed : option Z;
  m_default_username : option bytes;
  m_default_username_changed : option Z;
  m_maintenance_history_days : option N;
  m_color : option color;
  m_master_key_changed : option Z;
  m_master_key_change_rec : option Z;
  m_master_key_change_force : option Z;
  m_memory_protection : option memprot;
  m_custom_icons : list icon;
  m_recyclebin_enabled : option bool;
  m_recyclebin_uuid : option bytes;
  m_recyclebin_changed : option Z;
  m_entry_templates_group : option bytes;
  m_entry_templates_group_changed : option Z;
  m_last_selected_group : option bytes;
  m_last_top_visible_group : option bytes;
  m_history_max_items : option N;
  m_history_max_size : option N;
  m_settings_changed : option Z;
  m_binaries : list binary;
  m_custom_data : custom_data }.

(* what the XML document carries of a Database: meta, root group, deleted objects *)
Record content := mkContent { c_meta : meta; c_root : group; c_deleted : list delobj }.

(* Default::default() of the structs *)
Definition nil_uuid : bytes := zeros 16.
Definition times_default : times := mkTimes false 0 [].
Definition cditem_default : cditem := mkCdItem None None.
Definition assoc_default : assoc := mkAssoc None None.
Definition autotype_default : autotype := mkAutoType false None [].
Definition memprot_default : memprot := mkMemProt false false true false false.
Definition icon_default : icon := mkIcon nil_uuid [].
Definition delobj_default : delobj := mkDelObj nil_uuid 0%Z.
Definition group_default : group :=
  mkGroup nil_uuid [] None None None [] times_default [] false None None None None.
Definition meta_default : meta :=
  mkMeta None None None None None None None None None None None None None [] None None None None None None None
         None None None [] [].

(* ------------------------------------------------------------------------------------------ *)
(* Element, attribute and literal names *)
Definition s_KeePassFile : bytes := [75;101;101;80;97;115;115;70;105;108;101].
Definition s_Meta : bytes := [77;101;116;97].
Definition s_Root : bytes := [82;111;111;116].
Definition s_Group : bytes := [71;114;111;117;112].
Definition s_DeletedObjects : bytes := [68;101;108;101;116;101;100;79;98;106;101;99;116;115].
Definition s_DeletedObject : bytes := [68;101;108;101;116;101;100;79;98;106;101;99;116].
Definition s_UUID : bytes := [85;85;73;68].
Definition s_DeletionTime : bytes := [68;101;108;101;116;105;111;110;84;105;109;101].
Definition s_Times : bytes := [84;105;109;101;115].
Definition s_Expires : bytes := [69;120;112;105;114;101;115].
Definition s_UsageCount : bytes := [85;115;97;103;101;67;111;117;110;116].
Definition s_CustomData : bytes := [67;117;115;116;111;109;68;97;116;97].
Definition s_Item : bytes := [73;116;101;109].
Definition s_Key : bytes := [75;101;121].
Definition s_Value : bytes := [86;97;108;117;101].
Definition s_LastModificationTime : bytes := [76;97;115;116;77;111;100;105;102;105;99;97;116;105;111;110;84;105;109;101].
Definition s_Entry : bytes := [69;110;116;114;121].
Definition s_Tags : bytes := [84;97;103;115].
Definition s_String : bytes := [83;116;114;105;110;103].
Definition s_Binary : bytes := [66;105;110;97;114;121].
Definition s_AutoType : bytes := [65;117;116;111;84;121;112;101].
Definition s_IconID : bytes := [73;99;111;110;73;68].
Definition s_CustomIconUUID : bytes := [67;117;115;116;111;109;73;99;111;110;85;85;73;68].
Definition s_ForegroundColor : bytes := [70;111;114;101;103;114;111;117;110;100;67;111;108;111;114].
Definition s_BackgroundColor : bytes := [66;97;99;107;103;114;111;117;110;100;67;111;108;111;114].
Definition s_OverrideURL : bytes := [79;118;101;114;114;105;100;101;85;82;76].
Definition s_QualityCheck : bytes := [81;117;97;108;105;116;121;67;104;101;99;107].
Definition s_History : bytes := [72;105;115;116;111;114;121].
Definition s_Enabled : bytes := [69;110;97;98;108;101;100].
Definition s_DefaultSequence : bytes := [68;101;102;97;117;108;116;83;101;113;117;101;110;99;101].
Definition s_DataTransferObfuscation : bytes := [68;97;116;97;84;114;97;110;115;102;101;114;79;98;102;117;115;99;97;116;105;111;110].
Definition s_Association : bytes := [65;115;115;111;99;105;97;116;105;111;110].
Definition s_Window : bytes := [87;105;110;100;111;119].
Definition s_KeystrokeSequence : bytes := [75;101;121;115;116;114;111;107;101;83;101;113;117;101;110;99;101].
Definition s_Name : bytes := [78;97;109;101].
Definition s_Notes : bytes := [78;111;116;101;115].
Definition s_IsExpanded : bytes := [73;115;69;120;112;97;110;100;101;100].
Definition s_DefaultAutoTypeSequence : bytes := [68;101;102;97;117;108;116;65;117;116;111;84;121;112;101;83;101;113;117;101;110;99;101].
Definition s_EnableAutoType : bytes := [69;110;97;98;108;101;65;117;116;111;84;121;112;101].
Definition s_EnableSearching : bytes := [69;110;97;98;108;101;83;101;97;114;99;104;105;110;103].
Definition s_LastTopVisibleEntry : bytes := [76;97;115;116;84;111;112;86;105;115;105;98;108;101;69;110;116;114;121].
Definition s_Generator : bytes := [71;101;110;101;114;97;116;111;114].
Definition s_DatabaseName : bytes := [68;97;116;97;98;97;115;101;78;97;109;101].
Definition s_DatabaseNameChanged : bytes := [68;97;116;97;98;97;115;101;78;97;109;101;67;104;97;110;103;101;100].
Definition s_DatabaseDescription : bytes := [68;97;116;97;98;97;115;101;68;101;115;99;114;105;112;116;105;111;110].
Definition s_DatabaseDescriptionChanged : bytes := [68;97;116;97;98;97;115;101;68;101;115;99;114;105;112;116;105;111;110;67;104;97;110;103;101;100].
Definition s_DefaultUserName : bytes := [68;101;102;97;117;108;116;85;115;101;114;78;97;109;101].
Definition s_DefaultUserNameChanged : bytes := [68;101;102;97;117;108;116;85;115;101;114;78;97;109;101;67;104;97;110;103;101;100].
Definition s_MaintenanceHistoryDays : bytes := [77;97;105;110;116;101;110;97;110;99;101;72;105;115;116;111;114;121;68;97;121;115].
Definition s_Color : bytes := [67;111;108;111;114].
Definition s_MasterKeyChanged : bytes := [77;97;115;116;101;114;75;101;121;67;104;97;110;103;101;100].
Definition s_MasterKeyChangeRec : bytes := [77;97;115;116;101;114;75;101;121;67;104;97;110;103;101;82;101;99].
Definition s_MasterKeyChangeForce : bytes := [77;97;115;116;101;114;75;101;121;67;104;97;110;103;101;70;111;114;99;101].
Definition s_MemoryProtection : bytes := [77;101;109;111;114;121;80;114;111;116;101;99;116;105;111;110].
Definition s_CustomIcons : bytes := [67;117;115;116;111;109;73;99;111;110;115].
Definition s_RecycleBinEnabled : bytes := [82;101;99;121;99;108;101;66;105;110;69;110;97;98;108;101;100].
Definition s_RecycleBinUUID : bytes := [82;101;99;121;99;108;101;66;105;110;85;85;73;68].
Definition s_RecycleBinChanged : bytes := [82;101;99;121;99;108;101;66;105;110;67;104;97;110;103;101;100].
Definition s_EntryTemplatesGroup : bytes := [69;110;116;114;121;84;101;109;112;108;97;116;101;115;71;114;111;117;112].
Definition s_EntryTemplatesGroupChanged : bytes := [69;110;116;114;121;84;101;109;112;108;97;116;101;115;71;114;111;117;112;67;104;97;110;103;101;100].
Definition s_LastSelectedGroup : bytes := [76;97;115;116;83;101;108;101;99;116;101;100;71;114;111;117;112].
Definition s_LastTopVisibleGroup : bytes := [76;97;115;116;84;111;112;86;105;115;105;98;108;101;71;114;111;117;112].
Definition s_HistoryMaxItems : bytes := [72;105;115;116;111;114;121;77;97;120;73;116;101;109;115].
Definition s_HistoryMaxSize : bytes := [72;105;115;116;111;114;121;77;97;120;83;105;122;101].
Definition s_SettingsChanged : bytes := [83;101;116;116;105;110;103;115;67;104;97;110;103;101;100].
Definition s_Binaries : bytes := [66;105;110;97;114;105;101;115].
Definition s_ProtectTitle : bytes := [80;114;111;116;101;99;116;84;105;116;108;101].
Definition s_ProtectUserName : bytes := [80;114;111;116;101;99;116;85;115;101;114;78;97;109;101].
Definition s_ProtectPassword : bytes := [80;114;111;116;101;99;116;80;97;115;115;119;111;114;100].
Definition s_ProtectURL : bytes := [80;114;111;116;101;99;116;85;82;76].
Definition s_ProtectNotes : bytes := [80;114;111;116;101;99;116;78;111;116;101;115].
Definition s_Icon : bytes := [73;99;111;110].
Definition s_Data : bytes := [68;97;116;97].
Definition s_Protected : bytes := [80;114;111;116;101;99;116;101;100].
Definition s_True : bytes := [84;114;117;101].
Definition s_False : bytes := [70;97;108;115;101].
Definition s_ID : bytes := [73;68].
Definition s_Compressed : bytes := [67;111;109;112;114;101;115;115;101;100].
Definition s_Ref : bytes := [82;101;102].
Definition s_true : bytes := [116;114;117;101].
Definition s_false : bytes := [102;97;108;115;101].
Definition s_CreationTime : bytes := [67;114;101;97;116;105;111;110;84;105;109;101].
Definition s_LastAccessTime : bytes := [76;97;115;116;65;99;99;101;115;115;84;105;109;101].
Definition s_LocationChanged : bytes := [76;111;99;97;116;105;111;110;67;104;97;110;103;101;100].
Definition s_ExpiryTime : bytes := [69;120;112;105;114;121;84;105;109;101].

(* Entry::new(): a random version-4 UUID and Times::new() (five stamps = the current time).  Both are
   outside the model; the reader model uses these fixed placeholders.  They are visible in a parse
   result only when an <Entry> has no <UUID> / no <Times> child, which the writer never produces. *)
Definition now_placeholder : Z := 0%Z.
Definition times_new : times :=
  mkTimes false 0 [ (s_CreationTime, now_placeholder); (s_LastModificationTime, now_placeholder);
                    (s_LastAccessTime, now_placeholder); (s_LocationChanged, now_placeholder);
                    (s_ExpiryTime, now_placeholder) ].
Definition entry_new : entry :=
  mkEntry nil_uuid [] None [] times_new [] None None None None None None None.

(* ------------------------------------------------------------------------------------------ *)
(* Field setters (Coq has no record update) *)
Definition set_e_uuid v (r : entry) : entry := match r with mkEntry x0 x1 x2 x3 x4 x5 x6 x7 x8 x9 x10 x11 x12 => mkEntry v x1 x2 x3 x4 x5 x6 x7 x8 x9 x10 x11 x12 end.
Definition set_e_fields v (r : entry) : entry := match r with mkEntry x0 x1 x2 x3 x4 x5 x6 x7 x8 x9 x10 x11 x12 => mkEntry x0 v x2 x3 x4 x5 x6 x7 x8 x9 x10 x11 x12 end.
Definition set_e_autotype v (r : entry) : entry := match r with mkEntry x0 x1 x2 x3 x4 x5 x6 x7 x8 x9 x10 x11 x12 => mkEntry x0 x1 v x3 x4 x5 x6 x7 x8 x9 x10 x11 x12 end.
Definition set_e_tags v (r : entry) : entry := match r with mkEntry x0 x1 x2 x3 x4 x5 x6 x7 x8 x9 x10 x11 x12 => mkEntry x0 x1 x2 v x4 x5 x6 x7 x8 x9 x10 x11 x12 end.
Definition set_e_times v (r : entry) : entry := match r with mkEntry x0 x1 x2 x3 x4 x5 x6 x7 x8 x9 x10 x11 x12 => mkEntry x0 x1 x2 x3 v x5 x6 x7 x8 x9 x10 x11 x12 end.
Definition set_e_custom_data v (r : entry) : entry := match r with mkEntry x0 x1 x2 x3 x4 x5 x6 x7 x8 x9 x10 x11 x12 => mkEntry x0 x1 x2 x3 x4 v x6 x7 x8 x9 x10 x11 x12 end.
Definition set_e_icon_id v (r : entry) : entry := match r with mkEntry x0 x1 x2 x3 x4 x5 x6 x7 x8 x9 x10 x11 x12 => mkEntry x0 x1 x2 x3 x4 x5 v x7 x8 x9 x10 x11 x12 end.
Definition set_e_custom_icon v (r : entry) : entry := match r with mkEntry x0 x1 x2 x3 x4 x5 x6 x7 x8 x9 x10 x11 x12 => mkEntry x0 x1 x2 x3 x4 x5 x6 v x8 x9 x10 x11 x12 end.
Definition set_e_fg v (r : entry) : entry := match r with mkEntry x0 x1 x2 x3 x4 x5 x6 x7 x8 x9 x10 x11 x12 => mkEntry x0 x1 x2 x3 x4 x5 x6 x7 v x9 x10 x11 x12 end.
Definition set_e_bg v (r : entry) : entry := match r with mkEntry x0 x1 x2 x3 x4 x5 x6 x7 x8 x9 x10 x11 x12 => mkEntry x0 x1 x2 x3 x4 x5 x6 x7 x8 v x10 x11 x12 end.
Definition set_e_override_url v (r : entry) : entry := match r with mkEntry x0 x1 x2 x3 x4 x5 x6 x7 x8 x9 x10 x11 x12 => mkEntry x0 x1 x2 x3 x4 x5 x6 x7 x8 x9 v x11 x12 end.
Definition set_e_quality_check v (r : entry) : entry := match r with mkEntry x0 x1 x2 x3 x4 x5 x6 x7 x8 x9 x10 x11 x12 => mkEntry x0 x1 x2 x3 x4 x5 x6 x7 x8 x9 x10 v x12 end.
Definition set_e_history v (r : entry) : entry := match r with mkEntry x0 x1 x2 x3 x4 x5 x6 x7 x8 x9 x10 x11 x12 => mkEntry x0 x1 x2 x3 x4 x5 x6 x7 x8 x9 x10 x11 v end.
Definition set_g_uuid v (r : group) : group := match r with mkGroup x0 x1 x2 x3 x4 x5 x6 x7 x8 x9 x10 x11 x12 => mkGroup v x1 x2 x3 x4 x5 x6 x7 x8 x9 x10 x11 x12 end.
Definition set_g_name v (r : group) : group := match r with mkGroup x0 x1 x2 x3 x4 x5 x6 x7 x8 x9 x10 x11 x12 => mkGroup x0 v x2 x3 x4 x5 x6 x7 x8 x9 x10 x11 x12 end.
Definition set_g_notes v (r : group) : group := match r with mkGroup x0 x1 x2 x3 x4 x5 x6 x7 x8 x9 x10 x11 x12 => mkGroup x0 x1 v x3 x4 x5 x6 x7 x8 x9 x10 x11 x12 end.
Definition set_g_icon_id v (r : group) : group := match r with mkGroup x0 x1 x2 x3 x4 x5 x6 x7 x8 x9 x10 x11 x12 => mkGroup x0 x1 x2 v x4 x5 x6 x7 x8 x9 x10 x11 x12 end.
Definition set_g_custom_icon v (r : group) : group := match r with mkGroup x0 x1 x2 x3 x4 x5 x6 x7 x8 x9 x10 x11 x12 => mkGroup x0 x1 x2 x3 v x5 x6 x7 x8 x9 x10 x11 x12 end.
Definition set_g_children v (r : group) : group := match r with mkGroup x0 x1 x2 x3 x4 x5 x6 x7 x8 x9 x10 x11 x12 => mkGroup x0 x1 x2 x3 x4 v x6 x7 x8 x9 x10 x11 x12 end.
Definition set_g_times v (r : group) : group := match r with mkGroup x0 x1 x2 x3 x4 x5 x6 x7 x8 x9 x10 x11 x12 => mkGroup x0 x1 x2 x3 x4 x5 v x7 x8 x9 x10 x11 x12 end.
Definition set_g_custom_data v (r : group) : group := match r with mkGroup x0 x1 x2 x3 x4 x5 x6 x7 x8 x9 x10 x11 x12 => mkGroup x0 x1 x2 x3 x4 x5 x6 v x8 x9 x10 x11 x12 end.
Definition set_g_is_expanded v (r : group) : group := match r with mkGroup x0 x1 x2 x3 x4 x5 x6 x7 x8 x9 x10 x11 x12 => mkGroup x0 x1 x2 x3 x4 x5 x6 x7 v x9 x10 x11 x12 end.
Definition set_g_default_autotype_sequence v (r : group) : group := match r with mkGroup x0 x1 x2 x3 x4 x5 x6 x7 x8 x9 x10 x11 x12 => mkGroup x0 x1 x2 x3 x4 x5 x6 x7 x8 v x10 x11 x12 end.
Definition set_g_enable_autotype v (r : group) : group := match r with mkGroup x0 x1 x2 x3 x4 x5 x6 x7 x8 x9 x10 x11 x12 => mkGroup x0 x1 x2 x3 x4 x5 x6 x7 x8 x9 v x11 x12 end.
Definition set_g_enable_searching v (r : group) : group := match r with mkGroup x0 x1 x2 x3 x4 x5 x6 x7 x8 x9 x10 x11 x12 => mkGroup x0 x1 x2 x3 x4 x5 x6 x7 x8 x9 x10 v x12 end.
Definition set_g_last_top_visible_entry v (r : group) : group := match r with mkGroup x0 x1 x2 x3 x4 x5 x6 x7 x8 x9 x10 x11 x12 => mkGroup x0 x1 x2 x3 x4 x5 x6 x7 x8 x9 x10 x11 v end.
Definition set_m_generator v (r : meta) : meta := match r with mkMeta x0 x1 x2 x3 x4 x5 x6 x7 x8 x9 x10 x11 x12 x13 x14 x15 x16 x17 x18 x19 x20 x21 x22 x23 x24 x25 => mkMeta v x1 x2 x3 x4 x5 x6 x7 x8 x9 x10 x11 x12 x13 x14 x15 x16 x17 x18 x19 x20 x21 x22 x23 x24 x25 end.
Definition set_m_database_name v (r : meta) : meta := match r with mkMeta x0 x1 x2 x3 x4 x5 x6 x7 x8 x9 x10 x11 x12 x13 x14 x15 x16 x17 x18 x19 x20 x21 x22 x23 x24 x25 => mkMeta x0 v x2 x3 x4 x5 x6 x7 x8 x9 x10 x11 x12 x13 x14 x15 x16 x17 x18 x19 x20 x21 x22 x23 x24 x25 end.
Definition set_m_database_name_changed v (r : meta) : meta := match r with mkMeta x0 x1 x2 x3 x4 x5 x6 x7 x8 x9 x10 x11 x12 x13 x14 x15 x16 x17 x18 x19 x20 x21 x22 x23 x24 x25 => mkMeta x0 x1 v x3 x4 x5 x6 x7 x8 x9 x10 x11 x12 x13 x14 x15 x16 x17 x18 x19 x20 x21 x22 x23 x24 x25 end.
Definition set_m_database_description v (r : meta) : meta := match r with mkMeta x0 x1 x2 x3 x4 x5 x6 x7 x8 x9 x10 x11 x12 x13 x14 x15 x16 x17 x18 x19 x20 x21 x22 x23 x24 x25 => mkMeta x0 x1 x2 v x4 x5 x6 x7 x8 x9 x10 x11 x12 x13 x14 x15 x16 x17 x18 x19 x20 x21 x22 x23 x24 x25 end.
Definition set_m_database_description_changed v (r : meta) : meta := match r with mkMeta x0 x1 x2 x3 x4 x5 x6 x7 x8 x9 x10 x11 x12 x13 x14 x15 x16 x17 x18 x19 x20 x21 x22 x23 x24 x25 => mkMeta x0 x1 x2 x3 v x5 x6 x7 x8 x9 x10 x11 x12 x13 x14 x15 x16 x17 x18 x19 x20 x21 x22 x23 x24 x25 end.
Definition set_m_default_username v (r : meta) : meta := match r with mkMeta x0 x1 x2 x3 x4 x5 x6 x7 x8 x9 x10 x11 x12 x13 x14 x15 x16 x17 x18 x19 x20 x21 x22 x23 x24 x25 => mkMeta x0 x1 x2 x3 x4 v x6 x7 x8 x9 x10 x11 x12 x13 x14 x15 x16 x17 x18 x19 x20 x21 x22 x23 x24 x25 end.
Definition set_m_default_username_changed v (r : meta) : meta := match r with mkMeta x0 x1 x2 x3 x4 x5 x6 x7 x8 x9 x10 x11 x12 x13 x14 x15 x16 x17 x18 x19 x20 x21 x22 x23 x24 x25 => mkMeta x0 x1 x2 x3 x4 x5 v x7 x8 x9 x10 x11 x12 x13 x14 x15 x16 x17 x18 x19 x20 x21 x22 x23 x24 x25 end.
Definition set_m_maintenance_history_days v (r : meta) : meta := match r with mkMeta x0 x1 x2 x3 x4 x5 x6 x7 x8 x9 x10 x11 x12 x13 x14 x15 x16 x17 x18 x19 x20 x21 x22 x23 x24 x25 => mkMeta x0 x1 x2 x3 x4 x5 x6 v x8 x9 x10 x11 x12 x13 x14 x15 x16 x17 x18 x19 x20 x21 x22 x23 x24 x25 end.
Definition set_m_color v (r : meta) : meta := match r with mkMeta x0 x1 x2 x3 x4 x5 x6 x7 x8 x9 x10 x11 x12 x13 x14 x15 x16 x17 x18 x19 x20 x21 x22 x23 x24 x25 => mkMeta x0 x1 x2 x3 x4 x5 x6 x7 v x9 x10 x11 x12 x13 x14 x15 x16 x17 x18 x19 x20 x21 x22 x23 x24 x25 end.
Definition set_m_master_key_changed v (r : meta) : meta := match r with mkMeta x0 x1 x2 x3 x4 x5 x6 x7 x8 x9 x10 x11 x12 x13 x14 x15 x16 x17 x18 x19 x20 x21 x22 x23 x24 x25 => mkMeta x0 x1 x2 x3 x4 x5 x6 x7 x8 v x10 x11 x12 x13 x14 x15 x16 x17 x18 x19 x20 x21 x22 x23 x24 x25 end.
Definition set_m_master_key_change_rec v (r : meta) : meta := match r with mkMeta x0 x1 x2 x3 x4 x5 x6 x7 x8 x9 x10 x11 x12 x13 x14 x15 x16 x17 x18 x19 x20 x21 x22 x23 x24 x25 => mkMeta x0 x1 x2 x3 x4 x5 x6 x7 x8 x9 v x11 x12 x13 x14 x15 x16 x17 x18 x19 x20 x21 x22 x23 x24 x25 end.
Definition set_m_master_key_change_force v (r : meta) : meta := match r with mkMeta x0 x1 x2 x3 x4 x5 x6 x7 x8 x9 x10 x11 x12 x13 x14 x15 x16 x17 x18 x19 x20 x21 x22 x23 x24 x25 => mkMeta x0 x1 x2 x3 x4 x5 x6 x7 x8 x9 x10 v x12 x13 x14 x15 x16 x17 x18 x19 x20 x21 x22 x23 x24 x25 end.
Definition set_m_memory_protection v (r : meta) : meta := match r with mkMeta x0 x1 x2 x3 x4 x5 x6 x7 x8 x9 x10 x11 x12 x13 x14 x15 x16 x17 x18 x19 x20 x21 x22 x23 x24 x25 => mkMeta x0 x1 x2 x3 x4 x5 x6 x7 x8 x9 x10 x11 v x13 x14 x15 x16 x17 x18 x19 x20 x21 x22 x23 x24 x25 end.
Definition set_m_custom_icons v (r : meta) : meta := match r with mkMeta x0 x1 x2 x3 x4 x5 x6 x7 x8 x9 x10 x11 x12 x13 x14 x15 x16 x17 x18 x19 x20 x21 x22 x23 x24 x25 => mkMeta x0 x1 x2 x3 x4 x5 x6 x7 x8 x9 x10 x11 x12 v x14 x15 x16 x17 x18 x19 x20 x21 x22 x23 x24 x25 end.
Definition set_m_recyclebin_enabled v (r : meta) : meta := match r with mkMeta x0 x1 x2 x3 x4 x5 x6 x7 x8 x9 x10 x11 x12 x13 x14 x15 x16 x17 x18 x19 x20 x21 x22 x23 x24 x25 => mkMeta x0 x1 x2 x3 x4 x5 x6 x7 x8 x9 x10 x11 x12 x13 v x15 x16 x17 x18 x19 x20 x21 x22 x23 x24 x25 end.
Definition set_m_recyclebin_uuid v (r : meta) : meta := match r with mkMeta x0 x1 x2 x3 x4 x5 x6 x7 x8 x9 x10 x11 x12 x13 x14 x15 x16 x17 x18 x19 x20 x21 x22 x23 x24 x25 => mkMeta x0 x1 x2 x3 x4 x5 x6 x7 x8 x9 x10 x11 x12 x13 x14 v x16 x17 x18 x19 x20 x21 x22 x23 x24 x25 end.
Definition set_m_recyclebin_changed v (r : meta) : meta := match r with mkMeta x0 x1 x2 x3 x4 x5 x6 x7 x8 x9 x10 x11 x12 x13 x14 x15 x16 x17 x18 x19 x20 x21 x22 x23 x24 x25 => mkMeta x0 x1 x2 x3 x4 x5 x6 x7 x8 x9 x10 x11 x12 x13 x14 x15 v x17 x18 x19 x20 x21 x22 x23 x24 x25 end.
Definition set_m_entry_templates_group v (r : meta) : meta := match r with mkMeta x0 x1 x2 x3 x4 x5 x6 x7 x8 x9 x10 x11 x12 x13 x14 x15 x16 x17 x18 x19 x20 x21 x22 x23 x24 x25 => mkMeta x0 x1 x2 x3 x4 x5 x6 x7 x8 x9 x10 x11 x12 x13 x14 x15 x16 v x18 x19 x20 x21 x22 x23 x24 x25 end.
Definition set_m_entry_templates_group_changed v (r : meta) : meta := match r with mkMeta x0 x1 x2 x3 x4 x5 x6 x7 x8 x9 x10 x11 x12 x13 x14 x15 x16 x17 x18 x19 x20 x21 x22 x23 x24 x25 => mkMeta x0 x1 x2 x3 x4 x5 x6 x7 x8 x9 x10 x11 x12 x13 x14 x15 x16 x17 v x19 x20 x21 x22 x23 x24 x25 end.
Definition set_m_last_selected_group v (r : meta) : meta := match r with mkMeta x0 x1 x2 x3 x4 x5 x6 x7 x8 x9 x10 x11 x12 x13 x14 x15 x16 x17 x18 x19 x20 x21 x22 x23 x24 x25 => mkMeta x0 x1 x2 x3 x4 x5 x6 x7 x8 x9 x10 x11 x12 x13 x14 x15 x16 x17 x18 v x20 x21 x22 x23 x24 x25 end.
Definition set_m_last_top_visible_group v (r : meta) : meta := match r with mkMeta x0 x1 x2 x3 x4 x5 x6 x7 x8 x9 x10 x11 x12 x13 x14 x15 x16 x17 x18 x19 x20 x21 x22 x23 x24 x25 => mkMeta x0 x1 x2 x3 x4 x5 x6 x7 x8 x9 x10 x11 x12 x13 x14 x15 x16 x17 x18 x19 v x21 x22 x23 x24 x25 end.
Definition set_m_history_max_items v (r : meta) : meta := match r with mkMeta x0 x1 x2 x3 x4 x5 x6 x7 x8 x9 x10 x11 x12 x13 x14 x15 x16 x17 x18 x19 x20 x21 x22 x23 x24 x25 => mkMeta x0 x1 x2 x3 x4 x5 x6 x7 x8 x9 x10 x11 x12 x13 x14 x15 x16 x17 x18 x19 x20 v x22 x23 x24 x25 end.
Definition set_m_history_max_size v (r : meta) : meta := match r with mkMeta x0 x1 x2 x3 x4 x5 x6 x7 x8 x9 x10 x11 x12 x13 x14 x15 x16 x17 x18 x19 x20 x21 x22 x23 x24 x25 => mkMeta x0 x1 x2 x3 x4 x5 x6 x7 x8 x9 x10 x11 x12 x13 x14 x15 x16 x17 x18 x19 x20 x21 v x23 x24 x25 end.
Definition set_m_settings_changed v (r : meta) : meta := match r with mkMeta x0 x1 x2 x3 x4 x5 x6 x7 x8 x9 x10 x11 x12 x13 x14 x15 x16 x17 x18 x19 x20 x21 x22 x23 x24 x25 => mkMeta x0 x1 x2 x3 x4 x5 x6 x7 x8 x9 x10 x11 x12 x13 x14 x15 x16 x17 x18 x19 x20 x21 x22 v x24 x25 end.
Definition set_m_binaries v (r : meta) : meta := match r with mkMeta x0 x1 x2 x3 x4 x5 x6 x7 x8 x9 x10 x11 x12 x13 x14 x15 x16 x17 x18 x19 x20 x21 x22 x23 x24 x25 => mkMeta x0 x1 x2 x3 x4 x5 x6 x7 x8 x9 x10 x11 x12 x13 x14 x15 x16 x17 x18 x19 x20 x21 x22 x23 v x25 end.
Definition set_m_custom_data v (r : meta) : meta := match r with mkMeta x0 x1 x2 x3 x4 x5 x6 x7 x8 x9 x10 x11 x12 x13 x14 x15 x16 x17 x18 x19 x20 x21 x22 x23 x24 x25 => mkMeta x0 x1 x2 x3 x4 x5 x6 x7 x8 x9 x10 x11 x12 x13 x14 x15 x16 x17 x18 x19 x20 x21 x22 x23 x24 v end.
Definition set_t_expires v (r : times) : times := match r with mkTimes x0 x1 x2 => mkTimes v x1 x2 end.
Definition set_t_usage v (r : times) : times := match r with mkTimes x0 x1 x2 => mkTimes x0 v x2 end.
Definition set_t_times v (r : times) : times := match r with mkTimes x0 x1 x2 => mkTimes x0 x1 v end.
Definition set_cd_value v (r : cditem) : cditem := match r with mkCdItem x0 x1 => mkCdItem v x1 end.
Definition set_cd_time v (r : cditem) : cditem := match r with mkCdItem x0 x1 => mkCdItem x0 v end.
Definition set_as_window v (r : assoc) : assoc := match r with mkAssoc x0 x1 => mkAssoc v x1 end.
Definition set_as_seq v (r : assoc) : assoc := match r with mkAssoc x0 x1 => mkAssoc x0 v end.
Definition set_at_enabled v (r : autotype) : autotype := match r with mkAutoType x0 x1 x2 => mkAutoType v x1 x2 end.
Definition set_at_seq v (r : autotype) : autotype := match r with mkAutoType x0 x1 x2 => mkAutoType x0 v x2 end.
Definition set_at_assocs v (r : autotype) : autotype := match r with mkAutoType x0 x1 x2 => mkAutoType x0 x1 v end.
Definition set_mp_title v (r : memprot) : memprot := match r with mkMemProt x0 x1 x2 x3 x4 => mkMemProt v x1 x2 x3 x4 end.
Definition set_mp_username v (r : memprot) : memprot := match r with mkMemProt x0 x1 x2 x3 x4 => mkMemProt x0 v x2 x3 x4 end.
Definition set_mp_password v (r : memprot) : memprot := match r with mkMemProt x0 x1 x2 x3 x4 => mkMemProt x0 x1 v x3 x4 end.
Definition set_mp_url v (r : memprot) : memprot := match r with mkMemProt x0 x1 x2 x3 x4 => mkMemProt x0 x1 x2 v x4 end.
Definition set_mp_notes v (r : memprot) : memprot := match r with mkMemProt x0 x1 x2 x3 x4 => mkMemProt x0 x1 x2 x3 v end.
Definition set_ic_uuid v (r : icon) : icon := match r with mkIcon x0 x1 => mkIcon v x1 end.
Definition set_ic_data v (r : icon) : icon := match r with mkIcon x0 x1 => mkIcon x0 v end.
Definition set_do_uuid v (r : delobj) : delobj := match r with mkDelObj x0 x1 => mkDelObj v x1 end.
Definition set_do_time v (r : delobj) : delobj := match r with mkDelObj x0 x1 => mkDelObj x0 v end.
Definition set_c_meta v (r : content) : content := match r with mkContent x0 x1 x2 => mkContent v x1 x2 end.
Definition set_c_root v (r : content) : content := match r with mkContent x0 x1 x2 => mkContent x0 v x2 end.
Definition set_c_deleted v (r : content) : content := match r with mkContent x0 x1 x2 => mkContent x0 x1 v end.

(* ------------------------------------------------------------------------------------------ *)
(* Association lists standing for HashMap: insert replaces the value of an equal key in place, else
   appends. *)
Fixpoint assoc_insert {V} (k : bytes) (v : V) (l : list (bytes * V)) : list (bytes * V) :=
  match l with
  | [] => [(k, v)]
  | (k', v') :: r => if bytes_eqb k' k then (k', v) :: r else (k', v') :: assoc_insert k v r
  end.

(* ------------------------------------------------------------------------------------------ *)
(* Text layer facts used at the event level.  xml-rs reports text that consists only of
   ' ' '\t' '\n' '\r' (including the empty text) as Whitespace (or not at all), which parse_from_bytes
   filters out; every other text arrives as one Characters event (coalesce_characters). *)
Definition is_ws (c : N) : bool := N.eqb c 32 || N.eqb c 9 || N.eqb c 10 || N.eqb c 13.
Definition ws_only (t : bytes) : bool := forallb is_ws t.
Definition is_nil {A} (l : list A) : bool := match l with [] => true | _ => false end.

(* ------------------------------------------------------------------------------------------ *)
(* Decimal integers: format!("{}", n) and str::parse::<usize / isize>() *)
Fixpoint le_digits (fuel : nat) (n : N) : list N :=
  match fuel with
  | O => []
  | S f => (n mod 10) :: (if N.ltb n 10 then [] else le_digits f (n / 10))
  end.
Fixpoint le_val (l : list N) : N := match l with [] => 0 | d :: r => d + 10 * le_val r end.
Definition fmt_N (n : N) : bytes := rev (map (fun d => 48 + d) (le_digits (S (N.to_nat (N.log2 n))) n)).
Definition fmt_Z (z : Z) : bytes :=
  match z with Zneg p => 45 :: fmt_N (Npos p) | _ => fmt_N (Z.to_N z) end.

Definition is_digit (c : N) : bool := N.leb 48 c && N.leb c 57.
(* digits only, at least one; the value unbounded (overflow is checked by the callers; Rust checks
   at every step, which fails exactly when the final value is out of range) *)
Definition parse_dec (s : bytes) : option N :=
  match s with
  | [] => None
  | _ => if forallb is_digit s then Some (le_val (rev (map (fun c => c - 48) s))) else None
  end.
(* usize::from_str: an optional '+', then digits; no '-' *)
Definition strip_plus (s : bytes) : bytes :=
  match s with c :: r => if N.eqb c 43 then r else s | [] => s end.
Definition parse_usize (s : bytes) : option N :=
  match parse_dec (strip_plus s) with
  | Some v => if N.ltb v (2 ^ 64) then Some v else None
  | None => None
  end.
(* isize::from_str: an optional '+' or '-', then digits *)
Definition parse_isize (s : bytes) : option Z :=
  match s with
  | c :: r =>
    if N.eqb c 45 then
      match parse_dec r with
      | Some v => if N.leb v (2 ^ 63) then Some (- Z.of_N v)%Z else None
      | None => None
      end
    else
      match parse_dec (strip_plus s) with
      | Some v => if N.ltb v (2 ^ 63) then Some (Z.of_N v) else None
      | None => None
      end
  | [] => None
  end.

(* bool: "True"/"False" out; in: s.to_lowercase().parse::<bool>().  Only the ASCII letters are
   lower-cased here; no non-ASCII character lower-cases to a letter of "true"/"false", so the result
   is the same. *)
Definition fmt_bool (b : bool) : bytes := if b then s_True else s_False.
Definition to_lower (c : N) : N := if N.leb 65 c && N.leb c 90 then c + 32 else c.
Definition parse_bool (s : bytes) : option bool :=
  let l := map to_lower s in
  if bytes_eqb l s_true then Some true else if bytes_eqb l s_false then Some false else None.

(* ------------------------------------------------------------------------------------------ *)
(* Time stamps.  Written: base64 of the i64 little-endian count of seconds since 0001-01-01T00:00:00.
   Read: "%Y-%m-%dT%H:%M:%SZ" first, else base64.
   The ISO reader is modelled for the canonical 20-character form YYYY-MM-DDTHH:MM:SSZ only (chrono
   also accepts shorter numeric fields, a sign and more digits on the year, and white space before
   numbers; such texts are "not ISO" here). *)
Definition epoch_baseline : Z := (-62135596800)%Z.         (* 0001-01-01T00:00:00 in Unix seconds *)
Definition ts_min : Z := (-8334601228800)%Z.               (* NaiveDateTime::MIN  -262143-01-01T00:00:00 *)
Definition ts_max : Z := 8210266876799%Z.                  (* NaiveDateTime::MAX  +262142-12-31T23:59:59 *)
Definition ts_ok (t : Z) : bool := Z.leb ts_min t && Z.leb t ts_max.

Definition i64_enc (v : Z) : bytes := le_enc 8 (Z.to_N (v mod 2 ^ 64)%Z).
Definition i64_dec (b : bytes) : Z :=
  let n := le_dec b in if N.ltb n (2 ^ 63) then Z.of_N n else (Z.of_N n - 2 ^ 64)%Z.

Definition fmt_time (t : Z) : bytes := b64_encode (i64_enc (t - epoch_baseline)).

Definition digit2 (a b : N) : option N :=
  if is_digit a && is_digit b then Some ((a - 48) * 10 + (b - 48)) else None.
Definition is_leap (y : Z) : bool :=
  ((y mod 4 =? 0) && negb (y mod 100 =? 0) || (y mod 400 =? 0))%Z.
Definition days_in_month (y : Z) (m : N) : N :=
  if N.eqb m 2 then (if is_leap y then 29 else 28)
  else if N.eqb m 4 || N.eqb m 6 || N.eqb m 9 || N.eqb m 11 then 30 else 31.
(* days since 1970-01-01 of a proleptic Gregorian date *)
Definition days_from_civil (y : Z) (m d : Z) : Z :=
  (let y' := if m <=? 2 then y - 1 else y in
   let era := y' / 400 in
   let yoe := y' - era * 400 in
   let doy := (153 * (m + (if 2 <? m then -3 else 9)) + 2) / 5 + d - 1 in
   let doe := yoe * 365 + yoe / 4 - yoe / 100 + doy in
   era * 146097 + doe - 719468)%Z.
(* Some t for a canonical ISO text denoting an existing instant (a leap second :60 is accepted by
   chrono and lands in second :59 plus a nanosecond part that the model does not carry) *)
Definition parse_iso (s : bytes) : option Z :=
  if negb (Nat.eqb (length s) 20) then None else
  match s with
  | [y1; y2; y3; y4; 45; m1; m2; 45; d1; d2; 84; h1; h2; 58; n1; n2; 58; s1; s2; 90] =>
    match digit2 y1 y2, digit2 y3 y4, digit2 m1 m2, digit2 d1 d2, digit2 h1 h2, digit2 n1 n2, digit2 s1 s2 with
    | Some ya, Some yb, Some mo, Some da, Some ho, Some mi, Some se =>
      let y := Z.of_N (ya * 100 + yb) in
      if N.leb 1 mo && N.leb mo 12 && N.leb 1 da && N.leb da (days_in_month y mo)
         && N.ltb ho 24 && N.ltb mi 60 && N.leb se 60
      then Some (days_from_civil y (Z.of_N mo) (Z.of_N da) * 86400
                 + Z.of_N ho * 3600 + Z.of_N mi * 60 + Z.of_N (N.min se 59))%Z
      else None
    | _, _, _, _, _, _, _ => None
    end
  | _ => None
  end.

(* parse_xml_timestamp *)
Definition parse_time (s : bytes) : outcome xerr Z :=
  match parse_iso s with
  | Some t => Ok t
  | None =>
    match b64_decode s with
    | None => Err XBase64
    | Some v =>
      if Nat.ltb (length v) 8 then Err XTimestampFormat
      else let t := (i64_dec (firstn 8 v) + epoch_baseline)%Z in
           if ts_ok t then Ok t else Err XTimestampFormat
    end
  end.

(* ------------------------------------------------------------------------------------------ *)
(* UUID (base64 of the 16 bytes), colour, tags *)
Definition parse_uuid (s : bytes) : outcome xerr bytes :=
  match b64_decode s with
  | None => Err XBase64
  | Some v => if Nat.eqb (length v) 16 then Ok v else Err XUuid
  end.
Definition fmt_color_c (c : color) : bytes := let '(r, g, b) := c in fmt_color r g b.
Definition parse_color_c (s : bytes) : outcome xerr color :=
  match parse_color s with Some c => Ok c | None => Err XColor end.

(* tags.join(";") and split(|c| c == ';' || c == ',') *)
Fixpoint join_tags (l : list bytes) : bytes :=
  match l with
  | [] => []
  | [x] => x
  | x :: r => x ++ 59 :: join_tags r
  end.
Definition is_sep (c : N) : bool := N.eqb c 59 || N.eqb c 44.
Fixpoint split_tags (s : bytes) : list bytes :=
  match s with
  | [] => [[]]
  | c :: r => if is_sep c then [] :: split_tags r
              else match split_tags r with
                   | h :: t => (c :: h) :: t
                   | [] => [[c]]
                   end
  end.

(* ------------------------------------------------------------------------------------------ *)
(* String::from_utf8_lossy: every maximal ill-formed prefix of a sequence (core::str::Utf8Chunks)
   becomes U+FFFD *)
Definition fffd : bytes := [239; 191; 189].
Definition second3_ok (b0 b1 : N) : bool :=
  if N.eqb b0 224 then in_rng 160 191 b1 else if N.eqb b0 237 then in_rng 128 159 b1 else cont b1.
Definition second4_ok (b0 b1 : N) : bool :=
  if N.eqb b0 240 then in_rng 144 191 b1 else if N.eqb b0 244 then in_rng 128 143 b1 else cont b1.
Fixpoint utf8_lossy (l : bytes) : bytes :=
  match l with
  | [] => []
  | b0 :: r0 =>
    if N.ltb b0 128 then b0 :: utf8_lossy r0
    else if N.ltb b0 194 then fffd ++ utf8_lossy r0
    else if N.ltb b0 224 then
      match r0 with
      | b1 :: r1 => if cont b1 then b0 :: b1 :: utf8_lossy r1 else fffd ++ utf8_lossy r0
      | [] => fffd
      end
    else if N.ltb b0 240 then
      match r0 with
      | b1 :: r1 =>
        if second3_ok b0 b1 then
          match r1 with
          | b2 :: r2 => if cont b2 then b0 :: b1 :: b2 :: utf8_lossy r2 else fffd ++ utf8_lossy r1
          | [] => fffd
          end
        else fffd ++ utf8_lossy r0
      | [] => fffd
      end
    else if N.ltb b0 245 then
      match r0 with
      | b1 :: r1 =>
        if second4_ok b0 b1 then
          match r1 with
          | b2 :: r2 =>
            if cont b2 then
              match r2 with
              | b3 :: r3 => if cont b3 then b0 :: b1 :: b2 :: b3 :: utf8_lossy r3 else fffd ++ utf8_lossy r2
              | [] => fffd
              end
            else fffd ++ utf8_lossy r1
          | [] => fffd
          end
        else fffd ++ utf8_lossy r0
      | [] => fffd
      end
    else fffd ++ utf8_lossy r0
  end.

(* ------------------------------------------------------------------------------------------ *)
(* The inner stream cipher: XOR with a key stream consumed left to right.  The stream is an explicit
   buffer; a buffer that runs out behaves as zeros (the theorems assume it long enough; Salsa20 and
   ChaCha20 streams do not end in practice).  Plain = a buffer of zeros. *)
Fixpoint xor_ks (data ks : bytes) : bytes :=
  match data with
  | [] => []
  | d :: dr => match ks with
               | k :: kr => N.lxor d k :: xor_ks dr kr
               | [] => d :: xor_ks dr []
               end
  end.
Definition ks_advance (n : nat) (ks : bytes) : bytes := drop n ks.

(* Surface variants of a document, syntactically.

   [kind]: the containers of the format.  [cls k name]: what the reader of a [k] element does with a
   child named [name] - copied from the handler tables of XmlParse.v ([cls_ok] proves the copy right):
     CIgnore  : IgnoreSubfield - the whole child is skipped
     CBad     : the reader fails (BadEvent)
     CLeaf    : SimpleTag, attributes not looked at
     CTime    : SimpleTag holding a time stamp
     CValue   : <Value> (attribute Protected)
     CMetaBin : <Binary> of Meta/Binaries (attributes ID, Compressed, Protected)
     CEntryBin: <Binary> of an Entry (a reference, dropped)
     CSub k'  : a container of kind k'

   [var (SElem k) E E']: E and E' are complete [k] elements that differ only by
     - unknown elements (CIgnore names, any well-bracketed content) inserted or removed between the
       children of any container, at any depth;
     - the attributes of leaves; the text of time stamps, as long as [parse_time] agrees;
     - the attributes of <Value> / <Binary>, as long as the booleans (and ID) they denote agree.
   Theorem [var_sound]: then every parser returns the same result on both, in front of any
   continuation, for every sufficient fuel (value, final key stream, or the same error). *)
From Coq Require Import Lia.
From KP Require Import Bytes Outcome LE Utf8 Base64 Scalars XmlTypes XmlParse XmlCodecProofs XmlSurfaceCore.
Local Open Scope outcome_scope.

Inductive kind :=
| K_file | K_meta | K_root | K_group | K_entry | K_history | K_string | K_times | K_autotype | K_assoc
| K_cdata | K_item | K_memprot | K_icons | K_icon | K_binaries | K_deleted | K_delobj.

Definition tag (k : kind) : bytes :=
  match k with
  | K_file => s_KeePassFile | K_meta => s_Meta | K_root => s_Root | K_group => s_Group | K_entry => s_Entry
  | K_history => s_History | K_string => s_String | K_times => s_Times | K_autotype => s_AutoType
  | K_assoc => s_Association | K_cdata => s_CustomData | K_item => s_Item | K_memprot => s_MemoryProtection
  | K_icons => s_CustomIcons | K_icon => s_Icon | K_binaries => s_Binaries | K_deleted => s_DeletedObjects
  | K_delobj => s_DeletedObject
  end.

Inductive cclass := CIgnore | CBad | CLeaf | CTime | CValue | CMetaBin | CEntryBin | CSub (k : kind).

Definition cls_times (name : bytes) : cclass :=
  if bytes_eqb name s_Expires then CLeaf else if bytes_eqb name s_UsageCount then CLeaf else CTime.
Definition cls_item (name : bytes) : cclass :=
  if bytes_eqb name s_Key then CLeaf else if bytes_eqb name s_Value then CValue
  else if bytes_eqb name s_LastModificationTime then CTime else CBad.
Definition cls_cdata (name : bytes) : cclass := if bytes_eqb name s_Item then CSub K_item else CBad.
Definition cls_assoc (name : bytes) : cclass :=
  if bytes_eqb name s_Window then CLeaf else if bytes_eqb name s_KeystrokeSequence then CLeaf else CIgnore.
Definition cls_autotype (name : bytes) : cclass :=
  if bytes_eqb name s_Enabled then CLeaf else if bytes_eqb name s_DefaultSequence then CLeaf
  else if bytes_eqb name s_DataTransferObfuscation then CLeaf
  else if bytes_eqb name s_Association then CSub K_assoc else CIgnore.
Definition cls_string (name : bytes) : cclass :=
  if bytes_eqb name s_Key then CLeaf else if bytes_eqb name s_Value then CValue else CIgnore.
Definition cls_history (name : bytes) : cclass := if bytes_eqb name s_Entry then CSub K_entry else CIgnore.
Definition cls_entry (name : bytes) : cclass :=
  if bytes_eqb name s_UUID then CLeaf
  else if bytes_eqb name s_Tags then CLeaf
  else if bytes_eqb name s_String then CSub K_string
  else if bytes_eqb name s_CustomData then CSub K_cdata
  else if bytes_eqb name s_Binary then CEntryBin
  else if bytes_eqb name s_AutoType then CSub K_autotype
  else if bytes_eqb name s_Times then CSub K_times
  else if bytes_eqb name s_IconID then CLeaf
  else if bytes_eqb name s_CustomIconUUID then CLeaf
  else if bytes_eqb name s_ForegroundColor then CLeaf
  else if bytes_eqb name s_BackgroundColor then CLeaf
  else if bytes_eqb name s_OverrideURL then CLeaf
  else if bytes_eqb name s_QualityCheck then CLeaf
  else if bytes_eqb name s_History then CSub K_history
  else CIgnore.
Definition cls_group (name : bytes) : cclass :=
  if bytes_eqb name s_UUID then CLeaf
  else if bytes_eqb name s_Name then CLeaf
  else if bytes_eqb name s_Notes then CLeaf
  else if bytes_eqb name s_IconID then CLeaf
  else if bytes_eqb name s_CustomIconUUID then CLeaf
  else if bytes_eqb name s_Times then CSub K_times
  else if bytes_eqb name s_IsExpanded then CLeaf
  else if bytes_eqb name s_DefaultAutoTypeSequence then CLeaf
  else if bytes_eqb name s_EnableAutoType then CLeaf
  else if bytes_eqb name s_EnableSearching then CLeaf
  else if bytes_eqb name s_LastTopVisibleEntry then CLeaf
  else if bytes_eqb name s_Entry then CSub K_entry
  else if bytes_eqb name s_Group then CSub K_group
  else if bytes_eqb name s_CustomData then CSub K_cdata
  else CIgnore.
Definition cls_memprot (name : bytes) : cclass :=
  if bytes_eqb name s_ProtectTitle then CLeaf
  else if bytes_eqb name s_ProtectUserName then CLeaf
  else if bytes_eqb name s_ProtectPassword then CLeaf
  else if bytes_eqb name s_ProtectURL then CLeaf
  else if bytes_eqb name s_ProtectNotes then CLeaf
  else CIgnore.
Definition cls_icon (name : bytes) : cclass :=
  if bytes_eqb name s_UUID then CLeaf else if bytes_eqb name s_Data then CLeaf else CIgnore.
Definition cls_icons (name : bytes) : cclass := if bytes_eqb name s_Icon then CSub K_icon else CIgnore.
Definition cls_binaries (name : bytes) : cclass := if bytes_eqb name s_Binary then CMetaBin else CIgnore.
Definition cls_meta (name : bytes) : cclass :=
  if bytes_eqb name s_Generator then CLeaf
  else if bytes_eqb name s_DatabaseName then CLeaf
  else if bytes_eqb name s_DatabaseNameChanged then CTime
  else if bytes_eqb name s_DatabaseDescription then CLeaf
  else if bytes_eqb name s_DatabaseDescriptionChanged then CTime
  else if bytes_eqb name s_DefaultUserName then CLeaf
  else if bytes_eqb name s_DefaultUserNameChanged then CTime
  else if bytes_eqb name s_MaintenanceHistoryDays then CLeaf
  else if bytes_eqb name s_Color then CLeaf
  else if bytes_eqb name s_MasterKeyChanged then CTime
  else if bytes_eqb name s_MasterKeyChangeRec then CLeaf
  else if bytes_eqb name s_MasterKeyChangeForce then CLeaf
  else if bytes_eqb name s_MemoryProtection then CSub K_memprot
  else if bytes_eqb name s_CustomIcons then CSub K_icons
  else if bytes_eqb name s_RecycleBinEnabled then CLeaf
  else if bytes_eqb name s_RecycleBinUUID then CLeaf
  else if bytes_eqb name s_RecycleBinChanged then CTime
  else if bytes_eqb name s_EntryTemplatesGroup then CLeaf
  else if bytes_eqb name s_EntryTemplatesGroupChanged then CTime
  else if bytes_eqb name s_LastSelectedGroup then CLeaf
  else if bytes_eqb name s_LastTopVisibleGroup then CLeaf
  else if bytes_eqb name s_HistoryMaxItems then CLeaf
  else if bytes_eqb name s_HistoryMaxSize then CLeaf
  else if bytes_eqb name s_SettingsChanged then CTime
  else if bytes_eqb name s_Binaries then CSub K_binaries
  else if bytes_eqb name s_CustomData then CSub K_cdata
  else CIgnore.
Definition cls_delobj (name : bytes) : cclass :=
  if bytes_eqb name s_UUID then CLeaf else if bytes_eqb name s_DeletionTime then CTime else CBad.
Definition cls_deleted (name : bytes) : cclass := if bytes_eqb name s_DeletedObject then CSub K_delobj else CBad.
Definition cls_root (name : bytes) : cclass :=
  if bytes_eqb name s_Group then CSub K_group else if bytes_eqb name s_DeletedObjects then CSub K_deleted else CBad.
Definition cls_file (name : bytes) : cclass :=
  if bytes_eqb name s_Meta then CSub K_meta else if bytes_eqb name s_Root then CSub K_root else CBad.

Definition cls (k : kind) : bytes -> cclass :=
  match k with
  | K_file => cls_file | K_meta => cls_meta | K_root => cls_root | K_group => cls_group | K_entry => cls_entry
  | K_history => cls_history | K_string => cls_string | K_times => cls_times | K_autotype => cls_autotype
  | K_assoc => cls_assoc | K_cdata => cls_cdata | K_item => cls_item | K_memprot => cls_memprot
  | K_icons => cls_icons | K_icon => cls_icon | K_binaries => cls_binaries | K_deleted => cls_deleted
  | K_delobj => cls_delobj
  end.

(* an element the reader of a [k] container does not know *)
Definition unknown (k : kind) (sub : list ev) : Prop :=
  exists n, cls k n = CIgnore /\ well_bracketed n sub.

Definition time_eq (o o' : option bytes) : Prop :=
  match o, o' with
  | Some t, Some t' => parse_time t = parse_time t'
  | None, None => True
  | _, _ => False
  end.

Inductive sort := SElem (k : kind) | SBody (k : kind) | SChild (k : kind).

Section var.
  Variable gunzip : bytes -> option bytes.

  Inductive var : sort -> list ev -> list ev -> Prop :=
  | v_elem k a a' B B' :
      var (SBody k) B B' ->
      var (SElem k) (EStart (tag k) a :: B ++ [EEnd (tag k)]) (EStart (tag k) a' :: B' ++ [EEnd (tag k)])
  | v_nil k : var (SBody k) [] []
  | v_child k E E' B B' : var (SChild k) E E' -> var (SBody k) B B' -> var (SBody k) (E ++ B) (E' ++ B')
  | v_ins_r k sub B B' : unknown k sub -> var (SBody k) B B' -> var (SBody k) B (sub ++ B')
  | v_ins_l k sub B B' : unknown k sub -> var (SBody k) B B' -> var (SBody k) (sub ++ B) B'
  | v_leaf k n a a' o : cls k n = CLeaf -> var (SChild k) (shape n a o) (shape n a' o)
  | v_time k n a a' o o' : cls k n = CTime -> time_eq o o' -> var (SChild k) (shape n a o) (shape n a' o')
  | v_value k n a a' o :
      cls k n = CValue -> attr_bool s_Protected a = attr_bool s_Protected a' ->
      var (SChild k) (shape n a o) (shape n a' o)
  | v_mbin k n a a' o :
      cls k n = CMetaBin -> same_bin_attrs a a' -> var (SChild k) (shape n a o) (shape n a' o)
  | v_ebin k n a a' kn ka ka' kt vn va :
      cls k n = CEntryBin ->
      var (SChild k) (ebin_shape n a kn ka kt vn va) (ebin_shape n a' kn ka' kt vn va)
  | v_sub k k' E E' : cls k (tag k') = CSub k' -> var (SElem k') E E' -> var (SChild k) E E'.

  (* ---------------------------------------------------------------------------------------- *)
  (* the handler tables of XmlParse.v, by kind *)
  Record table := mkTable { tb_St : Type; tb_init : tb_St; tb_child : nat -> bytes -> handler tb_St }.
  Definition TK (k : kind) : table :=
    match k with
    | K_file => mkTable content (mkContent meta_default group_default []) (keepass_child gunzip)
    | K_meta => mkTable meta meta_default (meta_child gunzip)
    | K_root => mkTable (group * list delobj)%type (group_default, []) root_child
    | K_group => mkTable group group_default (fun f => group_child (p_group f) (p_entry f) f)
    | K_entry => mkTable entry entry_new (fun f => entry_child (p_entry f) f)
    | K_history => mkTable (list entry) [] (fun f => history_child (p_entry f))
    | K_string => mkTable (bytes * option value)%type ([], None) (fun _ => string_field_child)
    | K_times => mkTable times times_default (fun _ => times_child)
    | K_autotype => mkTable autotype autotype_default autotype_child
    | K_assoc => mkTable assoc assoc_default (fun _ => assoc_child)
    | K_cdata => mkTable custom_data [] custom_data_child
    | K_item => mkTable (bytes * cditem)%type ([], cditem_default) (fun _ => cditem_child)
    | K_memprot => mkTable memprot memprot_default (fun _ => memprot_child)
    | K_icons => mkTable (list icon) [] icons_child
    | K_icon => mkTable icon icon_default (fun _ => icon_child)
    | K_binaries => mkTable (list binary) [] (fun _ => binaries_child gunzip)
    | K_deleted => mkTable (list delobj) [] deleted_child
    | K_delobj => mkTable delobj delobj_default (fun _ => delobj_child)
    end.
  (* the parser of a [k] element with [fuel]; by computation PK K_entry = p_entry, PK K_group = p_group,
     PK K_times (S n) = p_times n, PK K_meta (S n) = p_meta n, PK K_file (S n) = p_keepass n, ... *)
  Definition PK (k : kind) (fuel : nat) (evs : list ev) (ks : bytes) : pres (tb_St (TK k)) :=
    match fuel with
    | O => OutOfFuel
    | S f => p_element (tag k) (tb_init (TK k)) (tb_child (TK k) f) f evs ks
    end.

  Lemma PK_entry fuel evs ks : PK K_entry fuel evs ks = p_entry fuel evs ks.
  Proof. destruct fuel; reflexivity. Qed.
  Lemma PK_group fuel evs ks : PK K_group fuel evs ks = p_group fuel evs ks.
  Proof. destruct fuel; reflexivity. Qed.
  Lemma PK_file n evs ks : PK K_file (S n) evs ks = p_keepass gunzip n evs ks.
  Proof. reflexivity. Qed.
  Lemma PK_meta n evs ks : PK K_meta (S n) evs ks = p_meta gunzip n evs ks.
  Proof. reflexivity. Qed.
  Lemma PK_times n evs ks : PK K_times (S n) evs ks = p_times n evs ks.
  Proof. reflexivity. Qed.
  Lemma PK_autotype n evs ks : PK K_autotype (S n) evs ks = p_autotype n evs ks.
  Proof. reflexivity. Qed.
  Lemma PK_string n evs ks : PK K_string (S n) evs ks = p_string_field n evs ks.
  Proof. reflexivity. Qed.
  Lemma PK_cdata n evs ks : PK K_cdata (S n) evs ks = p_custom_data n evs ks.
  Proof. reflexivity. Qed.
  Lemma PK_root n evs ks : PK K_root (S n) evs ks = p_root n evs ks.
  Proof. reflexivity. Qed.

  Lemma kopt_time_eq {St} (set : option Z -> St -> St) o o' acc ks :
    time_eq o o' -> kopt parse_time set o acc ks = kopt parse_time set o' acc ks.
  Proof. destruct o, o'; cbn [time_eq kopt]; intro H; try contradiction; [rewrite H|]; reflexivity. Qed.
  Lemma kchars_time_eq {St} (set : Z -> St -> St) o o' acc ks :
    time_eq o o' -> kchars parse_time set o acc ks = kchars parse_time set o' acc ks.
  Proof. destruct o, o'; cbn [time_eq kchars]; intro H; try contradiction; [rewrite H|]; reflexivity. Qed.
  Lemma ktimes_time_eq n o o' acc ks : time_eq o o' -> ktimes n o acc ks = ktimes n o' acc ks.
  Proof. destruct o, o'; cbn [time_eq ktimes]; intro H; try contradiction; [rewrite H|]; reflexivity. Qed.

  (* [cls] says what the tables do *)
  Definition cls_spec (k : kind) (name : bytes) : Prop :=
    match cls k name with
    | CIgnore => forall f, tb_child (TK k) f name = h_ignore
    | CBad => True
    | CLeaf => exists mk : option bytes -> kstep (tb_St (TK k)),
                 forall f a o acc ks X, tb_child (TK k) f name acc (shape name a o ++ X) ks = lift (mk o acc ks) X
    | CTime => exists mk : option bytes -> kstep (tb_St (TK k)),
                 (forall f a o acc ks X, tb_child (TK k) f name acc (shape name a o ++ X) ks = lift (mk o acc ks) X)
                 /\ (forall o o' acc ks, time_eq o o' -> mk o acc ks = mk o' acc ks)
    | CValue => exists set, forall f acc evs ks, tb_child (TK k) f name acc evs ks = h_sub p_value set acc evs ks
    | CMetaBin => exists set, forall f acc evs ks,
                    tb_child (TK k) f name acc evs ks = h_sub (p_binary gunzip) set acc evs ks
    | CEntryBin => forall f acc evs ks, tb_child (TK k) f name acc evs ks = h_ebin acc evs ks
    | CSub k' => exists set, forall f, exists f', f <= f' /\
                   forall acc evs ks, tb_child (TK k) f name acc evs ks = h_sub (PK k' f') set acc evs ks
    end.

  Ltac leaf_branch :=
    first
      [ exact I
      | intro; reflexivity
      | intros; reflexivity
      | eexists; intros; first [ apply simple_chars_den | apply simple_opt_den ]
      | eexists; split;
        [ intros; first [ apply simple_chars_den | apply simple_opt_den ]
        | intros; first [ apply kopt_time_eq | apply kchars_time_eq ]; assumption ]
      | eexists; intros; reflexivity
      | let f := fresh "f" in
        eexists; intro f; first
          [ exists (S f); split; [lia | intros; reflexivity]
          | exists f; split; [lia | intros ? ? ?; destruct f; reflexivity] ] ].
  Ltac walk name :=
    lazymatch goal with
    | |- context [if bytes_eqb name ?s then _ else _] =>
      let E := fresh "E" in destruct (bytes_eqb name s) eqn:E; cbv iota; [leaf_branch | walk name]
    | _ => leaf_branch
    end.

  Lemma cls_ok k name : cls_spec k name.
  Proof.
    unfold cls_spec. destruct k; cbn [cls TK tb_St tb_init tb_child].
    - unfold cls_file, keepass_child. walk name.
    - unfold cls_meta, meta_child. walk name.
    - unfold cls_root, root_child. walk name.
    - unfold cls_group, group_child. walk name.
    - unfold cls_entry, entry_child. walk name.
    - unfold cls_history, history_child. walk name.
    - unfold cls_string, string_field_child. walk name.
    - unfold cls_times. destruct (bytes_eqb name s_Expires) eqn:E1; cbv iota.
      { unfold times_child. rewrite E1. leaf_branch. }
      destruct (bytes_eqb name s_UsageCount) eqn:E2; cbv iota.
      { unfold times_child. rewrite E1, E2. leaf_branch. }
      exists (ktimes name). split.
      + intros _ a o acc ks X. apply times_entry_den; assumption.
      + intros o o' acc ks H. apply ktimes_time_eq. exact H.
    - unfold cls_autotype, autotype_child. walk name.
    - unfold cls_assoc, assoc_child. walk name.
    - unfold cls_cdata, custom_data_child. walk name.
    - unfold cls_item, cditem_child. walk name.
    - unfold cls_memprot, memprot_child. walk name.
    - unfold cls_icons, icons_child. walk name.
    - unfold cls_icon, icon_child. walk name.
    - unfold cls_binaries, binaries_child. walk name.
    - unfold cls_deleted, deleted_child. walk name.
    - unfold cls_delobj, delobj_child. walk name.
  Qed.
End var.

(* ------------------------------------------------------------------------------------------ *)
(* soundness *)
Section sound.
  Variable gunzip : bytes -> option bytes.
  Notation TKg := (TK gunzip).
  Notation PKg := (PK gunzip).

  Definition Sound (s : sort) (E E' : list ev) : Prop :=
    match s with
    | SElem k =>
      exists a a' tl tl', E = EStart (tag k) a :: tl /\ E' = EStart (tag k) a' :: tl' /\
        exists g, forall fuel, eden (PKg k fuel) fuel E g /\ eden (PKg k fuel) fuel E' g
    | SBody k =>
      exists F, forall f, bden (tb_child (TKg k) f) f (tag k) E F /\ bden (tb_child (TKg k) f) f (tag k) E' F
    | SChild k =>
      exists f0, forall f, hden (tb_child (TKg k) f) f E f0 /\ hden (tb_child (TKg k) f) f E' f0
    end.

  Lemma unknown_ignored k sub :
    unknown k sub -> exists n, well_bracketed n sub /\ forall f, tb_child (TKg k) f n = h_ignore.
  Proof.
    intros [n [Hc Hw]]. exists n. split; [exact Hw|].
    pose proof (cls_ok gunzip k n) as S. unfold cls_spec in S. rewrite Hc in S. exact S.
  Qed.

  Theorem var_sound s E E' : var s E E' -> Sound s E E'.
  Proof.
    induction 1 as [k a a' B B' _ IH | k | k E E' B B' _ IH1 _ IH2 | k sub B B' Hu _ IH | k sub B B' Hu _ IH
                    | k n a a' o Hc | k n a a' o o' Hc Ht | k n a a' o Hc Ha | k n a a' o Hc Ha
                    | k n a a' kn ka ka' kt vn va Hc | k k' E E' Hc _ IH]; cbn [Sound] in *.
    - (* element *)
      destruct IH as [F HF]. exists a, a', (B ++ [EEnd (tag k)]), (B' ++ [EEnd (tag k)]).
      split; [reflexivity|]. split; [reflexivity|]. exists (F (tb_init (TKg k))). intros [|f].
      + split; intros ks X Hl; cbn [app length] in Hl; lia.
      + destruct (HF f) as [H1 H2]. split.
        * exact (eden_element (tag k) (tb_init (TKg k)) (tb_child (TKg k) f) f a B F H1).
        * exact (eden_element (tag k) (tb_init (TKg k)) (tb_child (TKg k) f) f a' B' F H2).
    - exists kret. intro f. split; apply bden_nil.
    - destruct IH1 as [f0 H0]. destruct IH2 as [F HF]. exists (kcomp f0 F). intro f.
      destruct (H0 f) as [A1 A2]. destruct (HF f) as [B1 B2]. split; apply bden_cons; assumption.
    - destruct IH as [F HF]. destruct (unknown_ignored k sub Hu) as [n [Hw Hig]]. exists F. intro f.
      destruct (HF f) as [B1 B2]. split; [exact B1|].
      apply (bden_ext _ _ _ _ (kcomp kret F)); [intros; reflexivity|].
      apply bden_cons; [|exact B2]. apply (hden_ignore _ _ n sub (Hig f) Hw).
    - destruct IH as [F HF]. destruct (unknown_ignored k sub Hu) as [n [Hw Hig]]. exists F. intro f.
      destruct (HF f) as [B1 B2]. split; [|exact B2].
      apply (bden_ext _ _ _ _ (kcomp kret F)); [intros; reflexivity|].
      apply bden_cons; [|exact B1]. apply (hden_ignore _ _ n sub (Hig f) Hw).
    - (* leaf *)
      pose proof (cls_ok gunzip k n) as S. unfold cls_spec in S. rewrite Hc in S. destruct S as [mk Hm].
      exists (mk o). intro f. rewrite !shape_cons. split; apply hden_intro; intros acc ks X;
        rewrite <- shape_cons; apply Hm.
    - (* time stamp *)
      pose proof (cls_ok gunzip k n) as S. unfold cls_spec in S. rewrite Hc in S. destruct S as [mk [Hm He]].
      exists (mk o). intro f. rewrite !shape_cons. split; apply hden_intro; intros acc ks X;
        rewrite <- shape_cons; [apply Hm|]. rewrite (He o o' acc ks Ht). apply Hm.
    - (* value *)
      pose proof (cls_ok gunzip k n) as S. unfold cls_spec in S. rewrite Hc in S. destruct S as [set Hs].
      exists (ksub set (kvalue n a o)). intro f. rewrite !shape_cons.
      split; apply (hden_sub_pt _ _ _ _ _ p_value set); try (intros; apply Hs); apply eden_intro; intros ks X;
        rewrite <- shape_cons; [apply value_den|]. rewrite (kvalue_attrs n a a' o ks Ha). apply value_den.
    - (* binary of Meta *)
      pose proof (cls_ok gunzip k n) as S. unfold cls_spec in S. rewrite Hc in S. destruct S as [set Hs].
      exists (ksub set (kmbin gunzip n a o)). intro f. rewrite !shape_cons.
      split; apply (hden_sub_pt _ _ _ _ _ (p_binary gunzip) set); try (intros; apply Hs); apply eden_intro; intros ks X;
        rewrite <- shape_cons; [apply mbin_den|]. rewrite (kmbin_attrs gunzip n a a' o ks Ha). apply mbin_den.
    - (* binary of an Entry *)
      pose proof (cls_ok gunzip k n) as S. unfold cls_spec in S. rewrite Hc in S.
      exists (kebin n vn va). intro f. unfold ebin_shape.
      split; apply hden_intro; intros acc ks X; rewrite S; apply ebin_den.
    - (* container *)
      destruct IH as [a [a' [tl [tl' [-> [-> [g Hg]]]]]]].
      pose proof (cls_ok gunzip k (tag k')) as S. unfold cls_spec in S. rewrite Hc in S. destruct S as [set Hs].
      exists (ksub set g). intro f. destruct (Hs f) as [f' [Hle Hpt]]. destruct (Hg f') as [G1 G2].
      split; apply (hden_sub_pt _ _ _ _ _ (PKg k' f') set); try exact Hpt; eapply eden_mono; eassumption.
  Qed.

  (* the same, compositionally on [Sound] (for variations that [var] does not generate, XmlSurfaceOrder.v) *)
  Lemma Sound_nil k : Sound (SBody k) [] [].
  Proof. exists kret. intro f. split; apply bden_nil. Qed.
  Lemma Sound_elem k a a' B B' :
    Sound (SBody k) B B' ->
    Sound (SElem k) (EStart (tag k) a :: B ++ [EEnd (tag k)]) (EStart (tag k) a' :: B' ++ [EEnd (tag k)]).
  Proof.
    intros [F HF]. exists a, a', (B ++ [EEnd (tag k)]), (B' ++ [EEnd (tag k)]).
    split; [reflexivity|]. split; [reflexivity|]. exists (F (tb_init (TKg k))). intros [|f].
    - split; intros ks X Hl; cbn [app length] in Hl; lia.
    - destruct (HF f) as [H1 H2]. split.
      + exact (eden_element (tag k) (tb_init (TKg k)) (tb_child (TKg k) f) f a B F H1).
      + exact (eden_element (tag k) (tb_init (TKg k)) (tb_child (TKg k) f) f a' B' F H2).
  Qed.
  Lemma Sound_child_cons k E E' B B' :
    Sound (SChild k) E E' -> Sound (SBody k) B B' -> Sound (SBody k) (E ++ B) (E' ++ B').
  Proof.
    intros [f0 H0] [F HF]. exists (kcomp f0 F). intro f.
    destruct (H0 f) as [A1 A2]. destruct (HF f) as [B1 B2]. split; apply bden_cons; assumption.
  Qed.
  Lemma Sound_ins_r k sub B B' : unknown k sub -> Sound (SBody k) B B' -> Sound (SBody k) B (sub ++ B').
  Proof.
    intros Hu [F HF]. destruct (unknown_ignored k sub Hu) as [n [Hw Hig]]. exists F. intro f.
    destruct (HF f) as [B1 B2]. split; [exact B1|].
    apply (bden_ext _ _ _ _ (kcomp kret F)); [intros; reflexivity|].
    apply bden_cons; [|exact B2]. apply (hden_ignore _ _ n sub (Hig f) Hw).
  Qed.
  Lemma Sound_ins_l k sub B B' : unknown k sub -> Sound (SBody k) B B' -> Sound (SBody k) (sub ++ B) B'.
  Proof.
    intros Hu [F HF]. destruct (unknown_ignored k sub Hu) as [n [Hw Hig]]. exists F. intro f.
    destruct (HF f) as [B1 B2]. split; [|exact B2].
    apply (bden_ext _ _ _ _ (kcomp kret F)); [intros; reflexivity|].
    apply bden_cons; [|exact B1]. apply (hden_ignore _ _ n sub (Hig f) Hw).
  Qed.
  Lemma Sound_sub k k' E E' : cls k (tag k') = CSub k' -> Sound (SElem k') E E' -> Sound (SChild k) E E'.
  Proof.
    intros Hc [a [a' [tl [tl' [-> [-> [g Hg]]]]]]].
    pose proof (cls_ok gunzip k (tag k')) as S. unfold cls_spec in S. rewrite Hc in S. destruct S as [set Hs].
    exists (ksub set g). intro f. destruct (Hs f) as [f' [Hle Hpt]]. destruct (Hg f') as [G1 G2].
    split; apply (hden_sub_pt _ _ _ _ _ (PKg k' f') set); try exact Hpt; eapply eden_mono; eassumption.
  Qed.
  (* a run of children in front of a body *)
  Lemma Sound_prefix_gen s B1 B1' :
    var s B1 B1' -> forall k, s = SBody k -> forall B B', Sound (SBody k) B B' -> Sound (SBody k) (B1 ++ B) (B1' ++ B').
  Proof.
    induction 1 as [k a a' B0 B0' _ _ | k | k E E' B0 B0' HE _ _ IH2 | k sub B0 B0' Hu _ IH | k sub B0 B0' Hu _ IH
                    | k n a a' o Hc | k n a a' o o' Hc Ht | k n a a' o Hc Ha | k n a a' o Hc Ha
                    | k n a a' kn ka ka' kt vn va Hc | k k' E E' Hc _ _];
      intros k0 Heq B B' HB; try discriminate; inversion Heq; subst k0.
    - exact HB.
    - rewrite <- !app_assoc. apply Sound_child_cons; [apply (var_sound _ _ _ HE)|]. apply IH2; [reflexivity|exact HB].
    - rewrite <- app_assoc. apply Sound_ins_r; [exact Hu|]. apply IH; [reflexivity|exact HB].
    - rewrite <- app_assoc. apply Sound_ins_l; [exact Hu|]. apply IH; [reflexivity|exact HB].
  Qed.
  Lemma Sound_prefix k B1 B1' B B' :
    var (SBody k) B1 B1' -> Sound (SBody k) B B' -> Sound (SBody k) (B1 ++ B) (B1' ++ B').
  Proof. intros V HB. exact (Sound_prefix_gen _ _ _ V k eq_refl _ _ HB). Qed.

  Lemma Sound_elem_same k E E' :
    Sound (SElem k) E E' ->
    forall fuel fuel' X ks, length (E ++ X) <= fuel -> length (E' ++ X) <= fuel' ->
      PKg k fuel (E ++ X) ks = PKg k fuel' (E' ++ X) ks.
  Proof.
    intros [a [a' [tl [tl' [_ [_ [g Hg]]]]]]] fuel fuel' X ks Hl Hl'.
    destruct (Hg fuel) as [G1 _]. destruct (Hg fuel') as [_ G2]. rewrite (G1 ks X Hl), (G2 ks X Hl'). reflexivity.
  Qed.

  (* same result in front of any continuation, for any sufficient fuel *)
  Corollary var_elem_same k E E' :
    var (SElem k) E E' ->
    forall fuel fuel' X ks, length (E ++ X) <= fuel -> length (E' ++ X) <= fuel' ->
      PKg k fuel (E ++ X) ks = PKg k fuel' (E' ++ X) ks.
  Proof.
    intros V fuel fuel' X ks Hl Hl'. destruct (var_sound _ _ _ V) as [a [a' [tl [tl' [_ [_ [g Hg]]]]]]].
    destruct (Hg fuel) as [G1 _]. destruct (Hg fuel') as [_ G2]. rewrite (G1 ks X Hl), (G2 ks X Hl'). reflexivity.
  Qed.

  Theorem var_keepass d d' :
    var (SElem K_file) d d' ->
    forall n n' X ks, length (d ++ X) <= S n -> length (d' ++ X) <= S n' ->
      p_keepass gunzip n (d ++ X) ks = p_keepass gunzip n' (d' ++ X) ks.
  Proof. intros V n n' X ks Hl Hl'. exact (var_elem_same K_file d d' V (S n) (S n') X ks Hl Hl'). Qed.

  (* the document level: same content or same error, same final key stream *)
  Theorem var_parse_events d d' :
    var (SElem K_file) d d' -> forall ks, parse_events gunzip d ks = parse_events gunzip d' ks.
  Proof.
    intros V ks. unfold parse_events.
    pose proof (var_keepass d d' V (length d) (length d') [] ks) as H. rewrite !app_nil_r in H.
    rewrite H by lia. reflexivity.
  Qed.
End sound.
